(* C39  Relays forward only for the pair they were set up for.  Property theorems only.

   The node is model/Relay.v: [run (init me am) ops] ranges over ALL histories of tunnel insertions / deletions,
   am_relay reloads, control messages (any tunnel, any addresses and indexes, v1/v2, duplicates), StartRelays and
   InsertRelayTo.  What the two control handlers decide is looked up in gen/Tab_Relay.v, which is regenerated from the
   real HandleControlMsg on every run. *)
From Coq Require Import List NArith Bool.
Import ListNotations.
From NV Require Import lib.Relay_lib gen.Tab_Relay model.Relay
  proofs.Relay_tab proofs.Relay_inv proofs.Relay_step proofs.Relay_proofs.
Open Scope N_scope.

(* ---- the constants the model speaks about are the ones of the code --------------------------------------------------------- *)
Lemma relay_states_doc : (c_requested, c_peer_requested, c_established, c_disestablished) = (0, 1, 2, 3).
Proof. reflexivity. Qed.
Lemma relay_types_doc : (c_forwarding_type, c_terminal_type) = (1, 2).
Proof. reflexivity. Qed.

(* ---- forwarding ---------------------------------------------------------------------------------------------------------------- *)

(* Whenever the lookups of handleOutsideRelayPacket forward a packet received on tunnel h under relay index idx to
   tunnel t under record r (see the fields of [forward_facts]): the incoming record is a forwarding record that was
   created while this node had am_relay and names an address that is not this node's; t is a live tunnel in the
   address list of exactly that address and certified for it; r is an Established forwarding record of t (created
   while am_relay) for one of h's certified addresses, not this node's. *)
Theorem C39_forward_sound : forall me am ops h idx t r,
  forward (run (init me am) ops) h idx = Some (t, r) ->
  exists th tq rin, forward_facts (run (init me am) ops) h idx t r th tq rin /\
                    ~ In (r_peer rin) me /\ ~ In (r_peer r) me.
Proof. intros me am ops h idx t r. exact (forward_sound_reach me am _ h idx t r (reach_run me am ops)). Qed.
Print Assumptions C39_forward_sound.

(* The receive path finds the source tunnel through HostMap.Relays: it is the live tunnel that owns the index. *)
Theorem C39_receive_path : forall me am ops idx h t r,
  forward_pkt (run (init me am) ops) idx = Some (h, t, r) ->
  mget idx (s_relays (run (init me am) ops)) = Some h /\
  exists th tq rin, forward_facts (run (init me am) ops) h idx t r th tq rin /\ t_alive th = true /\
                    ~ In (r_peer rin) me /\ ~ In (r_peer r) me.
Proof. intros me am ops idx h t r. exact (forward_pkt_sound_reach me am _ idx h t r (reach_run me am ops)). Qed.
Print Assumptions C39_receive_path.

(* The gates of both handlers, for every row of the generated tables: forwarding state is created, the target leg
   touched and a request passed on only with am_relay, for a target and a source that are not this node, towards a
   known peer with a direct address; a request naming this node as source does nothing; as target only terminal
   state is created and the answer goes back on the same tunnel; a response completes only the record it names,
   touches / informs only the peer of a forwarding record, and never creates anything. *)
Theorem C39_request_gates : forall r, exists a, req_decide r = Some a /\ qrow_gate_ok (r, a) = true.
Proof. exact req_decide_total. Qed.
Print Assumptions C39_request_gates.
Theorem C39_response_gates : forall r, xfeasible r = true -> exists a, resp_decide r = Some a /\ xrow_gate_ok (r, a) = true.
Proof. exact resp_decide_total. Qed.
Print Assumptions C39_response_gates.

(* Never back to the sender - as long as no tunnel asks for a relay to one of its own addresses ([reach_wf]) ... *)
Theorem C39_no_reflection : forall me am s h idx t r,
  reach_wf me am s -> forward s h idx = Some (t, r) -> t <> h.
Proof. exact no_reflection_reach. Qed.
Print Assumptions C39_no_reflection.

(* ... and in any history only over a record that names one of the sender's own addresses. *)
Theorem C39_reflection_needs_own_address : forall me am ops h idx r,
  forward (run (init me am) ops) h idx = Some (h, r) ->
  exists th rin, tun (run (init me am) ops) h = Some th /\ rec_by_idx (t_recs th) idx = Some rin /\
                 In (r_peer rin) (t_addrs th).
Proof. intros me am ops h idx r. exact (reflection_reach me am _ h idx r (reach_run me am ops)). Qed.
Print Assumptions C39_reflection_needs_own_address.

(* Without that hypothesis the claim is false in the code: a tunnel that requests a relay to its own address and
   confirms the record itself gets its packets sent back (reproduced on the implementation by harness `relay`). *)
Theorem C39_reflection_refuted :
  exists ops h idx r, forward (run (init [167772161] true) ops) h idx = Some (h, r) /\
                      wf_run (init [167772161] true) ops = false.
Proof. exists self_ops, 0, 46339. exact self_relay_reflects. Qed.
Print Assumptions C39_reflection_refuted.

(* ---- transitions ---------------------------------------------------------------------------------------------------------------- *)

(* The transitions the generated tables perform are exactly the message transitions written down in model/Relay.v. *)
Theorem C39_table_transitions_pinned : forall p, In p table_transitions <-> In p message_transitions.
Proof. exact table_transitions_iff. Qed.
Print Assumptions C39_table_transitions_pinned.

(* Every step of every history keeps every record (same peer, index, type) and moves its state only as the kind of
   step allows ([op_ok]: a message into Requested / Established, StartRelays Disestablished -> Requested, losing a
   tunnel into Disestablished, nothing else); in particular along the documented transitions or the conservative ones. *)
Theorem C39_transitions : forall me am ops o x t r,
  tun (run (init me am) ops) x = Some t -> In r (t_recs t) ->
  exists t' r', tun (step_state (run (init me am) ops) o) x = Some t' /\ In r' (t_recs t') /\
                r_peer r' = r_peer r /\ r_idx r' = r_idx r /\ r_ty r' = r_ty r /\
                op_ok o (r_st r) (r_st r') /\
                (r_st r = r_st r' \/ In (r_st r, r_st r') allowed_transitions).
Proof. intros me am ops o x t r. exact (transitions_reach me am _ o x t r (reach_run me am ops)). Qed.
Print Assumptions C39_transitions.

(* allowed = documented ++ conservative = every change except one into PeerRequested; the conservative ones never
   enter Established; Established is entered by control messages only *)
Theorem C39_allowed_transitions : forall a b, In (a, b) allowed_transitions <-> a <> b /\ b <> SPeerReq.
Proof. exact allowed_transitions_char. Qed.
Print Assumptions C39_allowed_transitions.
Theorem C39_conservative_never_establish : forall a b, In (a, b) conservative_transitions -> b <> SEst.
Proof. exact conservative_never_establish. Qed.
Print Assumptions C39_conservative_never_establish.
Theorem C39_established_by_message_only : forall o a b,
  op_ok o a b -> b = SEst -> a <> SEst -> exists h w cs, o = OMsg h w cs.
Proof. exact established_by_message_only. Qed.
Print Assumptions C39_established_by_message_only.

(* ---- clean-up ---------------------------------------------------------------------------------------------------------------------- *)

(* After a tunnel is deleted, and whatever happens later, no Relays entry, no Indexes entry and no address list refers
   to it, and it is neither source nor target of a forwarded packet. *)
Theorem C39_cleanup : forall me am ops1 h t ops2,
  tun (run (init me am) ops1) h = Some t ->
  let s' := run (step_state (run (init me am) ops1) (ODel h)) ops2 in
  (forall i, mget i (s_relays s') <> Some h) /\ (forall i, mget i (s_index s') <> Some h) /\
  (forall a, ~ In h (hostlist s' a)) /\
  (forall idx x y r, forward_pkt s' idx = Some (x, y, r) -> x <> h /\ y <> h).
Proof. intros me am ops1 h t ops2 E. exact (cleanup me am _ h t ops2 (reach_run me am ops1) E). Qed.
Print Assumptions C39_cleanup.

(* When the deleted tunnel was the last one for each of its addresses, every tunnel of every peer it had a forwarding
   record for has its record for the lost peer's first address Disestablished. *)
Theorem C39_peer_legs_disestablished : forall me am ops h t r,
  tun (run (init me am) ops) h = Some t ->
  (forall a x, In a (t_addrs t) -> In x (hostlist (run (init me am) ops) a) -> x = h) ->
  In r (t_recs t) -> r_ty r = TFwd ->
  forall x tx r', In x (hostlist (step_state (run (init me am) ops) (ODel h)) (r_peer r)) ->
                  tun (step_state (run (init me am) ops) (ODel h)) x = Some tx ->
                  In r' (t_recs tx) -> r_peer r' = addr0 t -> r_st r' = SDis.
Proof. intros me am ops h t r E. exact (peer_legs_reach me am _ h t r (reach_run me am ops) E). Qed.
Print Assumptions C39_peer_legs_disestablished.

(* ---- the hypotheses are satisfiable, the statements not vacuous ------------------------------------------------------------- *)
Example C39_nonvacuous :
  reach_wf [167772161] true happy_state /\
  (exists r, forward happy_state 0 7002 = Some (1, r) /\ r_idx r = 7001 /\ r_rem r = 601) /\
  (exists r, forward happy_state 1 7001 = Some (0, r) /\ r_idx r = 7002 /\ r_rem r = 501) /\
  forward_pkt happy_state 9999 = None.
Proof. split; [exact happy_wf | exact happy_forwards]. Qed.

(* C32  Pending handshakes retry, give up, and release queued packets correctly.  Property theorems only.
   Model: model/HsRetry.v (pending handshakes by address + the outbound handshake timer wheel of model/Wheel.v,
   C33), tied to /repo (handshake_manager.go handleOutbound / cachePacket / NextOutboundHandshakeTimerTick /
   continueHandshake, inside.go sendMessageNow, timeout.go) by the correspondence corr/HsRetry_corr.v (harness
   component `hsretry`: real HandshakeManager, explicit clock, recording socket, real outbound firewall).

   [rrun cfg (rinit cfg) ops] ranges over ALL histories of: StartHandshake, queued inside packets, remote-list
   updates, lighthouse triggers, timer ticks at any instants, completions and wrong-responder restarts, for ALL
   tryInterval >= 2 ns, ALL retries >= 0 and ALL outbound rule sets (cfg_ok).  Time is Z nanoseconds.
   A timer entry is (address, serial number of its Timer.Add); the serial is ghost and only names the entry. *)
From Coq Require Import List ZArith NArith.
Import ListNotations.
From NV Require Import gen.Consts_HsMgr model.Wheel model.HsRetry proofs.HsRetry_proofs proofs.HsRetry_props.
Open Scope Z_scope.

(* "at most 100 packets": the constant is generated from the code on every run *)
Lemma max_cached_doc : maxCachedPackets = 100%N.
Proof. reflexivity. Qed.

(* ---- the queue ---- *)

(* after any history the queue of every pending handshake holds at most maxCachedPackets packets *)
Theorem C32_queue_bound : forall cfg ops a e, cfg_ok cfg ->
  mget a (pend (rrun cfg (rinit cfg) ops)) = Some e -> (N.of_nat (length (p_store e)) <= maxCachedPackets)%N.
Proof. exact queue_bound. Qed.
Print Assumptions C32_queue_bound.

(* a packet for a pending handshake is appended at the end while fewer than maxCachedPackets are queued; later
   packets are dropped; nothing else changes and nothing is sent *)
Theorem C32_cache : forall cfg s a e p,
  mget a (pend s) = Some e ->
  let r := rstep cfg (RCache a p) s in
  snd r = [] /\ wh (fst r) = wh s /\ ridx (fst r) = ridx s /\
  exists e', mget a (pend (fst r)) = Some e' /\ p_id e' = p_id e /\ p_counter e' = p_counter e /\
    p_ready e' = p_ready e /\
    p_store e' = if (N.of_nat (length (p_store e)) <? maxCachedPackets)%N then p_store e ++ [p] else p_store e.
Proof. exact cache_spec. Qed.
Print Assumptions C32_cache.

(* on completion the packets sent are exactly the queued packets the outbound firewall oracle allows, each once,
   in queue order; the pending entry and its index are removed; the timer wheel is not touched *)
Theorem C32_release : forall cfg s a e,
  mget a (pend s) = Some e -> p_ready e = true ->
  let r := rstep cfg (RComplete a) s in
  snd r = map (fun p => RData (k_tag p)) (filter (fw_allows cfg) (p_store e)) /\
  mget a (pend (fst r)) = None /\ ~ In (p_id e) (ridx (fst r)) /\ wh (fst r) = wh s.
Proof. exact release. Qed.
Print Assumptions C32_release.

(* on a wrong-responder restart the queue moves intact to the new attempt (fresh hostinfo, counter 0), nothing
   queued is sent, the old index is removed, the timer is armed with tryInterval for the new attempt *)
Theorem C32_restart_keeps_queue : forall cfg s a e v,
  mget a (pend s) = Some e -> p_ready e = true ->
  let r := rstep cfg (RWrong a v) s in
  snd r = [] /\ ~ In (p_id e) (ridx (fst r)) /\
  (exists e', mget a (pend (fst r)) = Some e' /\ p_store e' = p_store e /\ p_id e' = rnxt s /\
              p_counter e' = 0 /\ p_ready e' = false) /\
  wh (fst r) = add (a, rser s) (r_interval cfg) (wh s) /\ tr (fst r) = tr s ++ [OAdd (a, rser s) (r_interval cfg)].
Proof. exact restart_keeps_queue. Qed.
Print Assumptions C32_restart_keeps_queue.

(* the tun reader interleaved with the UDP reader: an inside packet that goes through GetOrHandshake + cachePacket
   while continueHandshake is between the receipt of the stage 2 and Complete (it holds the HandshakeHostInfo lock;
   cachePacket runs under the manager's lock) belongs to the queue that is replayed: every packet cachePacket
   stored is sent exactly once, in order, if the firewall allows it; one that found the queue full is dropped *)
Theorem C32_release_interleaved : forall cfg s a e p,
  mget a (pend s) = Some e -> p_ready e = true ->
  let r := rstep cfg (RCompleteQ a p) s in
  let q := if (N.of_nat (length (p_store e)) <? maxCachedPackets)%N then p_store e ++ [p] else p_store e in
  snd r = map (fun p => RData (k_tag p)) (filter (fw_allows cfg) q) /\
  mget a (pend (fst r)) = None /\ ~ In (p_id e) (ridx (fst r)).
Proof. exact release_interleaved. Qed.
Print Assumptions C32_release_interleaved.

(* the same interleaving with a wrong responder: the packet moves to the new attempt with the rest of the queue *)
Theorem C32_restart_interleaved : forall cfg s a e v p,
  mget a (pend s) = Some e -> p_ready e = true ->
  let r := rstep cfg (RWrongQ a v p) s in
  let q := if (N.of_nat (length (p_store e)) <? maxCachedPackets)%N then p_store e ++ [p] else p_store e in
  snd r = [] /\ exists e', mget a (pend (fst r)) = Some e' /\ p_store e' = q /\ p_counter e' = 0.
Proof. exact restart_interleaved. Qed.
Print Assumptions C32_restart_interleaved.

(* ---- attempts ---- *)

(* StartHandshake: counter 0, the timer armed with tryInterval *)
Theorem C32_start_arms : forall cfg s a remotes,
  mget a (pend s) = None ->
  let r := rstep cfg (RStart a remotes) s in
  snd r = [] /\
  (exists e, mget a (pend (fst r)) = Some e /\ p_id e = rnxt s /\ p_counter e = 0 /\ p_ready e = false /\ p_store e = []) /\
  wh (fst r) = add (a, rser s) (r_interval cfg) (wh s) /\ tr (fst r) = tr s ++ [OAdd (a, rser s) (r_interval cfg)].
Proof. exact start_arms. Qed.
Print Assumptions C32_start_arms.

(* one call of handleOutbound while attempts are left: the counter goes up by exactly one; timer driven: stage 0
   goes to every remote and the timer is re-armed with tryInterval * (new counter) - the linear backoff;
   lighthouse triggered: the timer wheel is not touched (the instant of the next timer-driven call does not
   move) and stage 0 goes out only when the remote list changed since the last transmission *)
Theorem C32_attempt : forall cfg s a e lh,
  mget a (pend s) = Some e -> p_counter e < r_retries cfg ->
  let r := handle cfg a lh s in
  let c := p_counter e + 1 in
  (exists e', mget a (pend (fst r)) = Some e' /\ p_id e' = p_id e /\ p_counter e' = c /\ p_ready e' = true /\
              p_store e' = p_store e) /\
  ridx (fst r) = (if p_ready e then ridx s else ridx s ++ [p_id e]) /\
  (lh = false ->
     snd r = map (RSend (p_id e)) (p_remotes e) /\
     wh (fst r) = add (a, rser s) (r_interval cfg * c) (wh s) /\
     tr (fst r) = tr s ++ [OAdd (a, rser s) (r_interval cfg * c)]) /\
  (lh = true ->
     wh (fst r) = wh s /\ tr (fst r) = tr s /\
     snd r = if nl_eqb (p_remotes e) (p_last e) then [] else map (RSend (p_id e)) (p_remotes e)).
Proof. exact attempt. Qed.
Print Assumptions C32_attempt.

(* with all attempts used up the next call removes the pending entry and its index, sends nothing and does not
   re-arm the timer *)
Theorem C32_gives_up : forall cfg s a e lh,
  mget a (pend s) = Some e -> r_retries cfg <= p_counter e ->
  let r := handle cfg a lh s in
  snd r = [] /\ mget a (pend (fst r)) = None /\ ~ In (p_id e) (ridx (fst r)) /\ wh (fst r) = wh s /\ tr (fst r) = tr s.
Proof. exact gives_up. Qed.
Print Assumptions C32_gives_up.

(* exactly [retries] attempts: a pending handshake (counter c) is still pending - same hostinfo, same queue, counter
   c + k - after any k calls with c + k <= retries, and the call after the retries-th removes it *)
Theorem C32_survives : forall cfg a fl s e,
  mget a (pend s) = Some e -> p_counter e + Z.of_nat (length fl) <= r_retries cfg ->
  exists e', mget a (pend (handles cfg a fl s)) = Some e' /\ p_id e' = p_id e /\
             p_counter e' = p_counter e + Z.of_nat (length fl) /\ p_store e' = p_store e.
Proof. exact survives. Qed.
Print Assumptions C32_survives.

Theorem C32_gives_up_after : forall cfg a fl lh s e,
  mget a (pend s) = Some e -> p_counter e + Z.of_nat (length fl) = r_retries cfg ->
  let s' := handles cfg a fl s in
  let r := handle cfg a lh s' in
  snd r = [] /\ mget a (pend (fst r)) = None /\ ~ In (p_id e) (ridx (fst r)) /\ wh (fst r) = wh s' /\ tr (fst r) = tr s'.
Proof. exact gives_up_after. Qed.
Print Assumptions C32_gives_up_after.

(* a timer entry whose handshake is gone (completed, restarted, timed out) does nothing when it fires *)
Theorem C32_stale_entry : forall cfg s a lh, mget a (pend s) = None -> handle cfg a lh s = (s, []).
Proof. exact stale_entry. Qed.
Print Assumptions C32_stale_entry.

(* ---- timing ---- *)

(* every Timer.Add of any history asks for tryInterval * c' with c' an attempt number (1 for StartHandshake),
   which the wheel turns into exactly c' ticks *)
Theorem C32_entry_timeout : forall cfg ops x T, cfg_ok cfg ->
  In (OAdd x T) (tr (rrun cfg (rinit cfg) ops)) ->
  exists c', T = r_interval cfg * c' /\ 1 <= c' /\ (c' <= r_retries cfg \/ c' = 1) /\ nticks (W0 cfg) T = c'.
Proof. exact entry_timeout. Qed.
Print Assumptions C32_entry_timeout.

(* The timing of one timer entry, with a clock that never steps back.  Entry (a, k) was added with timeout T after
   the tick at instant c (only Adds and Purges in between); n = nticks T (= the attempt number, by the theorem
   above).  While no later tick has an instant beyond c + n * tryInterval the entry is still waiting in its slot -
   handleOutbound has not been called for it; once a later tick has an instant >= c + (n + 1) * tryInterval, Purge
   has returned it - handleOutbound(a, false) was called for it, at most one tick late - and it has left the wheel. *)
Theorem C32_entry_timing : forall cfg ops h0 c hq a k T h2, cfg_ok cfg ->
  clock_ok 1 None (map (@OAdvance (N * N)) (ticks ops)) ->
  let s := rrun cfg (rinit cfg) ops in
  tr s = h0 ++ OAdvance c :: hq ++ OAdd (a, k) T :: h2 -> nows hq = [] ->
  let n := nticks (W0 cfg) T in
  ((forall now, In now (nows h2) -> now <= c + n * r_interval cfg) ->
     In (a, k) (waiting (wh s)) /\ ~ In (a, k) (outs (tr s) (W0 cfg))) /\
  ((exists now, In now (nows h2) /\ c + (n + 1) * r_interval cfg <= now) ->
     In (a, k) (outs (tr s) (W0 cfg)) /\ ~ In (a, k) (waiting (wh s))).
Proof. exact entry_timing. Qed.
Print Assumptions C32_entry_timing.

(* the state's wheel is the run of the traced wheel operations from NewTimerWheel(tryInterval, hsTimeout), no
   expired item is left between operations, and the entries carry distinct serials *)
Theorem C32_trace : forall cfg, cfg_ok cfg -> forall ops, RInv cfg (rrun cfg (rinit cfg) ops).
Proof. exact rinv_reachable. Qed.
Print Assumptions C32_trace.

(* ---- what the code does differently from the plain reading of the property (witnesses) ---- *)

(* "lighthouse-triggered sends do not change the schedule" holds for the timer wheel (C32_attempt) but not for the
   attempt count: a trigger counts as an attempt even when it sends nothing.  retries = 2: two triggers (the
   second sends nothing) and the first timer-driven call already gives up, without a single timer-driven
   transmission. *)
Example C32_trigger_consumes_attempts_refuted :
  let cfg := mkRC 10 2 [] in
  let ops := [RTick 0; RStart 3 [1%N]; RTrigger 3; RTrigger 3] in
  let s := rrun cfg (rinit cfg) ops in
  routs cfg (rinit cfg) ops = [RSend 1 1] /\
  (exists e, mget 3 (pend s) = Some e /\ p_counter e = 2) /\
  rstep cfg (RTick 20) s = (fst (rstep cfg (RTick 20) s), []) /\ pend (fst (rstep cfg (RTick 20) s)) = [].
Proof. vm_compute. repeat split; try reflexivity. eexists. split; reflexivity. Qed.

(* "the k-th transmission follows the previous one by tryInterval * k" holds per timer entry (C32_entry_timing)
   but the wheel has no removal: after a wrong-responder restart the entry of the abandoned attempt keeps
   turning next to the new one, and both drive the restarted handshake.  Here the restarted handshake (hostinfo 2)
   transmits twice in the single tick at instant 40. *)
Example C32_stale_entry_doubles_refuted :
  let cfg := mkRC 10 5 [] in
  let ops := [RTick 0; RStart 3 [1%N]; RTick 20; RWrong 3 2] in
  let s := rrun cfg (rinit cfg) ops in
  snd (rstep cfg (RTick 40) s) = [RSend 2 1; RSend 2 1] /\
  (exists e, mget 3 (pend (fst (rstep cfg (RTick 40) s))) = Some e /\ p_counter e = 2).
Proof. vm_compute. split; [reflexivity|]. eexists. split; reflexivity. Qed.

(* Non-vacuity: retries = 3, tryInterval = 10.  Transmissions at the ticks 20, 40, 70 (1, 2, 3 intervals after
   the previous attempt, one tick for the wheel), given up at 110; a queue of 100 takes no 101st packet; completion
   releases exactly the packets to allowed ports, in order. *)
Example C32_nonvacuous :
  let cfg := mkRC 10 3 [1000%N] in
  let start := [RTick 0; RStart 3 [1%N]; RCache 3 (mkPkt 1 1000); RCache 3 (mkPkt 2 53); RCache 3 (mkPkt 3 1000)] in
  let ticks := map RTick [10; 20; 30; 40; 50; 60; 70; 80; 90; 100; 110] in
  map (fun o => length (snd (rstep cfg o (rrun cfg (rinit cfg) start)))) [RTick 10] = [0%nat] /\
  routs cfg (rinit cfg) (start ++ ticks) = [RSend 1 1; RSend 1 1; RSend 1 1] /\
  map (fun n => length (routs cfg (rinit cfg) (start ++ map RTick n)))
      [[10]; [10; 20]; [10; 20; 30]; [10; 20; 30; 40]; [10; 20; 30; 40; 50; 60]; [10; 20; 30; 40; 50; 60; 70]]
    = [0; 1; 1; 2; 2; 3]%nat /\
  pend (rrun cfg (rinit cfg) (start ++ ticks)) = [] /\
  snd (rstep cfg (RComplete 3) (rrun cfg (rinit cfg) (start ++ [RTick 20]))) = [RData 1; RData 3] /\
  (let full := rrun cfg (rinit cfg) (RTick 0 :: map (fun i => RCache 3 (mkPkt i 1000)) (map N.of_nat (seq 0 101))) in
   exists e, mget 3 (pend full) = Some e /\ length (p_store e) = 100%nat).
Proof. vm_compute. repeat split; try reflexivity. eexists. split; reflexivity. Qed.

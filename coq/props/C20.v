(* C20  Packet classification matches what the host will process.  Property theorems only.

   [parse d incoming]      = the model of newPacket (outside.go) on the bytes d:  Ok classification | Err code | Panic
                             (Panic = a failed bounds check; every read of the model is a checked read).
   [spec_parse d incoming] = the independent reference IPv4 / IPv6 parser (model/IpParse.v, the rules are listed there):
                             it consumes the packet as a list and follows an extension header chain of any length.
   [chain_len d]           = number of extension headers in the chain of an IPv6 packet d (reference walk).
   [limit]                 = the number of extension headers IPv6FindUpperProtocol walks, measured on the compiled
                             function on every run (gen/Consts_IpParse.v); the theorems hold for whatever it is.
   All theorems are for every byte string (bytes_ok d: every element below 256) and both directions. *)
From Coq Require Import List NArith.
Import ListNotations.
From NV Require Import lib.Bytes gen.Consts_IpParse model.IpParse proofs.IpParse_proofs proofs.IpParse_char.
Open Scope N_scope.

(* The set of next-header values the compiled walker treats as extension headers (all 256 values probed on every
   run) is the set the model and the reference parser use: RFC 8200 hop-by-hop 0, routing 43, fragment 44,
   destination options 60, and AH 51. *)
Lemma C20_walked_headers_doc : ipp_walked_headers = [0; 43; 44; 51; 60].
Proof. reflexivity. Qed.

Theorem C20_ext_set : forall nh, nh < 256 -> is_ext nh = existsb (N.eqb nh) ipp_walked_headers.
Proof. exact ext_set. Qed.
Print Assumptions C20_ext_set.

(* The reference walk is not cut short by its fuel: any fuel above the packet length gives the same result. *)
Theorem C20_spec_fuel : forall d f, (length d < f)%nat ->
  spec_walk d = spec_chain f (nth 6 d 0) (skipn 40 d) 40 false.
Proof. exact spec_walk_fuel. Qed.
Print Assumptions C20_spec_fuel.

(* Totality and panic freedom of the model: a classification or an error, never a failed bounds check. *)
Theorem C20_total : forall d incoming, bytes_ok d = true ->
  (exists fp, parse d incoming = Ok fp) \/ (exists e, parse d incoming = Err e).
Proof. exact parse_total. Qed.
Print Assumptions C20_total.

(* Whatever is accepted is classified exactly as the reference parser classifies it: addresses, protocol, ports or
   ICMP identifier, fragment status (non-first / any), header length, oriented for the direction. *)
Theorem C20_sound : forall d incoming fp, bytes_ok d = true ->
  parse d incoming = Ok fp -> spec_parse d incoming = Some fp.
Proof. exact parse_sound. Qed.
Print Assumptions C20_sound.

(* Nothing else is refused: a packet the reference parser classifies is accepted unchanged, unless it is an IPv6
   packet with more extension headers than the walker's limit. *)
Theorem C20_complete : forall d incoming fp, bytes_ok d = true ->
  spec_parse d incoming = Some fp -> (is_v6 d = true -> (chain_len d <= limit)%nat) -> parse d incoming = Ok fp.
Proof. exact parse_complete. Qed.
Print Assumptions C20_complete.

(* A packet the reference parser cannot resolve (truncated header, extension header running past the end,
   transport header not present, bad IHL, unknown version) is rejected ... *)
Theorem C20_unresolved_rejected : forall d incoming, bytes_ok d = true ->
  spec_parse d incoming = None -> exists e, parse d incoming = Err e.
Proof. exact parse_unresolved_rejected. Qed.
Print Assumptions C20_unresolved_rejected.

(* ... and so is every IPv6 packet whose chain is longer than the walker's limit (the defect F3 was here). *)
Theorem C20_long_chain_rejected : forall d incoming, bytes_ok d = true ->
  is_v6 d = true -> (limit < chain_len d)%nat -> exists e, parse d incoming = Err e.
Proof. exact parse_long_chain_rejected. Qed.
Print Assumptions C20_long_chain_rejected.

(* For IPv6 the reported protocol is never an extension header number - outside the region
   [nonfirst_names_ext d]: the chain reaches a NON-first fragment header whose next-header byte is itself an
   extension header number. *)
Theorem C20_not_ext : forall d incoming fp, bytes_ok d = true ->
  parse d incoming = Ok fp -> is_v6 d = true -> nonfirst_names_ext d = false -> is_ext (fp_proto fp) = false.
Proof. exact parse_not_ext. Qed.
Print Assumptions C20_not_ext.

(* Inside that region the property's "never an extension header / unresolved chains are rejected" fails on the
   faithful model, exactly as on the code (known finding F18; witness = IpParse_char.f18_witness). *)
Theorem C20_not_ext_refuted : exists d incoming fp,
  bytes_ok d = true /\ parse d incoming = Ok fp /\ is_v6 d = true /\
  nonfirst_names_ext d = true /\ fp_frag fp = true /\ is_ext (fp_proto fp) = true.
Proof. exact not_ext_refuted. Qed.
Print Assumptions C20_not_ext_refuted.

(* What an accepted non-first IPv6 fragment reports: any-fragment set, ports 0, header length = offset of the
   fragment header (which lies inside the packet), protocol = that header's next-header byte, verbatim. *)
Theorem C20_nonfirst_v6 : forall d incoming fp, bytes_ok d = true ->
  parse d incoming = Ok fp -> is_v6 d = true -> fp_frag fp = true ->
  fp_fragany fp = true /\ fp_lport fp = 0 /\ fp_rport fp = 0 /\
  fp_hdrlen fp + 8 <= blen d /\ fp_proto fp = nth (N.to_nat (fp_hdrlen fp)) d 0.
Proof. exact parse_nonfirst_v6. Qed.
Print Assumptions C20_nonfirst_v6.

(* TCP and UDP ports, stated on the bytes without the reference parser: the two big-endian words that start at the
   reported header length (which are inside the packet), remote = source for incoming, = destination for outgoing. *)
Theorem C20_ports : forall d incoming fp, bytes_ok d = true ->
  parse d incoming = Ok fp -> fp_frag fp = false -> (fp_proto fp = 6 \/ fp_proto fp = 17) ->
  let h := N.to_nat (fp_hdrlen fp) in
  let sp := nth h d 0 * 256 + nth (S h) d 0 in
  let dp := nth (S (S h)) d 0 * 256 + nth (S (S (S h))) d 0 in
  fp_hdrlen fp + 4 <= blen d /\
  (if incoming then fp_rport fp = sp /\ fp_lport fp = dp else fp_lport fp = sp /\ fp_rport fp = dp).
Proof. exact parse_ports. Qed.
Print Assumptions C20_ports.

(* Not vacuous. A chain of exactly [limit] destination-option headers then UDP is accepted with the UDP ports and
   the right header length; one header more is rejected although the reference parser resolves it; the same chain cut
   inside the last header is rejected; hop-by-hop + AH(12 bytes) + TCP resolves; an IPv4 packet with options. *)
Example C20_nonvacuous :
  let k := limit in
  parse (ex_v6 60 (ex_dest_chain k 17 ex_udp)) true =
    Ok (mkFp [253; 0; 0; 0; 0; 0; 0; 0; 0; 0; 0; 0; 0; 0; 0; 2] [253; 0; 0; 0; 0; 0; 0; 0; 0; 0; 0; 0; 0; 0; 0; 1]
             51200 53 17 false false (40 + 8 * N.of_nat k)) /\
  parse (ex_v6 60 (ex_dest_chain (S k) 17 ex_udp)) true = Err 5 /\
  (exists fp, spec_parse (ex_v6 60 (ex_dest_chain (S k) 17 ex_udp)) true = Some fp /\ fp_proto fp = 17) /\
  chain_len (ex_v6 60 (ex_dest_chain (S k) 17 ex_udp)) = S k /\
  parse (firstn (40 + 8 * k - 3) (ex_v6 60 (ex_dest_chain k 17 ex_udp))) true = Err 5 /\
  parse (ex_v6 0 ([51; 0; 1; 4; 0; 0; 0; 0] ++ [6; 1; 0; 0; 0; 0; 0; 9; 0; 0; 0; 0] ++ [1; 187; 195; 80; 0; 0; 0; 0])) false =
    Ok (mkFp [253; 0; 0; 0; 0; 0; 0; 0; 0; 0; 0; 0; 0; 0; 0; 1] [253; 0; 0; 0; 0; 0; 0; 0; 0; 0; 0; 0; 0; 0; 0; 2]
             443 50000 6 false false 60) /\
  parse ([70; 0; 0; 32; 0; 0; 64; 0; 64; 17; 0; 0; 10; 1; 2; 3; 192; 168; 7; 9; 1; 1; 1; 1] ++ ex_udp) true =
    Ok (mkFp [192; 168; 7; 9] [10; 1; 2; 3] 51200 53 17 false false 24) /\
  nonfirst_names_ext f18_witness = true.
Proof. vm_compute. repeat split; try reflexivity. eexists; split; reflexivity. Qed.

(* C33  Timer wheel fires each item once, on time.  Property theorems only.

   Model: model/Wheel.v (mirror of /repo/timeout.go). A history is any list of OAdd v timeout / OAdvance now /
   OPurge, run from NewTimerWheel(min, max) = init mn mx with 0 < mn, 0 <= mx (params_ok); all numbers are
   nanoseconds in Z.  outs h w = the items returned by the Purge calls of h, in order;  w_exp = the expired
   queue;  waiting = the items still in slots;  adds h = the items handed to Add;  nows h = the instants
   handed to Advance.  n = nticks = the clamped timeout in ticks, rounded up (C33_roundup).
   clock_ok j None h: every instant handed to Advance is later than (largest earlier instant) - j. *)
From Coq Require Import List ZArith Lia Permutation.
Import ListNotations.
From NV Require Import model.Wheel proofs.Wheel_proofs proofs.Wheel_time proofs.Wheel_c33.
Open Scope Z_scope.

(* (3) The computed slot index is always inside the wheel: one wrap subtraction suffices. *)
Theorem C33_slot_ok : forall (A : Type) mn mx (h : list (op A)) T, params_ok mn mx ->
  let w := exec h (init mn mx) in
  0 <= find_wheel w T < w_len w /\ Z.of_nat (length (w_slots w)) = w_len w /\ w_len w = wheel_len mn mx.
Proof. intros A. exact c33_slot_ok. Qed.
Print Assumptions C33_slot_ok.

(* (1) At every point of every history each added item is in exactly one of: returned, the expired queue,
   a slot (equality of multisets; no hypothesis on the clock or on the items being distinct). *)
Theorem C33_once_partition : forall (A : Type) mn mx (h : list (op A)), params_ok mn mx ->
  let w := exec h (init mn mx) in
  Permutation (adds h) (outs h (init mn mx) ++ w_exp w ++ waiting w).
Proof. intros A. exact c33_partition. Qed.
Print Assumptions C33_once_partition.

(* (1) Never twice: with distinct items, nothing is returned twice, and nothing returned is still queued. *)
Theorem C33_never_twice : forall (A : Type) mn mx (h : list (op A)), params_ok mn mx -> NoDup (adds h) ->
  let w := exec h (init mn mx) in
  NoDup (outs h (init mn mx) ++ w_exp w ++ waiting w).
Proof. intros A. exact c33_never_twice. Qed.
Print Assumptions C33_never_twice.

(* (1) Every item is returned, exactly once, by any continuation that advances far enough and purges: two
   Advances wheelLen + 1 ticks apart, then at least as many Purges as there were Adds. Any earlier clock. *)
Theorem C33_all_returned : forall (A : Type) mn mx (h : list (op A)) a b m, params_ok mn mx ->
  a + (wheel_len mn mx + 1) * mn <= b -> (length (adds h) <= m)%nat ->
  Permutation (adds h) (outs (h ++ OAdvance a :: OAdvance b :: repeat OPurge m) (init mn mx)).
Proof. intros A. exact c33_all_returned. Qed.
Print Assumptions C33_all_returned.

(* (2) The exact firing instant: an item added (timeout T) when lastTick = t leaves its slot for the expired
   queue at the first Advance whose instant reaches t + (n + 1) * tick - not before, and at that one -
   provided no later Advance is handed an instant a full tick or more behind lastTick (adv_ok). Holds for
   advance gaps of any length, in particular longer than a revolution. *)
Theorem C33_fire_exact : forall (A : Type) mn mx (h1 : list (op A)) x T h2 t, params_ok mn mx ->
  let w1 := exec h1 (init mn mx) in
  let h := h1 ++ OAdd x T :: h2 in
  let w := exec h (init mn mx) in
  let n := nticks (@init A mn mx) T in
  w_last w1 = Some t -> adv_ok (add x T w1) h2 -> NoDup (adds h) ->
  (In x (waiting w) <-> forall now, In now (nows h2) -> now < t + (n + 1) * mn) /\
  (In x (outs h (init mn mx) ++ w_exp w) <-> exists now, In now (nows h2) /\ t + (n + 1) * mn <= now).
Proof. intros A. exact c33_fire_exact. Qed.
Print Assumptions C33_fire_exact.

(* (2) On time, as the caller sees it. The wheel was advanced to the current instant c; then (after any Adds
   and Purges) x is added with timeout T. With a clock that never steps back:
   - not early: while no Advance has been handed an instant beyond c + n*tick (the timeout rounded up), x is
     still waiting: not returned, not even expired;
   - at most ONE tick late: once an Advance has been handed an instant >= c + (n+1)*tick, x has expired (it is
     in the expired queue or has been returned) and is no longer in a slot. *)
Theorem C33_on_time_monotone : forall (A : Type) mn mx (h0 : list (op A)) c hq x T h2, params_ok mn mx ->
  let h := h0 ++ OAdvance c :: hq ++ OAdd x T :: h2 in
  let w := exec h (init mn mx) in
  let n := nticks (@init A mn mx) T in
  clock_ok 1 None h -> nows hq = [] -> NoDup (adds h) ->
  ((forall now, In now (nows h2) -> now <= c + n * mn) ->
     In x (waiting w) /\ ~ In x (outs h (init mn mx)) /\ ~ In x (w_exp w)) /\
  ((exists now, In now (nows h2) /\ c + (n + 1) * mn <= now) ->
     In x (outs h (init mn mx) ++ w_exp w) /\ ~ In x (waiting w)).
Proof. intros A. exact c33_on_time_mono. Qed.
Print Assumptions C33_on_time_monotone.

(* (2) The property as stated ("no later than two ticks after"): the same with a clock that may step back by
   less than one tick; then x has expired once an Advance has been handed an instant >= c + (n+2)*tick. *)
Theorem C33_on_time_two_ticks : forall (A : Type) mn mx (h0 : list (op A)) c hq x T h2, params_ok mn mx ->
  let h := h0 ++ OAdvance c :: hq ++ OAdd x T :: h2 in
  let w := exec h (init mn mx) in
  let n := nticks (@init A mn mx) T in
  clock_ok mn None h -> nows hq = [] -> NoDup (adds h) ->
  ((forall now, In now (nows h2) -> now <= c + n * mn) ->
     In x (waiting w) /\ ~ In x (outs h (init mn mx)) /\ ~ In x (w_exp w)) /\
  ((exists now, In now (nows h2) /\ c + (n + 2) * mn <= now) ->
     In x (outs h (init mn mx) ++ w_exp w) /\ ~ In x (waiting w)).
Proof. intros A. exact c33_on_time_jitter. Qed.
Print Assumptions C33_on_time_two_ticks.

(* (2) The general form: backward steps smaller than j, 1 <= j <= tick. *)
Theorem C33_on_time : forall (A : Type) mn mx j (h0 : list (op A)) c hq x T h2, params_ok mn mx -> 1 <= j <= mn ->
  let h := h0 ++ OAdvance c :: hq ++ OAdd x T :: h2 in
  let w := exec h (init mn mx) in
  let n := nticks (@init A mn mx) T in
  clock_ok j None h -> nows hq = [] -> NoDup (adds h) ->
  ((forall now, In now (nows h2) -> now <= c + n * mn) ->
     In x (waiting w) /\ ~ In x (outs h (init mn mx)) /\ ~ In x (w_exp w)) /\
  ((exists now, In now (nows h2) /\ c + (n + 1) * mn + (j - 1) <= now) ->
     In x (outs h (init mn mx) ++ w_exp w) /\ ~ In x (waiting w)).
Proof. intros A. exact c33_on_time. Qed.
Print Assumptions C33_on_time.

(* n * tick is the clamped timeout rounded up to whole ticks; the clamp is the documented one (below the
   tick -> the tick, beyond the span -> the span) whenever tick <= span; and n + 1 <= wheelLen. *)
Theorem C33_roundup : forall (A : Type) mn mx T, params_ok mn mx ->
  let w := @init A mn mx in
  let n := nticks w T in
  0 <= n <= wheel_len mn mx - 1 /\
  clamp w T <= n * mn /\ (1 <= mx -> n * mn < clamp w T + mn) /\
  (mn <= mx -> clamp w T = Z.max mn (Z.min T mx)).
Proof. intros A. exact c33_roundup. Qed.
Print Assumptions C33_roundup.

(* Items need not be distinct: any history is the erasure of the history whose k-th Add is tagged k, and the
   run of the erasure is the erasure of the run (the wheel never looks at its items). *)
Theorem C33_labelled : forall (A : Type) mn mx (h : list (op A)),
  let hl := label 0 h in
  NoDup (adds hl) /\ nows hl = nows h /\ (forall j m, clock_ok j m hl <-> clock_ok j m h) /\
  outs h (init mn mx) = map snd (outs hl (init mn mx)) /\
  exec h (init mn mx) = map_wheel snd (exec hl (init mn mx)).
Proof. intros A. exact c33_labelled. Qed.
Print Assumptions C33_labelled.

(* The clock hypothesis is needed: an Advance handed an instant a full tick or more in the past moves lastTick
   BACK (the tick count is negative and is added uncapped) without moving the wheel back, so items fire
   early. tick 10, span 35; advanced to 100; item 7 added with timeout 10 (n = 1, not due before 110);
   Advance(75); Advance(100); Purge returns 7 at instant 100. *)
Theorem C33_backward_clock_refuted :
  exists (h2 : list (op N)),
    let mn := 10 in let mx := 35 in let c := 100 in let x := 7%N in let T := 10 in
    let h := [] ++ OAdvance c :: [] ++ OAdd x T :: h2 in
    let n := nticks (@init N mn mx) T in
    params_ok mn mx /\ NoDup (adds h) /\ ~ clock_ok mn None h /\
    (forall now, In now (nows h2) -> now <= c + n * mn) /\
    In x (outs h (init mn mx)).
Proof.
  exists [OAdvance 75; OAdvance 100; OPurge]. cbv zeta.
  split; [unfold params_ok; lia|]. split; [repeat constructor; intros []|].
  split; [cbn; lia|]. split.
  - intros now H. change (nows _) with [75; 100] in H. change (nticks _ _) with 1.
    destruct H as [<-|[<-|[]]]; lia.
  - vm_compute. left. reflexivity.
Qed.
Print Assumptions C33_backward_clock_refuted.

(* ---- the hypotheses are satisfiable, the conclusions are not vacuous ------------------------------ *)

Definition ex_h0 : list (op N) := [OAdd 1%N 5; OAdvance 93].        (* an Add before the first Advance *)
Definition ex_hq : list (op N) := [OPurge; OAdd 2%N 1000].
Definition ex_early : list (op N) := [OAdvance 125; OPurge; OAdvance 130; OPurge].
Definition ex_late : list (op N) := [OAdvance 139; OPurge; OPurge; OAdvance 140; OPurge; OPurge].
Definition ex_hist (h2 : list (op N)) := ex_h0 ++ OAdvance 100 :: ex_hq ++ OAdd 7%N 25 :: h2.

(* tick 10, span 35, wheelLen 5; item 7 has timeout 25 = 3 ticks; the wheel was advanced to 100 (lastTick is
   93, so the exact firing instant is 93 + 4 ticks = 133): still waiting after Advances up to 130 = 100 + 3
   ticks, expired and returned after the Advance to 140 = 100 + 4 ticks (in fact already at 139). *)
Example C33_nonvacuous :
  params_ok 10 35 /\ nticks (@init N 10 35) 25 = 3 /\
  clock_ok 1 None (ex_hist ex_early) /\ clock_ok 1 None (ex_hist ex_late) /\ nows ex_hq = [] /\
  NoDup (adds (ex_hist ex_early)) /\ NoDup (adds (ex_hist ex_late)) /\
  (forall now, In now (nows ex_early) -> now <= 100 + 3 * 10) /\
  (exists now, In now (nows ex_late) /\ 100 + (3 + 1) * 10 <= now) /\
  outs (ex_hist ex_early) (init 10 35) = [1%N] /\
  outs (ex_hist ex_late) (init 10 35) = [1%N; 7%N] /\
  waiting (exec (ex_hist ex_late) (init 10 35)) = [2%N].
Proof.
  split; [unfold params_ok; lia|]. split; [reflexivity|].
  split; [cbn; lia|]. split; [cbn; lia|]. split; [reflexivity|].
  split; [repeat constructor; cbn; intuition congruence|]. split; [repeat constructor; cbn; intuition congruence|].
  split; [intros now H; cbn in H; lia|]. split; [exists 140; split; [cbn; tauto|lia]|].
  split; [vm_compute; reflexivity|]. split; vm_compute; reflexivity.
Qed.

(* a gap of more than a revolution (wheelLen = 5 ticks = 50 ns; the gap is 1000 ticks): everything is flushed
   once, in slot order, and lastTick advances by the uncapped tick count *)
Example C33_long_gap :
  let h := [OAdvance 0; OAdd 1%N 35; OAdd 2%N 10; OAdd 3%N 20; OAdvance 10007; OPurge; OPurge; OPurge; OPurge] in
  outs h (init 10 35) = [2%N; 3%N; 1%N] /\ w_last (exec h (@init N 10 35)) = Some 10000 /\
  waiting (exec h (@init N 10 35)) = [].
Proof. vm_compute. auto. Qed.

(* adv_ok / w_last hypotheses of C33_fire_exact are satisfiable *)
Example C33_fire_exact_sat :
  w_last (exec [OAdvance 100] (@init N 10 35)) = Some 100 /\
  adv_ok (add 7%N 25 (exec [OAdvance 100] (@init N 10 35))) [OAdvance 95; OAdvance 139; OPurge; OAdvance 140].
Proof. split; [reflexivity|]. vm_compute. repeat split; reflexivity. Qed.

(* C23  Receive coalescing is transparent to the tun device.

   Model: model/Coalesce.v (MultiCoalescer = staging sort by (epoch, counter), dispatch, TCP / UDP coalescer lanes,
   passthrough lane, Flush; the kernel side = kernel_segment, the reference TSO / USO segmentation of one tun
   write).  The statements hold for ALL batches of abstract packets that satisfy the representation invariant of
   the abstraction (wf_batch: the opaque byte blob is only used by unparseable shapes, a UDP packet has blank TCP
   fields, sequence numbers / IPv4 IDs are 32 / 16 bit values), for every capability combination (tso, uso) of
   the writer, and for every arrival order.

   delivered tso uso batch = what the tun device's IP stack sees: every Write as it is, every WriteGSO superpacket
   cut by the kernel into gso_size pieces.
   approx = equal except checksums, the IPv4 ID when DF is set, and bytes behind the IP-declared length. *)
From Coq Require Import List NArith Bool Permutation.
Import ListNotations.
From NV Require Import lib.Bytes lib.Ones gen.Consts_Coalesce model.Coalesce
  proofs.Coalesce_lists proofs.Coalesce_main.
Open Scope N_scope.

(* T1: the documented limits, from the constants the code is compiled with *)
Lemma C23_limits_doc :
  coal_tcp_max_segs <= 64 /\ coal_udp_max_segs <= 64 /\          (* UDP_MAX_SEGMENTS; "well below the TSO ceiling" *)
  coal_tcp_buf <= 65535 /\ coal_udp_buf <= 65535 /\              (* the 16-bit IP length field *)
  coal_tcp_buf <= coal_tio_max_superpacket /\ coal_udp_buf <= coal_tio_max_superpacket /\
  3 + coal_tcp_max_segs <= coal_tio_max_iovs /\ 3 + coal_udp_max_segs <= coal_tio_max_iovs.  (* Offload.WriteGSO's iovec budget *)
Proof. repeat split; vm_compute; discriminate. Qed.

(* Nothing lost, duplicated or altered: the delivered packets are, one for one, the batch's packets modulo approx. *)
Theorem C23_transparent : forall tso uso batch,
  wf_batch batch ->
  exists att, Permutation batch att /\ matches att (delivered tso uso batch).
Proof. exact coalesce_transparent. Qed.

(* Per (session, flow) order: under the same matching, whenever q is delivered before p although p was transmitted
   before q ((epoch, counter) smaller) in the same flow (same L4 protocol, family, addresses, ports), p is a pure
   TCP ACK (parseable, flags within ACK|PSH|ECE with ACK set, no payload) - the one exception the code permits. *)
Theorem C23_flow_order : forall tso uso batch,
  wf_batch batch ->
  exists att, Permutation batch att /\ matches att (delivered tso uso batch) /\ flow_ordered att.
Proof. exact coalesce_flow_order. Qed.

(* Every WriteGSO has the geometry the kernel accepts: 2 .. MaxSegs pieces, all of gso_size bytes except a last one
   of 1 .. gso_size, at most 65535 bytes in total, IP / UDP length fields equal to the real lengths. *)
Theorem C23_geometry : forall tso uso batch g,
  wf_batch batch -> In (WGso g) (coalesce tso uso batch) -> geometry g.
Proof. exact coalesce_geometry_spec. Qed.

(* ... and its checksum fields are what virtio NEEDS_CSUM expects: the L4 field holds the folded, not inverted
   pseudo-header sum over the total L4 length, the IPv4 header checksum verifies. *)
Theorem C23_checksum_seeds : forall tso uso batch g,
  wf_batch batch -> ranges_batch batch -> In (WGso g) (coalesce tso uso batch) -> checksum_seeds g.
Proof. exact coalesce_seeds_spec. Qed.

(* The hypotheses are satisfiable by a batch that coalesces (reordered TCP data with a trailing pure ACK, UDP, ICMP). *)
Theorem C23_hypotheses_satisfiable :
  wf_batch ex_batch /\ ranges_batch ex_batch /\
  map (fun w => match w with WPlain _ => 1 | WGso g => N.of_nat (length (g_pays g)) end) (coalesce true true ex_batch)
  = [3; 1; 2; 1].
Proof. exact ex_batch_ok. Qed.

Print Assumptions C23_transparent.
Print Assumptions C23_flow_order.
Print Assumptions C23_geometry.
Print Assumptions C23_checksum_seeds.
Print Assumptions C23_hypotheses_satisfiable.

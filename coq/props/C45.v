(* C45  SSH debug file paths stay inside the sandbox.  Property theorems only.
   sanitize = model of sshSanitizeFilePath (ssh.go), clean/join2/is_abs = go1.26 path/filepath (unix);
   resolve/loc_of/strictly_inside = the independent component-wise specification (model/SshPath.v).
   Sandbox directories are absolute (any spelling: trailing or repeated separators, "." and "..");
   paths are arbitrary byte strings. *)
From Coq Require Import List NArith.
Import ListNotations.
From NV Require Import lib.Corr model.SshPath proofs.SshPath_proofs.
Open Scope N_scope.

(* Every accepted path is the clean absolute spelling of the location the user's path resolves to,
   and that location is strictly inside the sandbox (the sandbox itself does not count). *)
Theorem C45_inside : forall sb p q, is_abs sb = true -> sanitize sb p = Ok q ->
  strictly_inside (loc_of (clean sb)) (loc_of q) = true /\
  loc_of q = resolve sb p /\ clean q = q /\ is_abs q = true.
Proof. exact sanitize_inside. Qed.
Print Assumptions C45_inside.

(* Every path that does not resolve strictly inside the sandbox is refused. *)
Theorem C45_outside_refused : forall sb p, is_abs sb = true ->
  strictly_inside (loc_of (clean sb)) (resolve sb p) = false -> sanitize sb p = Refused.
Proof. exact sanitize_outside. Qed.
Print Assumptions C45_outside_refused.

(* What the code does exactly: for a sandbox other than the root directory, accepted <=> strictly inside,
   and the result is the canonical spelling of the resolved location ... *)
Theorem C45_exact : forall sb p q, is_abs sb = true -> loc_of sb <> [] ->
  (sanitize sb p = Ok q <-> strictly_inside (loc_of sb) (resolve sb p) = true /\ q = abs_render (resolve sb p)).
Proof. exact sanitize_exact. Qed.
Print Assumptions C45_exact.

(* ... and a sandbox that resolves to "/" refuses every path (stricter than the property asks). *)
Theorem C45_root_sandbox_refuses_all : forall sb p, is_abs sb = true -> loc_of sb = [] -> sanitize sb p = Refused.
Proof. exact sanitize_root_sandbox. Qed.
Print Assumptions C45_root_sandbox_refuses_all.

(* filepath.Clean (the lazybuf algorithm, rooted and relative) is component-wise normalisation. *)
Theorem C45_clean_is_normalise : forall p,
  clean p = render (is_abs p) (normalise (is_abs p) (components p)).
Proof. exact clean_normalise. Qed.
Print Assumptions C45_clean_is_normalise.

(* Corollaries named in the property text. *)
Theorem C45_sandbox_itself_refused : forall sb p, is_abs sb = true -> resolve sb p = loc_of sb -> sanitize sb p = Refused.
Proof.
  intros sb p Hsb H. apply sanitize_outside; [assumption|]. rewrite loc_of_clean by assumption.
  rewrite H. apply proper_prefix_irrefl.
Qed.
Print Assumptions C45_sandbox_itself_refused.

(* similar-prefix sibling: /sb vs /sbx *)
Theorem C45_sibling_prefix_refused : forall sb p pre n x t, is_abs sb = true -> x <> [] ->
  loc_of sb = pre ++ [n] -> resolve sb p = pre ++ (n ++ x) :: t -> sanitize sb p = Refused.
Proof.
  intros sb p pre n x t Hsb Hx HS HR. apply sanitize_outside; [assumption|]. rewrite loc_of_clean by assumption.
  rewrite HS, HR. now apply sibling_outside.
Qed.
Print Assumptions C45_sibling_prefix_refused.

(* the spelling of the sandbox directory is irrelevant: trailing and repeated separators *)
Theorem C45_trailing_separator : forall sb p, is_abs sb = true -> sanitize (sb ++ [slash]) p = sanitize sb p.
Proof.
  intros sb p H. apply sanitize_spelling; [now apply is_abs_app|assumption|apply loc_of_trailing].
Qed.
Print Assumptions C45_trailing_separator.

Theorem C45_repeated_separator : forall a b p, is_abs (a ++ slash :: b) = true ->
  sanitize (a ++ slash :: slash :: b) p = sanitize (a ++ slash :: b) p.
Proof.
  intros a b p H. apply sanitize_spelling; [|assumption|apply loc_of_double_sep].
  destruct a; [reflexivity|exact H].
Qed.
Print Assumptions C45_repeated_separator.

(* "/sb", "/sb/" ... with p = "x/../../sbx/f", "../sb/./y//z", "/sb/../sb/k", ".", "/sb", "..." *)
Example C45_nonvacuous :
  let sb := [47; 115; 98] in
  sanitize sb [120; 47; 46; 46; 47; 46; 46; 47; 115; 98; 120; 47; 102] = Refused /\
  sanitize sb [46; 46; 47; 115; 98; 47; 46; 47; 121; 47; 47; 122] = Ok [47; 115; 98; 47; 121; 47; 122] /\
  sanitize (sb ++ [47; 47]) [47; 115; 98; 47; 46; 46; 47; 115; 98; 47; 107] = Ok [47; 115; 98; 47; 107] /\
  sanitize sb [46] = Refused /\ sanitize sb sb = Refused /\
  sanitize sb [46; 46; 46] = Ok [47; 115; 98; 47; 46; 46; 46] /\
  sanitize [47] [97] = Refused /\
  is_abs sb = true /\ loc_of sb <> [].
Proof. vm_compute. repeat split; discriminate. Qed.

(* Outside the quantifier of the theorems (relative sandbox made only of ".."): the textual prefix test
   accepts "../x" under sandbox "..", i.e. "../../x". Recorded so that the restriction to absolute sandbox
   directories is visible; nebula's default sandbox is absolute (os.TempDir()/nebula-debug). *)
Example C45_relative_dotdot_sandbox_note :
  sanitize [46; 46] [46; 46; 47; 120] = Ok [46; 46; 47; 46; 46; 47; 120].
Proof. vm_compute. reflexivity. Qed.

(* C48  Calculated remotes splice mask and overlay bits exactly.  Property theorems only.
   apply_v4 / apply_v6 / new_calculated_remote / add_calculated = model of calculated_remote.go and of
   lighthouse.go addCalculatedRemotes (model/CalcRemote.v). bit_msb w a i = bit i of the w-bit address a,
   counted from the most significant bit. *)
From Coq Require Import List NArith ZArith.
Import ListNotations.
From NV Require Import lib.Bytes model.CalcRemote proofs.CalcRemote_proofs.
Open Scope N_scope.

(* IPv4: for every mask address, every prefix length 0..32, every port and every overlay address, the
   result has the first [ml] bits of the mask address and the remaining bits of the overlay address,
   and carries the configured port. *)
Theorem C48_bits_v4 : forall ma ml port oa c, ml <= 32 -> oa < 2 ^ 32 ->
  new_calculated_remote V4 V4 ma ml port = Some c ->
  exists r, apply_v4 c V4 oa = Some (r, Z.to_N port) /\ r < 2 ^ 32 /\
    forall i, i < 32 -> bit_msb 32 r i = if i <? ml then bit_msb 32 ma i else bit_msb 32 oa i.
Proof.
  intros ma ml port oa c Hl Ho Hn. apply new_cr_some in Hn as (_ & _ & ->). now apply apply_v4_spec.
Qed.
Print Assumptions C48_bits_v4.

(* IPv6: the same over 128 bits; the result is delivered as two 64-bit words Hi, Lo. *)
Theorem C48_bits_v6 : forall ma ml port oa c, ml <= 128 -> ma < 2 ^ 128 -> oa < 2 ^ 128 ->
  new_calculated_remote V6 V6 ma ml port = Some c ->
  exists hi lo, apply_v6 c V6 oa = Some (hi, lo, Z.to_N port) /\ hi < 2 ^ 64 /\ lo < 2 ^ 64 /\
    forall i, i < 128 -> bit_msb 128 (addr128 hi lo) i = if i <? ml then bit_msb 128 ma i else bit_msb 128 oa i.
Proof.
  intros ma ml port oa c Hl Hm Ho Hn. apply new_cr_some in Hn as (_ & _ & ->). now apply apply_v6_spec.
Qed.
Print Assumptions C48_bits_v6.

(* The configured port is kept (it must be a 16-bit port), and a mask of the other family is refused. *)
Theorem C48_port : forall cf mf ma ml port,
  (forall c, new_calculated_remote cf mf ma ml port = Some c ->
             mf = cf /\ (0 <= port <= 65535)%Z /\ cr_port c = Z.to_N port /\ cr_fam c = cf /\ cr_bits c = ml) /\
  (new_calculated_remote cf mf ma ml port = None <-> mf <> cf \/ (port < 0)%Z \/ (65535 < port)%Z).
Proof.
  intros cf mf ma ml port. split; [|apply new_cr_none].
  intros c H. apply new_cr_some in H as (-> & Hp & ->). repeat split; tauto.
Qed.
Print Assumptions C48_port.

(* addCalculatedRemotes from a well-formed configuration (what netip.ParsePrefix accepts), range lookup
   being longest-prefix match: no calculated remote unless the overlay address lies inside a configured
   range of its own family; then the results are, in order, the splices for the remotes of the most
   specific such range, each with a mask of the same family and its configured port. Never a panic. *)
Theorem C48_only_in_range : forall raws cfg xf x,
  Forall raw_entry_wf raws -> build_cfg raws = Some cfg -> x < 2 ^ bitlen xf ->
  exists rs, add_calculated cfg xf x = Some rs /\
  ( (rs = [] /\ forall cf ca cl rr, In (cf, ca, cl, rr) raws -> contains cf ca cl xf x = false)
    \/
    (exists cf ca cl rr, In (cf, ca, cl, rr) raws /\ cf = xf /\ contains cf ca cl xf x = true /\
       (forall cf' ca' cl' rr', In (cf', ca', cl', rr') raws -> contains cf' ca' cl' xf x = true -> cl' <= cl) /\
       Forall2 (fun raw r => let '(mf, ma, ml, port) := raw in
                             mf = xf /\ (0 <= port <= 65535)%Z /\ remote_ok xf x ma ml port r) rr rs) ).
Proof. exact add_calculated_spec. Qed.
Print Assumptions C48_only_in_range.

(* containment is what it says: same family and equal leading bits *)
Theorem C48_contains_bits : forall f a len xf x, len <= bitlen f -> a < 2 ^ bitlen f -> x < 2 ^ bitlen f ->
  (contains f a len xf x = true <-> f = xf /\ forall i, i < len -> bit_msb (bitlen f) x i = bit_msb (bitlen f) a i).
Proof. exact contains_bits. Qed.
Print Assumptions C48_contains_bits.

(* 10.0.0.0/8 -> mask 192.168.0.1/20 port 4242, and fd00::/8 -> mask 2001:db8::/64 port 4243;
   overlay 10.1.2.3 -> 192.168.2.3:4242; 11.1.2.3 -> nothing; fd00::1:2 -> [2001:db8::1:2]:4243 *)
Example C48_nonvacuous :
  let raws := [ (V4, 167772160, 8, [(V4, 3232235521, 20, 4242%Z)]);
                (V6, 336294682933583715844663186250927177728, 8, [(V6, 42540766411282592856903984951653826560, 64, 4243%Z)]) ] in
  Forall raw_entry_wf raws /\
  match build_cfg raws with
  | Some cfg => add_calculated cfg V4 167838211 = Some [R4 3232236035 4242] /\
                add_calculated cfg V4 184615427 = Some [] /\
                add_calculated cfg V6 336294682933583715844663186250927243266 =
                  Some [R6 2306139568115548160 65538 4243]
  | None => False
  end.
Proof.
  split.
  - repeat constructor; cbn; try apply N.leb_le; try apply N.ltb_lt; reflexivity.
  - vm_compute. repeat split; reflexivity.
Qed.

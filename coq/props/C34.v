(* C34  The packet engine is free of data races and deadlocks - the parts in reach: deadlock by lock order, and the
   WRITE DISCIPLINE of the source (writes to the documented lock-guarded containers hold their guard in write mode;
   Relay objects are never written after publication).
   Property theorems only.  Data-race freedom in general is a property of the Go memory model over all executions of
   the real program; there is no executable Gallina model of that, and nothing here claims it: reads, other fields,
   atomics, channel hand-offs and slices shared between routines are not covered.
   gen/LockGraph.v is regenerated on every run by the translator go/lockgraph from the source of /repo: the lock
   classes (struct type + mutex field) and the edges "b may be acquired while a is held". *)
From Coq Require Import List NArith Bool.
Import ListNotations.
From NV Require Import gen.LockGraph model.LockOrder proofs.LockOrder_proofs.
From NV Require Import gen.WriteSites model.WriteDiscipline proofs.WriteDiscipline_proofs.
Open Scope N_scope.

(* Lock-order inversions that ARE in the code (reported as findings, listed in KNOWN_FINDINGS.json): for each, the one
   edge taken out of the graph below.  Named by the generated class constants: if a class disappears this file stops
   compiling; if the code is repaired the edge is simply absent and removing it changes nothing. *)
Definition known_inversions : graph :=
  [ (cls_HandshakeManager_RWMutex, cls_HostMap_RWMutex)   (* StartHandshake runs a caller's callback under its lock *)
  ; (cls_RemoteList_RWMutex, cls_HostMap_RWMutex)          (* sendHostPunchNotification looks up the hostmap under a RemoteList lock *)
  ].

(* the class graph of the current source, minus the known inversions, is acyclic (checked by reflection on the
   regenerated graph: a new nesting that closes a cycle, including same-class nesting, makes this fail) *)
Theorem C34_lock_order_acyclic : acyclicb (minus lock_edges known_inversions) = true.
Proof. vm_compute. reflexivity. Qed.
Print Assumptions C34_lock_order_acyclic.

(* the check means what it says: no path of one or more edges leads from a class back to itself *)
Theorem C34_acyclicb_sound : forall g, acyclicb g = true -> forall v, ~ reach g v v.
Proof. exact acyclicb_sound. Qed.
Print Assumptions C34_acyclicb_sound.

(* Threads that acquire locks along an acyclic class order never reach a wait-for cycle: in any system of threads,
   each holding some locks and possibly waiting for one, such that whoever waits for a lock of class b while holding a
   lock of class a does so along an edge (a, b) of the graph (what the translator certifies for every acquisition in
   the module), no thread is part of a cycle "t1 waits for a lock t2 holds, ..., tk waits for a lock t1 holds".
   Same-class nesting is an edge (a, a) and makes the graph cyclic: it must be absent. *)
Theorem C34_ordered_no_deadlock : forall (lock : Type) (class : lock -> N) (g : graph) (sys : list (thread lock)),
  (forall t, In t sys -> disciplined lock class g t) ->
  acyclicb g = true -> forall t, ~ wf_path lock sys t t.
Proof. exact ordered_no_deadlock. Qed.
Print Assumptions C34_ordered_no_deadlock.

Example C34_nonvacuous :
  acyclicb [(1, 2); (2, 3); (1, 3)] = true /\ acyclicb [(1, 2); (2, 1)] = false /\ acyclicb [(4, 4)] = false /\
  (0 < length lock_edges)%nat.
Proof. vm_compute. repeat split; try reflexivity. apply PeanoNat.Nat.lt_0_succ || (unfold lt; repeat constructor). Qed.

(* ---- write discipline ------------------------------------------------------------------------------------------- *)
(* gen/WriteSites.v is regenerated on every run by go/lockgraph/guards.go: every store into a Relay struct with its
   freshness, every write to a map / slice field of a mutex-carrying struct with the lock classes must-held there.
   Every site of the current source obeys the hand-written rule of model/WriteDiscipline.v (reflection on the finite,
   regenerated table: this is the tie to the code): a Relay is only written while fresh (before it is published), and a
   documented guarded container (guard_map) is only written with its guard held in write mode on every path from every
   caller, or while its owning struct is fresh. *)
Theorem C34_write_discipline : forallb site_ok sites = true.
Proof. exact write_discipline_holds. Qed.
Print Assumptions C34_write_discipline.

(* the table is not empty where it matters: every documented immutable type has stores and every documented container
   has a write that is judged by the held lock *)
Theorem C34_write_sites_cover_rules : covered = true.
Proof. exact write_sites_cover_rules. Qed.
Print Assumptions C34_write_sites_cover_rules.

(* What the guard rule buys, at every instant of every execution: if write-mode locks are mutually exclusive and every
   write in progress holds the guard of its location, two writes in progress on one location are by the same thread.
   Reads are NOT judged (a read outside the lock, or under RLock against a writer, is out of scope). *)
Theorem C34_guarded_writes_exclusive : forall (guard : N -> N) (st : list access),
  exclusive st -> (forall a, In a st -> write_guarded guard a) ->
  forall a b, In a st -> In b st -> a_write a = true -> a_write b = true -> a_loc a = a_loc b -> a_thread a = a_thread b.
Proof. exact guarded_writes_exclusive. Qed.
Print Assumptions C34_guarded_writes_exclusive.

(* What the immutability rule buys, in every execution: if no write to an object follows its publication, every
   access after the publication is a read, so no two of them conflict. *)
Theorem C34_immutable_published_no_write : forall tr, fresh_writes tr ->
  forall pre o post t w, tr = pre ++ Publish o :: post -> In (Acc t o w) post -> w = false.
Proof. exact immutable_published_no_write. Qed.
Print Assumptions C34_immutable_published_no_write.

Example C34_write_nonvacuous :
  site_ok (mkSite 0 KImm typ_Relay false [cls_RelayState_RWMutex] []) = false /\
  site_ok (mkSite 0 KGuard fld_HostMap_Hosts false [] [cls_HostMap_RWMutex]) = false /\
  site_ok (mkSite 0 KGuard fld_HostMap_Hosts false [cls_HostMap_RWMutex] []) = true /\
  (0 < length (filter site_pinned sites))%nat.
Proof. vm_compute. repeat split; try reflexivity. apply PeanoNat.Nat.lt_0_succ || (unfold lt; repeat constructor). Qed.

(* C34  The packet engine is free of data races and deadlocks - the part in reach: deadlock by lock order.
   Property theorems only.  Data-race freedom is a property of the Go memory model over all executions of the real
   program; there is no executable Gallina model of that, and nothing here claims it.
   gen/LockGraph.v is regenerated on every run by the translator go/lockgraph from the source of /repo: the lock
   classes (struct type + mutex field) and the edges "b may be acquired while a is held". *)
From Coq Require Import List NArith Bool.
Import ListNotations.
From NV Require Import gen.LockGraph model.LockOrder proofs.LockOrder_proofs.
Open Scope N_scope.

(* Lock-order inversions that ARE in the code (reported as findings, listed in KNOWN_FINDINGS.json): for each, the one
   edge taken out of the graph below.  Named by the generated class constants: if a class disappears this file stops
   compiling; if the code is repaired the edge is simply absent and removing it changes nothing. *)
Definition known_inversions : graph :=
  [ (cls_HandshakeManager_RWMutex, cls_HostMap_RWMutex)   (* StartHandshake runs a caller's callback under its lock *)
  ; (cls_RemoteList_RWMutex, cls_HostMap_RWMutex)          (* sendHostPunchNotification looks up the hostmap under a RemoteList lock *)
  ].

(* the class graph of the current source, minus the known inversions, is acyclic (checked by reflection on the
   regenerated graph: a new nesting that closes a cycle, including same-class nesting, makes this fail) *)
Theorem C34_lock_order_acyclic : acyclicb (minus lock_edges known_inversions) = true.
Proof. vm_compute. reflexivity. Qed.
Print Assumptions C34_lock_order_acyclic.

(* the check means what it says: no path of one or more edges leads from a class back to itself *)
Theorem C34_acyclicb_sound : forall g, acyclicb g = true -> forall v, ~ reach g v v.
Proof. exact acyclicb_sound. Qed.
Print Assumptions C34_acyclicb_sound.

(* Threads that acquire locks along an acyclic class order never reach a wait-for cycle: in any system of threads,
   each holding some locks and possibly waiting for one, such that whoever waits for a lock of class b while holding a
   lock of class a does so along an edge (a, b) of the graph (what the translator certifies for every acquisition in
   the module), no thread is part of a cycle "t1 waits for a lock t2 holds, ..., tk waits for a lock t1 holds".
   Same-class nesting is an edge (a, a) and makes the graph cyclic: it must be absent. *)
Theorem C34_ordered_no_deadlock : forall (lock : Type) (class : lock -> N) (g : graph) (sys : list (thread lock)),
  (forall t, In t sys -> disciplined lock class g t) ->
  acyclicb g = true -> forall t, ~ wf_path lock sys t t.
Proof. exact ordered_no_deadlock. Qed.
Print Assumptions C34_ordered_no_deadlock.

Example C34_nonvacuous :
  acyclicb [(1, 2); (2, 3); (1, 3)] = true /\ acyclicb [(1, 2); (2, 1)] = false /\ acyclicb [(4, 4)] = false /\
  (0 < length lock_edges)%nat.
Proof. vm_compute. repeat split; try reflexivity. apply PeanoNat.Nat.lt_0_succ || (unfold lt; repeat constructor). Qed.

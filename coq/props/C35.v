(* C35  Lighthouse information is accepted only from authorized senders.  Property theorems only.

   model/Lighthouse.v: [step] = HandleRequest on one decoded message from the tunnel whose certified addresses are
   [f] (first address [fst f]); its gate is the table gen/Tab_Lighthouse.v, regenerated on every run by evaluating
   the real HandleRequest on the whole feature space.  [entry st rid o] is RemoteList number rid's cache[o];
   [amap_get A st = Some rid] says addrMap[A] is that RemoteList. *)
From Coq Require Import List NArith Bool.
Import ListNotations.
From NV Require Import lib.Ip gen.Tab_Lighthouse model.Lighthouse
  proofs.Lighthouse_gate proofs.Lighthouse_hist proofs.Lighthouse_examples.
Open Scope N_scope.

(* The gate the code implements (table evaluated from the code) is the documented rule, for every configuration,
   sender and message: queries are answered by lighthouses only; query replies and punch requests are taken from
   configured lighthouses only; host updates are taken by lighthouses only and only about the sender itself. *)
Theorem C35_gate_is_documented : forall c f m, tab_eff (features c f m) = doc_eff (features c f m).
Proof. exact tab_is_doc. Qed.
Print Assumptions C35_gate_is_documented.

(* Whatever a host update changes is cache[sender's first address] of the list registered for the sender, on a
   lighthouse, and the address it claims (if any) is one of the sender's certified addresses. *)
Theorem C35_update_owner : forall c st f m st' outs rid o,
  step c st f (PMsg m) = (st', outs) -> m_type m = t_host_update ->
  entry st' rid o <> entry st rid o ->
  c_am c = true /\ o = fst f /\ amap_get (fst f) st' = Some rid /\ (forall a, claimed m = Some a -> In a (all_from f)).
Proof. exact update_owner. Qed.
Print Assumptions C35_update_owner.

(* ... and every overlay address A registered to that list is certified for the sender: in every state reached by
   any history of messages and handshakes of tunnels whose certificates do not share addresses. *)
Theorem C35_update_addr : forall c st0 h f m st' outs rid o,
  alias_inv [] st0 -> wf_sets (sets_of (h ++ [HMsg f (PMsg m)])) ->
  step c (run c st0 h) f (PMsg m) = (st', outs) -> m_type m = t_host_update ->
  entry st' rid o <> entry (run c st0 h) rid o ->
  forall A, amap_get A st' = Some rid -> In A (all_from f).
Proof. exact update_addr. Qed.
Print Assumptions C35_update_addr.

(* The excluded region is real: with two certificates sharing an address the list written is also registered for an
   address the sender is not certified for (the entry is still under the sender's own key and is not what a query
   for that address is answered from, see shared_address_not_served). *)
Theorem C35_update_addr_shared_refuted :
  exists c st0 h f m st' outs rid o A,
    alias_inv [] st0 /\ step c (run c st0 h) f (PMsg m) = (st', outs) /\ m_type m = t_host_update /\
    entry st' rid o <> entry (run c st0 h) rid o /\ amap_get A st' = Some rid /\ ~ In A (all_from f).
Proof. exact shared_address_witness. Qed.
Print Assumptions C35_update_addr_shared_refuted.

(* Only a lighthouse sends anything in response to a lighthouse message, and a query answer is sent only for a
   query, to the tunnel that asked. *)
Theorem C35_lh_only_answers : forall c st f p st' outs d rm,
  step c st f p = (st', outs) -> In (OSend d rm) outs ->
  c_am c = true /\
  (m_type rm = t_host_query_reply -> d = fst f /\ exists m, p = PMsg m /\ m_type m = t_host_query).
Proof. exact sends_gate. Qed.
Print Assumptions C35_lh_only_answers.

(* A node that is not a lighthouse: nothing has any effect except query replies and punch requests from a configured
   lighthouse; in particular host updates and queries never do. *)
Theorem C35_client_gates : forall c st f p st' outs,
  c_am c = false -> step c st f p = (st', outs) ->
  (st' = st /\ outs = []) \/
  (sender_lh c f = true /\ exists m, p = PMsg m /\ (m_type m = t_host_query_reply \/ m_type m = t_host_punch)).
Proof. exact client_gate. Qed.
Print Assumptions C35_client_gates.

(* Punches (on any node) are scheduled only on request of a configured lighthouse. *)
Theorem C35_punch_gate : forall c st f p st' outs o,
  step c st f p = (st', outs) -> In o outs -> (exists t v, o = OPunch t v) \/ (exists v, o = ORespond v) ->
  sender_lh c f = true /\ exists m, p = PMsg m /\ m_type m = t_host_punch.
Proof. exact punch_gate. Qed.
Print Assumptions C35_punch_gate.

(* History invariant, for all histories of messages and handshakes from any initial addrMap: a cache entry under owner
   key o that was not there initially was written by the tunnel whose first certified address is o, through a
   handshake, a host update accepted on a lighthouse (claiming only its own addresses), or a query reply when that
   tunnel is one of the configured lighthouses. *)
Theorem C35_history : forall c h st0 rid o,
  entry (run c st0 h) rid o <> None ->
  entry st0 rid o <> None \/ exists op, In op h /\ accepted_writer c op o.
Proof. exact history_owner. Qed.
Print Assumptions C35_history.

Example C35_nonvacuous :
  (let '(st, outs) := step lh_node init_state (xA, [xB]) (PMsg (upd None)) in
   entry st 0 xA = Some (mkCe None None [(3325256711, 4242)] [] []) /\ amap_get xA st = Some 0 /\ amap_get xB st = Some 0 /\
   outs = [OSend xA (blank t_host_update_ack)]) /\
  wf_sets (sets_of [HMsg (xA, [xB]) (PMsg (upd None)); HLearn (xC, []) ((true, 1), 1); HMsg (xA, [xB]) (PMsg (upd None))]) /\
  alias_inv [] init_state.
Proof. split; [exact ex_update_stored|]. split; [exact ex_wf|exact init_alias]. Qed.

(* C37  Remote address lists are deduplicated and deterministically ordered.  Property theorems only. *)
From Coq Require Import List NArith Bool Sorting.Permutation Sorting.Sorted.
Import ListNotations.
From NV Require Import model.RemoteList proofs.RemoteList_order proofs.RemoteList_sort proofs.RemoteList_rebuild.
Open Scope N_scope.

(* The order of unlockedSort is a strict total order on (family, address, port), for every preferred-range list. *)
Theorem C37_less_strict_total_order : forall pref,
  (forall a, less pref a a = false) /\
  (forall a b c, less pref a b = true -> less pref b c = true -> less pref a c = true) /\
  (forall a b, less pref a b = true \/ a = b \/ less pref b a = true).
Proof. intros pref. split; [apply less_irrefl|]. split; [apply less_trans|apply less_trichotomy]. Qed.
Print Assumptions C37_less_strict_total_order.

(* ... and it is the documented one: class (preferred IPv6 0, preferred public IPv4 2, preferred private IPv4 3,
   other IPv6 4, other public IPv4 6, other private IPv4 7), then address, then port. *)
Theorem C37_less_documented : forall pref a b,
  less pref a b = true <->
  cls pref a < cls pref b \/
  (cls pref a = cls pref b /\ (ap_val a < ap_val b \/ (ap_val a = ap_val b /\ ap_port a < ap_port b))).
Proof. exact less_spec. Qed.
Print Assumptions C37_less_documented.

(* One rebuild: sorted by that order, no duplicates, exactly (learned + reported + admitted resolved) - blocked. *)
Theorem C37_rebuild : forall (admission : list addr -> addr -> bool) pref vpn (c : cache) dns bad,
  let l := rebuilt admission pref vpn c dns bad in
  addrs_sorted pref l /\ NoDup l /\
  (forall x, In x l <->
     ((exists e, In e c /\ In x (oc_addrs (snd e))) \/ (In x dns /\ admission vpn (ap_addr x) = true)) /\ ~ In x bad).
Proof.
  intros. split; [apply rebuilt_sorted|]. split; [apply rebuilt_nodup|]. intros x. apply rebuilt_exact.
Qed.
Print Assumptions C37_rebuild.

(* Every enumeration order of the owner map and of the resolver-result map gives the same list ... *)
Theorem C37_enumeration_order_irrelevant : forall (admission : list addr -> addr -> bool) pref vpn c c' dns dns' bad,
  Permutation c c' -> Permutation dns dns' ->
  rebuilt admission pref vpn c dns bad = rebuilt admission pref vpn c' dns' bad.
Proof. exact rebuilt_order_independent. Qed.
Print Assumptions C37_enumeration_order_irrelevant.

(* ... as does every sorting procedure, stable or not: any arrangement of the collected addresses in which no later
   element sorts before an earlier one, followed by the dedup loop. *)
Theorem C37_sort_procedure_irrelevant : forall (admission : list addr -> addr -> bool) pref vpn c dns bad l',
  Permutation l' (collect_addrs (admission vpn) c dns bad) ->
  StronglySorted (fun a b => less pref b a = false) l' ->
  dedup ap_eqb l' = rebuilt admission pref vpn c dns bad.
Proof. exact rebuilt_sort_independent. Qed.
Print Assumptions C37_sort_procedure_irrelevant.

(* The list is determined by the property: any sorted list with exactly those elements is it. *)
Theorem C37_unique : forall (admission : list addr -> addr -> bool) pref vpn c dns bad m,
  addrs_sorted pref m -> (forall x, In x m <-> In x (collect_addrs (admission vpn) c dns bad)) ->
  m = rebuilt admission pref vpn c dns bad.
Proof. exact rebuilt_unique. Qed.
Print Assumptions C37_unique.

(* A preferred-range change between rebuilds: re-sorting the old result equals rebuilding under the new ranges. *)
Theorem C37_preferred_change : forall p1 p2 l, sort_addrs p2 (sort_addrs p1 l) = sort_addrs p2 l.
Proof. exact sort_addrs_resort. Qed.
Print Assumptions C37_preferred_change.

(* Relays: sorted by address, no duplicates, exactly the union of the reported relays; whatever order the
   de-duplicating map hands them out in, and whatever order the owners are enumerated in. *)
Theorem C37_relays : forall (c c' : cache) m,
  let r := relays_of (collect_relays c) in
  relays_sorted r /\ NoDup r /\
  (forall x, In x r <-> exists e, In e c /\ In x (oc_relay (snd e))) /\
  (NoDup m -> (forall x, In x m <-> In x (collect_relays c)) -> sort_by addr_ltb m = r) /\
  (Permutation c c' -> relays_of (collect_relays c') = r).
Proof.
  intros c c' m r. destruct (relays_rebuilt_spec c) as (H1 & H2 & H3).
  split; [exact H1|]. split; [exact H2|]. split; [exact H3|]. split.
  - apply relays_any_map_order.
  - intros P. symmetry. now apply relays_order_independent.
Qed.
Print Assumptions C37_relays.

(* All histories: after any sequence of operations on a fresh list (learn, set, prepend, relays, block, unblock,
   handshake completion, resolver updates, resets, rebuilds under changing preferred ranges), CopyAddrs and the relay
   candidates are the canonical form - sorted, duplicate free - of the CURRENT sources. *)
Theorem C37_history : forall (admission : list addr -> addr -> bool) (chk : addr -> ap -> bool) vpn ops pref,
  let s := rrun admission chk (rl_new vpn) ops in
  addrs_sorted pref (copy_addrs admission pref s) /\ NoDup (copy_addrs admission pref s) /\
  relays_sorted (copy_relays admission pref s) /\ NoDup (copy_relays admission pref s) /\
  copy_addrs admission pref s = sort_addrs pref (sources admission s) /\
  copy_relays admission pref s = relays_of (collect_relays (rl_cache s)).
Proof.
  intros. destruct (copy_always_sorted admission pref s) as (H1 & H2 & H3 & H4).
  destruct (history_exact admission chk vpn ops pref) as [H5 H6]. repeat split; assumption.
Qed.
Print Assumptions C37_history.

(* A non-trivial history: duplicates across entries, a mapped v6 entry, a port above 16 bits, a block that is later
   lifted - the unblocked address is back in the list. *)
Example C37_nonvacuous :
  let adm := fun (_ : list addr) (_ : addr) => true in
  let chk := fun (_ : addr) (_ : ap) => true in
  let ops := [RSet4 (F4, 167772161) (F4, 167772162) [(16843009, 4242); (167772165, 4242); (16843009, 4242)];
              RSet6 (F4, 167772169) (F4, 167772162) [(2306139568115548160, 1, 4242); (0, 281470698520577, 70000)];
              RBlock (F4, 167772165, 4242); RRebuild []; RLearn (F4, 167772161) (F4, 134744072, 1); RUnblock] in
  copy_addrs adm [] (rrun adm chk (rl_new [(F4, 167772162)]) ops) =
    [(F6, 42540766411282592856903984951653826561, 4242); (F4, 16777217, 4464); (F4, 16843009, 4242); (F4, 134744072, 1); (F4, 167772165, 4242)].
Proof. vm_compute. reflexivity. Qed.

(* C04  Issuance never exceeds the signing CA.  Property theorems only. *)
From Coq Require Import List NArith ZArith Bool.
Import ListNotations.
From NV Require Import lib.Corr model.Cert gen.Consts_CertSign proofs.Cert_proofs proofs.CertSign_proofs.
Open Scope N_scope.

(* T1: the constants the code computes with are the documented ones (regenerated from /repo on every run;
   a changed constant makes these fail to compile). *)
Lemma p256_n_doc : p256_n = 0xFFFFFFFF00000000FFFFFFFFFFFFFFFFBCE6FAADA7179E84F3B9CAC2FC632551.
Proof. reflexivity. Qed.
Lemma p256_half_doc : p256_half_n = p256_n / 2.
Proof. vm_compute. reflexivity. Qed.
Lemma enums_doc : curve_25519 = 0 /\ curve_p256 = 1 /\ version1 = 1 /\ version2 = 2 /\ max_name_length = 253.
Proof. repeat split; reflexivity. Qed.

(* Every certificate issued under a signer verifies against ANY pool that holds the signer, at every instant
   of the certificate's validity window (which lies inside the signer's), unless one of its fingerprints is
   blocklisted - provided the signing key is the signer's own (so its curve is the signer's and the
   signature verifies under the signer's key). *)
Theorem C04_sign_implies_verify : forall ca kc t fp fp2 c,
  sign_with (Some ca) kc t fp fp2 = SOk c ->
  kc = c_curve ca ->
  forall P bl now sig,
    lookup (c_fp ca) P = Some ca -> c_fp ca <> [] -> sig ca = true ->
    ~ In fp bl -> ~ In fp2 bl ->
    (c_nb c <= now <= c_na c)%Z ->
    exists cc, verify_g P bl now c sig = Ok cc.
Proof. exact sign_implies_verify. Qed.
Print Assumptions C04_sign_implies_verify.

(* Signing under a signer succeeds only inside every constraint of the signer; the result is not a CA, is on
   the key's curve and names the signer. *)
Theorem C04_within_constraints : forall ca kc t fp fp2 c,
  sign_with (Some ca) kc t fp fp2 = SOk c ->
  c_isCA c = false /\ c_curve c = kc /\ c_issuer c = c_fp ca /\ c_fp c = fp /\ c_fp2 c = fp2 /\
  (c_nb ca <= c_nb c /\ c_na c <= c_na ca)%Z /\
  (c_groups ca = [] \/ forall g, In g (c_groups c) -> In g (c_groups ca)) /\
  (c_networks ca = [] \/ forall n, In n (c_networks c) -> exists m, In m (c_networks ca) /\ Covers m n) /\
  (c_unsafe ca = [] \/ forall n, In n (c_unsafe c) -> exists m, In m (c_unsafe ca) /\ Covers m n).
Proof. exact sign_within_constraints. Qed.
Print Assumptions C04_within_constraints.

(* A CA certificate is never signed by another certificate (exactly: the request is refused with that reason
   once the key/TBS curve guard has passed). *)
Theorem C04_no_ca_from_ca : forall ca kc t fp fp2,
  (t_isCA t = true -> kc = t_curve t -> sign_with (Some ca) kc t fp fp2 = SErr SCaWithSigner) /\
  (forall c, sign_with (Some ca) kc t fp fp2 = SOk c -> c_isCA c = false).
Proof. intros. split; [apply no_ca_from_ca|intros c; apply signed_by_ca_is_not_ca]. Qed.
Print Assumptions C04_no_ca_from_ca.

(* Self-signing succeeds only for CA certificates; the result has no issuer. *)
Theorem C04_selfsign_only_ca : forall kc t fp fp2,
  (t_isCA t = false -> kc = t_curve t -> sign_with None kc t fp fp2 = SErr SSelfNotCA) /\
  (forall c, sign_with None kc t fp fp2 = SOk c -> c_isCA c = true /\ c_issuer c = [] /\ c_curve c = kc).
Proof. exact selfsign_only_ca. Qed.
Print Assumptions C04_selfsign_only_ca.

(* Re-issue: the outcome of signing a request - under a signer or self-signed - does not depend on earlier
   signings of the same TBSCertificate object (whatever they left in its unexported issuer field): it is the
   outcome for a fresh request. In particular a certificate issued under a signer names THIS signer
   (C04_within_constraints) and verifies against this signer's pool (C04_sign_implies_verify), and a
   self-signed one has no issuer (C04_selfsign_only_ca). *)
Theorem C04_resign_independent : forall h signer kc t iss0 fp fp2,
  fst (sign_with_st signer kc t (issuer_after [] h) fp fp2) = sign_with signer kc t fp fp2 /\
  fst (sign_st signer kc t (issuer_after [] h) fp fp2) = sign signer kc t fp fp2 /\
  fst (sign_with_st signer kc t iss0 fp fp2) = sign_with signer kc t fp fp2 /\
  fst (sign_st signer kc t iss0 fp fp2) = sign signer kc t fp fp2.
Proof.
  intros. destruct (resign_independent h signer kc t fp fp2) as [H1 H2].
  destruct (resign_any signer kc t iss0 fp fp2) as [H3 H4]. repeat split; assumption.
Qed.
Print Assumptions C04_resign_independent.

(* Curve guard, as the code has it: the curve of the KEY must be the curve in the request; Sign (the variant
   taking a private key) moreover refuses every curve but the two known ones. *)
Theorem C04_curve_guard : forall signer kc t fp fp2,
  (kc <> t_curve t -> sign_with signer kc t fp fp2 = SErr SKeyCurve) /\
  (t_curve t <> 0 -> t_curve t <> 1 -> sign signer kc t fp fp2 = SErr SBadCurve) /\
  (t_curve t = 0 \/ t_curve t = 1 -> sign signer kc t fp fp2 = sign_with signer kc t fp fp2).
Proof. intros. split; [apply key_curve_guard|apply sign_guard]. Qed.
Print Assumptions C04_curve_guard.

(* Normalize puts every valid S into the low half, as S itself or as n - S (n the real P-256 group order). *)
Theorem C04_low_s : forall s, 0 < s < p256_n ->
  exists s', normalize_s p256_n p256_half_n s = Some s' /\ 0 < s' <= p256_n / 2 /\ (s' = s \/ s' = p256_n - s).
Proof. intros s H. rewrite p256_half_doc. apply low_s_odd; [reflexivity|assumption]. Qed.
Print Assumptions C04_low_s.

(* The two forms of a signature are swapped into each other and exactly one of them is low: the alternate
   fingerprint of a certificate is the fingerprint of its other form. *)
Theorem C04_twin : forall s, 0 < s < p256_n ->
  swap_s p256_n s = Some (p256_n - s) /\ swap_s p256_n (p256_n - s) = Some s /\
  is_low_s p256_half_n (p256_n - s) = negb (is_low_s p256_half_n s).
Proof.
  intros s H. destruct (swap_involutive p256_n s H) as [H1 H2]. repeat split; try assumption.
  rewrite p256_half_doc. apply exactly_one_low; [reflexivity|assumption].
Qed.
Print Assumptions C04_twin.

(* ---- non-vacuity, and what the hypothesis "the key is the signer's own" excludes ------------------------ *)

Definition ex_signer : cert :=
  mkCert 2 0 [99; 97] [mkPfx 4 167772160 8 true] [] [[97]; [98]] true 1000%Z 9000%Z [] [1; 2; 3] [102; 49] [].
Definition ex_tbs (curve : N) : tbs :=
  mkTbs 2 [104] [mkPfx 4 167838211 24 true] [] [[97]] false 2000%Z 3000%Z [7] curve.

Example C04_nonvacuous :
  (exists c, sign_with (Some ex_signer) 0 (ex_tbs 0) [108; 49] [] = SOk c /\
             is_ok (verify [(c_fp ex_signer, ex_signer)] [] 2000%Z c true) = true /\
             is_ok (verify [(c_fp ex_signer, ex_signer)] [] 3000%Z c true) = true /\
             is_ok (verify [(c_fp ex_signer, ex_signer)] [] 3001%Z c true) = false) /\
  sign_with (Some ex_signer) 0 (mkTbs 2 [104] [mkPfx 4 167838211 7 true] [] [[97]] false 2000%Z 3000%Z [7] 0) [108] [] = SErr (SConstraint ECNetwork) /\
  sign_with (Some ex_signer) 0 (mkTbs 2 [104] [mkPfx 4 167838211 24 true] [] [[122]] false 2000%Z 3000%Z [7] 0) [108] [] = SErr (SConstraint ECGroup) /\
  sign_with (Some ex_signer) 0 (mkTbs 2 [104] [mkPfx 4 167838211 24 true] [] [] false 2000%Z 9001%Z [7] 0) [108] [] = SErr (SConstraint ECNotAfter) /\
  normalize_s p256_n p256_half_n (p256_n - 1) = Some 1.
Proof. split; [eexists; split; [vm_compute; reflexivity|]|]; repeat split; vm_compute; reflexivity. Qed.

(* KNOWN FINDING F23 (KNOWN_FINDINGS.json, signature "signer-curve-mismatch"): SignWith compares the key's curve
   with the request, not with the signer certificate. Given a P256 key together with a Curve25519 signer (and
   symmetrically) it issues a certificate naming that signer which the signer's own pool refuses, at every
   instant and whatever the signature verdict: the property's "satisfies the signing CA's curve constraint" and
   "every issued certificate verifies against a pool containing its signer" fail on exactly the region
   kc <> c_curve ca, which the hypothesis of C04_sign_implies_verify excludes. (nebula-cert is not affected: it
   checks the key against the CA certificate with VerifyPrivateKey first.) *)
Definition ex_signer_p256 : cert :=
  mkCert 2 1 [99; 98] [] [] [] true 1000%Z 9000%Z [] [4; 5; 6] [102; 50] [].

Theorem C04_signer_curve_refuted :
  (exists ca kc t fp fp2 c,
     sign_with (Some ca) kc t fp fp2 = SOk c /\ kc <> c_curve ca /\ c_curve c <> c_curve ca /\
     forall now sig, verify_g [(c_fp ca, ca)] [] now c sig = Err ECurveMismatch) /\
  (exists ca kc t fp fp2 c,
     c_curve ca = 1 /\ sign_with (Some ca) kc t fp fp2 = SOk c /\ kc <> c_curve ca /\
     forall now sig, verify_g [(c_fp ca, ca)] [] now c sig = Err ECurveMismatch).
Proof.
  split.
  - exists ex_signer, 1, (ex_tbs 1), [108; 50], [108; 51]. eexists.
    split; [vm_compute; reflexivity|]. split; [vm_compute; discriminate|]. split; [vm_compute; discriminate|].
    intros now sig. vm_compute. reflexivity.
  - exists ex_signer_p256, 0, (ex_tbs 0), [108; 52], []. eexists.
    split; [reflexivity|]. split; [vm_compute; reflexivity|]. split; [vm_compute; discriminate|].
    intros now sig. vm_compute. reflexivity.
Qed.
Print Assumptions C04_signer_curve_refuted.

(* C03  Every issued certificate decodes back to itself.  Property theorems only. *)
From Coq Require Import List NArith ZArith.
Import ListNotations.
From NV Require Import lib.Bytes lib.Proto lib.Der model.CertCodec
  proofs.CertCodec_sort proofs.CertCodec_v2 proofs.CertCodec_v1 proofs.CertCodec_main.
Open Scope N_scope.

(* Version 2. For EVERY TBS certificate and signature that SignWith accepts (sign_v2 = validate, which sorts the
   networks, plus the size check on the finished certificate), the issued certificate c - fields and kept details
   bytes - comes back from its standard encoding and from its handshake encoding recombined with its key and curve. *)
Theorem C03_roundtrip_v2 : forall tbs sig c, sign_v2 tbs sig = Some c ->
  decode_v2 [] 0 (encode_v2 c) = Some c /\
  recombine 2 (encode_hs_v2 c) (Some (c_pub (c2 c))) (c_curve (c2 c)) = Some (V2 c).
Proof. exact roundtrip_v2. Qed.
Print Assumptions C03_roundtrip_v2.

(* Version 1. The only extra premise is that the encodings are Go slices (shorter than 2^63 bytes). *)
Theorem C03_roundtrip_v1 : forall tbs sig c, sign_v1 tbs sig = Some c -> go_len (encode_v1 c) -> go_len (encode_hs_v1 c) ->
  decode_v1 [] (encode_v1 c) = Some c /\
  recombine 1 (encode_hs_v1 c) (Some (c_pub c)) (c_curve c) = Some (V1 c) /\
  recombine 0 (encode_hs_v1 c) (Some (c_pub c)) (c_curve c) = Some (V1 c).
Proof. exact roundtrip_v1. Qed.
Print Assumptions C03_roundtrip_v1.

(* PEM: under the stated behaviour of encoding/pem the PEM form decodes back to the issued certificate, nothing left. *)
Theorem C03_pem_v2 : forall pem_enc pem_dec,
  (forall banner body, pem_dec (pem_enc banner body) = Some (banner, body, [])) ->
  forall tbs sig c, sign_v2 tbs sig = Some c ->
  unmarshal_pem pem_dec (marshal_pem pem_enc (V2 c)) = Some (V2 c, []).
Proof. exact pem_roundtrip_v2. Qed.
Print Assumptions C03_pem_v2.

Theorem C03_pem_v1 : forall pem_enc pem_dec,
  (forall banner body, pem_dec (pem_enc banner body) = Some (banner, body, [])) ->
  forall tbs sig c, sign_v1 tbs sig = Some c -> go_len (encode_v1 c) ->
  unmarshal_pem pem_dec (marshal_pem pem_enc (V1 c)) = Some (V1 c, []).
Proof. exact pem_roundtrip_v1. Qed.
Print Assumptions C03_pem_v1.

(* Fingerprints (H = SHA-256 over exactly the bytes the code hashes) are those of the issued certificate on all paths. *)
Theorem C03_fingerprint_v2 : forall pem_enc pem_dec H,
  (forall banner body, pem_dec (pem_enc banner body) = Some (banner, body, [])) ->
  forall tbs sig c c1 c2' c3 rest, sign_v2 tbs sig = Some c ->
  decode_v2 [] 0 (encode_v2 c) = Some c1 ->
  recombine 2 (encode_hs_v2 c) (Some (c_pub (c2 c))) (c_curve (c2 c)) = Some c2' ->
  unmarshal_pem pem_dec (marshal_pem pem_enc (V2 c)) = Some (c3, rest) ->
  fingerprint H (V2 c1) = fingerprint H (V2 c) /\ fingerprint H c2' = fingerprint H (V2 c) /\
  fingerprint H c3 = fingerprint H (V2 c).
Proof. exact fingerprints_v2. Qed.
Print Assumptions C03_fingerprint_v2.

Theorem C03_fingerprint_v1 : forall pem_enc pem_dec H,
  (forall banner body, pem_dec (pem_enc banner body) = Some (banner, body, [])) ->
  forall tbs sig c c1 c2' c3 rest, sign_v1 tbs sig = Some c ->
  go_len (encode_v1 c) -> go_len (encode_hs_v1 c) ->
  decode_v1 [] (encode_v1 c) = Some c1 ->
  recombine 1 (encode_hs_v1 c) (Some (c_pub c)) (c_curve c) = Some c2' ->
  unmarshal_pem pem_dec (marshal_pem pem_enc (V1 c)) = Some (c3, rest) ->
  fingerprint H (V1 c1) = fingerprint H (V1 c) /\ fingerprint H c2' = fingerprint H (V1 c) /\
  fingerprint H c3 = fingerprint H (V1 c).
Proof. exact fingerprints_v1. Qed.
Print Assumptions C03_fingerprint_v1.

(* Every certificate any decoder returns, for ALL byte strings, keys, curves and versions, obeys the structural rules
   validate() enforces when signing (v2: including strictly sorted, duplicate-free networks; name of 1..253 bytes; no
   empty group). *)
Theorem C03_decoder_sound_v2 : forall pk dcurve b c, decode_v2 pk dcurve b = Some c ->
  valid_v2 (c2 c) = true /\ c_sig (c2 c) <> [] /\ c_pub (c2 c) <> [] /\
  exists d, unmarshal_details (c2_raw c) = Some d /\
    validate_v2 (mkCert (c_name d) (c_nets d) (c_unsafe d) (c_groups d) (c_isca d) (c_nb d) (c_na d) (c_issuer d)
                        (c_curve (c2 c)) (c_pub (c2 c)) (c_sig (c2 c))) = Some (c2 c).
Proof. exact decode_v2_sound. Qed.
Print Assumptions C03_decoder_sound_v2.

Theorem C03_decoder_sound_v1 : forall pk b c, decode_v1 pk b = Some c -> valid_v1 c = true.
Proof. exact decode_v1_sound. Qed.
Print Assumptions C03_decoder_sound_v1.

Theorem C03_decoder_sound : forall pem_dec,
  (forall v raw pk curve a, recombine v raw pk curve = Some a -> obeys a = true) /\
  (forall b a rest, unmarshal_pem pem_dec b = Some (a, rest) -> obeys a = true).
Proof. intros pem_dec. split; [exact recombine_sound|exact (unmarshal_pem_sound pem_dec)]. Qed.
Print Assumptions C03_decoder_sound.

(* What signing hands out obeys the same rules (so "accepted by the decoder" and "issued" meet in valid_v1/valid_v2). *)
Theorem C03_issued_obey_rules :
  (forall tbs sig c, sign_v2 tbs sig = Some c -> valid_v2 (c2 c) = true /\ c2_raw c = encode_details (c2 c)) /\
  (forall tbs sig c, sign_v1 tbs sig = Some c -> valid_v1 c = true /\ marshalable_v1 c = true).
Proof.
  split.
  - intros tbs sig c H. destruct (sign_v2_issued _ _ _ H) as (c' & -> & (Hv & _) & _). split; [exact Hv|reflexivity].
  - intros tbs sig c H. destruct (sign_v1_issued _ _ _ H) as (_ & (Hv & Hm & _) & _). now split.
Qed.
Print Assumptions C03_issued_obey_rules.

(* The theorems are not vacuous, and the two places where the decoders are laxer than Sign (neither is a validate()
   rule; such certificates can never verify): unknown curve values, and for v1 an empty signature. *)
Example C03_nonvacuous :
  (exists c, sign_v2 (sample_tbs 1) [7; 7] = Some c /\ c_nets (c2 c) = [(true, 167772161, 24); (false, 335544320, 64)]) /\
  (exists c, sign_v1 (with_nets (sample_tbs 0) [(true, 167772161, 24)] []) [7; 7] = Some c).
Proof. exact sign_accepts_sample. Qed.

Example C03_decoders_laxer_than_sign :
  ((exists b c, decode_v2 [] 0 b = Some c /\ c_curve (c2 c) = 7) /\ (exists b c, decode_v1 [] b = Some c /\ c_curve c = 7)) /\
  (exists b c, decode_v1 [] b = Some c /\ c_sig c = []).
Proof. split; [exact decoder_accepts_unknown_curve|exact decoder_v1_accepts_empty_signature]. Qed.

(* C43  Encrypted private keys open only with the right passphrase; key PEM encodings round-trip for every curve
   and are refused under the wrong banner.  Property theorems only.

   LEVEL: partial. AES-256-GCM and Argon2id are not modelled; the theorems about encrypted keys hold for EVERY
   [kdf], [enc], [dec] meeting the stated assumptions, which appear as premises:
     aead_correct    opening what was sealed under the same key and nonce returns the plaintext;
     aead_integrity  whatever opens under (key, nonce) is the sealing of its plaintext under exactly that key and
                     nonce (so an altered ciphertext, another key or another nonce does not open);
     kdf_injective   the key derivation is injective in (passphrase, salt, iterations, memory, parallelism).
   [C43_assumptions_satisfiable] exhibits functions meeting all three, and honest inputs.
   What is proved is everything around the cryptography: the protobuf container is read back exactly (at the wire
   level, for all field values), every field that was written reaches the key derivation or the cipher unmodified, so
   that none can be altered unnoticed, and the banner is tied to the key by the key length.
   A PEM block is (banner, bytes); the text armour (encoding/pem) is outside the model. Curve 0 = Ed25519/X25519,
   1 = P256. The theorems about plain key blocks need no assumption. *)
From Coq Require Import List NArith Bool.
Import ListNotations.
From NV Require Import lib.Bytes lib.Proto lib.Corr lib.KeyCrypt_lib gen.Consts_KeyCrypt model.KeyCrypt
  proofs.KeyCrypt_consts proofs.KeyCrypt_codec proofs.KeyCrypt_proofs.
Open Scope N_scope.

(* T1: banners, algorithm name, Argon2 version, GCM sizes as documented (the texts are spelled out in
   proofs/KeyCrypt_consts.v: [documented_banners], [documented_constants]); the ten key banners are pairwise distinct *)
Theorem C43_constants : documented_banners /\ documented_constants /\ NoDup key_banners.
Proof. exact (conj banners_documented (conj constants_documented key_banners_distinct)). Qed.
Print Assumptions C43_constants.

(* the container written for any field values is read back as exactly those values (wire level) *)
Theorem C43_container_roundtrip : forall alg a blob,
  kc_utf8_valid alg = true -> N.of_nat (length alg) < two32 -> argon_wf a -> N.of_nat (length blob) < two32 ->
  parse_edata (encode_edata alg a blob) = Some (mkEData (Some (mkMeta alg (Some a))) blob).
Proof. exact parse_encode_edata. Qed.
Print Assumptions C43_container_roundtrip.

(* round trip, both curves: the right passphrase returns the curve and exactly the original key *)
Theorem C43_roundtrip : forall kdf enc dec, aead_correct enc dec ->
  forall curve key pass mem par it salt nonce,
  honest curve key mem par it salt nonce (enc (kdf pass salt it mem par) nonce key) ->
  exists blk, encrypt kdf enc curve key pass mem par it salt nonce = Some blk /\
              decrypt kdf dec pass blk = Some (curve, key).
Proof. exact roundtrip. Qed.
Print Assumptions C43_roundtrip.

(* any other passphrase is refused *)
Theorem C43_wrong_passphrase : forall kdf enc dec, aead_integrity enc dec -> kdf_injective kdf ->
  forall curve key pass mem par it salt nonce blk pass',
  honest curve key mem par it salt nonce (enc (kdf pass salt it mem par) nonce key) ->
  encrypt kdf enc curve key pass mem par it salt nonce = Some blk -> pass' <> pass ->
  decrypt kdf dec pass' blk = None.
Proof. exact wrong_passphrase. Qed.
Print Assumptions C43_wrong_passphrase.

(* binding: ANY block (any banner, any bytes) that carries the honest ciphertext and opens under ANY passphrase
   has the right passphrase, the original banner, decodes to exactly the original algorithm name, Argon2 version,
   memory, parallelism, iterations, salt and nonce, and yields the original curve and key *)
Theorem C43_binding : forall kdf enc dec, aead_integrity enc dec -> kdf_injective kdf ->
  forall curve key pass mem par it salt nonce pass' blk' cv' k',
  let ct := enc (kdf pass salt it mem par) nonce key in
  honest curve key mem par it salt nonce ct ->
  decrypt kdf dec pass' blk' = Some (cv', k') ->
  (forall e, parse_edata (snd blk') = Some e -> skipn nonce_len (e_blob e) = ct) ->
  pass' = pass /\ enc_banner curve = Some (fst blk') /\
  parse_edata (snd blk') =
    Some (mkEData (Some (mkMeta alg_name (Some (mkArgon argon2_version mem par it salt)))) (nonce ++ ct)) /\
  cv' = curve /\ k' = key.
Proof. exact binding. Qed.
Print Assumptions C43_binding.

(* hence: any alteration of the banner (including the other curve's encrypted banner, whose key length differs),
   the algorithm name, the Argon2 version, memory, parallelism, iterations, the salt or the nonce is refused, under
   every passphrase *)
Theorem C43_tamper : forall kdf enc dec, aead_integrity enc dec -> kdf_injective kdf ->
  forall curve key pass mem par it salt nonce pass' banner' body' alg a blob,
  let ct := enc (kdf pass salt it mem par) nonce key in
  honest curve key mem par it salt nonce ct ->
  parse_edata body' = Some (mkEData (Some (mkMeta alg (Some a))) blob) ->
  skipn nonce_len blob = ct ->
  (enc_banner curve <> Some banner' \/ alg <> alg_name \/ a <> mkArgon argon2_version mem par it salt \/
   firstn nonce_len blob <> nonce) ->
  decrypt kdf dec pass' (banner', body') = None.
Proof. exact altered_refused. Qed.
Print Assumptions C43_tamper.

(* altered ciphertext: whatever opens carries a genuine sealing of exactly the returned key under the key derived
   from the presented passphrase and the block's own salt and parameters - nothing else opens *)
Theorem C43_tamper_ciphertext : forall kdf enc dec, aead_integrity enc dec ->
  forall pass' blk' cv' k', decrypt kdf dec pass' blk' = Some (cv', k') ->
  exists a blob, parse_edata (snd blk') = Some (mkEData (Some (mkMeta alg_name (Some a))) blob) /\
    skipn nonce_len blob = enc (kdf pass' (a_salt a) (a_it a) (a_mem a) (a_par a)) (firstn nonce_len blob) k'.
Proof. exact opens_only_genuine. Qed.
Print Assumptions C43_tamper_ciphertext.

(* no assumption needed: what opens decodes completely, names the algorithm and Argon2 version of the code, has
   parameters in range, a salt of at least 16 bytes, a non-empty ciphertext, one of the two encrypted banners, and a
   key of that banner's length *)
Theorem C43_opens_only_wellformed : forall kdf dec pass blk cv k, decrypt kdf dec pass blk = Some (cv, k) ->
  exists alg a blob,
    enc_banner_curve (fst blk) = Some cv /\
    parse_edata (snd blk) = Some (mkEData (Some (mkMeta alg (Some a))) blob) /\
    params_ok a = true /\ alg = alg_name /\ a_version a = argon2_version /\
    (min_salt_len <= length (a_salt a))%nat /\ (nonce_len < length blob)%nat /\
    dec (kdf pass (a_salt a) (a_it a) (a_mem a) (a_par a)) (firstn nonce_len blob) (skipn nonce_len blob) = Some k /\
    key_len_ok cv k = true.
Proof. exact decrypt_inv. Qed.
Print Assumptions C43_opens_only_wellformed.

(* plain key blocks, every curve and kind (0 key-agreement private, 1 signing private, 2 key-agreement public,
   3 signing public): what a marshal function writes, its unmarshal function reads back *)
Theorem C43_plain_roundtrip : forall fn curve key blk, marshal_key fn curve key = Some blk ->
  N.of_nat (length key) = plain_len fn curve -> unmarshal_key fn blk = Some (key, curve).
Proof. exact plain_roundtrip. Qed.
Print Assumptions C43_plain_roundtrip.

(* ... and an unmarshal function accepts ONLY that: under any other banner, or at any other length, it refuses *)
Theorem C43_plain_wrong_banner : forall fn banner bytes key curve, unmarshal_key fn (banner, bytes) = Some (key, curve) ->
  marshal_key fn curve bytes = Some (banner, bytes) /\ key = bytes /\ N.of_nat (length bytes) = plain_len fn curve.
Proof. exact plain_accept_only. Qed.
Print Assumptions C43_plain_wrong_banner.

(* the acceptance matrix swept completely: 4 functions (and a fifth, unknown one) x the 10 key banners, the 2
   certificate banners and the empty banner: accepted iff it is the function's own banner for one of the two curves *)
Theorem C43_plain_matrix : plain_matrix_ok = true.
Proof. exact plain_matrix. Qed.
Print Assumptions C43_plain_matrix.

(* the assumptions can be met, and honest inputs exist *)
Theorem C43_assumptions_satisfiable :
  (aead_correct toy_enc toy_dec /\ aead_integrity toy_enc toy_dec /\ kdf_injective toy_kdf) /\
  honest 0 (repeat 7 64) 8 1 1 (repeat 1 32) (repeat 2 12)
         (toy_enc (toy_kdf [112] (repeat 1 32) 1 8 1) (repeat 2 12) (repeat 7 64)).
Proof. exact (conj toy_meets_assumptions honest_example). Qed.
Print Assumptions C43_assumptions_satisfiable.

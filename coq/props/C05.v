(* C05  A handshake completes only with an authenticated peer.  Property theorems only.

   Level: PARTIAL.  Proved, for every machine reachable from NewMachine under ANY sequence of Initiate / ProcessPacket
   calls with ANY packets (so in particular under every adversary that drops, duplicates, reorders, truncates, flips,
   splices, replays or forges messages): whenever ProcessPacket returns a Result,
     - the reported certificate is one the verifier accepted, recombined with exactly the static key the peer
       presented in the Noise exchange (hs.PeerStatic), and it is the result the machine keeps;
     - the two session keys are the halves of a chaining key into which DH(own ephemeral, that static key) and
       DH(own static, peer ephemeral) were mixed: nobody without the private half of that static key (or of our own
       ephemeral) can compute them;
     - on the INITIATOR side (completion by reading message 2) the message itself carried an AEAD box keyed by
       DH(own ephemeral, peer static): the peer took part with that key.
   NOT proved but assumed (symbolic-model / Noise IX assumption): that only the holder of the private key can produce
   such a box or use such keys (no Dolev-Yao secrecy proof).
   REFUTED for the literal statement on the RESPONDER side (finding F27, inherent to two-message IX): message 1 is
   unauthenticated, the responder completes on a forged message 1 - see C05_responder_unproven_refuted. *)
From Coq Require Import List NArith Bool.
Import ListNotations.
From NV Require Import lib.Sym model.Noise model.Machine proofs.Noise_c07 proofs.Noise_struct proofs.Noise_c05.
Open Scope N_scope.

(* [bound m m' r]: certificate accepted /\ its key = rs /\ result kept /\ keys = halves of ck /\ DH(e, rs), DH(s, re) in ck.
   [proved_possession m m' p]: completion by reading message 2 as the Noise initiator, p carrying an AEAD box around the
   payload under HKDF(.., DH(e, rs)). *)
Theorem C05_complete_inv : forall m p m' out r,
  reach m -> process m p = (m', Done out (Some r)) ->
  bound m m' r /\
  ((out = None /\ proved_possession m m' p) \/
   (out <> None /\ r_initiator r = false /\ hs_msgIdx (m_hs m) = 0)).
Proof. intros m p m' out r R. apply complete_bound. now apply reach_wf. Qed.
Print Assumptions C05_complete_inv.

(* the same for whole networks: whatever the schedule and whatever the packets, every machine stays within reach of
   C05_complete_inv *)
Theorem C05_network : forall net evs, Forall reach net -> Forall reach (run net evs).
Proof. exact run_reach. Qed.
Print Assumptions C05_network.

(* in particular for every packet an adversary can derive from what it has seen (K), without honest private keys *)
Theorem C05_adversary : forall K m p m' out r,
  reach m -> derives K (pk_body p) -> process m p = (m', Done out (Some r)) -> bound m m' r.
Proof. intros K m p m' out r R _ Hp. exact (proj1 (C05_complete_inv m p m' out r R Hp)). Qed.
Print Assumptions C05_adversary.

(* failed is sticky *)
Theorem C05_failed_sticky : forall m,
  m_failed m = true -> (forall p, m_failed (fst (process m p)) = true) /\ m_failed (fst (initiate m)) = true.
Proof. exact failed_sticky. Qed.
Print Assumptions C05_failed_sticky.

(* F27: the responder completes, reporting A's certificate, on a message 1 that A never sent: (1) A's captured
   message 1 with the Time of its cleartext payload changed, (2) a message assembled from A's public key and certificate
   bytes and the adversary's own ephemeral.  A does not accept the answer; no private key of A is needed. *)
Theorem C05_responder_unproven_refuted :
  C05Ex.resp_result C05Ex.forged1 = Some (101, Pub 1) /\ C05Ex.resp_result C05Ex.forged_pub = Some (101, Pub 1) /\
  pk_body C05Ex.forged1 <> pk_body C07Ex.msg1 /\
  derives [pk_body C07Ex.msg1] (pk_body C05Ex.forged1) /\ derives [Priv 99; Pub 1] (pk_body C05Ex.forged_pub) /\
  C07Ex.rejects (snd (process C07Ex.mI1 (C05Ex.resp_answer C05Ex.forged1))) = true /\
  forall m', ~ proved_possession C07Ex.mR0 m' C05Ex.forged1.
Proof. exact responder_unproven. Qed.
Print Assumptions C05_responder_unproven_refuted.

(* non-vacuity: both kinds of completion happen *)
Example C05_nonvacuous :
  C07Ex.completes (snd (process C07Ex.mR0 C07Ex.msg1)) = true /\ C07Ex.completes (snd (process C07Ex.mI1 C07Ex.msg2)) = true /\
  reach C07Ex.mR0 /\ reach C07Ex.mI1.
Proof.
  split; [vm_compute; reflexivity|]. split; [vm_compute; reflexivity|]. split.
  - eapply (reach_new C07Ex.cfgR 2 false). reflexivity.
  - apply reach_initiate. eapply (reach_new C07Ex.cfgI 2 true). reflexivity.
Qed.

(* C26  Batched underlay sends survive kernel faults without duplication.  Property theorems only.

   [write_batch_cap cap gso maxSegs pkts orc] is WriteBatch on a batchWriter with a scratch of cap slots
   (production: write_batch, cap = MaxWriteBatch), GSO flag gso, w.maxGSOSegments = maxSegs, the batch pkts =
   (length, destination, routable?) and the kernel orc : call number -> entries offered -> (sent, errno).
   r_calls = every sendFn call (entries offered, answer); [sent_indices] = the batch indexes of the packets in
   kernel-accepted entries, in the order they were handed over; r_out = Done n (return n, nil) |
   NoProgress n (return n, error) | BadOracle (answered sent > offered) | OutOfFuel.
   Everything is for ALL cap, gso, maxSegs, batches and oracles; only "the call returns" needs [oracle_ok]
   (sent <= offered, which sendmmsg(2) guarantees). *)
From Coq Require Import List NArith ZArith.
Import ListNotations.
From Coq Require Import Sorted Lia.
From NV Require Import lib.Bytes gen.Consts_WriteBatch model.WriteBatch proofs.WriteBatch_proofs model.SendBatch proofs.SendBatch_proofs.
Open Scope N_scope.

(* The limits as documented (regenerated from the compiled code on every run): 65000 bytes per superpacket;
   UDP_MAX_SEGMENTS - 1 segments (64 before Linux 6.9, 128 from 6.9 on); 128 slots. *)
Lemma C26_limits_doc :
  wb_max_gso_bytes = 65000 /\ wb_segs_pre_6_9 = 63 /\ wb_segs_6_9 = 127 /\ wb_max_write_batch = 128 /\ wb_eio = 5.
Proof. repeat split; reflexivity. Qed.

(* No packet index appears in two successfully sent entries (nor twice in one), and only packets of the batch. *)
Theorem C26_once : forall cap gso maxSegs pkts orc,
  NoDup (sent_indices (r_calls (write_batch_cap cap gso maxSegs pkts orc))) /\
  Forall (fun i => (i < length pkts)%nat) (sent_indices (r_calls (write_batch_cap cap gso maxSegs pkts orc))).
Proof. intros; split; [apply wb_once|apply wb_in_batch]. Qed.
Print Assumptions C26_once.

(* The returned count is the number of packets in kernel-accepted entries (also when an error is returned). *)
Theorem C26_count : forall cap gso maxSegs pkts orc n,
  let r := write_batch_cap cap gso maxSegs pkts orc in
  r_out r = Done n \/ r_out r = NoProgress n -> n = N.of_nat (length (sent_indices (r_calls r))).
Proof. exact wb_count. Qed.
Print Assumptions C26_count.

(* Order: whatever is handed to the kernel later has a larger batch index; in particular two packets for the
   same destination are handed over in their batch order. *)
Theorem C26_order : forall cap gso maxSegs pkts orc l1 a l2 b l3,
  sent_indices (r_calls (write_batch_cap cap gso maxSegs pkts orc)) = l1 ++ a :: l2 ++ b :: l3 -> (a < b)%nat.
Proof. exact wb_order. Qed.
Print Assumptions C26_order.

(* Every slot ever offered to the kernel holds >= 1 consecutive packets of the batch, carries the size and the
   destination of its first packet, which is routable.  If it is offloaded (>= 2 packets, i.e. has a UDP_SEGMENT
   size): GSO was supported, at most maxSegs segments, at most maxGSOBytes bytes, the size fits the 16-bit cmsg
   field (0 < size <= 65000), one destination, every segment but the last exactly that size, the last non-empty
   and not longer. *)
Theorem C26_runs : forall cap gso maxSegs pkts orc c e,
  In c (r_calls (write_batch_cap cap gso maxSegs pkts orc)) -> In e (c_offered c) ->
  (1 <= e_pkts e)%nat /\ (e_start e + e_pkts e <= length pkts)%nat /\
  (exists p rest, run_of pkts e = p :: rest /\ e_seg e = p_len p /\ e_dst e = p_dst p /\ p_ok p = true) /\
  ((2 <= e_pkts e)%nat ->
     gso = true /\ (e_pkts e <= maxSegs)%nat /\ sum_len (run_of pkts e) <= wb_max_gso_bytes /\
     0 < e_seg e <= wb_max_gso_bytes /\
     exists body lst, run_of pkts e = body ++ [lst] /\
       Forall (fun q => p_dst q = e_dst e /\ p_len q = e_seg e) body /\
       p_dst lst = e_dst e /\ 0 < p_len lst <= e_seg e).
Proof. exact wb_runs. Qed.
Print Assumptions C26_runs.

(* Termination: the fuel given (|pkts| + 2 chunks, |pkts| + 1 packing steps, one drain step per entry) is enough
   for every oracle, and with an oracle that never claims more than it was offered the call returns. *)
Theorem C26_terminates : forall cap gso maxSegs pkts orc,
  r_out (write_batch_cap cap gso maxSegs pkts orc) <> OutOfFuel /\
  (oracle_ok orc -> exists n, r_out (write_batch_cap cap gso maxSegs pkts orc) = Done n \/
                              r_out (write_batch_cap cap gso maxSegs pkts orc) = NoProgress n).
Proof. intros; split; [apply wb_fuel|apply wb_returns]. Qed.
Print Assumptions C26_terminates.

(* GSO, once found unsupported, is not switched on by WriteBatch. *)
Theorem C26_gso_monotone : forall cap gso maxSegs pkts orc,
  r_gso (write_batch_cap cap gso maxSegs pkts orc) = true -> gso = true.
Proof. intros cap gso maxSegs pkts orc. destruct (write_batch_cap_spec cap gso maxSegs pkts orc) as (_ & _ & _ & _ & _ & H). exact H. Qed.
Print Assumptions C26_gso_monotone.

(* ---- the segment limit itself: prepareGSO's kernel-release gate (gsoMaxSegments) ---------------------------
   For EVERY major and minor (not a sweep): a kernel older than 6.9 - compared as a pair - gets 63, a kernel from 6.9
   on gets 127, the limit is monotone in the version and never exceeds UDP_MAX_SEGMENTS - 1 of that kernel. *)
Theorem C26_segment_limit : forall major minor : Z,
  ((major < 6 \/ (major = 6 /\ minor < 9))%Z -> gso_max_segments major minor = 63) /\
  ((6 < major \/ (major = 6 /\ 9 <= minor))%Z -> gso_max_segments major minor = 127) /\
  gso_max_segments major minor + 1 <= kernel_segs major minor.
Proof. intros; split; [apply gso_limit_old|split; [apply gso_limit_new|apply gso_limit_safe]]. Qed.
Print Assumptions C26_segment_limit.

Theorem C26_segment_limit_monotone : forall a b c d : Z,
  (a < c \/ (a = c /\ b <= d))%Z -> gso_max_segments a b <= gso_max_segments c d.
Proof. exact gso_limit_mono. Qed.
Print Assumptions C26_segment_limit_monotone.

(* With the limit the gate gives for a kernel older than 6.9, no offloaded run ever offered has more than the 63
   segments that kernel accepts - whatever the batch and the faults. *)
Theorem C26_runs_within_kernel_limit : forall major minor cap gso pkts orc c e,
  (major < 6 \/ (major = 6 /\ minor < 9))%Z ->
  In c (r_calls (write_batch_cap cap gso (N.to_nat (gso_max_segments major minor)) pkts orc)) -> In e (c_offered c) ->
  (2 <= e_pkts e)%nat -> (e_pkts e <= 63)%nat.
Proof.
  intros major minor cap gso pkts orc c e Hv Hc He H2.
  destruct (wb_runs _ _ _ _ _ _ _ Hc He) as (_ & _ & _ & H). destruct (H H2) as (_ & Hm & _).
  rewrite (gso_limit_old _ _ Hv) in Hm. exact Hm.
Qed.
Print Assumptions C26_runs_within_kernel_limit.

(* ---- the layer above: batch.SendBatch (Commit / Flush histories over one batchWriter) -----------------------
   [send_batch cap gso maxSegs orc ops] = one record per Flush of the history ops: f_ids = ids (commit order
   0,1,2,..) of the datagrams handed to WriteBatch, f_res = what WriteBatch did; accepted_ids = ids the kernel
   accepted during that flush.  All histories, all oracles (one oracle for the whole history; the GSO flag carries
   over between flushes). *)

(* Every Flush hands over exactly the datagrams committed since the previous Flush (the queue is drained whether or
   not WriteBatch returned an error): the flushes together hand over 0,1,2,.. once each, in commit order. *)
Theorem C26_flush_drains : forall cap gso maxSegs orc ops,
  flat_map f_ids (send_batch cap gso maxSegs orc ops) = seq 0 (handed 0 ops).
Proof. exact sb_drains. Qed.
Print Assumptions C26_flush_drains.

(* Over the whole history no datagram is accepted by the kernel twice, and acceptance follows commit order. *)
Theorem C26_history_once : forall cap gso maxSegs orc ops,
  NoDup (flat_map accepted_ids (send_batch cap gso maxSegs orc ops)) /\
  StronglySorted lt (flat_map accepted_ids (send_batch cap gso maxSegs orc ops)).
Proof. intros; split; [apply sb_once|apply sb_order]. Qed.
Print Assumptions C26_history_once.

(* Every Flush: what the kernel accepted was handed over by this very Flush, the count Flush reports (with or
   without an error) is the number of datagrams accepted during it, and it terminates. *)
Theorem C26_flush_count : forall cap gso maxSegs orc ops f, In f (send_batch cap gso maxSegs orc ops) ->
  Forall (fun x => In x (f_ids f)) (accepted_ids f) /\
  (forall n, r_out (f_res f) = Done n \/ r_out (f_res f) = NoProgress n -> n = N.of_nat (length (accepted_ids f))) /\
  r_out (f_res f) <> OutOfFuel.
Proof. exact sb_flush. Qed.
Print Assumptions C26_flush_count.

(* Not vacuous. oracle_ok is satisfiable; a run with an EIO on the superpacket: four packets, the kernel rejects
   the 4-segment superpacket with EIO, GSO goes off, the same packets are replayed one per slot and accepted. *)
Example C26_oracle_ok_sat : oracle_ok (fun _ n => (Z.of_N n, 0)).
Proof. intros k n. cbn [fst]. apply Z.le_refl. Qed.

Example C26_nonvacuous :
  let p := mkPkt 1200 0 true in
  let orc : oracle := fun k n => if Nat.eqb k 0 then ((-1)%Z, wb_eio) else (Z.of_N n, 0) in
  let r := write_batch true 63 [p; p; p; p] orc in
  map (fun c => map (fun e => (e_start e, e_pkts e)) (c_offered c)) (r_calls r)
    = [[(0, 4)]; [(0, 1); (1, 1); (2, 1); (3, 1)]]%nat /\
  sent_indices (r_calls r) = [0; 1; 2; 3]%nat /\ r_out r = Done 4 /\ r_gso r = false.
Proof. vm_compute. repeat split; reflexivity. Qed.

(* A history in which Flush returns an error after the kernel took half of the batch: 4 datagrams, the kernel takes
   2 and then makes no progress without an errno; 2 more are committed; the second Flush hands over only those. *)
Example C26_history_nonvacuous :
  let p := mkPkt 100 0 true in
  let orc : oracle := fun k n => match k with 0%nat => (2%Z, 0) | 1%nat => (0%Z, 0) | _ => (Z.of_N n, 0) end in
  let fs := send_batch 128 false 63 orc [Commit p; Commit p; Commit p; Commit p; Flush; Commit p; Commit p; Flush] in
  map f_ids fs = [[0; 1; 2; 3]; [4; 5]]%nat /\
  map accepted_ids fs = [[0; 1]; [4; 5]]%nat /\
  map (fun f => r_out (f_res f)) fs = [NoProgress 2; Done 2].
Proof. vm_compute. repeat split; reflexivity. Qed.

(* C13  Nonces are never reused and the counter ceiling is enforced.  Property theorems only.

   Model: model/Nonce.v - the tunnel's atomic uint64 message counter, the write lock (mode EncryptLockNeeded) and the
   three shapes of send path in /repo/inside.go as interleaved atomic steps; constants from gen/Consts_Nonce.v
   (regenerated from /repo on every run).  A schedule is ANY list of thread ids, the thread programs are ANY lists of
   sends for ANY number of threads (threads : N -> thread), the start state is ANY state in which no send is in
   flight.  [encs tr] = the nonces that reached the AEAD, in the order they reached it.
   Assumption [headroom_ok c0 steps]: max(c0, ceiling) + steps < 2^64, i.e. the run is too short for the counter to
   travel from the ceiling to the uint64 wrap; C13_headroom_doc: it holds for every start at or below the ceiling and
   fewer than RejectHeadroom = 2^40 steps; C13_headroom_needed: it cannot be dropped. *)
From Coq Require Import List NArith Sorted.
Import ListNotations.
From NV Require Import lib.Bytes gen.Consts_Nonce model.Nonce proofs.Nonce_proofs.
Open Scope N_scope.

(* The documented constants; a changed constant in /repo stops this from compiling. *)
Theorem C13_constants :
  RejectHeadroom = 2 ^ 40 /\
  NoiseRejectAfterMessages = 2 ^ 64 - 1 - 2 ^ 40 /\
  RejectAfterMessages = NoiseRejectAfterMessages /\
  NoiseRejectAfterMessages + RejectHeadroom = 2 ^ 64 - 1 /\
  RehandshakeAfterMessages = 2 ^ 34 /\
  RehandshakeAfterMessages < RejectAfterMessages /\
  ReplayWindow = 8192.
Proof. exact constants_doc. Qed.
Print Assumptions C13_constants.

Theorem C13_headroom_doc : forall c0 steps,
  c0 <= RejectAfterMessages -> N.of_nat steps < RejectHeadroom -> headroom_ok c0 steps.
Proof. exact headroom_doc. Qed.
Print Assumptions C13_headroom_doc.

(* (1) No two encryptions under the key use the same counter - in either lock mode. *)
Theorem C13_unique : forall (lock_mode : bool) (s0 : state) (sched : list N),
  quiescent s0 -> headroom_ok (ctr s0) (length sched) ->
  NoDup (encs (snd (exec (real_cfg lock_mode) sched s0 []))).
Proof. exact real_unique. Qed.
Print Assumptions C13_unique.

(* (2) Every counter used is above the starting counter and below the ceiling ... *)
Theorem C13_range : forall (lock_mode : bool) (s0 : state) (sched : list N),
  quiescent s0 -> headroom_ok (ctr s0) (length sched) ->
  forall c, In c (encs (snd (exec (real_cfg lock_mode) sched s0 []))) -> ctr s0 < c /\ c < NoiseRejectAfterMessages.
Proof. exact real_range. Qed.
Print Assumptions C13_range.

(* ... in particular above the counters 1 .. idx the handshake consumed (newConnectionStateFromResult seeds the counter
   with the handshake's message index, which it requires to be below ReplayWindow). *)
Theorem C13_above_handshake : forall (lock_mode : bool) (idx : N) (progs : list (list path)) (sched : list N),
  idx < ReplayWindow -> N.of_nat (length sched) < RejectHeadroom ->
  forall c, In c (encs (snd (exec (real_cfg lock_mode) sched (init (seed idx) progs) []))) ->
    idx < c /\ c < RejectAfterMessages.
Proof. exact real_above_handshake. Qed.
Print Assumptions C13_above_handshake.

(* (3) Sticky: once the counter has reached the ceiling (after sched1), in everything that follows (sched2) the counter
   stays at or above it, every reservation returns a value at or above it, and the only encryptions that still succeed
   are of counters below the ceiling that had been reserved before and were waiting for their EncryptDanger call. *)
Theorem C13_sticky : forall (lock_mode : bool) (s0 : state) (sched1 sched2 : list N),
  quiescent s0 -> headroom_ok (ctr s0) (length (sched1 ++ sched2)) ->
  let s1 := fst (exec (real_cfg lock_mode) sched1 s0 []) in
  let tr2 := snd (exec (real_cfg lock_mode) sched2 s1 []) in
  NoiseRejectAfterMessages <= ctr s1 ->
  NoiseRejectAfterMessages <= ctr (fst (exec (real_cfg lock_mode) sched2 s1 [])) /\
  (forall t c, In (EvAdd t c) tr2 -> NoiseRejectAfterMessages <= c) /\
  (forall t c, In (EvEnc t c true) tr2 -> ph (threads s1 t) = Reserved c /\ c < NoiseRejectAfterMessages) /\
  snd (exec (real_cfg lock_mode) (sched1 ++ sched2) s0 []) = snd (exec (real_cfg lock_mode) sched1 s0 []) ++ tr2.
Proof. exact real_sticky. Qed.
Print Assumptions C13_sticky.

Theorem C13_sticky_nothing : forall (lock_mode : bool) (s0 : state) (sched1 sched2 : list N),
  quiescent s0 -> headroom_ok (ctr s0) (length (sched1 ++ sched2)) ->
  let s1 := fst (exec (real_cfg lock_mode) sched1 s0 []) in
  NoiseRejectAfterMessages <= ctr s1 ->
  (forall t c, ph (threads s1 t) = Reserved c -> NoiseRejectAfterMessages <= c) ->
  encs (snd (exec (real_cfg lock_mode) sched2 s1 [])) = [].
Proof. exact real_sticky_nothing. Qed.
Print Assumptions C13_sticky_nothing.

(* (4) With the write lock (the mode in which the cipher insists on increasing nonces) encryptions reach the cipher in
   strictly increasing counter order. *)
Theorem C13_increasing_under_lock : forall (s0 : state) (sched : list N),
  quiescent s0 -> headroom_ok (ctr s0) (length sched) ->
  StronglySorted N.lt (encs (snd (exec (real_cfg true) sched s0 []))).
Proof. exact real_increasing. Qed.
Print Assumptions C13_increasing_under_lock.

(* The executable specification that the check evaluates on the nonces recorded from the implementation is exactly
   what (1), (2), (4) state. *)
Theorem C13_spec_sound : forall (lock_mode : bool) (s0 : state) (sched : list N),
  quiescent s0 -> headroom_ok (ctr s0) (length sched) ->
  spec_accepted lock_mode NoiseRejectAfterMessages (ctr s0) (encs (snd (exec (real_cfg lock_mode) sched s0 []))) = true.
Proof. exact real_spec. Qed.
Print Assumptions C13_spec_sound.

(* Satisfiability / non-vacuity: a concrete three-thread run starting three below the ceiling meets the hypotheses,
   encrypts two counters (out of order, no lock), refuses the third, and pins the counter at the ceiling. *)
Example C13_nonvacuous :
  quiescent (init ex_start ex_progs) /\ headroom_ok ex_start (length ex_sched) /\
  snd (exec (real_cfg false) ex_sched (init ex_start ex_progs) []) =
    [EvAdd 0 (RejectAfterMessages - 2); EvAdd 1 (RejectAfterMessages - 1); EvAdd 2 RejectAfterMessages;
     EvEnc 2 RejectAfterMessages false; EvEnc 1 (RejectAfterMessages - 1) true; EvEnc 0 (RejectAfterMessages - 2) true;
     EvAdd 0 (RejectAfterMessages + 1); EvStore 0] /\
  ctr (fst (exec (real_cfg false) ex_sched (init ex_start ex_progs) [])) = RejectAfterMessages.
Proof. exact example_run. Qed.

(* The premises of C13_sticky are met by a concrete run, and its "was waiting for its EncryptDanger call" clause is
   needed: thread 0 holds ceiling-1 while thread 1 drives the counter to the ceiling; thread 0's encryption then still
   succeeds, whereas what it reserves afterwards is refused. *)
Example C13_sticky_nonvacuous :
  let s1 := fst (exec (real_cfg false) st_sched1 (init st_start st_progs) []) in
  headroom_ok st_start (length (st_sched1 ++ st_sched2)) /\
  ctr s1 = NoiseRejectAfterMessages /\ ph (threads s1 0) = Reserved (RejectAfterMessages - 1) /\
  snd (exec (real_cfg false) st_sched2 s1 []) =
    [EvEnc 0 (RejectAfterMessages - 1) true; EvAdd 0 (RejectAfterMessages + 1); EvEnc 0 (RejectAfterMessages + 1) false].
Proof. exact example_sticky. Qed.

(* The lock is what gives (4): without it the same programs reach the cipher out of order. *)
Example C13_order_needs_lock :
  exists sched, headroom_ok ex_start (length sched) /\
    ~ StronglySorted N.lt (encs (snd (exec (real_cfg false) sched (init ex_start ex_progs) []))).
Proof. exact order_needs_lock. Qed.

Example C13_locked_run :
  encs (snd (exec (real_cfg true) (ex_sched ++ [1; 2; 1; 1; 1; 1; 2; 2; 2; 2; 0; 0; 0; 0; 0]) (init ex_start ex_progs) []))
  = [RejectAfterMessages - 2; RejectAfterMessages - 1].
Proof. exact example_locked. Qed.

(* The headroom assumption cannot be dropped: the hot path never stores the ceiling, so a counter that is allowed to
   run 2^40 further wraps and nonce 0 is accepted. *)
Example C13_headroom_needed :
  exists c0 sched, ~ headroom_ok c0 (length sched) /\
    encs (snd (exec (real_cfg false) sched (init c0 [[Hot]]) [])) = [0] /\ ~ c0 < 0.
Proof. exact headroom_needed. Qed.

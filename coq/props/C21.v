(* C21  Reject replies are well formed and never answer errors or fragments.  Property theorems only.

   [create_reject p cap]   = the model of iputil.CreateRejectPacket(p, out) with cap(out) = cap:  Ok reply | Panic
                             (reply [] = nil: nothing is sent; Panic = a failed bounds check, every read is checked).
   [reply_ok p out]        = the independent validator (model/Reject.v): decodes the reply and compares it with the
                             rejected packet p; every checksum is recomputed ([valid_csum] of lib/Ones.v).
   [must_be_silent p cap]  = p is a non-first fragment, or an ICMP / ICMPv6 error message, or cap is smaller than the reply.
   All theorems are for every byte string p (bytes_ok p) and every capacity. *)
From Coq Require Import List NArith.
Import ListNotations.
From NV Require Import lib.Bytes lib.Ones gen.Consts_IpParse gen.Consts_Reject model.IpParse model.Reject
  proofs.IpParse_char proofs.Reject_proofs proofs.Reject_char.
Open Scope N_scope.

(* the documented maximum: 40 (IPv6 header) + 8 (ICMPv6 header) + 1000 (body); regenerated from the code on every run *)
Lemma C21_max_doc : rej_max_reject_packet_size = 1048.
Proof. reflexivity. Qed.

(* the model never fails a bounds check *)
Theorem C21_total : forall p cap, bytes_ok p = true -> exists out, create_reject p cap = Ok out.
Proof. exact reject_total. Qed.
Print Assumptions C21_total.

(* every reply that is produced passes the validator, fits the buffer and the documented maximum *)
Theorem C21_wellformed : forall p cap out, bytes_ok p = true ->
  create_reject p cap = Ok out -> out <> [] ->
  reply_ok p out = true /\ blen out <= cap /\ blen out <= rej_max_reject_packet_size.
Proof. exact reject_wellformed. Qed.
Print Assumptions C21_wellformed.

(* no reply for non-first fragments, ICMP error messages (ICMPv4 types 3, 4, 5, 11, 12; ICMPv6 types 1..4) and
   buffers smaller than the reply *)
Theorem C21_silent : forall p cap, bytes_ok p = true -> must_be_silent p cap = true -> create_reject p cap = Ok [].
Proof. exact reject_silent. Qed.
Print Assumptions C21_silent.

(* the callers rejectInside / rejectOutside (inside.go): for every packet and every buffer length they emit nothing or
   exactly one reply, which passes the validator against the WHOLE rejected packet, is within the documented maximum
   and does not answer a fragment / ICMP error; and their model never fails a bounds check *)
Theorem C21_callers : forall p buflen ws, bytes_ok p = true ->
  (reject_inside p buflen = Ok ws -> emitted_ok p buflen ws = true) /\
  (reject_outside p buflen = Ok ws -> emitted_ok p (outside_cap buflen) ws = true).
Proof. exact callers_ok. Qed.
Print Assumptions C21_callers.

Theorem C21_callers_total : forall p buflen, bytes_ok p = true ->
  (exists ws, reject_inside p buflen = Ok ws) /\ (exists ws, reject_outside p buflen = Ok ws).
Proof. exact callers_total. Qed.
Print Assumptions C21_callers_total.

(* ---- what "passes the validator" says, in Prop form ---- *)

Theorem C21_reply_family : forall p out, reply_ok p out = true ->
  (nth 0 out 0 / 16 = 4 /\ reply4_ok p out = true) \/ (nth 0 out 0 / 16 = 6 /\ reply6_ok p out = true).
Proof. exact reply_ok_cases. Qed.
Print Assumptions C21_reply_family.

(* IPv4 reply: 0x45, total length = byte length <= maximum, not fragmented, TTL 64, valid header checksum,
   source = p's destination and destination = p's source; to a TCP packet a TCP segment satisfying [rst_ok] with a valid
   checksum over pseudo header + segment; to anything else ICMP type 3 code 13 whose body is the first
   min(|p|, 4*IHL + 8) bytes of p (original header + 8 bytes), with a valid ICMP checksum. *)
Theorem C21_reply_v4 : forall p out, reply4_ok p out = true ->
  let ihl := 4 * (nth 0 p 0 mod 16) in
  let seg := skipn 20 out in
  nth 0 out 0 = 69 /\ be16_at out 2 = blen out /\ blen out <= rej_max_reject_packet_size /\
  be16_at out 6 = 0 /\ nth 8 out 0 = 64 /\ valid_csum (firstn 20 out) /\
  slice out 12 4 = slice p 16 4 /\ slice out 16 4 = slice p 12 4 /\
  (nth 9 p 0 = 6 -> nth 9 out 0 = 6 /\ rst_ok (skipn (N.to_nat ihl) p) seg = true /\
                    valid_csum (slice out 12 8 ++ [0; 6] ++ be16 (blen seg) ++ seg)) /\
  (nth 9 p 0 <> 6 -> nth 9 out 0 = 1 /\
                     icmp_ok 3 13 (firstn (N.to_nat (N.min (blen p) (ihl + 8))) p) seg = true /\ valid_csum seg).
Proof. exact reply4_meaning. Qed.
Print Assumptions C21_reply_v4.

(* IPv6 reply: version 6 with zero class / flow label, payload length = byte length - 40, hop limit 64, addresses
   swapped, checksum valid over the IPv6 pseudo header + segment; to a packet whose upper layer protocol (reference
   walk over its extension headers) is TCP a segment satisfying [rst_ok]; otherwise ICMPv6 type 1 code 1 whose body is
   the first min(|p|, 1000) bytes of p. *)
Theorem C21_reply_v6 : forall p out, reply6_ok p out = true ->
  let seg := skipn 40 out in
  let pseudo := slice out 8 32 ++ be_enc 4 (blen seg) ++ [0; 0; 0; nth 6 out 0] in
  firstn 4 out = [96; 0; 0; 0] /\ be16_at out 4 = blen out - 40 /\ 40 <= blen out /\
  blen out <= rej_max_reject_packet_size /\ nth 7 out 0 = 64 /\
  slice out 8 16 = slice p 24 16 /\ slice out 24 16 = slice p 8 16 /\
  valid_csum (pseudo ++ seg) /\
  exists nh off payload a n, spec_walk p = CDone nh off payload a n /\
    (nh = 6 -> nth 6 out 0 = 6 /\ rst_ok payload seg = true) /\
    (nh <> 6 -> nth 6 out 0 = 58 /\ icmp_ok 1 1 (firstn (N.to_nat (N.min (blen p) 1000)) p) seg = true).
Proof. exact reply6_meaning. Qed.
Print Assumptions C21_reply_v6.

(* the reset (netfilter's nf_reject rule): 20 bytes, ports swapped, data offset 5, window and urgent pointer 0;
   incoming ACK set   => flags RST,     seq = incoming ack number, ack = 0;
   incoming ACK clear => flags RST|ACK, seq = 0, ack = incoming seq + SYN + FIN + segment length (mod 2^32), the segment
   length being (bytes from the TCP header to the end of the packet) - 4 * data offset, computed mod 2^32. *)
Theorem C21_rst : forall tcp_in seg, rst_ok tcp_in seg = true ->
  let fl := nth 13 tcp_in 0 in
  length seg = 20%nat /\
  be16_at seg 0 = be16_at tcp_in 2 /\ be16_at seg 2 = be16_at tcp_in 0 /\
  nth 12 seg 0 = 80 /\ be16_at seg 14 = 0 /\ be16_at seg 18 = 0 /\
  ((fl / 16) mod 2 = 1 -> nth 13 seg 0 = 4 /\ be32_at seg 4 = be32_at tcp_in 8 /\ be32_at seg 8 = 0) /\
  ((fl / 16) mod 2 <> 1 ->
     nth 13 seg 0 = 20 /\ be32_at seg 4 = 0 /\
     be32_at seg 8 = (be32_at tcp_in 4 + (fl / 2) mod 2 + fl mod 2 +
                      (blen tcp_in + 4294967296 - 4 * (nth 12 tcp_in 0 / 16)) mod 4294967296) mod 4294967296).
Proof. exact rst_meaning. Qed.
Print Assumptions C21_rst.

Theorem C21_icmp : forall ty code body msg, icmp_ok ty code body msg = true ->
  nth 0 msg 0 = ty /\ nth 1 msg 0 = code /\ slice msg 4 4 = [0; 0; 0; 0] /\ skipn 8 msg = body.
Proof. exact icmp_meaning. Qed.
Print Assumptions C21_icmp.

(* Not vacuous: SYN with 3 bytes of data -> RST|ACK acknowledging seq + 1 + 3; ACK -> RST with seq = the ack number;
   UDP -> ICMP 3/13 carrying header + 8 bytes; the same with a 55 byte buffer, as a non-first fragment, and an ICMP
   error -> nothing; IPv6 TCP FIN behind two destination option headers -> RST|ACK acknowledging seq + 1;
   IPv6 UDP -> ICMPv6 1/1 carrying the packet; IPv6 non-first fragment and ICMPv6 error -> nothing;
   the validator rejects a reply whose checksum byte is changed. *)
Example C21_nonvacuous :
  create_reject (ex4 6 64 0 (ex_tcp 2 ++ [1; 2; 3])) 100 =
    Ok [69; 0; 0; 40; 0; 0; 0; 0; 64; 6; 167; 27; 192; 168; 7; 9; 10; 1; 2; 3;
        0; 80; 4; 210; 0; 0; 0; 0; 1; 2; 3; 8; 80; 20; 0; 0; 210; 239; 0; 0] /\
  create_reject (ex4 6 64 0 (ex_tcp 16)) 100 =
    Ok [69; 0; 0; 40; 0; 0; 0; 0; 64; 6; 167; 27; 192; 168; 7; 9; 10; 1; 2; 3;
        0; 80; 4; 210; 9; 9; 9; 9; 0; 0; 0; 0; 80; 4; 0; 0; 196; 247; 0; 0] /\
  create_reject (ex4 17 0 0 ex_udp) 100 =
    Ok ([69; 0; 0; 56; 0; 0; 0; 0; 64; 1; 167; 16; 192; 168; 7; 9; 10; 1; 2; 3; 3; 13; 219; 209; 0; 0; 0; 0] ++ ex4 17 0 0 ex_udp) /\
  create_reject (ex4 17 0 0 ex_udp) 55 = Ok [] /\ must_be_silent (ex4 17 0 0 ex_udp) 55 = true /\
  create_reject (ex4 17 0 9 ex_udp) 100 = Ok [] /\ must_be_silent (ex4 17 0 9 ex_udp) 100 = true /\
  create_reject (ex4 1 0 0 [3; 1; 0; 0; 0; 0; 0; 0]) 100 = Ok [] /\ must_be_silent (ex4 1 0 0 [3; 1; 0; 0; 0; 0; 0; 0]) 100 = true /\
  (exists out, create_reject (ex_v6 60 (ex_dest_chain 2 6 (ex_tcp 1))) 100 = Ok out /\ length out = 60%nat /\
               nth 53 out 0 = 20 /\ be32_at out 48 = 16909061 /\ reply_ok (ex_v6 60 (ex_dest_chain 2 6 (ex_tcp 1))) out = true) /\
  (exists out, create_reject (ex_v6 17 ex_udp) 100 = Ok out /\ length out = 96%nat /\ nth 40 out 0 = 1 /\ nth 41 out 0 = 1 /\
               skipn 48 out = ex_v6 17 ex_udp) /\
  create_reject f18_witness 100 = Ok [] /\ must_be_silent f18_witness 100 = true /\
  create_reject (ex_v6 58 [1; 0; 0; 0; 0; 0; 0; 0]) 100 = Ok [] /\ must_be_silent (ex_v6 58 [1; 0; 0; 0; 0; 0; 0; 0]) 100 = true /\
  reply_ok (ex4 6 64 0 (ex_tcp 16))
    [69; 0; 0; 40; 0; 0; 0; 0; 64; 6; 167; 27; 192; 168; 7; 9; 10; 1; 2; 3;
     0; 80; 4; 210; 9; 9; 9; 9; 0; 0; 0; 0; 80; 4; 0; 0; 196; 248; 0; 0] = false.
Proof.
  vm_compute. repeat split; try reflexivity; eexists; repeat split; reflexivity.
Qed.

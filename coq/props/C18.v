(* C18  Tracked flows are per-tuple and expire when idle.  Property theorems only.

   Setting (model/Conntrack.v, model/FwReload.v): a node booted with rule set rs, rules version v0, the three
   conntrack timeouts and an empty conntrack; a history is any list of packets (peer, direction, tuple), sleeps and
   reloads; [verdicts] are the results of Firewall.Drop (true = passes) with a nil routine cache.
   [allowed rs peer incoming t] (FirewallTable.match, C16) and [addr_ok rs peer t] (the address checks, C17) are
   arbitrary functions: every theorem holds for every rule semantics.

   The inequality the code implements (F4 repair `now.After(c.Expires)` in inConns, F24 repair `Expires - now >= 0`
   re-arms in evict; Expires = instant of the last honoured packet + the protocol's timeout): a tracked flow is
   honoured while  now <= Expires  (idle for at most the timeout, the exact instant included) and not while
   now > Expires. *)
From Coq Require Import List ZArith NArith Bool.
Import ListNotations.
From NV Require Import gen.Consts_Conntrack model.Wheel model.Conntrack model.FwReload
  proofs.Conntrack_proofs proofs.FwReload_proofs proofs.Conntrack_cache.
Open Scope Z_scope.

(* T1: the protocol numbers the timeout switch tests and the timeouts of an unconfigured firewall, as compiled in *)
Theorem C18_timeouts_documented :
  ProtoTCP = 6%N /\ ProtoUDP = 17%N /\ ProtoICMP = 1%N /\
  DefaultTCPTimeout = 12 * 60 * 1000000000 /\ DefaultUDPTimeout = 3 * 60 * 1000000000 /\
  DefaultDefaultTimeout = 10 * 60 * 1000000000.
Proof. repeat split; reflexivity. Qed.
Print Assumptions C18_timeouts_documented.

(* a packet and the packet travelling the other way are the same flow: oriented to the node they are one tuple *)
Theorem C18_one_tuple_both_directions : forall w,
  orient true (reverse w) = orient false w /\ orient false (reverse w) = orient true w.
Proof. exact orient_reverse. Qed.
Print Assumptions C18_one_tuple_both_directions.

(* ALL histories, every flow f: the verdicts are the ones the history-level specification [flow_ok] prescribes: a
   packet of f passes iff a rule allows it or f is tracked (an earlier packet of f passed), not idle past its
   timeout, and its original direction is (still) allowed; a refused flow is forgotten. (With reloads this is also
   C19; `true`: the specification that mirrors the conntrack reset at the version wrap.) *)
Theorem C18_history_spec : forall allowed addr_ok rs v0 tcp udp def t0 h f,
  (v0 < 65536)%N ->
  flow_ok allowed addr_ok true f (spec_boot rs v0 tcp udp def t0) h
          (verdicts allowed addr_ok h (boot rs v0 tcp udp def t0)) = true.
Proof.
  intros. apply model_meets_spec; [now apply vinv_boot|apply Rf_boot].
Qed.
Print Assumptions C18_history_spec.

(* The verdicts of flow f are the function [flow_fn] of the packets of f alone (and the sleeps and reloads). *)
Theorem C18_verdicts_determined : forall allowed addr_ok rs v0 tcp udp def t0 h f,
  (v0 < 65536)%N ->
  restrict f h (verdicts allowed addr_ok h (boot rs v0 tcp udp def t0)) =
  flow_fn allowed addr_ok true f (spec_boot rs v0 tcp udp def t0) h.
Proof.
  intros. apply verdicts_determined; [now apply vinv_boot|apply Rf_boot].
Qed.
Print Assumptions C18_verdicts_determined.

(* Flows are independent, on ALL histories: removing (or adding) any traffic on other tuples leaves the verdicts of f
   unchanged - unrelated churn neither keeps a flow alive nor expires it early. *)
Theorem C18_flows_independent : forall allowed addr_ok rs v0 tcp udp def t0 h f,
  (v0 < 65536)%N ->
  restrict f h (verdicts allowed addr_ok h (boot rs v0 tcp udp def t0)) =
  verdicts allowed addr_ok (proj f h) (boot rs v0 tcp udp def t0).
Proof.
  intros. apply flows_independent with (s := spec_boot rs v0 tcp udp def t0); [now apply vinv_boot|apply Rf_boot].
Qed.
Print Assumptions C18_flows_independent.

(* No rule ever allowed a packet of f: every packet of f is refused. *)
Theorem C18_needs_prior_allowed_packet : forall allowed addr_ok rs v0 tcp udp def t0 h f,
  quiet allowed addr_ok f rs h = true ->
  forallb negb (restrict f h (verdicts allowed addr_ok h (boot rs v0 tcp udp def t0))) = true.
Proof.
  intros allowed addr_ok rs v0 tcp udp def t0 h f Q.
  apply (dead_stays allowed addr_ok f h (boot rs v0 tcp udp def t0)); [apply dead_boot|exact Q].
Qed.
Print Assumptions C18_needs_prior_allowed_packet.

(* From ANY state reached by ANY history h1: after a packet of f passed, and then only sleeps and traffic of OTHER
   flows (h2: any amount of churn, or none), the next packet of f
     - passes, even if no rule allows it, when at most the timeout has elapsed;
     - is refused, unless a rule allows it, when more than the timeout has elapsed. *)
Theorem C18_idle_expiry : forall allowed addr_ok rs v0 tcp udp def t0 h1 p d f h2 p' d',
  let n := exec allowed addr_ok h1 (boot rs v0 tcp udp def t0) in
  let n2 := exec allowed addr_ok h2 (snd (step allowed addr_ok (EPkt p d f) n)) in
  fst (step allowed addr_ok (EPkt p d f) n) = Some true ->
  others_only f h2 = true ->
  addr_ok (f_rules (n_fw n)) p' f = true ->
  (elapsed h2 <= timeout_of (n_fw n) f -> fst (step allowed addr_ok (EPkt p' d' f) n2) = Some true) /\
  (timeout_of (n_fw n) f < elapsed h2 -> allowed (f_rules (n_fw n)) p' d' f = false ->
   fst (step allowed addr_ok (EPkt p' d' f) n2) = Some false).
Proof. intros. now apply idle_after_pass. Qed.
Print Assumptions C18_idle_expiry.

(* An expired (or otherwise refused) flow is not honoured again until a rule allows a new packet of it: after a
   refused packet of f, whatever else happens, packets of f that no rule allows are refused. *)
Theorem C18_expired_stays_expired : forall allowed addr_ok rs v0 tcp udp def t0 h1 p d f h2,
  let n := exec allowed addr_ok h1 (boot rs v0 tcp udp def t0) in
  addr_ok (f_rules (n_fw n)) p f = true ->
  fst (step allowed addr_ok (EPkt p d f) n) = Some false ->
  quiet allowed addr_ok f (f_rules (n_fw n)) h2 = true ->
  forallb negb (restrict f h2 (verdicts allowed addr_ok h2 (snd (step allowed addr_ok (EPkt p d f) n)))) = true.
Proof.
  intros allowed addr_ok rs v0 tcp udp def t0 h1 p d f h2 n A R Q.
  destruct (step_pkt_fw allowed addr_ok p d f n) as [Efw _].
  apply (dead_stays allowed addr_ok f h2); [now apply refused_dead|now rewrite Efw].
Qed.
Print Assumptions C18_expired_stays_expired.

(* ---- with a routine-local conntrack cache (firewall/cache.go) ---------------------------------------------------------
   [cverdicts] are the results of Drop when every call is handed the cache of a ConntrackCacheTicker of period P
   started when the node starts; the cache is emptied at every tick. The theorems above (nil cache) are unchanged. *)

(* ALL histories, every flow: the verdicts are the ones the specification with a cache prescribes: as before, and
   additionally a flow passes while it is in the cache; it enters the cache only when the table honours a packet of it
   (tracked, not idle past its timeout, original direction valid), and leaves it at the next tick. *)
Theorem C18_cache_history_spec : forall allowed addr_ok rs v0 tcp udp def t0 P h f,
  (v0 < 65536)%N ->
  cflow_ok allowed addr_ok true f (cspec_boot (spec_boot rs v0 tcp udp def t0) P) h
           (cverdicts allowed addr_ok h (cboot (boot rs v0 tcp udp def t0) P)) = true.
Proof.
  intros. apply cache_model_meets_spec; [now apply vinv_boot|apply CR_boot, Rf_boot].
Qed.
Print Assumptions C18_cache_history_spec.

(* Bounded staleness: with a cache, a packet that no rule allows passes only if the table honours its flow at that
   instant (tracked, now <= Expires, original direction valid), or honoured an earlier packet of the flow and no tick of
   the cache ticker happened since (so: idle for at most timeout + one cache period). *)
Theorem C18_cache_staleness_bounded : forall allowed addr_ok rs v0 tcp udp def t0 P h p d f,
  let cn0 := cboot (boot rs v0 tcp udp def t0) P in
  let cn := cexec allowed addr_ok h cn0 in
  fst (cstep allowed addr_ok (EPkt p d f) cn) = Some true ->
  allowed (f_rules (n_fw (cn_node cn))) p d f = false ->
  table_live allowed addr_ok p f (cn_node cn) \/
  exists h1 p' d' h2, h = h1 ++ EPkt p' d' f :: h2 /\
    table_live allowed addr_ok p' f (cn_node (cexec allowed addr_ok h1 cn0)) /\
    no_tick P t0 (n_now (cn_node (cexec allowed addr_ok h1 cn0))) h2 = true.
Proof. intros. now apply (cache_pass_justified allowed addr_ok p d f h cn0). Qed.
Print Assumptions C18_cache_staleness_bounded.

(* ... and never after a refused packet of the same flow: a refused flow is not in the cache and stays refused, tick
   or no tick, until a rule allows a new packet of it. *)
Theorem C18_cache_refused_stays_refused : forall allowed addr_ok rs v0 tcp udp def t0 P h1 p d f h2,
  let cn := cexec allowed addr_ok h1 (cboot (boot rs v0 tcp udp def t0) P) in
  addr_ok (f_rules (n_fw (cn_node cn))) p f = true ->
  fst (cstep allowed addr_ok (EPkt p d f) cn) = Some false ->
  quiet allowed addr_ok f (f_rules (n_fw (cn_node cn))) h2 = true ->
  forallb negb (restrict f h2 (cverdicts allowed addr_ok h2 (snd (cstep allowed addr_ok (EPkt p d f) cn)))) = true.
Proof.
  intros allowed addr_ok rs v0 tcp udp def t0 P h1 p d f h2 cn A R Q.
  apply (cdead_stays allowed addr_ok f h2); [now apply crefused_dead|].
  destruct (cstep_node allowed addr_ok (EPkt p d f) cn) as [E|[_ [_ [_ [_ E]]]]]; rewrite E; [|exact Q].
  destruct (step_pkt_fw allowed addr_ok p d f (cn_node cn)) as [Efw _]. now rewrite Efw.
Qed.
Print Assumptions C18_cache_refused_stays_refused.

(* ---- the theorems are not vacuous: the exact instant, with and without churn -----------------------------------------
   TCP 12 min, tick 3 min. Flow f is allowed inbound at 0 and refreshed at 3 min (Expires = 15 min). Its reply passes
   at exactly 15 min, also when an unrelated flow g is inserted at that same instant (before the F24 repair the
   insertion made evict delete f's entry at Expires - now = 0); one nanosecond later it is refused, churn or not. *)
Definition wit_allowed (rs p : N) (d : bool) (t : tuple) : bool := d.
Definition wit_addr_ok (rs p : N) (t : tuple) : bool := true.
Definition wit_f : tuple := (1, 2, 10, 90, 6, false)%N.
Definition wit_g : tuple := (1, 3, 10, 90, 17, false)%N.
Definition wit_boot : node := boot 0 0 720000000000 180000000000 600000000000 0.
Definition wit_h (gap : Z) (churn : bool) : list ev :=
  [EPkt 0 true wit_f; ESleep 180000000000; EPkt 0 false wit_f; ESleep gap]
  ++ (if churn then [EPkt 1 true wit_g] else []) ++ [EPkt 0 false wit_f].

Example C18_nonvacuous :
  restrict wit_f (wit_h 720000000000 false) (verdicts wit_allowed wit_addr_ok (wit_h 720000000000 false) wit_boot) = [true; true; true] /\
  restrict wit_f (wit_h 720000000000 true) (verdicts wit_allowed wit_addr_ok (wit_h 720000000000 true) wit_boot) = [true; true; true] /\
  restrict wit_f (wit_h 720000000001 false) (verdicts wit_allowed wit_addr_ok (wit_h 720000000001 false) wit_boot) = [true; true; false] /\
  restrict wit_f (wit_h 720000000001 true) (verdicts wit_allowed wit_addr_ok (wit_h 720000000001 true) wit_boot) = [true; true; false].
Proof. vm_compute. repeat split. Qed.

(* with a cache of period 1 s and a 300 ms timeout: the reply at 500 ms rides on the cache (stale, documented); after
   the tick at 1 s it is refused, and stays refused within that period *)
Example C18_cache_nonvacuous :
  cverdicts wit_allowed wit_addr_ok
    [EPkt 0 true wit_f; EPkt 0 false wit_f; ESleep 500000000; EPkt 0 false wit_f; ESleep 600000000;
     EPkt 0 false wit_f; EPkt 0 false wit_f]
    (cboot (boot 0 0 300000000 300000000 300000000 0) 1000000000) = [true; true; true; false; false].
Proof. vm_compute. reflexivity. Qed.

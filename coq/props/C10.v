(* C10  Replayed handshakes do not create or replace tunnels.  Property theorems only.
   Model: model/HsMgr.v over model/HostMap.v, tied to /repo (handshake_manager.go beginHandshake /
   CheckAndComplete / handleCheckAndCompleteError, hostmap.go) by the correspondence corr/HsMgr_corr.v (harness
   component `hsmgr`: real HandshakeManager + HostMap, real Noise IX stage-1 messages, real certificates).

   [hrun cfg hinit ops] ranges over ALL histories of handshake-manager operations: first deliveries and
   replays of stage-1 messages (any payload, certificate addresses, peer index, peer time, sender, index
   candidates), initiator handshakes (start, index allocation, stage 2 from the right host, a wrong host or a
   host claiming my address), deletes of pending and established tunnels, promotions, timeouts - so the state
   in which a message is replayed is any state the node can be in, in particular after re-handshakes and
   rotation up to the per-address limit (C28: at most MaxHostInfosPerVpnIp = 5 tunnels per address). *)
From Coq Require Import List NArith.
Import ListNotations.
From NV Require Import model.HostMap model.HsMgr proofs.HsMgr_inv proofs.HsMgr_props proofs.HsMgr_hist.
Open Scope N_scope.

(* Re-delivering a stage 1 whose payload equals the stage-0 packet kept by a tunnel [h] still held for the first
   certificate address (at any later point of any history): the whole hostmap state is unchanged - no hostinfo
   created, no entry of Hosts / moreHosts / Indexes / RemoteIndexes / Relays / pending maps changed, so no primary
   changed - the id counter and the log of completed handshakes are unchanged, and the packets sent are exactly:
   the stored stage-2 reply of a held tunnel [x] with that payload, to the sender; preceded by one test request
   only when the sender's address made the remote of [x] move into a preferred range (the only field of any
   tunnel that may differ afterwards is that remote). *)
Theorem C10_replay_noop : forall cfg ops pkt cs ridx t a0 rest v h,
  let s := hrun cfg hinit ops in
  has_self cfg (a0 :: rest) = false -> gen_index cs <> None ->
  In h (get_list (hm s) a0) -> seen s pkt h = true ->
  exists x pre,
    In x (get_list (hm s) a0) /\ seen s pkt x = true /\
    let r := hstep cfg (RespStage1 pkt cs ridx t (a0 :: rest) v) s in
    hm (fst r) = hm s /\ nxt (fst r) = nxt s /\ log (fst r) = log s /\ blk (fst r) = blk s /\
    (forall y, y <> x -> mget y (hxs (fst r)) = mget y (hxs s)) /\
    (forall y, seen (fst r) pkt y = seen s pkt y) /\
    snd r = pre ++ [OStage2 x v] /\ (pre = [] \/ exists q u, pre = [OTest q u]).
Proof. exact replay_noop. Qed.
Print Assumptions C10_replay_noop.

(* The same over histories: a stage 1 that was accepted - it created tunnel [id] (the log grew by its entry) - is
   delivered again, from any sender and with any index candidates, after ANY continuation [ops2] (further
   handshakes and re-handshakes, rotation, deletes, promotions, timeouts ...), while tunnel [id] is still in
   Indexes: the hostmap state is unchanged, nothing is created or logged, and the stored reply of a held tunnel
   with this payload is resent, preceded by at most one test request. *)
Theorem C10_replay_history : forall cfg ops1 ops2 pkt cs ridx t a0 rest v id cs2 ridx2 t2 v2,
  let s1 := hrun cfg hinit ops1 in
  let r1 := hstep cfg (RespStage1 pkt cs ridx t (a0 :: rest) v) s1 in
  log (fst r1) = log s1 ++ [mkEv id false pkt t (a0 :: rest) None] ->
  let s2 := hrun cfg (fst r1) ops2 in
  (exists hi, mget id (infos (hm s2)) = Some hi /\ mget (hi_local hi) (idx (hm s2)) = Some id) ->
  gen_index cs2 <> None ->
  exists x pre, In x (get_list (hm s2) a0) /\ seen s2 pkt x = true /\
    let r := hstep cfg (RespStage1 pkt cs2 ridx2 t2 (a0 :: rest) v2) s2 in
    hm (fst r) = hm s2 /\ nxt (fst r) = nxt s2 /\ log (fst r) = log s2 /\
    snd r = pre ++ [OStage2 x v2] /\ (pre = [] \/ exists q u, pre = [OTest q u]).
Proof. exact replay_history. Qed.
Print Assumptions C10_replay_history.

(* A stage 1 whose peer-reported time is not newer than that of the primary tunnel for its first certificate
   address, when the node accepted that tunnel as responder, never replaces it: in every state the hostmap state
   is unchanged (nothing created, no index map or primary changed); a stage-2 reply goes out only as the resend of
   a tunnel holding exactly this payload. *)
Theorem C10_older_rejected : forall cfg s pkt cs ridx t a0 rest v e,
  mget a0 (hosts (hm s)) = Some e -> x_init (hx_of s e) = false -> t <= x_time (hx_of s e) ->
  let r := hstep cfg (RespStage1 pkt cs ridx t (a0 :: rest) v) s in
  hm (fst r) = hm s /\ nxt (fst r) = nxt s /\ log (fst r) = log s /\
  (forall x w, In (OStage2 x w) (snd r) -> seen s pkt x = true).
Proof. exact older_rejected. Qed.
Print Assumptions C10_older_rejected.

(* What the two statements above read of a tunnel is what the handshake that created it delivered: after any
   history every tunnel in Indexes is described by an entry of the log of completed handshakes - its role, the
   stage-1 payload it keeps and the peer-reported time are those of that handshake ... *)
Theorem C10_tunnel_data : forall cfg ops i h,
  let s := hrun cfg hinit ops in
  mget i (idx (hm s)) = Some h ->
  exists hi e, mget h (infos (hm s)) = Some hi /\ hi_local hi = i /\ bound_to cfg s h hi e.
Proof. exact live_bound. Qed.
Print Assumptions C10_tunnel_data.

(* ... and a log entry is written exactly when a stage 1 (responder) or a stage 2 (initiator) completes a
   handshake, with the payload, peer time and certificate addresses of that message. *)
Theorem C10_log_sound : forall cfg ops e,
  In e (log (hrun cfg hinit ops)) ->
  exists ops1 o ops2, ops = ops1 ++ o :: ops2 /\ ev_of_op o e /\
    log (hrun cfg hinit (ops1 ++ [o])) = log (hrun cfg hinit ops1) ++ [e].
Proof. exact log_sound. Qed.
Print Assumptions C10_log_sound.

(* Known finding F27 (not a counterexample to the statements above, which are about the SAME message and about a
   time that is NOT newer): the first message of Noise IX - static key, certificate, payload with the peer-reported
   time - is not authenticated when the responder acts on it.  An altered copy of a captured stage 1 (time rewritten
   from 5 to 6, sent from underlay address 4) is a different payload with a newer time: it is taken as a new
   handshake and tunnel 2, whose remote is the attacker's address, replaces the primary; five altered copies evict
   the genuine tunnel 1; after a copy with time 1000 the peer's genuine re-handshake (time 50) is refused as too
   old.  So "peer-reported time" is attacker-controlled input; the reading "a replayed, possibly altered, first
   message never replaces the primary" is refuted. *)
Example C10_forged_time_refuted :
  let cfg := mkCfg [1] [] in
  let s1 := hrun cfg hinit [RespStage1 1 [10] 7 5 [3] 1] in
  mget 3 (hosts (hm s1)) = Some 1 /\
  let r := hstep cfg (RespStage1 2 [11] 7 6 [3] 4) s1 in
  mget 3 (hosts (hm (fst r))) = Some 2 /\ x_remote (hx_of (fst r) 2) = Some 4 /\ snd r = [OStage2 2 4] /\
  let s6 := hrun cfg (fst r) [RespStage1 3 [12] 7 7 [3] 4; RespStage1 4 [13] 7 8 [3] 4; RespStage1 5 [14] 7 9 [3] 4;
                              RespStage1 6 [15] 7 10 [3] 4] in
  get_list (hm s6) 3 = [6; 5; 4; 3; 2] /\ mget 10 (idx (hm s6)) = None /\
  let s7 := hrun cfg s6 [RespStage1 7 [20] 7 1000 [3] 4] in
  hstep cfg (RespStage1 8 [21] 8 50 [3] 1) s7 = (s7, [OTest 7 4]).
Proof. vm_compute. repeat split; reflexivity. Qed.

(* Non-vacuity.  Node 1, peer certified for address 3.  Payload 1 (peer time 5) creates tunnel 1; four newer
   handshakes rotate the address to five tunnels; the replay of payload 1 is answered with the stored reply of
   tunnel 1 and changes nothing; a sixth handshake evicts tunnel 1; payload 1 is then neither held nor newer
   than the primary: refused with a test request, still nothing created.  A stage 1 with an equal time is
   refused, one with a newer time is taken. *)
Example C10_nonvacuous :
  let cfg := mkCfg [1] [] in
  let mk p i t := RespStage1 p [i] p t [3] 1 in
  let ops := [mk 1 10 5; mk 2 11 6; mk 3 12 7; mk 4 13 8; mk 5 14 9] in
  let s := hrun cfg hinit ops in
  get_list (hm s) 3 = [5; 4; 3; 2; 1] /\ seen s 1 1 = true /\
  hstep cfg (RespStage1 1 [77] 1 5 [3] 2) s = (s, [OStage2 1 2]) /\
  let s6 := hrun cfg s [mk 6 15 20] in
  get_list (hm s6) 3 = [6; 5; 4; 3; 2] /\
  hstep cfg (RespStage1 1 [77] 1 5 [3] 2) s6 = (s6, [OTest 6 1]) /\
  hstep cfg (mk 7 16 20) s6 = (s6, [OTest 6 1]) /\
  get_list (hm (fst (hstep cfg (mk 7 16 21) s6))) 3 = [7; 6; 5; 4; 3].
Proof. vm_compute. repeat split; reflexivity. Qed.

(* C01  Certificate acceptance equals the documented trust rule.  Property theorems only. *)
From Coq Require Import List NArith ZArith Bool.
Import ListNotations.
From NV Require Import lib.Corr model.Cert proofs.Cert_proofs.
Open Scope N_scope.

(* VerifyCertificate accepts exactly when the documented conjunction holds: for all pools, blocklists, times,
   certificates and signature verdicts.  [accept_spec] (model/Cert.v) is written from the property text. *)
Theorem C01_rule : forall P bl t c sigok,
  (exists cc, verify P bl t c sigok = Ok cc) <-> accept_spec P bl t c sigok = true.
Proof. exact rule. Qed.
Print Assumptions C01_rule.

(* The same with the signature verdict as a function of the CA that is looked up. *)
Theorem C01_rule_oracle : forall P bl t c (sig : cert -> bool),
  (exists cc, verify_g P bl t c sig = Ok cc) <-> accept_spec_g P bl t c sig = true.
Proof. exact rule_g. Qed.
Print Assumptions C01_rule_oracle.

(* What the executable rule says, clause by clause, in terms of membership, order on instants and [Covers]. *)
Theorem C01_rule_meaning : forall P bl t c sig, accept_spec_g P bl t c sig = true <-> accept_prop P bl t c sig.
Proof. exact accept_spec_prop. Qed.
Print Assumptions C01_rule_meaning.

(* "inside the CA's network ranges": every address of the certificate's range is an address of the CA's range
   (for valid prefixes of one family). *)
Theorem C01_range_meaning : forall m n,
  p_ok m = true -> p_ok n = true -> p_fam m = p_fam n ->
  p_bits m <= fam_len (p_fam m) -> p_bits n <= fam_len (p_fam n) ->
  (covers m n = true <-> forall a, in_pfx n a -> in_pfx m a).
Proof. intros m n H1 H2 H3 H4 H5. rewrite covers_Covers. now apply Covers_subset. Qed.
Print Assumptions C01_range_meaning.

(* AddCA keeps "every key is the fingerprint of its CA, every entry is a CA", stores the CA under its own
   fingerprint, and refuses anything that is not a CA. *)
Theorem C01_addca_invariant : forall c selfsig now P,
  WFpool [] /\
  (c_isCA c = false -> add_ca c selfsig now P = inr ANotCA) /\
  (forall P' e, WFpool P -> add_ca c selfsig now P = inl (P', e) -> WFpool P' /\ lookup (c_fp c) P' = Some c).
Proof.
  intros c selfsig now P. split; [exact WFpool_nil|]. split; [apply add_ca_only_ca|].
  intros P' e WF H. split; [exact (add_ca_WF _ _ _ _ _ _ WF H)|exact (add_ca_lookup _ _ _ _ _ _ H)].
Qed.
Print Assumptions C01_addca_invariant.

(* Re-checking an accepted certificate against the same pool gives the verdict of a full check, for any
   blocklist and time (in particular the same ones).  No assumption. *)
Theorem C01_cached_same_pool : forall P bl t c sig cc,
  verify_g P bl t c sig = Ok cc ->
  forall bl' t', is_ok (verify_cached_g P bl' t' cc sig) = is_ok (verify_g P bl' t' c sig).
Proof. exact cached_same_pool. Qed.
Print Assumptions C01_cached_same_pool.

(* Against ANY later trust state built by AddCA (reloaded pool, changed blocklist, later time) the cached
   verdict is the verdict of a full check there, i.e. the documented rule evaluated in the new state -
   provided fingerprints determine certificates on the set [Real] of certificates that exist
   (SHA-256 collision resistance; it is a premise of the theorem, not an axiom). *)
Theorem C01_cached : forall (Real : cert -> Prop),
  (forall a b, Real a -> Real b -> c_fp a = c_fp b -> a = b) ->
  forall P bl t c sig cc,
    WFpool P -> RealPool Real P -> verify_g P bl t c sig = Ok cc ->
    forall P' bl' t', WFpool P' -> RealPool Real P' ->
      is_ok (verify_cached_g P' bl' t' cc sig) = is_ok (verify_g P' bl' t' c sig) /\
      is_ok (verify_cached_g P' bl' t' cc sig) = accept_spec_g P' bl' t' c sig.
Proof.
  intros Real Hinj P bl t c sig cc WF RP H P' bl' t' WF' RP'. split.
  - exact (cached_any_pool Real Hinj P bl t c sig cc WF RP H P' bl' t' WF' RP').
  - exact (cached_is_rule Real Hinj P bl t c sig cc WF RP H P' bl' t' WF' RP').
Qed.
Print Assumptions C01_cached.

(* What the cached path re-evaluates whatever record it is given: both blocklisted forms, presence of the CA,
   expiry of CA and certificate; and a pool that maps the issuer to a different CA is refused. *)
Theorem C01_cached_reevaluates : forall P bl t cc sig,
  (blocked bl (cc_fp cc) = true \/ (cc_fp2 cc <> [] /\ blocked bl (cc_fp2 cc) = true) ->
     verify_cached_g P bl t cc sig = Err EBlocked) /\
  (lookup (c_issuer (cc_cert cc)) P = None -> is_ok (verify_cached_g P bl t cc sig) = false) /\
  (forall ca, lookup (c_issuer (cc_cert cc)) P = Some ca ->
     expired ca t = true \/ expired (cc_cert cc) t = true -> is_ok (verify_cached_g P bl t cc sig) = false) /\
  (forall ca, lookup (c_issuer (cc_cert cc)) P = Some ca -> cc_signer cc <> [] -> cc_signer cc <> c_fp ca ->
     is_ok (verify_cached_g P bl t cc sig) = false).
Proof.
  intros P bl t cc sig. repeat split.
  - apply cached_blocked.
  - apply cached_ca_gone.
  - intros ca. apply cached_expired.
  - intros ca. apply cached_signer_changed.
Qed.
Print Assumptions C01_cached_reevaluates.

(* The verdict on a certificate does not depend on what the same pool object verified before (or will verify
   after): in any sequence of verifications each verdict is the one a fresh pool gives, i.e. the documented rule.
   (True by construction of the model, which has no history; the correspondence checks it on the code by
   comparing every verdict of a pool with history with the verdict of a pool built afresh.) *)
Theorem C01_history_independent : forall P bl pre x post,
  nth (length pre) (verify_seq P bl (pre ++ x :: post)) false = is_ok (verify_g P bl (s_time x) (s_cert x) (s_sig x)) /\
  nth (length pre) (verify_seq P bl (pre ++ x :: post)) false = accept_spec_g P bl (s_time x) (s_cert x) (s_sig x).
Proof. exact history_independent. Qed.
Print Assumptions C01_history_independent.

(* ---- the hypotheses are satisfiable: a three-CA pool built by add_ca, one CA expired ------------------ *)

Definition ex_ca (fp : N) (groups : list str) (nets : list pfx) (nb na : Z) : cert :=
  mkCert 2 0 [99; 97; fp] nets [] groups true nb na [] [1; 2; 3] [102; fp] [].
Definition ex_ca1 := ex_ca 49 [] [] 1000%Z 9000%Z.
Definition ex_ca2 := ex_ca 50 [[97]; [98]] [mkPfx 4 167772160 8 true] 1000%Z 9000%Z.     (* groups a,b; 10.0.0.0/8 *)
Definition ex_ca3 := ex_ca 51 [] [] 10%Z 20%Z.                                            (* long expired *)
Definition ex_leaf : cert :=
  mkCert 2 0 [104] [mkPfx 4 167838211 24 true] [] [[97]] false 2000%Z 3000%Z [102; 50] [7] [108; 49] [].  (* 10.1.2.3/24, group a *)

Definition ex_pool : pool :=
  match add_ca ex_ca1 true 5000%Z [] with inl (P1, _) =>
  match add_ca ex_ca2 true 5000%Z P1 with inl (P2, _) =>
  match add_ca ex_ca3 true 5000%Z P2 with inl (P3, _) => P3 | _ => [] end | _ => [] end | _ => [] end.

Definition ex_real (c : cert) : Prop := In c [ex_ca1; ex_ca2; ex_ca3].

Example C01_nonvacuous :
  length ex_pool = 3%nat /\ WFpool ex_pool /\ RealPool ex_real ex_pool /\
  (forall a b, ex_real a -> ex_real b -> c_fp a = c_fp b -> a = b) /\
  (exists cc, verify ex_pool [] 2500%Z ex_leaf true = Ok cc /\
              is_ok (verify_cached ex_pool [] 2500%Z cc true) = true /\          (* same state: accepted again *)
              is_ok (verify_cached ex_pool [[108; 49]] 2500%Z cc true) = false /\ (* blocklisted since *)
              is_ok (verify_cached ex_pool [] 3001%Z cc true) = false /\          (* expired since *)
              is_ok (verify_cached [(c_fp ex_ca1, ex_ca1)] [] 2500%Z cc true) = false) /\ (* CA dropped on reload *)
  is_ok (verify ex_pool [] 2500%Z ex_leaf false) = false /\
  is_ok (verify ex_pool [] 1999%Z ex_leaf true) = false /\ is_ok (verify ex_pool [] 2000%Z ex_leaf true) = true /\
  is_ok (verify ex_pool [] 3000%Z ex_leaf true) = true /\ is_ok (verify ex_pool [] 3001%Z ex_leaf true) = false.
Proof.
  split; [reflexivity|]. split.
  { intros k ca H. vm_compute in H. destruct H as [H|[H|[H|[]]]]; inversion H; subst; split; reflexivity. }
  split.
  { intros k ca H. vm_compute in H. unfold ex_real.
    destruct H as [H|[H|[H|[]]]]; inversion H; subst; simpl; tauto. }
  split.
  { intros a b Ha Hb. unfold ex_real in *. simpl in Ha, Hb.
    destruct Ha as [<-|[<-|[<-|[]]]]; destruct Hb as [<-|[<-|[<-|[]]]]; intros E; try reflexivity; vm_compute in E; discriminate E. }
  split.
  { eexists. split; [vm_compute; reflexivity|]. repeat split; vm_compute; reflexivity. }
  repeat split; vm_compute; reflexivity.
Qed.

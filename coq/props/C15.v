(* C15  Relays never see or alter end-to-end traffic.  Property theorems only (level: partial - the symbolic model's
   AEAD is ideal: a ciphertext is opened only with its key, and only the key holder makes one).
   The adversary is the relay: it knows its own tunnel keys, every datagram that ever reached it and any public
   material, and computes with every rule of lib/Sym.v [derives] (concatenate, cut at any byte offset, encrypt and
   decrypt with keys it can derive, hash, DH with private keys it holds). *)
From Coq Require Import List NArith Bool.
Import ListNotations.
From NV Require Import lib.Sym model.RelayE2E proofs.RelayE2E_proofs.
Open Scope N_scope.

(* No plaintext: for every set of end-to-end keys, every number of relayed sessions and packets (any indexes and
   counters, relay tunnels re-established with new keys included), nothing the relay can compute exposes a plaintext,
   a slice of one, or an end-to-end key: they occur at most under an AEAD keyed end to end. *)
Theorem C15_no_plaintext : forall e2e own traffic extra t,
  wf_world e2e own traffic extra -> derives (knowledge own traffic extra) t -> safe e2e t = true.
Proof. exact no_plaintext. Qed.
Print Assumptions C15_no_plaintext.

Theorem C15_plaintext_underivable : forall e2e own traffic extra d o l,
  wf_world e2e own traffic extra ->
  ~ derives (knowledge own traffic extra) (data d) /\ ~ derives (knowledge own traffic extra) (Sub (data d) o l).
Proof.
  intros e2e own traffic extra d o l W. split; intros D; apply (no_plaintext e2e _ _ _ _ W) in D.
  - rewrite unsafe_data in D. discriminate.
  - cbn [safe] in D. fold (data d) in D. rewrite unsafe_data in D. discriminate.
Qed.
Print Assumptions C15_plaintext_underivable.

Theorem C15_key_underivable : forall e2e own traffic extra k,
  wf_world e2e own traffic extra -> existsb (N.eqb k) e2e = true -> ~ derives (knowledge own traffic extra) (key k).
Proof.
  intros e2e own traffic extra k W E D. apply (no_plaintext e2e _ _ _ _ W) in D. rewrite safe_key, E in D. discriminate.
Qed.
Print Assumptions C15_key_underivable.

(* Integrity: whatever bytes the relay hands on - any rewrite, splice or fabrication - if the endpoint accepts them on a
   tunnel keyed end to end, then key, counter, header and plaintext are those of a packet that tunnel's peer sent:
   every other payload is rejected. (That one counter is delivered at most once is C11/C12.) *)
Theorem C15_integrity : forall e2e own traffic extra ts idx c t tu p,
  wf_world e2e own traffic extra -> derives (knowledge own traffic extra) t ->
  recv_inner ts idx c t = Some (tu, p) -> existsb (N.eqb (t_key tu)) e2e = true ->
  exists s, In s traffic /\ s_kab s = t_key tu /\ s_ctr s = c /\
            hcode t_message st_none (s_idx s) (s_ctr s) = hcode t_message st_none idx c /\ p = data (s_data s).
Proof. exact integrity. Qed.
Print Assumptions C15_integrity.

(* Attribution: a plaintext delivered out of a relay packet is attributed to the peer of the tunnel that owns the INNER
   index and whose key authenticated it, and that peer sent it - whatever the relay packet is, whoever it came from. *)
Theorem C15_attribution : forall e2e own traffic extra ts r c' idx c t who p,
  wf_world e2e own traffic extra -> derives (knowledge own traffic extra) t ->
  recv_outer ts r c' idx c t = Some (who, p) ->
  (forall tu, In tu ts -> existsb (N.eqb (t_key tu)) e2e = true) ->
  exists tu s, find_tunnel ts idx = Some tu /\ who = t_peer tu /\ In s traffic /\ s_kab s = t_key tu /\ s_ctr s = c /\
               p = data (s_data s).
Proof. exact attribution. Qed.
Print Assumptions C15_attribution.

(* ... and the peer address the relay record claims (Relay.PeerAddr) plays no part in it. *)
Theorem C15_claim_irrelevant : forall ts ri rk claim1 claim2 c' idx c t,
  recv_outer ts (mkRelay ri rk claim1) c' idx c t = recv_outer ts (mkRelay ri rk claim2) c' idx c t.
Proof. reflexivity. Qed.
Print Assumptions C15_claim_irrelevant.

(* The hypotheses are met and the honest path works: A (tunnel key 7 with B, relay tunnel key 3) sends plaintext 5;
   the relay (keys 3 and 4) forwards; B (tunnel 70 under key 7 for peer 1001, relay record 90 under key 4 claiming
   peer 2002) delivers plaintext 5 attributed to peer 1001. A relay that swaps in another plaintext it knows, or
   re-encrypts under its own key, or splices the ciphertext of another tunnel, is refused. *)
Example C15_nonvacuous :
  let e2e := [7; 8] in
  let s := mkSent 7 70 12 5 3 30 100 in
  let s' := mkSent 8 80 12 6 3 31 101 in
  let ts := [mkTunnel 70 7 1001; mkTunnel 80 8 1002] in
  let r := mkRelay 90 4 2002 in
  wf_sent e2e s = true /\ wf_sent e2e s' = true /\
  (exists w, forward 3 30 100 4 90 200 (wire s) = Some w /\ recv_outer ts r 200 70 12 w = Some (1001, data 5)) /\
  recv_outer ts r 200 70 12 (outer_pkt 4 90 200 (inner_pkt 4 70 12 (data 5))) = None /\
  recv_outer ts r 200 70 12 (outer_pkt 4 90 200 (cat (hdr t_message st_none 70 12) (Aead (key 8) 12 (hdr t_message st_none 80 12) (data 6)))) = None /\
  recv_outer ts r 200 70 13 (outer_pkt 4 90 200 (cat (hdr t_message st_none 70 13) (Aead (key 7) 12 (hdr t_message st_none 70 12) (data 5)))) = None.
Proof. vm_compute. repeat split; try reflexivity. eexists. split; reflexivity. Qed.

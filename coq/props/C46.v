(* C46  CPU pinning choices are valid and stable.  Property theorems only. *)
From Coq Require Import List NArith ZArith.
Import ListNotations.
From NV Require Import lib.Bytes model.CpuPick proofs.CpuPick_arrange proofs.CpuPick_parse proofs.CpuPick_recog.
Open Scope N_scope.

(* For every candidate list, topology, routine count and hash: the pin list holds only candidates, and no
   CPU twice when the candidates are distinct. *)
Theorem C46_subset_nodup : forall cands t routines h,
  (forall c, In c (arrange cands t routines h) -> In c cands) /\
  (NoDup cands -> NoDup (arrange cands t routines h)).
Proof. intros. split; [apply arrange_subset|apply arrange_nodup]. Qed.
Print Assumptions C46_subset_nodup.

(* It holds exactly the candidates of one NUMA node that has at least `routines` of them, or - when no
   candidate's node is that large - exactly the candidates. *)
Theorem C46_node_complete : forall cands t routines h,
  (exists n, In n (map (nodeOf t) cands) /\ (routines <= node_count t cands n)%Z /\
             forall c, In c (arrange cands t routines h) <-> In c cands /\ nodeOf t c = n)
  \/ ((forall c, In c cands -> (node_count t cands (nodeOf t c) < routines)%Z) /\
      forall c, In c (arrange cands t routines h) <-> In c cands).
Proof. exact arrange_node_complete. Qed.
Print Assumptions C46_node_complete.

(* The list is: CPUs off CPU 0's physical core, then the other threads of CPU 0's core, then CPU 0 itself
   (last, and only there) when it is in the list at all. *)
Theorem C46_zero_last : forall cands t routines h,
  exists pre core0,
    arrange cands t routines h = pre ++ core0 ++ (if mem_n 0 (arrange cands t routines h) then [0] else [])
    /\ Forall (fun c => c <> 0 /\ on_zero_core t c = false) pre
    /\ Forall (fun c => c <> 0 /\ on_zero_core t c = true) core0.
Proof. exact arrange_zero_last. Qed.
Print Assumptions C46_zero_last.

(* Before CPU 0's core: one thread of every physical core first, their SMT siblings after them. *)
Theorem C46_smt_spread : forall cands t routines h,
  exists firsts sibs,
    arrange cands t routines h = firsts ++ sibs ++ zero_tail_of t (node_confined t cands routines h)
    /\ NoDup (map (coreOf t) firsts)
    /\ forall c, In c sibs -> In (coreOf t c) (map (coreOf t) firsts).
Proof. exact arrange_smt_spread. Qed.
Print Assumptions C46_smt_spread.

(* The result is a function of the hash of the key, the candidates, and the topology entries of the candidates
   (plus zeroCore) - nothing else. *)
Theorem C46_deterministic : forall cands t1 t2 routines h,
  (forall c, In c cands -> nodeOf t1 c = nodeOf t2 c /\ coreOf t1 c = coreOf t2 c) ->
  zeroCore t1 = zeroCore t2 ->
  arrange cands t1 routines h = arrange cands t2 routines h.
Proof. exact arrange_ext. Qed.
Print Assumptions C46_deterministic.

(* Default = pickCandidates over the performance filter, then arrange with splitmix64(key): for every allowed
   set, every content of the sysfs performance files and every topology the pin list holds only allowed
   CPUs, none twice, CPU 0's core last. *)
Theorem C46_default_allowed : forall allowed src topo_for routines key out,
  default_pins allowed (perf_cpus src allowed) topo_for routines key = Some out ->
  (forall c, In c out -> In c allowed) /\ (NoDup allowed -> NoDup out) /\
  zero_last_b (topo_for (pick_candidates allowed (perf_cpus src allowed) routines)) out = true.
Proof. exact default_pins_props. Qed.
Print Assumptions C46_default_allowed.

(* The executable clause checkers that the correspondence applies to the implementation's output accept
   only lists of the stated shape. *)
Theorem C46_checkers_sound : forall t cands routines out,
  (node_complete_b t cands routines out = true ->
     (exists n, In n (map (nodeOf t) cands) /\ (routines <= node_count t cands n)%Z /\
                forall c, In c out <-> In c cands /\ nodeOf t c = n)
     \/ ((forall c, In c cands -> (node_count t cands (nodeOf t c) < routines)%Z) /\ forall c, In c out <-> In c cands))
  /\ (zero_last_b t out = true ->
        exists pre core0, out = pre ++ core0 ++ (if mem_n 0 out then [0] else [])
          /\ Forall (fun c => c <> 0 /\ on_zero_core t c = false) pre
          /\ Forall (fun c => c <> 0 /\ on_zero_core t c = true) core0)
  /\ (nodup_n out = true <-> NoDup out)
  /\ (subset_n out cands = true <-> forall c, In c out -> In c cands).
Proof.
  intros. split; [apply node_complete_b_sound|]. split; [apply zero_last_b_sound|].
  split; [apply nodup_n_spec|apply subset_n_spec].
Qed.
Print Assumptions C46_checkers_sound.

(* For ALL byte strings: parsing succeeds exactly on the cpulist grammar
     cpulist ::= field | field ',' cpulist      field ::= blank* | blank* item blank*
     item ::= number | number '-' number  (n <= m, m - n <= 8192)     number ::= digit+  (<= 2^63-1)
   (blank = one of the six ASCII blanks) and returns the expansion. *)
Theorem C46_cpulist_grammar : forall s l, parse_cpu_list s = Some l <-> cpulist s l.
Proof. exact parse_cpu_list_grammar. Qed.
Print Assumptions C46_cpulist_grammar.

(* The independent one-pass recogniser accepts the same grammar, so it and the parser agree everywhere. *)
Theorem C46_cpulist_recogniser : forall s,
  parse_cpu_list s = recognise s /\ forall l, recognise s = Some l <-> cpulist s l.
Proof. intros s. split; [apply parse_cpu_list_recognise|intros l; apply recognise_grammar]. Qed.
Print Assumptions C46_cpulist_recogniser.

(* The expansion of n-m is n, n+1, ..., m. *)
Theorem C46_range_expansion : forall n m, n <= m ->
  length (cpu_range n m) = S (N.to_nat (m - n)) /\ forall c, In c (cpu_range n m) <-> n <= c <= m.
Proof. intros n m H. split; [apply cpu_range_length|intros c; now apply cpu_range_In]. Qed.
Print Assumptions C46_range_expansion.

(* The span and integer limits are the code's: pinned here so that the grammar cannot drift silently. *)
Lemma C46_limits_doc : max_span = 8192 /\ max_int = 2 ^ 63 - 1.
Proof. split; reflexivity. Qed.

(* Non-vacuity: two NUMA nodes x two cores x two threads, CPU 0 among the candidates; a list with blanks, an
   empty item and a range; signs, strides, non-ASCII blanks and oversized spans are refused. *)
Example C46_nonvacuous :
  let t := topo_of_lists [(0, 0%Z); (1, 0%Z); (2, 0%Z); (3, 0%Z); (4, 1%Z); (5, 1%Z); (6, 1%Z); (7, 1%Z)]
                         [(0, 0%Z); (1, 1%Z); (2, 0%Z); (3, 1%Z); (4, 2%Z); (5, 3%Z); (6, 2%Z); (7, 3%Z)] 0%Z in
  arrange [0; 1; 2; 3; 4; 5; 6; 7] t 2%Z 0 = [1; 3; 2; 0]
  /\ arrange [0; 1; 2; 3; 4; 5; 6; 7] t 2%Z (2 ^ 32 + 1) = [5; 6; 7; 4]
  /\ arrange [0; 1; 2; 3; 4; 5; 6; 7] t 5%Z 0 = [1; 4; 5; 3; 6; 7; 2; 0]
  /\ parse_cpu_list [32; 48; 45; 50; 44; 44; 55; 10] = Some [0; 1; 2; 7]
  /\ parse_cpu_list [43; 51] = None
  /\ parse_cpu_list [48; 45; 51; 58; 49; 47; 50] = None
  /\ parse_cpu_list [194; 160; 51] = None
  /\ parse_cpu_list [48; 45; 56; 49; 57; 51] = None.
Proof. vm_compute. repeat split; reflexivity. Qed.

(* C11  The replay window accepts each counter exactly once when in range.  Property theorems only.
   Model: model/Bits.v (word-level mirror of /repo/bits.go + the abstract specification);
   proofs: proofs/Bits_word.v (words -> bits, clearRange), proofs/Bits_sim.v (simulation),
   proofs/Bits_hist.v (histories). *)
From Coq Require Import List NArith Bool.
Import ListNotations.
From NV Require Import lib.Bytes lib.Bits_lib gen.Bits_consts model.Bits
                       proofs.Bits_word proofs.Bits_sim proofs.Bits_hist.
Open Scope N_scope.

(* T1: the constants of the code the statements below are instantiated with *)
Lemma replay_window_doc : ReplayWindow = 8192.
Proof. reflexivity. Qed.
Lemma replay_window_pow2 : pow2 ReplayWindow.
Proof. exists 13. split; [discriminate|reflexivity]. Qed.
Lemma bits_per_word_doc : bitsPerWord = 64.
Proof. reflexivity. Qed.
(* an honest sender stops at RejectAfterMessages, which is more than one window short of 2^64 *)
Lemma reject_after_in_range : RejectAfterMessages <= two64 - ReplayWindow.
Proof. discriminate. Qed.

(* NewBits(2^k) succeeds for every k <= 63 and starts related to the initial specification state
   (highest accepted = 0, counter 0 pre-marked as seen). *)
Theorem C11_new : forall k, k <= 63 ->
  exists b0, new_bits (2 ^ k) = Some b0 /\ R (2 ^ k) b0 spec_init.
Proof.
  intros k Hk. assert (HL : pow2 (2 ^ k)) by (exists k; split; [exact Hk|reflexivity]).
  eexists. split; [apply (new_bits_pow2 _ HL)|]. apply R_init; [exact HL|apply (new_bits_pow2 _ HL)].
Qed.
Print Assumptions C11_new.

(* One step: from related states, Check/Update of an in-range counter returns the specification's
   verdict and re-establishes the relation. *)
Theorem C11_step : forall k L b s o,
  k <= 63 -> L = 2 ^ k -> R L b s -> in_range L (op_ctr o) = true ->
  fst (step_op b o) = fst (spec_step L s o) /\ R L (snd (step_op b o)) (snd (spec_step L s o)).
Proof. intros k L b s o Hk -> HR Hr. apply step_sim; [exists k; auto|exact HR|exact Hr]. Qed.
Print Assumptions C11_step.

(* Whole histories, every window length 2^k (including windows shorter than one word), every
   sequence of Check/Update whose counters are below 2^64 - L: the i-th operation returns exactly the
   specification's verdict (accept iff not seen before and above the highest accepted counter or
   inside the window below it), and the final states are related. *)
Theorem C11_update : forall k L b0 ops,
  k <= 63 -> L = 2 ^ k -> new_bits L = Some b0 -> ops_in_range L ops = true ->
  fst (run_ops b0 ops) = fst (spec_run L spec_init ops) /\
  R L (snd (run_ops b0 ops)) (snd (spec_run L spec_init ops)).
Proof.
  intros k L b0 ops Hk -> Hn Hr.
  assert (HL : pow2 (2 ^ k)) by (exists k; auto).
  apply run_sim; [exact HL|apply R_init; assumption|exact Hr].
Qed.
Print Assumptions C11_update.

(* Check returns what Update would return (and what the specification says) and changes nothing. *)
Theorem C11_check_pure : forall k L b s i,
  k <= 63 -> L = 2 ^ k -> R L b s -> i < two64 - L ->
  check b i = fst (update b i) /\ check b i = spec_accept L s i /\ snd (step_op b (OCheck i)) = b.
Proof. intros k L b s i Hk -> HR Hi. apply check_pure; [exists k; auto|exact HR|exact Hi]. Qed.
Print Assumptions C11_check_pure.

(* Over any in-range history a counter is accepted by Update at most once. *)
Theorem C11_once : forall k L b0 ops c,
  k <= 63 -> L = 2 ^ k -> new_bits L = Some b0 -> ops_in_range L ops = true ->
  (accepted_count c ops (fst (run_ops b0 ops)) <= 1)%nat.
Proof.
  intros k L b0 ops c Hk -> Hn Hr. assert (HL : pow2 (2 ^ k)) by (exists k; auto).
  apply (once _ HL ops b0 spec_init c); [apply R_init; assumption|exact Hr].
Qed.
Print Assumptions C11_once.

(* The specification state means what its names say: s_cur is the highest accepted counter and
   s_acc holds exactly the counters of accepting Updates. *)
Theorem C11_spec_meaning : forall L ops c,
  let s := snd (spec_run L spec_init ops) in
  s_cur s = fold_right N.max 0 (s_acc s) /\
  (In c (s_acc s) <-> (0 < accepted_count c ops (fst (spec_run L spec_init ops)))%nat).
Proof.
  intros L ops c. cbn zeta. split.
  - apply spec_cur_max. reflexivity.
  - rewrite (spec_acc_exact L c ops spec_init). cbn [spec_init s_acc In]. tauto.
Qed.
Print Assumptions C11_spec_meaning.

(* The word-level core: clearRange clears exactly the circular positions startPos .. startPos+count-1
   (everything when count >= length), for every window length 2^k. *)
Theorem C11_clear_range : forall k L b s count,
  k <= 63 -> L = 2 ^ k -> wf L b -> s < L -> count < two64 ->
  length (clear_range b s count) = length (b_words b) /\
  forall p, p < L ->
    bit_at (clear_range b s count) p = bit_at (b_words b) p && negb (in_circ L s count p).
Proof. intros k L b s count Hk -> Hwf Hs Hc. apply clear_range_spec; [exists k; auto|assumption..]. Qed.
Print Assumptions C11_clear_range.

(* Every slice index the code computes is inside the slice. *)
Theorem C11_index_safe : forall k L b i,
  k <= 63 -> L = 2 ^ k -> wf L b ->
  (N.to_nat (N.shiftr (N.land i (b_mask b)) 6) < length (b_words b))%nat.
Proof. intros k L b i Hk -> Hwf. apply (word_index_ok (2 ^ k)); [exists k; auto|exact Hwf]. Qed.
Print Assumptions C11_index_safe.

(* The production window with honest senders (counters below RejectAfterMessages). *)
Theorem C11_production : forall b0 ops c,
  new_bits ReplayWindow = Some b0 ->
  forallb (fun o => op_ctr o <? RejectAfterMessages) ops = true ->
  fst (run_ops b0 ops) = fst (spec_run ReplayWindow spec_init ops) /\
  (accepted_count c ops (fst (run_ops b0 ops)) <= 1)%nat.
Proof.
  intros b0 ops c Hn Hr.
  assert (Hr' : ops_in_range ReplayWindow ops = true).
  { unfold ops_in_range. rewrite forallb_forall in *. intros o Ho. specialize (Hr o Ho).
    unfold in_range. apply N.ltb_lt. apply N.ltb_lt in Hr.
    eapply N.lt_le_trans; [exact Hr|exact reject_after_in_range]. }
  split.
  - apply (C11_update 13 ReplayWindow b0 ops); [discriminate|reflexivity|exact Hn|exact Hr'].
  - apply (C11_once 13 ReplayWindow b0 ops c); [discriminate|reflexivity|exact Hn|exact Hr'].
Qed.
Print Assumptions C11_production.

(* Known finding F11: inside one window length of 2^64 the window arithmetic wraps and earlier
   counters are accepted again. Evaluated on the word-level model (window 8192): 2^64-111 and
   2^64-101 are each accepted twice, and after 2^64-1 the counter 0 is accepted. *)
Definition wrap_witness : list op :=
  [OUpdate (two64 - 111); OUpdate (two64 - 101); OUpdate (two64 - 51);
   OUpdate (two64 - 111); OUpdate (two64 - 101); OUpdate (two64 - 1); OUpdate 0].

Theorem C11_wrap_refuted :
  exists b0, new_bits 8192 = Some b0 /\
    fst (run_ops b0 wrap_witness) = [true; true; true; true; true; true; true] /\
    fst (spec_run 8192 spec_init wrap_witness) = [true; true; true; false; false; true; false] /\
    (accepted_count (two64 - 111) wrap_witness (fst (run_ops b0 wrap_witness)) = 2)%nat /\
    ops_in_range 8192 wrap_witness = false.
Proof.
  exists (mkBits 8192 8191 0 (set_word (repeat 0 128) 0 1)).
  vm_compute. repeat split; reflexivity.
Qed.
Print Assumptions C11_wrap_refuted.

(* the hypotheses are satisfiable and the statements not vacuous: window 8, a history with a
   backfill, a duplicate, a jump past the window and a stale counter *)
Example C11_nonvacuous :
  exists b0, new_bits 8 = Some b0 /\
    let ops := [OUpdate 1; OUpdate 2; OUpdate 5; OCheck 3; OUpdate 3; OUpdate 3; OUpdate 20; OUpdate 12; OUpdate 13] in
    ops_in_range 8 ops = true /\
    fst (run_ops b0 ops) = [true; true; true; true; true; false; true; false; true].
Proof. eexists. split; [reflexivity|]. vm_compute. split; reflexivity. Qed.

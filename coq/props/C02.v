(* C02  Tampered certificates are rejected.  Property theorems only. *)
From Coq Require Import List NArith ZArith Bool.
Import ListNotations.
From NV Require Import lib.Bytes lib.Corr lib.Proto lib.Der model.CertCodec model.CertTamper
  proofs.CertCodec_v2 proofs.CertCodec_v1 proofs.CertCodec_main
  proofs.CertTamper_v2 proofs.CertTamper_v1 proofs.CertTamper_twin proofs.CertTamper_main.
Open Scope N_scope.

(* Version 2 signs rawDetails ‖ byte(curve) ‖ publicKey. For any two certificates as signing or decoding produce
   them (wf_v2, see C02_wf below), equal signed bytes mean equal details bytes and equal name, networks, unsafe
   networks, groups, CA flag, validity, issuer, curve and public key. *)
Theorem C02_tbs_v2_injective : forall c1 c2', wf_v2 c1 -> wf_v2 c2' -> tbs_v2 c1 = tbs_v2 c2' ->
  c2_raw c1 = c2_raw c2' /\ ident_c (c2 c1) = ident_c (c2 c2').
Proof. exact tbs_v2_injective. Qed.
Print Assumptions C02_tbs_v2_injective.

(* Version 1 signs the re-marshalled details. For certificates as signing or decoding produce them (fields_v1_ok),
   equal signed bytes mean equal identity fields. *)
Theorem C02_tbs_v1_injective : forall c1 c2', fields_v1_ok c1 -> fields_v1_ok c2' -> go_len (tbs_v1 c1) ->
  tbs_v1 c1 = tbs_v1 c2' -> ident_c c1 = ident_c c2'.
Proof. exact tbs_v1_injective. Qed.
Print Assumptions C02_tbs_v1_injective.

(* The two premises hold of everything SignWith issues and of everything the decoders return (v2: from a byte string). *)
Theorem C02_wf :
  (forall tbs sig c, sign_v2 tbs sig = Some c -> wf_v2 c) /\
  (forall pk dcurve b c, bytes_ok b = true -> decode_v2 pk dcurve b = Some c -> wf_v2 c) /\
  (forall tbs sig c, sign_v1 tbs sig = Some c -> fields_v1_ok c /\ c_pub c <> []) /\
  (forall pk b c, decode_v1 pk b = Some c -> fields_v1_ok c).
Proof. exact wf_facts. Qed.
Print Assumptions C02_wf.

(* A message signed for one version is never a message of the other version. *)
Theorem C02_tbs_versions_disjoint : forall c1 c2', c_pub c1 <> [] -> wf_v2 c2' -> tbs_v1 c1 <> tbs_v2 c2'.
Proof. exact tbs_versions_disjoint. Qed.
Print Assumptions C02_tbs_versions_disjoint.

(* Under unforgeability (a premise, as is "everything the CA key signed went through SignWith on the CA's curve"):
   any bytes that decode - through any entry point, in either encoding - to a certificate a' on the CA's curve whose
   signature verifies under the CA key carry the identity (version, name, networks, unsafe networks, groups, CA flag,
   validity, issuer, curve, public key) of an issued certificate, and a' carries that certificate's signature or,
   on P-256, its twin. *)
Theorem C02_tamper : forall sig_ok ca_key ca_curve issued,
  (forall a, In a issued -> came_from_sign a /\ curve_of a = ca_curve) ->
  (forall m s, sig_ok ca_curve ca_key m s = true ->
     exists a, In a issued /\ tbs_of a = m /\ (s = sig_of a \/ (ca_curve = 1 /\ twin (sig_of a) = Some s))) ->
  forall a', decoded a' -> remarshal_ok a' -> curve_of a' = ca_curve ->
  check_signature sig_ok ca_key a' = true ->
  exists a, In a issued /\ identity a' = identity a /\
            (sig_of a' = sig_of a \/ (ca_curve = 1 /\ twin (sig_of a) = Some (sig_of a'))).
Proof. exact tamper. Qed.
Print Assumptions C02_tamper.

(* The twin. On numbers: s |-> n - s is an involution without fixed point strictly between 0 and n. On encodings:
   for a DER signature (r, s) with r <> 0 and 0 < s < n - every signature that verifies - Swap yields a different
   signature whose Swap is the original. *)
Theorem C02_twin_number : forall s, 0 < s < p256_n ->
  0 < p256_n - s < p256_n /\ p256_n - (p256_n - s) = s /\ p256_n - s <> s.
Proof. exact twin_number. Qed.
Print Assumptions C02_twin_number.

Theorem C02_twin_involutive : forall sig r s, bytes_ok sig = true -> fits sig -> parse_sig sig = Some (r, s) ->
  be_dec r <> 0 -> 0 < be_dec s < p256_n ->
  exists sig', twin sig = Some sig' /\ twin sig' = Some sig /\ sig' <> sig /\
               parse_sig sig' = Some (r, strip1 (be_enc 32 (p256_n - be_dec s))).
Proof. exact twin_involutive. Qed.
Print Assumptions C02_twin_involutive.

(* The alternate fingerprint of a P-256 certificate is the fingerprint of the same certificate carrying the twin
   signature and vice versa; hence with either fingerprint on the blocklist both certificates fail the blocklist tests
   of VerifyCertificate / VerifyCachedCertificate. *)
Theorem C02_fp2 : forall H a s', curve_of a = 1 -> twin (sig_of a) = Some s' -> twin s' = Some (sig_of a) ->
  fp2 H a = Some (Some (fp H (with_sig_any a s'))) /\ fp2 H (with_sig_any a s') = Some (Some (fp H a)).
Proof. exact fp2_is_fp_of_twin. Qed.
Print Assumptions C02_fp2.

Theorem C02_twin_block : forall H bl a s', curve_of a = 1 -> twin (sig_of a) = Some s' -> twin s' = Some (sig_of a) ->
  listed bl (fp H a) = true \/ listed bl (fp H (with_sig_any a s')) = true ->
  blocklist_pass H bl a = false /\ blocklist_pass H bl (with_sig_any a s') = false.
Proof. exact twin_block. Qed.
Print Assumptions C02_twin_block.

(* Verdicts do not depend on verification history: whatever a pool has verified before (the genuine certificate, other
   leaves, earlier tampered encodings), the verdict on a certificate is the verdict of a single verification - in
   particular of verify_one. The implementation is checked against this on long-lived pools. *)
Theorem C02_history_independent : forall (verdict : anycert -> bool) h seen a,
  last (verify_history verdict seen (h ++ [a])) false = verdict a /\
  verify_history verdict seen (h ++ [a]) = verify_history verdict seen h ++ [verdict a].
Proof. exact history_independent. Qed.
Print Assumptions C02_history_independent.

(* The premises of C02_tamper are satisfiable by a non-empty set of issued certificates. *)
Example C02_nonvacuous :
  let sig_ok := fun (cv : N) (k m s : list N) => Corr.nlist_eqb m (tbs_v2 sample_issued) && Corr.nlist_eqb s [7; 7] in
  let issued := [V2 sample_issued] in
  (forall a, In a issued -> came_from_sign a /\ curve_of a = 0) /\
  (forall m s, sig_ok 0 [1] m s = true ->
     exists a, In a issued /\ tbs_of a = m /\ (s = sig_of a \/ (0 = 1 /\ twin (sig_of a) = Some s))) /\
  check_signature sig_ok [1] (V2 sample_issued) = true.
Proof. exact tamper_hypotheses_satisfiable. Qed.

(* C08  Handshake payload encoding is lossless and wire-compatible.  Property theorems only.
   marshal_payload / unmarshal_payload model handshake.MarshalPayload / UnmarshalPayload (hand-written protowire
   code); schema_encode / schema_decode model the codec protoc-gen-gogofaster generates for the schema in
   handshake/handshake.proto (the NebulaHandshake codec of nebula <= 1.9). A Go []byte is a [list N], so a nil and
   an empty Cert are the same value: the `norm` of the design is the identity on this representation. *)
From Coq Require Import List NArith.
Import ListNotations.
From NV Require Import lib.Bytes lib.Proto model.Payload proofs.Payload_proofs proofs.Payload_reject proofs.Payload_agree.
Open Scope N_scope.

(* Lossless: every payload (any cert bytes, 32-bit indexes and version, 64-bit time) decodes back to itself. *)
Theorem C08_roundtrip : forall p, wf_payload p -> unmarshal_payload (marshal_payload p) = Some p.
Proof. intros p. apply roundtrip. Qed.
Print Assumptions C08_roundtrip.

(* Forward compatible: the generated decoder reads the hand-written encoding as the same field values
   (Cookie 0, no Hmac); the bytes are in fact exactly what the generated encoder writes for those values. *)
Theorem C08_schema_fwd : forall p, wf_payload p ->
  schema_decode (marshal_payload p) = Some (msg_of_payload p) /\
  payload_of_msg (msg_of_payload p) = p /\
  marshal_payload p = schema_encode (msg_of_payload p).
Proof. exact schema_fwd_full. Qed.
Print Assumptions C08_schema_fwd.

(* Backward compatible: whatever the generated encoder writes for a well-formed schema message (Details present or
   not, any Hmac, any Cookie) is read back by the hand-written parser field by field. *)
Theorem C08_schema_bwd : forall m, wf_msg m -> unmarshal_payload (schema_encode m) = Some (payload_of_msg m).
Proof. intros m. apply schema_bwd. Qed.
Print Assumptions C08_schema_bwd.

(* Rejection, Details level: after any valid sequence of Details fields, (1) a known field number with any other
   wire type, (2) a 32-bit field above 2^32-1, (3) input that ends inside a varint (value or tag), (4) a
   length-delimited value announcing more bytes than remain, each make the whole message invalid, whatever follows
   the Details field. ([details] < 2^64 bytes is the Go slice bound.) *)
Theorem C08_rejects_in_details : forall q bad after, wf_payload q ->
  N.of_nat (length (details_enc q ++ bad)) < two64 ->
  (exists num typ rest, bad = tag_enc num typ ++ rest /\ known_details num /\ typ < 8 /\ typ <> expected_wt num) \/
  (exists num v rest, bad = field_varint num v ++ rest /\ u32_field num /\ two32 <= v < two64) \/
  (exists num t, bad = tag_enc num wt_varint ++ t /\ valid_num num /\ all_cont t) \/
  (bad <> [] /\ all_cont bad) \/
  (exists num n body, bad = tag_enc num wt_bytes ++ varint_enc n ++ body /\ valid_num num /\ n < two64 /\
                      N.of_nat (length body) < n) ->
  unmarshal_payload (field_bytes f_details (details_enc q ++ bad) ++ after) = None.
Proof. exact rejects_in_details_all. Qed.
Print Assumptions C08_rejects_in_details.

(* Rejection, outer level: the same rules for the NebulaHandshake message itself, at its start or after a complete
   valid message: Details = 1 with any wire type other than bytes, a truncated tag or varint, a length overrun. *)
Theorem C08_rejects_outer : forall bad,
  (exists typ rest, bad = tag_enc f_details typ ++ rest /\ typ < 8 /\ typ <> wt_bytes) \/
  (exists num t, bad = tag_enc num wt_varint ++ t /\ valid_num num /\ all_cont t) \/
  (bad <> [] /\ all_cont bad) \/
  (exists num n body, bad = tag_enc num wt_bytes ++ varint_enc n ++ body /\ valid_num num /\ n < two64 /\
                      N.of_nat (length body) < n) ->
  unmarshal_payload bad = None /\
  forall q, wf_payload q -> unmarshal_payload (marshal_payload q ++ bad) = None.
Proof. exact rejects_outer_all. Qed.
Print Assumptions C08_rejects_outer.

(* Unknown fields are skipped: a well-formed field (varint, fixed64, bytes, fixed32) with a field number the parser
   does not know changes nothing, in Details and in the outer message; and in between the fields of two encodings
   the result is the proto3 merge of the two. *)
Theorem C08_unknown_skipped : forall p num typ v rest, wf_value typ v ->
  (unknown_details num -> unmarshal_details false p (tag_enc num typ ++ v ++ rest) = unmarshal_details false p rest) /\
  (valid_num num -> num <> f_details ->
   msg_run (outer_step false) p (tag_enc num typ ++ v ++ rest) = msg_run (outer_step false) p rest).
Proof. exact unknown_skipped_both. Qed.
Print Assumptions C08_unknown_skipped.

Theorem C08_unknown_between : forall q1 q2 num typ v,
  wf_payload q1 -> wf_payload q2 -> unknown_details num -> wf_value typ v ->
  N.of_nat (length (details_enc q1 ++ (tag_enc num typ ++ v) ++ details_enc q2)) < two64 ->
  unmarshal_payload (field_bytes f_details (details_enc q1 ++ (tag_enc num typ ++ v) ++ details_enc q2)) =
  Some (merge q1 q2).
Proof. exact unknown_between_fields. Qed.
Print Assumptions C08_unknown_between.

(* Agreement of the two decoders on ALL byte strings: whenever the parser with a wire-type check on the two fields
   only the schema knows (Hmac = 2, Cookie = 4) accepts, the parser accepts with the same result and the generated
   decoder accepts with the same field values. *)
Theorem C08_decoders_agree : forall b p, unmarshal_strict b = Some p ->
  unmarshal_payload b = Some p /\ exists m, schema_decode b = Some m /\ payload_of_msg m = p.
Proof. exact agreement. Qed.
Print Assumptions C08_decoders_agree.

(* The documented disagreement classes.
   (a) range-reject vs silent truncation of 32-bit fields *)
Theorem C08_disagree_u32_range : forall q num v, wf_payload q -> u32_field num -> two32 <= v -> v < two64 ->
  N.of_nat (length (details_enc q ++ field_varint num v)) < two64 ->
  let b := field_bytes f_details (details_enc q ++ field_varint num v) in
  unmarshal_payload b = None /\
  schema_decode b = Some (mkHs (Some (dset_of num (details_of_payload q) (v mod two32))) []).
Proof. exact disagree_u32_range. Qed.
Print Assumptions C08_disagree_u32_range.

(* (b) a wrong wire type on a field only the schema knows: skipped by the parser, refused by the generated code *)
Theorem C08_disagree_schema_only_fields : forall p m d x w rest, x < two64 -> N.of_nat (length w) < two64 ->
  (outer_step false p (field_varint f_hmac x ++ rest) = Some (p, rest) /\
   outer_step true p (field_varint f_hmac x ++ rest) = None /\
   schema_outer_step m (field_varint f_hmac x ++ rest) = None) /\
  (details_step false p (field_bytes f_cookie w ++ rest) = Some (p, rest) /\
   details_step true p (field_bytes f_cookie w ++ rest) = None /\
   schema_details_step d (field_bytes f_cookie w ++ rest) = None).
Proof. exact disagree_schema_only_fields. Qed.
Print Assumptions C08_disagree_schema_only_fields.

(* (c) varints of more than 64 bits, field numbers of 2^31 and above, mismatched group ends: refused by the
   parser (protowire), accepted by the generated code; witnesses *)
Theorem C08_disagree_witnesses :
  (let b := field_bytes f_details (tag_enc f_time wt_varint ++ [255; 255; 255; 255; 255; 255; 255; 255; 255; 2]) in
   unmarshal_payload b = None /\ schema_decode b = Some (mkHs (Some (mkDetails [] 0 0 0 9223372036854775807 0)) [])) /\
  (let b := field_bytes f_details (varint_enc ((4294967296 + 5) * 8) ++ [7]) in
   unmarshal_payload b = None /\ schema_decode b = Some (mkHs (Some (mkDetails [] 0 0 0 7 0)) [])) /\
  (let b := field_bytes f_details (tag_enc 9 wt_sgroup ++ tag_enc 10 wt_egroup ++ field_varint f_time 7) in
   unmarshal_payload b = None /\ schema_decode b = Some (mkHs (Some (mkDetails [] 0 0 0 7 0)) [])).
Proof. exact disagree_witnesses. Qed.
Print Assumptions C08_disagree_witnesses.

(* the hypotheses are satisfiable, and repeated fields follow last-wins / merge in both decoders *)
Example C08_nonvacuous :
  let p := mkPayload [1; 2; 3] 4294967295 7 18446744073709551615 2 in
  wf_payload p /\ unmarshal_payload (marshal_payload p) = Some p /\ unmarshal_strict (marshal_payload p) = Some p /\
  marshal_payload p = [10; 26; 10; 3; 1; 2; 3; 16; 255; 255; 255; 255; 15; 24; 7; 40; 255; 255; 255; 255; 255; 255; 255; 255; 255; 1; 64; 2] /\
  wf_msg (mkHs (Some (mkDetails [9] 1 0 77 5 2)) [8; 8]) /\
  unknown_details 9 /\ wf_value wt_varint (varint_enc 300).
Proof.
  cbv zeta. split; [|split; [|split; [|split; [|split; [|split]]]]].
  - unfold wf_payload. cbn. repeat split.
  - vm_compute. reflexivity.
  - vm_compute. reflexivity.
  - vm_compute. reflexivity.
  - unfold wf_msg, wf_details. cbn. repeat split.
  - unfold unknown_details, valid_num, max_field_number. repeat split; try discriminate.
  - constructor. reflexivity.
Qed.

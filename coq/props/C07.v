(* C07  A rejected handshake message never wedges the handshake.  Property theorems only.

   [process] is nebula's Machine.ProcessPacket (with the repair of F5) over the symbolic model of flynn/noise's
   ReadMessage / WriteMessage; a packet is ANY header flag/subtype plus ANY term as noise message: every prefix,
   truncation, corruption, splice or substitution, invalid and low-order ephemerals included.
   [mach_equiv m' m]: m' and m are the same machine except for noise fields that every IX message overwrites
   before reading them (re; and k, n, hasK while waiting for message 2) - lemma [read_canon]. *)
From Coq Require Import List NArith Bool.
Import ListNotations.
From NV Require Import lib.Sym model.Noise model.Machine proofs.Noise_c07.
Open Scope N_scope.

(* Every machine built by NewMachine and driven by any calls whatsoever is in a well-formed IX state. *)
Theorem C07_reachable_wf : forall m, reach m -> ix_wf (m_hs m).
Proof. exact reach_wf. Qed.
Print Assumptions C07_reachable_wf.

(* A message that is rejected while Failed() stays false leaves the machine unchanged on everything a later
   call can observe. *)
Theorem C07_unchanged : forall m p m',
  ix_wf (m_hs m) -> process m p = (m', Reject) -> m_failed m' = false -> mach_equiv m' m.
Proof. exact reject_unchanged. Qed.
Print Assumptions C07_unchanged.

(* Machines that are equivalent in that sense answer every packet identically: same error or same output packet
   and same Result (keys, indexes, certificate, message count), and stay equivalent. *)
Theorem C07_equiv_indistinguishable : forall m1 m2 g,
  ix_wf (m_hs m1) -> mach_equiv m1 m2 -> outcome_rel (process m1 g) (process m2 g).
Proof. exact process_congr. Qed.
Print Assumptions C07_equiv_indistinguishable.

(* Hence: after ANY number of rejected messages (Failed() false after each), the genuine message g is handled
   exactly as if none of them had ever arrived. *)
Theorem C07_as_if : forall m ps m' g,
  reach m -> rejected_run m ps m' ->
  snd (process m' g) = snd (process m g) /\ mach_equiv (fst (process m' g)) (fst (process m g)).
Proof. intros m ps m' g R RR. apply as_if_never_arrived with (ps := ps); [now apply reach_wf | exact RR]. Qed.
Print Assumptions C07_as_if.

(* Once failed, every later input is refused and nothing changes any more. *)
Theorem C07_failed_refuses : forall m,
  m_failed m = true -> (forall g, process m g = (m, Reject)) /\ initiate m = (m, Reject).
Proof. exact failed_refuses. Qed.
Print Assumptions C07_failed_refuses.

(* The "transcript hash moved" test of the repair is exact: a failed ReadMessage that left h alone left
   (ck, h, rs, e, s, turn, message index) alone. *)
Theorem C07_hash_test_sound : forall st msg st',
  ix_wf st -> read_message st msg = (st', RErr) -> term_eqb (hs_h st) (hs_h st') = true -> noise_equiv st' st.
Proof. exact read_err_equiv. Qed.
Print Assumptions C07_hash_test_sound.

(* Non-vacuity and the reproduced inputs of F5, on a concrete X25519 exchange.  Rejected but usable, and the genuine
   message 2 completes afterwards: header-only packet (empty noise message), cut inside the ephemeral (31 bytes), cut
   right after the encrypted static (80 bytes: nothing is left for the payload, AEAD refuses, rollback), cut inside
   the payload ciphertext, junk, too short for a header, wrong subtype.  Marked failed, every later packet
   refused: cut right after the ephemeral (32), the 40-byte prefix and a cut inside the encrypted static (79) -
   ErrShortMessage after `e` was hashed - and a small-order ephemeral (DH error).  [wedged_noise_state]: without the
   repair the noise state after the 40-byte prefix can no longer read the genuine message. *)
Example C07_nonvacuous :
  C07Ex.completes (snd (process C07Ex.mI1 C07Ex.msg2)) = true /\
  forallb C07Ex.usable_after
    [C07Ex.trunc C07Ex.msg2 0; C07Ex.trunc C07Ex.msg2 31; C07Ex.trunc C07Ex.msg2 80; C07Ex.trunc C07Ex.msg2 100;
     C07Ex.with_body C07Ex.msg2 (Junk 1 400); mkPkt true 0 0 0 Empty; mkPkt false 9 0 0 (pk_body C07Ex.msg2)] = true /\
  forallb C07Ex.failed_after
    [C07Ex.trunc C07Ex.msg2 32; C07Ex.trunc C07Ex.msg2 40; C07Ex.trunc C07Ex.msg2 79; C07Ex.zero_e C07Ex.msg2] = true /\
  C07Ex.wedged_noise_state = true.
Proof. vm_compute. repeat split; reflexivity. Qed.

(* Frame lemmas about the primitives of model/HostMap.v used by the handshake-manager proofs: which hostinfo
   records and which Indexes entries an operation can touch.  Nothing here depends on the HostMap invariant. *)
From Coq Require Import List NArith Bool Lia.
Import ListNotations.
From NV Require Import gen.Consts_HostMap model.HostMap proofs.HostMap_maps.
Open Scope N_scope.

(* [idx] may lose entries but gains none *)
Definition idx_sub (s s' : state) : Prop := forall i y, mget i (idx s') = Some y -> mget i (idx s) = Some y.

Lemma idx_sub_refl s : idx_sub s s.
Proof. intros i y E. exact E. Qed.

Lemma idx_sub_trans s1 s2 s3 : idx_sub s1 s2 -> idx_sub s2 s3 -> idx_sub s1 s3.
Proof. intros A B i y E. apply A, B, E. Qed.

(* ---------- setters ---------------------------------------------------------------------------------- *)

Lemma shfa_infos a l s : infos (set_hosts_for_addr a l s) = infos s.
Proof. unfold set_hosts_for_addr. destruct l as [|p [|q r]]; reflexivity. Qed.

Lemma shfa_idx a l s : idx (set_hosts_for_addr a l s) = idx s.
Proof. unfold set_hosts_for_addr. destruct l as [|p [|q r]]; reflexivity. Qed.

Lemma gmove_infos h g1 g2 s : infos (gmove h g1 g2 s) = infos s.
Proof. unfold gmove. destruct (mget h (gst s)) as [g|]; [destruct (hst_eqb g g1)|]; reflexivity. Qed.

Lemma gmove_idx h g1 g2 s : idx (gmove h g1 g2 s) = idx s.
Proof. unfold gmove. destruct (mget h (gst s)) as [g|]; [destruct (hst_eqb g g1)|]; reflexivity. Qed.

Lemma gmove_main h g1 g2 s :
  hosts (gmove h g1 g2 s) = hosts s /\ more (gmove h g1 g2 s) = more s /\ ridx (gmove h g1 g2 s) = ridx s /\
  rel (gmove h g1 g2 s) = rel s /\ pvpn (gmove h g1 g2 s) = pvpn s /\ pidx (gmove h g1 g2 s) = pidx s.
Proof. unfold gmove. destruct (mget h (gst s)) as [g|]; [destruct (hst_eqb g g1)|]; repeat split. Qed.

(* ---------- delete ----------------------------------------------------------------------------------- *)

Lemma del_addr_frame h a s f :
  infos (fst (del_addr h a (s, f))) = infos s /\ idx (fst (del_addr h a (s, f))) = idx s.
Proof.
  unfold del_addr. destruct (mget a (more s)) as [l|].
  - simpl. now rewrite shfa_infos, shfa_idx.
  - destruct (mget a (hosts s)) as [e|]; [destruct (e =? h)|]; split; reflexivity.
Qed.

Lemma del_addrs_frame h addrs : forall sf,
  infos (fst (del_addrs h addrs sf)) = infos (fst sf) /\ idx (fst (del_addrs h addrs sf)) = idx (fst sf).
Proof.
  induction addrs as [|a r IH]; intros [s f]; cbn [del_addrs fst]; [split; reflexivity|].
  destruct (IH (del_addr h a (s, f))) as [A B]. destruct (del_addr_frame h a s f) as [C D].
  rewrite A, B. split; assumption.
Qed.

Lemma delete_hi_infos h s : infos (fst (delete_hi h s)) = infos s.
Proof.
  unfold delete_hi. destruct (mget h (infos s)) as [hi|]; [|reflexivity].
  destruct (del_addrs h (hi_addrs hi) (s, true)) as [s1 f] eqn:E.
  pose proof (del_addrs_frame h (hi_addrs hi) (s, true)) as [A _]. rewrite E in A. simpl in A.
  simpl. rewrite gmove_infos. simpl. unfold del_idx, del_ridx.
  repeat match goal with |- context [if ?c then _ else _] => destruct c end; simpl; exact A.
Qed.

Lemma delete_hi_idx_sub h s : idx_sub s (fst (delete_hi h s)).
Proof.
  unfold delete_hi. destruct (mget h (infos s)) as [hi|]; [|apply idx_sub_refl].
  destruct (del_addrs h (hi_addrs hi) (s, true)) as [s1 f] eqn:E.
  pose proof (del_addrs_frame h (hi_addrs hi) (s, true)) as [_ B]. rewrite E in B. simpl in B.
  intros i y. simpl. rewrite gmove_idx. simpl. unfold del_idx, del_ridx.
  repeat match goal with |- context [if ?c then _ else _] => destruct c end; simpl; rewrite ?B; try tauto;
    intros X; apply mget_mdel_some in X; tauto.
Qed.

(* ---------- add -------------------------------------------------------------------------------------- *)

Lemma inner_add_frame h a s : infos (inner_add h a s) = infos s /\ idx_sub s (inner_add h a s).
Proof.
  unfold inner_add. destruct (mget a (hosts s)) as [e|]; [|split; [reflexivity|intros i y E; exact E]].
  set (l := h :: remove_first h _). set (s1 := set_hosts_for_addr a l s).
  assert (A : infos s1 = infos s) by apply shfa_infos.
  assert (B : idx s1 = idx s) by apply shfa_idx.
  destruct (MaxHostInfosPerVpnIp <? N.of_nat (length l)).
  - destruct (last_opt l) as [o|].
    + split; [now rewrite delete_hi_infos|].
      intros i y E. apply delete_hi_idx_sub in E. now rewrite B in E.
    + split; [assumption|]. intros i y. now rewrite B.
  - split; [assumption|]. intros i y. now rewrite B.
Qed.

Lemma inner_adds_frame h addrs : forall s, infos (inner_adds h addrs s) = infos s /\ idx_sub s (inner_adds h addrs s).
Proof.
  induction addrs as [|a r IH]; intros s; simpl; [split; [reflexivity|apply idx_sub_refl]|].
  destruct (IH (inner_add h a s)) as [A B]. destruct (inner_add_frame h a s) as [C D].
  split; [congruence|]. eapply idx_sub_trans; eauto.
Qed.

Lemma add_hi_frame h s hi :
  mget h (infos s) = Some hi ->
  infos (add_hi h s) = infos s /\
  mget (hi_local hi) (idx (add_hi h s)) = Some h /\
  (forall i y, mget i (idx (add_hi h s)) = Some y -> y = h \/ mget i (idx s) = Some y).
Proof.
  intros HI. unfold add_hi. rewrite HI.
  destruct (inner_adds_frame h (hi_addrs hi) (gset h Adding s)) as [A B].
  set (s1 := inner_adds h (hi_addrs hi) (gset h Adding s)) in *.
  simpl. split; [exact A|]. split; [apply mget_mset_eq|].
  intros i y. rewrite mget_mset. destruct (N.eqb_spec i (hi_local hi)) as [->|NE].
  - intros E. inversion E. now left.
  - intros E. right. apply B in E. exact E.
Qed.

(* ---------- promote ---------------------------------------------------------------------------------- *)

Lemma promote_addrs_frame h addrs : forall s,
  infos (promote_addrs h addrs s) = infos s /\ idx (promote_addrs h addrs s) = idx s.
Proof.
  induction addrs as [|a r IH]; intros s; simpl; [split; reflexivity|].
  destruct (IH (promote_addr h a s)) as [A B]. rewrite A, B. unfold promote_addr.
  destruct (is_some_id (mget a (hosts s)) h); [split; reflexivity|]. now rewrite shfa_infos, shfa_idx.
Qed.

Lemma make_primary_frame h s :
  infos (fst (make_primary h s)) = infos s /\ idx (fst (make_primary h s)) = idx s.
Proof.
  unfold make_primary. destruct (mget h (infos s)) as [hi|]; [|split; reflexivity].
  destruct (is_some_id _ _); [|split; reflexivity]. apply promote_addrs_frame.
Qed.

(* ---------- relays ----------------------------------------------------------------------------------- *)

Lemma add_relay_loop_frame fuel h : forall cs s,
  idx (fst (add_relay_loop fuel h cs s)) = idx s /\
  (forall y, y <> h -> mget y (infos (fst (add_relay_loop fuel h cs s))) = mget y (infos s)) /\
  (forall hi, mget h (infos s) = Some hi ->
     exists hi', mget h (infos (fst (add_relay_loop fuel h cs s))) = Some hi' /\
                 hi_addrs hi' = hi_addrs hi /\ hi_local hi' = hi_local hi) /\
  (mget h (infos s) = None -> mget h (infos (fst (add_relay_loop fuel h cs s))) = None).
Proof.
  induction fuel as [|fuel IH]; intros cs s; simpl.
  { split; [reflexivity|]. split; [reflexivity|]. split; [intros hi E; exists hi; auto|auto]. }
  destruct (gen_index cs) as [[i cs']|].
  2:{ split; [reflexivity|]. split; [reflexivity|]. split; [intros hi E; exists hi; auto|auto]. }
  destruct (mget i (rel s)); [apply IH|].
  destruct (make_primary h s) as [s1 ok] eqn:MP.
  pose proof (make_primary_frame h s) as [A B]. rewrite MP in A, B. simpl in A, B.
  destruct ok.
  - destruct (mget h (infos s1)) as [hi1|] eqn:H1; simpl.
    + split; [exact B|]. split.
      * intros y NE. rewrite mget_mset. destruct (N.eqb_spec y h); [contradiction|]. now rewrite A.
      * split.
        -- intros hi E. rewrite A in H1. rewrite E in H1. inversion H1; subst hi1.
           eexists. split; [apply mget_mset_eq|]. split; reflexivity.
        -- intros E. rewrite A in H1. congruence.
    + split; [exact B|]. split; [intros; now rewrite A|]. split.
      * intros hi E. rewrite A in H1. congruence.
      * intros _. exact H1.
  - simpl. split; [exact B|]. split; [intros; now rewrite A|]. split.
    + intros hi E. exists hi. rewrite A. auto.
    + intros E. now rewrite A.
Qed.

(* ---------- pending hostmap -------------------------------------------------------------------------- *)

Lemma pend_unlink_frame h s :
  infos (pend_unlink h s) = infos s /\ idx (pend_unlink h s) = idx s /\ hosts (pend_unlink h s) = hosts s /\
  more (pend_unlink h s) = more s /\ ridx (pend_unlink h s) = ridx s /\ rel (pend_unlink h s) = rel s.
Proof.
  unfold pend_unlink. destruct (mget h (infos s)) as [hi|]; [|repeat split].
  destruct (is_some_id _ _); repeat split.
Qed.

Lemma pend_delete_frame h s :
  infos (pend_delete h s) = infos s /\ idx (pend_delete h s) = idx s /\ hosts (pend_delete h s) = hosts s /\
  more (pend_delete h s) = more s /\ ridx (pend_delete h s) = ridx s /\ rel (pend_delete h s) = rel s.
Proof.
  unfold pend_delete. destruct (pend_unlink_frame h s) as (A & B & C & D & E & F).
  destruct (gmove_main h Pend Dead (pend_unlink h s)) as (G1 & G2 & G3 & G4 & _).
  rewrite gmove_infos, gmove_idx, G1, G2, G3, G4. repeat split; assumption.
Qed.

Lemma start_frame id a s :
  let s' := fst (start id a s) in
  idx s' = idx s /\ hosts s' = hosts s /\ more s' = more s /\ ridx s' = ridx s /\ rel s' = rel s /\
  pidx s' = pidx s /\
  (forall y, y <> id -> mget y (infos s') = mget y (infos s)).
Proof.
  unfold start. destruct (mget a (pvpn s)); simpl; repeat split; try reflexivity.
  intros y NE. rewrite mget_mset. destruct (N.eqb_spec y id); [contradiction|reflexivity].
Qed.

Lemma alloc_loop_free fuel : forall cs s i, alloc_loop fuel cs s = Some i -> mget i (idx s) = None /\ i <> 0.
Proof.
  induction fuel as [|fuel IH]; intros cs s i; cbn [alloc_loop]; [discriminate|].
  destruct (gen_index cs) as [[j cs']|] eqn:GI; [|discriminate].
  destruct (mget j (pidx s)); [apply IH|]. destruct (mget j (idx s)) eqn:E2; [apply IH|].
  intros X. inversion X; subst. split; [assumption|]. eapply gen_index_nonzero; eauto.
Qed.

Lemma alloc_frame id cs s :
  let s' := fst (alloc id cs s) in
  idx s' = idx s /\ hosts s' = hosts s /\ more s' = more s /\ ridx s' = ridx s /\ rel s' = rel s /\
  (forall y, y <> id -> mget y (infos s') = mget y (infos s)) /\
  (forall hi, mget id (infos s) = Some hi ->
     exists hi', mget id (infos s') = Some hi' /\ hi_addrs hi' = hi_addrs hi /\
       (hi' = hi \/ (mget (hi_local hi') (idx s) = None /\ hi_local hi' <> 0))).
Proof.
  unfold alloc. destruct (mget id (infos s)) as [hi|] eqn:HI.
  2:{ cbn [fst]. repeat split; try reflexivity. intros hi E. discriminate. }
  generalize (alloc_loop_free alloc_tries cs s).
  destruct (alloc_loop alloc_tries cs s) as [i|]; intros G; cbn [fst].
  - cbn [set_pidx set_infos idx hosts more ridx rel infos]. repeat split; try reflexivity.
    + intros y NE. rewrite mget_mset. destruct (N.eqb_spec y id); [contradiction|reflexivity].
    + intros hi0 E. inversion E; subst hi0. eexists. split; [apply mget_mset_eq|]. split; [reflexivity|].
      right. cbn [with_local hi_local]. now apply G.
  - repeat split; try reflexivity. intros hi0 E. inversion E; subst hi0. exists hi. rewrite HI. auto.
Qed.

Lemma complete_frame h addrs remote s hi :
  mget h (infos s) = Some hi ->
  let s' := complete h addrs remote s in
  (forall y, y <> h -> mget y (infos s') = mget y (infos s)) /\
  mget h (infos s') = Some (mkHI addrs (hi_local hi) remote (hi_relays hi)) /\
  mget (hi_local hi) (idx s') = Some h /\
  (forall i y, mget i (idx s') = Some y -> y = h \/ mget i (idx s) = Some y).
Proof.
  intros HI. unfold complete. rewrite HI.
  set (hx := mkHI addrs (hi_local hi) remote (hi_relays hi)).
  set (sa := set_infos s (mset h hx (infos s))).
  destruct (pend_unlink_frame h sa) as (A & B & _).
  assert (HU : mget h (infos (pend_unlink h sa)) = Some hx) by (rewrite A; unfold sa; simpl; apply mget_mset_eq).
  destruct (add_hi_frame h (pend_unlink h sa) hx HU) as (C & D & E).
  simpl. split; [|split; [|split]].
  - intros y NE. rewrite C, A. unfold sa. simpl. rewrite mget_mset. destruct (N.eqb_spec y h); [contradiction|reflexivity].
  - rewrite C. exact HU.
  - exact D.
  - intros i y X. apply E in X as [X|X]; [now left|right]. rewrite B in X. exact X.
Qed.

Lemma resp_frame id addrs remote cs s :
  let s' := fst (resp id addrs remote cs s) in
  (forall y, y <> id -> mget y (infos s') = mget y (infos s)) /\
  (forall i y, mget i (idx s') = Some y -> y = id \/ mget i (idx s) = Some y) /\
  (forall i r, gen_index cs = Some (i, r) -> mget id (infos s') = Some (mkHI addrs i remote [])) /\
  (forall i r, gen_index cs = Some (i, r) -> mget i (idx s) = None -> mget i (pidx s) = None ->
     mget i (idx s') = Some id).
Proof.
  unfold resp. destruct (gen_index cs) as [[i cs']|]; simpl.
  2:{ split; [reflexivity|]. split; [auto|]. split; intros; discriminate. }
  set (hx := mkHI addrs i remote []). set (s0 := set_infos s (mset id hx (infos s))).
  assert (O : forall y, y <> id -> mget y (infos s0) = mget y (infos s)).
  { intros y NE. unfold s0. simpl. rewrite mget_mset. destruct (N.eqb_spec y id); [contradiction|reflexivity]. }
  assert (H0 : mget id (infos s0) = Some hx) by (unfold s0; simpl; apply mget_mset_eq).
  destruct (add_hi_frame id s0 hx H0) as (C & D & E).
  change (idx s0) with (idx s). change (pidx s0) with (pidx s).
  destruct (mget i (idx s)) eqn:EX; [|destruct (mget i (pidx s)) eqn:EP]; simpl.
  - split; [exact O|]. split; [auto|]. split; [intros j r X; inversion X; subst; exact H0|]. intros j r X Y. inversion X; subst. congruence.
  - split; [exact O|]. split; [auto|]. split; [intros j r X; inversion X; subst; exact H0|]. intros j r X Y Z. inversion X; subst. congruence.
  - split; [intros y NE; rewrite C; now apply O|]. split; [exact E|].
    split; [intros j r X; inversion X; subst; rewrite C; exact H0|]. intros j r X _ _. inversion X; subst. exact D.
Qed.

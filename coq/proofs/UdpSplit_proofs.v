(* Lemmas about model/UdpSplit.v (deliverSegments, parseRecvCmsg). *)
From Coq Require Import List NArith ZArith Lia Bool Arith.
Import ListNotations.
From NV Require Import lib.Bytes gen.Consts_UdpSplit model.UdpSplit.
Open Scope N_scope.

(* ---------------------------------------------------------------------------------------------- *)
(* deliverSegments                                                                                  *)

(* all pieces have length seg, except the last which has 1..seg bytes *)
Inductive shape (seg : nat) : list (list N) -> Prop :=
| shape_nil : shape seg []
| shape_last x : (0 < length x <= seg)%nat -> shape seg [x]
| shape_cons x r : length x = seg -> r <> [] -> shape seg r -> shape seg (x :: r).

Lemma seg_loop_end fuel p off seg : (length p <= off)%nat -> seg_loop fuel p off seg = Some [].
Proof.
  intros H. destruct fuel; cbn [seg_loop];
    destruct (off <? length p)%nat eqn:E; try reflexivity; apply Nat.ltb_lt in E; lia.
Qed.

Lemma skipn_add {A} (l : list A) a b : skipn (a + b) l = skipn b (skipn a l).
Proof.
  revert l; induction a as [|a IH]; intros l; [reflexivity|].
  destruct l as [|x l]; cbn [Nat.add skipn]; [now destruct b|apply IH].
Qed.

Lemma seg_loop_ok : forall fuel p off seg,
  (0 < seg)%nat -> (length p - off <= fuel)%nat ->
  exists pcs, seg_loop fuel p off seg = Some pcs /\ concat pcs = skipn off p /\ shape seg pcs /\
              ((off < length p)%nat -> pcs <> []).
Proof.
  induction fuel as [|f IH]; intros p off seg Hseg Hfuel.
  - rewrite seg_loop_end by lia. exists []. repeat split; [|constructor|lia].
    cbn [concat]. symmetry. apply skipn_all2. lia.
  - cbn [seg_loop]. destruct (off <? length p)%nat eqn:Elt.
    2:{ apply Nat.ltb_ge in Elt. exists []. repeat split; [|constructor|lia].
        cbn [concat]. symmetry. apply skipn_all2. lia. }
    apply Nat.ltb_lt in Elt.
    destruct (IH p (off + seg)%nat seg Hseg ltac:(lia)) as (r & Er & Cr & Sr & Nr).
    rewrite Er.
    assert (Lsk : length (skipn off p) = (length p - off)%nat) by apply skipn_length.
    destruct (length p <? off + seg)%nat eqn:Eend.
    + (* the last, possibly shorter piece *)
      apply Nat.ltb_lt in Eend.
      rewrite seg_loop_end in Er by lia. inversion Er; subst r.
      exists [slice p off (length p - off)]. unfold slice.
      rewrite firstn_all2 by lia.
      repeat split.
      * cbn [concat]. apply app_nil_r.
      * apply shape_last. lia.
      * discriminate.
    + apply Nat.ltb_ge in Eend.
      replace (off + seg - off)%nat with seg by lia.
      eexists. split; [reflexivity|]. unfold slice.
      assert (Lx : length (firstn seg (skipn off p)) = seg) by (rewrite firstn_length; lia).
      repeat split.
      * cbn [concat]. rewrite Cr, skipn_add. apply firstn_skipn.
      * destruct (Nat.eq_dec (off + seg) (length p)) as [Eq|Ne].
        -- rewrite seg_loop_end in Er by lia. inversion Er; subst r.
           apply shape_last. lia.
        -- apply shape_cons; [exact Lx| apply Nr; lia | exact Sr].
      * discriminate.
Qed.

Lemma shape_decomp seg pcs : shape seg pcs -> pcs <> [] ->
  exists init lst, pcs = init ++ [lst] /\ Forall (fun x => length x = seg) init /\ (0 < length lst <= seg)%nat.
Proof.
  induction 1 as [|x Hx|x r Hx Hr Hs IH]; intros Hne.
  - congruence.
  - exists [], x. repeat split; [constructor|lia|lia].
  - destruct (IH Hr) as (init & lst & E & F & L). subst r.
    exists (x :: init), lst. repeat split; [constructor; assumption|lia|lia].
Qed.

(* 0 < seg < |p| : consecutive pieces of exactly seg bytes, the last one 1..seg bytes, together exactly p *)
Lemma split_exact : forall p seg, (0 < seg < Z.of_nat (length p))%Z ->
  exists init lst,
    deliver_segments p seg = Some (init ++ [lst]) /\
    concat (init ++ [lst]) = p /\
    Forall (fun x => Z.of_nat (length x) = seg) init /\
    (0 < Z.of_nat (length lst) <= seg)%Z /\
    Forall (fun x => x <> []) (init ++ [lst]).
Proof.
  intros p seg [H0 H1]. unfold deliver_segments.
  replace (seg <=? 0)%Z with false by (symmetry; apply Z.leb_gt; lia).
  replace (Z.of_nat (length p) <=? seg)%Z with false by (symmetry; apply Z.leb_gt; lia).
  cbn [orb].
  destruct (seg_loop_ok (length p) p 0 (Z.to_nat seg) ltac:(lia) ltac:(lia)) as (pcs & E & C & S & Ne).
  destruct (shape_decomp _ _ S (Ne ltac:(lia))) as (init & lst & -> & F & L).
  exists init, lst. rewrite E. cbn [skipn] in C.
  assert (F' : Forall (fun x : list N => Z.of_nat (length x) = seg) init).
  { eapply Forall_impl; [|exact F]. cbv beta. intros a Ha. lia. }
  repeat split; try assumption; try lia.
  apply Forall_app. split.
  - eapply Forall_impl; [|exact F]. cbv beta. intros a Ha ->. cbn [length] in Ha. lia.
  - constructor; [|constructor]. intros ->. cbn [length] in L. lia.
Qed.

(* a missing (0), negative, or too large (>= |p|) size delivers the datagram whole, once *)
Lemma split_whole : forall p seg, (seg <= 0 \/ Z.of_nat (length p) <= seg)%Z -> deliver_segments p seg = Some [p].
Proof.
  intros p seg H. unfold deliver_segments.
  destruct (seg <=? 0)%Z eqn:E1; [reflexivity|].
  destruct (Z.of_nat (length p) <=? seg)%Z eqn:E2; [reflexivity|].
  apply Z.leb_gt in E1. apply Z.leb_gt in E2. lia.
Qed.

(* the empty datagram is delivered as one empty piece whatever the size says *)
Lemma split_empty : forall seg, deliver_segments [] seg = Some [[]].
Proof. intros seg. apply split_whole. cbn [length]. lia. Qed.

(* for every payload and every size: the loop ends and what is delivered is exactly the received bytes *)
Lemma split_total : forall p seg, exists pieces, deliver_segments p seg = Some pieces /\ concat pieces = p /\ pieces <> [].
Proof.
  intros p seg.
  destruct (Z_lt_le_dec 0 seg) as [H0|H0]; [destruct (Z_lt_le_dec seg (Z.of_nat (length p))) as [H1|H1]|].
  - destruct (split_exact p seg (conj H0 H1)) as (init & lst & E & C & _).
    exists (init ++ [lst]). repeat split; try assumption. intros X. apply app_eq_nil in X. destruct X; discriminate.
  - exists [p]. rewrite split_whole by lia. cbn [concat]. rewrite app_nil_r. repeat split. discriminate.
  - exists [p]. rewrite split_whole by lia. cbn [concat]. rewrite app_nil_r. repeat split. discriminate.
Qed.

(* ---------------------------------------------------------------------------------------------- *)
(* parseRecvCmsg: every read is inside the buffer, and the walk ends                                *)

Lemma rd_in buf i : i < N.of_nat (length buf) -> snd (rd buf i) = false.
Proof.
  intros H. unfold rd. destruct (nth_error buf (N.to_nat i)) eqn:E; [reflexivity|].
  apply nth_error_None in E. lia.
Qed.

Lemma rd_bytes_in buf : forall k off, off + N.of_nat k <= N.of_nat (length buf) -> snd (rd_bytes buf off k) = false.
Proof.
  induction k as [|k IH]; intros off H; [reflexivity|].
  cbn [rd_bytes].
  pose proof (rd_in buf off ltac:(lia)) as H1.
  pose proof (IH (off + 1) ltac:(lia)) as H2.
  destruct (rd buf off) as [b o]. destruct (rd_bytes buf (off + 1) k) as [r o'].
  cbn [snd] in *. subst. reflexivity.
Qed.

Lemma rd_uint_in buf off k : off + k <= N.of_nat (length buf) -> snd (rd_uint buf off k) = false.
Proof.
  intros H. unfold rd_uint.
  pose proof (rd_bytes_in buf (N.to_nat k) off ltac:(lia)) as H1.
  destruct (rd_bytes buf off (N.to_nat k)) as [bs o]. cbn [snd] in *. exact H1.
Qed.

(* what the proof needs from the generated layout constants *)
Lemma k_hdr : us_sizeof_cmsghdr = 16.           Proof. reflexivity. Qed.
Lemma k_len : us_len_width <= us_sizeof_cmsghdr. Proof. vm_compute; discriminate. Qed.
Lemma k_lvl : us_level_off + us_level_width <= us_sizeof_cmsghdr. Proof. vm_compute; discriminate. Qed.
Lemma k_typ : us_type_off + us_type_width <= us_sizeof_cmsghdr.   Proof. vm_compute; discriminate. Qed.
Lemma k_space n : 16 <= cmsg_space n.
Proof. unfold cmsg_space. change (cmsg_align us_sizeof_cmsghdr) with 16. lia. Qed.

Lemma walk_ok : forall fuel buf off gso,
  (1 <= fuel)%nat -> N.of_nat (length buf) < 16 * N.of_nat fuel + off ->
  exists g, walk fuel buf off gso false = Some (g, false).
Proof.
  induction fuel as [|f IH]; intros buf off gso Hf Hm; [lia|].
  cbn [walk].
  pose proof k_hdr as Kh. pose proof k_len as Kl. pose proof k_lvl as Kv. pose proof k_typ as Kt.
  destruct (off + us_sizeof_cmsghdr <=? N.of_nat (length buf)) eqn:Ehdr.
  2:{ eexists; reflexivity. }
  apply N.leb_le in Ehdr.
  pose proof (rd_uint_in buf off us_len_width ltac:(lia)) as R1.
  destruct (rd_uint buf off us_len_width) as [rawlen o1]. cbn [snd] in R1. subst o1.
  cbn [orb].
  destruct ((to_signed us_int_bits rawlen <? Z.of_N us_sizeof_cmsghdr)%Z
            || (Z.of_N (N.of_nat (length buf) - off) <? to_signed us_int_bits rawlen)%Z)%bool.
  { eexists; reflexivity. }
  pose proof (rd_uint_in buf (off + us_level_off) us_level_width ltac:(lia)) as R2.
  destruct (rd_uint buf (off + us_level_off) us_level_width) as [lvl o2]. cbn [snd] in R2. subst o2.
  set (off' := off + cmsg_space _).
  assert (Hoff : off + 16 <= off') by (subst off'; pose proof (k_space (Z.to_N (to_signed us_int_bits rawlen - Z.of_N (cmsg_len 0)))); lia).
  assert (Hf' : (1 <= f)%nat) by lia.
  assert (Hm' : N.of_nat (length buf) < 16 * N.of_nat f + off') by lia.
  destruct (lvl =? us_sol_udp).
  2:{ cbn [orb]. apply IH; assumption. }
  pose proof (rd_uint_in buf (off + us_type_off) us_type_width ltac:(lia)) as R3.
  destruct (rd_uint buf (off + us_type_off) us_type_width) as [typ o3]. cbn [snd] in R3. subst o3.
  destruct (typ =? us_udp_gro).
  2:{ cbn [orb]. apply IH; assumption. }
  destruct (off + cmsg_len 0 + us_gro_payload <=? N.of_nat (length buf)) eqn:Edata.
  2:{ cbn [orb]. apply IH; assumption. }
  apply N.leb_le in Edata.
  pose proof (rd_uint_in buf (off + cmsg_len 0) us_gro_payload Edata) as R4.
  destruct (rd_uint buf (off + cmsg_len 0) us_gro_payload) as [v o4]. cbn [snd] in R4. subst o4.
  cbn [orb]. apply IH; assumption.
Qed.

(* for EVERY buffer: the walk terminates within the fuel given and no read was outside the buffer *)
Lemma parse_in_bounds : forall buf, exists g, parse_recv_cmsg buf = Some (g, false).
Proof.
  intros buf. unfold parse_recv_cmsg.
  destruct (N.of_nat (length buf) <? us_sizeof_cmsghdr) eqn:E; [eexists; reflexivity|].
  apply N.ltb_ge in E. rewrite k_hdr in E.
  apply walk_ok; lia.
Qed.

(* the accessor is not vacuous: a read outside is recorded *)
Lemma rd_out buf i : N.of_nat (length buf) <= i -> rd buf i = (0, true).
Proof.
  intros H. unfold rd. destruct (nth_error buf (N.to_nat i)) eqn:E; [|reflexivity].
  assert (nth_error buf (N.to_nat i) <> None) as X by congruence. apply nth_error_Some in X. lia.
Qed.

(* whatever the ancillary data says, the bytes handed on are exactly the bytes received *)
Lemma recv_exact : forall buf p, exists g pieces,
  parse_recv_cmsg buf = Some (g, false) /\ deliver_segments p g = Some pieces /\ concat pieces = p.
Proof.
  intros buf p. destruct (parse_in_bounds buf) as (g & Eg).
  destruct (split_total p g) as (pieces & E & C & _). exists g, pieces. auto.
Qed.

(* Csum_gvisor: the model of gvisor's checksum.Checksum (the fallback of the dispatcher) returns the RFC 1071
   value for every buffer, every seed and every start-address alignment - no length bound, because all adds
   after the alignment prologue carry end-around. *)
From Coq Require Import List Arith NArith ZArith Lia Bool ZifyN ZifyNat ZifyBool.
Import ListNotations.
From NV Require Import lib.Bytes lib.Ones model.Csum proofs.Csum_proofs.
Open Scope N_scope.
Local Ltac Zify.zify_post_hook ::= Z.div_mod_to_equations.

(* ---------------------------------------------------------------------------------------------- *)
(** * bits.Add64 chains *)

(* a carry is pending only on an accumulator that still has room for it *)
Definition CI (a c : N) : Prop := a < M64 /\ c <= 1 /\ (c = 1 -> a + 1 < M64).

Lemma add64c_step a c y :
  CI a c -> y < M64 ->
  CI (fst (add64c a y c)) (snd (add64c a y c)) /\
  (fst (add64c a y c) + snd (add64c a y c)) mod 65535 = (a + c + y) mod 65535 /\
  (fst (add64c a y c) + snd (add64c a y c) = 0 <-> a + c + y = 0).
Proof.
  unfold CI, add64c. cbn [fst snd]. rewrite wrap64_w64, carry64_div. unfold w64, M64. intros (Ha & Hc & Hr) Hy.
  set (s := a + y + c).
  assert (Hs : s = a + y + c) by reflexivity. clearbody s.
  assert (Hq : s / 18446744073709551616 <= 1) by lia.
  repeat split; try lia.
Qed.

Lemma chain_fold ws : forall a c,
  CI a c -> Forall (fun w => w < M64) ws ->
  let st := fold_left (fun st w => add64c (fst st) w (snd st)) ws (a, c) in
  CI (fst st) (snd st) /\
  (fst st + snd st) mod 65535 = (a + c + lsum ws) mod 65535 /\
  (fst st + snd st = 0 <-> a + c + lsum ws = 0).
Proof.
  induction ws as [|w ws IH]; intros a c HC HF; cbn [fold_left].
  - cbv zeta. cbn [fst snd lsum fold_right]. rewrite N.add_0_r. repeat split; try apply HC; tauto.
  - inversion HF as [|? ? Hw HF']; subst.
    destruct (add64c_step a c w HC Hw) as (HC1 & M1 & Z1).
    cbn [fst snd]. destruct (add64c a w c) as [a1 c1] eqn:E. cbn [fst snd] in *.
    specialize (IH a1 c1 HC1 HF'). cbv zeta in IH. destruct IH as (HC2 & M2 & Z2).
    cbv zeta. rewrite lsum_cons. repeat split; try apply HC2.
    + rewrite M2. clear - M1. lia.
    + intros H. apply Z2 in H. lia.
    + intros H. apply Z2. lia.
Qed.

Lemma add_chain_Rax a S ws p :
  Rax a S -> Forall (fun w => w < M64) ws -> rel (lsum ws) p -> Rax (add_chain a ws) (S + sum16le p).
Proof.
  intros (Ha & Hm & Hz) HF [Rm Rz]. unfold add_chain.
  assert (HC : CI a 0) by (unfold CI; repeat split; lia).
  pose proof (chain_fold ws a 0 HC HF) as H. cbv zeta in H.
  destruct (fold_left (fun st w => add64c (fst st) w (snd st)) ws (a, 0)) as [a1 c1].
  cbn [fst snd] in *. destruct H as ((Ha1 & Hc1 & Hr1) & M1 & Z1).
  unfold add64c. cbn [fst]. rewrite wrap64_w64, N.add_0_r.
  assert (Hlt : a1 + c1 < M64) by (unfold M64 in *; lia).
  unfold w64. fold M64. rewrite N.mod_small by exact Hlt.
  unfold Rax. split; [exact Hlt|]. split; [clear - M1 Hm Rm; lia|clear - Z1 Hz Rz; lia].
Qed.

(* ---------------------------------------------------------------------------------------------- *)
(** * loads *)

Lemma words64_Forall cnt : forall l, (8 * cnt <= length l)%nat -> bytes_ok l = true ->
  Forall (fun w => w < M64) (map le_val (blocks 8 cnt l)).
Proof.
  induction cnt as [|c IH]; intros l Hlen Hok; cbn [blocks map]; constructor.
  - apply le_val_lt64; [rewrite firstn_length; lia|apply bytes_ok_firstn; exact Hok].
  - apply IH; [rewrite skipn_length; lia|apply bytes_ok_skipn; exact Hok].
Qed.

Lemma words64_block p w :
  length p = (8 * w)%nat -> bytes_ok p = true ->
  rel (lsum (words64 p)) p /\ Forall (fun x => x < M64) (words64 p).
Proof.
  intros Hlen Hok. unfold words64.
  assert (E : (length p / 8)%nat = w) by (rewrite Hlen; lia). rewrite E.
  assert (HF : forall q, length q = 8%nat -> bytes_ok q = true -> rel (le_val q) q /\ le_val q <= M64).
  { intros q Hq Hqo. split; [apply rel_le_val|]. apply N.lt_le_incl. apply le_val_lt64; [lia|exact Hqo]. }
  destruct (blocks_sum_rel le_val 8 M64 eq_refl HF w p ltac:(lia) Hok) as [R _].
  rewrite <- Hlen, firstn_all in R. split; [exact R|]. apply words64_Forall; [lia|exact Hok].
Qed.

Lemma step_chain64 w a S p :
  Rax a S -> length p = (8 * w)%nat -> bytes_ok p = true -> Rax (add_chain a (words64 p)) (S + sum16le p).
Proof.
  intros HR Hl Hok. destruct (words64_block p w Hl Hok) as [R F]. now apply add_chain_Rax.
Qed.

Lemma step_single a S p :
  Rax a S -> (length p <= 8)%nat -> bytes_ok p = true -> Rax (add_chain a [le_val p]) (S + sum16le p).
Proof.
  intros HR Hl Hok. apply add_chain_Rax; [exact HR| |].
  - constructor; [now apply le_val_lt64|constructor].
  - cbn [lsum fold_right]. rewrite N.add_0_r. apply rel_le_val.
Qed.

(* ---------------------------------------------------------------------------------------------- *)
(** * loops and conditional stages *)

Lemma loop_inv (step : N -> list N -> N) (k : nat) :
  Nat.even k = true ->
  (forall a T p, Rax a T -> length p = k -> bytes_ok p = true -> Rax (step a p) (T + sum16le p)) ->
  forall cnt l a T, Rax a T -> (k * cnt <= length l)%nat -> bytes_ok l = true ->
    Rax (fold_left step (blocks k cnt l) a) (T + sum16le (firstn (k * cnt) l)).
Proof.
  intros Hk Hstep. induction cnt as [|c IH]; intros l a T HR Hlen Hok.
  - cbn [blocks fold_left]. rewrite Nat.mul_0_r. cbn [firstn sum16le]. rewrite N.add_0_r. exact HR.
  - cbn [blocks fold_left].
    assert (Hl1 : length (firstn k l) = k) by (apply firstn_length_le; lia).
    eapply Rax_ext.
    + apply IH.
      * apply (Hstep a T (firstn k l) HR Hl1). apply bytes_ok_firstn; exact Hok.
      * rewrite skipn_length. lia.
      * apply bytes_ok_skipn; exact Hok.
    + replace (k * S c)%nat with (k + k * c)%nat by lia. rewrite firstn_plus.
      rewrite sum16le_app by (rewrite Hl1; exact Hk). lia.
Qed.

(* accumulator stands for T, what is left to sum is (snd st), fewer than L bytes *)
Definition InvL (st : N * list N) (Tot : N) (L : nat) : Prop :=
  exists T, Rax (fst st) T /\ T + sum16le (snd st) = Tot /\ bytes_ok (snd st) = true /\ (length (snd st) < L)%nat.

Lemma take_stage k st Tot f :
  Nat.even k = true \/ k = 1%nat ->
  (forall a T p, Rax a T -> length p = k -> bytes_ok p = true -> Rax (f a p) (T + sum16le p)) ->
  InvL st Tot (2 * k) -> InvL (gv_take (k <=? length (snd st))%nat k st f) Tot k.
Proof.
  intros Hk Hf (T & HR & HT & Hok & HL). unfold gv_take.
  destruct (Nat.leb_spec k (length (snd st))) as [Hc|Hc].
  - assert (Hl1 : length (firstn k (snd st)) = k) by (apply firstn_length_le; lia).
    assert (Hsplit : sum16le (snd st) = sum16le (firstn k (snd st)) + sum16le (skipn k (snd st))).
    { destruct Hk as [Hk|Hk].
      - apply sum16le_split; exact Hk.
      - rewrite firstn_all2, skipn_all2 by lia. cbn [sum16le]. lia. }
    exists (T + sum16le (firstn k (snd st))). cbn [fst snd].
    split; [apply Hf; [exact HR|exact Hl1|apply bytes_ok_firstn; exact Hok]|].
    split; [lia|]. split; [apply bytes_ok_skipn; exact Hok|rewrite skipn_length; lia].
  - exists T. split; [exact HR|]. split; [exact HT|]. split; [exact Hok|lia].
Qed.

(* alignment prologue: plain adds on a small accumulator *)
Definition InvA (st : N * list N) (Tot B : N) : Prop :=
  exists T, Rax (fst st) T /\ T + sum16le (snd st) = Tot /\ bytes_ok (snd st) = true /\ fst st < B.

Lemma take_align (cond : bool) k st Tot B :
  Nat.even k = true -> (k <= 4)%nat -> B + 4294967296 <= M64 ->
  InvA st Tot B -> InvA (gv_take cond k st (fun a p => w64 (a + le_val p))) Tot (B + 4294967296).
Proof.
  intros Hk Hk4 HB (T & (Ha & Hm & Hz) & HT & Hok & HBd). unfold gv_take. destruct cond.
  - cbn [fst snd].
    pose proof (sum16le_split k (snd st) Hk) as Hsplit.
    assert (Hokp : bytes_ok (firstn k (snd st)) = true) by (apply bytes_ok_firstn; exact Hok).
    assert (Hv : le_val (firstn k (snd st)) <= 4294967295).
    { apply le_val_lt32; [rewrite firstn_length; lia|exact Hokp]. }
    destruct (rel_le_val (firstn k (snd st))) as [Rm Rz].
    assert (Hsm : fst st + le_val (firstn k (snd st)) < M64) by lia.
    unfold w64. fold M64. rewrite N.mod_small by exact Hsm.
    exists (T + sum16le (firstn k (snd st))). cbn [fst snd].
    split; [unfold Rax; split; [exact Hsm|split; lia]|].
    split; [lia|]. split; [apply bytes_ok_skipn; exact Hok|lia].
  - exists T. split; [unfold Rax; tauto|]. split; [exact HT|]. split; [exact Hok|lia].
Qed.

(* ---------------------------------------------------------------------------------------------- *)
(** * gv_main *)

Lemma gv_main_Rax addr acc rest T :
  Rax acc T -> acc < 8589934592 -> bytes_ok rest = true ->
  Rax (gv_main addr (acc, rest)) (T + sum16le rest).
Proof.
  intros HR HB Hok. unfold gv_main. cbv zeta.
  assert (I0 : InvA (acc, rest) (T + sum16le rest) 8589934592).
  { exists T. cbn [fst snd]. split; [exact HR|]. split; [reflexivity|]. split; [exact Hok|exact HB]. }
  set (Tot := T + sum16le rest) in *. clearbody Tot.
  pose proof (take_align (N.testbit addr 1) 2 (acc, rest) Tot 8589934592 eq_refl ltac:(lia) ltac:(unfold M64; lia) I0) as I1.
  set (st1 := gv_take (N.testbit addr 1) 2 (acc, rest) (fun a p => w64 (a + le_val p))) in *. clearbody st1.
  set (addr1 := if N.testbit addr 1 then addr + 2 else addr). clearbody addr1.
  pose proof (take_align (N.testbit addr1 2) 4 st1 Tot (8589934592 + 4294967296) eq_refl ltac:(lia) ltac:(unfold M64; lia) I1) as I2.
  set (st2 := gv_take (N.testbit addr1 2) 4 st1 (fun a p => w64 (a + le_val p))) in *. clearbody st2.
  clear I0 I1 st1 HR HB Hok. destruct I2 as (T2 & HR2 & HT2 & Hok2 & _).
  set (n64 := (length (snd st2) / 64)%nat).
  assert (Hn64 : (64 * n64 <= length (snd st2) < 64 * n64 + 64)%nat) by (unfold n64; lia).
  pose proof (loop_inv (fun a blk => add_chain a (words64 blk)) 64 eq_refl
                (fun a T p HRa Hl Hp => step_chain64 8 a T p HRa Hl Hp) n64 (snd st2) (fst st2) T2 HR2 (proj1 Hn64) Hok2) as HL.
  pose proof (sum16le_split (64 * n64) (snd st2) (even_mul_l 64 n64 eq_refl)) as Sp.
  set (acc3 := fold_left (fun a blk => add_chain a (words64 blk)) (blocks 64 n64 (snd st2)) (fst st2)) in *.
  assert (I3 : InvL (acc3, skipn (64 * n64) (snd st2)) Tot (2 * 32)).
  { exists (T2 + sum16le (firstn (64 * n64) (snd st2))). cbn [fst snd]. split; [exact HL|]. split; [lia|].
    split; [apply bytes_ok_skipn; exact Hok2|rewrite skipn_length; lia]. }
  clearbody acc3. set (st3 := (acc3, skipn (64 * n64) (snd st2))) in *. clearbody st3.
  clear HL Sp Hn64 HR2 HT2 Hok2.
  pose proof (take_stage 32 st3 Tot _ (or_introl eq_refl)
                (fun a T p HRa Hl Hp => step_chain64 4 a T p HRa Hl Hp) I3) as I4.
  set (st4 := gv_take (32 <=? length (snd st3))%nat 32 st3 (fun a p => add_chain a (words64 p))) in *. clearbody st4.
  pose proof (take_stage 16 st4 Tot _ (or_introl eq_refl)
                (fun a T p HRa Hl Hp => step_chain64 2 a T p HRa Hl Hp) I4) as I5.
  set (st5 := gv_take (16 <=? length (snd st4))%nat 16 st4 (fun a p => add_chain a (words64 p))) in *. clearbody st5.
  pose proof (take_stage 8 st5 Tot _ (or_introl eq_refl)
                (fun a T p HRa Hl Hp => step_chain64 1 a T p HRa Hl Hp) I5) as I6.
  set (st6 := gv_take (8 <=? length (snd st5))%nat 8 st5 (fun a p => add_chain a (words64 p))) in *. clearbody st6.
  assert (Hsingle : forall k, (k <= 8)%nat -> forall a T p, Rax a T -> length p = k -> bytes_ok p = true ->
                      Rax (add_chain a [le_val p]) (T + sum16le p)).
  { intros k Hk a T' p HRa Hl Hp. apply step_single; [exact HRa|lia|exact Hp]. }
  pose proof (take_stage 4 st6 Tot _ (or_introl eq_refl) (Hsingle 4%nat ltac:(lia)) I6) as I7.
  set (st7 := gv_take (4 <=? length (snd st6))%nat 4 st6 (fun a p => add_chain a [le_val p])) in *. clearbody st7.
  pose proof (take_stage 2 st7 Tot _ (or_introl eq_refl) (Hsingle 2%nat ltac:(lia)) I7) as I8.
  set (st8 := gv_take (2 <=? length (snd st7))%nat 2 st7 (fun a p => add_chain a [le_val p])) in *. clearbody st8.
  pose proof (take_stage 1 st8 Tot _ (or_intror eq_refl) (Hsingle 1%nat ltac:(lia)) I8) as I9.
  set (st9 := gv_take (1 <=? length (snd st8))%nat 1 st8 (fun a p => add_chain a [le_val p])) in *. clearbody st9.
  destruct I9 as (T9 & HR9 & HT9 & _ & HL9).
  destruct (snd st9) as [|x r]; [|cbn [length] in HL9; lia].
  cbn [sum16le] in HT9. eapply Rax_ext; [exact HR9|lia].
Qed.

(* ---------------------------------------------------------------------------------------------- *)
(** * reduce, byte swaps *)

Lemma gv_reduce_fold16 x : x < M64 -> gv_reduce x = fold16 x.
Proof.
  unfold M64. intros H. rewrite <- (reduce64_fold16 x H).
  unfold gv_reduce, reduce64, fold32_step, fold_step. cbv zeta.
  change (x mod 4294967296) with (w32 x).
  rewrite (N.add_comm (x / 4294967296) (w32 x)).
  set (a1 := w32 x + x / 4294967296).
  assert (B1 : a1 <= 8589934590) by (unfold a1, w32; lia).
  rewrite (w64_small a1) by lia.
  set (a2 := w32 (a1 / 4294967296 + a1)).
  assert (B2 : a2 <= 4294967295) by (unfold a2, w32; lia).
  change (a2 mod 65536) with (w16 a2).
  rewrite (N.add_comm (a2 / 65536) (w16 a2)).
  set (a3 := w16 a2 + a2 / 65536).
  assert (B3 : a3 <= 131070) by (unfold a3, w16; lia).
  replace (w32 a3) with a3 by (unfold w32; symmetry; apply N.mod_small; lia).
  reflexivity.
Qed.

Lemma bswap32_explicit x :
  bswap32 x = (x / 16777216) mod 256 + 256 * ((x / 65536) mod 256) + 65536 * ((x / 256) mod 256) + 16777216 * (x mod 256).
Proof.
  unfold bswap32. cbn [be_enc le_val].
  change (256 ^ N.of_nat 3) with 16777216. change (256 ^ N.of_nat 2) with 65536.
  change (256 ^ N.of_nat 1) with 256. change (256 ^ N.of_nat 0) with 1. rewrite N.div_1_r. lia.
Qed.

Lemma bswap32_seed init : init < 65536 -> bswap32 init = 65536 * swap16 init.
Proof. intros H. rewrite bswap32_explicit. unfold swap16. lia. Qed.

Lemma bswap32_seed_back init : init < 65536 -> bswap32 (65536 * swap16 init) = init.
Proof.
  intros H. rewrite bswap32_explicit. unfold swap16.
  set (lo := init mod 256). set (hi := (init / 256) mod 256).
  assert (Hlo : lo < 256) by (unfold lo; lia). assert (Hhi : hi < 256) by (unfold hi; lia).
  assert (E : init = hi * 256 + lo) by (unfold lo, hi; lia).
  clearbody lo hi. subst init. lia.
Qed.

(* ---------------------------------------------------------------------------------------------- *)
(** * short buffers *)

Lemma gv_small_spec buf init :
  bytes_ok buf = true -> init < 65536 -> (length buf < 8)%nat -> gv_small init buf = rfc1071 buf init.
Proof.
  intros Hok Hi Hl. unfold rfc1071.
  assert (Hsmall : forall v, v < 1000000 -> w64 v = v) by (intros v Hv; apply w64_small; lia).
  destruct buf as [|b0 [|b1 [|b2 [|b3 [|b4 [|b5 [|b6 [|b7 buf]]]]]]]]; try (cbn [length] in Hl; lia); clear Hl;
    unfold bytes_ok in Hok; cbn [forallb] in Hok; unfold byte_ok in Hok;
    rewrite ?andb_true_iff, ?N.ltb_lt in Hok; decompose [and] Hok; clear Hok;
    unfold gv_small, gv_take; cbn [fst snd length Nat.leb firstn skipn sum16];
    repeat (rewrite Hsmall by (unfold w64; lia));
    (rewrite gv_reduce_fold16 by (unfold M64; lia)); f_equal; lia.
Qed.

(* ---------------------------------------------------------------------------------------------- *)
(** * gvisor Checksum = RFC 1071, at every alignment *)

Theorem gvisor_csum_correct addr buf init :
  bytes_ok buf = true -> init < 65536 -> gvisor_csum addr buf init = rfc1071 buf init.
Proof.
  intros Hok Hi. unfold gvisor_csum. cbv zeta.
  replace (w16 init) with init by (symmetry; apply N.mod_small; exact Hi).
  destruct (Nat.ltb_spec (length buf) 8) as [Hs|Hs]; [now apply gv_small_spec|].
  replace (w32 init) with init by (unfold w32; symmetry; apply N.mod_small; lia).
  rewrite (bswap32_seed init Hi).
  pose proof (swap16_lt init) as Hsw.
  destruct (N.odd addr).
  - (* odd start: big-endian space, first byte is a high byte, the rest is summed little-endian *)
    destruct buf as [|b0 rest]; [cbn [length] in Hs; lia|].
    cbn [bytes_ok forallb] in Hok. apply andb_true_iff in Hok as [Hb0 Hokr].
    unfold byte_ok in Hb0. apply N.ltb_lt in Hb0.
    cbn [hd skipn].
    replace (w32 (65536 * swap16 init)) with (65536 * swap16 init)
      by (unfold w32; symmetry; apply N.mod_small; lia).
    rewrite (bswap32_seed_back init Hi).
    assert (E0 : swap16 b0 = b0 * 256) by (unfold swap16; lia). rewrite E0.
    rewrite (w64_small (init + b0 * 256)) by lia.
    assert (R0 : Rax (init + b0 * 256) (init + b0 * 256)) by (unfold Rax, M64; repeat split; lia).
    pose proof (gv_main_Rax (addr + 1) _ rest _ R0 ltac:(lia) Hokr) as (Hlt & Hm & Hz).
    rewrite gv_reduce_fold16 by exact Hlt.
    rewrite swap16_invol by apply fold16_lt.
    unfold rfc1071. rewrite sum16_cons. apply fold16_eq_iff. split; lia.
  - (* even start: little-endian space throughout, one swap at the end *)
    assert (R0 : Rax (65536 * swap16 init) (swap16 init)) by (unfold Rax, M64; repeat split; lia).
    pose proof (gv_main_Rax addr _ buf _ R0 ltac:(lia) Hok) as HR.
    rewrite gv_reduce_fold16 by apply HR.
    now apply finish_le.
Qed.

(* the public dispatcher, whichever way it goes *)
Theorem checksum_go_correct has_avx2 addr buf init :
  bytes_ok buf = true -> init < 65536 -> N.of_nat (length buf) < max_len ->
  checksum_go has_avx2 addr buf init = rfc1071 buf init.
Proof.
  intros Hok Hi Hn. unfold checksum_go. destruct has_avx2.
  - now apply asm_csum_correct.
  - now apply gvisor_csum_correct.
Qed.

(* Property statements of model/HsRetry.v (C32), from the invariant of HsRetry_proofs.v. *)
From Coq Require Import List ZArith NArith Bool Lia.
Import ListNotations.
From NV Require Import gen.Consts_HsMgr model.Wheel lib.Wheel_lib proofs.Wheel_proofs proofs.Wheel_time proofs.Wheel_c33
  model.HsRetry proofs.HsRetry_proofs.
Open Scope Z_scope.

Lemma rrun_app cfg ops1 : forall s ops2, rrun cfg s (ops1 ++ ops2) = rrun cfg (rrun cfg s ops1) ops2.
Proof. induction ops1 as [|o r IH]; intros s ops2; cbn [rrun app]; [reflexivity|apply IH]. Qed.

(* ---------- the queue -------------------------------------------------------------------------------- *)

Theorem queue_bound cfg ops a e : cfg_ok cfg ->
  mget a (pend (rrun cfg (rinit cfg) ops)) = Some e -> (N.of_nat (length (p_store e)) <= maxCachedPackets)%N.
Proof. intros OK E. destruct (rinv_reachable cfg OK ops) as [H _]. apply (ri_q _ _ H _ _ E). Qed.

(* cachePacket on a pending handshake: appended at the end while fewer than maxCachedPackets are queued, dropped
   otherwise; nothing else of the handshake changes and nothing is sent *)
Theorem cache_spec cfg s a e p :
  mget a (pend s) = Some e ->
  let r := rstep cfg (RCache a p) s in
  snd r = [] /\ wh (fst r) = wh s /\ ridx (fst r) = ridx s /\
  exists e', mget a (pend (fst r)) = Some e' /\ p_id e' = p_id e /\ p_counter e' = p_counter e /\
    p_ready e' = p_ready e /\
    p_store e' = if (N.of_nat (length (p_store e)) <? maxCachedPackets)%N then p_store e ++ [p] else p_store e.
Proof.
  intros E. cbn [rstep]. unfold cache_op. rewrite E. cbn [fst snd wh ridx pend]. repeat split.
  exists (cache e p). split; [apply mget_mset_eq|]. unfold cache.
  destruct (N.of_nat (length (p_store e)) <? maxCachedPackets)%N; auto.
Qed.

Lemma not_in_remove_id h l : ~ In h (remove_id h l).
Proof. unfold remove_id. intros IN. apply filter_In in IN as [_ X]. now rewrite N.eqb_refl in X. Qed.

(* completion: every queued packet goes through the outbound firewall oracle, the allowed ones are sent exactly
   once each, in queue order; the pending entry and its index are gone; the timer wheel is not touched *)
Theorem release cfg s a e :
  mget a (pend s) = Some e -> p_ready e = true ->
  let r := rstep cfg (RComplete a) s in
  snd r = map (fun p => RData (k_tag p)) (filter (fw_allows cfg) (p_store e)) /\
  mget a (pend (fst r)) = None /\ ~ In (p_id e) (ridx (fst r)) /\ wh (fst r) = wh s.
Proof.
  intros E R. cbn [rstep]. unfold complete_op. rewrite E, R. cbn [fst snd drop pend ridx wh]. split; [reflexivity|].
  split; [now rewrite mget_mdel, N.eqb_refl|]. split; [apply not_in_remove_id|reflexivity].
Qed.

(* wrong responder: the queue moves intact, in order, to the restarted handshake (a fresh hostinfo with counter 0
   that has not built its stage 0 yet), the old index is gone, nothing queued is sent, and the timer is armed
   with tryInterval for the new attempt (the entry of the old attempt stays in the wheel) *)
Theorem restart_keeps_queue cfg s a e v :
  mget a (pend s) = Some e -> p_ready e = true ->
  let r := rstep cfg (RWrong a v) s in
  snd r = [] /\ ~ In (p_id e) (ridx (fst r)) /\
  (exists e', mget a (pend (fst r)) = Some e' /\ p_store e' = p_store e /\ p_id e' = rnxt s /\
              p_counter e' = 0 /\ p_ready e' = false) /\
  wh (fst r) = add (a, rser s) (r_interval cfg) (wh s) /\ tr (fst r) = tr s ++ [OAdd (a, rser s) (r_interval cfg)].
Proof.
  intros E R. cbn [rstep]. unfold wrong_op. rewrite E, R. cbn [fst snd]. unfold fresh, arm, drop. cbn [pend ridx wh tr rser rnxt].
  split; [reflexivity|]. split; [apply not_in_remove_id|]. split; [|auto].
  eexists. split; [apply mget_mset_eq|]. auto.
Qed.

(* the tun reader interleaved with continueHandshake: a packet queued between the receipt of the stage 2 and
   Complete is part of the queue that is replayed - every packet cachePacket stored is sent exactly once, in order,
   if the firewall allows it; one that found the queue full is dropped *)
Theorem release_interleaved cfg s a e p :
  mget a (pend s) = Some e -> p_ready e = true ->
  let r := rstep cfg (RCompleteQ a p) s in
  let q := if (N.of_nat (length (p_store e)) <? maxCachedPackets)%N then p_store e ++ [p] else p_store e in
  snd r = map (fun p => RData (k_tag p)) (filter (fw_allows cfg) q) /\
  mget a (pend (fst r)) = None /\ ~ In (p_id e) (ridx (fst r)).
Proof.
  intros E R. cbn [rstep]. unfold answerable. rewrite E, R.
  destruct (cache_spec cfg s a e p E) as (_ & _ & _ & e' & E' & I' & _ & R' & S'). cbn [rstep fst] in E'.
  rewrite R in R'. destruct (release cfg (cache_op cfg a p s) a e' E' R') as (A & B & C & _).
  cbn [rstep] in A, B, C. rewrite A, S', <- I'. auto.
Qed.

(* ... and on a wrong-responder restart it moves to the new attempt with the rest of the queue *)
Theorem restart_interleaved cfg s a e v p :
  mget a (pend s) = Some e -> p_ready e = true ->
  let r := rstep cfg (RWrongQ a v p) s in
  let q := if (N.of_nat (length (p_store e)) <? maxCachedPackets)%N then p_store e ++ [p] else p_store e in
  snd r = [] /\ exists e', mget a (pend (fst r)) = Some e' /\ p_store e' = q /\ p_counter e' = 0.
Proof.
  intros E R. cbn [rstep]. unfold answerable. rewrite E, R.
  destruct (cache_spec cfg s a e p E) as (_ & _ & _ & e1 & E1 & _ & _ & R1 & S1). cbn [rstep fst] in E1.
  rewrite R in R1. destruct (restart_keeps_queue cfg (cache_op cfg a p s) a e1 v E1 R1) as (A & _ & (e2 & E2 & S2 & _ & C2 & _) & _).
  cbn [rstep] in A, E2. split; [exact A|]. exists e2. rewrite S2, S1. auto.
Qed.

(* ---------- handleOutbound --------------------------------------------------------------------------- *)

(* all attempts used up: the pending entry and its index are removed, nothing is sent, the timer is not re-armed
   (timer driven or lighthouse triggered alike) *)
Theorem gives_up cfg s a e lh :
  mget a (pend s) = Some e -> r_retries cfg <= p_counter e ->
  let r := handle cfg a lh s in
  snd r = [] /\ mget a (pend (fst r)) = None /\ ~ In (p_id e) (ridx (fst r)) /\ wh (fst r) = wh s /\ tr (fst r) = tr s.
Proof.
  intros E L. unfold handle. rewrite E. apply Z.leb_le in L. rewrite L. cbn [fst snd drop pend ridx wh tr].
  split; [reflexivity|]. split; [now rewrite mget_mdel, N.eqb_refl|]. split; [apply not_in_remove_id|auto].
Qed.

(* an attempt: the counter goes up by exactly one (also for a lighthouse trigger that then sends nothing), stage 0
   is built and - if it was not yet - the index registered, the queue is untouched;
   - timer driven: stage 0 goes to every remote, the timer is re-armed with tryInterval * (new counter);
   - lighthouse triggered: the timer wheel is not touched at all; stage 0 goes to every remote only when the
     remote list differs from the one of the previous transmission *)
Theorem attempt cfg s a e lh :
  mget a (pend s) = Some e -> p_counter e < r_retries cfg ->
  let r := handle cfg a lh s in
  let c := p_counter e + 1 in
  (exists e', mget a (pend (fst r)) = Some e' /\ p_id e' = p_id e /\ p_counter e' = c /\ p_ready e' = true /\
              p_store e' = p_store e) /\
  ridx (fst r) = (if p_ready e then ridx s else ridx s ++ [p_id e]) /\
  (lh = false ->
     snd r = map (RSend (p_id e)) (p_remotes e) /\
     wh (fst r) = add (a, rser s) (r_interval cfg * c) (wh s) /\
     tr (fst r) = tr s ++ [OAdd (a, rser s) (r_interval cfg * c)]) /\
  (lh = true ->
     wh (fst r) = wh s /\ tr (fst r) = tr s /\
     snd r = if nl_eqb (p_remotes e) (p_last e) then [] else map (RSend (p_id e)) (p_remotes e)).
Proof.
  intros E L. unfold handle. rewrite E.
  destruct (Z.leb_spec (r_retries cfg) (p_counter e)) as [G|_]; [lia|].
  destruct lh; cbn [andb].
  - destruct (nl_eqb (p_remotes e) (p_last e)) eqn:NE; cbn [negb fst snd pend ridx wh tr].
    + split; [eexists; split; [apply mget_mset_eq|]; auto|]. split; [reflexivity|]. split; [discriminate|auto].
    + split; [eexists; split; [apply mget_mset_eq|]; auto|]. split; [reflexivity|]. split; [discriminate|auto].
  - unfold arm. cbn [fst snd pend ridx wh tr rser].
    split; [eexists; split; [apply mget_mset_eq|]; auto|]. split; [reflexivity|]. split; [auto|discriminate].
Qed.

(* handleOutbound for an address without pending handshake (a stale timer entry): nothing happens *)
Theorem stale_entry cfg s a lh : mget a (pend s) = None -> handle cfg a lh s = (s, []).
Proof. intros E. unfold handle. now rewrite E. Qed.

(* [k] calls of handleOutbound in a row (any mix of timer driven and lighthouse triggered) *)
Fixpoint handles (cfg : rcfg) (a : N) (fl : list bool) (s : rstate) : rstate :=
  match fl with
  | [] => s
  | lh :: r => handles cfg a r (fst (handle cfg a lh s))
  end.

(* a pending handshake lives through exactly [retries] calls of handleOutbound: after k calls with
   counter + k <= retries it is still pending, same hostinfo, same queue, counter + k ... *)
Theorem survives cfg a fl : forall s e,
  mget a (pend s) = Some e -> p_counter e + Z.of_nat (length fl) <= r_retries cfg ->
  exists e', mget a (pend (handles cfg a fl s)) = Some e' /\ p_id e' = p_id e /\
             p_counter e' = p_counter e + Z.of_nat (length fl) /\ p_store e' = p_store e.
Proof.
  induction fl as [|lh r IH]; intros s e E L; cbn [handles length] in *.
  - exists e. rewrite Z.add_0_r. auto.
  - rewrite Nat2Z.inj_succ in *.
    destruct (attempt cfg s a e lh E ltac:(lia)) as ((e1 & E1 & I1 & C1 & _ & S1) & _).
    destruct (IH _ e1 E1 ltac:(lia)) as (e2 & E2 & I2 & C2 & S2).
    exists e2. split; [assumption|]. split; [congruence|]. split; [|congruence]. lia.
Qed.

(* ... and the next call after the [retries]-th removes it *)
Theorem gives_up_after cfg a fl lh s e :
  mget a (pend s) = Some e -> p_counter e + Z.of_nat (length fl) = r_retries cfg ->
  let s' := handles cfg a fl s in
  let r := handle cfg a lh s' in
  snd r = [] /\ mget a (pend (fst r)) = None /\ ~ In (p_id e) (ridx (fst r)) /\ wh (fst r) = wh s' /\ tr (fst r) = tr s'.
Proof.
  intros E L. destruct (survives cfg a fl s e E ltac:(lia)) as (e' & E' & I' & C' & _).
  cbn zeta. rewrite <- I'. apply gives_up; [assumption|lia].
Qed.

(* StartHandshake for an address without pending handshake: counter 0, armed with tryInterval *)
Theorem start_arms cfg s a remotes :
  mget a (pend s) = None ->
  let r := rstep cfg (RStart a remotes) s in
  snd r = [] /\
  (exists e, mget a (pend (fst r)) = Some e /\ p_id e = rnxt s /\ p_counter e = 0 /\ p_ready e = false /\ p_store e = []) /\
  wh (fst r) = add (a, rser s) (r_interval cfg) (wh s) /\ tr (fst r) = tr s ++ [OAdd (a, rser s) (r_interval cfg)].
Proof.
  intros E. cbn [rstep]. rewrite E. unfold fresh, arm. cbn [fst snd pend wh tr rser].
  split; [reflexivity|]. split; [|auto]. eexists. split; [apply mget_mset_eq|]. auto.
Qed.

(* ---------- timing ----------------------------------------------------------------------------------- *)

(* the instants handed to NextOutboundHandshakeTimerTick *)
Fixpoint ticks (ops : list rop) : list Z :=
  match ops with
  | [] => []
  | RTick now :: r => now :: ticks r
  | _ :: r => ticks r
  end.

Lemma ticks_app a b : ticks (a ++ b) = ticks a ++ ticks b.
Proof. induction a as [|o r IH]; [reflexivity|]. destruct o; cbn [ticks app]; rewrite IH; reflexivity. Qed.

(* the trace grows by wheel operations whose Advance instants are exactly the tick instants *)
Definition ext (s s' : rstate) (l : list Z) : Prop := exists h, tr s' = tr s ++ h /\ nows h = l.

Lemma ext_refl s : ext s s [].
Proof. exists []. now rewrite app_nil_r. Qed.

Lemma ext_trans s1 s2 s3 l1 l2 : ext s1 s2 l1 -> ext s2 s3 l2 -> ext s1 s3 (l1 ++ l2).
Proof.
  intros (h1 & E1 & N1) (h2 & E2 & N2). exists (h1 ++ h2). rewrite E2, E1, app_assoc. split; [reflexivity|].
  now rewrite nows_app, N1, N2.
Qed.

Lemma ext_same_tr s s' : tr s' = tr s -> ext s s' [].
Proof. intros E. exists []. now rewrite app_nil_r. Qed.

Lemma ext_arm a T s : ext s (arm a T s) [].
Proof. exists [OAdd (a, rser s) T]. split; reflexivity. Qed.

Lemma ext_handle cfg a lh s : ext s (fst (handle cfg a lh s)) [].
Proof.
  unfold handle. destruct (mget a (pend s)) as [e|]; [|apply ext_refl].
  destruct (r_retries cfg <=? p_counter e); [now apply ext_same_tr|].
  destruct (lh && negb (negb (nl_eqb (p_remotes e) (p_last e)))); [now apply ext_same_tr|].
  destruct lh; cbn [fst]; [now apply ext_same_tr|].
  unfold ext, arm. cbn [tr]. eexists. split; reflexivity.
Qed.

Lemma ext_drain cfg fuel : forall s, ext s (fst (drain cfg fuel s)) [].
Proof.
  induction fuel as [|f IH]; intros s; cbn [drain]; [apply ext_refl|].
  destruct (purge (wh s)) as [[[a k]|] w']; [|apply ext_refl].
  set (s1 := set_wh s w' OPurge).
  assert (X1 : ext s s1 []) by (exists [OPurge]; split; reflexivity).
  pose proof (ext_handle cfg a false s1) as X2.
  destruct (handle cfg a false s1) as [s2 o]. cbn [fst] in X2.
  pose proof (IH s2) as X3. destruct (drain cfg f s2) as [s3 o']. cbn [fst] in *.
  exact (ext_trans _ _ _ _ _ (ext_trans _ _ _ _ _ X1 X2) X3).
Qed.

Lemma ext_fresh cfg a remotes store s : ext s (fresh cfg a remotes store s) [].
Proof.
  unfold ext, fresh, arm. cbn [tr]. eexists. split; reflexivity.
Qed.

Lemma ext_cache_op cfg a p s : ext s (cache_op cfg a p s) [].
Proof.
  unfold cache_op. destruct (mget a (pend s)); [now apply ext_same_tr|].
  pose proof (ext_fresh cfg a [] [] s) as X. set (s1 := fresh cfg a [] [] s) in *.
  destruct (mget a (pend s1)); [|exact X]. destruct X as (h & E & N). exists h. auto.
Qed.

Lemma ext_complete_op cfg a s : ext s (fst (complete_op cfg a s)) [].
Proof.
  unfold complete_op. destruct (mget a (pend s)) as [e|]; [|apply ext_refl].
  destruct (p_ready e); [now apply ext_same_tr|apply ext_refl].
Qed.

Lemma ext_wrong_op cfg a v s : ext s (fst (wrong_op cfg a v s)) [].
Proof.
  unfold wrong_op. destruct (mget a (pend s)) as [e|]; [|apply ext_refl]. destruct (p_ready e); [|apply ext_refl].
  cbn [fst]. unfold ext, fresh, arm, drop. cbn [tr]. eexists. split; reflexivity.
Qed.

Lemma ext_step cfg o s : ext s (fst (rstep cfg o s)) (ticks [o]).
Proof.
  destruct o; cbn [rstep ticks].
  - destruct (mget a (pend s)); [apply ext_refl|apply ext_fresh].
  - apply ext_cache_op.
  - destruct (mget a (pend s)); [now apply ext_same_tr|apply ext_refl].
  - apply ext_handle.
  - unfold tick. set (s1 := set_wh s (advance now (wh s)) (OAdvance now)).
    assert (X1 : ext s s1 [now]) by (exists [OAdvance now]; split; reflexivity).
    exact (ext_trans _ _ _ _ _ X1 (ext_drain cfg _ s1)).
  - apply ext_complete_op.
  - apply ext_wrong_op.
  - destruct (answerable a s); [|apply ext_refl].
    exact (ext_trans _ _ _ _ _ (ext_cache_op cfg a p s) (ext_complete_op cfg a _)).
  - destruct (answerable a s); [|apply ext_refl].
    exact (ext_trans _ _ _ _ _ (ext_cache_op cfg a p s) (ext_wrong_op cfg a v _)).
  - apply ext_cache_op.
Qed.

Lemma ext_run cfg ops : forall s, ext s (rrun cfg s ops) (ticks ops).
Proof.
  induction ops as [|o r IH]; intros s; cbn [rrun]; [apply ext_refl|].
  change (ticks (o :: r)) with (ticks ([o] ++ r)). rewrite ticks_app.
  exact (ext_trans _ _ _ _ _ (ext_step cfg o s) (IH _)).
Qed.

(* the clock discipline of a wheel history only depends on the instants handed to Advance *)
Lemma clock_ok_nows {A} j (h : list (Wheel.op A)) : forall m,
  clock_ok j m h <-> clock_ok j m (map (@OAdvance A) (nows h)).
Proof.
  induction h as [|o r IH]; intros m; [reflexivity|].
  destruct o; cbn [nows clock_ok map]; [apply IH| |apply IH].
  split; intros [X Y]; (split; [exact X|apply IH; exact Y]).
Qed.

(* The timing of one timer entry.  The clock handed to the timer ticks never steps back.  The entry (a, k) was
   added with timeout T after the tick at instant c (only Adds and Purges in between: it was added by that tick's
   own handleOutbound calls or by a StartHandshake before the next tick); n = its timeout in ticks.  Then
   - while no later tick has an instant beyond c + n * tryInterval, the entry is still in its slot: it has not
     been handed to handleOutbound;
   - once a later tick has an instant >= c + (n + 1) * tryInterval, the entry has been returned by Purge, i.e.
     handleOutbound(a, false) was called for it (at most one tick late), and it is no longer in the wheel. *)
Theorem entry_timing cfg ops h0 c hq a k T h2 : cfg_ok cfg ->
  clock_ok 1 None (map (@OAdvance titem) (ticks ops)) ->
  let s := rrun cfg (rinit cfg) ops in
  tr s = h0 ++ OAdvance c :: hq ++ OAdd (a, k) T :: h2 -> nows hq = [] ->
  let n := nticks (W0 cfg) T in
  ((forall now, In now (nows h2) -> now <= c + n * r_interval cfg) ->
     In (a, k) (waiting (wh s)) /\ ~ In (a, k) (outs (tr s) (W0 cfg))) /\
  ((exists now, In now (nows h2) /\ c + (n + 1) * r_interval cfg <= now) ->
     In (a, k) (outs (tr s) (W0 cfg)) /\ ~ In (a, k) (waiting (wh s))).
Proof.
  intros OK CK s TR HQ n.
  destruct (rinv_reachable cfg OK ops) as [H X]. fold s in H, X.
  destruct (ext_run cfg ops (rinit cfg)) as (h & E & N). fold s in E. cbn [rinit tr app] in E.
  assert (CK' : clock_ok 1 None (tr s)) by (apply clock_ok_nows; rewrite E, N; exact CK).
  pose proof (c33_on_time_mono (A:=titem) (r_interval cfg) (hs_timeout (r_retries cfg) (r_interval cfg)) h0 c hq (a, k) T h2
                (params cfg OK)) as C.
  cbn zeta in C.
  change (@init titem (r_interval cfg) (hs_timeout (r_retries cfg) (r_interval cfg))) with (W0 cfg) in C.
  pose proof (ri_wh _ _ H) as W. pose proof (ri_nodup _ _ H) as ND.
  rewrite W in X |- *. rewrite TR in CK', ND, X |- *.
  specialize (C CK' HQ ND). rewrite X, app_nil_r in C. destruct C as [C1 C2].
  split.
  - intros A. destruct (C1 A) as (P & Q & _). auto.
  - exact C2.
Qed.

(* ... and T is tryInterval * c' for an attempt number c' (1 for StartHandshake), which is c' ticks *)
Theorem entry_timeout cfg ops x T : cfg_ok cfg ->
  In (OAdd x T) (tr (rrun cfg (rinit cfg) ops)) ->
  exists c', T = r_interval cfg * c' /\ 1 <= c' /\ (c' <= r_retries cfg \/ c' = 1) /\ nticks (W0 cfg) T = c'.
Proof.
  intros OK IN. destruct (rinv_reachable cfg OK ops) as [H _].
  destruct (ri_shape _ _ H _ _ IN) as (c' & -> & A & B). exists c'. repeat split; auto.
  now apply nticks_attempt.
Qed.

(* every item the wheel returns is handed to handleOutbound, timer driven: what the Purge loop does *)
Theorem tick_unfold cfg now s :
  tick cfg now s = drain cfg (length (w_exp (advance now (wh s)))) (set_wh s (advance now (wh s)) (OAdvance now)).
Proof. reflexivity. Qed.

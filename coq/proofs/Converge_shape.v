(* Converge_shape: every step of model/Converge.v changes exactly one node, in one of six ways ("shapes").
   The invariants of Converge_inv.v are proved shape by shape. *)
From Coq Require Import List NArith Bool Lia Permutation.
Import ListNotations.
From NV Require Import model.Converge proofs.Converge_base proofs.Converge_swap.
Open Scope N_scope.

Definition tuns (s : st) (x : node) : list tun := n_tuns (get s x).

(* the ready pending handshake (its id, index and time) is the same before and after *)
Definition ready_same (po po' : option pend) : Prop :=
  (forall p', po' = Some p' -> p_ready p' = true ->
     exists p, po = Some p /\ p_ready p = true /\ p_hid p = p_hid p' /\ p_idx p = p_idx p' /\ p_ht p = p_ht p') /\
  (forall p, po = Some p -> p_ready p = true ->
     exists p', po' = Some p' /\ p_ready p' = true /\ p_hid p' = p_hid p /\ p_idx p' = p_idx p /\ p_ht p' = p_ht p).

Lemma ready_same_refl po : ready_same po po.
Proof. split; intros p H R; exists p; auto. Qed.

(* a packet a node may emit without changing which tunnels it holds *)
Definition msg_ok (z : node) (ns' : nst) (m : msg) : Prop :=
  match m with
  | MData src hidx sd fi c _ =>
      src = z /\ exists t', In t' (n_tuns ns') /\ hidx = t_r t' /\ sd = t_sid t' /\ fi = t_ini t' /\ c <= t_ctr t'
  | MStage2 src i r h sd _ =>
      src = z /\ exists u, In u (n_tuns ns') /\ t_ini u = false /\ i = t_r u /\ r = t_l u /\ h = t_hid u /\ sd = t_sid u
  | MRecvErr src _ => src = z
  | MStage1 src i h _ =>
      src = z /\ exists p, n_pend ns' = Some p /\ p_ready p = true /\ p_hid p = h /\ p_idx p = i
  end.

(* flags, counter and replay window of a tunnel may move; its identity may not; what enters the window was sent
   by the peer on a session with the same id *)
Definition tun_evolves (s : st) (z : node) (t t' : tun) : Prop :=
  tid t = tid t' /\ t_ctr t <= t_ctr t' /\
  forall c, In c (t_seen t') ->
    In c (t_seen t) \/ exists hidx fi k, In (MData (other z) hidx (t_sid t) fi c k) (s_net s).

Lemma tun_evolves_refl s z t : tun_evolves s z t t.
Proof. repeat split; auto; try lia. Qed.

Inductive shape (s : st) (z : node) (ns' : nst) (ms : list msg) : option (N * (N * N * N)) -> Prop :=
| Sh_same :
    Permutation (map tid (n_tuns ns')) (map tid (tuns s z)) ->
    (forall t', In t' (n_tuns ns') -> exists t, In t (tuns s z) /\ tun_evolves s z t t') ->
    n_gone ns' = n_gone (get s z) -> n_done ns' = n_done (get s z) ->
    ready_same (n_pend (get s z)) (n_pend ns') ->
    (forall m, In m ms -> msg_ok z ns' m) ->
    shape s z ns' ms None
| Sh_new_pending p' :
    n_tuns ns' = tuns s z -> n_gone ns' = n_gone (get s z) -> n_done ns' = n_done (get s z) ->
    (forall p, n_pend (get s z) = Some p -> p_ready p = false) ->
    n_pend ns' = Some p' -> p_ready p' = true -> p_hid p' = mk_id z (s_clk s) ->
    used (p_idx p') (get s z) = false ->
    ms = [MStage1 z (p_idx p') (p_hid p') (p_ht p')] ->
    shape s z ns' ms None
| Sh_drop_pending p :
    n_pend (get s z) = Some p -> p_ready p = true -> n_pend ns' = None ->
    n_tuns ns' = tuns s z -> n_gone ns' = n_gone (get s z) -> n_done ns' = p_hid p :: n_done (get s z) ->
    ms = [] ->
    shape s z ns' ms None
| Sh_remove t :
    In t (tuns s z) -> n_tuns ns' = del_l (t_l t) (tuns s z) ->
    n_gone ns' = t_sid t :: n_gone (get s z) -> n_done ns' = n_done (get s z) ->
    n_pend ns' = n_pend (get s z) -> ms = [] ->
    shape s z ns' ms None
| Sh_add_resp idx iidx hid ht t keep drop :
    In (MStage1 (other z) iidx hid ht) (s_net s) ->
    used idx (get s z) = false ->
    tid t = (idx, iidx, hid, mk_id z (s_clk s), false) -> t_seen t = [] ->
    t :: tuns s z = keep ++ drop -> In t keep -> n_tuns ns' = keep ->
    n_gone ns' = map t_sid drop ++ n_gone (get s z) -> n_done ns' = n_done (get s z) ->
    n_pend ns' = n_pend (get s z) ->
    ms = [MStage2 z iidx idx hid (mk_id z (s_clk s)) (s_clk s)] ->
    shape s z ns' ms (Some (mk_id z (s_clk s), (hid, idx, iidx)))
| Sh_add_ini iidx ridx hid sid rt p t keep drop :
    In (MStage2 (other z) iidx ridx hid sid rt) (s_net s) ->
    n_pend (get s z) = Some p -> p_ready p = true -> p_idx p = iidx -> p_hid p = hid ->
    tid t = (iidx, ridx, hid, sid, true) -> t_seen t = [] ->
    t :: tuns s z = keep ++ drop -> In t keep -> n_tuns ns' = keep ->
    n_gone ns' = map t_sid drop ++ n_gone (get s z) -> n_done ns' = hid :: n_done (get s z) ->
    n_pend ns' = None ->
    (forall m, In m ms -> exists c pl, m = MData z ridx sid true c (KData pl) /\ c <= t_ctr t) ->
    shape s z ns' ms None.

(* ---- helpers to establish Sh_same --------------------------------------------------------------------------- *)
Lemma same_of_upd s z ns' ms idx f :
  n_tuns ns' = upd_l idx f (tuns s z) ->
  (forall t, In t (tuns s z) -> t_l t = idx -> tun_evolves s z t (f t)) ->
  n_gone ns' = n_gone (get s z) -> n_done ns' = n_done (get s z) ->
  ready_same (n_pend (get s z)) (n_pend ns') ->
  (forall m, In m ms -> msg_ok z ns' m) ->
  shape s z ns' ms None.
Proof.
  intros HT Hf HG HD HP HM. apply Sh_same; auto.
  - rewrite HT. assert (map tid (upd_l idx f (tuns s z)) = map tid (tuns s z)) as ->; [|reflexivity].
    unfold upd_l. rewrite map_map. apply map_ext_in. intros t Ht. unfold has_l.
    destruct (t_l t =? idx) eqn:E; [|reflexivity]. apply N.eqb_eq in E. symmetry. apply (Hf t Ht E).
  - intros t' Ht'. rewrite HT in Ht'. apply upd_l_in in Ht' as [t [Ht [->|[-> El]]]].
    + exists t. split; [exact Ht|apply tun_evolves_refl].
    + exists t. split; [exact Ht|now apply Hf].
Qed.

Lemma same_of_id s z ns' ms :
  n_tuns ns' = tuns s z ->
  n_gone ns' = n_gone (get s z) -> n_done ns' = n_done (get s z) ->
  ready_same (n_pend (get s z)) (n_pend ns') ->
  (forall m, In m ms -> msg_ok z ns' m) ->
  shape s z ns' ms None.
Proof.
  intros HT HG HD HP HM. apply Sh_same; auto.
  - now rewrite HT.
  - intros t' Ht'. rewrite HT in Ht'. exists t'. split; [exact Ht'|apply tun_evolves_refl].
Qed.

(* sending on a tunnel *)
Lemma evolves_sent s z t : tun_evolves s z t (set_sent t).
Proof. repeat split; auto; simpl; try lia. Qed.
Lemma evolves_flags s z t i o p : tun_evolves s z t (set_flags t i o p).
Proof. repeat split; auto; simpl; try lia. Qed.
Lemma evolves_trans s z a b c : tun_evolves s z a b -> tun_evolves s z b c -> tun_evolves s z a c.
Proof.
  intros (I1 & C1 & S1) (I2 & C2 & S2). split; [congruence|]. split; [lia|].
  intros x Hx. apply S2 in Hx as [Hx|Hx].
  - now apply S1.
  - right. destruct (tid_fields _ _ I1) as (_ & _ & _ & E & _). now rewrite E.
Qed.

Lemma in_upd_same idx f l u : In u l -> t_l u = idx -> In (f u) (upd_l idx f l).
Proof.
  intros Hin El. unfold upd_l. apply in_map_iff. exists u. split; [|exact Hin].
  unfold has_l. rewrite El, N.eqb_refl. reflexivity.
Qed.

(* ---- each local function has a shape ------------------------------------------------------------------------ *)
Section Local.
Variable s : st.
Variable z : node.
Let ns := get s z.

Lemma shape_start : shape s z (l_start ns) [] None.
Proof.
  unfold l_start. destruct (n_pend ns) as [p|] eqn:P.
  - apply same_of_id; auto using ready_same_refl. intros m [].
  - apply same_of_id; auto; [|intros m []]. cbn [n_pend set_pend]. fold ns. rewrite P.
    split; intros q H R; [inversion H; subst; discriminate|discriminate].
Qed.

Lemma shape_send_primary k :
  let '(ns', ms) := send_primary z ns k in shape s z ns' ms None.
Proof.
  unfold send_primary. destruct (n_tuns ns) as [|p rest] eqn:T.
  - apply same_of_id; auto using ready_same_refl. intros m [].
  - unfold send_on. apply Sh_same; auto using ready_same_refl.
    + cbn [n_tuns set_tuns]. unfold tuns. fold ns. rewrite T. reflexivity.
    + cbn [n_tuns set_tuns]. unfold tuns. fold ns. rewrite T. intros t' [<-|Ht'].
      * exists p. split; [now left|apply evolves_sent].
      * exists t'. split; [now right|apply tun_evolves_refl].
    + intros m [<-|[]]. cbn [msg_ok]. split; [reflexivity|]. exists (set_sent p).
      split; [cbn [n_tuns set_tuns]; now left|]. simpl. repeat split; auto. lia.
Qed.

Lemma shape_hsout retries idx :
  let '(ns', ms) := l_hsout retries z (s_clk s) idx ns in shape s z ns' ms None.
Proof.
  unfold l_hsout. destruct (n_pend ns) as [p|] eqn:P.
  2:{ apply same_of_id; auto using ready_same_refl. intros m []. }
  destruct (retries <=? p_cnt p).
  - destruct (p_ready p) eqn:R.
    + apply (Sh_drop_pending s z _ _ p); auto.
    + apply same_of_id; auto; [|intros m []]. cbn [n_pend set_pend]. fold ns. rewrite P.
      split; intros q H R'; [discriminate|]. inversion H; subst. congruence.
  - destruct (p_ready p) eqn:R.
    + apply same_of_id; auto.
      * cbn [n_pend set_pend]. fold ns. rewrite P. split; intros q H R'; inversion H; subst.
        -- exists p. simpl. auto.
        -- eexists. split; [reflexivity|]. simpl. auto.
      * intros m [<-|[]]. cbn [msg_ok]. split; [reflexivity|]. eexists. cbn [n_pend set_pend].
        split; [reflexivity|]. simpl. auto.
    + destruct (used idx ns) eqn:U.
      * apply same_of_id; auto; [|intros m []]. cbn [n_pend set_pend]. fold ns. rewrite P.
        split; intros q H R'; inversion H; subst; simpl in *; congruence.
      * eapply (Sh_new_pending s z _ _ (mkP true idx (mk_id z (s_clk s)) (s_clk s) (p_cnt p + 1) (p_store p))); auto.
        intros q H. fold ns in H. rewrite P in H. inversion H; subst. exact R.
Qed.

Lemma shape_data pl :
  let '(ns', ms) := l_data z pl ns in shape s z ns' ms None.
Proof.
  unfold l_data. destruct (n_tuns ns) as [|a l] eqn:T.
  2:{ exact (shape_send_primary (KData pl)). }
  unfold l_start. destruct (n_pend ns) as [p|] eqn:P.
  - rewrite P. destruct (Nat.ltb (length (p_store p)) max_cached).
    + apply same_of_id; auto; [|intros m []]. cbn [n_pend set_pend]. fold ns. rewrite P.
      split; intros q H R'; inversion H; subst; simpl in *.
      * exists p. auto.
      * eexists. split; [reflexivity|]. simpl. auto.
    + apply same_of_id; auto using ready_same_refl. intros m [].
  - cbn [n_pend set_pend p_store length]. destruct (Nat.ltb 0 max_cached).
    + apply same_of_id; auto; [|intros m []]. cbn [n_pend set_pend]. fold ns. rewrite P.
      split; intros q H R'; inversion H; subst; simpl in *; discriminate.
    + apply same_of_id; auto; [|intros m []]. cbn [n_pend set_pend]. fold ns. rewrite P.
      split; intros q H R'; inversion H; subst; simpl in *; discriminate.
Qed.

Lemma shape_remove idx :
  (forall t, In t (n_tuns ns) -> t_l t = idx -> True) ->
  shape s z (remove_l ns idx) [] None.
Proof.
  intros _. unfold remove_l. destruct (find_l idx (n_tuns ns)) as [t|] eqn:F.
  - apply find_l_some in F as [Hin El]. subst idx. apply (Sh_remove s z _ _ t); auto.
  - apply same_of_id; auto using ready_same_refl. intros m [].
Qed.

Lemma shape_recverr idx : shape s z (l_recverr idx ns) [] None.
Proof.
  unfold l_recverr. destruct (find _ (n_tuns ns)) as [u|]; [apply shape_remove; auto|].
  apply same_of_id; auto using ready_same_refl. intros m [].
Qed.

Lemma shape_stage1 idx iidx hid ht :
  In (MStage1 (other z) iidx hid ht) (s_net s) ->
  let '(ns', ms, reg) := l_stage1 z (s_clk s) idx iidx hid ht ns in shape s z ns' ms reg.
Proof.
  intro Hnet. unfold l_stage1. destruct (find (is_resp_of hid) (n_tuns ns)) as [u|] eqn:F.
  - apply find_some in F as [Hin Hr]. unfold is_resp_of in Hr. apply andb_prop in Hr as [Hh Hi].
    apply N.eqb_eq in Hh. apply negb_true_iff in Hi.
    apply same_of_id; auto using ready_same_refl. intros m [<-|[]]. cbn [msg_ok]. split; [reflexivity|].
    exists u. repeat split; auto.
  - match goal with |- context [if ?b then _ else _] => destruct b end.
    + pose proof (shape_send_primary KTestReq) as H. destruct (send_primary z ns KTestReq). exact H.
    + destruct (used idx ns) eqn:U.
      * apply same_of_id; auto using ready_same_refl. intros m [].
      * set (t := mkT idx iidx hid (mk_id z (s_clk s)) false false true false ht (s_clk s) hs_base []).
        pose proof (add_tunnel_spec ns t) as A. cbv zeta in A.
        destruct A as (A1 & A2 & A3 & A4 & keep & drop & A5 & A6 & A7 & A8).
        eapply (Sh_add_resp s z _ _ idx iidx hid ht t keep drop); eauto.
        rewrite A6 in A4. exact A4.
Qed.

Lemma shape_stage2 iidx ridx hid sid rt :
  In (MStage2 (other z) iidx ridx hid sid rt) (s_net s) ->
  let '(ns', ms) := l_stage2 z iidx ridx hid sid rt ns in shape s z ns' ms None.
Proof.
  intro Hnet. unfold l_stage2. destruct (n_pend ns) as [p|] eqn:P.
  2:{ apply same_of_id; auto using ready_same_refl. intros m []. }
  destruct (p_ready p && (p_idx p =? iidx)) eqn:C.
  2:{ apply same_of_id; auto using ready_same_refl. intros m []. }
  apply andb_prop in C as [R E]. apply N.eqb_eq in E.
  destruct (p_hid p =? hid) eqn:H.
  - apply N.eqb_eq in H.
    set (t := mkT iidx ridx hid sid true false true false rt 0 hs_base []).
    pose proof (send_all_spec z t (p_store p)) as SA. destruct (send_all z t (p_store p)) as [t1 ms] eqn:ES.
    destruct SA as (S1 & S2 & S3 & S4).
    set (ns1 := add_done (set_pend ns None) hid).
    pose proof (add_tunnel_spec ns1 t1) as A. cbv zeta in A.
    destruct A as (A1 & A2 & A3 & A4 & keep & drop & A5 & A6 & A7 & A8).
    eapply (Sh_add_ini s z _ _ iidx ridx hid sid rt p t1 keep drop); eauto;
      try (now rewrite A6 in A4);
      try (intros m Hm; apply S4 in Hm as (c & pl & -> & Hc); exists c, pl; split; [reflexivity|exact Hc]).
  - apply (Sh_drop_pending s z _ _ p); auto.
Qed.

Lemma nodup_same_l t u : NoDup (map t_l (n_tuns ns)) -> In t (n_tuns ns) -> In u (n_tuns ns) -> t_l t = t_l u -> t = u.
Proof.
  intros ND Ht Hu E. pose proof (find_l_in_nodup (t_l u) _ t ND Ht E) as F1.
  pose proof (find_l_in_nodup (t_l u) _ u ND Hu eq_refl) as F2. congruence.
Qed.

Lemma shape_data_in hidx sid fi ctr k :
  NoDup (map t_l (n_tuns ns)) ->
  In (MData (other z) hidx sid fi ctr k) (s_net s) ->
  let '(ns', ms, o) := l_data_in z hidx sid fi ctr k ns in shape s z ns' ms None.
Proof.
  intros ND Hnet. unfold l_data_in. destruct (find_l hidx (n_tuns ns)) as [u|] eqn:F.
  2:{ apply same_of_id; auto using ready_same_refl. intros m [<-|[]]. reflexivity. }
  apply find_l_some in F as [Hin El].
  destruct (accepts u sid fi ctr) eqn:A.
  2:{ apply same_of_id; auto using ready_same_refl. intros m []. }
  unfold accepts in A. apply andb_prop in A as [A A3]. apply andb_prop in A as [A1 A2].
  apply N.eqb_eq in A1.
  assert (EV : forall t, In t (tuns s z) -> t_l t = hidx -> tun_evolves s z t (set_recv t ctr)).
  { intros t Ht Et. assert (t = u) as -> by (apply nodup_same_l; auto; congruence).
    repeat split; auto; simpl; try lia. intros c [<-|Hc]; [|now left]. right. exists hidx, fi, k. now rewrite A1. }
  destruct k as [pl| |].
  - eapply (same_of_upd s z _ _ hidx (fun t => set_recv t ctr)); auto using ready_same_refl. intros m [].
  - unfold send_on.
    eapply (same_of_upd s z _ _ hidx (fun t => set_sent (set_recv t ctr))); auto using ready_same_refl.
    + intros t Ht Et. eapply evolves_trans; [apply EV; auto|apply evolves_sent].
    + intros m [<-|[]]. cbn [msg_ok]. split; [reflexivity|]. exists (set_sent (set_recv u ctr)). split.
      * cbn [n_tuns set_tuns]. now apply (in_upd_same hidx (fun t => set_sent (set_recv t ctr))).
      * simpl. repeat split; auto. lia.
  - eapply (same_of_upd s z _ _ hidx (fun t => set_recv t ctr)); auto using ready_same_refl. intros m [].
Qed.

Lemma shape_check ma pa lidx elig :
  NoDup (map t_l (n_tuns ns)) ->
  let '(ns', ms) := l_check ma pa z lidx elig ns in shape s z ns' ms None.
Proof.
  intro ND. unfold l_check. destruct (find_l lidx (n_tuns ns)) as [u|] eqn:F.
  2:{ apply same_of_id; auto using ready_same_refl. intros m []. }
  pose proof F as F0. apply find_l_some in F as [Hin El].
  destruct (t_in u).
  - destruct (is_primary lidx (n_tuns ns)).
    + eapply (same_of_upd s z _ _ lidx (fun t => set_flags t false false false)); auto using ready_same_refl.
      * intros; apply evolves_flags.
      * intros m [].
    + destruct (should_swap ma pa elig).
      * apply Sh_same; auto using ready_same_refl; cbn [n_tuns inc_swaps set_tuns]; [| |intros m []].
        -- set (l1 := upd_l lidx (fun t => set_flags t false false false) (n_tuns ns)).
           assert (E1 : map tid l1 = map tid (n_tuns ns)) by (apply upd_l_tid; reflexivity).
           assert (ND1 : NoDup (map t_l l1)) by (rewrite map_tl, E1, <- map_tl; exact ND).
           eapply perm_trans; [apply Permutation_map; apply make_primary_perm; exact ND1|].
           unfold tuns. fold ns. now rewrite E1.
        -- intros t' Ht'.
           set (l1 := upd_l lidx (fun t => set_flags t false false false) (n_tuns ns)) in *.
           assert (E1 : map tid l1 = map tid (n_tuns ns)) by (apply upd_l_tid; reflexivity).
           assert (ND1 : NoDup (map t_l l1)) by (rewrite map_tl, E1, <- map_tl; exact ND).
           apply (Permutation_in _ (make_primary_perm lidx l1 ND1)) in Ht'.
           apply upd_l_in in Ht' as [t [Ht [->|[-> _]]]]; exists t; split; auto using tun_evolves_refl, evolves_flags.
      * eapply (same_of_upd s z _ _ lidx (fun t => set_flags t false false false)); auto using ready_same_refl.
        -- intros; apply evolves_flags.
        -- intros m [].
  - destruct (t_pd u).
    + apply shape_remove; auto.
    + destruct (is_primary lidx (n_tuns ns)).
      * destruct (t_out u).
        -- unfold send_on.
           eapply (same_of_upd s z _ _ lidx (fun t => set_sent (set_flags t false false true))); auto using ready_same_refl.
           ++ intros t Ht Et. eapply evolves_trans; [apply evolves_flags|apply evolves_sent].
           ++ intros m [<-|[]]. cbn [msg_ok]. split; [reflexivity|].
              exists (set_sent (set_flags u false false true)). split.
              ** cbn [n_tuns set_tuns]. now apply (in_upd_same lidx (fun t => set_sent (set_flags t false false true))).
              ** simpl. repeat split; auto. lia.
        -- eapply (same_of_upd s z _ _ lidx (fun t => set_flags t false false false)); auto using ready_same_refl.
           ++ intros; apply evolves_flags.
           ++ intros m [].
      * eapply (same_of_upd s z _ _ lidx (fun t => set_flags t false false true)); auto using ready_same_refl.
        -- intros; apply evolves_flags.
        -- intros m [].
Qed.

End Local.

(* ---- every step changes one node in one of the six ways ------------------------------------------------------- *)
Definition nodup_l (s : st) : Prop := forall x, NoDup (map t_l (tuns s x)).

Lemma step_shape c s e : nodup_l s ->
  exists z ns' ms reg, fst (step c s e) = put s z ns' ms reg /\ shape s z ns' ms reg.
Proof.
  intro ND. destruct e as [n|n idx|n pl|k idx|n lidx elig]; unfold step.
  - exists n, (l_start (get s n)), [], None. split; [reflexivity|apply shape_start].
  - pose proof (shape_hsout s n (c_retries c) idx) as H. destruct (l_hsout _ _ _ _ _) as [ns' ms].
    exists n, ns', ms, None. split; [reflexivity|exact H].
  - pose proof (shape_data s n pl) as H. destruct (l_data _ _ _) as [ns' ms].
    exists n, ns', ms, None. split; [reflexivity|exact H].
  - destruct (nth_error (s_net s) (N.to_nat k)) as [m|] eqn:E.
    2:{ exists NA, (get s NA), [], None. split; [reflexivity|].
        apply same_of_id; auto using ready_same_refl. intros m []. }
    apply nth_error_In in E.
    destruct m as [src iidx hid ht|src iidx ridx hid sid rt|src hidx sid fi ctr kk|src idx']; cbn [msg_src];
      rewrite <- (other_other src) in E; set (z := other src) in *; unfold l_recv.
    + pose proof (shape_stage1 s z idx iidx hid ht E) as H. destruct (l_stage1 _ _ _ _ _ _ _) as [[ns' ms] reg].
      exists z, ns', ms, reg. split; [reflexivity|exact H].
    + pose proof (shape_stage2 s z iidx ridx hid sid rt E) as H. destruct (l_stage2 _ _ _ _ _ _ _) as [ns' ms].
      exists z, ns', ms, None. split; [reflexivity|exact H].
    + pose proof (shape_data_in s z hidx sid fi ctr kk (ND z) E) as H. destruct (l_data_in _ _ _ _ _ _ _) as [[ns' ms] o].
      exists z, ns', ms, None. split; [reflexivity|exact H].
    + exists z, (l_recverr idx' (get s z)), [], None. split; [reflexivity|apply shape_recverr].
  - pose proof (shape_check s n (c_addr c n) (c_addr c (other n)) lidx elig (ND n)) as H.
    destruct (l_check _ _ _ _ _ _) as [ns' ms]. exists n, ns', ms, None. split; [reflexivity|exact H].
Qed.

(* Lemmas about model/Cert.v: C01 (acceptance = documented trust rule, cached re-check) *)
From Coq Require Import List NArith ZArith Bool Lia.
Import ListNotations.
From NV Require Import lib.Corr model.Cert.
Open Scope N_scope.

(* ---- strings, blocklist, lookup ------------------------------------------------------------------ *)

Lemma str_eqb_eq a b : str_eqb a b = true <-> a = b.
Proof. apply nlist_eqb_eq. Qed.

Lemma str_eqb_refl a : str_eqb a a = true.
Proof. now apply str_eqb_eq. Qed.

Lemma is_empty_true {A} (l : list A) : is_empty l = true <-> l = [].
Proof. destruct l; simpl; split; intros H; try reflexivity; discriminate. Qed.

Lemma is_empty_false {A} (l : list A) : is_empty l = false <-> l <> [].
Proof. destruct l; simpl; split; intros H; try reflexivity; try discriminate; now elim H. Qed.

Lemma blocked_In bl f : blocked bl f = true <-> In f bl.
Proof.
  unfold blocked. rewrite existsb_exists. split.
  - intros [x [Hx E]]. apply str_eqb_eq in E. now subst.
  - intros H. exists f. split; [assumption|apply str_eqb_refl].
Qed.

Lemma blocked_false_In bl f : blocked bl f = false <-> ~ In f bl.
Proof.
  rewrite <- blocked_In. destruct (blocked bl f); split.
  - discriminate.
  - intros H. exfalso. now apply H.
  - intros _ E. discriminate E.
  - reflexivity.
Qed.

Lemma lookup_In k P v : lookup k P = Some v -> In (k, v) P.
Proof.
  induction P as [|[k' v'] P IH]; simpl; [discriminate|].
  destruct (str_eqb k k') eqn:E.
  - intros H. inversion H; subst. apply str_eqb_eq in E. subst. now left.
  - intros H. right. now apply IH.
Qed.

(* ---- C01_rule: the order of checks in the code computes exactly the documented conjunction -------- *)

Lemma expired_valid c t : expired c t = negb (valid_at c t).
Proof.
  unfold expired, valid_at. rewrite !Z.ltb_antisym. now rewrite negb_andb.
Qed.

Lemma constraints_none_iff ca c :
  check_ca_constraints_cert ca c = None <->
  inside_window ca c && subset_groups ca c && inside_nets (c_networks ca) (c_networks c)
    && inside_nets (c_unsafe ca) (c_unsafe c) = true.
Proof.
  unfold check_ca_constraints_cert, check_ca_constraints, inside_window, subset_groups, inside_nets.
  rewrite !Z.ltb_antisym.
  destruct (c_na c <=? c_na ca)%Z; simpl; [|rewrite andb_false_r; simpl; split; discriminate].
  destruct (c_nb ca <=? c_nb c)%Z; simpl; [|split; discriminate].
  destruct (is_empty (c_groups ca)); simpl.
  - destruct (is_empty (c_networks ca)); simpl.
    + destruct (is_empty (c_unsafe ca)); simpl; [split; reflexivity|].
      destruct (forallb _ (c_unsafe c)); simpl; split; try reflexivity; discriminate.
    + destruct (forallb _ (c_networks c)); simpl; [|split; discriminate].
      destruct (is_empty (c_unsafe ca)); simpl; [split; reflexivity|].
      destruct (forallb _ (c_unsafe c)); simpl; split; try reflexivity; discriminate.
  - destruct (forallb _ (c_groups c)); simpl; [|split; discriminate].
    destruct (is_empty (c_networks ca)); simpl.
    + destruct (is_empty (c_unsafe ca)); simpl; [split; reflexivity|].
      destruct (forallb _ (c_unsafe c)); simpl; split; try reflexivity; discriminate.
    + destruct (forallb _ (c_networks c)); simpl; [|split; discriminate].
      destruct (is_empty (c_unsafe ca)); simpl; [split; reflexivity|].
      destruct (forallb _ (c_unsafe c)); simpl; split; try reflexivity; discriminate.
Qed.

Lemma verify_g_spec P bl t c sig : is_ok (verify_g P bl t c sig) = accept_spec_g P bl t c sig.
Proof.
  assert (HA : forall b1 b2 b3 b4 iw sg n u,
             b1 && b2 && b3 && b4 && iw && sg && n && u = b1 && b2 && b3 && b4 && (iw && sg && n && u))
    by (intros; now rewrite !andb_assoc).
  unfold verify_g, verify_core, accept_spec_g.
  destruct (blocked bl (c_fp c)); simpl; [reflexivity|].
  destruct (is_empty (c_issuer c)); simpl; [now rewrite andb_false_r|].
  destruct (lookup (c_issuer c) P) as [ca|]; simpl; [|now rewrite andb_false_r].
  rewrite HA. rewrite !expired_valid.
  pose proof (constraints_none_iff ca c) as HC.
  destruct (inside_window ca c && subset_groups ca c && inside_nets (c_networks ca) (c_networks c)
              && inside_nets (c_unsafe ca) (c_unsafe c)).
  - destruct HC as [_ HC]. rewrite (HC eq_refl).
    destruct (c_curve ca =? c_curve c); simpl; [|now rewrite andb_false_r].
    destruct (valid_at ca t); simpl; [|now rewrite andb_false_r].
    destruct (valid_at c t); simpl; [|now rewrite andb_false_r].
    destruct (sig ca); simpl; [|now rewrite andb_false_r].
    destruct (negb (is_empty (c_fp2 c)) && blocked bl (c_fp2 c)); reflexivity.
  - destruct (check_ca_constraints_cert ca c) as [e|]; [|destruct HC as [HC _]; discriminate (HC eq_refl)].
    rewrite !andb_false_r.
    destruct (c_curve ca =? c_curve c); simpl; [|reflexivity].
    destruct (valid_at ca t); simpl; [|reflexivity].
    destruct (valid_at c t); simpl; [|reflexivity].
    destruct (sig ca); reflexivity.
Qed.

Lemma is_ok_true {A} (r : res A) : is_ok r = true <-> exists a, r = Ok a.
Proof.
  destruct r as [a|e]; simpl; split.
  - intros _. now exists a.
  - reflexivity.
  - discriminate.
  - intros [a H]. discriminate H.
Qed.

Lemma rule_g P bl t c sig : (exists cc, verify_g P bl t c sig = Ok cc) <-> accept_spec_g P bl t c sig = true.
Proof. rewrite <- is_ok_true. now rewrite verify_g_spec. Qed.

Lemma rule P bl t c sigok : (exists cc, verify P bl t c sigok = Ok cc) <-> accept_spec P bl t c sigok = true.
Proof. apply rule_g. Qed.

(* ---- the rule at the level of propositions: what "inside the CA's ranges" means ------------------- *)

Definition Covers (m n : pfx) : Prop :=
  p_ok m = true /\ p_ok n = true /\ p_fam m = p_fam n /\ p_bits m <= p_bits n /\
  N.shiftr (p_addr n) (fam_len (p_fam m) - p_bits m) = N.shiftr (p_addr m) (fam_len (p_fam m) - p_bits m).

Lemma covers_Covers m n : covers m n = true <-> Covers m n.
Proof.
  unfold covers, contains, Covers. rewrite !andb_true_iff, !N.eqb_eq, N.leb_le.
  rewrite N.shiftr_lxor. rewrite N.lxor_eq_0_iff. tauto.
Qed.

(* the set of addresses of a prefix: same top [bits] bits as the prefix address *)
Definition in_pfx (p : pfx) (a : N) : Prop :=
  N.shiftr a (fam_len (p_fam p) - p_bits p) = N.shiftr (p_addr p) (fam_len (p_fam p) - p_bits p).

Lemma shiftr_eq_mono a b s s' : s <= s' -> N.shiftr a s = N.shiftr b s -> N.shiftr a s' = N.shiftr b s'.
Proof.
  intros L E. replace s' with (s + (s' - s)) by lia. rewrite <- !N.shiftr_shiftr. now rewrite E.
Qed.

(* Covers is containment of address sets: every address of the certificate's range lies in the CA's range.
   (bits <= address length is Prefix.IsValid.) *)
Lemma Covers_subset m n :
  p_ok m = true -> p_ok n = true -> p_fam m = p_fam n ->
  p_bits m <= fam_len (p_fam m) -> p_bits n <= fam_len (p_fam n) ->
  (Covers m n <-> forall a, in_pfx n a -> in_pfx m a).
Proof.
  intros Hm Hn Hf Lm Ln. unfold Covers, in_pfx. rewrite <- Hf in *. set (L := fam_len (p_fam m)) in *.
  split.
  - intros (_ & _ & _ & Hb & Ha) a Hin.
    rewrite <- Ha. apply shiftr_eq_mono with (s := L - p_bits n); [lia|assumption].
  - intros H. repeat split; try assumption.
    + destruct (N.le_gt_cases (p_bits m) (p_bits n)) as [|Hgt]; [assumption|exfalso].
      set (k := L - p_bits m).
      assert (Hk : k < L - p_bits n) by (unfold k; lia).
      pose (a' := N.lxor (p_addr n) (2 ^ k)).
      assert (Hin : N.shiftr a' (L - p_bits n) = N.shiftr (p_addr n) (L - p_bits n)).
      { apply N.bits_inj. intros i. rewrite !N.shiftr_spec'. unfold a'. rewrite N.lxor_spec.
        rewrite N.pow2_bits_false by lia. now rewrite xorb_false_r. }
      pose proof (H a' Hin) as H1. pose proof (H (p_addr n) eq_refl) as H2.
      fold k in H1, H2. rewrite <- H2 in H1.
      assert (Hb : N.testbit (N.shiftr a' k) 0 = N.testbit (N.shiftr (p_addr n) k) 0) by now rewrite H1.
      rewrite !N.shiftr_spec' in Hb. unfold a' in Hb. rewrite N.lxor_spec in Hb. simpl in Hb.
      rewrite ?N.add_0_l in Hb. rewrite N.pow2_bits_true in Hb. destruct (N.testbit (p_addr n) k); discriminate.
    + apply (H (p_addr n)). reflexivity.
Qed.

Record accept_prop (P : pool) (bl : blocklist) (t : Z) (c : cert) (sig : cert -> bool) : Prop := {
  ap_fp : ~ In (c_fp c) bl;
  ap_fp2 : c_fp2 c <> [] -> ~ In (c_fp2 c) bl;
  ap_issuer : c_issuer c <> [];
  ap_ca : exists ca,
    lookup (c_issuer c) P = Some ca /\
    c_curve ca = c_curve c /\
    (c_nb ca <= t <= c_na ca)%Z /\ (c_nb c <= t <= c_na c)%Z /\
    sig ca = true /\
    (c_nb ca <= c_nb c /\ c_na c <= c_na ca)%Z /\
    (c_groups ca = [] \/ forall g, In g (c_groups c) -> In g (c_groups ca)) /\
    (c_networks ca = [] \/ forall n, In n (c_networks c) -> exists m, In m (c_networks ca) /\ Covers m n) /\
    (c_unsafe ca = [] \/ forall n, In n (c_unsafe c) -> exists m, In m (c_unsafe ca) /\ Covers m n)
}.

Lemma inside_nets_prop cas cs :
  inside_nets cas cs = true <-> (cas = [] \/ forall n, In n cs -> exists m, In m cas /\ Covers m n).
Proof.
  unfold inside_nets. rewrite orb_true_iff, is_empty_true, forallb_forall.
  split; (intros [H|H]; [now left|right]); intros n Hn; specialize (H n Hn).
  - apply existsb_exists in H. destruct H as [m [Hm Hc]]. exists m. split; [assumption|now apply covers_Covers].
  - apply existsb_exists. destruct H as [m [Hm Hc]]. exists m. split; [assumption|now apply covers_Covers].
Qed.

Lemma subset_groups_prop ca c :
  subset_groups ca c = true <-> (c_groups ca = [] \/ forall g, In g (c_groups c) -> In g (c_groups ca)).
Proof.
  unfold subset_groups. rewrite orb_true_iff, is_empty_true, forallb_forall.
  split; (intros [H|H]; [now left|right]); intros g Hg; specialize (H g Hg).
  - apply existsb_exists in H. destruct H as [g' [Hg' E]]. apply str_eqb_eq in E. now subst.
  - apply existsb_exists. exists g. split; [assumption|apply str_eqb_refl].
Qed.

Lemma valid_at_prop c t : valid_at c t = true <-> (c_nb c <= t <= c_na c)%Z.
Proof. unfold valid_at. rewrite andb_true_iff, !Z.leb_le. tauto. Qed.

Lemma accept_spec_prop P bl t c sig : accept_spec_g P bl t c sig = true <-> accept_prop P bl t c sig.
Proof.
  unfold accept_spec_g. rewrite !andb_true_iff, !negb_true_iff.
  split.
  - intros [[[H1 H2] H3] H4].
    destruct (lookup (c_issuer c) P) as [ca|] eqn:EL; [|discriminate].
    rewrite !andb_true_iff in H4. destruct H4 as [[[[[[[A1 A2] A3] A4] A5] A6] A7] A8].
    constructor.
    + now apply blocked_false_In.
    + intros Hne. apply andb_false_iff in H2. destruct H2 as [H2|H2].
      * apply negb_false_iff, is_empty_true in H2. contradiction.
      * now apply blocked_false_In.
    + now apply is_empty_false.
    + exists ca. split; [exact EL|].
      apply N.eqb_eq in A1. apply valid_at_prop in A2. apply valid_at_prop in A3.
      unfold inside_window in A5. rewrite andb_true_iff, !Z.leb_le in A5.
      apply subset_groups_prop in A6. apply inside_nets_prop in A7. apply inside_nets_prop in A8. tauto.
  - intros [H1 H2 H3 [ca (EL & A1 & A2 & A3 & A4 & A5 & A6 & A7 & A8)]].
    rewrite EL. rewrite !andb_true_iff. repeat split.
    + now apply blocked_false_In.
    + apply andb_false_iff. destruct (c_fp2 c) eqn:E; [now left|right].
      apply blocked_false_In. apply H2. discriminate.
    + now apply is_empty_false.
    + now apply N.eqb_eq.
    + now apply valid_at_prop.
    + now apply valid_at_prop.
    + assumption.
    + unfold inside_window. rewrite andb_true_iff, !Z.leb_le. tauto.
    + now apply subset_groups_prop.
    + now apply inside_nets_prop.
    + now apply inside_nets_prop.
Qed.

(* ---- AddCA keeps the pool well formed -------------------------------------------------------------- *)

(* every key is the fingerprint of its CA, every entry is a CA *)
Definition WFpool (P : pool) : Prop := forall k ca, In (k, ca) P -> k = c_fp ca /\ c_isCA ca = true.

Lemma remove_key_In k P k' v : In (k', v) (remove_key k P) -> In (k', v) P.
Proof.
  induction P as [|[k0 v0] P IH]; simpl; [tauto|].
  destruct (str_eqb k k0); simpl; intros H; [right; now apply IH|].
  destruct H as [H|H]; [now left|right; now apply IH].
Qed.

Lemma WFpool_nil : WFpool [].
Proof. intros k ca []. Qed.

Lemma add_ca_WF c selfsig now P P' e : WFpool P -> add_ca c selfsig now P = inl (P', e) -> WFpool P'.
Proof.
  unfold add_ca. intros WF. destruct (c_isCA c) eqn:ECA; simpl; [|discriminate].
  destruct selfsig; simpl; [|discriminate]. intros H. inversion H; subst; clear H.
  intros k ca [Hin|Hin].
  - inversion Hin; subst. split; [reflexivity|assumption].
  - apply remove_key_In in Hin. now apply WF.
Qed.

Lemma add_ca_lookup c selfsig now P P' e : add_ca c selfsig now P = inl (P', e) -> lookup (c_fp c) P' = Some c.
Proof.
  unfold add_ca. destruct (c_isCA c); simpl; [|discriminate]. destruct selfsig; simpl; [|discriminate].
  intros H. inversion H; subst. simpl. now rewrite str_eqb_refl.
Qed.

Lemma add_ca_only_ca c selfsig now P : c_isCA c = false -> add_ca c selfsig now P = inr ANotCA.
Proof. unfold add_ca. now intros ->. Qed.

Lemma lookup_remove_other k k' P : str_eqb k k' = false -> lookup k (remove_key k' P) = lookup k P.
Proof.
  intros E. induction P as [|[k0 v0] P IH]; simpl; [reflexivity|].
  destruct (str_eqb k' k0) eqn:E0.
  - apply str_eqb_eq in E0. subst k0. now rewrite E.
  - simpl. now rewrite IH.
Qed.

(* ---- cached re-check ------------------------------------------------------------------------------- *)

Lemma verify_g_inv P bl t c sig cc :
  verify_g P bl t c sig = Ok cc ->
  exists ca, lookup (c_issuer c) P = Some ca /\ c_issuer c <> [] /\ c_curve ca = c_curve c /\ sig ca = true /\
             check_ca_constraints_cert ca c = None /\ cc = mkCached c (c_fp c) (c_fp2 c) (c_fp ca).
Proof.
  unfold verify_g, verify_core.
  destruct (blocked bl (c_fp c)); simpl; [discriminate|].
  destruct (is_empty (c_issuer c)) eqn:EI; simpl; [discriminate|].
  destruct (lookup (c_issuer c) P) as [ca|]; simpl; [|discriminate].
  destruct (c_curve ca =? c_curve c) eqn:EC; simpl; [|discriminate].
  destruct (expired ca t); simpl; [discriminate|].
  destruct (expired c t); simpl; [discriminate|].
  destruct (sig ca) eqn:ES; simpl; [|discriminate].
  destruct (check_ca_constraints_cert ca c) eqn:EK; [discriminate|].
  destruct (negb (is_empty (c_fp2 c)) && blocked bl (c_fp2 c)); [discriminate|].
  intros H. inversion H; subst. exists ca. repeat split; try assumption; try reflexivity.
  - now apply is_empty_false.
  - now apply N.eqb_eq.
Qed.

(* What the two paths compute once the looked-up signer is the one the record was made with. *)
Lemma cached_vs_full_same_signer P' bl' t' c sig ca :
  lookup (c_issuer c) P' = Some ca -> sig ca = true -> check_ca_constraints_cert ca c = None ->
  is_ok (verify_cached_g P' bl' t' (mkCached c (c_fp c) (c_fp2 c) (c_fp ca)) sig) = is_ok (verify_g P' bl' t' c sig).
Proof.
  intros EL ES EK. unfold verify_cached_g, verify_g, verify_core. simpl. rewrite EL.
  destruct (negb (is_empty (c_fp2 c)) && blocked bl' (c_fp2 c)) eqn:E2; simpl.
  - destruct (blocked bl' (c_fp c)); simpl; [reflexivity|].
    destruct (is_empty (c_issuer c)); simpl; [reflexivity|].
    destruct (negb (c_curve ca =? c_curve c)); simpl; [reflexivity|].
    destruct (expired ca t'); simpl; [reflexivity|].
    destruct (expired c t'); simpl; [reflexivity|].
    rewrite ES, EK. simpl. reflexivity.
  - destruct (blocked bl' (c_fp c)); simpl; [reflexivity|].
    destruct (is_empty (c_issuer c)); simpl; [reflexivity|].
    destruct (negb (c_curve ca =? c_curve c)); simpl; [reflexivity|].
    destruct (expired ca t'); simpl; [reflexivity|].
    destruct (expired c t'); simpl; [reflexivity|].
    rewrite ES, EK. simpl. rewrite str_eqb_refl.
    destruct (negb (is_empty (c_fp ca))); reflexivity.
Qed.

(* Same pool (any later blocklist and time): no assumption at all. *)
Lemma cached_same_pool P bl t c sig cc :
  verify_g P bl t c sig = Ok cc ->
  forall bl' t', is_ok (verify_cached_g P bl' t' cc sig) = is_ok (verify_g P bl' t' c sig).
Proof.
  intros H bl' t'. apply verify_g_inv in H. destruct H as (ca & EL & _ & _ & ES & EK & ->).
  now apply cached_vs_full_same_signer.
Qed.

Section Collision.
  (* [Real] is the set of certificates that exist (their c_fp field is the SHA-256 of their content);
     SHA-256 collision resistance = the fingerprint determines the certificate on that set. *)
  Variable Real : cert -> Prop.
  Hypothesis fp_inj : forall a b, Real a -> Real b -> c_fp a = c_fp b -> a = b.

  Definition RealPool (P : pool) : Prop := forall k ca, In (k, ca) P -> Real ca.

  Lemma cached_any_pool P bl t c sig cc :
    WFpool P -> RealPool P -> verify_g P bl t c sig = Ok cc ->
    forall P' bl' t', WFpool P' -> RealPool P' ->
      is_ok (verify_cached_g P' bl' t' cc sig) = is_ok (verify_g P' bl' t' c sig).
  Proof.
    intros WF RP H P' bl' t' WF' RP'.
    apply verify_g_inv in H. destruct H as (ca & EL & HI & _ & ES & EK & ->).
    destruct (lookup (c_issuer c) P') as [ca'|] eqn:EL'.
    - assert (ca' = ca).
      { apply lookup_In in EL. apply lookup_In in EL'.
        apply fp_inj; [now apply (RP' _ _ EL')|now apply (RP _ _ EL)|].
        destruct (WF _ _ EL) as [<- _]. destruct (WF' _ _ EL') as [<- _]. reflexivity. }
      subst ca'. now apply cached_vs_full_same_signer.
    - unfold verify_cached_g, verify_g, verify_core. simpl. rewrite EL'.
      destruct (negb (is_empty (c_fp2 c)) && blocked bl' (c_fp2 c)); simpl;
        destruct (blocked bl' (c_fp c)); simpl; try reflexivity;
        destruct (is_empty (c_issuer c)); reflexivity.
  Qed.

  (* hence the cached verdict at any later trust state is the documented rule evaluated there *)
  Lemma cached_is_rule P bl t c sig cc :
    WFpool P -> RealPool P -> verify_g P bl t c sig = Ok cc ->
    forall P' bl' t', WFpool P' -> RealPool P' ->
      is_ok (verify_cached_g P' bl' t' cc sig) = accept_spec_g P' bl' t' c sig.
  Proof.
    intros WF RP H P' bl' t' WF' RP'. rewrite <- verify_g_spec. now apply (cached_any_pool P bl t).
  Qed.
End Collision.

(* The cached path re-evaluates blocklist (both forms), CA presence and both expiries, whatever the record. *)
Lemma cached_blocked P bl t cc sig :
  blocked bl (cc_fp cc) = true \/ (cc_fp2 cc <> [] /\ blocked bl (cc_fp2 cc) = true) ->
  verify_cached_g P bl t cc sig = Err EBlocked.
Proof.
  unfold verify_cached_g, verify_core. intros [H|[H1 H2]].
  - rewrite H. destruct (negb (is_empty (cc_fp2 cc)) && blocked bl (cc_fp2 cc)); reflexivity.
  - rewrite H2. apply is_empty_false in H1. now rewrite H1.
Qed.

Lemma cached_ca_gone P bl t cc sig :
  lookup (c_issuer (cc_cert cc)) P = None -> is_ok (verify_cached_g P bl t cc sig) = false.
Proof.
  unfold verify_cached_g, verify_core. intros ->.
  destruct (negb (is_empty (cc_fp2 cc)) && blocked bl (cc_fp2 cc)); simpl; [reflexivity|].
  destruct (blocked bl (cc_fp cc)); simpl; [reflexivity|].
  destruct (is_empty (c_issuer (cc_cert cc))); reflexivity.
Qed.

Lemma cached_expired P bl t cc sig ca :
  lookup (c_issuer (cc_cert cc)) P = Some ca -> expired ca t = true \/ expired (cc_cert cc) t = true ->
  is_ok (verify_cached_g P bl t cc sig) = false.
Proof.
  unfold verify_cached_g, verify_core. intros -> HE.
  destruct (negb (is_empty (cc_fp2 cc)) && blocked bl (cc_fp2 cc)); simpl; [reflexivity|].
  destruct (blocked bl (cc_fp cc)); simpl; [reflexivity|].
  destruct (is_empty (c_issuer (cc_cert cc))); simpl; [reflexivity|].
  destruct (negb (c_curve ca =? c_curve (cc_cert cc))); simpl; [reflexivity|].
  destruct (expired ca t); simpl; [reflexivity|].
  destruct HE as [HE|HE]; [discriminate|]. now rewrite HE.
Qed.

(* A hand-built pool that maps the issuer to a different CA is caught by the remembered signer fingerprint. *)
Lemma cached_signer_changed P bl t cc sig ca :
  lookup (c_issuer (cc_cert cc)) P = Some ca -> cc_signer cc <> [] -> cc_signer cc <> c_fp ca ->
  is_ok (verify_cached_g P bl t cc sig) = false.
Proof.
  unfold verify_cached_g, verify_core. intros -> HN HD.
  destruct (negb (is_empty (cc_fp2 cc)) && blocked bl (cc_fp2 cc)); simpl; [reflexivity|].
  destruct (blocked bl (cc_fp cc)); simpl; [reflexivity|].
  destruct (is_empty (c_issuer (cc_cert cc))); simpl; [reflexivity|].
  destruct (negb (c_curve ca =? c_curve (cc_cert cc))); simpl; [reflexivity|].
  destruct (expired ca t); simpl; [reflexivity|].
  destruct (expired (cc_cert cc) t); simpl; [reflexivity|].
  apply is_empty_false in HN. rewrite HN. simpl.
  destruct (str_eqb (cc_signer cc) (c_fp ca)) eqn:E; [|reflexivity].
  apply str_eqb_eq in E. contradiction.
Qed.

(* ---- no verification history ------------------------------------------------------------------------ *)

Lemma history_independent P bl pre x post :
  nth (length pre) (verify_seq P bl (pre ++ x :: post)) false = is_ok (verify_g P bl (s_time x) (s_cert x) (s_sig x)) /\
  nth (length pre) (verify_seq P bl (pre ++ x :: post)) false = accept_spec_g P bl (s_time x) (s_cert x) (s_sig x).
Proof.
  assert (H : nth (length pre) (verify_seq P bl (pre ++ x :: post)) false = is_ok (verify_g P bl (s_time x) (s_cert x) (s_sig x))).
  { unfold verify_seq. rewrite map_app. rewrite app_nth2; rewrite map_length; [|apply le_n].
    now rewrite PeanoNat.Nat.sub_diag. }
  split; [exact H|]. rewrite H. apply verify_g_spec.
Qed.

(* Lemmas about model/Wheel.v (timer wheel). Part 1: well-formedness, slot arithmetic, the partition
   invariant, the behaviour of Advance on each slot.

   Characterising lemmas for clients of model/Wheel.v (conntrack C18, handshake retries C32):
     this file      wf, wf_init, wf_step, wf_exec       reachable states are well formed (0 < min, 0 <= max)
                    step_fields, exec_fields            tick / span / wheelLen never change
                    nticks_range, nticks_ge, nticks_lt  the clamped timeout in ticks, rounded up
                    find_wheel_ok                       slot in range; it is flushed in nticks + 1 ticks
                    step_perm, exec_perm                multiset of items conserved (slot / expired / returned)
                    advance_slot                        what Advance(now) does to one slot, any gap length
     Wheel_time.v   slot_wait, add_fires                an item fires at the first Advance reaching
                                                        lastTick(at Add) + (nticks + 1) * tick, given adv_ok
                    clock_adv_ok, advance_clock         clock_ok (static, on the instants) implies adv_ok
                    advance_flush_all, advance_last_near, drain, exp_flow
                    exec_map, outs_map, label_*         the wheel is parametric in its items
     Wheel_c33.v    the C33 statements from init (c33_partition, c33_fire_exact, c33_on_time, ...). *)
From Coq Require Import List ZArith Lia Bool Permutation PreOmega.
Import ListNotations.
From NV Require Import model.Wheel lib.Wheel_lib.
Open Scope Z_scope.

Ltac fields := cbn [w_len w_tick w_max w_cur w_last w_slots w_exp set_slots set_exp set_last] in *.

Definition params_ok (mn mx : Z) : Prop := 0 < mn /\ 0 <= mx.

(* ---- arithmetic of truncating division -------------------------------------------------------- *)

Lemma quot_lt_iff a d r : 0 < d -> - d < a -> 1 <= r -> (Z.quot a d < r <-> a < r * d).
Proof. intros. Z.to_euclidean_division_equations. nia. Qed.

Lemma quot_nonneg a d : 0 < d -> - d < a -> 0 <= Z.quot a d.
Proof. intros. Z.to_euclidean_division_equations. nia. Qed.

Lemma quot_mul_bounds a d : 0 < d -> - d < a - d * Z.quot a d < d.
Proof. intros. Z.to_euclidean_division_equations. nia. Qed.

Lemma quot_mul_le a d : 0 < d -> 0 <= a -> d * Z.quot a d <= a.
Proof. intros. Z.to_euclidean_division_equations. nia. Qed.

Lemma quot_small_neg a d : 0 < d -> - d < a <= 0 -> Z.quot a d = 0.
Proof. intros. Z.to_euclidean_division_equations. nia. Qed.

Section WheelProofs.
Context {A : Type}.
Implicit Types (w : wheel A) (h : list (op A)) (o : op A).

(* ---- well-formed states ------------------------------------------------------------------------ *)

Definition wf w : Prop :=
  0 < w_tick w /\ 0 <= w_max w /\ w_len w = wheel_len (w_tick w) (w_max w) /\
  Z.of_nat (length (w_slots w)) = w_len w /\ 0 <= w_cur w < w_len w.

Lemma wf_len_ge2 w : wf w -> 2 <= w_len w.
Proof.
  unfold wf, wheel_len. intros (Ht & Hm & Hl & _).
  pose proof (Z.quot_pos (w_max w) (w_tick w) Hm Ht). lia.
Qed.

Lemma wf_init mn mx : params_ok mn mx -> wf (@init A mn mx).
Proof.
  intros [Hmn Hmx]. unfold wf, init. fields.
  pose proof (Z.quot_pos mx mn Hmx Hmn) as Hq. unfold wheel_len in *.
  rewrite repeat_length, Z2Nat.id by lia. repeat split; lia.
Qed.

(* ticks left until slot s is flushed: 1 .. wheelLen *)
Definition rem_ticks w (s : Z) : Z :=
  if w_cur w <? s then s - w_cur w else s - w_cur w + w_len w.

Lemma rem_ticks_range w s : wf w -> 0 <= s < w_len w -> 1 <= rem_ticks w s <= w_len w.
Proof. unfold wf, rem_ticks. intros (_ & _ & _ & _ & Hc) Hs. destruct (Z.ltb_spec (w_cur w) s); lia. Qed.

(* ---- clamp / nticks / find_wheel --------------------------------------------------------------- *)

Lemma clamp_cases w T :
  (T < w_tick w /\ clamp w T = w_tick w) \/
  (w_tick w <= T /\ w_max w < T /\ clamp w T = w_max w) \/
  (w_tick w <= T <= w_max w /\ clamp w T = T).
Proof.
  unfold clamp. destruct (Z.ltb_spec T (w_tick w)); [lia|].
  destruct (Z.ltb_spec (w_max w) T); lia.
Qed.

Lemma nticks_range w T : wf w -> 0 <= nticks w T <= w_len w - 1.
Proof.
  unfold wf, wheel_len, nticks. intros (Ht & Hm & Hl & _).
  destruct (clamp_cases w T) as [(H1 & ->)|[(H1 & H2 & ->)|(H1 & ->)]]; rewrite Hl.
  - rewrite Z.quot_small by lia. pose proof (Z.quot_pos (w_max w) (w_tick w) Hm Ht). lia.
  - Z.to_euclidean_division_equations. nia.
  - Z.to_euclidean_division_equations. nia.
Qed.

(* nticks * tick is the clamped timeout rounded up to a whole number of ticks *)
Lemma nticks_ge w T : wf w -> clamp w T <= nticks w T * w_tick w.
Proof.
  unfold wf, nticks. intros (Ht & Hm & _).
  assert (0 <= clamp w T) by (destruct (clamp_cases w T) as [(H1 & ->)|[(H1 & H2 & ->)|(H1 & ->)]]; lia).
  Z.to_euclidean_division_equations. nia.
Qed.

Lemma nticks_lt w T : wf w -> 1 <= clamp w T -> nticks w T * w_tick w < clamp w T + w_tick w.
Proof.
  unfold wf, nticks. intros (Ht & Hm & _) Hc.
  Z.to_euclidean_division_equations. nia.
Qed.

Lemma clamp_pos w T : wf w -> 1 <= w_max w -> 1 <= clamp w T.
Proof.
  unfold wf. intros (Ht & _) Hm.
  destruct (clamp_cases w T) as [(H1 & ->)|[(H1 & H2 & ->)|(H1 & ->)]]; lia.
Qed.

(* C33 slot_ok: the single wrap subtraction suffices *)
Lemma find_wheel_ok w T : wf w ->
  0 <= find_wheel w T < w_len w /\ rem_ticks w (find_wheel w T) = nticks w T + 1.
Proof.
  intros Hwf. pose proof (nticks_range w T Hwf) as Hn.
  destruct Hwf as (_ & _ & _ & _ & Hc).
  unfold find_wheel, rem_ticks.
  destruct (Z.leb_spec (w_len w) (nticks w T + w_cur w + 1)).
  - destruct (Z.ltb_spec (w_cur w) (nticks w T + w_cur w + 1 - w_len w)); lia.
  - destruct (Z.ltb_spec (w_cur w) (nticks w T + w_cur w + 1)); lia.
Qed.

(* ---- the operations keep the parameters and well-formedness ------------------------------------ *)

Lemma iter_tick1_fields w j :
  let w' := Nat.iter j tick1 w in
  w_tick w' = w_tick w /\ w_max w' = w_max w /\ w_len w' = w_len w /\ w_last w' = w_last w.
Proof.
  induction j as [|j IH]; cbn [Nat.iter nat_rect]; [tauto|].
  unfold tick1 at 1 2 3 4. fields. tauto.
Qed.

Lemma wf_tick1 w : wf w -> wf (tick1 w).
Proof.
  unfold wf, tick1. fields. intros (Ht & Hm & Hl & Hs & Hc).
  rewrite upd_nth_length. repeat split; auto; destruct (Z.leb_spec (w_len w) (w_cur w + 1)); lia.
Qed.

Lemma wf_iter_tick1 w j : wf w -> wf (Nat.iter j tick1 w).
Proof. intros H; induction j; cbn [Nat.iter nat_rect]; auto using wf_tick1. Qed.

Lemma step_fields o w :
  w_tick (step o w) = w_tick w /\ w_max (step o w) = w_max w /\ w_len (step o w) = w_len w.
Proof.
  destruct o as [v T|now|]; cbn [step].
  - unfold add. fields. tauto.
  - unfold advance. fields.
    destruct (iter_tick1_fields w (Z.to_nat (if w_len w <? Z.quot (now - match w_last w with Some t => t | None => now end) (w_tick w)
                                             then w_len w else Z.quot (now - match w_last w with Some t => t | None => now end) (w_tick w))))
      as (? & ? & ? & ?). tauto.
  - unfold purge. destruct (w_exp w); cbn [snd]; fields; tauto.
Qed.

Lemma exec_fields h : forall w,
  w_tick (exec h w) = w_tick w /\ w_max (exec h w) = w_max w /\ w_len (exec h w) = w_len w.
Proof.
  induction h as [|o h IH]; intros w; cbn [exec]; [tauto|].
  destruct (IH (step o w)) as (? & ? & ?), (step_fields o w) as (? & ? & ?). repeat split; congruence.
Qed.

Lemma wf_add v T w : wf w -> wf (add v T w).
Proof.
  unfold wf, add. fields. intros (Ht & Hm & Hl & Hs & Hc). rewrite upd_nth_length. tauto.
Qed.

Lemma wf_advance now w : wf w -> wf (advance now w).
Proof.
  intros H. unfold advance.
  match goal with |- wf (set_last (Nat.iter ?j tick1 w) ?t) => pose proof (wf_iter_tick1 w j H) as H' end.
  unfold wf in *. fields. tauto.
Qed.

Lemma wf_purge w : wf w -> wf (snd (purge w)).
Proof. unfold purge. destruct (w_exp w); cbn [snd]; auto. Qed.

Lemma wf_step o w : wf w -> wf (step o w).
Proof. destruct o; cbn [step]; auto using wf_add, wf_advance, wf_purge. Qed.

Lemma wf_exec h : forall w, wf w -> wf (exec h w).
Proof. induction h; intros w H; cbn [exec]; auto using wf_step. Qed.

(* ---- exactly one of {slot, expired, returned}: the multiset of items is conserved --------------- *)

Lemma items_tick1 w : wf w -> Permutation (items (tick1 w)) (items w).
Proof.
  intros (Ht & Hm & Hl & Hs & Hc). unfold items, waiting, tick1, slot_at. fields.
  set (c := if w_len w <=? w_cur w + 1 then 0 else w_cur w + 1).
  assert (Hc' : 0 <= c < w_len w) by (subst c; destruct (Z.leb_spec (w_len w) (w_cur w + 1)); lia).
  rewrite <- app_assoc. apply Permutation_app_head.
  symmetry. apply concat_upd_clear. lia.
Qed.

Lemma items_iter_tick1 w j : wf w -> Permutation (items (Nat.iter j tick1 w)) (items w).
Proof.
  intros H; induction j as [|j IH]; cbn [Nat.iter nat_rect]; [reflexivity|].
  rewrite items_tick1 by (apply wf_iter_tick1; auto). exact IH.
Qed.

Lemma step_perm o w : wf w -> Permutation (items w ++ adds [o]) (step_out o w ++ items (step o w)).
Proof.
  intros Hwf. destruct o as [v T|now|]; cbn [step step_out adds app].
  - destruct (find_wheel_ok w T Hwf) as [Hi _]. destruct Hwf as (_ & _ & _ & Hs & _).
    unfold items, waiting, add. fields.
    rewrite concat_upd_app by lia. rewrite <- app_assoc.
    apply Permutation_app_head. cbn [app]. apply Permutation_sym, Permutation_cons_append.
  - rewrite app_nil_r. unfold advance.
    match goal with |- Permutation _ (items (set_last ?x _)) => change (items (set_last x _)) with (items x) end.
    symmetry. apply items_iter_tick1; auto.
  - rewrite app_nil_r. unfold purge, items. destruct (w_exp w) as [|x r] eqn:E; cbn [fst snd]; fields; rewrite ?E; reflexivity.
Qed.

Lemma adds_cons o h : adds (o :: h) = adds [o] ++ adds h.
Proof. destruct o; reflexivity. Qed.

Lemma exec_perm h : forall w, wf w -> Permutation (items w ++ adds h) (outs h w ++ items (exec h w)).
Proof.
  induction h as [|o h IH]; intros w Hwf.
  - cbn. now rewrite app_nil_r.
  - rewrite adds_cons. cbn [exec outs]. rewrite app_assoc, (step_perm o w Hwf), <- !app_assoc.
    apply Permutation_app_head. apply IH, wf_step, Hwf.
Qed.

(* ---- what one loop iteration / the whole loop of Advance does to each slot ---------------------- *)

Definition cur1 w : Z := if w_len w <=? w_cur w + 1 then 0 else w_cur w + 1.

Lemma tick1_slot w s : wf w -> 0 <= s < w_len w ->
  slot_at (tick1 w) s = if s =? cur1 w then [] else slot_at w s.
Proof.
  intros (Ht & Hm & Hl & Hs & Hc) Hr. unfold slot_at, tick1. fields. fold (cur1 w).
  assert (0 <= cur1 w < w_len w) by (unfold cur1; destruct (Z.leb_spec (w_len w) (w_cur w + 1)); lia).
  destruct (Z.eqb_spec s (cur1 w)) as [->|Hne].
  - rewrite nth_upd_nth_eq by lia. reflexivity.
  - apply nth_upd_nth_neq. lia.
Qed.

Lemma tick1_exp w : w_exp (tick1 w) = w_exp w ++ slot_at w (cur1 w).
Proof. reflexivity. Qed.

Lemma rem_tick1 w s : wf w -> 0 <= s < w_len w ->
  (s = cur1 w <-> rem_ticks w s = 1) /\ (s <> cur1 w -> rem_ticks (tick1 w) s = rem_ticks w s - 1).
Proof.
  intros (Ht & Hm & Hl & Hs & Hc) Hr. unfold rem_ticks, tick1, cur1. fields.
  destruct (Z.leb_spec (w_len w) (w_cur w + 1)); destruct (Z.ltb_spec (w_cur w) s);
    try destruct (Z.ltb_spec 0 s); try destruct (Z.ltb_spec (w_cur w + 1) s); lia.
Qed.

Lemma exp_iter_incl w j x : In x (w_exp w) -> In x (w_exp (Nat.iter j tick1 w)).
Proof.
  intros H; induction j as [|j IH]; cbn [Nat.iter nat_rect]; auto.
  rewrite tick1_exp. apply in_or_app; auto.
Qed.

Lemma iter_tick1_slot w : wf w -> forall j : nat, Z.of_nat j <= w_len w ->
  forall s, 0 <= s < w_len w ->
    (Z.of_nat j < rem_ticks w s ->
       slot_at (Nat.iter j tick1 w) s = slot_at w s /\
       rem_ticks (Nat.iter j tick1 w) s = rem_ticks w s - Z.of_nat j) /\
    (rem_ticks w s <= Z.of_nat j ->
       slot_at (Nat.iter j tick1 w) s = [] /\
       forall x, In x (slot_at w s) -> In x (w_exp (Nat.iter j tick1 w))).
Proof.
  intros Hwf. induction j as [|j IH]; intros Hj s Hs.
  - cbn [Nat.iter nat_rect]. pose proof (rem_ticks_range w s Hwf Hs). split; [intros _; split; [reflexivity|lia]|lia].
  - change (Nat.iter (S j) tick1 w) with (tick1 (Nat.iter j tick1 w)). set (w' := Nat.iter j tick1 w) in *.
    assert (Hwf' : wf w') by (apply wf_iter_tick1; auto).
    destruct (iter_tick1_fields w j) as (_ & _ & Hlen & _). fold w' in Hlen.
    assert (Hs' : 0 <= s < w_len w') by lia.
    destruct (IH ltac:(lia) s Hs) as [IH1 IH2].
    destruct (rem_tick1 w' s Hwf' Hs') as [Hc1 Hc2].
    rewrite (tick1_slot w' s Hwf' Hs'), tick1_exp.
    destruct (Z_lt_le_dec (Z.of_nat j) (rem_ticks w s)) as [Hlt|Hge].
    + destruct (IH1 Hlt) as [E1 E2]. split.
      * intros Hlt'. destruct (Z.eqb_spec s (cur1 w')) as [Heq|Hne]; [apply Hc1 in Heq; lia|].
        split; [auto|]. rewrite (Hc2 Hne). lia.
      * intros Hge'. assert (Heq : s = cur1 w') by (apply Hc1; lia).
        destruct (Z.eqb_spec s (cur1 w')); [|contradiction]. split; [reflexivity|].
        intros x Hx. apply in_or_app. right. rewrite <- Heq, E1. exact Hx.
    + destruct (IH2 Hge) as [E1 E2]. split; [lia|]. intros _. split.
      * destruct (Z.eqb_spec s (cur1 w')); auto.
      * intros x Hx. apply in_or_app. left. auto.
Qed.

(* ---- Advance, slot by slot ----------------------------------------------------------------------
   With lastTick = L and a clock that is not a full tick or more behind L, slot s is flushed by
   Advance(now) exactly when now has reached  L + rem_ticks s * tick;  otherwise the slot keeps its
   content and that instant stays the same (although lastTick and current both move). *)

Lemma advance_last now w :
  w_last (advance now w) =
  Some (match w_last w with Some t => t | None => now end
        + w_tick w * Z.quot (now - match w_last w with Some t => t | None => now end) (w_tick w)).
Proof. reflexivity. Qed.

Lemma advance_exp_incl now w x : In x (w_exp w) -> In x (w_exp (advance now w)).
Proof. intros H. unfold advance. fields. apply exp_iter_incl, H. Qed.

Lemma advance_slot w now L s : wf w -> w_last w = Some L -> L - w_tick w < now -> 0 <= s < w_len w ->
  (now < L + rem_ticks w s * w_tick w ->
     slot_at (advance now w) s = slot_at w s /\
     exists L', w_last (advance now w) = Some L' /\
                L' + rem_ticks (advance now w) s * w_tick w = L + rem_ticks w s * w_tick w) /\
  (L + rem_ticks w s * w_tick w <= now ->
     slot_at (advance now w) s = [] /\ forall x, In x (slot_at w s) -> In x (w_exp (advance now w))).
Proof.
  intros Hwf HL Hclk Hs.
  pose proof (rem_ticks_range w s Hwf Hs) as Hr.
  assert (Ht : 0 < w_tick w) by apply Hwf.
  rewrite advance_last. unfold advance. rewrite HL.
  set (k := Z.quot (now - L) (w_tick w)).
  assert (Hk0 : 0 <= k) by (apply quot_nonneg; lia).
  assert (Hk : k < rem_ticks w s <-> now - L < rem_ticks w s * w_tick w) by (apply quot_lt_iff; lia).
  set (n := if w_len w <? k then w_len w else k).
  assert (Hn : 0 <= n <= w_len w /\ (n < rem_ticks w s <-> k < rem_ticks w s))
    by (subst n; destruct (Z.ltb_spec (w_len w) k); lia).
  destruct Hn as [Hn1 Hn2].
  destruct (iter_tick1_slot w Hwf (Z.to_nat n) ltac:(rewrite Z2Nat.id; lia) s Hs) as [S1 S2].
  rewrite Z2Nat.id in S1, S2 by lia.
  unfold slot_at, rem_ticks in *. fields.
  split.
  - intros Hlt. destruct S1 as [E1 E2]; [lia|]. split; [exact E1|].
    eexists; split; [reflexivity|].
    destruct (iter_tick1_fields w (Z.to_nat n)) as (_ & _ & Hlen & _).
    assert (n = k) by (subst n; destruct (Z.ltb_spec (w_len w) k); lia).
    rewrite Hlen in *. rewrite E2. nia.
  - intros Hge. apply S2. lia.
Qed.

End WheelProofs.

(* Coalesce_main: the MultiCoalescer as a whole - sort, dispatch, the three lanes, flush - and the statements of
   property C23 about it. *)
From Coq Require Import List NArith Bool Arith Lia Permutation Sorted.
Import ListNotations.
From NV Require Import lib.Bytes lib.Ones lib.Corr gen.Consts_Coalesce model.Coalesce
  proofs.Coalesce_lists proofs.Coalesce_lane proofs.Coalesce_chain proofs.Coalesce_approx
  proofs.Coalesce_tcp proofs.Coalesce_udp proofs.Coalesce_geom.
Open Scope N_scope.

(* the representation invariant of abstract batches (model/Coalesce.v, wf_pktb) *)
Definition wf_batch (b : list staged) : Prop := forall kp, In kp b -> wf_pktb (snd kp) = true.
Definition ranges_batch (b : list staged) : Prop := forall kp, In kp b -> ranges_okb (snd kp) = true.

(* q is delivered before p although p was transmitted first in the same flow: only if p is a pure TCP ACK *)
Definition order_rel (q p : staged) : Prop :=
  key_ltb (fst p) (fst q) = true -> same_flow (snd p) (snd q) = true -> pure_ack (snd p) = true.

Definition pt_rel (q p : staged) : Prop := key_ltb (fst p) (fst q) = false.

Record minv (tso uso : bool) (m : mstate) (done : list staged) : Prop := mkMI {
  mi_ts : lane_struct tcp_pol (m_tcp m);
  mi_us : lane_struct udp_pol (m_udp m);
  mi_tc : tcp_chains (m_tcp m);
  mi_uc : udp_chains (m_udp m);
  mi_perm : Permutation (attrib_of m) done;
  mi_tl : forall y, In y (lane_mem (m_tcp m)) -> lane_of tso uso (snd y) = LTcp;
  mi_ul : forall y, In y (lane_mem (m_udp m)) -> lane_of tso uso (snd y) = LUdp;
  mi_pl : forall y, In y (m_pt m) -> lane_of tso uso (snd y) = LPt;
  mi_to : ForallOrdPairs (lane_rel tcp_pol) (lane_mem (m_tcp m));
  mi_uo : ForallOrdPairs (lane_rel udp_pol) (lane_mem (m_udp m));
  mi_po : ForallOrdPairs pt_rel (m_pt m)
}.

Lemma minv0 tso uso : minv tso uso m0 [].
Proof.
  constructor; cbn [m0 m_tcp m_udp m_pt].
  - apply lane0_struct.
  - apply lane0_struct.
  - apply tcp_lane0_chains.
  - apply udp_lane0_chains.
  - apply perm_nil.
  - intros y [].
  - intros y [].
  - intros y [].
  - constructor.
  - constructor.
  - constructor.
Qed.

Lemma lane_of_tcp tso uso p : lane_of tso uso p = LTcp -> p_proto p = coal_proto_tcp.
Proof.
  unfold lane_of. destruct (p_proto p =? coal_proto_tcp) eqn:E; [intros _; apply N.eqb_eq; exact E|].
  destruct (p_proto p =? coal_proto_udp); [destruct uso|]; discriminate.
Qed.

Lemma lane_of_udp tso uso p : lane_of tso uso p = LUdp -> p_proto p = coal_proto_udp.
Proof.
  unfold lane_of. destruct (p_proto p =? coal_proto_tcp) eqn:E; [destruct tso; discriminate|].
  destruct (p_proto p =? coal_proto_udp) eqn:E2; [intros _; apply N.eqb_eq; exact E2|discriminate].
Qed.

Lemma lane_of_proto tso uso p q : p_proto p = p_proto q -> lane_of tso uso p = lane_of tso uso q.
Proof. intros E. unfold lane_of. rewrite E. reflexivity. Qed.

Lemma perm_snoc_mid {A} (a a' b : list A) (x : A) :
  Permutation a' (a ++ [x]) -> Permutation (a' ++ b) ((a ++ b) ++ [x]).
Proof.
  intros H. rewrite H. rewrite <- !app_assoc. apply Permutation_app_head.
  simpl. apply Permutation_cons_append.
Qed.

Theorem dispatch_inv tso uso m done kp :
  minv tso uso m done -> wf_pktb (snd kp) = true ->
  (forall y, In y done -> key_le (fst y) (fst kp)) ->
  minv tso uso (dispatch tso uso m kp) (done ++ [kp]).
Proof.
  intros Hi Hwf Hkeys.
  assert (Hk : forall y, In y (attrib_of m) -> key_le (fst y) (fst kp)).
  { intros y Hy. apply Hkeys. apply (Permutation_in _ (mi_perm _ _ _ _ Hi)). exact Hy. }
  unfold dispatch. destruct (lane_of tso uso (snd kp)) eqn:El.
  - (* TCP lane *)
    pose proof (commit_perm tcp_pol (m_tcp m) kp (mi_ts _ _ _ _ Hi)) as Hp.
    constructor; cbn [m_tcp m_udp m_pt]; try apply Hi.
    + apply commit_struct. apply Hi.
    + apply tcp_commit_chains; [apply Hi|apply Hi|]. split; [eapply lane_of_tcp; eauto|exact Hwf].
    + unfold attrib_of. cbn [m_tcp m_udp m_pt].
      rewrite <- (mi_perm _ _ _ _ Hi). unfold attrib_of. apply perm_snoc_mid. exact Hp.
    + intros y Hy. apply (Permutation_in _ Hp) in Hy. apply in_app_or in Hy.
      destruct Hy as [Hy|[<-|[]]]; [apply (mi_tl _ _ _ _ Hi); exact Hy|exact El].
    + apply commit_order; [apply Hi| |apply Hi].
      intros y Hy. apply Hk. unfold attrib_of. apply in_or_app. left. exact Hy.
  - (* UDP lane *)
    pose proof (commit_perm udp_pol (m_udp m) kp (mi_us _ _ _ _ Hi)) as Hp.
    constructor; cbn [m_tcp m_udp m_pt]; try apply Hi.
    + apply commit_struct. apply Hi.
    + apply udp_commit_chains; [apply Hi|apply Hi|]. split; [eapply lane_of_udp; eauto|exact Hwf].
    + unfold attrib_of. cbn [m_tcp m_udp m_pt].
      rewrite <- (mi_perm _ _ _ _ Hi). unfold attrib_of.
      rewrite <- !app_assoc. apply Permutation_app_head. rewrite !app_assoc.
      apply perm_snoc_mid. exact Hp.
    + intros y Hy. apply (Permutation_in _ Hp) in Hy. apply in_app_or in Hy.
      destruct Hy as [Hy|[<-|[]]]; [apply (mi_ul _ _ _ _ Hi); exact Hy|exact El].
    + apply commit_order; [apply Hi| |apply Hi].
      intros y Hy. apply Hk. unfold attrib_of. apply in_or_app. right. apply in_or_app. left. exact Hy.
  - (* passthrough *)
    constructor; cbn [m_tcp m_udp m_pt]; try apply Hi.
    + unfold attrib_of. cbn [m_tcp m_udp m_pt]. rewrite <- (mi_perm _ _ _ _ Hi). unfold attrib_of.
      rewrite !app_assoc. reflexivity.
    + intros y Hy. apply in_app_or in Hy. destruct Hy as [Hy|[<-|[]]]; [apply (mi_pl _ _ _ _ Hi); exact Hy|exact El].
    + apply FOP_snoc; [apply Hi|]. intros y Hy. unfold pt_rel. apply key_le_not_lt. apply Hk.
      unfold attrib_of. apply in_or_app. right. apply in_or_app. right. exact Hy.
Qed.

Lemma fold_dispatch_inv tso uso : forall xs m done,
  minv tso uso m done -> (forall kp, In kp xs -> wf_pktb (snd kp) = true) ->
  sorted_staged xs -> (forall y x, In y done -> In x xs -> key_le (fst y) (fst x)) ->
  minv tso uso (fold_left (dispatch tso uso) xs m) (done ++ xs).
Proof.
  induction xs as [|x xs IH]; intros m done Hi Hwf Hs Hd; simpl.
  - rewrite app_nil_r. exact Hi.
  - replace (done ++ x :: xs) with ((done ++ [x]) ++ xs) by (rewrite <- app_assoc; reflexivity).
    inversion Hs as [|? ? Hs' Hx]; subst. rewrite Forall_forall in Hx.
    apply IH.
    + apply dispatch_inv; [exact Hi|apply Hwf; left; reflexivity|].
      intros y Hy. apply Hd; [exact Hy|left; reflexivity].
    + intros kp Hkp. apply Hwf. right. exact Hkp.
    + exact Hs'.
    + intros y z Hy Hz. apply in_app_or in Hy. destruct Hy as [Hy|[<-|[]]].
      * apply Hd; [exact Hy|right; exact Hz].
      * apply Hx. exact Hz.
Qed.

Theorem run_inv tso uso batch : wf_batch batch -> minv tso uso (run tso uso batch) (sort_staged batch).
Proof.
  intros Hwf. unfold run.
  apply (fold_dispatch_inv tso uso (sort_staged batch) m0 []).
  - apply minv0.
  - intros kp Hkp. apply Hwf. apply (Permutation_in _ (sort_staged_perm batch)). exact Hkp.
  - apply sort_staged_sorted.
  - intros y x [].
Qed.

(* ---- nothing lost, duplicated or altered ---- *)

Lemma lane_transparent (pol : policy) (ok : slot -> Prop) (l : lane) :
  (forall s, ok s -> Forall2 (fun kp q => approx (snd kp) q) (s_mem s) (kernel_segment (slot_write pol s))) ->
  Forall ok (l_slots l) ->
  Forall2 (fun kp q => approx (snd kp) q) (lane_mem l) (tun_view (lane_writes pol l)).
Proof.
  intros Hslot Hall. unfold lane_mem, tun_view, lane_writes. rewrite map_map.
  apply Forall2_concat. induction Hall as [|s r Hs Hr IH]; simpl; constructor; auto.
Qed.

Lemma tun_view_app a b : tun_view (a ++ b) = tun_view a ++ tun_view b.
Proof. unfold tun_view. rewrite map_app, concat_app. reflexivity. Qed.

Theorem attribution_perm tso uso batch : wf_batch batch -> Permutation batch (attribution tso uso batch).
Proof.
  intros Hwf. unfold attribution. rewrite (mi_perm _ _ _ _ (run_inv tso uso batch Hwf)).
  symmetry. apply sort_staged_perm.
Qed.

Theorem attribution_approx tso uso batch :
  wf_batch batch ->
  Forall2 (fun kp q => approx (snd kp) q) (attribution tso uso batch) (tun_view (coalesce tso uso batch)).
Proof.
  intros Hwf. pose proof (run_inv tso uso batch Hwf) as Hi.
  unfold attribution, coalesce, attrib_of, writes_of. rewrite !tun_view_app.
  apply Forall2_app; [|apply Forall2_app].
  - apply (lane_transparent tcp_pol tcp_slot_ok); [apply tcp_slot_transparent|].
    apply (lc_slots _ _ _ _ _ _ (mi_tc _ _ _ _ Hi)).
  - apply (lane_transparent udp_pol udp_slot_ok); [apply udp_slot_transparent|].
    apply (lc_slots _ _ _ _ _ _ (mi_uc _ _ _ _ Hi)).
  - unfold tun_view. rewrite map_map. simpl.
    induction (m_pt (run tso uso batch)) as [|kp r IH]; simpl; constructor; [apply approxb_refl|exact IH].
Qed.

(* ---- per-flow order ---- *)

Lemma same_flow_spec p q : same_flow p q = true -> p_proto p = p_proto q /\ fk_of p = fk_of q.
Proof.
  unfold same_flow. intros H. apply andb_prop in H. destruct H as [H1 H2].
  apply N.eqb_eq in H1. apply fkey_eqb_eq in H2. auto.
Qed.

Lemma tcp_trailing_pure_ack p : p_proto p = coal_proto_tcp -> trailing tcp_pol p = true -> pure_ack p = true.
Proof.
  intros Hp. unfold trailing, pure_ack. cbn [tcp_pol pol_parse pol_cls].
  rewrite Hp, N.eqb_refl. intros H. apply andb_prop in H. destruct H as [H1 H2]. rewrite H1.
  destruct (tcp_admissible (p_flags p)); simpl in *; [|discriminate].
  destruct (paylen p =? 0); [reflexivity|discriminate].
Qed.

Lemma udp_trailing_false p : trailing udp_pol p = false.
Proof.
  unfold trailing. cbn [udp_pol pol_parse pol_cls]. destruct (paylen p =? 0); apply andb_false_r.
Qed.

Theorem attribution_order tso uso batch :
  wf_batch batch -> ForallOrdPairs order_rel (attribution tso uso batch).
Proof.
  intros Hwf. pose proof (run_inv tso uso batch Hwf) as Hi. unfold attribution, attrib_of.
  set (m := run tso uso batch) in *.
  assert (Hcross : forall x y, lane_of tso uso (snd x) <> lane_of tso uso (snd y) -> order_rel x y).
  { intros x y Hne _ Hsf. exfalso. apply Hne. apply same_flow_spec in Hsf. destruct Hsf as [Hp _].
    symmetry. apply lane_of_proto. exact Hp. }
  apply FOP_app. split; [|split].
  - apply (FOP_impl_in (lane_rel tcp_pol)); [|apply Hi].
    intros x y Hx Hy Hr Hlt Hsf. apply same_flow_spec in Hsf. destruct Hsf as [_ Hfk].
    apply tcp_trailing_pure_ack; [eapply lane_of_tcp; apply (mi_tl _ _ _ _ Hi); exact Hy|].
    apply Hr; assumption.
  - apply FOP_app. split; [|split].
    + apply (FOP_impl_in (lane_rel udp_pol)); [|apply Hi].
      intros x y Hx Hy Hr Hlt Hsf. apply same_flow_spec in Hsf. destruct Hsf as [_ Hfk].
      specialize (Hr Hlt Hfk). rewrite udp_trailing_false in Hr. discriminate.
    + apply (FOP_impl_in pt_rel); [|apply Hi].
      intros x y _ _ Hr Hlt. unfold pt_rel in Hr. congruence.
    + intros x y Hx Hy. apply Hcross.
      rewrite (mi_ul _ _ _ _ Hi x Hx), (mi_pl _ _ _ _ Hi y Hy). discriminate.
  - intros x y Hx Hy. apply Hcross. rewrite (mi_tl _ _ _ _ Hi x Hx).
    apply in_app_or in Hy. destruct Hy as [Hy|Hy].
    + rewrite (mi_ul _ _ _ _ Hi y Hy). discriminate.
    + rewrite (mi_pl _ _ _ _ Hi y Hy). discriminate.
Qed.

(* ---- geometry ---- *)

Lemma in_lane_writes pol l w : In w (lane_writes pol l) -> exists s, In s (l_slots l) /\ w = slot_write pol s.
Proof.
  unfold lane_writes. intros H. apply in_map_iff in H. destruct H as (s & E & Hs). exists s. auto.
Qed.

Lemma slot_write_gso pol s g :
  slot_write pol s = WGso g -> s_verb s = false /\ s_nseg s <> 1 /\ g = render pol s.
Proof.
  unfold slot_write. destruct (s_verb s); simpl; [discriminate|].
  destruct (s_nseg s =? 1) eqn:E; [discriminate|]. intros H. inversion H. apply N.eqb_neq in E. auto.
Qed.

Lemma chain_nseg_ge2 (n : N) (ms : list staged) : ms <> [] -> n = N.of_nat (length ms) -> n <> 1 -> 2 <= n.
Proof. intros Hne -> H1. destruct ms; [congruence|]. simpl length in *. lia. Qed.

Lemma seed_in_mem s kp0 rest : s_mem s = kp0 :: rest -> s_seed s = snd kp0 -> exists kp, In kp (s_mem s) /\ s_seed s = snd kp.
Proof. intros Em Es. exists kp0. rewrite Em. split; [left; reflexivity|exact Es]. Qed.

Theorem coalesce_geometry tso uso batch g :
  wf_batch batch -> In (WGso g) (coalesce tso uso batch) ->
  geometry_okb g = true /\ (ranges_batch batch -> seeds_okb g = true).
Proof.
  intros Hwf Hin. pose proof (run_inv tso uso batch Hwf) as Hi.
  pose proof (attribution_perm tso uso batch Hwf) as Hperm. unfold attribution in Hperm.
  unfold coalesce, writes_of in Hin. set (m := run tso uso batch) in *.
  apply in_app_or in Hin. destruct Hin as [Hin|Hin]; [|apply in_app_or in Hin; destruct Hin as [Hin|Hin]].
  - apply in_lane_writes in Hin. destruct Hin as (s & Hs & E). symmetry in E.
    apply slot_write_gso in E. destruct E as (Hv & Hn1 & ->).
    pose proof (lc_slots _ _ _ _ _ _ (mi_tc _ _ _ _ Hi)) as Hall. rewrite Forall_forall in Hall.
    specialize (Hall s Hs). unfold slot_ok in Hall. rewrite Hv in Hall. fold tcp_chain_ok in Hall.
    destruct (co_mem _ _ _ _ _ _ Hall) as (kp0 & rest & Em & Es).
    assert (H2 : 2 <= s_nseg s).
    { apply (chain_nseg_ge2 _ (s_mem s)); [rewrite Em; discriminate|apply (co_nseg _ _ _ _ _ _ Hall)|exact Hn1]. }
    split; [apply tcp_slot_geometry; assumption|].
    intros Hr. apply tcp_slot_seeds; [exact Hall|]. rewrite Es. apply Hr.
    apply (Permutation_in _ (Permutation_sym Hperm)). unfold attrib_of. apply in_or_app. left.
    unfold lane_mem. apply in_concat. exists (s_mem s). split; [apply in_map; exact Hs|rewrite Em; left; reflexivity].
  - apply in_lane_writes in Hin. destruct Hin as (s & Hs & E). symmetry in E.
    apply slot_write_gso in E. destruct E as (Hv & Hn1 & ->).
    pose proof (lc_slots _ _ _ _ _ _ (mi_uc _ _ _ _ Hi)) as Hall. rewrite Forall_forall in Hall.
    specialize (Hall s Hs). unfold slot_ok in Hall. rewrite Hv in Hall. fold udp_chain_ok in Hall.
    destruct (co_mem _ _ _ _ _ _ Hall) as (kp0 & rest & Em & Es).
    assert (H2 : 2 <= s_nseg s).
    { apply (chain_nseg_ge2 _ (s_mem s)); [rewrite Em; discriminate|apply (co_nseg _ _ _ _ _ _ Hall)|exact Hn1]. }
    split; [apply udp_slot_geometry; assumption|].
    intros Hr. apply udp_slot_seeds; [exact Hall|]. rewrite Es. apply Hr.
    apply (Permutation_in _ (Permutation_sym Hperm)). unfold attrib_of. apply in_or_app. right. apply in_or_app. left.
    unfold lane_mem. apply in_concat. exists (s_mem s). split; [apply in_map; exact Hs|rewrite Em; left; reflexivity].
  - apply in_map_iff in Hin. destruct Hin as (kp & E & _). discriminate.
Qed.

(* ---- the statements of C23 ---- *)

Definition delivered (tso uso : bool) (batch : list staged) : list pkt := tun_view (coalesce tso uso batch).

(* att: which staged packet each delivered packet is, in delivery order *)
Definition matches (att : list staged) (out : list pkt) : Prop := Forall2 (fun kp q => approx (snd kp) q) att out.

Definition flow_ordered (att : list staged) : Prop :=
  forall l1 q l2 p l3, att = l1 ++ q :: l2 ++ p :: l3 ->
    key_lt (fst p) (fst q) -> same_flow (snd p) (snd q) = true -> pure_ack (snd p) = true.

Theorem coalesce_transparent tso uso batch :
  wf_batch batch -> exists att, Permutation batch att /\ matches att (delivered tso uso batch).
Proof.
  intros Hwf. exists (attribution tso uso batch).
  split; [apply attribution_perm; exact Hwf|apply attribution_approx; exact Hwf].
Qed.

Theorem coalesce_flow_order tso uso batch :
  wf_batch batch ->
  exists att, Permutation batch att /\ matches att (delivered tso uso batch) /\ flow_ordered att.
Proof.
  intros Hwf. exists (attribution tso uso batch).
  split; [apply attribution_perm; exact Hwf|]. split; [apply attribution_approx; exact Hwf|].
  intros l1 q l2 p l3 E Hlt Hsf. pose proof (attribution_order tso uso batch Hwf) as Hfop.
  rewrite E in Hfop. apply FOP_decomp in Hfop. apply Hfop; assumption.
Qed.

(* the geometry of one superpacket, spelled out *)
Definition geometry (g : gso) : Prop :=
  let h := g_hdr g in
  let gs := N.of_nat (gso_size g) in
  let n := N.of_nat (length (g_pays g)) in
  let hl := if g_proto g =? 1 then tcp_hlen h else udp_hlen h in
  let total := hl + sum_lens (g_pays g) in
  (g_proto g = 1 \/ g_proto g = 2) /\
  2 <= n /\ n <= (if g_proto g =? 1 then coal_tcp_max_segs else coal_udp_max_segs) /\
  1 <= gs /\
  all_but_last (fun x => N.of_nat (length x) =? gs) (g_pays g) = true /\
  1 <= N.of_nat (length (last (g_pays g) [])) /\ N.of_nat (length (last (g_pays g) [])) <= gs /\
  total <= 65535 /\
  g_iplen g = (if p_v6 h then total - 40 else total) /\
  g_udplen g = (if g_proto g =? 2 then total - iphl h else 0) /\
  p_shape h = (if g_proto g =? 1 then ShTcp else ShUdp).

Lemma geometry_okb_sound g : geometry_okb g = true -> geometry g.
Proof.
  unfold geometry_okb, geometry. cbv zeta. rewrite !andb_true_iff, orb_true_iff, !N.leb_le, !N.eqb_eq.
  intros ((((((((((H1 & H2) & H3) & H4) & H5) & H6) & H7) & H8) & H9) & H10) & H11).
  repeat split; auto.
  destruct (g_proto g =? 1); unfold is_shape in H11; apply shape_eqb_eq in H11; exact H11.
Qed.

Theorem coalesce_geometry_spec tso uso batch g :
  wf_batch batch -> In (WGso g) (coalesce tso uso batch) -> geometry g.
Proof.
  intros Hwf Hin. apply geometry_okb_sound. apply (coalesce_geometry tso uso batch g Hwf Hin).
Qed.

(* the checksum fields of one superpacket header *)
Definition checksum_seeds (g : gso) : Prop :=
  let h := g_hdr g in
  let hl := if g_proto g =? 1 then tcp_hlen h else udp_hlen h in
  let total := hl + sum_lens (g_pays g) in
  p_l4ck h = fold16 (pseudo_sum h (if g_proto g =? 1 then 6 else 17) (total - iphl h)) /\
  (p_v6 h = true \/ fold16 (ipv4_hdr_sum h (g_iplen g) + p_ipck h) = 65535).

Theorem coalesce_seeds_spec tso uso batch g :
  wf_batch batch -> ranges_batch batch -> In (WGso g) (coalesce tso uso batch) -> checksum_seeds g.
Proof.
  intros Hwf Hr Hin. destruct (coalesce_geometry tso uso batch g Hwf Hin) as [_ Hs]. specialize (Hs Hr).
  unfold seeds_okb in Hs. unfold checksum_seeds. cbv zeta in *.
  apply andb_prop in Hs. destruct Hs as [H1 H2]. apply N.eqb_eq in H1. split; [exact H1|].
  apply orb_true_iff in H2. destruct H2 as [H2|H2]; [left; exact H2|right; apply N.eqb_eq; exact H2].
Qed.

Lemma wf_batch_forallb b : forallb (fun kp => wf_pktb (snd kp)) b = true -> wf_batch b.
Proof. intros H kp Hin. rewrite forallb_forall in H. apply H. exact Hin. Qed.

Lemma ranges_batch_forallb b : forallb (fun kp => ranges_okb (snd kp)) b = true -> ranges_batch b.
Proof. intros H kp Hin. rewrite forallb_forall in H. apply H. exact Hin. Qed.

(* the hypotheses are satisfiable, on a batch that exercises the interesting paths: three data segments of one
   IPv4 TCP flow arriving out of order with a pure ACK in between, two datagrams of an IPv6 UDP flow, one ICMP *)
Definition ex_tcp (id seq flags : N) (pay : list N) : pkt :=
  mkPkt 6 ShTcp false 167772161 167772162 1000 2000 0 0 64 6 false false id seq 7 0 flags 512 0 [] 0 0 pay [] [].
Definition ex_udp (pay : list N) : pkt :=
  mkPkt 17 ShUdp true 1 2 53 5353 0 0 64 17 false false 0 0 0 0 0 0 0 [] 0 0 pay [] [].
Definition ex_batch : list staged :=
  [ ((1, 3), ex_tcp 102 1008 24 [9; 10]);
    ((1, 1), ex_tcp 100 1000 16 [1; 2; 3; 4]);
    ((1, 4), ex_udp [1; 2; 3]);
    ((1, 2), ex_tcp 101 1004 16 [5; 6; 7; 8]);
    ((1, 5), ex_tcp 103 1010 16 []);
    ((1, 6), ex_udp [4; 5; 6]);
    ((1, 7), mkPkt 1 ShOther false 167772161 167772162 0 0 0 0 0 0 false false 0 0 0 0 0 0 0 [] 0 0 [] [] [69; 0; 0; 28]) ].

Example ex_batch_ok :
  wf_batch ex_batch /\ ranges_batch ex_batch /\
  map (fun w => match w with WPlain _ => 1 | WGso g => N.of_nat (length (g_pays g)) end) (coalesce true true ex_batch)
  = [3; 1; 2; 1].
Proof.
  split; [apply wf_batch_forallb; vm_compute; reflexivity|].
  split; [apply ranges_batch_forallb; vm_compute; reflexivity|].
  vm_compute. reflexivity.
Qed.

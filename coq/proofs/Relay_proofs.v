(* C39: the theorems about forwarding, transitions and clean-up, over all reachable states of the relay node model. *)
From Coq Require Import List NArith Bool Lia.
Import ListNotations.
From NV Require Import lib.Relay_lib gen.Tab_Relay model.Relay proofs.Relay_maps proofs.Relay_tab proofs.Relay_inv proofs.Relay_step.
Open Scope N_scope.

(* ---- the forward lookup ------------------------------------------------------------------------------------------------ *)

Lemma find_est_spec recs addrs x :
  find_est recs addrs = Some x -> In x recs /\ In (r_peer x) addrs /\ r_st x = SEst.
Proof.
  induction addrs as [|a addrs IH]; simpl; [discriminate |].
  destruct (rec_by_addr recs a) as [y|] eqn:R.
  - destruct (rstate_eqb (r_st y) SEst) eqn:S.
    + intros H. inversion H; subst y. apply rec_by_addr_some in R as [R1 R2]. apply rstate_eqb_eq in S.
      repeat split; auto.
    + intros H. destruct (IH H) as (A & B & C). auto.
  - intros H. destruct (IH H) as (A & B & C). auto.
Qed.

Lemma query_relay_for_spec s l addrs t x :
  query_relay_for s l addrs = Some (t, x) ->
  In t l /\ exists tq, tun s t = Some tq /\ In x (t_recs tq) /\ In (r_peer x) addrs /\ r_st x = SEst.
Proof.
  induction l as [|y l IH]; simpl; [discriminate |].
  destruct (tun s y) as [tq|] eqn:E.
  - destruct (find_est (t_recs tq) addrs) as [z|] eqn:F.
    + intros H. inversion H; subst y z. destruct (find_est_spec _ _ _ F) as (A & B & C).
      split; [now left |]. exists tq. auto.
    + intros H. destruct (IH H) as [A B]. auto.
  - intros H. destruct (IH H) as [A B]. auto.
Qed.

(* everything the forward decision rests on: [th] the source tunnel, [rin] its record under the index of the packet,
   [tq] the tunnel the packet is re-sent on *)
Record forward_facts (s : state) (h idx t : N) (r : relay) (th tq : tunnel) (rin : relay) : Prop := mkFF {
  ff_src : tun s h = Some th;
  ff_dst : tun s t = Some tq;
  ff_in : rec_by_idx (t_recs th) idx = Some rin;
  (* the incoming leg: a forwarding record, created while this node was a relay, not naming this node *)
  ff_in_fwd : r_ty rin = TFwd;
  ff_in_am : r_am rin = true;
  ff_in_notme : is_me s (r_peer rin) = false;
  (* the target: a live tunnel in the address list of the incoming record's peer address, certified for it *)
  ff_dst_listed : In t (hostlist s (r_peer rin));
  ff_dst_addr : In (r_peer rin) (t_addrs tq);
  ff_dst_alive : t_alive tq = true;
  (* the onward leg: an Established forwarding record of the target for one of the source's certified addresses *)
  ff_out_in : In r (t_recs tq);
  ff_out_fwd : r_ty r = TFwd;
  ff_out_est : r_st r = SEst;
  ff_out_addr : In (r_peer r) (t_addrs th);
  ff_out_am : r_am r = true;
  ff_out_notme : is_me s (r_peer r) = false
}.

Lemma forward_sound ns s h idx t r :
  Inv ns s -> forward s h idx = Some (t, r) -> exists th tq rin, forward_facts s h idx t r th tq rin.
Proof.
  intros I F. unfold forward in F.
  destruct (tun s h) as [th|] eqn:Eh; [| discriminate].
  destruct (rec_by_idx (t_recs th) idx) as [rin|] eqn:Ri; [| discriminate].
  destruct (r_ty rin) eqn:Ty; [| discriminate].
  destruct (query_relay_for s (hostlist s (r_peer rin)) (t_addrs th)) as [[t0 r0]|] eqn:Q; [| discriminate].
  destruct (rstate_eqb (r_st r0) SEst) eqn:S; [| discriminate].
  destruct (r_ty r0) eqn:Ty0; [| discriminate].
  inversion F; subst t0 r0. clear F.
  destruct (query_relay_for_spec _ _ _ _ _ Q) as [Hl [tq [Eq [Inr [Ha St]]]]].
  destruct (inv_hosts _ _ I _ _ Hl) as [tq' [Eq' [Hpa Al]]]. rewrite Eq in Eq'. inversion Eq'; subst tq'.
  pose proof (rec_by_idx_some _ _ _ Ri) as [Inrin _].
  destruct (inv_fwd _ _ I h th rin Eh Inrin Ty) as [Am Nm].
  destruct (inv_fwd _ _ I t tq r Eq Inr Ty0) as [Am0 Nm0].
  exists th, tq, rin. constructor; auto.
Qed.

(* the receive path: the source is the live tunnel HostMap.Relays names for the index *)
Lemma forward_pkt_sound ns s idx h t r :
  Inv ns s -> forward_pkt s idx = Some (h, t, r) ->
  mget idx (s_relays s) = Some h /\
  exists th tq rin, forward_facts s h idx t r th tq rin /\ t_alive th = true.
Proof.
  intros I F. unfold forward_pkt in F. destruct (mget idx (s_relays s)) as [h0|] eqn:R; [| discriminate].
  destruct (forward s h0 idx) as [[t0 r0]|] eqn:Fw; [| discriminate]. inversion F; subst h0 t0 r0.
  split; [reflexivity |].
  destruct (forward_sound _ _ _ _ _ _ I Fw) as [th [tq [rin ff]]]. exists th, tq, rin. split; [exact ff |].
  destruct (inv_relays _ _ I _ _ R) as [th' [E [Al _]]]. rewrite (ff_src _ _ _ _ _ _ _ _ ff) in E. now inversion E; subst.
Qed.

(* a packet comes back to its sender only over a record naming one of the sender's own addresses *)
Lemma reflection_needs_own_address s h idx r th tq rin :
  forward_facts s h idx h r th tq rin -> In (r_peer rin) (t_addrs th).
Proof.
  intros ff. pose proof (ff_src _ _ _ _ _ _ _ _ ff) as E1. pose proof (ff_dst _ _ _ _ _ _ _ _ ff) as E2.
  assert (E3 : th = tq) by congruence. rewrite E3. apply (ff_dst_addr _ _ _ _ _ _ _ _ ff).
Qed.

(* if no tunnel ever asks for a relay to one of its own addresses, the relay never reflects a packet *)
Lemma no_reflection s h idx t r : Inv true s -> forward s h idx = Some (t, r) -> t <> h.
Proof.
  intros I F Eq. subst t.
  destruct (forward_sound true s h idx h r I F) as [th [tq [rin ff]]].
  pose proof (rec_by_idx_some _ _ _ (ff_in _ _ _ _ _ _ _ _ ff)) as [Inrin _].
  apply (inv_noself _ _ I eq_refl h _ _ (ff_src _ _ _ _ _ _ _ _ ff) Inrin (ff_in_fwd _ _ _ _ _ _ _ _ ff)).
  eapply reflection_needs_own_address; eauto.
Qed.

(* ---- transitions ------------------------------------------------------------------------------------------------------------ *)

Lemma op_ok_allowed o a b : op_ok o a b -> a = b \/ In (a, b) allowed_transitions.
Proof.
  intros H.
  assert (D : a = b \/ (a <> b /\ b <> SPeerReq)).
  { destruct o; simpl in H; unfold msg_ok, to_dis in H.
    all: destruct a, b; try (left; reflexivity); right; split; try discriminate.
    all: exfalso; intuition discriminate. }
  destruct D as [D|D]; [now left | right; now apply allowed_transitions_char].
Qed.

(* Established is entered by control messages only *)
Lemma established_by_message_only o a b : op_ok o a b -> b = SEst -> a <> SEst -> exists h w cs, o = OMsg h w cs.
Proof.
  intros H Eb Na. destruct o; simpl in H; unfold to_dis in H; subst b; try (exfalso; intuition congruence).
  eauto.
Qed.

Lemma step_records ns s o x t r :
  Inv ns s -> (ns = true -> wf_op s o = true) -> tun s x = Some t -> In r (t_recs t) ->
  exists t' r', tun (step_state s o) x = Some t' /\ In r' (t_recs t') /\
                r_peer r' = r_peer r /\ r_idx r' = r_idx r /\ r_ty r' = r_ty r /\ r_am r' = r_am r /\
                op_ok o (r_st r) (r_st r').
Proof.
  intros I W E Hr. destruct (step_spec ns s o I W) as [_ [_ Ev]].
  destruct (Ev x t E) as [t' [E' [_ [_ [_ [_ R]]]]]].
  destruct (R r Hr) as [r' [Hr' [(S1 & S2 & S3 & S4 & S5) Q]]].
  exists t', r'. repeat split; auto.
Qed.

(* ---- clean-up ------------------------------------------------------------------------------------------------------------------ *)

(* a tunnel that is not live owns nothing: no Relays entry, no Indexes entry, no place in an address list, and it is
   neither source nor target of a forwarded packet *)
Lemma dead_owns_nothing ns s h t :
  Inv ns s -> tun s h = Some t -> t_alive t = false ->
  (forall i, mget i (s_relays s) <> Some h) /\ (forall i, mget i (s_index s) <> Some h) /\
  (forall a, ~ In h (hostlist s a)) /\
  (forall idx x y r, forward_pkt s idx = Some (x, y, r) -> x <> h /\ y <> h).
Proof.
  intros I E D.
  assert (R : forall i, mget i (s_relays s) <> Some h).
  { intros i Hi. destruct (inv_relays _ _ I _ _ Hi) as [t' [E' [Al _]]]. congruence. }
  assert (L : forall a, ~ In h (hostlist s a)).
  { intros a Ha. destruct (inv_hosts _ _ I _ _ Ha) as [t' [E' [_ Al]]]. congruence. }
  split; [exact R |]. split; [| split; [exact L |]].
  - intros i Hi. destruct (inv_index _ _ I _ _ Hi) as [t' [E' [Al _]]]. congruence.
  - intros idx x y r F. destruct (forward_pkt_sound _ _ _ _ _ _ I F) as [Rx [th [tq [rin [ff _]]]]]. split.
    + intros ->. exact (R _ Rx).
    + intros ->. exact (L _ (ff_dst_listed _ _ _ _ _ _ _ _ ff)).
Qed.

Lemma dead_stays_dead ns s h t ops :
  Inv ns s -> (ns = false) -> tun s h = Some t -> t_alive t = false ->
  Inv ns (run s ops) /\ exists t', tun (run s ops) h = Some t' /\ t_alive t' = false.
Proof.
  intros I Hns. revert s t I. induction ops as [|o ops IH]; intros s t I E D; simpl.
  - split; [exact I | eauto].
  - destruct (step_spec ns s o I) as [J [_ Ev]]; [subst; discriminate |].
    destruct (Ev h t E) as [t' [E' [_ [_ [_ [Al _]]]]]].
    apply (IH (step_state s o) t' J E' (Al D)).
Qed.

(* deleting a tunnel: afterwards, and for the rest of the history, nothing refers to it *)
Lemma cleanup me am s h t ops :
  reach me am s -> tun s h = Some t ->
  let s' := run (step_state s (ODel h)) ops in
  (forall i, mget i (s_relays s') <> Some h) /\ (forall i, mget i (s_index s') <> Some h) /\
  (forall a, ~ In h (hostlist s' a)) /\
  (forall idx x y r, forward_pkt s' idx = Some (x, y, r) -> x <> h /\ y <> h).
Proof.
  intros R E. pose proof (reach_inv _ _ _ R) as I.
  destruct (delete_tunnel_spec false s h I) as (J & _ & _ & Dd & _).
  destruct (Dd t E) as [t1 [E1 D1]].
  destruct (dead_stays_dead false (step_state s (ODel h)) h t1 ops J eq_refl E1 D1) as [K [t2 [E2 D2]]].
  exact (dead_owns_nothing false _ h t2 K E2 D2).
Qed.

(* ---- the peer legs are disestablished when the last tunnel of a peer goes ----------------------------------------------------- *)

Definition legs_dis (key : N) (s : state) (a : N) : Prop :=
  forall x tx r, In x (hostlist s a) -> tun s x = Some tx -> In r (t_recs tx) -> r_peer r = key -> r_st r = SDis.

(* a to_dis frame keeps what is already disestablished *)
Lemma legs_dis_frame key s s' a : frame to_dis s s' -> legs_dis key s a -> legs_dis key s' a.
Proof.
  intros F L x tx' r' Hx E' Hr' K. rewrite (frame_hostlist _ _ _ _ F) in Hx.
  destruct (frame_tun _ _ _ _ _ F E') as [tx [E (_ & _ & _ & _ & _ & FA)]].
  destruct (Forall2_in_r _ _ _ _ FA Hr') as [r [Hr [(S1 & _) Q]]].
  assert (D : r_st r = SDis) by (apply (L x tx r Hx E Hr); congruence).
  destruct Q as [Q|Q]; congruence.
Qed.

Lemma set_dis_tunnel key s x :
  forall tx r, tun (set_state_by_addr x key SDis s) x = Some tx -> In r (t_recs tx) -> r_peer r = key -> r_st r = SDis.
Proof.
  intros tx r E Hr K. unfold set_state_by_addr, map_recs in E. destruct (tun s x) as [t0|] eqn:E0.
  - rewrite tun_with_tun, N.eqb_refl in E. inversion E; subst tx. simpl in Hr.
    apply in_map_iff in Hr as [r0 [Er Hr0]]. destruct (r_peer r0 =? key) eqn:K0.
    + subst r. reflexivity.
    + subst r. apply N.eqb_neq in K0. contradiction.
  - congruence.
Qed.

Lemma dis_addr_legs key s a : legs_dis key (dis_addr key s a) a.
Proof.
  unfold dis_addr.
  (* generalise: after folding over l, every tunnel of l has its key-records disestablished *)
  assert (G : forall l s0, (forall a', hostlist s0 a' = hostlist s a') ->
            let s1 := fold_left (fun s' x => set_state_by_addr x key SDis s') l s0 in
            (forall a', hostlist s1 a' = hostlist s a') /\
            forall x tx r, In x l -> tun s1 x = Some tx -> In r (t_recs tx) -> r_peer r = key -> r_st r = SDis).
  { induction l as [|y l IH]; intros s0 H0; simpl.
    - split; [exact H0 | intros; contradiction].
    - set (sy := set_state_by_addr y key SDis s0).
      assert (Fy : frame to_dis s0 sy) by (apply frame_set_state_by_addr; [apply to_dis_refl | intros; now right]).
      assert (Hy : forall a', hostlist sy a' = hostlist s a') by (intros; rewrite (frame_hostlist _ _ _ _ Fy); apply H0).
      destruct (IH sy Hy) as [H1 H2]. split; [exact H1 |].
      intros x tx r [->|Hx] E Hr K; [| eapply H2; eauto].
      (* y itself: disestablished by its own step, kept by the later ones *)
      assert (Fl : frame to_dis sy (fold_left (fun s' x => set_state_by_addr x key SDis s') l sy)).
      { apply frame_fold; [apply to_dis_refl | apply to_dis_trans |]. intros s2 z.
        apply frame_set_state_by_addr; [apply to_dis_refl | intros; now right]. }
      destruct (frame_tun _ _ _ _ _ Fl E) as [ty [Ey (_ & _ & _ & _ & _ & FA)]].
      destruct (Forall2_in_r _ _ _ _ FA Hr) as [r0 [Hr0 [(S1 & _) Q]]].
      assert (D : r_st r0 = SDis) by (apply (set_dis_tunnel key s0 x ty r0 Ey Hr0); congruence).
      destruct Q as [Q|Q]; congruence. }
  destruct (G (hostlist s a) s (fun _ => eq_refl)) as [H1 H2].
  intros x tx r Hx E Hr K. rewrite H1 in Hx. eapply H2; eauto.
Qed.

Lemma disestablish_legs t s r :
  In r (t_recs t) -> r_ty r = TFwd -> legs_dis (addr0 t) (disestablish t s) (r_peer r).
Proof.
  intros Hr Ty. unfold disestablish.
  set (key := addr0 t).
  set (g := fun (s' : state) (r0 : relay) => match r_ty r0 with TFwd => dis_addr key s' (r_peer r0) | TTerm => s' end).
  assert (Fg : forall s0 r0, frame to_dis s0 (g s0 r0)).
  { intros s0 r0. unfold g. destruct (r_ty r0); [apply frame_dis_addr | apply frame_refl, to_dis_refl]. }
  generalize (fold_left (dis_addr key) (t_via t) s) as s1.
  induction (t_recs t) as [|y l IH]; intros s1; [contradiction |].
  cbn [fold_left]. destruct Hr as [->|Hr].
  - apply legs_dis_frame with (s := g s1 r).
    + apply frame_fold; [apply to_dis_refl | apply to_dis_trans | exact Fg].
    + unfold g. rewrite Ty. apply dis_addr_legs.
  - apply IH. exact Hr.
Qed.

(* the [final] flag of unlockedDeleteHostInfo: true when the tunnel is the only one for each of its addresses *)
Lemma del_addrs_final ns h l : forall s f s1 f1,
  Inv ns s -> (forall a x, In a l -> In x (hostlist s a) -> x = h) ->
  fold_left (del_addr h) l (s, f) = (s1, f1) -> f1 = f.
Proof.
  induction l as [|a l IH]; intros s f s1 f1 I Only F; cbn [fold_left] in F; [now inversion F |].
  destruct (del_addr h (s, f) a) as [sm fm] eqn:D.
  assert (Hm : fm = f /\ Inv ns sm /\ forall a' x, In x (hostlist sm a') -> In x (hostlist s a')).
  { pose proof (del_addrs_spec ns h [a] s f sm fm I) as Sp. cbn [fold_left] in Sp. specialize (Sp D).
    destruct Sp as (Im & _ & _ & _ & _ & _ & Sub & _). split; [| split; [exact Im | exact Sub]].
    unfold del_addr in D. destruct (memN h (hostlist s a)) eqn:Mh.
    - assert (E : remove_first h (hostlist s a) = []).
      { pose proof (inv_nodup _ _ I a) as ND. destruct (hostlist s a) as [|x rest] eqn:HL; [reflexivity |].
        assert (Hx : x = h) by (apply (Only a x (or_introl eq_refl)); rewrite HL; now left). subst x.
        simpl. rewrite N.eqb_refl. destruct rest as [|y rest']; [reflexivity |]. exfalso.
        assert (Hy : y = h) by (apply (Only a y (or_introl eq_refl)); rewrite HL; right; now left). subst y.
        inversion ND as [|? ? Nin _]. apply Nin. now left. }
      rewrite E in D. now inversion D.
    - apply memN_false in Mh. destruct (hostlist s a) as [|x rest] eqn:HL; [now inversion D |]. exfalso. apply Mh.
      rewrite (Only a x (or_introl eq_refl)) at 1; [now left | rewrite HL; now left]. }
  destruct Hm as (-> & Im & Sub).
  apply (IH sm f s1 f1 Im); [| exact F]. intros a' x Ha' Hx. apply (Only a' x (or_intror Ha')). now apply Sub.
Qed.

(* losing the last tunnel to a peer disestablishes, on every tunnel of every peer it was paired with, the record kept
   for the lost peer's first address *)
Lemma delete_disestablishes ns s h t r :
  Inv ns s -> tun s h = Some t -> (forall a x, In a (t_addrs t) -> In x (hostlist s a) -> x = h) ->
  In r (t_recs t) -> r_ty r = TFwd -> legs_dis (addr0 t) (delete_tunnel h s) (r_peer r).
Proof.
  intros I E Only Hr Ty. unfold delete_tunnel. rewrite E.
  destruct (fold_left (del_addr h) (t_addrs t) (s, true)) as [s1 final] eqn:D.
  rewrite (del_addrs_final ns h (t_addrs t) s true s1 final I Only D).
  match goal with |- legs_dis _ (kill h (with_relays (disestablish t ?s2) _)) _ => set (s3 := disestablish t s2) end.
  generalize (del_rels h (map r_idx (t_recs t)) (s_relays s3)) as rl. intros rl.
  pose proof (disestablish_legs t _ r Hr Ty : legs_dis (addr0 t) s3 (r_peer r)) as L.
  intros x tx r' Hx Ex Hr' K.
  assert (HL : hostlist (kill h (with_relays s3 rl)) (r_peer r) = hostlist s3 (r_peer r)).
  { unfold kill. destruct (tun (with_relays s3 rl) h); reflexivity. }
  rewrite HL in Hx. unfold kill in Ex. change (tun (with_relays s3 rl) h) with (tun s3 h) in Ex.
  destruct (tun s3 h) as [t3|] eqn:E3.
  - rewrite tun_with_tun in Ex. destruct (x =? h) eqn:X.
    + apply N.eqb_eq in X. subst x. inversion Ex; subst tx. simpl in Hr'. eapply (L h t3 r'); eauto.
    + eapply (L x tx r'); eauto.
  - eapply (L x tx r'); eauto.
Qed.

(* ---- the statements used by props/C39.v ---------------------------------------------------------------------------------------- *)

Lemma is_me_false s a : is_me s a = false -> ~ In a (s_me s).
Proof. unfold is_me. apply memN_false. Qed.

Lemma forward_sound_reach me am s h idx t r :
  reach me am s -> forward s h idx = Some (t, r) ->
  exists th tq rin, forward_facts s h idx t r th tq rin /\ ~ In (r_peer rin) me /\ ~ In (r_peer r) me.
Proof.
  intros R F. destruct (forward_sound false s h idx t r (reach_inv _ _ _ R) F) as [th [tq [rin ff]]].
  exists th, tq, rin. split; [exact ff |]. rewrite <- (reach_me _ _ _ R).
  split; apply is_me_false; [apply (ff_in_notme _ _ _ _ _ _ _ _ ff) | apply (ff_out_notme _ _ _ _ _ _ _ _ ff)].
Qed.

Lemma forward_pkt_sound_reach me am s idx h t r :
  reach me am s -> forward_pkt s idx = Some (h, t, r) ->
  mget idx (s_relays s) = Some h /\
  exists th tq rin, forward_facts s h idx t r th tq rin /\ t_alive th = true /\ ~ In (r_peer rin) me /\ ~ In (r_peer r) me.
Proof.
  intros R F. destruct (forward_pkt_sound false s idx h t r (reach_inv _ _ _ R) F) as [Rl [th [tq [rin [ff Al]]]]].
  split; [exact Rl |]. exists th, tq, rin. split; [exact ff |]. split; [exact Al |]. rewrite <- (reach_me _ _ _ R).
  split; apply is_me_false; [apply (ff_in_notme _ _ _ _ _ _ _ _ ff) | apply (ff_out_notme _ _ _ _ _ _ _ _ ff)].
Qed.

Lemma no_reflection_reach me am s h idx t r : reach_wf me am s -> forward s h idx = Some (t, r) -> t <> h.
Proof. intros R. apply no_reflection. eapply reach_wf_inv; eauto. Qed.

Lemma reflection_reach me am s h idx r :
  reach me am s -> forward s h idx = Some (h, r) ->
  exists th rin, tun s h = Some th /\ rec_by_idx (t_recs th) idx = Some rin /\ In (r_peer rin) (t_addrs th).
Proof.
  intros R F. destruct (forward_sound false s h idx h r (reach_inv _ _ _ R) F) as [th [tq [rin ff]]].
  exists th, rin. split; [apply (ff_src _ _ _ _ _ _ _ _ ff) |]. split; [apply (ff_in _ _ _ _ _ _ _ _ ff) |].
  eapply reflection_needs_own_address; eauto.
Qed.

Lemma transitions_reach me am s o x t r :
  reach me am s -> tun s x = Some t -> In r (t_recs t) ->
  exists t' r', tun (step_state s o) x = Some t' /\ In r' (t_recs t') /\
                r_peer r' = r_peer r /\ r_idx r' = r_idx r /\ r_ty r' = r_ty r /\
                op_ok o (r_st r) (r_st r') /\
                (r_st r = r_st r' \/ In (r_st r, r_st r') allowed_transitions).
Proof.
  intros R E Hr.
  destruct (step_records false s o x t r (reach_inv _ _ _ R) ltac:(discriminate) E Hr) as [t' [r' (A & B & C & D & F & _ & G)]].
  exists t', r'. repeat split; auto. now apply op_ok_allowed with (o := o).
Qed.

Lemma peer_legs_reach me am s h t r :
  reach me am s -> tun s h = Some t -> (forall a x, In a (t_addrs t) -> In x (hostlist s a) -> x = h) ->
  In r (t_recs t) -> r_ty r = TFwd ->
  forall x tx r', In x (hostlist (step_state s (ODel h)) (r_peer r)) -> tun (step_state s (ODel h)) x = Some tx ->
                  In r' (t_recs tx) -> r_peer r' = addr0 t -> r_st r' = SDis.
Proof. intros R E Only Hr Ty. exact (delete_disestablishes false s h t r (reach_inv _ _ _ R) E Only Hr Ty). Qed.

Lemma conservative_never_establish a b : In (a, b) conservative_transitions -> b <> SEst.
Proof. unfold conservative_transitions. simpl. intros H. repeat (destruct H as [H|H]; [inversion H; discriminate |]). destruct H. Qed.

(* ---- witnesses ------------------------------------------------------------------------------------------------------------------------ *)

(* three parties: tunnel 0 (10.0.0.2) asks for a relay to 10.0.0.3 (tunnel 1), the target confirms *)
Definition happy_ops : list op :=
  [OAdd 0 [167772162] 11 true false; OAdd 1 [167772163] 12 true false;
   OMsg 0 (mkW 1 0 0 (Some 167772162) (Some 167772163) 501 0) [7001; 7002; 7003];
   OMsg 1 (mkW 2 0 0 (Some 167772162) (Some 167772163) 7001 601) []].
Definition happy_state : state := run (init [167772161] true) happy_ops.

Lemma happy_wf : reach_wf [167772161] true happy_state.
Proof. apply reach_wf_run; [constructor | vm_compute; reflexivity]. Qed.

Lemma happy_forwards :
  (exists r, forward happy_state 0 7002 = Some (1, r) /\ r_idx r = 7001 /\ r_rem r = 601) /\
  (exists r, forward happy_state 1 7001 = Some (0, r) /\ r_idx r = 7002 /\ r_rem r = 501) /\
  forward_pkt happy_state 9999 = None.
Proof. vm_compute. split; [eexists; repeat split | split; [eexists; repeat split | reflexivity]]. Qed.

(* a tunnel asks for a relay to its own address and confirms the record itself: its packets come back to it *)
Definition self_ops : list op :=
  [OAdd 0 [167772162] 11 true false;
   OMsg 0 (mkW 1 0 0 (Some 167772169) (Some 167772162) 501 0) [6306; 46339; 31980];
   OMsg 0 (mkW 2 0 0 (Some 167772162) (Some 167772162) 46339 777) []].

Lemma self_relay_reflects :
  exists r, forward (run (init [167772161] true) self_ops) 0 46339 = Some (0, r) /\
            wf_run (init [167772161] true) self_ops = false.
Proof. vm_compute. eexists. split; reflexivity. Qed.

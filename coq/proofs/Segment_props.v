(* Segment_props: what every segment of the from-scratch reference looks like - payload, lengths, valid checksums,
   sequence numbers, flags, IDs, copied header bytes. Combined with Segment_ref (incremental = reference) these are
   the statements of props/C24.v. *)
From Coq Require Import List NArith ZArith Bool Arith Lia ZifyN ZifyNat ZifyBool.
Import ListNotations.
From NV Require Import lib.Bytes lib.Ones model.Segment proofs.Segment_buf proofs.Segment_arith proofs.Segment_geom
  proofs.Segment_ref.
Open Scope N_scope.
Local Ltac Zify.zify_post_hook ::= Z.div_mod_to_equations.

(* ---------------------------------------------------------------------------------------------- *)
(** * checksum insertion *)

(* a region P ++ z ++ chunk whose 16-bit field at even offset off of z is zero receives the stored value c *)
Lemma region_valid P z chunk off c :
  Nat.even (length P) = true -> Nat.even (length z) = true -> Nat.even off = true -> (off + 2 <= length z)%nat ->
  rd16 z off = 0 -> c <= 65535 ->
  (c = cpl16 (fold16 (sum16 (P ++ z ++ chunk))) \/ (c = 65535 /\ fold16 (sum16 (P ++ z ++ chunk)) = 65535)) ->
  valid_csum (P ++ wr16 z off c ++ chunk).
Proof.
  intros EP Ez Eo Hoff Hz Hc Hcase. unfold valid_csum.
  assert (Lw : length (wr16 z off c) = length z) by (apply wr16_length; exact Hoff).
  rewrite sum16_app by exact EP. rewrite sum16_app by (rewrite Lw; exact Ez).
  pose proof (sum16_wr16 z off c Eo Hoff ltac:(lia)) as Sw. rewrite Hz in Sw.
  rewrite sum16_app in Hcase by exact EP. rewrite sum16_app in Hcase by exact Ez.
  set (S0 := sum16 P + (sum16 z + sum16 chunk)) in *.
  replace (sum16 P + (sum16 (wr16 z off c) + sum16 chunk)) with (S0 + c) by (unfold S0; lia).
  apply valid_csum_field_iff; assumption.
Qed.

Lemma cpl16_fold_le x : cpl16 (fold16 x) <= 65535.
Proof. apply cpl16_le. Qed.

(* ---------------------------------------------------------------------------------------------- *)
(** * the L3 header of a reference segment *)

Lemma ref_ip_v4_props iph segLen i oid :
  (20 <= ihl_of iph <= length iph)%nat -> N.of_nat segLen <= 65535 ->
  let h := ref_ip true iph segLen i oid in
  length h = length iph /\
  rd16 h 2 = N.of_nat segLen /\
  rd16 h 4 = (oid + N.of_nat i) mod 65536 /\
  valid_csum (firstn (ihl_of iph) h) /\
  (forall k, (k < 2 \/ 6 <= k < 10 \/ 12 <= k)%nat -> bat h k = bat iph k).
Proof.
  intros Hihl Hlen h. unfold h, ref_ip.
  set (tl := N.of_nat segLen). set (id := (oid + N.of_nat i) mod 65536).
  assert (Hid : id < 65536) by (unfold id; apply N.mod_lt; discriminate).
  set (X := wr16 (wr16 iph 2 tl) 4 id).
  assert (LX : length X = length iph) by (unfold X; wlen).
  set (z := wr16 X 10 0).
  assert (Lz : length z = length iph) by (unfold z; wlen).
  set (ihl := ihl_of iph) in *.
  set (c := csum16 (firstn ihl z) 0).
  split; [wlen|]. split; [|split; [|split]].
  - rewrite rd16_wr16_out by wlen. unfold z. rewrite rd16_wr16_out by wlen.
    unfold X. rewrite rd16_wr16_out by wlen. apply rd16_wr16_same; [lia|unfold tl; lia].
  - rewrite rd16_wr16_out by wlen. unfold z. rewrite rd16_wr16_out by wlen.
    unfold X. apply rd16_wr16_same; [wlen|exact Hid].
  - rewrite firstn_wr16 by wlen.
    assert (Ez : firstn ihl z = wr16 (firstn ihl X) 10 0) by (unfold z; apply firstn_wr16; wlen).
    set (zz := firstn ihl z) in *.
    assert (Lzz : length zz = ihl) by (unfold zz; rewrite firstn_length; lia).
    assert (Ev : Nat.even ihl = true) by (unfold ihl, ihl_of; apply even_mul4).
    pose proof (region_valid [] zz [] 10 c eq_refl ltac:(rewrite Lzz; exact Ev) eq_refl ltac:(lia)) as R.
    cbn [app] in R. rewrite !app_nil_r in R. apply R.
    + rewrite Ez. apply rd16_wr16_same; [rewrite firstn_length; lia|lia].
    + unfold c. apply csum16_le.
    + left. unfold c, csum16, osum. reflexivity.
  - intros k Hk. rewrite bat_wr16_out by wlen. unfold z. rewrite bat_wr16_out by wlen.
    unfold X. rewrite !bat_wr16_out by wlen. reflexivity.
Qed.

Lemma ref_ip_v6_props iph segLen i oid :
  (40 <= length iph)%nat -> (40 <= segLen)%nat -> N.of_nat segLen <= 65535 + 40 ->
  let h := ref_ip false iph segLen i oid in
  length h = length iph /\
  rd16 h 4 = N.of_nat (segLen - 40) /\
  (forall k, (k < 4 \/ 6 <= k)%nat -> bat h k = bat iph k).
Proof.
  intros Hl H40 Hlen h. unfold h, ref_ip. split; [wlen|]. split.
  - apply rd16_wr16_same; lia.
  - intros k Hk. apply bat_wr16_out; lia.
Qed.

(* ---------------------------------------------------------------------------------------------- *)
(** * reading a segment  a ++ b ++ c *)

Lemma rd16_app_r a b k : rd16 (a ++ b) (length a + k) = rd16 b k.
Proof.
  unfold rd16. rewrite bat_app_r. replace (S (length a + k)) with (length a + S k)%nat by lia.
  rewrite bat_app_r. reflexivity.
Qed.

Lemma rd32_app_r a b k : rd32 (a ++ b) (length a + k) = rd32 b k.
Proof.
  unfold rd32. rewrite rd16_app_r. replace (length a + k + 2)%nat with (length a + (k + 2))%nat by lia.
  rewrite rd16_app_r. reflexivity.
Qed.

Lemma rd32_app_l a b k : (k + 4 <= length a)%nat -> rd32 (a ++ b) k = rd32 a k.
Proof. intros H. unfold rd32. rewrite !rd16_app_l by lia. reflexivity. Qed.

Lemma skipn_app_len {A} (a b : list A) : skipn (length a) (a ++ b) = b.
Proof. rewrite skipn_app, skipn_all, Nat.sub_diag. reflexivity. Qed.

Lemma firstn_app_le {A} n (a b : list A) : (n <= length a)%nat -> firstn n (a ++ b) = firstn n a.
Proof. intros H. rewrite firstn_app. replace (n - length a)%nat with 0%nat by lia. simpl. apply app_nil_r. Qed.

Lemma sub_app_l (a b : list N) x y : (y <= length a)%nat -> sub (a ++ b) x y = sub a x y.
Proof.
  intros H. unfold sub. rewrite skipn_app. rewrite firstn_app.
  rewrite skipn_length. replace (y - x - (length a - x))%nat with 0%nat by lia.
  simpl. apply app_nil_r.
Qed.

Lemma pseudo_hdr_app isV4 a b proto len : (min_l3 isV4 <= length a)%nat ->
  pseudo_hdr isV4 (a ++ b) proto len = pseudo_hdr isV4 a proto len.
Proof.
  intros H. unfold pseudo_hdr. destruct isV4; cbn [min_l3] in H; rewrite sub_app_l by lia; reflexivity.
Qed.

(* ---------------------------------------------------------------------------------------------- *)
(** * one reference segment: L3 facts shared by TCP and UDP *)

Definition l3_ok (isV4 : bool) (iph s : list N) (i : nat) : Prop :=
  bat s 0 = bat iph 0 /\
  (isV4 = true -> rd16 s 2 = N.of_nat (length s) /\ rd16 s 4 = (rd16 iph 4 + N.of_nat i) mod 65536 /\
                  valid_csum (firstn (ihl_of s) s)) /\
  (isV4 = false -> rd16 s 4 = N.of_nat (length s - 40)).

Lemma l3_of_ref isV4 iph rest i :
  (min_l3 isV4 <= length iph)%nat -> (isV4 = true -> (20 <= ihl_of iph <= length iph)%nat) ->
  N.of_nat (length iph + length rest) <= 65535 ->
  let h := ref_ip isV4 iph (length iph + length rest) i (rd16 iph 4) in
  length h = length iph /\ l3_ok isV4 iph (h ++ rest) i /\
  (forall k, (k < length iph)%nat -> rewritten true isV4 (length iph) k = false -> bat (h ++ rest) k = bat iph k) /\
  (forall k, (k < length iph)%nat -> rewritten false isV4 (length iph) k = false -> bat (h ++ rest) k = bat iph k).
Proof.
  intros Hmin Hihl Hlen h. unfold h. destruct isV4; cbn [min_l3] in Hmin.
  - destruct (ref_ip_v4_props iph (length iph + length rest) i (rd16 iph 4) (Hihl eq_refl) Hlen) as (L & R2 & R4 & V & Hcopy).
    set (h' := ref_ip true iph (length iph + length rest) i (rd16 iph 4)) in *.
    assert (B0 : bat (h' ++ rest) 0 = bat iph 0).
    { rewrite bat_app_l by lia. apply Hcopy. lia. }
    split; [exact L|]. split; [|split].
    + split; [exact B0|]. split; [|discriminate]. intros _.
      rewrite app_length, L. rewrite !rd16_app_l by lia. split; [exact R2|]. split; [exact R4|].
      unfold ihl_of at 1. rewrite B0. fold (ihl_of iph).
      rewrite firstn_app_le by lia. exact V.
    + intros k Hk Hr. rewrite bat_app_l by lia. apply Hcopy.
      unfold rewritten in Hr. apply orb_false_iff in Hr as [Hr _]. lia.
    + intros k Hk Hr. rewrite bat_app_l by lia. apply Hcopy.
      unfold rewritten in Hr. apply orb_false_iff in Hr as [Hr _]. lia.
  - destruct (ref_ip_v6_props iph (length iph + length rest) i (rd16 iph 4) Hmin ltac:(lia) ltac:(lia)) as (L & R4 & Hcopy).
    set (h' := ref_ip false iph (length iph + length rest) i (rd16 iph 4)) in *.
    split; [exact L|]. split; [|split].
    + split; [rewrite bat_app_l by lia; apply Hcopy; lia|]. split; [discriminate|]. intros _.
      rewrite app_length, L. rewrite rd16_app_l by lia. exact R4.
    + intros k Hk Hr. rewrite bat_app_l by lia. apply Hcopy.
      unfold rewritten in Hr. apply orb_false_iff in Hr as [Hr _]. lia.
    + intros k Hk Hr. rewrite bat_app_l by lia. apply Hcopy.
      unfold rewritten in Hr. apply orb_false_iff in Hr as [Hr _]. lia.
Qed.

(* ---------------------------------------------------------------------------------------------- *)
(** * one reference TCP segment *)

Lemma ref_tcp_seg_props isV4 iph l4h n i off chunk :
  bytes_ok l4h = true -> (min_l3 isV4 <= length iph)%nat -> (isV4 = true -> (20 <= ihl_of iph <= length iph)%nat) ->
  (20 <= length l4h)%nat -> Nat.even (length l4h) = true ->
  N.of_nat (length iph + length l4h + length chunk) <= 65535 ->
  let s := ref_tcp_seg isV4 iph l4h n i off chunk in
  let cs := length iph in
  let hl := (cs + length l4h)%nat in
  length s = (hl + length chunk)%nat /\ skipn hl s = chunk /\ l3_ok isV4 iph s i /\
  valid_csum (pseudo_hdr isV4 s IPPROTO_TCP (N.of_nat (length s - cs)) ++ skipn cs s) /\
  rd32 s (cs + 4) = (rd32 l4h 4 + N.of_nat off) mod 4294967296 /\
  bat s (cs + 13) = tcp_flags (bat l4h 13) i n /\
  (forall k, (k < hl)%nat -> rewritten true isV4 cs k = false -> bat s k = bat (iph ++ l4h) k).
Proof.
  intros Hok Hmin Hihl H20 Hev Hlen s cs hl.
  unfold s, ref_tcp_seg. cbv zeta.
  set (seq' := (rd32 l4h 4 + N.of_nat off) mod 4294967296).
  assert (Hseq : seq' < 4294967296) by (unfold seq'; apply N.mod_lt; discriminate).
  set (f' := tcp_flags (bat l4h 13) i n).
  assert (Hf : f' <= 255).
  { pose proof (bytes_ok_bat l4h 13 Hok). pose proof (tcp_flags_le (bat l4h 13) i n ltac:(lia)). unfold f'. lia. }
  set (X := wr8 (wr32 l4h 4 seq') 13 f').
  assert (LX : length X = length l4h) by (unfold X; wlen).
  set (z := wr16 X 16 0).
  assert (Lz : length z = length l4h) by (unfold z; wlen).
  set (h := ref_ip isV4 iph (length iph + length l4h + length chunk) i (rd16 iph 4)).
  set (c := csum16 (pseudo_hdr isV4 h IPPROTO_TCP (N.of_nat (length l4h + length chunk)) ++ z ++ chunk) 0).
  set (l4' := wr16 z 16 c).
  assert (Ll4 : length l4' = length l4h) by (unfold l4'; wlen).
  pose proof (l3_of_ref isV4 iph (l4' ++ chunk) i Hmin Hihl) as L3.
  rewrite app_length, Ll4 in L3.
  replace (length iph + (length l4h + length chunk))%nat with (length iph + length l4h + length chunk)%nat in L3 by lia.
  specialize (L3 Hlen). cbv zeta in L3. fold h in L3. destruct L3 as (Lh & L3ok & Hcopy & _).
  assert (Ls : length (h ++ l4' ++ chunk) = (hl + length chunk)%nat).
  { rewrite !app_length, Lh, Ll4. unfold hl, cs. lia. }
  split; [exact Ls|]. split; [|split; [exact L3ok|split; [|split; [|split]]]].
  - rewrite app_assoc. replace hl with (length (h ++ l4')) by (rewrite app_length, Lh, Ll4; reflexivity).
    apply skipn_app_len.
  - rewrite Ls. replace cs with (length h) at 2 by exact Lh. rewrite skipn_app_len.
    rewrite pseudo_hdr_app by lia.
    replace (hl + length chunk - cs)%nat with (length l4h + length chunk)%nat by (unfold hl; lia).
    unfold l4'. apply region_valid.
    + apply (sum16_pseudo isV4 h IPPROTO_TCP (N.of_nat (length l4h + length chunk))); lia.
    + rewrite Lz. exact Hev.
    + reflexivity.
    + lia.
    + unfold z. apply rd16_wr16_same; lia.
    + unfold c. apply csum16_le.
    + left. reflexivity.
  - replace cs with (length h) by exact Lh. rewrite rd32_app_r. rewrite rd32_app_l by lia.
    unfold l4', z, X, rd32. rewrite !rd16_wr16_out by wlen. rewrite !rd16_wr8_out by wlen.
    fold (rd32 (wr32 l4h 4 seq') 4). apply rd32_wr32_same; [lia|exact Hseq].
  - replace cs with (length h) by exact Lh. rewrite bat_app_r. rewrite bat_app_l by lia.
    unfold l4', z, X. rewrite !bat_wr16_out by wlen. rewrite bat_wr8_same by wlen. apply N.mod_small. lia.
  - intros k Hk Hr. destruct (Nat.lt_ge_cases k cs) as [Hkc|Hkc].
    + rewrite (bat_app_l iph l4h k) by exact Hkc. apply Hcopy; assumption.
    + assert (E : exists d, k = (cs + d)%nat) by (exists (k - cs)%nat; lia). destruct E as [d ->].
      unfold cs at 1 2. rewrite bat_app_r. rewrite <- Lh at 1. rewrite bat_app_r. rewrite bat_app_l by (unfold hl in Hk; lia).
      unfold rewritten in Hr. apply orb_false_iff in Hr as [_ Hr].
      unfold l4', z, X, wr32. rewrite !bat_wr16_out by wlen. rewrite bat_wr8_out by wlen.
      rewrite !bat_wr16_out by wlen. reflexivity.
Qed.

(* ---------------------------------------------------------------------------------------------- *)
(** * one reference UDP segment *)

Lemma ref_udp_seg_props isV4 iph l4h i chunk :
  (min_l3 isV4 <= length iph)%nat -> (isV4 = true -> (20 <= ihl_of iph <= length iph)%nat) ->
  length l4h = 8%nat -> N.of_nat (length iph + 8 + length chunk) <= 65535 ->
  let s := ref_udp_seg isV4 iph l4h i chunk in
  let cs := length iph in
  let hl := (cs + 8)%nat in
  length s = (hl + length chunk)%nat /\ skipn hl s = chunk /\ l3_ok isV4 iph s i /\
  valid_csum (pseudo_hdr isV4 s IPPROTO_UDP (N.of_nat (length s - cs)) ++ skipn cs s) /\
  rd16 s (cs + 4) = N.of_nat (length s - cs) /\
  rd16 s (cs + 6) <> 0 /\
  (let c := csum16 (pseudo_hdr isV4 s IPPROTO_UDP (N.of_nat (length s - cs)) ++ wr16 (skipn cs s) 6 0) 0 in
   rd16 s (cs + 6) = if c =? 0 then 65535 else c) /\
  (forall k, (k < hl)%nat -> rewritten false isV4 cs k = false -> bat s k = bat (iph ++ l4h) k).
Proof.
  intros Hmin Hihl L8 Hlen s cs hl.
  unfold s, ref_udp_seg. cbv zeta. rewrite L8.
  set (ulen := N.of_nat (8 + length chunk)).
  set (X := wr16 l4h 4 ulen).
  assert (LX : length X = 8%nat) by (unfold X; wlen).
  set (z := wr16 X 6 0).
  assert (Lz : length z = 8%nat) by (unfold z; wlen).
  set (h := ref_ip isV4 iph (length iph + 8 + length chunk) i (rd16 iph 4)).
  set (c := csum16 (pseudo_hdr isV4 h IPPROTO_UDP ulen ++ z ++ chunk) 0).
  set (c' := if c =? 0 then 65535 else c).
  assert (Hc : c <= 65535) by (unfold c; apply csum16_le).
  assert (Hc' : c' <= 65535 /\ c' <> 0) by (unfold c'; destruct (N.eqb_spec c 0); lia).
  set (l4' := wr16 z 6 c').
  assert (Ll4 : length l4' = 8%nat) by (unfold l4'; wlen).
  pose proof (l3_of_ref isV4 iph (l4' ++ chunk) i Hmin Hihl) as L3.
  rewrite app_length, Ll4 in L3.
  replace (length iph + (8 + length chunk))%nat with (length iph + 8 + length chunk)%nat in L3 by lia.
  specialize (L3 Hlen). cbv zeta in L3. fold h in L3. destruct L3 as (Lh & L3ok & _ & Hcopy).
  assert (Ls : length (h ++ l4' ++ chunk) = (hl + length chunk)%nat).
  { rewrite !app_length, Lh, Ll4. unfold hl, cs. lia. }
  assert (Esk : skipn cs (h ++ l4' ++ chunk) = l4' ++ chunk).
  { replace cs with (length h) by exact Lh. apply skipn_app_len. }
  assert (Elen : N.of_nat (hl + length chunk - cs) = ulen) by (unfold ulen, hl; f_equal; lia).
  split; [exact Ls|]. split; [|split; [exact L3ok|split; [|split; [|split; [|split]]]]].
  - rewrite app_assoc. replace hl with (length (h ++ l4')) by (rewrite app_length, Lh, Ll4; reflexivity).
    apply skipn_app_len.
  - rewrite Ls, Esk, Elen. rewrite pseudo_hdr_app by lia.
    unfold l4'. apply region_valid.
    + apply (sum16_pseudo isV4 h IPPROTO_UDP ulen); unfold ulen; lia.
    + rewrite Lz. reflexivity.
    + reflexivity.
    + lia.
    + unfold z. apply rd16_wr16_same; lia.
    + apply Hc'.
    + unfold c'. destruct (N.eqb_spec c 0) as [E0|E0].
      * right. split; [reflexivity|]. unfold c, csum16, osum, cpl16 in E0. cbn [N.add] in E0.
        pose proof (fold16_le (sum16 (pseudo_hdr isV4 h IPPROTO_UDP ulen ++ z ++ chunk))). lia.
      * left. reflexivity.
  - rewrite Ls, Elen. replace cs with (length h) by exact Lh. rewrite rd16_app_r. rewrite rd16_app_l by lia.
    unfold l4', z. rewrite !rd16_wr16_out by wlen. unfold X. apply rd16_wr16_same; [lia|unfold ulen; lia].
  - replace cs with (length h) by exact Lh. rewrite rd16_app_r. rewrite rd16_app_l by lia.
    unfold l4'. rewrite rd16_wr16_same by lia. apply Hc'.
  - cbv zeta. rewrite Ls, Esk, Elen. rewrite pseudo_hdr_app by lia.
    rewrite wr16_app_l by lia. unfold l4'. rewrite wr16_wr16_same by lia.
    assert (Ez : wr16 z 6 0 = z) by (unfold z; apply wr16_wr16_same; lia).
    rewrite Ez. fold c.
    replace cs with (length h) by exact Lh. rewrite rd16_app_r. rewrite rd16_app_l by wlen.
    rewrite rd16_wr16_same by lia. reflexivity.
  - intros k Hk Hr. destruct (Nat.lt_ge_cases k cs) as [Hkc|Hkc].
    + rewrite (bat_app_l iph l4h k) by exact Hkc. apply Hcopy; assumption.
    + assert (E : exists d, k = (cs + d)%nat) by (exists (k - cs)%nat; lia). destruct E as [d ->].
      unfold cs at 1 2. rewrite bat_app_r. rewrite <- Lh at 1. rewrite bat_app_r. rewrite bat_app_l by (unfold hl in Hk; lia).
      unfold rewritten in Hr. apply orb_false_iff in Hr as [_ Hr].
      unfold l4', z, X. rewrite !bat_wr16_out by wlen. reflexivity.
Qed.

From Coq Require Import List NArith Bool Lia.
Import ListNotations.
From NV Require Import lib.Bytes gen.Tab_Header model.Header.
Open Scope N_scope.

(* byte 0: a finite sweep over the 16 x 16 four-bit values, lifted by forallb_forall *)
Definition nibbles : list N := map N.of_nat (seq 0 16).

Lemma nibbles_complete x : x < 16 -> In x nibbles.
Proof.
  intros H. unfold nibbles. apply in_map_iff. exists (N.to_nat x). split; [lia|].
  apply in_seq. lia.
Qed.

Lemma byte0_sweep :
  forallb (fun v => forallb (fun t =>
     let b := byte0 v t in
     (b <? 256) && (N.land (N.shiftr b 4) 15 =? v) && (N.land b 15 =? t)) nibbles) nibbles = true.
Proof. vm_compute. reflexivity. Qed.

Lemma byte0_spec v t : v < 16 -> t < 16 ->
  byte0 v t < 256 /\ N.land (N.shiftr (byte0 v t) 4) 15 = v /\ N.land (byte0 v t) 15 = t.
Proof.
  intros Hv Ht. pose proof byte0_sweep as S.
  rewrite forallb_forall in S. specialize (S v (nibbles_complete v Hv)).
  rewrite forallb_forall in S. specialize (S t (nibbles_complete t Ht)).
  cbv zeta in S. apply andb_true_iff in S as [S S3]. apply andb_true_iff in S as [S1 S2].
  apply N.ltb_lt in S1. apply N.eqb_eq in S2. apply N.eqb_eq in S3. auto.
Qed.

Lemma header_len_16 : header_len = 16. Proof. reflexivity. Qed.

Lemma encode_length v t st ri c : length (encode v t st ri c) = 16%nat.
Proof. unfold encode. rewrite !app_length, !be_enc_length. reflexivity. Qed.

Lemma roundtrip v t st ri c tail :
  v < 16 -> t < 16 -> st < 256 -> ri < 2 ^ 32 -> c < 2 ^ 64 ->
  parse (encode v t st ri c ++ tail) = Some (mkHdr v t st 0 ri c).
Proof.
  intros Hv Ht Hst Hri Hc.
  destruct (byte0_spec v t Hv Ht) as (_ & B1 & B2).
  unfold parse. rewrite app_length, encode_length, header_len_16.
  destruct (N.ltb_spec (N.of_nat (16 + length tail)) 16) as [L|L]; [lia|].
  unfold encode.
  remember (be_enc 4 ri) as eri. remember (be_enc 8 c) as ec.
  assert (Lri : length eri = 4%nat) by (subst; apply be_enc_length).
  assert (Lc : length ec = 8%nat) by (subst; apply be_enc_length).
  destruct eri as [|r0 [|r1 [|r2 [|r3 [|? ?]]]]]; try discriminate Lri.
  destruct ec as [|c0 [|c1 [|c2 [|c3 [|c4 [|c5 [|c6 [|c7 [|? ?]]]]]]]]]; try discriminate Lc.
  cbn [app nth be_enc slice skipn firstn].
  rewrite B1, B2. unfold w8. rewrite (N.mod_small st 256) by assumption.
  f_equal. f_equal.
  - rewrite Heqeri. apply be_dec_enc. exact Hri.
  - rewrite Heqec. apply be_dec_enc. exact Hc.
Qed.

Lemma parse_none_iff b : parse b = None <-> (length b < 16)%nat.
Proof.
  unfold parse. rewrite header_len_16.
  destruct (N.ltb_spec (N.of_nat (length b)) 16) as [L|L]; split; intros H; try discriminate; try reflexivity; lia.
Qed.

Lemma firstn_nth {A} (l : list A) n i d : (i < n)%nat -> nth i (firstn n l) d = nth i l d.
Proof.
  revert n i; induction l as [|a l IH]; intros [|n] [|i] H; simpl; try reflexivity; try lia.
  apply IH. lia.
Qed.

Lemma slice_firstn (l : list N) n off len : (off + len <= n)%nat -> slice (firstn n l) off len = slice l off len.
Proof.
  intros H. unfold slice.
  revert n off H; induction l as [|a l IH]; intros n off H.
  - rewrite firstn_nil. reflexivity.
  - destruct n as [|n].
    + assert (off = 0%nat) by lia. assert (len = 0%nat) by lia. subst. reflexivity.
    + destruct off as [|off].
      * cbn [skipn]. rewrite firstn_firstn. f_equal. lia.
      * cbn [firstn skipn]. apply IH. lia.
Qed.

Lemma parse_prefix b : (16 <= length b)%nat -> parse b = parse (firstn 16 b).
Proof.
  intros H. unfold parse. rewrite header_len_16, firstn_length_le by assumption.
  destruct (N.ltb_spec (N.of_nat (length b)) 16) as [L|L]; [lia|].
  cbn [N.of_nat Pos.of_succ_nat Pos.succ N.ltb N.compare Pos.compare Pos.compare_cont].
  rewrite !firstn_nth by lia. rewrite !slice_firstn by lia. reflexivity.
Qed.

Lemma valid_pairs_documented : valid_subtype_pairs = documented_pairs.
Proof. reflexivity. Qed.

Lemma pair_eqb_eq p q : pair_eqb p q = true <-> p = q.
Proof.
  destruct p as [a b], q as [c d]. unfold pair_eqb. cbn [fst snd].
  rewrite andb_true_iff, !N.eqb_eq. split; [intros [-> ->]; reflexivity|intros E; inversion E; auto].
Qed.

Lemma is_valid_iff t s : is_valid_subtype t s = true <-> In (t, s) documented_pairs.
Proof.
  unfold is_valid_subtype. rewrite valid_pairs_documented, existsb_exists. split.
  - intros (x & Hin & E). apply pair_eqb_eq in E. subst. assumption.
  - intros H. exists (t, s). split; [assumption|now apply pair_eqb_eq].
Qed.

(* Converge_props: the clauses of C31 derived from the invariant. *)
From Coq Require Import List NArith Bool Lia Permutation Arith.
Import ListNotations.
From NV Require Import model.Converge proofs.Converge_base proofs.Converge_swap proofs.Converge_shape proofs.Converge_inv.
Open Scope N_scope.

(* ---- mirror --------------------------------------------------------------------------------------------------- *)
(* two tunnels on opposite nodes with the same session are each other's ends *)
Lemma twin_of_sid s x t u :
  Inv s -> In t (tuns s x) -> In u (tuns s (other x)) -> t_sid u = t_sid t -> twin t u.
Proof.
  intros I Ht Hu E.
  destruct (i_owner s I x t Ht) as [Ot _]. destruct (i_owner s I (other x) u Hu) as [Ou _].
  rewrite other_other, E in Ou.
  pose proof (i_reg_t s I x t Ht) as Rt. pose proof (i_reg_t s I (other x) u Hu) as Ru.
  unfold reg_entry in *. rewrite E in Ru.
  pose proof (reg_functional _ _ _ _ (i_reg_fun s I) Rt Ru) as EE.
  unfold twin. destruct (t_ini t) eqn:It, (t_ini u) eqn:Iu; cbn [negb].
  - rewrite Ot in Ou. exfalso. now apply (other_neq x).
  - injection EE as Eh Er El. repeat split; auto.
  - injection EE as Eh El Er. repeat split; auto.
  - rewrite Ot in Ou. exfalso. apply (other_neq x). now symmetry.
Qed.

Lemma mirror c s : reachable c s -> forall x t, In t (tuns s x) ->
  (forall u, In u (tuns s (other x)) -> t_sid u = t_sid t -> twin t u) /\
  (t_ini t = true -> holds_sid (get s (other x)) (t_sid t) \/ In (t_sid t) (n_gone (get s (other x)))) /\
  (t_ini t = false -> pending_for (get s (other x)) t \/ In (t_hid t) (n_done (get s (other x)))).
Proof.
  intros R x t Ht. pose proof (inv_reachable c s R) as I. split; [|split].
  - intros u Hu E. now apply (twin_of_sid s x).
  - now apply (i_twin_held s I x t Ht).
  - now apply (i_resp_hs s I x t Ht).
Qed.

(* the status of the other end of any tunnel: held, removed by the peer, still pending at the peer (responder-side
   tunnels only), or - responder side only - the peer finished that handshake without this session *)
Lemma mirror_status c s : reachable c s -> forall x t, In t (tuns s x) ->
  (exists u, In u (tuns s (other x)) /\ twin t u) \/
  In (t_sid t) (n_gone (get s (other x))) \/
  (t_ini t = false /\ pending_for (get s (other x)) t) \/
  (t_ini t = false /\ In (t_hid t) (n_done (get s (other x))) /\ ~ holds_sid (get s (other x)) (t_sid t)).
Proof.
  intros R x t Ht. destruct (mirror c s R x t Ht) as (M1 & M2 & M3).
  destruct (t_ini t) eqn:It.
  - destruct (M2 eq_refl) as [[u [Hu E]]|G]; [left|right; now left]. exists u. split; [exact Hu|now apply M1].
  - assert (D : holds_sid (get s (other x)) (t_sid t) \/ ~ holds_sid (get s (other x)) (t_sid t)).
    { unfold holds_sid. induction (n_tuns (get s (other x))) as [|a l IH].
      - right. intros [u [[] _]].
      - destruct (N.eq_dec (t_sid a) (t_sid t)) as [E|NE]; [left; exists a; split; [now left|exact E]|].
        destruct IH as [[u [Hu E]]|N]; [left; exists u; split; [now right|exact E]|].
        right. intros [u [[<-|Hu] E]]; [contradiction|]. apply N. now exists u. }
    destruct D as [[u [Hu E]]|NH]; [left; exists u; split; [exact Hu|now apply M1]|].
    destruct (M3 eq_refl) as [P|Dn]; right; right; [left|right]; auto.
Qed.

(* ---- traffic -------------------------------------------------------------------------------------------------- *)
Lemma nth_error_app_len {A} (l : list A) x r : nth_error (l ++ x :: r) (length l) = Some x.
Proof. induction l; simpl; auto. Qed.

(* data sent on the primary is delivered to the peer's tun whenever the peer holds the other end *)
Lemma data_delivered c s x pl p rest u idx :
  reachable c s ->
  tuns s x = p :: rest -> In u (tuns s (other x)) -> t_sid u = t_sid p ->
  let s1 := fst (step c s (EData x pl)) in
  snd (step c s1 (EDeliver (N.of_nat (length (s_net s))) idx)) = [(other x, pl)].
Proof.
  intros R HT Hu E. pose proof (inv_reachable c s R) as I.
  assert (Hp : In p (tuns s x)) by (rewrite HT; now left).
  pose proof (twin_of_sid s x p u I Hp Hu E) as (_ & Ti & Tl & Tr & _).
  cbv zeta. unfold step at 2. unfold l_data. unfold tuns in HT. rewrite HT. unfold send_primary. rewrite HT.
  unfold send_on. cbn [fst].
  set (m := MData x (t_r p) (t_sid p) (t_ini p) (t_ctr p + 1) (KData pl)).
  set (s1 := put s x (set_tuns (get s x) (set_sent p :: rest)) [m] None).
  unfold step. rewrite Nnat.Nat2N.id.
  assert (N1 : s_net s1 = s_net s ++ [m]) by apply net_put. rewrite N1, nth_error_app_len.
  assert (Sm : msg_src m = x) by reflexivity. rewrite Sm. assert (G1 : get s1 (other x) = get s (other x)) by apply get_put_other. rewrite G1.
  unfold l_recv, m at 1. unfold l_data_in.
  assert (F : find_l (t_r p) (n_tuns (get s (other x))) = Some u).
  { apply find_l_in_nodup; [apply (i_nodup_l s I)|exact Hu|congruence]. }
  rewrite F.
  assert (A : accepts u (t_sid p) (t_ini p) (t_ctr p + 1) = true).
  { unfold accepts. rewrite E, N.eqb_refl, Ti, negb_involutive, eqb_reflx. cbn [andb]. apply negb_true_iff.
    destruct (existsb (N.eqb (t_ctr p + 1)) (t_seen u)) eqn:Ex; [|reflexivity]. exfalso.
    apply existsb_exists in Ex as [c' [Hc Ec]]. apply N.eqb_eq in Ec. subst c'.
    destruct (i_seen s I (other x) u _ Hu Hc) as (hidx & fi & k & Hn). rewrite other_other, E in Hn.
    destruct (i_data s I _ _ _ _ _ _ Hn) as [_ B]. specialize (B p Hp eq_refl). lia. }
  rewrite A. reflexivity.
Qed.

(* ---- the number of tunnels only grows through handshake packets ------------------------------------------------- *)
Definition hs_delivery (s : st) (e : ev) : bool :=
  match e with
  | EDeliver k _ => match nth_error (s_net s) (N.to_nat k) with
                    | Some (MStage1 _ _ _ _) | Some (MStage2 _ _ _ _ _ _) => true
                    | _ => false
                    end
  | _ => false
  end.

Lemma upd_l_length idx f l : length (upd_l idx f l) = length l.
Proof. unfold upd_l. apply map_length. Qed.
Lemma del_l_length idx l : (length (del_l idx l) <= length l)%nat.
Proof. unfold del_l. induction l; simpl; [lia|]. destruct (negb (has_l idx a)); simpl; lia. Qed.
Lemma remove_l_length ns idx : (length (n_tuns (remove_l ns idx)) <= length (n_tuns ns))%nat.
Proof. unfold remove_l. destruct (find_l idx (n_tuns ns)); simpl; [apply del_l_length|lia]. Qed.
Lemma make_primary_length idx l : (length (make_primary idx l) <= length l)%nat.
Proof.
  unfold make_primary. destruct (find_l idx l) as [u|] eqn:F; [|lia]. apply find_l_some in F as [Hin El]. subst idx.
  simpl. clear - Hin. induction l as [|a l IH]; [destruct Hin|]. simpl. unfold has_l at 1. destruct Hin as [->|Hin].
  - rewrite N.eqb_refl. simpl. pose proof (del_l_length (t_l u) l). lia.
  - destruct (t_l a =? t_l u); simpl; [pose proof (del_l_length (t_l u) l)|specialize (IH Hin)]; lia.
Qed.

Lemma send_primary_length me ns k : length (n_tuns (fst (send_primary me ns k))) = length (n_tuns ns).
Proof. unfold send_primary. destruct (n_tuns ns) eqn:T; cbn [fst]; [now rewrite T|]. unfold send_on. reflexivity. Qed.

Lemma step_tunnels_le c s e x :
  hs_delivery s e = false -> (length (tuns (fst (step c s e)) x) <= length (tuns s x))%nat.
Proof.
  intro H. destruct e as [n|n idx|n pl|k idx|n lidx elig]; unfold step.
  - cbn [fst]. destruct (node_case x n) as [->| ->]; unfold tuns; [rewrite get_put_same|rewrite get_put_other; lia].
    unfold l_start. destruct (n_pend (get s n)); simpl; lia.
  - destruct (l_hsout _ _ _ _ _) as [ns ms] eqn:E. cbn [fst].
    destruct (node_case x n) as [->| ->]; unfold tuns; [rewrite get_put_same|rewrite get_put_other; lia].
    unfold l_hsout in E. destruct (n_pend (get s n)) as [p|]; [|inversion E; subst; lia].
    destruct (c_retries c <=? p_cnt p); [destruct (p_ready p); inversion E; subst; simpl; lia|].
    destruct (p_ready p); [inversion E; subst; simpl; lia|].
    destruct (used idx (get s n)); inversion E; subst; simpl; lia.
  - destruct (l_data n pl (get s n)) as [ns ms] eqn:E. cbn [fst].
    destruct (node_case x n) as [->| ->]; unfold tuns; [rewrite get_put_same|rewrite get_put_other; lia].
    unfold l_data in E. destruct (n_tuns (get s n)) as [|a l] eqn:T.
    + unfold l_start in E. destruct (n_pend (get s n)) as [p|] eqn:P.
      * rewrite P in E. destruct (Nat.ltb _ _); inversion E; subst; simpl; rewrite T; simpl; lia.
      * cbn [n_pend set_pend] in E. destruct (Nat.ltb _ _); inversion E; subst; simpl; rewrite T; simpl; lia.
    + pose proof (send_primary_length n (get s n) (KData pl)) as L. rewrite E in L. cbn [fst] in L. rewrite L, T. lia.
  - cbn [hs_delivery] in H. destruct (nth_error (s_net s) (N.to_nat k)) as [m|]; [|cbn [fst]; destruct x; unfold tuns; simpl; lia].
    destruct m as [src iidx hid ht|src iidx ridx hid sid rt|src hidx sid fi ctr kk|src idx']; try discriminate; unfold l_recv.
    + destruct (l_data_in _ _ _ _ _ _ _) as [[ns ms] o] eqn:E. cbn [fst msg_src].
      destruct (node_case x (other src)) as [->| ->]; unfold tuns; [rewrite get_put_same|rewrite get_put_other; lia].
      unfold l_data_in in E. destruct (find_l hidx _) as [u|]; [|inversion E; subst; lia].
      destruct (accepts u sid fi ctr); [|inversion E; subst; lia].
      destruct kk; unfold send_on in E; inversion E; subst; cbn [n_tuns set_tuns]; rewrite upd_l_length; lia.
    + cbn [fst msg_src]. destruct (node_case x (other src)) as [->| ->]; unfold tuns; [rewrite get_put_same|rewrite get_put_other; lia].
      unfold l_recverr. destruct (find _ _); [apply remove_l_length|lia].
  - destruct (l_check _ _ _ _ _ _) as [ns ms] eqn:E. cbn [fst].
    destruct (node_case x n) as [->| ->]; unfold tuns; [rewrite get_put_same|rewrite get_put_other; lia].
    unfold l_check in E. destruct (find_l lidx _) as [u|]; [|inversion E; subst; lia].
    destruct (t_in u).
    + destruct (is_primary lidx _); [inversion E; subst; cbn [n_tuns set_tuns]; rewrite upd_l_length; lia|].
      destruct (should_swap _ _ _); inversion E; subst; cbn [n_tuns set_tuns inc_swaps].
      * eapply Nat.le_trans; [apply make_primary_length|]. rewrite upd_l_length. lia.
      * rewrite upd_l_length. lia.
    + destruct (t_pd u); [inversion E; subst; apply remove_l_length|].
      destruct (is_primary lidx _); [destruct (t_out u)|]; unfold send_on in E; inversion E; subst;
        cbn [n_tuns set_tuns]; rewrite upd_l_length; lia.
Qed.

Lemma in_make_primary idx l t : In t (make_primary idx l) -> In t l.
Proof.
  unfold make_primary. destruct (find_l idx l) as [u|] eqn:F; [|auto]. apply find_l_some in F as [Hin _].
  intros [<-|H]; [exact Hin|]. now apply del_l_in in H as [H _].
Qed.

Lemma in_upd_tid idx f l t' : (forall t, tid (f t) = tid t) -> In t' (upd_l idx f l) -> exists t, In t l /\ tid t = tid t'.
Proof.
  intros Hf H. apply upd_l_in in H as [t [Ht [->|[-> _]]]]; exists t; split; auto.
Qed.

Lemma in_remove_l ns idx t : In t (n_tuns (remove_l ns idx)) -> In t (n_tuns ns).
Proof. unfold remove_l. destruct (find_l idx (n_tuns ns)); simpl; [|auto]. intro H. now apply del_l_in in H as [H _]. Qed.

(* without a handshake packet being delivered, every tunnel after a step is a tunnel that was there before *)
Lemma step_old_ids c s e x t' :
  hs_delivery s e = false -> In t' (tuns (fst (step c s e)) x) -> exists t, In t (tuns s x) /\ tid t = tid t'.
Proof.
  intros H Ht'. assert (Same : In t' (tuns s x) -> exists t, In t (tuns s x) /\ tid t = tid t') by (intro K; now exists t').
  destruct e as [n|n idx|n pl|k idx|n lidx elig]; unfold step in Ht'.
  - cbn [fst] in Ht'. destruct (node_case x n) as [->| ->]; unfold tuns in Ht'; [rewrite get_put_same in Ht'|rewrite get_put_other in Ht'; auto].
    unfold l_start in Ht'. destruct (n_pend (get s n)); simpl in Ht'; auto.
  - destruct (l_hsout _ _ _ _ _) as [ns ms] eqn:E. cbn [fst] in Ht'.
    destruct (node_case x n) as [->| ->]; unfold tuns in Ht'; [rewrite get_put_same in Ht'|rewrite get_put_other in Ht'; auto].
    unfold l_hsout in E. destruct (n_pend (get s n)) as [p|]; [|inversion E; subst; auto].
    destruct (c_retries c <=? p_cnt p); [destruct (p_ready p); inversion E; subst; simpl in Ht'; auto|].
    destruct (p_ready p); [inversion E; subst; simpl in Ht'; auto|].
    destruct (used idx (get s n)); inversion E; subst; simpl in Ht'; auto.
  - destruct (l_data n pl (get s n)) as [ns ms] eqn:E. cbn [fst] in Ht'.
    destruct (node_case x n) as [->| ->]; unfold tuns in Ht'; [rewrite get_put_same in Ht'|rewrite get_put_other in Ht'; auto].
    unfold l_data in E. destruct (n_tuns (get s n)) as [|a l] eqn:T.
    + unfold l_start in E. destruct (n_pend (get s n)) as [p|] eqn:P.
      * rewrite P in E. destruct (Nat.ltb _ _); inversion E; subst; simpl in Ht'; rewrite T in Ht'; destruct Ht'.
      * cbn [n_pend set_pend] in E. destruct (Nat.ltb _ _); inversion E; subst; simpl in Ht'; rewrite T in Ht'; destruct Ht'.
    + unfold send_primary in E. rewrite T in E. unfold send_on in E. inversion E; subst. cbn [n_tuns set_tuns] in Ht'.
      unfold tuns. rewrite T. destruct Ht' as [<-|Ht']; [exists a; split; [now left|reflexivity]|exists t'; split; [now right|reflexivity]].
  - cbn [hs_delivery] in H. destruct (nth_error (s_net s) (N.to_nat k)) as [m|]; [|cbn [fst] in Ht'; destruct x; unfold tuns in *; simpl in *; auto].
    destruct m as [src iidx hid ht|src iidx ridx hid sid rt|src hidx sid fi ctr kk|src idx']; try discriminate; unfold l_recv in Ht'.
    + destruct (l_data_in _ _ _ _ _ _ _) as [[ns ms] o] eqn:E. cbn [fst msg_src] in Ht'.
      destruct (node_case x (other src)) as [->| ->]; unfold tuns in Ht'; [rewrite get_put_same in Ht'|rewrite get_put_other in Ht'; auto].
      unfold l_data_in in E. destruct (find_l hidx _) as [u|]; [|inversion E; subst; auto].
      destruct (accepts u sid fi ctr); [|inversion E; subst; auto].
      destruct kk; unfold send_on in E; inversion E; subst; cbn [n_tuns set_tuns] in Ht';
        (eapply in_upd_tid; [|exact Ht']; reflexivity).
    + cbn [fst msg_src] in Ht'. destruct (node_case x (other src)) as [->| ->]; unfold tuns in Ht'; [rewrite get_put_same in Ht'|rewrite get_put_other in Ht'; auto].
      unfold l_recverr in Ht'. destruct (find _ _); [apply in_remove_l in Ht'|]; auto.
  - destruct (l_check _ _ _ _ _ _) as [ns ms] eqn:E. cbn [fst] in Ht'.
    destruct (node_case x n) as [->| ->]; unfold tuns in Ht'; [rewrite get_put_same in Ht'|rewrite get_put_other in Ht'; auto].
    unfold l_check in E. destruct (find_l lidx _) as [u|]; [|inversion E; subst; auto].
    destruct (t_in u).
    + destruct (is_primary lidx _); [inversion E; subst; cbn [n_tuns set_tuns] in Ht'; (eapply in_upd_tid; [|exact Ht']; reflexivity)|].
      destruct (should_swap _ _ _); inversion E; subst; cbn [n_tuns set_tuns inc_swaps] in Ht'.
      * apply in_make_primary in Ht'. eapply in_upd_tid; [|exact Ht']; reflexivity.
      * eapply in_upd_tid; [|exact Ht']; reflexivity.
    + destruct (t_pd u); [inversion E; subst; apply in_remove_l in Ht'; auto|].
      destruct (is_primary lidx _); [destruct (t_out u)|]; unfold send_on in E; inversion E; subst;
        cbn [n_tuns set_tuns] in Ht'; (eapply in_upd_tid; [|exact Ht']; reflexivity).
Qed.

Lemma reachable_step c s e : reachable c s -> reachable c (fst (step c s e)).
Proof.
  intros [evs ->]. exists (evs ++ [e]). generalize init. induction evs as [|a l IH]; intro s0; simpl; auto.
Qed.

(* once both nodes hold exactly one tunnel each and these are the two ends of one session, no event other than
   the delivery of a handshake packet can make them hold two different sessions: whatever remains still matches *)
Lemma matched_stays c s e ta tb :
  reachable c s ->
  tuns s NA = [ta] -> tuns s NB = [tb] -> t_sid ta = t_sid tb ->
  hs_delivery s e = false ->
  let s' := fst (step c s e) in
  forall ta' tb', In ta' (tuns s' NA) -> In tb' (tuns s' NB) -> twin ta' tb'.
Proof.
  intros R HA HB E H s' ta' tb' Ha Hb.
  pose proof (inv_reachable c s' (reachable_step c s e R)) as I'.
  destruct (step_old_ids c s e NA ta' H Ha) as [t1 [H1 E1]]. destruct (step_old_ids c s e NB tb' H Hb) as [t2 [H2 E2]].
  rewrite HA in H1. rewrite HB in H2. destruct H1 as [<-|[]]. destruct H2 as [<-|[]].
  apply (twin_of_sid s' NA ta' tb' I' Ha Hb).
  destruct (tid_fields _ _ E1) as (_ & _ & _ & S1 & _). destruct (tid_fields _ _ E2) as (_ & _ & _ & S2 & _). congruence.
Qed.

(* ---- the hypotheses are satisfiable ---------------------------------------------------------------------------- *)
Definition ex_cfg : cfg := mkC (mkAddr false 167772161) (mkAddr false 167772162) 3.

(* one clean handshake: both nodes end with one tunnel each, the two ends of one session *)
Example clean_handshake_converges :
  converged (run ex_cfg init [EStart NA; EHsOut NA 7; EDeliver 0 9; EDeliver 1 0]).
Proof.
  unfold converged. eexists. eexists. vm_compute. repeat split; reflexivity.
Qed.

(* two simultaneous initiations, all four handshake packets delivered: two tunnels on each side, four sessions'
   ends pairwise matching; data from either primary is delivered (instance of data_delivered) *)
Definition ex_race : list ev :=
  [EStart NA; EStart NB; EHsOut NA 7; EHsOut NB 8; EDeliver 1 17; EDeliver 0 18; EDeliver 2 0; EDeliver 3 0].

Example race_two_tunnels_each :
  let s := run ex_cfg init ex_race in
  map t_l (tuns s NA) = [7; 17] /\ map t_r (tuns s NA) = [18; 8] /\
  map t_l (tuns s NB) = [8; 18] /\ map t_r (tuns s NB) = [17; 7].
Proof. vm_compute. repeat split; reflexivity. Qed.

Example race_traffic_flows :
  let s := run ex_cfg init ex_race in
  snd (step ex_cfg (fst (step ex_cfg s (EData NA 42))) (EDeliver (N.of_nat (length (s_net s))) 0)) = [(NB, 42)] /\
  snd (step ex_cfg (fst (step ex_cfg s (EData NB 43))) (EDeliver (N.of_nat (length (s_net s))) 0)) = [(NA, 43)].
Proof. vm_compute. split; reflexivity. Qed.

(* ---- fairness alone does not force convergence in the timer-abstracted model ------------------------------------- *)
(* A "fair round": both applications send, every packet not yet delivered is delivered (and whatever that emits),
   every tunnel of both nodes is checked once, everything emitted is delivered.  Starting from the state after two
   simultaneous initiations, the configuration (which tunnels, which is primary, all flags) after round 4 equals
   the one after round 2 while the smaller node keeps swapping: the schedule can be repeated for ever.  With the
   real timer wheel the relative phases of the checks rule this order out (the netsim component runs the real
   wheel); the model abstracts the wheel away, which is why convergence is not a theorem here. *)
Fixpoint deliver_all (c : cfg) (fuel k : nat) (s : st) (acc : list ev) : st * list ev * nat :=
  match fuel with
  | O => (s, acc, k)
  | S f => if Nat.ltb k (length (s_net s))
           then let e := EDeliver (N.of_nat k) 0 in deliver_all c f (S k) (fst (step c s e)) (acc ++ [e])
           else (s, acc, k)
  end.
Fixpoint checks (c : cfg) (n : node) (ls : list N) (s : st) (acc : list ev) : st * list ev :=
  match ls with
  | [] => (s, acc)
  | l :: r => let e := ECheck n l true in checks c n r (fst (step c s e)) (acc ++ [e])
  end.
Definition fair_round (c : cfg) (x : st * list ev * nat) : st * list ev * nat :=
  let '(s, acc, k) := x in
  let e1 := EData NA 1 in let s1 := fst (step c s e1) in
  let e2 := EData NB 2 in let s2 := fst (step c s1 e2) in
  let '(s3, acc3, k3) := deliver_all c 50 k s2 (acc ++ [e1; e2]) in
  let '(s4, acc4) := checks c NA (map t_l (tuns s3 NA)) s3 acc3 in
  let '(s5, acc5) := checks c NB (map t_l (tuns s4 NB)) s4 acc4 in
  deliver_all c 50 k3 s5 acc5.
(* which tunnels, in which order, with which flags, and the pending entries *)
Definition config_of (s : st) :=
  (map (fun t => (t_l t, t_r t, t_in t, t_out t, t_pd t)) (tuns s NA), n_pend (s_a s),
   map (fun t => (t_l t, t_r t, t_in t, t_out t, t_pd t)) (tuns s NB), n_pend (s_b s)).

Lemma fair_rounds_cycle :
  let s0 := run ex_cfg init ex_race in
  let x2 := fair_round ex_cfg (fair_round ex_cfg (s0, [], length (s_net s0))) in
  let s2 := fst (fst x2) in
  let x4 := fair_round ex_cfg (fair_round ex_cfg (s2, [], snd x2)) in
  let s4 := fst (fst x4) in
  reachable ex_cfg s2 /\
  s4 = run ex_cfg s2 (snd (fst x4)) /\ snd (fst x4) <> [] /\
  snd x4 = length (s_net s4) /\                      (* every packet has been delivered *)
  config_of s4 = config_of s2 /\                     (* same configuration as two rounds earlier *)
  tunnels s2 = 4%nat /\                              (* two tunnels on each side, never collapsing *)
  n_swaps (s_a s2) < n_swaps (s_a s4).               (* the smaller node swapped again *)
Proof.
  cbv zeta. split.
  - exists (ex_race ++ snd (fst (fair_round ex_cfg (fair_round ex_cfg (run ex_cfg init ex_race, [], length (s_net (run ex_cfg init ex_race))))))).
    vm_compute. reflexivity.
  - vm_compute. repeat split; try reflexivity. discriminate.
Qed.

(* Lemmas about model/Payload.v: one-field steps, progress, round trips between the hand-written codec and the
   generated schema codec. *)
From Coq Require Import List NArith ZArith Lia Bool.
From Coq Require Import ZifyN ZifyNat ZifyBool.
Import ListNotations.
From NV Require Import lib.Bytes lib.Proto model.Payload.
Open Scope N_scope.
Local Ltac Zify.zify_post_hook ::= Z.div_mod_to_equations.

(* closed tests on field numbers and wire types *)
Ltac fconst := cbv [f_cert f_ii f_ri f_cookie f_time f_ver f_details f_hmac
                    wt_varint wt_fixed64 wt_bytes wt_sgroup wt_egroup wt_fixed32].
Ltac fcalc := fconst; cbn [N.eqb Pos.eqb andb orb negb].

Lemma two32_lt_two64 : two32 < two64. Proof. reflexivity. Qed.
Lemma two63_lt_two64 : two63 < two64. Proof. reflexivity. Qed.

(* ---- small decoders ---- *)

Lemma dec_u32_shorter b v r : dec_u32 b = Some (v, r) -> (length r < length b)%nat.
Proof.
  unfold dec_u32. destruct (varint_dec b) as [[v' r']|] eqn:E; [|discriminate].
  destruct (v' <=? max_u32); [|discriminate]. intros H; inversion H; subst. eapply varint_dec_shorter; eassumption.
Qed.

Lemma gogo_u32_shorter b v r : gogo_u32 b = Some (v, r) -> (length r < length b)%nat.
Proof.
  unfold gogo_u32. destruct (varint_dec_gogo b) as [[v' r']|] eqn:E; [|discriminate].
  intros H; inversion H; subst. eapply varint_dec_gogo_shorter; eassumption.
Qed.

Lemma dec_u32_enc x rest : x < two32 -> dec_u32 (varint_enc x ++ rest) = Some (x, rest).
Proof.
  intros H. unfold dec_u32. rewrite varint_dec_enc by (unfold two32, two64 in *; lia).
  destruct (x <=? max_u32) eqn:E; [reflexivity|]. apply N.leb_gt in E. unfold max_u32, two32 in *. lia.
Qed.

Lemma dec_u32_range x rest : two32 <= x -> x < two64 -> dec_u32 (varint_enc x ++ rest) = None.
Proof.
  intros H1 H2. unfold dec_u32. rewrite varint_dec_enc by assumption.
  destruct (x <=? max_u32) eqn:E; [|reflexivity]. apply N.leb_le in E. unfold max_u32, two32 in *. lia.
Qed.

Lemma gogo_u32_enc x rest : x < two64 -> gogo_u32 (varint_enc x ++ rest) = Some (x mod two32, rest).
Proof. intros H. unfold gogo_u32. now rewrite varint_dec_gogo_enc. Qed.

(* ---- progress of the four loop bodies ---- *)

Ltac open_step H :=
  repeat match type of H with
         | context [if ?c then _ else _] => destruct c
         | context [match ?x with Some _ => _ | None => _ end] => let E := fresh "E" in destruct x eqn:E
         | context [match ?x with pair _ _ => _ end] => destruct x
         end; try discriminate.

Ltac shorter_facts :=
  repeat match goal with
         | E : tag_dec _ = Some _ |- _ => apply tag_dec_shorter in E
         | E : tag_dec_gogo _ = Some _ |- _ => apply tag_dec_gogo_shorter in E
         | E : bytes_dec _ = Some _ |- _ => apply bytes_dec_shorter in E
         | E : bytes_dec_gogo _ = Some _ |- _ => apply bytes_dec_gogo_shorter in E
         | E : varint_dec _ = Some _ |- _ => apply varint_dec_shorter in E
         | E : varint_dec_gogo _ = Some _ |- _ => apply varint_dec_gogo_shorter in E
         | E : dec_u32 _ = Some _ |- _ => apply dec_u32_shorter in E
         | E : gogo_u32 _ = Some _ |- _ => apply gogo_u32_shorter in E
         | E : skip_field_pw _ _ _ = Some _ |- _ => apply skip_field_pw_shorter in E
         | E : skip_gogo _ = Some _ |- _ => apply skip_gogo_shorter in E
         end.

Lemma details_step_progress s p b p' b' : details_step s p b = Some (p', b') -> (length b' < length b)%nat.
Proof.
  unfold details_step. intros H. open_step H; inversion H; subst; shorter_facts; lia.
Qed.

Lemma outer_step_progress s p b p' b' : outer_step s p b = Some (p', b') -> (length b' < length b)%nat.
Proof.
  unfold outer_step. intros H. open_step H; inversion H; subst; shorter_facts; lia.
Qed.

Lemma schema_details_step_progress d b d' b' : schema_details_step d b = Some (d', b') -> (length b' < length b)%nat.
Proof.
  unfold schema_details_step. intros H. open_step H; inversion H; subst; shorter_facts; lia.
Qed.

Lemma schema_outer_step_progress m b m' b' : schema_outer_step m b = Some (m', b') -> (length b' < length b)%nat.
Proof.
  unfold schema_outer_step. intros H. open_step H; inversion H; subst; shorter_facts; lia.
Qed.

(* ---- sizes ---- *)

Lemma tag_enc_nonempty num typ : tag_enc num typ <> [].
Proof. apply varint_enc_nonempty. Qed.

Lemma field_varint_nonempty num x : field_varint num x <> [].
Proof. unfold field_varint. pose proof (tag_enc_nonempty num wt_varint). destruct (tag_enc num wt_varint); [contradiction|discriminate]. Qed.

Lemma field_bytes_nonempty num v : field_bytes num v <> [].
Proof. unfold field_bytes. pose proof (tag_enc_nonempty num wt_bytes). destruct (tag_enc num wt_bytes); [contradiction|discriminate]. Qed.

Lemma tag_enc_length num typ : num <= max_field_number -> typ < 8 -> (length (tag_enc num typ) <= 10)%nat.
Proof. intros H1 H2. apply varint_enc_length. now apply tag_value_bound. Qed.

Lemma opt_varint_length num x : num <= max_field_number -> x < two64 -> (length (opt_varint num x) <= 20)%nat.
Proof.
  intros Hn Hx. unfold opt_varint. destruct (x =? 0); [cbn; lia|]. unfold field_varint. rewrite app_length.
  pose proof (tag_enc_length num wt_varint Hn ltac:(reflexivity)). pose proof (varint_enc_length x Hx). lia.
Qed.

Lemma opt_bytes_length num v : num <= max_field_number -> N.of_nat (length v) < two64 ->
  (length (opt_bytes num v) <= 20 + length v)%nat.
Proof.
  intros Hn Hv. unfold opt_bytes. destruct v as [|a v']; [cbn; lia|]. set (v := a :: v') in *.
  unfold field_bytes, bytes_enc. rewrite !app_length.
  pose proof (tag_enc_length num wt_bytes Hn ltac:(reflexivity)). pose proof (varint_enc_length _ Hv). lia.
Qed.

Lemma fnum_ok : f_cert <= max_field_number /\ f_ii <= max_field_number /\ f_ri <= max_field_number /\
  f_cookie <= max_field_number /\ f_time <= max_field_number /\ f_ver <= max_field_number /\ f_hmac <= max_field_number.
Proof. unfold max_field_number. repeat split; discriminate. Qed.

Lemma details_enc_length p : wf_payload p -> N.of_nat (length (details_enc p)) < two64.
Proof.
  intros (Hc & Hi & Hr & Ht & Hv). destruct fnum_ok as (F1 & F2 & F3 & F4 & F5 & F8 & _).
  unfold details_enc. rewrite !app_length.
  pose proof (opt_bytes_length f_cert (p_cert p) F1 ltac:(unfold two63, two64 in *; lia)).
  pose proof (opt_varint_length f_ii (p_ii p) F2 ltac:(unfold two32, two64 in *; lia)).
  pose proof (opt_varint_length f_ri (p_ri p) F3 ltac:(unfold two32, two64 in *; lia)).
  pose proof (opt_varint_length f_time (p_time p) F5 Ht).
  pose proof (opt_varint_length f_ver (p_ver p) F8 ltac:(unfold two32, two64 in *; lia)).
  unfold two63, two64 in *. lia.
Qed.

Lemma schema_details_enc_length d : wf_details d -> N.of_nat (length (schema_details_enc d)) < two64.
Proof.
  intros (Hc & Hi & Hr & Hk & Ht & Hv). destruct fnum_ok as (F1 & F2 & F3 & F4 & F5 & F8 & _).
  unfold schema_details_enc. rewrite !app_length.
  pose proof (opt_bytes_length f_cert (d_cert d) F1 ltac:(unfold two63, two64 in *; lia)).
  pose proof (opt_varint_length f_ii (d_ii d) F2 ltac:(unfold two32, two64 in *; lia)).
  pose proof (opt_varint_length f_ri (d_ri d) F3 ltac:(unfold two32, two64 in *; lia)).
  pose proof (opt_varint_length f_cookie (d_cookie d) F4 Hk).
  pose proof (opt_varint_length f_time (d_time d) F5 Ht).
  pose proof (opt_varint_length f_ver (d_ver d) F8 ltac:(unfold two32, two64 in *; lia)).
  unfold two63, two64 in *. lia.
Qed.

(* ---- hand-written parser: one well-formed field ---- *)

Ltac tag_ok := unfold max_field_number; fconst; lia.

Lemma hstep_cert s p v rest : N.of_nat (length v) < two64 ->
  details_step s p (field_bytes f_cert v ++ rest) = Some (set_cert p v, rest).
Proof.
  intros H. unfold field_bytes, details_step. rewrite <- !app_assoc.
  rewrite tag_dec_enc by tag_ok. fcalc. now rewrite bytes_dec_enc.
Qed.

Lemma hstep_ii s p x rest : x < two32 ->
  details_step s p (field_varint f_ii x ++ rest) = Some (set_ii p x, rest).
Proof.
  intros H. unfold field_varint, details_step. rewrite <- !app_assoc.
  rewrite tag_dec_enc by tag_ok. fcalc. now rewrite dec_u32_enc.
Qed.

Lemma hstep_ri s p x rest : x < two32 ->
  details_step s p (field_varint f_ri x ++ rest) = Some (set_ri p x, rest).
Proof.
  intros H. unfold field_varint, details_step. rewrite <- !app_assoc.
  rewrite tag_dec_enc by tag_ok. fcalc. now rewrite dec_u32_enc.
Qed.

Lemma hstep_time s p x rest : x < two64 ->
  details_step s p (field_varint f_time x ++ rest) = Some (set_time p x, rest).
Proof.
  intros H. unfold field_varint, details_step. rewrite <- !app_assoc.
  rewrite tag_dec_enc by tag_ok. fcalc. now rewrite varint_dec_enc.
Qed.

Lemma hstep_ver s p x rest : x < two32 ->
  details_step s p (field_varint f_ver x ++ rest) = Some (set_ver p x, rest).
Proof.
  intros H. unfold field_varint, details_step. rewrite <- !app_assoc.
  rewrite tag_dec_enc by tag_ok. fcalc. now rewrite dec_u32_enc.
Qed.

(* Cookie = 4 as the schema encodes it (varint) is an unknown field for the parser: skipped, also when strict *)
Lemma hstep_cookie s p x rest : x < two64 ->
  details_step s p (field_varint f_cookie x ++ rest) = Some (p, rest).
Proof.
  intros H. unfold field_varint, details_step. rewrite <- !app_assoc.
  rewrite tag_dec_enc by tag_ok. fcalc.
  rewrite skip_field_pw_nongroup by discriminate. now rewrite skip_field_varint.
Qed.

(* ---- the loops over optional fields ---- *)

Definition hrun s := msg_run (details_step s).

Lemma hrun_field s p p' field rest : field <> [] ->
  details_step s p (field ++ rest) = Some (p', rest) -> hrun s p (field ++ rest) = hrun s p' rest.
Proof. apply msg_run_field. intros; eapply details_step_progress; eassumption. Qed.

Lemma hrun_opt_cert s p v rest : N.of_nat (length v) < two64 ->
  hrun s p (opt_bytes f_cert v ++ rest) = hrun s (match v with [] => p | _ => set_cert p v end) rest.
Proof.
  intros H. unfold opt_bytes. destruct v as [|a v']; [reflexivity|].
  apply hrun_field; [apply field_bytes_nonempty|now apply hstep_cert].
Qed.

Lemma hrun_opt_ii s p x rest : x < two32 ->
  hrun s p (opt_varint f_ii x ++ rest) = hrun s (if x =? 0 then p else set_ii p x) rest.
Proof.
  intros H. unfold opt_varint. destruct (x =? 0); [reflexivity|].
  apply hrun_field; [apply field_varint_nonempty|now apply hstep_ii].
Qed.

Lemma hrun_opt_ri s p x rest : x < two32 ->
  hrun s p (opt_varint f_ri x ++ rest) = hrun s (if x =? 0 then p else set_ri p x) rest.
Proof.
  intros H. unfold opt_varint. destruct (x =? 0); [reflexivity|].
  apply hrun_field; [apply field_varint_nonempty|now apply hstep_ri].
Qed.

Lemma hrun_opt_cookie s p x rest : x < two64 ->
  hrun s p (opt_varint f_cookie x ++ rest) = hrun s p rest.
Proof.
  intros H. unfold opt_varint. destruct (x =? 0); [reflexivity|].
  apply hrun_field; [apply field_varint_nonempty|now apply hstep_cookie].
Qed.

Lemma hrun_opt_time s p x rest : x < two64 ->
  hrun s p (opt_varint f_time x ++ rest) = hrun s (if x =? 0 then p else set_time p x) rest.
Proof.
  intros H. unfold opt_varint. destruct (x =? 0); [reflexivity|].
  apply hrun_field; [apply field_varint_nonempty|now apply hstep_time].
Qed.

Lemma hrun_opt_ver s p x rest : x < two32 ->
  hrun s p (opt_varint f_ver x ++ rest) = hrun s (if x =? 0 then p else set_ver p x) rest.
Proof.
  intros H. unfold opt_varint. destruct (x =? 0); [reflexivity|].
  apply hrun_field; [apply field_varint_nonempty|now apply hstep_ver].
Qed.

(* fields of q written over p: what parsing the encoding of q does to a parser state p (proto3 merge) *)
Definition merge (p q : payload) : payload :=
  mkPayload (match p_cert q with [] => p_cert p | _ => p_cert q end)
            (if p_ii q =? 0 then p_ii p else p_ii q)
            (if p_ri q =? 0 then p_ri p else p_ri q)
            (if p_time q =? 0 then p_time p else p_time q)
            (if p_ver q =? 0 then p_ver p else p_ver q).

Lemma merge_payload0 q : merge payload0 q = q.
Proof.
  destruct q as [c i r t v]. unfold merge. cbn [p_cert p_ii p_ri p_time p_ver payload0].
  destruct c;
    destruct (i =? 0) eqn:Ei; destruct (r =? 0) eqn:Er; destruct (t =? 0) eqn:Et; destruct (v =? 0) eqn:Ev;
    repeat match goal with H : (_ =? 0) = true |- _ => apply N.eqb_eq in H; subst end; reflexivity.
Qed.

Lemma hrun_details_enc s p q rest : wf_payload q ->
  hrun s p (details_enc q ++ rest) = hrun s (merge p q) rest.
Proof.
  intros (Hc & Hi & Hr & Ht & Hv). unfold details_enc. rewrite <- !app_assoc.
  rewrite hrun_opt_cert by (unfold two63, two64 in *; lia).
  rewrite hrun_opt_ii, hrun_opt_ri, hrun_opt_time, hrun_opt_ver by assumption.
  f_equal. destruct p as [pc pi pr pt pv], q as [c i r t v]. unfold merge.
  cbn [p_cert p_ii p_ri p_time p_ver] in *.
  destruct c; destruct (i =? 0); destruct (r =? 0); destruct (t =? 0); destruct (v =? 0); reflexivity.
Qed.

Lemma unmarshal_details_enc s p q : wf_payload q -> unmarshal_details s p (details_enc q) = Some (merge p q).
Proof.
  intros H. unfold unmarshal_details. rewrite <- (app_nil_r (details_enc q)).
  change (msg_run (details_step s)) with (hrun s). rewrite hrun_details_enc by assumption. reflexivity.
Qed.

(* the same over the schema's Details encoding: Cookie is skipped *)
Lemma hrun_schema_details_enc s p d rest : wf_details d ->
  hrun s p (schema_details_enc d ++ rest) = hrun s (merge p (payload_of_details d)) rest.
Proof.
  intros (Hc & Hi & Hr & Hk & Ht & Hv). unfold schema_details_enc. rewrite <- !app_assoc.
  rewrite hrun_opt_cert by (unfold two63, two64 in *; lia).
  rewrite hrun_opt_ii, hrun_opt_ri, hrun_opt_cookie, hrun_opt_time, hrun_opt_ver by assumption.
  f_equal. destruct p as [pc pi pr pt pv], d as [c i r k t v]. unfold merge, payload_of_details.
  cbn [p_cert p_ii p_ri p_time p_ver d_cert d_ii d_ri d_time d_ver] in *.
  destruct c; destruct (i =? 0); destruct (r =? 0); destruct (t =? 0); destruct (v =? 0); reflexivity.
Qed.

(* ---- hand-written parser: outer message ---- *)

Definition orun s := msg_run (outer_step s).

Lemma ostep_details s p d rest : N.of_nat (length d) < two64 ->
  outer_step s p (field_bytes f_details d ++ rest) =
  match unmarshal_details s p d with Some p' => Some (p', rest) | None => None end.
Proof.
  intros H. unfold field_bytes, outer_step. rewrite <- !app_assoc.
  rewrite tag_dec_enc by tag_ok. fcalc. now rewrite bytes_dec_enc.
Qed.

Lemma ostep_hmac s p v rest : N.of_nat (length v) < two64 ->
  outer_step s p (field_bytes f_hmac v ++ rest) = Some (p, rest).
Proof.
  intros H. unfold field_bytes, outer_step. rewrite <- !app_assoc.
  rewrite tag_dec_enc by tag_ok. fcalc.
  rewrite skip_field_pw_nongroup by discriminate. now rewrite skip_field_bytes.
Qed.

Lemma orun_step s p b : b <> [] ->
  orun s p b = match outer_step s p b with None => None | Some (p', b') => orun s p' b' end.
Proof. apply msg_run_step. intros; eapply outer_step_progress; eassumption. Qed.

Lemma orun_details s p d rest : N.of_nat (length d) < two64 ->
  orun s p (field_bytes f_details d ++ rest) =
  match unmarshal_details s p d with Some p' => orun s p' rest | None => None end.
Proof.
  intros H. rewrite orun_step.
  - rewrite ostep_details by assumption. destruct (unmarshal_details s p d); reflexivity.
  - pose proof (field_bytes_nonempty f_details d). destruct (field_bytes f_details d); [contradiction|discriminate].
Qed.

Lemma orun_opt_hmac s p v rest : N.of_nat (length v) < two64 ->
  orun s p (opt_bytes f_hmac v ++ rest) = orun s p rest.
Proof.
  intros H. unfold opt_bytes. destruct v as [|a v']; [reflexivity|].
  apply msg_run_field; [intros; eapply outer_step_progress; eassumption|apply field_bytes_nonempty|now apply ostep_hmac].
Qed.

(* ROUND TRIP of the hand-written codec *)
Theorem roundtrip s p : wf_payload p -> unmarshal_gen s (marshal_payload p) = Some p.
Proof.
  intros H. unfold unmarshal_gen, marshal_payload. change (msg_run (outer_step s)) with (orun s).
  rewrite <- (app_nil_r (field_bytes f_details (details_enc p))).
  rewrite orun_details by (now apply details_enc_length).
  rewrite unmarshal_details_enc by assumption. rewrite merge_payload0. reflexivity.
Qed.

(* BACKWARD: whatever the generated encoder writes for a well-formed schema message is read back field by field *)
Theorem schema_bwd s m : wf_msg m -> unmarshal_gen s (schema_encode m) = Some (payload_of_msg m).
Proof.
  intros [Hd Hh]. unfold unmarshal_gen, schema_encode, payload_of_msg. change (msg_run (outer_step s)) with (orun s).
  destruct (h_details m) as [d|].
  - rewrite orun_details by (now apply schema_details_enc_length).
    unfold unmarshal_details. rewrite <- (app_nil_r (schema_details_enc d)).
    change (msg_run (details_step s)) with (hrun s). rewrite hrun_schema_details_enc by assumption.
    change (hrun s ?p []) with (Some p). rewrite merge_payload0.
    rewrite <- (app_nil_r (opt_bytes f_hmac (h_hmac m))).
    rewrite orun_opt_hmac by (unfold two63, two64 in *; lia). reflexivity.
  - cbn [app]. rewrite <- (app_nil_r (opt_bytes f_hmac (h_hmac m))).
    rewrite orun_opt_hmac by (unfold two63, two64 in *; lia). reflexivity.
Qed.

(* ---- generated decoder: one well-formed field ---- *)

Lemma gstep_cert d v rest : N.of_nat (length v) < two64 ->
  schema_details_step d (field_bytes f_cert v ++ rest) = Some (dset_cert d v, rest).
Proof.
  intros H. unfold field_bytes, schema_details_step. rewrite <- !app_assoc.
  rewrite tag_dec_gogo_enc by (try discriminate; tag_ok). fcalc. now rewrite bytes_dec_gogo_enc.
Qed.

Lemma gstep_u32 num (setf : details_msg -> N -> details_msg) d x rest :
  (num = f_ii /\ setf = dset_ii) \/ (num = f_ri /\ setf = dset_ri) \/ (num = f_ver /\ setf = dset_ver) ->
  x < two64 ->
  schema_details_step d (field_varint num x ++ rest) = Some (setf d (x mod two32), rest).
Proof.
  intros Hn H. unfold field_varint, schema_details_step. rewrite <- !app_assoc.
  destruct Hn as [[-> ->]|[[-> ->]|[-> ->]]];
    (rewrite tag_dec_gogo_enc by (try discriminate; tag_ok)); fcalc; now rewrite gogo_u32_enc.
Qed.

Lemma gstep_u64 num (setf : details_msg -> N -> details_msg) d x rest :
  (num = f_cookie /\ setf = dset_cookie) \/ (num = f_time /\ setf = dset_time) ->
  x < two64 ->
  schema_details_step d (field_varint num x ++ rest) = Some (setf d x, rest).
Proof.
  intros Hn H. unfold field_varint, schema_details_step. rewrite <- !app_assoc.
  destruct Hn as [[-> ->]|[-> ->]];
    (rewrite tag_dec_gogo_enc by (try discriminate; tag_ok)); fcalc; now rewrite varint_dec_gogo_enc.
Qed.

Definition grun := msg_run schema_details_step.

Lemma grun_field d d' field rest : field <> [] ->
  schema_details_step d (field ++ rest) = Some (d', rest) -> grun d (field ++ rest) = grun d' rest.
Proof. apply msg_run_field. intros; eapply schema_details_step_progress; eassumption. Qed.

Lemma grun_opt_cert d v rest : N.of_nat (length v) < two64 ->
  grun d (opt_bytes f_cert v ++ rest) = grun (match v with [] => d | _ => dset_cert d v end) rest.
Proof.
  intros H. unfold opt_bytes. destruct v as [|a v']; [reflexivity|].
  apply grun_field; [apply field_bytes_nonempty|now apply gstep_cert].
Qed.

Lemma grun_opt_u32 num setf d x rest :
  (num = f_ii /\ setf = dset_ii) \/ (num = f_ri /\ setf = dset_ri) \/ (num = f_ver /\ setf = dset_ver) ->
  x < two32 ->
  grun d (opt_varint num x ++ rest) = grun (if x =? 0 then d else setf d x) rest.
Proof.
  intros Hn H. unfold opt_varint. destruct (x =? 0); [reflexivity|].
  apply grun_field; [apply field_varint_nonempty|].
  rewrite (gstep_u32 num setf) by (try assumption; unfold two32, two64 in *; lia).
  now rewrite N.mod_small.
Qed.

Lemma grun_opt_u64 num setf d x rest :
  (num = f_cookie /\ setf = dset_cookie) \/ (num = f_time /\ setf = dset_time) ->
  x < two64 ->
  grun d (opt_varint num x ++ rest) = grun (if x =? 0 then d else setf d x) rest.
Proof.
  intros Hn H. unfold opt_varint. destruct (x =? 0); [reflexivity|].
  apply grun_field; [apply field_varint_nonempty|]. now apply gstep_u64.
Qed.

Definition dmerge (d q : details_msg) : details_msg :=
  mkDetails (match d_cert q with [] => d_cert d | _ => d_cert q end)
            (if d_ii q =? 0 then d_ii d else d_ii q)
            (if d_ri q =? 0 then d_ri d else d_ri q)
            (if d_cookie q =? 0 then d_cookie d else d_cookie q)
            (if d_time q =? 0 then d_time d else d_time q)
            (if d_ver q =? 0 then d_ver d else d_ver q).

Lemma dmerge_details0 q : dmerge details0 q = q.
Proof.
  destruct q as [c i r k t v]. unfold dmerge. cbn [d_cert d_ii d_ri d_cookie d_time d_ver details0].
  destruct c;
    destruct (i =? 0) eqn:Ei; destruct (r =? 0) eqn:Er; destruct (k =? 0) eqn:Ek; destruct (t =? 0) eqn:Et;
    destruct (v =? 0) eqn:Ev;
    repeat match goal with H : (_ =? 0) = true |- _ => apply N.eqb_eq in H; subst end; reflexivity.
Qed.

Lemma grun_schema_details_enc d q rest : wf_details q ->
  grun d (schema_details_enc q ++ rest) = grun (dmerge d q) rest.
Proof.
  intros (Hc & Hi & Hr & Hk & Ht & Hv). unfold schema_details_enc. rewrite <- !app_assoc.
  rewrite grun_opt_cert by (unfold two63, two64 in *; lia).
  rewrite (grun_opt_u32 f_ii dset_ii) by auto.
  rewrite (grun_opt_u32 f_ri dset_ri) by auto.
  rewrite (grun_opt_u64 f_cookie dset_cookie) by auto.
  rewrite (grun_opt_u64 f_time dset_time) by auto.
  rewrite (grun_opt_u32 f_ver dset_ver) by auto.
  f_equal. destruct d as [pc pi pr pk pt pv], q as [c i r k t v]. unfold dmerge.
  cbn [d_cert d_ii d_ri d_cookie d_time d_ver] in *.
  destruct c; destruct (i =? 0); destruct (r =? 0); destruct (k =? 0); destruct (t =? 0); destruct (v =? 0); reflexivity.
Qed.

Lemma schema_details_decode_enc d q : wf_details q -> schema_details_decode d (schema_details_enc q) = Some (dmerge d q).
Proof.
  intros H. unfold schema_details_decode. rewrite <- (app_nil_r (schema_details_enc q)).
  change (msg_run schema_details_step) with grun. rewrite grun_schema_details_enc by assumption. reflexivity.
Qed.

(* the hand-written encoder writes exactly what the generated encoder writes for the same fields *)
Lemma details_enc_is_schema p : details_enc p = schema_details_enc (details_of_payload p).
Proof. unfold details_enc, schema_details_enc, details_of_payload. cbn. reflexivity. Qed.

Theorem marshal_is_schema_encode p : marshal_payload p = schema_encode (msg_of_payload p).
Proof.
  unfold marshal_payload, schema_encode, msg_of_payload. cbn [h_details h_hmac opt_bytes].
  rewrite app_nil_r. now rewrite details_enc_is_schema.
Qed.

Lemma wf_details_of_payload p : wf_payload p -> wf_details (details_of_payload p).
Proof. intros (Hc & Hi & Hr & Ht & Hv). unfold wf_details, details_of_payload. cbn. repeat split; try assumption; try reflexivity. Qed.

Lemma wf_msg_of_payload p : wf_payload p -> wf_msg (msg_of_payload p).
Proof. intros H. split; [now apply wf_details_of_payload|reflexivity]. Qed.

(* ---- generated decoder: outer message ---- *)

Definition gorun := msg_run schema_outer_step.

Lemma gostep_details m sub rest : N.of_nat (length sub) < two64 ->
  schema_outer_step m (field_bytes f_details sub ++ rest) =
  match schema_details_decode (match h_details m with Some d => d | None => details0 end) sub with
  | Some d' => Some (mkHs (Some d') (h_hmac m), rest)
  | None => None
  end.
Proof.
  intros H. unfold field_bytes, schema_outer_step. rewrite <- !app_assoc.
  rewrite tag_dec_gogo_enc by (try discriminate; tag_ok). fcalc. now rewrite bytes_dec_gogo_enc.
Qed.

Lemma gostep_hmac m v rest : N.of_nat (length v) < two64 ->
  schema_outer_step m (field_bytes f_hmac v ++ rest) = Some (mkHs (h_details m) v, rest).
Proof.
  intros H. unfold field_bytes, schema_outer_step. rewrite <- !app_assoc.
  rewrite tag_dec_gogo_enc by (try discriminate; tag_ok). fcalc. now rewrite bytes_dec_gogo_enc.
Qed.

Lemma gorun_field m m' field rest : field <> [] ->
  schema_outer_step m (field ++ rest) = Some (m', rest) -> gorun m (field ++ rest) = gorun m' rest.
Proof. apply msg_run_field. intros; eapply schema_outer_step_progress; eassumption. Qed.

(* the generated codec round-trips every well-formed message *)
Theorem schema_roundtrip m : wf_msg m -> schema_decode (schema_encode m) = Some m.
Proof.
  intros [Hd Hh]. unfold schema_decode, schema_encode. change (msg_run schema_outer_step) with gorun.
  assert (HM : forall m0 : hs_msg, gorun m0 (opt_bytes f_hmac (h_hmac m)) =
                Some (match h_hmac m with [] => m0 | _ => mkHs (h_details m0) (h_hmac m) end)).
  { intros m0. unfold opt_bytes. destruct (h_hmac m) as [|a v'] eqn:E; [reflexivity|].
    rewrite <- (app_nil_r (field_bytes f_hmac (a :: v'))).
    rewrite (gorun_field m0 (mkHs (h_details m0) (a :: v'))); [reflexivity|apply field_bytes_nonempty|].
    apply gostep_hmac. unfold two63, two64 in *. lia. }
  destruct m as [[d|] hm]; cbn [h_details h_hmac] in *.
  - rewrite (gorun_field hs0 (mkHs (Some d) [])).
    + rewrite HM. destruct hm; reflexivity.
    + apply field_bytes_nonempty.
    + rewrite gostep_details by (now apply schema_details_enc_length).
      cbn [h_details hs0 h_hmac]. rewrite schema_details_decode_enc by assumption. now rewrite dmerge_details0.
  - cbn [app]. rewrite HM. destruct hm; reflexivity.
Qed.

(* FORWARD: the generated decoder reads the hand-written encoding as the same field values, Cookie 0, no Hmac *)
Theorem schema_fwd p : wf_payload p -> schema_decode (marshal_payload p) = Some (msg_of_payload p).
Proof.
  intros H. rewrite marshal_is_schema_encode. apply schema_roundtrip. now apply wf_msg_of_payload.
Qed.

Lemma payload_of_msg_of_payload p : payload_of_msg (msg_of_payload p) = p.
Proof. destruct p; reflexivity. Qed.

(* Segment_arith: the checksum arithmetic of segment_linux.go - the folds are exact, and the incremental
   per-segment computation (base sum with the rewritten fields complemented out, new values added back)
   yields the same 16-bit VALUE as a computation over the finished header from scratch. *)
From Coq Require Import List NArith ZArith Bool Arith Lia ZifyN ZifyNat ZifyBool.
Import ListNotations.
From NV Require Import lib.Bytes lib.Ones model.Segment.
Open Scope N_scope.
Local Ltac Zify.zify_post_hook ::= Z.div_mod_to_equations.

Lemma w32_small x : x < 4294967296 -> w32 x = x.
Proof. intros H. unfold w32. apply N.mod_small. exact H. Qed.
Lemma w16_small x : x < 65536 -> w16 x = x.
Proof. intros H. unfold w16. apply N.mod_small. exact H. Qed.
Lemma w64_small x : x < 18446744073709551616 -> w64 x = x.
Proof. intros H. unfold w64. apply N.mod_small. exact H. Qed.

Lemma fold2_fold16 x : x < 4294967296 -> fold2 x = fold16 x.
Proof. intros H. unfold fold2. apply fold_step2_32. exact H. Qed.

Lemma fold_complement_fold16 x : x < 4294967296 -> fold_complement x = cpl16 (fold16 x).
Proof.
  intros H. unfold fold_complement. rewrite fold2_fold16 by exact H.
  rewrite w16_small by apply fold16_lt. reflexivity.
Qed.

Lemma fold32_2 x : x < 18446744073709551616 ->
  fold32_step (fold32_step x) < 4294967296 /\ fold16 (fold32_step (fold32_step x)) = fold16 x.
Proof.
  intros H. split.
  - unfold fold32_step. lia.
  - rewrite !fold32_step_fold16. reflexivity.
Qed.

Lemma fold16_add_mult x k : x <> 0 -> fold16 (x + 65535 * k) = fold16 x.
Proof. intros H. apply fold16_cong; lia. Qed.

Lemma fold16_add3 a b c : fold16 (a + fold16 b + c) = fold16 (a + b + c).
Proof.
  replace (a + fold16 b + c) with (fold16 b + (a + c)) by lia. rewrite fold16_add_l. f_equal. lia.
Qed.

Lemma osum0 l : osum l 0 = fold16 (sum16 l).
Proof. reflexivity. Qed.

(* IPv4 header checksum: S = sum of the original header, t0/c0/i0 the original total length / checksum / ID words,
   Sz the sum of the finished header with a zeroed checksum field *)
Lemma ip_csum_core S Sz t0 c0 i0 tl id :
  t0 <= 65535 -> c0 <= 65535 -> i0 <= 65535 -> tl <= 65535 -> id <= 65535 ->
  Sz + t0 + c0 + i0 = S + tl + id -> Sz <> 0 ->
  fold_complement (w32 (fold2 (w32 (fold16 S + cpl16 t0 + cpl16 c0 + cpl16 i0)) + w32 tl + id)) = cpl16 (fold16 Sz).
Proof.
  intros Ht Hc Hi Htl Hid E Hnz. unfold cpl16.
  pose proof (fold16_le S) as HS.
  rewrite (w32_small (fold16 S + _ + _ + _)) by lia.
  rewrite fold2_fold16 by lia.
  rewrite (w32_small tl) by lia.
  pose proof (fold16_le (fold16 S + (65535 - t0) + (65535 - c0) + (65535 - i0))) as HB.
  rewrite w32_small by lia.
  rewrite fold_complement_fold16 by lia.
  unfold cpl16. f_equal.
  replace (fold16 (fold16 S + (65535 - t0) + (65535 - c0) + (65535 - i0)) + tl + id)
    with (fold16 (fold16 S + (65535 - t0) + (65535 - c0) + (65535 - i0)) + (tl + id)) by lia.
  rewrite fold16_add_l.
  replace (fold16 S + (65535 - t0) + (65535 - c0) + (65535 - i0) + (tl + id))
    with (fold16 S + ((65535 - t0) + (65535 - c0) + (65535 - i0) + (tl + id))) by lia.
  rewrite fold16_add_l.
  replace (S + (65535 - t0 + (65535 - c0) + (65535 - i0) + (tl + id))) with (Sz + 65535 * 3) by lia.
  apply fold16_add_mult. exact Hnz.
Qed.

(* TCP checksum: T = sum of the original TCP header, sh/sl/f0/c0 its sequence-number words, flag byte and checksum
   word, C the payload sum, A the address sum, Sz the sum of the finished header with a zeroed checksum field *)
Lemma tcp_csum_core T Sz sh sl f0 c0 C A tcpLen seq' f' :
  sh <= 65535 -> sl <= 65535 -> f0 <= 255 -> c0 <= 65535 -> seq' < 4294967296 -> f' <= 255 -> tcpLen <= 70000 ->
  Sz + sh + sl + f0 + c0 = T + seq' / 65536 + seq' mod 65536 + f' ->
  fold_complement (w32 (fold32_step (fold32_step (w64 (
      fold2 (w32 (fold16 T + cpl16 (w16 sh) + cpl16 (w16 sl) + cpl16 f0 + cpl16 c0))
      + fold16 C + w32 (fold16 A + 6) + seq' + f' + tcpLen))))) =
  cpl16 (fold16 (A + 6 + tcpLen + Sz + C)).
Proof.
  intros Hsh Hsl Hf0 Hc0 Hseq Hf' Hlen E.
  rewrite (w16_small sh), (w16_small sl) by lia. unfold cpl16.
  pose proof (fold16_le T) as HT. pose proof (fold16_le C) as HC. pose proof (fold16_le A) as HA.
  rewrite (w32_small (fold16 T + _ + _ + _ + _)) by lia.
  rewrite fold2_fold16 by lia.
  set (B := fold16 T + (65535 - sh) + (65535 - sl) + (65535 - f0) + (65535 - c0)).
  pose proof (fold16_le B) as HB.
  rewrite (w32_small (fold16 A + 6)) by lia.
  rewrite w64_small by lia.
  set (W := fold16 B + fold16 C + (fold16 A + 6) + seq' + f' + tcpLen).
  assert (HW : W < 18446744073709551616) by (unfold W; lia).
  destruct (fold32_2 W HW) as [Hlt Hf].
  rewrite w32_small by exact Hlt.
  rewrite fold_complement_fold16 by exact Hlt.
  unfold cpl16. f_equal. rewrite Hf. unfold W.
  replace (fold16 B + fold16 C + (fold16 A + 6) + seq' + f' + tcpLen)
    with (fold16 B + (fold16 C + (fold16 A + (6 + seq' + f' + tcpLen)))) by lia.
  rewrite fold16_add_l.
  replace (B + (fold16 C + (fold16 A + (6 + seq' + f' + tcpLen))))
    with (fold16 C + (B + (fold16 A + (6 + seq' + f' + tcpLen)))) by lia.
  rewrite fold16_add_l.
  replace (C + (B + (fold16 A + (6 + seq' + f' + tcpLen))))
    with (fold16 A + (C + (B + (6 + seq' + f' + tcpLen)))) by lia.
  rewrite fold16_add_l. unfold B.
  replace (A + (C + (fold16 T + (65535 - sh) + (65535 - sl) + (65535 - f0) + (65535 - c0) + (6 + seq' + f' + tcpLen))))
    with (fold16 T + (A + (C + ((65535 - sh) + (65535 - sl) + (65535 - f0) + (65535 - c0) + (6 + seq' + f' + tcpLen))))) by lia.
  rewrite fold16_add_l.
  replace (T + (A + (C + (65535 - sh + (65535 - sl) + (65535 - f0) + (65535 - c0) + (6 + seq' + f' + tcpLen)))))
    with ((A + 6 + tcpLen + Sz + C) + 65535 * (4 + seq' / 65536)) by lia.
  apply fold16_add_mult. lia.
Qed.

(* UDP checksum: exact without any side condition *)
Lemma udp_csum_core A udpLen L :
  udpLen <= 70000 ->
  fold16 (w16 (fold2 (w32 (w32 (fold16 A + 17) + w32 udpLen))) + L) = fold16 (A + 17 + udpLen + L).
Proof.
  intros Hl. pose proof (fold16_le A) as HA.
  rewrite (w32_small (fold16 A + 17)), (w32_small udpLen) by lia.
  rewrite w32_small by lia. rewrite fold2_fold16 by lia.
  rewrite w16_small by apply fold16_lt.
  rewrite fold16_add_l.
  replace (fold16 A + 17 + udpLen + L) with (fold16 A + (17 + udpLen + L)) by lia.
  rewrite fold16_add_l. f_equal. lia.
Qed.

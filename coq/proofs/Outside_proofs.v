(* Lemmas for C14 over the generated table gen/Tab_Outside.v (re-checked whenever the table is regenerated). *)
From Coq Require Import List NArith Bool Lia.
Import ListNotations.
From NV Require Import lib.Outside_lib gen.Tab_Outside model.Outside.
Open Scope N_scope.

(* ---- the table lists exactly the feasible rows ------------------------------------------------------- *)

Lemma table_keys : map fst tab_outside = all_rows.
Proof. vm_compute. reflexivity. Qed.

Lemma in_bools b : In b bools.
Proof. destruct b; cbn; auto. Qed.
Lemma in_vias v : In v vias.
Proof. destruct v; cbn; auto. Qed.
Lemma in_rels v : In v rels.
Proof. destruct v; cbn; auto. Qed.
Lemma in_rms v : In v rms.
Proof. destruct v; cbn; auto 6. Qed.
Lemma in_tys t : t < 16 -> In t tys.
Proof.
  intros H. unfold tys. apply in_map_iff. exists (N.to_nat t). split; [apply Nnat.N2Nat.id|].
  apply in_seq. lia.
Qed.
Lemma in_sts t : t < 3 -> In t sts.
Proof.
  intros H. assert (E : t = 0 \/ t = 1 \/ t = 2) by lia.
  destruct E as [E|[E|E]]; subst; cbn; auto.
Qed.

Lemma in_candidates r : r_ty r < 16 -> r_st r < 3 -> In r candidates.
Proof.
  intros Ht Hs. destruct r as [ty st ver v cs ca idx full auth fresh rel rm]. cbn in Ht, Hs. unfold candidates.
  apply in_flat_map; exists ty; split; [now apply in_tys|].
  apply in_flat_map; exists st; split; [now apply in_sts|].
  apply in_flat_map; exists ver; split; [apply in_bools|].
  apply in_flat_map; exists v; split; [apply in_vias|].
  apply in_flat_map; exists cs; split; [apply in_bools|].
  apply in_flat_map; exists ca; split; [apply in_bools|].
  apply in_flat_map; exists idx; split; [apply in_bools|].
  apply in_flat_map; exists full; split; [apply in_bools|].
  apply in_flat_map; exists auth; split; [apply in_bools|].
  apply in_flat_map; exists fresh; split; [apply in_bools|].
  apply in_flat_map; exists rel; split; [apply in_rels|].
  apply in_flat_map; exists rm; split; [apply in_rms|].
  now left.
Qed.

Lemma feasible_bounds r : feasible r = true -> r_ty r < 16 /\ r_st r < 3.
Proof.
  unfold feasible. rewrite !andb_true_iff. intros [[[[[[[H1 H2] _] _] _] _] _] _].
  now apply N.ltb_lt in H1; apply N.ltb_lt in H2.
Qed.

Lemma in_all_rows r : feasible r = true -> In r all_rows.
Proof.
  intros F. unfold all_rows. apply filter_In. split; [|exact F].
  destruct (feasible_bounds r F). now apply in_candidates.
Qed.

Lemma read_total r : feasible r = true -> exists m, read_outside r = Some m.
Proof.
  intros F. unfold read_outside. apply lookup_some. rewrite table_keys. now apply in_all_rows.
Qed.

Lemma read_feasible r m : read_outside r = Some m -> feasible r = true.
Proof.
  intros L. unfold read_outside in L. apply lookup_in in L.
  assert (I : In r (map fst tab_outside)) by (apply in_map_iff; exists (r, m); auto).
  rewrite table_keys in I. unfold all_rows in I. now apply filter_In in I.
Qed.

(* the bucketed lookup is the lookup *)
Lemma lookup_filter {V} (f : row -> bool) k (l : list (row * V)) :
  f k = true -> lookup k (filter (fun kv => f (fst kv)) l) = lookup k l.
Proof.
  intros Hk. induction l as [|[k' v] l IH]; [reflexivity|]. cbn [filter fst lookup].
  destruct (f k') eqn:Fk'; cbn [lookup].
  - now rewrite IH.
  - rewrite IH. destruct (row_eqb k k') eqn:E; [|reflexivity]. apply row_eqb_eq in E. subst. congruence.
Qed.

Lemma buckets_eq : buckets = map bucket (map N.of_nat (seq 0 16)).
Proof. vm_compute. reflexivity. Qed.

Lemma read_fast_eq r : read_fast r = read_outside r.
Proof.
  unfold read_fast, read_outside. destruct (N.ltb_spec (r_ty r) 16) as [Hlt|Hge].
  - rewrite buckets_eq. rewrite map_map.
    rewrite (nth_indep _ [] (bucket (N.of_nat 0))) by (rewrite map_length, seq_length; lia).
    rewrite (map_nth (fun x => bucket (N.of_nat x))). rewrite seq_nth by lia. cbn [plus].
    rewrite Nnat.N2Nat.id. unfold bucket. apply (lookup_filter (fun k => r_ty k =? r_ty r)). apply N.eqb_refl.
  - rewrite nth_overflow by (rewrite buckets_eq, !map_length, seq_length; lia). cbn [lookup].
    destruct (lookup r tab_outside) as [m|] eqn:L; [|reflexivity].
    exfalso. assert (F : feasible r = true).
    { apply lookup_in in L. assert (I : In r (map fst tab_outside)) by (apply in_map_iff; exists (r, m); auto).
      rewrite table_keys in I. unfold all_rows in I. now apply filter_In in I. }
    destruct (feasible_bounds r F). lia.
Qed.

(* ---- clauses checked on every entry of the table ------------------------------------------------------- *)

Definition tab_all (P : row -> N -> bool) : bool := forallb (fun kv => P (fst kv) (snd kv)) tab_outside.

Lemma tab_all_read P : tab_all P = true -> forall r m, read_outside r = Some m -> P r m = true.
Proof. intros H r m. now apply lookup_forallb. Qed.

(* the code as it is meets the rule outside the recv_error region *)
Lemma tab_spec_f12 : tab_all spec_ok_f12 = true.
Proof. vm_compute. reflexivity. Qed.

(* where accept_recv_error does not permit the source, it meets the rule as stated *)
Lemma tab_spec_strict : tab_all (fun r m => implb (negb (r_cfgA r)) (spec_ok r m)) = true.
Proof. vm_compute. reflexivity. Qed.

(* outside the region the two rules are the same *)
Lemma tab_spec_outside_region : tab_all (fun r m => implb (negb (f12_region r)) (spec_ok r m)) = true.
Proof. vm_compute. reflexivity. Qed.

(* a recv_error packet can only close; a handshake packet only reaches the handshake manager *)
Lemma tab_re_scope : tab_all (fun r m => implb (is_re r) (subset m m_close)) = true.
Proof. vm_compute. reflexivity. Qed.
Lemma tab_hs_scope : tab_all (fun r m => implb (is_hs r) (subset m m_hs)) = true.
Proof. vm_compute. reflexivity. Qed.

(* a recv_error is only ever sent for a direct packet of an encrypted type whose index does not resolve, when
   send_recv_error permits the source *)
Lemma tab_recverr_when : tab_all (fun r m => implb (has e_recverr m)
   (negb (r_idx r) && r_cfgS r && r_ver r && via_eqb (r_via r) VDirect && negb (is_hs r) && negb (is_re r))) = true.
Proof. vm_compute. reflexivity. Qed.

(* the window advances exactly for authentic fresh packets of a valid encrypted type (a close message removes the
   tunnel together with its window) *)
Lemma tab_win_iff : tab_all (fun r m => Bool.eqb (has e_win m)
   (authfresh r && negb (via_eqb (r_via r) VVpn) &&
    existsb (fun p => (r_ty r =? fst p) && (r_st r =? snd p))
            [(t_message, 0); (t_message, st_relay); (t_lighthouse, 0); (t_test, 0); (t_test, st_test_reply); (t_control, 0)])) = true.
Proof. vm_compute. reflexivity. Qed.

(* what authentic fresh packets do (the table is not vacuous): each type reaches its handler *)
Lemma tab_positive : tab_all (fun r m =>
   implb (authfresh r && via_eqb (r_via r) VDirect && (r_st r =? 0))
     ((implb (r_ty r =? t_message) (has e_deliver m && has e_roam m && has e_live m)) &&
      (implb (r_ty r =? t_lighthouse) (has e_lh m)) &&
      (implb (r_ty r =? t_test) (has e_reply m)) &&
      (implb (r_ty r =? t_close_tunnel) (has e_close m)) &&
      (implb (r_ty r =? t_control) (has e_ctl m)))) = true.
Proof. vm_compute. reflexivity. Qed.

(* roaming is never triggered by a relayed packet *)
Lemma tab_roam_direct : tab_all (fun r m => implb (has e_roam m) (via_eqb (r_via r) VDirect)) = true.
Proof. vm_compute. reflexivity. Qed.

(* the F12 region does close, with the default configuration, without any key *)
Definition f12_witness : row := mkRow t_recv_error 0 true VDirect true true true false false false RNA MMatch.
Definition f12_witness_relayed_tunnel : row := mkRow t_recv_error 0 true VDirect true true true false false false RNA MInvalid.

Lemma f12_closes : read_outside f12_witness = Some m_close /\ read_outside f12_witness_relayed_tunnel = Some m_close.
Proof. vm_compute. split; reflexivity. Qed.

Lemma tab_f12_exact : tab_all (fun r m => implb (is_re r)
   (Bool.eqb (has e_close m) (f12_region r && r_ver r && (r_st r =? 0) && negb (via_eqb (r_via r) VVpn)))) = true.
Proof. vm_compute. reflexivity. Qed.

(* ---- from booleans to statements ------------------------------------------------------------------------ *)

Lemma authfresh_true r : authfresh r = true ->
  r_ver r = true /\ r_idx r = true /\ r_full r = true /\ r_auth r = true /\ r_fresh r = true.
Proof. unfold authfresh. rewrite !andb_true_iff. tauto. Qed.

Lemma hs_no_close r m : read_outside r = Some m -> is_hs r = true -> has e_close m = false.
Proof.
  intros L H. pose proof (tab_all_read _ tab_hs_scope r m L) as S. cbn beta in S. rewrite H in S. cbn [implb] in S.
  destruct (has e_close m) eqn:E; [|reflexivity]. pose proof (subset_has _ _ _ S E) as B. apply has_mask_of in B.
  cbn in B. destruct B as [B|[B|[]]]; discriminate B.
Qed.

Lemma spec_f12_body r m : read_outside r = Some m -> is_hs r = false ->
  has e_other m = false /\
  (subset m m_recverr || authfresh r || (f12_region r && subset m m_close)) = true /\
  implb (has e_close m) ((r_ty r =? t_close_tunnel) && authfresh r || f12_region r) = true.
Proof.
  intros L H. pose proof (tab_all_read _ tab_spec_f12 r m L) as S. unfold spec_ok_f12 in S. rewrite H in S.
  cbn [orb] in S. apply andb_true_iff in S as [S S3]. apply andb_true_iff in S as [S1 S2].
  apply negb_true_iff in S1. auto.
Qed.

Lemma gated r m e :
  read_outside r = Some m -> has e m = true -> e <> e_recverr ->
  authfresh r = true \/ r_ty r = t_handshake \/ r_ty r = t_recv_error.
Proof.
  intros L He Hne. destruct (is_hs r) eqn:Hh.
  { right; left. unfold is_hs in Hh. now apply N.eqb_eq in Hh. }
  destruct (spec_f12_body r m L Hh) as (_ & S & _).
  rewrite !orb_true_iff in S. destruct S as [[S|S]|S].
  - exfalso. apply Hne. apply has_bit. exact (subset_has _ _ _ S He).
  - now left.
  - apply andb_true_iff in S as [S _]. unfold f12_region in S. rewrite !andb_true_iff in S. destruct S as [[[S _] _] _].
    right; right. unfold is_re in S. now apply N.eqb_eq in S.
Qed.

Lemma close_only r m :
  read_outside r = Some m -> has e_close m = true ->
  (r_ty r = t_close_tunnel /\ authfresh r = true) \/ f12_region r = true.
Proof.
  intros L Hc. destruct (is_hs r) eqn:Hh.
  { rewrite (hs_no_close r m L Hh) in Hc. discriminate. }
  destruct (spec_f12_body r m L Hh) as (_ & _ & S). rewrite Hc in S. cbn [implb] in S.
  apply orb_true_iff in S as [S|S]; [left|now right].
  apply andb_true_iff in S as [S1 S2]. split; [now apply N.eqb_eq in S1|exact S2].
Qed.

Lemma close_strict r m :
  r_cfgA r = false -> read_outside r = Some m -> has e_close m = true ->
  r_ty r = t_close_tunnel /\ authfresh r = true.
Proof.
  intros Hc L Hm. destruct (close_only r m L Hm) as [H|H]; [exact H|].
  unfold f12_region in H. rewrite Hc in H. rewrite andb_false_r in H. discriminate.
Qed.

Lemma unauth_inert r m :
  read_outside r = Some m -> authfresh r = false -> r_ty r <> t_handshake -> f12_region r = false ->
  subset m m_recverr = true.
Proof.
  intros L Ha Hh Hf. assert (H : is_hs r = false) by (unfold is_hs; now apply N.eqb_neq).
  destruct (spec_f12_body r m L H) as (_ & S & _).
  rewrite Ha, Hf in S. cbn [andb] in S. now rewrite !orb_false_r in S.
Qed.

(* ---- histories -------------------------------------------------------------------------------------------- *)

Section HistoryProofs.
  Variable W : Type.
  Variable wcheck : W -> N -> bool.
  Variable wupdate : W -> N -> W.
  Notation state := (state W).
  Notation step := (step W wcheck wupdate).
  Notation run := (run W wcheck wupdate).
  Notation acted := (acted W wcheck wupdate).
  Notation acted_at := (acted_at W wcheck).
  Notation row_at := (row_at W wcheck).
  Notation met := (met W wcheck wupdate).

  Lemma win_acts m : has e_win m = true -> acts m = true.
  Proof.
    intros H. unfold acts. destruct (subset m m_recverr) eqn:S; [|reflexivity].
    pose proof (subset_has _ _ _ S H) as B. apply has_bit in B. discriminate B.
  Qed.

  (* a datagram that did nothing leaves the receiver exactly as it was *)
  Lemma step_inert (s : state) p : acted_at s p = false -> step s p = s.
  Proof.
    unfold acted_at, Outside.step. destruct (read_outside (row_at s p)) as [m|]; [|reflexivity].
    intros A. rewrite A. destruct (has e_win m) eqn:Hw.
    - apply win_acts in Hw. congruence.
    - destruct s; reflexivity.
  Qed.

  Lemma run_acted : forall h (s : state), run s h = run s (acted s h).
  Proof.
    induction h as [|p h IH]; intros s; [reflexivity|].
    cbn [Outside.run fold_left Outside.acted]. destruct (acted_at s p) eqn:A.
    - cbn [fold_left]. apply IH.
    - rewrite (step_inert s p A). apply IH.
  Qed.

  (* a sub-history: every datagram of it is one of the history, in order *)
  Inductive sublist {A} : list A -> list A -> Prop :=
  | sub_nil : sublist [] []
  | sub_keep x l1 l2 : sublist l1 l2 -> sublist (x :: l1) (x :: l2)
  | sub_skip x l1 l2 : sublist l1 l2 -> sublist l1 (x :: l2).

  Lemma acted_sublist : forall h (s : state), sublist (acted s h) h.
  Proof.
    induction h as [|p h IH]; intros s; cbn [Outside.acted]; [constructor|].
    destruct (acted_at s p); constructor; apply IH.
  Qed.

  (* every datagram that did something was, for the receiver state it met, authentic and fresh - or a handshake
     packet, or a recv_error in the F12 region *)
  Definition justified (s : state) (p : pkt) : Prop :=
    authfresh (row_at s p) = true \/ r_ty (p_row p) = t_handshake \/ f12_region (row_at s p) = true.

  Lemma acted_justified (s : state) p : acted_at s p = true -> justified s p.
  Proof.
    unfold acted_at, justified. destruct (read_outside (row_at s p)) as [m|] eqn:L; [|discriminate].
    intros A. destruct (authfresh (row_at s p)) eqn:Ha; [now left|].
    destruct (f12_region (row_at s p)) eqn:Hf; [now right; right|].
    right; left. destruct (N.eq_dec (r_ty (p_row p)) t_handshake) as [E|E]; [exact E|].
    exfalso. assert (Hh : r_ty (row_at s p) <> t_handshake) by exact E.
    pose proof (unauth_inert _ _ L Ha Hh Hf) as S. unfold acts in A. rewrite S in A. discriminate.
  Qed.

  Lemma met_justified : forall h (s : state) s' p,
    In (s', p) (met s h) -> acted_at s' p = true -> justified s' p.
  Proof. intros h s s' p _. apply acted_justified. Qed.
End HistoryProofs.

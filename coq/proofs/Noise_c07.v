(* Lemmas for C07: a rejected handshake message never wedges the handshake. *)
From Coq Require Import List NArith Lia Bool.
Import ListNotations.
From NV Require Import lib.Sym model.Noise model.Machine.
Open Scope N_scope.

(* ---- definitions used in the statements ------------------------------------------------------------ *)

(* equal on everything a later ReadMessage (or WriteMessage) reads *)
Definition noise_equiv (a b : hstate) : Prop := canon a = canon b.

(* same machine except for noise fields that are dead *)
Definition mach_equiv (a b : machine) : Prop :=
  noise_equiv (m_hs a) (m_hs b) /\ set_hs a (m_hs b) = b.

(* the states an IX machine can be in: the IX token lists, and no key before the first message was read or
   written (only MixKey sets hasK, and message 1 of IX has no DH token) *)
Definition ix_wf (st : hstate) : Prop :=
  hs_pat st = ix_pattern /\ (hs_msgIdx st = 0 -> hs_hasK st = false).

Definition outcome_rel (x y : machine * outcome) : Prop :=
  snd x = snd y /\ mach_equiv (fst x) (fst y).

(* ---- basics ---------------------------------------------------------------------------------------- *)

Lemma noise_equiv_refl a : noise_equiv a a.
Proof. reflexivity. Qed.
Lemma noise_equiv_sym a b : noise_equiv a b -> noise_equiv b a.
Proof. unfold noise_equiv; congruence. Qed.
Lemma noise_equiv_trans a b c : noise_equiv a b -> noise_equiv b c -> noise_equiv a c.
Proof. unfold noise_equiv; congruence. Qed.

Lemma mach_equiv_refl a : mach_equiv a a.
Proof. split; [reflexivity | now destruct a]. Qed.
Lemma mach_equiv_sym a b : mach_equiv a b -> mach_equiv b a.
Proof.
  intros [E1 E2]. split; [now apply noise_equiv_sym|].
  destruct a, b; cbn in *. injection E2; intros; subst. reflexivity.
Qed.
Lemma mach_equiv_trans a b c : mach_equiv a b -> mach_equiv b c -> mach_equiv a c.
Proof.
  intros [E1 E2] [E3 E4]. split; [eapply noise_equiv_trans; eassumption|].
  destruct a, b, c; cbn in *. injection E2; injection E4; intros; subst. reflexivity.
Qed.

Lemma ix_nth i :
  nth_error ix_pattern (N.to_nat i) =
  if i =? 0 then Some [TE; TS] else if i =? 1 then Some [TE; TEE; TSE; TS; TES] else None.
Proof.
  destruct (i =? 0) eqn:E0; [apply N.eqb_eq in E0; subst; reflexivity|].
  destruct (i =? 1) eqn:E1; [apply N.eqb_eq in E1; subst; reflexivity|].
  apply N.eqb_neq in E0. apply N.eqb_neq in E1. apply nth_error_None. cbn. lia.
Qed.

Lemma ix_nth_default i :
  nth (N.to_nat i) ix_pattern [] =
  if i =? 0 then [TE; TS] else if i =? 1 then [TE; TEE; TSE; TS; TES] else [].
Proof.
  destruct (i =? 0) eqn:E0; [apply N.eqb_eq in E0; subst; reflexivity|].
  destruct (i =? 1) eqn:E1; [apply N.eqb_eq in E1; subst; reflexivity|].
  apply N.eqb_neq in E0. apply N.eqb_neq in E1. apply nth_overflow. cbn. lia.
Qed.

(* three-way case split on the message index of an IX state *)
Lemma idx_cases (i : N) : i = 0 \/ i = 1 \/ ((i =? 0) = false /\ (i =? 1) = false).
Proof.
  destruct (i =? 0) eqn:E0; [left; now apply N.eqb_eq|].
  destruct (i =? 1) eqn:E1; [right; left; now apply N.eqb_eq|]. right; right; split; reflexivity.
Qed.

(* ---- ReadMessage: a failed read that left the hash alone left everything alone ---------------------- *)

Ltac hs_cbn := unfold hs_dl in *; cbn [hs_curve hs_cipher hs_ck hs_h hs_k hs_n hs_hasK hs_spriv hs_spub hs_e hs_rs hs_re hs_shouldWrite hs_initiator hs_msgIdx hs_pat
   mix_hash mix_key set_sym set_re set_rs set_e set_turn rollback hs_dl rd_loop fst snd] in *.

Ltac brk Hr :=
  match type of Hr with
  | context[match adec ?a ?b ?c ?d with _ => _ end] => destruct (adec a b c d) eqn:?
  | context[if ?c then _ else _] => destruct c eqn:?
  | context[let (_, _) := ?t in _] => destruct t eqn:?
  | context[match ?c with Some _ => _ | None => _ end] => destruct c eqn:?
  end; hs_cbn.

Ltac leaf Hr Hh :=
  first [ discriminate Hr
        | injection Hr as <-; hs_cbn;
          first [ rewrite H_moves in Hh; discriminate Hh
                | rewrite H_moves2 in Hh; discriminate Hh
                | rewrite H_moves3 in Hh; discriminate Hh
                | idtac ] ].


Lemma canon_sw st : hs_shouldWrite st = true -> canon st = st.
Proof. unfold canon. now intros ->. Qed.
Lemma canon_ix0 st : hs_pat st = ix_pattern -> hs_msgIdx st = 0 -> hs_shouldWrite st = false -> canon st = set_re st None.
Proof. unfold canon, next_tokens. intros -> -> ->. reflexivity. Qed.
Lemma canon_ix1 st : hs_pat st = ix_pattern -> hs_msgIdx st = 1 -> hs_shouldWrite st = false ->
  canon st = set_sym (set_re st None) (hs_ck st) (hs_h st) Empty 0 false.
Proof. unfold canon, next_tokens. intros -> -> ->. reflexivity. Qed.
Lemma canon_ix2 st : hs_pat st = ix_pattern -> (hs_msgIdx st =? 0) = false -> (hs_msgIdx st =? 1) = false -> canon st = st.
Proof.
  unfold canon, next_tokens. intros -> E0 E1. rewrite ix_nth_default, E0, E1. cbn. now destruct (hs_shouldWrite st).
Qed.

Lemma read_err_equiv st msg st' :
  ix_wf st -> read_message st msg = (st', RErr) -> term_eqb (hs_h st) (hs_h st') = true -> noise_equiv st' st.
Proof.
  intros [Hpat Hk] Hr Hh. unfold read_message in Hr.
  destruct (hs_shouldWrite st) eqn:Hsw; [injection Hr; intros; subst; reflexivity|].
  rewrite Hpat, ix_nth in Hr.
  destruct (idx_cases (hs_msgIdx st)) as [Hi | [Hi | [E0 E1]]].
  - specialize (Hk Hi). rewrite Hi in Hr. cbn [N.eqb] in Hr. hs_cbn. unfold rd_token, decrypt_and_hash in Hr. hs_cbn.
    rewrite ?Hk in Hr.
    repeat (brk Hr; rewrite ?Hk in Hr; try leaf Hr Hh).
    all: try reflexivity.
  - clear Hk. rewrite Hi in Hr. cbn [N.eqb Pos.eqb] in Hr. hs_cbn. unfold rd_token, decrypt_and_hash, tok_dh in Hr. hs_cbn.
    repeat (brk Hr; try leaf Hr Hh).
    all: try reflexivity.
    all: unfold noise_equiv; rewrite (canon_ix1 st) by assumption; rewrite canon_ix1 by (hs_cbn; assumption); hs_cbn.
    all: destruct st; hs_cbn; subst; try reflexivity.
  - rewrite E0, E1 in Hr. injection Hr as <-. reflexivity.
Qed.

Lemma len_ix1 : (N.of_nat (length ix_pattern) <=? 0 + 1) = false. Proof. reflexivity. Qed.
Lemma len_ix2 : (N.of_nat (length ix_pattern) <=? 1 + 1) = true. Proof. reflexivity. Qed.

Definition rd_rel (x y : hstate * rres) : Prop :=
  match snd x, snd y with
  | ROk p k, ROk p' k' => fst x = fst y /\ p = p' /\ k = k'
  | RErr, RErr => noise_equiv (fst x) (fst y) /\ hs_h (fst x) = hs_h (fst y)
  | _, _ => False
  end.

Ltac brkg :=
  match goal with
  | |- context[match adec ?a ?b ?c ?d with _ => _ end] => destruct (adec a b c d) eqn:?
  | |- context[if ?c then _ else _] => destruct c eqn:?
  | |- context[let (_, _) := ?t in _] => destruct t eqn:?
  | |- context[match ?c with Some _ => _ | None => _ end] => destruct c eqn:?
  end; hs_cbn.

Lemma read_canon st msg : ix_wf st -> rd_rel (read_message st msg) (read_message (canon st) msg).
Proof.
  intros [Hpat Hk].
  destruct (hs_shouldWrite st) eqn:Hsw.
  { rewrite canon_sw by assumption. unfold rd_rel. destruct (read_message st msg) as [s [|p k]]; cbn; auto using noise_equiv_refl. }
  destruct (idx_cases (hs_msgIdx st)) as [Hi | [Hi | [E0 E1]]].
  - specialize (Hk Hi). rewrite canon_ix0 by assumption. unfold read_message. hs_cbn. rewrite Hsw, Hpat, ix_nth, Hi. cbn [N.eqb Pos.eqb]. hs_cbn.
    unfold rd_token, decrypt_and_hash. hs_cbn. rewrite ?Hk.
    repeat (brkg; rewrite ?Hk, ?Hpat, ?Hi, ?len_ix1, ?len_ix2). all: unfold rd_rel; hs_cbn.
    all: try (split; [|reflexivity]; unfold noise_equiv; rewrite !canon_ix0 by (hs_cbn; assumption); destruct st; reflexivity).
    all: try match goal with Hc : (N.of_nat _ <=? _) = _ |- _ => rewrite Hpat, Hi in Hc; vm_compute in Hc; discriminate Hc end.
    all: try (split; [destruct st; reflexivity|split; reflexivity]).
  - clear Hk. rewrite canon_ix1 by assumption. unfold read_message. hs_cbn. rewrite Hsw, Hpat, ix_nth, Hi. cbn [N.eqb Pos.eqb]. hs_cbn.
    unfold rd_token, decrypt_and_hash, tok_dh. hs_cbn.
    repeat (brkg; rewrite ?Hpat, ?Hi, ?len_ix1, ?len_ix2). all: unfold rd_rel; hs_cbn.
    all: try match goal with Hc : (N.of_nat _ <=? _) = _ |- _ => rewrite Hpat, Hi in Hc; vm_compute in Hc; discriminate Hc end.
    all: try (split; [|reflexivity]). all: try (split; [|split]).
    all: try (destruct st; reflexivity).
    all: unfold noise_equiv; rewrite !canon_ix1 by (hs_cbn; assumption); destruct st; reflexivity.
  - rewrite canon_ix2 by assumption. unfold rd_rel. destruct (read_message st msg) as [s [|p k]]; cbn; auto using noise_equiv_refl.
Qed.

(* ---- equivalent states are indistinguishable to ProcessPacket -------------------------------------- *)

Lemma canon_proj st :
  hs_pat (canon st) = hs_pat st /\ hs_msgIdx (canon st) = hs_msgIdx st /\ hs_shouldWrite (canon st) = hs_shouldWrite st /\
  hs_h (canon st) = hs_h st /\ hs_ck (canon st) = hs_ck st.
Proof.
  unfold canon. destruct (hs_shouldWrite st) eqn:E; [repeat split; assumption|].
  destruct (re_fresh _); [destruct (k_fresh _)|]; repeat split; assumption.
Qed.

Lemma ix_wf_equiv a b : ix_wf a -> noise_equiv a b -> ix_wf b.
Proof.
  intros [Hp Hk] E. unfold noise_equiv in E.
  destruct (canon_proj a) as (Pa & Ia & Sa & _). destruct (canon_proj b) as (Pb & Ib & Sb & _).
  rewrite E in Pa, Ia, Sa.
  assert (Hpb : hs_pat b = ix_pattern) by congruence.
  split; [assumption|]. intros Hi.
  assert (Hia : hs_msgIdx a = 0) by congruence. specialize (Hk Hia).
  destruct (hs_shouldWrite a) eqn:Ha.
  - rewrite (canon_sw a) in E by assumption. rewrite (canon_sw b) in E by congruence. subst. assumption.
  - rewrite (canon_ix0 a) in E by assumption. rewrite (canon_ix0 b) in E by congruence.
    apply (f_equal hs_hasK) in E. cbn in E. congruence.
Qed.

Lemma rd_rel_sym x y : rd_rel x y -> rd_rel y x.
Proof.
  unfold rd_rel. destruct (snd x), (snd y); try tauto.
  - intros [A B]. split; [now apply noise_equiv_sym | congruence].
  - intros (A & B & C). repeat split; congruence.
Qed.
Lemma rd_rel_trans x y z : rd_rel x y -> rd_rel y z -> rd_rel x z.
Proof.
  unfold rd_rel. destruct (snd x), (snd y), (snd z); try tauto.
  - intros [A B] [C D]. split; [eapply noise_equiv_trans; eassumption | congruence].
  - intros (A & B & C) (D & E & F). repeat split; congruence.
Qed.

Lemma read_congr a b msg : ix_wf a -> noise_equiv a b -> rd_rel (read_message a msg) (read_message b msg).
Proof.
  intros Wa E. pose proof (ix_wf_equiv _ _ Wa E) as Wb.
  eapply rd_rel_trans; [apply read_canon; assumption|].
  unfold noise_equiv in E. rewrite E. apply rd_rel_sym, read_canon. assumption.
Qed.

Ltac m_cbn := unfold m_initiator in *; cbn [m_cfg m_hs m_res m_myver m_index_allocated m_remote_cert_set m_payload_set m_failed set_hs set_res fail set_myver set_flags m_initiator fst snd] in *.

Theorem process_congr m1 m2 g :
  ix_wf (m_hs m1) -> mach_equiv m1 m2 -> outcome_rel (process m1 g) (process m2 g).
Proof.
  intros W [E F].
  destruct m1 as [c h1 r v ia rc ps fl], m2 as [c' h2 r' v' ia' rc' ps' fl']. m_cbn. injection F as <- <- <- <- <- <- <-.
  pose proof (read_congr _ _ (pk_body g) W E) as R.
  destruct (canon_proj h1) as (_ & I1 & _ & H1 & _). destruct (canon_proj h2) as (_ & I2 & _ & H2 & _).
  unfold noise_equiv in E. rewrite E in I1, H1. 
  assert (Hidx : hs_msgIdx h1 = hs_msgIdx h2) by congruence.
  assert (Hh : hs_h h1 = hs_h h2) by congruence.
  unfold process. m_cbn.
  destruct fl. { split; [reflexivity|]. split; [exact E | reflexivity]. }
  destruct (pk_short g). { split; [reflexivity|]. split; [exact E | reflexivity]. }
  destruct (negb (pk_subtype g =? c_subtype c)). { split; [reflexivity|]. split; [exact E | reflexivity]. }
  rewrite Hidx.
  destruct (r_initiator r && (hs_msgIdx h2 =? 0)). { split; [reflexivity|]. split; [exact E | reflexivity]. }
  unfold rd_rel in R.
  destruct (read_message h1 (pk_body g)) as [s1 [|p1 k1]], (read_message h2 (pk_body g)) as [s2 [|p2 k2]]; cbn [fst snd] in R; try contradiction.
  - destruct R as [Rq Rh]. rewrite Hh, Rh. m_cbn.
    destruct (term_eqb (hs_h h2) (hs_h s2)); (split; [reflexivity|]; split; [exact Rq | reflexivity]).
  - destruct R as (-> & -> & ->). m_cbn.
    unfold set_hs. m_cbn. split; [reflexivity | apply mach_equiv_refl].
Qed.

(* ---- a Reject that does not set failed leaves the machine equivalent -------------------------------- *)

Lemma validate_cert_fail m p m' : validate_cert m p = (m', false) -> m_failed m' = true.
Proof.
  unfold validate_cert. 
  repeat match goal with
  | |- context[match ?c with _ => _ end] => destruct c eqn:?
  end; intros [= <-]; try reflexivity.
Qed.

Lemma process_payload_fail m msg a b m' : process_payload m msg a b = (m', false) -> m_failed m' = true.
Proof.
  unfold process_payload.
  repeat match goal with
  | |- context[if ?c then _ else _] => destruct c eqn:?
  | |- context[match parse_payload ?c with _ => _ end] => destruct (parse_payload c) eqn:?
  end; try (intros [= <-]; reflexivity); try discriminate; try apply validate_cert_fail.
Qed.

Lemma require_complete_fail m m' : require_complete m = (m', false) -> m_failed m' = true.
Proof. unfold require_complete. destruct (_ || _); intros [= <-]; reflexivity. Qed.

Theorem reject_unchanged m p m' :
  ix_wf (m_hs m) -> process m p = (m', Reject) -> m_failed m' = false -> mach_equiv m' m.
Proof.
  intros W Hp Hf. unfold process in Hp.
  destruct (m_failed m) eqn:Ff. { injection Hp as <-. apply mach_equiv_refl. }
  destruct (pk_short p). { injection Hp as <-. apply mach_equiv_refl. }
  destruct (negb _). { injection Hp as <-. apply mach_equiv_refl. }
  destruct (m_initiator m && _). { injection Hp as <-. discriminate Hf. }
  destruct (read_message (m_hs m) (pk_body p)) as [hs' [|msg keys]] eqn:Hr.
  - destruct (term_eqb (hs_h (m_hs m)) (hs_h hs')) eqn:Hh; injection Hp as <-; [|discriminate Hf].
    split; [|destruct m; reflexivity]. cbn. eapply read_err_equiv; eassumption.
  - exfalso. destruct (peer_flags _) as [a b].
    destruct (process_payload _ _ _ _) as [m2 [|]] eqn:Hpp.
    2:{ injection Hp as <-. apply process_payload_fail in Hpp. congruence. }
    destruct keys as [[cs1 cs2]|].
    + destruct (require_complete m2) as [m3 [|]] eqn:Hrc.
      * destruct (completed _ _ _). discriminate Hp.
      * injection Hp as <-. apply require_complete_fail in Hrc. congruence.
    + destruct (build_response m2) as [[[m3 pkt] [[cs1 cs2]|]]|]; try discriminate Hp.
      * destruct (require_complete m3) as [m4 [|]] eqn:Hrc.
        -- destruct (completed _ _ _). discriminate Hp.
        -- injection Hp as <-. apply require_complete_fail in Hrc. congruence.
      * injection Hp as <-. discriminate Hf.
Qed.

(* ---- ix_wf is an invariant of every machine built by NewMachine ------------------------------------ *)

Definition rstate (r : rstep) : hstate := match r with RStop s | RGo s _ _ => s end.
Definition wstate (r : wstep) : hstate := match r with WStop s | WGo s _ => s end.
Definition is_dh (t : token) : bool := match t with TE | TS => false | _ => true end.

(* fields no token touches, and hasK under tokens that mix no key *)
Definition frame (keepK : bool) (s st : hstate) : Prop :=
  hs_pat s = hs_pat st /\ hs_msgIdx s = hs_msgIdx st /\ hs_shouldWrite s = hs_shouldWrite st /\
  (keepK = true -> hs_hasK s = hs_hasK st).

Lemma frame_refl k st : frame k st st.
Proof. repeat split. Qed.
Lemma frame_trans k a b c : frame k a b -> frame k b c -> frame k a c.
Proof. unfold frame. intros (A1 & A2 & A3 & A4) (B1 & B2 & B3 & B4). repeat split; try congruence. intros K. rewrite A4, B4; auto. Qed.

Lemma frame_weaken k k' a b : (k' = true -> k = true) -> frame k a b -> frame k' a b.
Proof. intros Hk (A & B & C & D). repeat split; try assumption. intros K. auto. Qed.

Lemma rd_token_frame ck0 h0 tok st msg b : frame (negb (is_dh tok)) (rstate (rd_token ck0 h0 tok st msg b)) st.
Proof.
  unfold rd_token, decrypt_and_hash, tok_dh.
  destruct tok; cbn [is_dh negb];
  repeat match goal with
  | |- context[match adec ?a ?b ?c ?d with _ => _ end] => destruct (adec a b c d) eqn:?
  | |- context[if ?c then _ else _] => destruct c eqn:?
  | |- context[let (_, _) := ?t in _] => destruct t eqn:?
  | |- context[match ?c with Some _ => _ | None => _ end] => destruct c eqn:?
  end; cbn [rstate]; unfold frame; hs_cbn; repeat split; try congruence; try discriminate.
Qed.

Lemma rd_loop_frame ck0 h0 toks : forall st msg b,
  frame (negb (existsb is_dh toks)) (rstate (rd_loop ck0 h0 toks st msg b)) st.
Proof.
  induction toks as [|t r IH]; intros st msg b; cbn [rd_loop existsb].
  - apply frame_refl.
  - pose proof (rd_token_frame ck0 h0 t st msg b) as F.
    destruct (rd_token ck0 h0 t st msg b) as [s|s m b']; cbn [rstate] in *.
    + eapply frame_weaken; [|exact F]. destruct (is_dh t); [discriminate | reflexivity].
    + apply (frame_trans _ _ s).
      * eapply frame_weaken; [|apply IH]. destruct (is_dh t); [discriminate | auto].
      * eapply frame_weaken; [|exact F]. destruct (is_dh t); [discriminate | reflexivity].
Qed.

Lemma read_message_wf st msg : ix_wf st -> ix_wf (fst (read_message st msg)).
Proof.
  intros [Hp Hk]. unfold read_message.
  destruct (hs_shouldWrite st); [split; assumption|].
  rewrite Hp, ix_nth.
  destruct (idx_cases (hs_msgIdx st)) as [Hi | [Hi | [E0 E1]]].
  - rewrite Hi. cbn [N.eqb].
    pose proof (rd_loop_frame (hs_ck st) (hs_h st) [TE; TS] st msg false) as F. cbn [existsb is_dh orb negb] in F.
    destruct (rd_loop _ _ _ _ _ _) as [s|s rest b]; cbn [rstate fst] in *; destruct F as (A & B & C & D).
    + split; [congruence|]. intros _. rewrite D by reflexivity. auto.
    + unfold decrypt_and_hash. rewrite (D eq_refl), (Hk Hi). cbn [fst]. split; hs_cbn; [congruence|]. intros Hc. lia.
  - rewrite Hi. cbn [N.eqb Pos.eqb].
    pose proof (rd_loop_frame (hs_ck st) (hs_h st) [TE; TEE; TSE; TS; TES] st msg false) as F.
    destruct (rd_loop _ _ _ _ _ _) as [s|s rest b]; cbn [rstate fst] in *; destruct F as (A & B & C & D).
    + split; [congruence|]. intros Hc. congruence.
    + destruct (decrypt_and_hash s rest) as [[s' p]|] eqn:Hd.
      * cbn [fst]. unfold decrypt_and_hash in Hd. 
        assert (hs_pat s' = hs_pat s) by (destruct (hs_hasK s); [destruct (adec _ _ _ _)|]; inversion Hd; reflexivity).
        split; hs_cbn; [congruence|]. intros Hc. lia.
      * cbn [fst]. split; [destruct b; hs_cbn; congruence|]. intros Hc. destruct b; hs_cbn; congruence.
  - rewrite E0, E1. split; assumption.
Qed.

Lemma wr_token_frame eph tok st out : frame (negb (is_dh tok)) (wstate (wr_token eph tok st out)) st.
Proof.
  unfold wr_token, encrypt_and_hash, tok_dh.
  destruct tok; cbn [is_dh negb];
  repeat match goal with
  | |- context[if ?c then _ else _] => destruct c eqn:?
  | |- context[match ?c with Some _ => _ | None => _ end] => destruct c eqn:?
  end; cbn [wstate]; unfold frame; hs_cbn; repeat split; try congruence; try discriminate.
Qed.

Lemma wr_loop_frame eph toks : forall st out,
  frame (negb (existsb is_dh toks)) (wstate (wr_loop eph toks st out)) st.
Proof.
  induction toks as [|t r IH]; intros st out; cbn [wr_loop existsb].
  - apply frame_refl.
  - pose proof (wr_token_frame eph t st out) as F.
    destruct (wr_token eph t st out) as [s|s o]; cbn [wstate] in *.
    + eapply frame_weaken; [|exact F]. destruct (is_dh t); [discriminate | reflexivity].
    + apply (frame_trans _ _ s).
      * eapply frame_weaken; [|apply IH]. destruct (is_dh t); [discriminate | auto].
      * eapply frame_weaken; [|exact F]. destruct (is_dh t); [discriminate | reflexivity].
Qed.

Lemma write_message_wf st eph pl : ix_wf st -> ix_wf (fst (write_message st eph pl)).
Proof.
  intros [Hp Hk]. unfold write_message.
  destruct (negb (hs_shouldWrite st)); [split; assumption|].
  rewrite Hp, ix_nth.
  destruct (idx_cases (hs_msgIdx st)) as [Hi | [Hi | [E0 E1]]].
  - rewrite Hi. cbn [N.eqb]. destruct (max_msg_len <? _); [split; assumption|].
    pose proof (wr_loop_frame eph [TE; TS] st Empty) as F. cbn [existsb is_dh orb negb] in F.
    destruct (wr_loop _ _ _ _) as [s|s o]; cbn [wstate fst] in *; destruct F as (A & B & C & D).
    + split; [congruence|]. intros _. rewrite D by reflexivity. auto.
    + unfold encrypt_and_hash. hs_cbn. rewrite (D eq_refl), (Hk Hi). cbn [fst]. split; hs_cbn; [congruence|]. intros Hc. lia.
  - rewrite Hi. cbn [N.eqb Pos.eqb]. destruct (max_msg_len <? _); [split; assumption|].
    pose proof (wr_loop_frame eph [TE; TEE; TSE; TS; TES] st Empty) as F.
    destruct (wr_loop _ _ _ _) as [s|s o]; cbn [wstate fst] in *; destruct F as (A & B & C & D).
    + split; [congruence|]. intros Hc. congruence.
    + unfold encrypt_and_hash. hs_cbn. destruct (hs_hasK s); cbn [fst]; split; hs_cbn; try congruence; intros Hc; lia.
  - rewrite E0, E1. split; assumption.
Qed.

(* the parts of ProcessPacket / Initiate that do not touch the noise state *)
Lemma validate_cert_hs m p : m_hs (fst (validate_cert m p)) = m_hs m.
Proof.
  unfold validate_cert.
  repeat match goal with
  | |- context[match ?c with _ => _ end] => destruct c eqn:?
  end; reflexivity.
Qed.

Lemma process_payload_hs m msg a b : m_hs (fst (process_payload m msg a b)) = m_hs m.
Proof.
  unfold process_payload.
  repeat match goal with
  | |- context[if ?c then _ else _] => destruct c eqn:?
  | |- context[match parse_payload ?c with _ => _ end] => destruct (parse_payload c) eqn:?
  end; try reflexivity; cbn [fst]; rewrite validate_cert_hs; reflexivity.
Qed.

Lemma marshal_outgoing_hs m a b m' t : marshal_outgoing m a b = Some (m', t) -> m_hs m' = m_hs m.
Proof.
  unfold marshal_outgoing.
  repeat match goal with
  | |- context[match c_alloc ?x with _ => _ end] => destruct (c_alloc x) eqn:?
  | |- context[match get_cred ?x ?y with _ => _ end] => destruct (get_cred x y) eqn:?
  | |- context[if ?c then _ else _] => destruct c eqn:?
  end; try discriminate; intros [= <- _]; reflexivity.
Qed.

Lemma require_complete_hs m : m_hs (fst (require_complete m)) = m_hs m.
Proof. unfold require_complete. destruct (_ || _); reflexivity. Qed.

Lemma build_response_wf m m' pkt keys :
  ix_wf (m_hs m) -> build_response m = Some (m', pkt, keys) -> ix_wf (m_hs m').
Proof.
  intros W. unfold build_response. destruct (my_flags m) as [a b].
  destruct (marshal_outgoing m a b) as [[m1 bytes]|] eqn:Hm; [|discriminate].
  apply marshal_outgoing_hs in Hm.
  pose proof (write_message_wf (m_hs m1) (c_eph (m_cfg m1)) bytes) as Ww. rewrite Hm in Ww. specialize (Ww W).
  rewrite Hm. destruct (write_message (m_hs m) _ _) as [hs' [|out k]]; [discriminate|].
  intros [= <- _ _]. exact Ww.
Qed.

Theorem initiate_wf m : ix_wf (m_hs m) -> ix_wf (m_hs (fst (initiate m))).
Proof.
  intros W. unfold initiate.
  destruct (m_failed m); [exact W|]. destruct (negb (m_initiator m)); [exact W|]. destruct (negb _); [exact W|].
  destruct (build_response m) as [[[m1 pkt] k]|] eqn:Hb; [|exact W].
  eapply build_response_wf; eassumption.
Qed.

Theorem process_wf m p : ix_wf (m_hs m) -> ix_wf (m_hs (fst (process m p))).
Proof.
  intros W. unfold process.
  destruct (m_failed m); [exact W|]. destruct (pk_short p); [exact W|]. destruct (negb _); [exact W|].
  destruct (m_initiator m && _); [exact W|].
  pose proof (read_message_wf (m_hs m) (pk_body p) W) as Wr.
  destruct (read_message (m_hs m) (pk_body p)) as [hs' [|msg keys]]; cbn [fst] in Wr.
  - destruct (term_eqb _ _); exact Wr.
  - destruct (peer_flags _) as [a b].
    pose proof (process_payload_hs (set_hs m hs') msg a b) as Hpp.
    destruct (process_payload _ _ _ _) as [m2 [|]]; cbn [fst] in Hpp; [|cbn [fst]; rewrite Hpp; exact Wr].
    assert (W2 : ix_wf (m_hs m2)) by (rewrite Hpp; exact Wr).
    destruct keys as [[cs1 cs2]|].
    + pose proof (require_complete_hs m2) as Hrc. destruct (require_complete m2) as [m3 [|]]; cbn [fst] in *; [|congruence].
      unfold completed; cbn [fst set_res m_hs]. rewrite Hrc. exact W2.
    + destruct (build_response m2) as [[[m3 pkt] k]|] eqn:Hb; [|exact W2].
      pose proof (build_response_wf _ _ _ _ W2 Hb) as W3.
      destruct k as [[cs1 cs2]|]; [|exact W3].
      pose proof (require_complete_hs m3) as Hrc. destruct (require_complete m3) as [m4 [|]]; cbn [fst] in *; [|congruence].
      unfold completed; cbn [fst set_res m_hs]. rewrite Hrc. exact W3.
Qed.

Theorem new_machine_wf c v i m : new_machine c v i = Some m -> ix_wf (m_hs m).
Proof.
  unfold new_machine. destruct (get_cred c v); [|discriminate]. intros [= <-]. split; reflexivity.
Qed.

(* every machine reachable from NewMachine by Initiate / ProcessPacket calls with arbitrary packets *)
Inductive reach : machine -> Prop :=
| reach_new c v i m : new_machine c v i = Some m -> reach m
| reach_initiate m : reach m -> reach (fst (initiate m))
| reach_process m p : reach m -> reach (fst (process m p)).

Theorem reach_wf m : reach m -> ix_wf (m_hs m).
Proof.
  induction 1; [eapply new_machine_wf; eassumption | now apply initiate_wf | now apply process_wf].
Qed.

(* ---- failed is final ----------------------------------------------------------------------------------- *)

Theorem failed_refuses m : m_failed m = true -> (forall g, process m g = (m, Reject)) /\ initiate m = (m, Reject).
Proof. intros F. split; [intros g; unfold process | unfold initiate]; now rewrite F. Qed.

(* ---- any number of rejected messages ------------------------------------------------------------------- *)

(* m' is what m becomes after the packets ps, each of which was rejected with Failed() staying false *)
Inductive rejected_run : machine -> list packet -> machine -> Prop :=
| rr_nil m : rejected_run m [] m
| rr_cons m p m1 ps m' :
    process m p = (m1, Reject) -> m_failed m1 = false -> rejected_run m1 ps m' -> rejected_run m (p :: ps) m'.

Theorem rejected_run_equiv m ps m' : ix_wf (m_hs m) -> rejected_run m ps m' -> mach_equiv m' m.
Proof.
  intros W R. induction R as [m | m p m1 ps m' Hp Hf R IH].
  - apply mach_equiv_refl.
  - pose proof (process_wf m p W) as W1. rewrite Hp in W1. cbn [fst] in W1.
    eapply mach_equiv_trans; [apply IH; exact W1 | eapply reject_unchanged; eassumption].
Qed.

Theorem as_if_never_arrived m ps m' g :
  ix_wf (m_hs m) -> rejected_run m ps m' -> outcome_rel (process m' g) (process m g).
Proof.
  intros W R. pose proof (rejected_run_equiv _ _ _ W R) as E.
  apply process_congr; [|exact E].
  destruct E as [E _]. eapply ix_wf_equiv; [exact W | apply noise_equiv_sym; exact E].
Qed.

(* ---- concrete witnesses (non-vacuity, and the two reproduced F5 inputs) ------------------------------- *)

Module C07Ex.
  Definition cfgI := mkCfg 0 0 None (Some (mkCred 101 2 0 (Pub 1))) 1 [(102, Pub 2)] (Some 1000) 5 11 300.
  Definition cfgR := mkCfg 0 0 None (Some (mkCred 102 2 0 (Pub 2))) 2 [(101, Pub 1)] (Some 2000) 6 12 310.
  Definition dead := mkM cfgI (init_hs 0 0 0 Empty true []) (mkRes None None None None 0 0 0 0 true) 0 false false false true.
  Definition nopkt := mkPkt true 0 0 0 Empty.
  Definition mI0 := match new_machine cfgI 2 true with Some m => m | None => dead end.
  Definition mR0 := match new_machine cfgR 2 false with Some m => m | None => dead end.
  Definition mI1 := fst (initiate mI0).                                   (* initiator after sending message 1 *)
  Definition msg1 := match snd (initiate mI0) with Done (Some p) _ => p | _ => nopkt end.
  Definition msg2 := match snd (process mR0 msg1) with Done (Some p) _ => p | _ => nopkt end.
  Definition with_body (p : packet) (b : term) := mkPkt false (pk_subtype p) (pk_ri p) (pk_ctr p) b.
  Definition trunc (p : packet) (k : N) := with_body p (fst (take 32 k (pk_body p))).
  (* message 2 with the ephemeral replaced by a small-order point *)
  Definition zero_e (p : packet) := with_body p (cat (Low 0) (snd (take 32 32 (pk_body p)))).
  Definition completes (o : outcome) : bool := match o with Done _ (Some _) => true | _ => false end.
  Definition rejects (o : outcome) : bool := match o with Reject => true | _ => false end.

  (* a truncation inside the payload ciphertext is rejected by AEAD (rollback): usable, and the genuine message 2
     then completes; so do: a header-only packet, a cut inside the ephemeral, a corrupted tag *)
  Definition usable_after (bad : packet) : bool :=
    let r := process mI1 bad in
    rejects (snd r) && negb (m_failed (fst r)) && completes (snd (process (fst r) msg2)).
  (* the F5 inputs: message 2 cut to 40 bytes (whole ephemeral + 8), and an all-zero ephemeral: rejected and
     the machine is failed, every later packet refused *)
  Definition failed_after (bad : packet) : bool :=
    let r := process mI1 bad in
    rejects (snd r) && m_failed (fst r) && rejects (snd (process (fst r) msg2)).

  (* why the repair is needed: after the 40-byte prefix the noise state has lost the transcript, the genuine
     message 2 can no longer be read (flynn returns without Rollback) *)
  Definition wedged_noise_state : bool :=
    let st := fst (read_message (m_hs mI1) (pk_body (trunc msg2 40))) in
    negb (term_eqb (hs_h st) (hs_h (m_hs mI1))) &&
    match snd (read_message st (pk_body msg2)) with RErr => true | _ => false end &&
    match snd (read_message (m_hs mI1) (pk_body msg2)) with ROk _ _ => true | _ => false end.
End C07Ex.

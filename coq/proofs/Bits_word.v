(* Word level -> bit level for the replay window: every word operation of model/Bits.v is
   characterised by its effect on the circular bit positions 0 .. L-1.
   Main results: get_bit_at, set_bit_at, clear_range_spec (clearRange clears exactly the circular
   range startPos .. startPos+count-1), word_index_ok. *)
From Coq Require Import List NArith ZArith Lia Bool.
From Coq Require Import ZifyN ZifyNat ZifyBool.
Import ListNotations.
From NV Require Import lib.Bytes lib.Bits_lib model.Bits.
Open Scope N_scope.
Ltac Zify.zify_post_hook ::= Z.div_mod_to_equations.

Definition nwords (L : N) : N := if L / 64 =? 0 then 1 else L / 64.
Definition pow2 (L : N) : Prop := exists k, k <= 63 /\ L = 2 ^ k.
Definition wf (L : N) (b : bits) : Prop :=
  b_len b = L /\ b_mask b = L - 1 /\ N.of_nat (length (b_words b)) = nwords L.

(* bit at circular position p: word p/64, bit p mod 64 *)
Definition bit_at (ws : list N) (p : N) : bool := N.testbit (nth_word ws (p / 64)) (p mod 64).

(* ---- facts about L = 2^k ---- *)
Lemma pow2_pos L : pow2 L -> 0 < L.
Proof. intros (k & _ & ->). pose proof (N.pow_nonzero 2 k). lia. Qed.

Lemma pow2_lt_two64' L : pow2 L -> L < two64.
Proof.
  intros (k & Hk & ->). change two64 with (2 ^ 64). apply N.pow_lt_mono_r; lia.
Qed.

Lemma pow2_shape L : pow2 L -> L < 64 \/ (64 <= L /\ L mod 64 = 0).
Proof.
  intros (k & Hk & ->). destruct (N.lt_ge_cases k 6) as [H|H].
  - left. change 64 with (2 ^ 6). apply N.pow_lt_mono_r; lia.
  - right. assert (E : k = (k - 6) + 6) by lia. remember (k - 6) as m. clear Heqm. subst k.
    rewrite N.pow_add_r. change (2 ^ 6) with 64.
    split.
    + pose proof (N.pow_nonzero 2 m). lia.
    + apply N.mod_mul. discriminate.
Qed.

Lemma pow2_mask L i : pow2 L -> N.land i (L - 1) = i mod L.
Proof. intros (k & _ & ->). apply land_low_mask. Qed.

Lemma nwords_pos L : 0 < nwords L.
Proof. unfold nwords. destruct (N.eqb_spec (L / 64) 0); lia. Qed.

Lemma word_of_pos L p : pow2 L -> p < L -> p / 64 < nwords L.
Proof.
  intros HL Hp. unfold nwords. destruct (pow2_shape L HL) as [H|[H1 H2]].
  - rewrite (N.div_small L 64) by exact H. simpl. rewrite N.div_small by lia. lia.
  - pose proof (N.div_mod L 64 ltac:(discriminate)) as E. rewrite H2, N.add_0_r in E.
    destruct (N.eqb_spec (L / 64) 0) as [Z|Z]; [lia|].
    apply N.div_lt_upper_bound; [discriminate|]. lia.
Qed.

(* the safety statement: every b.bits[pos>>6] in the code indexes inside the slice *)
Lemma word_index_ok L b i :
  pow2 L -> wf L b -> (N.to_nat (N.shiftr (N.land i (b_mask b)) 6) < length (b_words b))%nat.
Proof.
  intros HL (E1 & E2 & E3). rewrite E2, (pow2_mask L i HL), shiftr_6.
  pose proof (pow2_pos L HL) as HLp.
  assert (Hm : i mod L < L) by (apply N.mod_lt; lia).
  pose proof (word_of_pos L (i mod L) HL Hm). lia.
Qed.

(* ---- word lists ---- *)
Lemma set_word_length ws : forall w v, length (set_word ws w v) = length ws.
Proof. induction ws as [|x ws IH]; intros [|w] v; simpl; auto. Qed.

Lemma nth_set_word ws : forall w v w', (w < length ws)%nat ->
  nth w' (set_word ws w v) 0 = if Nat.eqb w' w then v else nth w' ws 0.
Proof.
  induction ws as [|x ws IH]; intros [|w] v [|w'] H; simpl in *; try lia; try reflexivity.
  apply IH. lia.
Qed.

Lemma nth_word_set_word ws w v w' : (N.to_nat w < length ws)%nat ->
  nth_word (set_word ws (N.to_nat w) v) w' = if w' =? w then v else nth_word ws w'.
Proof.
  intros H. unfold nth_word. rewrite nth_set_word by exact H.
  destruct (N.eqb_spec w' w) as [->|N].
  - rewrite Nat.eqb_refl. reflexivity.
  - destruct (Nat.eqb_spec (N.to_nat w') (N.to_nat w)) as [E|E]; [|reflexivity].
    apply N2Nat.inj in E. contradiction.
Qed.

Lemma bit_at_set_word ws w v p : (N.to_nat w < length ws)%nat ->
  bit_at (set_word ws (N.to_nat w) v) p =
  if p / 64 =? w then N.testbit v (p mod 64) else bit_at ws p.
Proof.
  intros H. unfold bit_at. rewrite nth_word_set_word by exact H.
  destruct (N.eqb_spec (p / 64) w); reflexivity.
Qed.

Lemma split_pos p q : (p / 64 =? q / 64) && (p mod 64 =? q mod 64) = (p =? q).
Proof.
  pose proof (N.div_mod p 64 ltac:(discriminate)). pose proof (N.div_mod q 64 ltac:(discriminate)).
  destruct (N.eqb_spec p q) as [->|N].
  - rewrite !N.eqb_refl. reflexivity.
  - destruct (N.eqb_spec (p / 64) (q / 64)); destruct (N.eqb_spec (p mod 64) (q mod 64));
      simpl; try reflexivity. exfalso. apply N. congruence.
Qed.

(* ---- the uint64 expressions of the code, inside their range ---- *)
Lemma add64_exact a b : a + b < two64 -> add64 a b = a + b.
Proof. intros H. unfold add64. apply w64_small. exact H. Qed.

Lemma sub64_exact a b : b <= a -> a < two64 -> sub64 a b = a - b.
Proof.
  intros H1 H2. unfold sub64, w64. change 18446744073709551616 with two64.
  replace (a + two64 - b) with ((a - b) + 1 * two64) by lia.
  rewrite N.mod_add by discriminate. apply N.mod_small. lia.
Qed.

Lemma shl64_one s : s < 64 -> shl64 1 s = 2 ^ s.
Proof.
  intros H. unfold shl64. rewrite N.shiftl_mul_pow2, N.mul_1_l. apply w64_small.
  apply pow2_lt_two64. exact H.
Qed.

(* the head mask of clearRange: ((1 << take) - 1) << bit, or MaxUint64 when take = 64 *)
Lemma head_mask take bit : bit + take <= 64 ->
  (if take =? 64 then max64 else shl64 (sub64 (shl64 1 take) 1) bit) = N.shiftl (N.ones take) bit.
Proof.
  intros H. destruct (N.eqb_spec take 64) as [->|N].
  - assert (bit = 0) by lia. subst. reflexivity.
  - assert (Ht : take < 64) by lia.
    rewrite shl64_one by exact Ht.
    pose proof (pow2_lt_two64 take Ht). pose proof (N.pow_nonzero 2 take ltac:(discriminate)).
    rewrite sub64_exact by (unfold two64; lia).
    rewrite N.sub_1_r, <- N.ones_equiv. unfold shl64. apply w64_small.
    eapply N.lt_le_trans; [apply shiftl_ones_lt|].
    change 18446744073709551616 with (2 ^ 64). apply N.pow_le_mono_r; lia.
Qed.

Lemma tail_mask r : r < 64 -> sub64 (shl64 1 r) 1 = N.shiftl (N.ones r) 0.
Proof.
  intros H. rewrite N.shiftl_0_r, shl64_one by exact H.
  pose proof (pow2_lt_two64 r H). pose proof (N.pow_nonzero 2 r ltac:(discriminate)).
  rewrite sub64_exact by (unfold two64; lia). rewrite N.sub_1_r, <- N.ones_equiv. reflexivity.
Qed.

(* ---- single-bit get / set ---- *)
Lemma get_bit_at L b i : pow2 L -> wf L b -> get b i = bit_at (b_words b) (i mod L).
Proof.
  intros HL (E1 & E2 & E3). unfold get, bit_at. cbn zeta.
  rewrite E2, (pow2_mask L i HL), shiftr_6, land_63.
  rewrite shl64_one by (apply N.mod_lt; discriminate).
  apply land_pow2_testbit.
Qed.

Lemma bit_at_or_bit ws q p : (N.to_nat (q / 64) < length ws)%nat ->
  bit_at (set_word ws (N.to_nat (q / 64)) (N.lor (nth_word ws (q / 64)) (2 ^ (q mod 64)))) p =
  bit_at ws p || (p =? q).
Proof.
  intros H. rewrite bit_at_set_word by exact H.
  rewrite <- (split_pos p q).
  destruct (N.eqb_spec (p / 64) (q / 64)) as [E|E]; simpl.
  - rewrite N.lor_spec, N.pow2_bits_eqb. unfold bit_at. rewrite E.
    rewrite (N.eqb_sym (p mod 64)). reflexivity.
  - rewrite orb_false_r. reflexivity.
Qed.

(* b.bits[pos>>6] |= 1 << (pos&63)  with pos = i & lengthMask *)
Lemma set_word_or_spec L b i :
  pow2 L -> wf L b ->
  let pos := N.land i (b_mask b) in
  let ws' := set_word (b_words b) (N.to_nat (N.shiftr pos 6))
                      (N.lor (nth_word (b_words b) (N.shiftr pos 6)) (shl64 1 (N.land pos 63))) in
  length ws' = length (b_words b) /\
  forall p, bit_at ws' p = bit_at (b_words b) p || (p =? i mod L).
Proof.
  intros HL Hwf. pose proof (word_index_ok L b i HL Hwf) as Hidx.
  destruct Hwf as (E1 & E2 & E3). cbn zeta.
  split; [apply set_word_length|]. intros p.
  rewrite E2, (pow2_mask L i HL), shiftr_6, land_63 in *.
  rewrite shl64_one by (apply N.mod_lt; discriminate).
  apply bit_at_or_bit. exact Hidx.
Qed.

(* ---- clearing a linear range inside one word ---- *)
Lemma bit_at_clr ws pos n p :
  (N.to_nat (pos / 64) < length ws)%nat -> pos mod 64 + n <= 64 ->
  bit_at (set_word ws (N.to_nat (pos / 64))
                   (N.ldiff (nth_word ws (pos / 64)) (N.shiftl (N.ones n) (pos mod 64)))) p =
  bit_at ws p && negb ((pos <=? p) && (p <? pos + n)).
Proof.
  intros H Hn. rewrite bit_at_set_word by exact H.
  pose proof (N.div_mod p 64 ltac:(discriminate)) as Ep.
  pose proof (N.div_mod pos 64 ltac:(discriminate)) as Eq.
  pose proof (N.mod_lt p 64 ltac:(discriminate)). pose proof (N.mod_lt pos 64 ltac:(discriminate)).
  destruct (N.eqb_spec (p / 64) (pos / 64)) as [E|E].
  - rewrite N.ldiff_spec, testbit_range_mask. unfold bit_at. rewrite E. f_equal. f_equal.
    rewrite E in Ep. bdes; simpl; try reflexivity; lia.
  - replace ((pos <=? p) && (p <? pos + n)) with false; [now rewrite andb_true_r|].
    symmetry. apply andb_false_iff.
    destruct (N.leb_spec pos p); [right|left; reflexivity]. apply N.ltb_ge.
    assert (pos / 64 < p / 64 \/ p / 64 < pos / 64) as [Q|Q] by lia; nia.
Qed.

Lemma bit_at_zero_word ws pos p :
  (N.to_nat (pos / 64) < length ws)%nat -> pos mod 64 = 0 ->
  bit_at (set_word ws (N.to_nat (pos / 64)) 0) p =
  bit_at ws p && negb ((pos <=? p) && (p <? pos + 64)).
Proof.
  intros H Hn. rewrite bit_at_set_word by exact H.
  pose proof (N.div_mod p 64 ltac:(discriminate)) as Ep.
  pose proof (N.div_mod pos 64 ltac:(discriminate)) as Eq.
  pose proof (N.mod_lt p 64 ltac:(discriminate)).
  destruct (N.eqb_spec (p / 64) (pos / 64)) as [E|E].
  - rewrite N.bits_0. rewrite E in Ep.
    replace ((pos <=? p) && (p <? pos + 64)) with true; [now rewrite andb_false_r|].
    symmetry. apply andb_true_iff. split; [apply N.leb_le|apply N.ltb_lt]; lia.
  - replace ((pos <=? p) && (p <? pos + 64)) with false; [now rewrite andb_true_r|].
    symmetry. apply andb_false_iff.
    destruct (N.leb_spec pos p); [right|left; reflexivity]. apply N.ltb_ge.
    assert (pos / 64 < p / 64 \/ p / 64 < pos / 64) as [Q|Q] by lia; nia.
Qed.

(* ---- clearRange ---- *)
Section ClearRange.
  Variable L : N.
  Hypothesis HL : pow2 L.
  Variables s count : N.
  Variable ws0 : list N.
  Hypothesis Hs : s < L.
  Hypothesis Hcount : count < L.
  Hypothesis Hlen0 : N.of_nat (length ws0) = nwords L.

  (* loop invariant: count - rem positions, starting at s, have been cleared; pos is the next one *)
  Definition cr_inv (ws : list N) (rem pos : N) : Prop :=
    length ws = length ws0 /\ rem <= count /\ pos = (s + (count - rem)) mod L /\
    forall p, p < L -> bit_at ws p = bit_at ws0 p && negb (in_circ L s (count - rem) p).

  Lemma cr_inv_init : cr_inv ws0 count s.
  Proof.
    unfold cr_inv. rewrite N.sub_diag, N.add_0_r, N.mod_small by exact Hs.
    repeat split; try reflexivity. intros p Hp. rewrite in_circ_zero. now rewrite andb_true_r.
  Qed.

  Lemma cr_inv_step ws rem pos n ws' :
    cr_inv ws rem pos -> n <= rem -> pos + n <= L -> length ws' = length ws ->
    (forall p, p < L -> bit_at ws' p = bit_at ws p && negb ((pos <=? p) && (p <? pos + n))) ->
    cr_inv ws' (rem - n) ((pos + n) mod L).
  Proof.
    intros (I1 & I2 & I3 & I4) Hn Hpos Hlen Hbits.
    pose proof (pow2_pos L HL) as HLp.
    assert (Ed : count - (rem - n) = (count - rem) + n) by lia.
    unfold cr_inv. rewrite Ed. set (d := count - rem) in *.
    repeat split.
    - congruence.
    - lia.
    - rewrite I3. rewrite N.add_mod_idemp_l by lia. f_equal. lia.
    - intros p Hp. rewrite Hbits, I4 by exact Hp.
      assert (C1 : d + n <= L) by lia.
      assert (C2 : (s + d) mod L + n <= L) by (rewrite <- I3; exact Hpos).
      rewrite (in_circ_extend L s d n p HLp Hs Hp C1 C2).
      rewrite <- I3, negb_orb, andb_assoc. reflexivity.
  Qed.

  Lemma aligned_next pos : 64 <= L -> L mod 64 = 0 -> pos mod 64 = 0 -> pos < L ->
    pos + 64 <= L /\ ((pos + 64) mod L) mod 64 = 0 /\ (pos + 64) mod L < L.
  Proof.
    intros H1 H2 H3 H4. assert (Hle : pos + 64 <= L) by lia. split; [exact Hle|].
    destruct (N.eq_dec (pos + 64) L) as [E|E].
    - rewrite E, N.mod_same by lia. split; [reflexivity|lia].
    - rewrite (N.mod_small (pos + 64) L) by lia. split; lia.
  Qed.

  Lemma cr_loop_spec fuel : forall ws rem pos,
    cr_inv ws rem pos -> (rem = 0 \/ pos mod 64 = 0) -> pos < L -> rem / 64 <= N.of_nat fuel ->
    let '(ws', rem', pos') := cr_loop fuel (L - 1) ws rem pos in
    cr_inv ws' rem' pos' /\ rem' < 64 /\ (rem' = 0 \/ pos' mod 64 = 0) /\ pos' < L.
  Proof.
    pose proof (pow2_pos L HL) as HLp. pose proof (pow2_lt_two64' L HL) as HL64. unfold two64 in HL64.
    induction fuel as [|f IH]; intros ws rem pos Inv Hal Hpos Hfuel.
    - cbn [cr_loop]. split; [exact Inv|]. split; [lia|]. split; assumption.
    - cbn [cr_loop]. destruct (N.leb_spec 64 rem) as [Hr|Hr].
      + pose proof Inv as (I1 & I2 & _).
        destruct (pow2_shape L HL) as [Hsm|[Hbig Hmod]]; [lia|].
        assert (Hpa : pos mod 64 = 0) by (destruct Hal; [lia|assumption]).
        destruct (aligned_next pos Hbig Hmod Hpa Hpos) as (A1 & A2 & A3).
        rewrite sub64_exact by (unfold two64; lia).
        rewrite add64_exact by (unfold two64; lia).
        rewrite (pow2_mask L _ HL), shiftr_6.
        apply IH.
        * apply (cr_inv_step ws rem pos 64); try assumption; try lia.
          { apply set_word_length. }
          { intros p Hp. apply bit_at_zero_word; [|exact Hpa].
            pose proof (word_of_pos L pos HL Hpos). lia. }
        * right. exact A2.
        * exact A3.
        * lia.
      + split; [exact Inv|]. split; [lia|]. split; assumption.
  Qed.
End ClearRange.

Lemma bit_at_map_zero (ws : list N) p : bit_at (map (fun _ => 0) ws) p = false.
Proof.
  unfold bit_at, nth_word.
  assert (E : forall (l : list N) n, nth n (map (fun _ => 0) l) 0 = 0).
  { induction l as [|x l IH]; intros [|n]; simpl; auto. }
  rewrite E. apply N.bits_0.
Qed.

(* clearRange(startPos, count) clears exactly the circular positions startPos .. startPos+count-1
   (all of them when count >= length), for every window length 2^k including those below 64. *)
Lemma clear_range_spec L b s count :
  pow2 L -> wf L b -> s < L -> count < two64 ->
  length (clear_range b s count) = length (b_words b) /\
  forall p, p < L ->
    bit_at (clear_range b s count) p = bit_at (b_words b) p && negb (in_circ L s count p).
Proof.
  intros HL (E1 & E2 & E3) Hs Hc.
  pose proof (pow2_pos L HL) as HLp. pose proof (pow2_lt_two64' L HL) as HL64.
  unfold two64 in HL64, Hc.
  unfold clear_range. rewrite E1, E2. destruct (N.leb_spec L count) as [Hfull|Hlt].
  - split; [apply map_length|]. intros p Hp.
    rewrite bit_at_map_zero, in_circ_full by lia. now rewrite andb_false_r.
  - cbn zeta. rewrite land_63, shiftr_6.
    assert (Hbit : s mod 64 < 64) by (apply N.mod_lt; discriminate).
    rewrite (sub64_exact 64 (s mod 64)) by (unfold two64; lia).
    rewrite (sub64_exact L s) by (unfold two64; lia).
    set (take1 := if count <? 64 - s mod 64 then count else 64 - s mod 64).
    set (take := if L - s <? take1 then L - s else take1).
    assert (Ht1 : take <= 64 - s mod 64) by (subst take take1; destruct (N.ltb_spec count (64 - s mod 64)); bdes; lia).
    assert (Ht2 : take <= count) by (subst take take1; destruct (N.ltb_spec count (64 - s mod 64)); bdes; lia).
    assert (Ht3 : take <= L - s) by (subst take take1; destruct (N.ltb_spec count (64 - s mod 64)); bdes; lia).
    assert (Ht4 : take = count \/ take = 64 - s mod 64 \/ take = L - s) by (subst take take1; destruct (N.ltb_spec count (64 - s mod 64)); bdes; lia).
    rewrite head_mask by lia.
    rewrite (sub64_exact count take) by (unfold two64; lia).
    rewrite (add64_exact s take) by (unfold two64; lia).
    rewrite (pow2_mask L _ HL).
    set (ws1 := set_word (b_words b) (N.to_nat (s / 64)) _).
    assert (Hidx : (N.to_nat (s / 64) < length (b_words b))%nat).
    { pose proof (word_of_pos L s HL Hs). lia. }
    assert (Inv1 : cr_inv L s count (b_words b) ws1 (count - take) ((s + take) mod L)).
    { apply (cr_inv_step L HL s count (b_words b) Hs Hlt E3 (b_words b) count s take); try lia.
      - apply cr_inv_init. exact Hs.
      - apply set_word_length.
      - intros p Hp. apply bit_at_clr; [exact Hidx|lia]. }
    assert (Hpos1 : (s + take) mod L < L) by (apply N.mod_lt; lia).
    assert (Hal1 : count - take = 0 \/ ((s + take) mod L) mod 64 = 0).
    { destruct Ht4 as [T|[T|T]].
      - left. lia.
      - right. destruct (N.eq_dec (s + take) L) as [E|E].
        + rewrite E, N.mod_same by lia. reflexivity.
        + rewrite (N.mod_small (s + take) L) by lia. lia.
      - right. replace (s + take) with L by lia. rewrite N.mod_same by lia. reflexivity. }
    pose proof (cr_loop_spec L HL s count (b_words b) Hs Hlt E3 (N.to_nat ((count - take) / 64))
                  ws1 (count - take) ((s + take) mod L) Inv1 Hal1 Hpos1 ltac:(lia)) as Hloop.
    destruct (cr_loop _ _ ws1 _ _) as [[ws2 rem2] pos2].
    destruct Hloop as (Inv2 & Hr2 & Hal2 & Hpos2).
    destruct (N.ltb_spec 0 rem2) as [Hpos|Hzero].
    + assert (Hpa : pos2 mod 64 = 0) by (destruct Hal2; [lia|assumption]).
      pose proof Inv2 as (J1 & J2 & _).
      rewrite tail_mask by exact Hr2. rewrite shiftr_6.
      assert (Hfit : pos2 + rem2 <= L).
      { destruct (pow2_shape L HL) as [Hsm|[Hbig Hmod]]; lia. }
      assert (Inv3 : cr_inv L s count (b_words b)
                (set_word ws2 (N.to_nat (pos2 / 64))
                   (N.ldiff (nth_word ws2 (pos2 / 64)) (N.shiftl (N.ones rem2) 0)))
                (rem2 - rem2) ((pos2 + rem2) mod L)).
      { apply (cr_inv_step L HL s count (b_words b) Hs Hlt E3 ws2 rem2 pos2 rem2); try lia; try assumption.
        - apply set_word_length.
        - intros p Hp.
          replace (N.shiftl (N.ones rem2) 0) with (N.shiftl (N.ones rem2) (pos2 mod 64)) by (rewrite Hpa; reflexivity).
          apply bit_at_clr; [|lia].
          pose proof (word_of_pos L pos2 HL Hpos2). lia. }
      destruct Inv3 as (K1 & _ & _ & K4). split; [exact K1|].
      intros p Hp. rewrite K4 by exact Hp. rewrite N.sub_diag, N.sub_0_r. reflexivity.
    + assert (rem2 = 0) by lia. subst rem2.
      destruct Inv2 as (K1 & _ & _ & K4). split; [exact K1|].
      intros p Hp. rewrite K4 by exact Hp. rewrite N.sub_0_r. reflexivity.
Qed.

(* Lemmas about model/WriteBatch.v (batchWriter.WriteBatch with an arbitrary kernel oracle). *)
From Coq Require Import List NArith ZArith Lia Bool Arith Sorted.
Import ListNotations.
From NV Require Import lib.Bytes gen.Consts_WriteBatch model.WriteBatch.
Open Scope N_scope.

(* ---------------------------------------------------------------------------------------------- *)
(* strictly increasing lists of batch indexes inside [lo, hi)                                        *)

Fixpoint inc_between (lo hi : nat) (l : list nat) : Prop :=
  match l with
  | [] => (lo <= hi)%nat
  | x :: r => (lo <= x)%nat /\ inc_between (S x) hi r
  end.

Lemma inc_between_le l : forall lo hi, inc_between lo hi l -> (lo <= hi)%nat.
Proof.
  induction l as [|x r IH]; intros lo hi H; cbn [inc_between] in H; [exact H|].
  destruct H as [H1 H2]. apply IH in H2. lia.
Qed.

Lemma inc_between_weaken l : forall lo hi lo' hi',
  (lo' <= lo)%nat -> (hi <= hi')%nat -> inc_between lo hi l -> inc_between lo' hi' l.
Proof.
  induction l as [|x r IH]; intros lo hi lo' hi' Hl Hh H; cbn [inc_between] in *; [lia|].
  destruct H as [H1 H2]. split; [lia|]. eapply IH; [| |exact H2]; lia.
Qed.

Lemma inc_between_app a : forall lo mid hi b,
  inc_between lo mid a -> inc_between mid hi b -> inc_between lo hi (a ++ b).
Proof.
  induction a as [|x r IH]; intros lo mid hi b Ha Hb; cbn [app inc_between] in *.
  - eapply inc_between_weaken; [exact Ha| |exact Hb]. lia.
  - destruct Ha as [H1 H2]. split; [exact H1|]. eapply IH; eassumption.
Qed.

Lemma inc_between_seq n : forall lo hi s, (lo <= s)%nat -> (s + n <= hi)%nat -> inc_between lo hi (seq s n).
Proof.
  induction n as [|n IH]; intros lo hi s H1 H2; cbn [seq inc_between]; [lia|].
  split; [exact H1|]. apply IH; lia.
Qed.

Lemma inc_between_bounds l : forall lo hi, inc_between lo hi l -> Forall (fun x => (lo <= x < hi)%nat) l.
Proof.
  induction l as [|x r IH]; intros lo hi H; [constructor|].
  cbn [inc_between] in H. destruct H as [H1 H2].
  pose proof (inc_between_le _ _ _ H2) as Hle.
  constructor; [lia|]. eapply Forall_impl; [|apply (IH _ _ H2)]. cbv beta. intros a Ha. lia.
Qed.

Lemma inc_between_sorted l : forall lo hi, inc_between lo hi l -> StronglySorted lt l.
Proof.
  induction l as [|x r IH]; intros lo hi H; [constructor|].
  cbn [inc_between] in H. destruct H as [H1 H2]. constructor; [eapply IH; exact H2|].
  eapply Forall_impl; [|apply (inc_between_bounds _ _ _ H2)]. cbv beta. intros a Ha. lia.
Qed.

Lemma sorted_nodup l : StronglySorted lt l -> NoDup l.
Proof.
  induction 1 as [|x r Hs IH Hf]; constructor; [|exact IH].
  intros Hin. rewrite Forall_forall in Hf. specialize (Hf _ Hin). lia.
Qed.

Lemma sorted_later l : StronglySorted lt l ->
  forall l1 a l2 b l3, l = l1 ++ a :: l2 ++ b :: l3 -> (a < b)%nat.
Proof.
  intros Hs l1. revert l Hs. induction l1 as [|y l1 IH]; intros l Hs a l2 b l3 E; subst l.
  - cbn [app] in Hs. inversion Hs as [|? ? _ Hf]; subst.
    rewrite Forall_forall in Hf. apply Hf. apply in_or_app. right. left. reflexivity.
  - cbn [app] in Hs. inversion Hs as [|? ? Hs' _]; subst. eapply IH; [exact Hs'|reflexivity].
Qed.

(* ---------------------------------------------------------------------------------------------- *)
(* entries laid out one after the other inside [lo, hi]                                             *)

Fixpoint ents_between (lo hi : nat) (es : list entry) : Prop :=
  match es with
  | [] => (lo <= hi)%nat
  | e :: r => (lo <= e_start e)%nat /\ (1 <= e_pkts e)%nat /\ ents_between (e_start e + e_pkts e) hi r
  end.

Lemma ents_between_le es : forall lo hi, ents_between lo hi es -> (lo <= hi)%nat.
Proof.
  induction es as [|e r IH]; intros lo hi H; cbn [ents_between] in H; [exact H|].
  destruct H as (H1 & H2 & H3). apply IH in H3. lia.
Qed.

Lemma ents_between_weaken es : forall lo hi lo', (lo' <= lo)%nat -> ents_between lo hi es -> ents_between lo' hi es.
Proof.
  destruct es as [|e r]; intros lo hi lo' Hl H; cbn [ents_between] in *; [lia|].
  destruct H as (H1 & H2 & H3). repeat split; [lia|exact H2|exact H3].
Qed.

Definition next_start (hi : nat) (es : list entry) : nat := match es with [] => hi | e :: _ => e_start e end.

Lemma ents_between_self es hi : (forall lo, ents_between lo hi es -> ents_between (next_start hi es) hi es).
Proof.
  destruct es as [|e r]; intros lo H; cbn [ents_between next_start] in *; [lia|].
  destruct H as (H1 & H2 & H3). repeat split; [lia|exact H2|exact H3].
Qed.

Lemma ents_between_split es : forall lo hi s, ents_between lo hi es ->
  ents_between lo (next_start hi (skipn s es)) (firstn s es) /\
  ents_between (next_start hi (skipn s es)) hi (skipn s es).
Proof.
  induction es as [|e r IH]; intros lo hi s H.
  - destruct s; cbn [firstn skipn next_start ents_between] in *; lia.
  - destruct s as [|s].
    + cbn [firstn skipn]. split; [|eapply ents_between_self; exact H].
      cbn [ents_between next_start] in *. lia.
    + cbn [firstn skipn]. cbn [ents_between] in H. destruct H as (H1 & H2 & H3).
      destruct (IH _ _ s H3) as [A B]. split; [|exact B].
      cbn [ents_between]. repeat split; assumption.
Qed.

Lemma ents_between_indices es : forall lo hi, ents_between lo hi es -> inc_between lo hi (flat_map indices es).
Proof.
  induction es as [|e r IH]; intros lo hi H; cbn [flat_map ents_between] in *; [exact H|].
  destruct H as (H1 & H2 & H3).
  eapply inc_between_app; [|apply IH; exact H3].
  unfold indices. apply inc_between_seq; lia.
Qed.

Lemma In_skipn {A} (l : list A) : forall n x, In x (skipn n l) -> In x l.
Proof.
  intros n x H. rewrite <- (firstn_skipn n l). apply in_or_app. right. exact H.
Qed.

Lemma skipn_add {A} (l : list A) a b : skipn (a + b) l = skipn b (skipn a l).
Proof.
  revert l; induction a as [|a IH]; intros l; [reflexivity|].
  destruct l as [|x l]; cbn [Nat.add skipn]; [now destruct b|apply IH].
Qed.

(* ---------------------------------------------------------------------------------------------- *)
(* what a sequence of calls handed to the kernel                                                    *)

Lemma sent_indices_cons c cs : sent_indices (c :: cs) = flat_map indices (accepted_of_call c) ++ sent_indices cs.
Proof. unfold sent_indices, accepted. cbn [flat_map]. apply flat_map_app. Qed.

Lemma sent_indices_app a b : sent_indices (a ++ b) = sent_indices a ++ sent_indices b.
Proof. unfold sent_indices, accepted. rewrite flat_map_app. apply flat_map_app. Qed.

Lemma sent_indices_nil : sent_indices [] = [].
Proof. reflexivity. Qed.

Lemma sum_pkts_len es : sum_pkts es = N.of_nat (length (flat_map indices es)).
Proof.
  unfold sum_pkts. f_equal. induction es as [|e r IH]; [reflexivity|].
  cbn [fold_right flat_map]. rewrite app_length, IH. unfold indices. rewrite seq_length. reflexivity.
Qed.

(* ---------------------------------------------------------------------------------------------- *)
(* the drain loop                                                                                    *)

Definition stat_hi (hi : nat) (st : dstat) : nat := match st with DsGsoOff r => r | _ => hi end.

Lemma drain_spec : forall fuel gso orc k ents written lo hi cs k' w' st,
  ents_between lo hi ents -> (length ents <= fuel)%nat ->
  drain fuel gso orc k ents written = (cs, k', w', st) ->
  st <> DsFuel /\
  inc_between lo (stat_hi hi st) (sent_indices cs) /\ (stat_hi hi st <= hi)%nat /\
  w' = written + N.of_nat (length (sent_indices cs)) /\
  Forall (fun c => forall e, In e (c_offered c) -> In e ents) cs /\
  (oracle_ok orc -> st <> DsBadOracle) /\
  (forall r, st = DsGsoOff r -> gso = true).
Proof.
  induction fuel as [|f IH]; intros gso orc k ents written lo hi cs k' w' st Hb Hf Hd.
  - destruct ents as [|e rest]; [|cbn [length] in Hf; lia].
    cbn [drain] in Hd. inversion Hd; subst. rewrite sent_indices_nil. cbn [length stat_hi].
    repeat split; try discriminate; try lia; [exact Hb|constructor].
  - destruct ents as [|e rest].
    { cbn [drain] in Hd. inversion Hd; subst. rewrite sent_indices_nil. cbn [length stat_hi].
      repeat split; try discriminate; try lia; [exact Hb|constructor]. }
    cbn [drain] in Hd.
    remember (e :: rest) as ents eqn:Eents.
    destruct (orc k (N.of_nat (length ents))) as [sent errno] eqn:Eo.
    destruct (0 <? sent)%Z eqn:Epos.
    + apply Z.ltb_lt in Epos.
      destruct (Z.of_nat (length ents) <? sent)%Z eqn:Ebad.
      * (* the oracle claims more than it was offered *)
        inversion Hd; subst cs k' w' st. rewrite sent_indices_nil. cbn [length stat_hi].
        repeat split; try discriminate; try lia.
        -- apply ents_between_le in Hb. exact Hb.
        -- constructor.
        -- intros Hok _. specialize (Hok k (N.of_nat (length ents))). rewrite Eo in Hok. cbn [fst] in Hok.
           apply Z.ltb_lt in Ebad. lia.
      * apply Z.ltb_ge in Ebad.
        set (s := Z.to_nat sent) in *.
        destruct (drain f gso orc (S k) (skipn s ents) (written + sum_pkts (firstn s ents)))
          as [[[cs1 k1] w1] st1] eqn:Ed.
        inversion Hd; subst cs k' w' st. clear Hd.
        destruct (ents_between_split ents lo hi s Hb) as [Ha Hr].
        assert (Hlen : (length (skipn s ents) <= f)%nat).
        { rewrite skipn_length. subst ents. cbn [length] in *. lia. }
        destruct (IH _ _ _ _ _ _ _ _ _ _ _ Hr Hlen Ed) as (I1 & I2 & I3 & I4 & I5 & I6 & I7).
        assert (Eacc : accepted_of_call (mkCall ents sent errno) = firstn s ents).
        { unfold accepted_of_call. cbn [c_sent c_offered].
          replace (0 <? sent)%Z with true by (symmetry; apply Z.ltb_lt; lia). reflexivity. }
        rewrite sent_indices_cons, Eacc.
        repeat split.
        -- exact I1.
        -- eapply inc_between_app; [apply ents_between_indices; exact Ha|exact I2].
        -- exact I3.
        -- rewrite I4, app_length, sum_pkts_len. lia.
        -- constructor; [cbn [c_offered]; auto|].
           eapply Forall_impl; [|exact I5]. cbv beta. intros c Hc e0 Hin. eapply In_skipn. apply Hc. exact Hin.
        -- exact I6.
        -- exact I7.
    + apply Z.ltb_ge in Epos.
      assert (Eacc : accepted_of_call (mkCall ents sent errno) = []).
      { unfold accepted_of_call. cbn [c_sent c_offered].
        replace (0 <? sent)%Z with false by (symmetry; apply Z.ltb_ge; lia). reflexivity. }
      destruct (errno =? 0) eqn:Enil.
      * (* no progress and no error *)
        inversion Hd; subst cs k' w' st. rewrite sent_indices_cons, Eacc, sent_indices_nil. cbn [flat_map app length stat_hi].
        repeat split; try discriminate; try lia.
        -- apply ents_between_le in Hb. exact Hb.
        -- constructor; [cbn [c_offered]; auto|constructor].
      * destruct (gso && (2 <=? e_pkts e)%nat && (errno =? wb_eio))%bool eqn:Eeio.
        -- (* EIO on a superpacket: GSO off, rewind *)
           inversion Hd; subst cs k' w' st. rewrite sent_indices_cons, Eacc, sent_indices_nil. cbn [flat_map app length stat_hi].
           subst ents. cbn [ents_between] in Hb. destruct Hb as (B1 & B2 & B3). apply ents_between_le in B3.
           cbn [inc_between].
           repeat split; try discriminate; try lia.
           ++ constructor; [cbn [c_offered]; auto|constructor].
           ++ intros r _. apply andb_prop in Eeio. destruct Eeio as [Eeio _]. apply andb_prop in Eeio. tauto.
        -- (* any other zero-sent error: the entry is dropped *)
           destruct (drain f gso orc (S k) rest written) as [[[cs1 k1] w1] st1] eqn:Ed.
           inversion Hd; subst cs k' w' st. clear Hd.
           subst ents. cbn [ents_between] in Hb. destruct Hb as (B1 & B2 & B3).
           assert (Hlen : (length rest <= f)%nat) by (cbn [length] in Hf; lia).
           destruct (IH _ _ _ _ _ _ _ _ _ _ _ B3 Hlen Ed) as (I1 & I2 & I3 & I4 & I5 & I6 & I7).
           rewrite sent_indices_cons, Eacc. cbn [flat_map app].
           repeat split; try assumption.
           ++ eapply inc_between_weaken; [| |exact I2]; lia.
           ++ constructor; [cbn [c_offered]; auto|].
              eapply Forall_impl; [|exact I5]. cbv beta. intros c Hc e0 Hin. right. apply Hc. exact Hin.
Qed.

(* ---------------------------------------------------------------------------------------------- *)
(* planRun                                                                                           *)

(* the packets after the first one of a run: same destination, non-empty, not longer than seg, and only the
   last may be shorter *)
Fixpoint tail_ok (seg dst : N) (l : list pkt) : Prop :=
  match l with
  | [] => True
  | q :: r => p_dst q = dst /\ 0 < p_len q <= seg /\ (r <> [] -> p_len q = seg) /\ tail_ok seg dst r
  end.

Lemma extend_spec : forall room rest seg dst total,
  (extend seg dst room total rest <= room)%nat /\
  (extend seg dst room total rest <= length rest)%nat /\
  tail_ok seg dst (firstn (extend seg dst room total rest) rest) /\
  (total <= wb_max_gso_bytes -> total + sum_len (firstn (extend seg dst room total rest) rest) <= wb_max_gso_bytes).
Proof.
  induction room as [|room IH]; intros rest seg dst total.
  - cbn [extend firstn tail_ok sum_len fold_right]. repeat split; lia.
  - destruct rest as [|q rest].
    { cbn [extend firstn tail_ok sum_len fold_right length]. repeat split; lia. }
    cbn [extend].
    destruct ((p_len q =? 0) || (seg <? p_len q))%bool eqn:E1.
    { cbn [firstn tail_ok sum_len fold_right length]. repeat split; lia. }
    apply orb_false_elim in E1. destruct E1 as [E1a E1b]. apply N.eqb_neq in E1a. apply N.ltb_ge in E1b.
    destruct (negb (p_dst q =? dst)) eqn:E2.
    { cbn [firstn tail_ok sum_len fold_right length]. repeat split; lia. }
    apply negb_false_iff in E2. apply N.eqb_eq in E2.
    destruct (wb_max_gso_bytes <? total + p_len q) eqn:E3.
    { cbn [firstn tail_ok sum_len fold_right length]. repeat split; lia. }
    apply N.ltb_ge in E3.
    destruct (p_len q <? seg) eqn:E4.
    + cbn [firstn tail_ok sum_len fold_right length]. repeat split; try lia; try exact E2. congruence.
    + apply N.ltb_ge in E4.
      destruct (IH rest seg dst (total + p_len q)) as (I1 & I2 & I3 & I4).
      cbn [firstn length tail_ok]. repeat split; try lia; try exact E2; try exact I3.
      intros Ht. unfold sum_len in *. cbn [fold_right]. specialize (I4 E3). lia.
Qed.

(* geometry of an offloaded run (>= 2 packets) *)
Definition run_geom (maxSegs : nat) (run : list pkt) : Prop :=
  match run with
  | [] => False
  | p :: rest =>
      0 < p_len p <= wb_max_gso_bytes /\ tail_ok (p_len p) (p_dst p) rest /\
      sum_len run <= wb_max_gso_bytes /\ (length run <= maxSegs)%nat
  end.

Lemma plan_run_spec gso maxSegs budget p rest rl seg :
  (1 <= budget)%nat -> plan_run gso maxSegs budget (p :: rest) = (rl, seg) ->
  seg = p_len p /\ (1 <= rl <= S (length rest))%nat /\ (rl <= budget)%nat /\
  ((2 <= rl)%nat -> gso = true /\ run_geom maxSegs (firstn rl (p :: rest))).
Proof.
  intros Hb H. unfold plan_run in H.
  replace (budget <? 1)%nat with false in H by (symmetry; apply Nat.ltb_ge; lia).
  destruct (negb gso || (p_len p =? 0) || (wb_max_gso_bytes <? p_len p))%bool eqn:E.
  - inversion H; subst. repeat split; try lia.
  - inversion H; subst. clear H.
    apply orb_false_elim in E. destruct E as [E E3]. apply orb_false_elim in E. destruct E as [E1 E2].
    apply negb_false_iff in E1. apply N.eqb_neq in E2. apply N.ltb_ge in E3.
    destruct (extend_spec (Nat.pred (Nat.min maxSegs budget)) rest (p_len p) (p_dst p) (p_len p)) as (X1 & X2 & X3 & X4).
    set (m := extend (p_len p) (p_dst p) (Nat.pred (Nat.min maxSegs budget)) (p_len p) rest) in *.
    assert (Hmin1 : (Nat.min maxSegs budget <= maxSegs)%nat) by apply Nat.le_min_l.
    assert (Hmin2 : (Nat.min maxSegs budget <= budget)%nat) by apply Nat.le_min_r.
    split; [reflexivity|]. split; [lia|]. split; [lia|].
    intros H2. split; [exact E1|].
    cbn [firstn run_geom].
    split; [lia|]. split; [exact X3|]. split.
    + unfold sum_len in *. cbn [fold_right]. specialize (X4 E3). lia.
    + cbn [length]. rewrite firstn_length. lia.
Qed.

(* ---------------------------------------------------------------------------------------------- *)
(* the packing loop                                                                                   *)

Definition wf_entry (pkts : list pkt) (gso : bool) (maxSegs : nat) (e : entry) : Prop :=
  (1 <= e_pkts e)%nat /\ (e_start e + e_pkts e <= length pkts)%nat /\
  (exists p rest, run_of pkts e = p :: rest /\ e_seg e = p_len p /\ e_dst e = p_dst p /\ p_ok p = true) /\
  ((2 <= e_pkts e)%nat -> gso = true /\ run_geom maxSegs (run_of pkts e)).

Lemma wf_entry_gso pkts maxSegs e g : wf_entry pkts false maxSegs e -> wf_entry pkts g maxSegs e.
Proof.
  intros (H1 & H2 & H3 & H4). split; [exact H1|]. split; [exact H2|]. split; [exact H3|].
  intros H5. destruct (H4 H5) as [X _]. discriminate.
Qed.

Lemma pack_spec : forall fuel cap gso maxSegs pkts i nent iov ents i',
  (i <= length pkts)%nat ->
  pack fuel cap gso maxSegs (skipn i pkts) i nent iov = Some (ents, i') ->
  ents_between i i' ents /\ (i' <= length pkts)%nat /\ Forall (wf_entry pkts gso maxSegs) ents.
Proof.
  induction fuel as [|f IH]; intros cap gso maxSegs pkts i nent iov ents i' Hi H; [discriminate|].
  cbn [pack] in H.
  destruct (skipn i pkts) as [|p rest0] eqn:Esk.
  { inversion H; subst. cbn [ents_between]. repeat split; [lia|lia|constructor]. }
  destruct (nent <? cap)%nat.
  2:{ inversion H; subst. cbn [ents_between]. repeat split; [lia|lia|constructor]. }
  destruct (cap - iov <? 1)%nat eqn:Eb.
  { inversion H; subst. cbn [ents_between]. repeat split; [lia|lia|constructor]. }
  apply Nat.ltb_ge in Eb.
  destruct (plan_run gso maxSegs (cap - iov) (p :: rest0)) as [rl seg] eqn:Epl.
  destruct (plan_run_spec _ _ _ _ _ _ _ Eb Epl) as (P1 & P2 & P3 & P4).
  replace (rl =? 0)%nat with false in H by (symmetry; apply Nat.eqb_neq; lia).
  assert (Hlen : length (p :: rest0) = (length pkts - i)%nat) by (rewrite <- Esk; apply skipn_length).
  cbn [length] in Hlen.
  assert (Hsk : skipn rl (p :: rest0) = skipn (i + rl) pkts) by (rewrite skipn_add, Esk; reflexivity).
  rewrite Hsk in H.
  assert (Hi' : (i + rl <= length pkts)%nat) by lia.
  destruct (p_ok p) eqn:Eok.
  - destruct (pack f cap gso maxSegs (skipn (i + rl) pkts) (i + rl) (S nent) (iov + rl)) as [[es i2]|] eqn:Er2; [|discriminate].
    inversion H; subst ents i'; clear H.
    destruct (IH _ _ _ _ _ _ _ _ _ Hi' Er2) as (A & B & C).
    split; [|split; [exact B|]].
    + cbn [ents_between e_start e_pkts]. repeat split; [lia|lia|exact A].
    + constructor; [|exact C].
      unfold wf_entry, run_of; cbn [e_start e_pkts e_seg e_dst]; rewrite Esk.
      split; [lia|]. split; [lia|]. split.
      * destruct rl as [|rl']; [lia|]. cbn [firstn]. exists p, (firstn rl' rest0). repeat split; [exact P1|exact Eok].
      * intros H2. exact (P4 H2).
  - destruct (IH _ _ _ _ _ _ _ _ _ Hi' H) as (A & B & C).
    repeat split; [|exact B|exact C].
    eapply ents_between_weaken; [|exact A]. lia.
Qed.

Lemma pack_fuel : forall fuel cap gso maxSegs rest i nent iov,
  (length rest < fuel)%nat -> pack fuel cap gso maxSegs rest i nent iov <> None.
Proof.
  induction fuel as [|f IH]; intros cap gso maxSegs rest i nent iov Hf; [lia|].
  cbn [pack].
  destruct rest as [|p rest0]; [discriminate|].
  destruct (nent <? cap)%nat; [|discriminate].
  destruct (cap - iov <? 1)%nat eqn:Eb; [discriminate|].
  apply Nat.ltb_ge in Eb.
  destruct (plan_run gso maxSegs (cap - iov) (p :: rest0)) as [rl seg] eqn:Epl.
  destruct (plan_run_spec _ _ _ _ _ _ _ Eb Epl) as (P1 & P2 & P3 & P4).
  replace (rl =? 0)%nat with false by (symmetry; apply Nat.eqb_neq; lia).
  assert (Hl : (length (skipn rl (p :: rest0)) < f)%nat) by (rewrite skipn_length; cbn [length] in *; lia).
  destruct (p_ok p).
  - specialize (IH cap gso maxSegs (skipn rl (p :: rest0)) (i + rl)%nat (S nent) (iov + rl)%nat Hl).
    destruct (pack f cap gso maxSegs (skipn rl (p :: rest0)) (i + rl) (S nent) (iov + rl)) as [[es i2]|]; [discriminate|congruence].
  - apply IH. exact Hl.
Qed.

(* ---------------------------------------------------------------------------------------------- *)
(* WriteBatch                                                                                         *)

Lemma outer_spec : forall fuel cap gso maxSegs pkts orc k i written cs out g,
  (i <= length pkts)%nat ->
  outer fuel cap gso maxSegs pkts orc k i written = (cs, out, g) ->
  inc_between i (length pkts) (sent_indices cs) /\
  (forall n, out = Done n \/ out = NoProgress n -> n = written + N.of_nat (length (sent_indices cs))) /\
  Forall (fun c => Forall (wf_entry pkts gso maxSegs) (c_offered c)) cs /\
  (oracle_ok orc -> out <> BadOracle) /\
  ((length pkts - i + (if gso then 1 else 0) < fuel)%nat -> out <> OutOfFuel) /\
  (g = true -> gso = true).
Proof.
  induction fuel as [|f IH]; intros cap gso maxSegs pkts orc k i written cs out g Hi H.
  - cbn [outer] in H. inversion H; subst. rewrite sent_indices_nil.
    repeat split; try discriminate; try lia; try constructor; try tauto.
    all: try (intros n [X|X]; discriminate).
  - cbn [outer] in H.
    destruct (i <? length pkts)%nat eqn:Elt.
    2:{ inversion H; subst. rewrite sent_indices_nil. cbn [length inc_between].
        repeat split; try discriminate; try lia; try constructor; try tauto.
        intros n [X|X]; inversion X; lia. }
    apply Nat.ltb_lt in Elt.
    pose proof (pack_fuel (S (length pkts)) cap gso maxSegs (skipn i pkts) i 0%nat 0%nat) as Pf.
    rewrite skipn_length in Pf. specialize (Pf ltac:(lia)).
    destruct (pack (S (length pkts)) cap gso maxSegs (skipn i pkts) i 0 0) as [[ents i']|] eqn:Ep; [|congruence].
    destruct (pack_spec _ _ _ _ _ _ _ _ _ _ Hi Ep) as (Pb & Pi & Pw).
    destruct ents as [|e0 es].
    { inversion H; subst. rewrite sent_indices_nil. cbn [length inc_between].
      repeat split; try discriminate; try lia; try constructor; try tauto.
      intros n [X|X]; inversion X; lia. }
    remember (e0 :: es) as ents eqn:Eents.
    assert (Hprog : (i < i')%nat).
    { subst ents. cbn [ents_between] in Pb. destruct Pb as (B1 & B2 & B3). apply ents_between_le in B3. lia. }
    destruct (drain (length ents) gso orc k ents written) as [[[cs1 k1] w1] st] eqn:Ed.
    destruct (drain_spec _ _ _ _ _ _ _ _ _ _ _ _ Pb (Nat.le_refl _) Ed) as (D1 & D2 & D3 & D4 & D5 & D6 & D7).
    assert (Hwf1 : Forall (fun c => Forall (wf_entry pkts gso maxSegs) (c_offered c)) cs1).
    { eapply Forall_impl; [|exact D5]. cbv beta. intros c Hc. apply Forall_forall. intros e He.
      rewrite Forall_forall in Pw. apply Pw. apply Hc. exact He. }
    destruct st as [| |r| |].
    + (* chunk drained: next chunk *)
      destruct (outer f cap gso maxSegs pkts orc k1 i' w1) as [[cs2 o2] g2] eqn:Eo.
      inversion H; subst cs out g. clear H.
      destruct (IH _ _ _ _ _ _ _ _ _ _ _ Pi Eo) as (O1 & O2 & O3 & O4 & O5 & O6).
      cbn [stat_hi] in *. rewrite sent_indices_app.
      repeat split.
      * eapply inc_between_app; eassumption.
      * intros n Hn. rewrite (O2 n Hn), D4, app_length. lia.
      * apply Forall_app. split; assumption.
      * exact O4.
      * intros Hfu. apply O5. lia.
      * exact O6.
    + (* no progress *)
      inversion H; subst cs out g. clear H. cbn [stat_hi] in *.
      repeat split; try discriminate; try tauto.
      all: try (eapply inc_between_weaken; [| |exact D2]; lia).
      all: try (intros n [X|X]; inversion X; congruence).
    + (* GSO disabled: rewind to r *)
      destruct (outer f cap false maxSegs pkts orc k1 r w1) as [[cs2 o2] g2] eqn:Eo.
      inversion H; subst cs out g. clear H.
      cbn [stat_hi] in *.
      pose proof (inc_between_le _ _ _ D2) as Hir.
      assert (Hr : (r <= length pkts)%nat) by lia.
      destruct (IH _ _ _ _ _ _ _ _ _ _ _ Hr Eo) as (O1 & O2 & O3 & O4 & O5 & O6).
      pose proof (D7 r eq_refl) as Hg. subst gso.
      rewrite sent_indices_app.
      repeat split.
      * eapply inc_between_app; eassumption.
      * intros n Hn. rewrite (O2 n Hn), D4, app_length. lia.
      * apply Forall_app. split; [exact Hwf1|].
        eapply Forall_impl; [|exact O3]. cbv beta. intros c Hc.
        eapply Forall_impl; [|exact Hc]. intros e He. apply wf_entry_gso. exact He.
      * exact O4.
      * intros Hfu. apply O5. lia.
    + (* bad oracle *)
      inversion H; subst cs out g. clear H. cbn [stat_hi] in *.
      repeat split; try discriminate; try tauto.
      all: try (eapply inc_between_weaken; [| |exact D2]; lia).
      all: try (intros n [X|X]; discriminate).
      all: try (intros Hok X; apply (D6 Hok); reflexivity).
    + congruence.
Qed.

(* ---------------------------------------------------------------------------------------------- *)
(* the statements about write_batch_cap                                                              *)

Lemma write_batch_cap_spec cap gso maxSegs pkts orc :
  let r := write_batch_cap cap gso maxSegs pkts orc in
  inc_between 0 (length pkts) (sent_indices (r_calls r)) /\
  (forall n, r_out r = Done n \/ r_out r = NoProgress n -> n = N.of_nat (length (sent_indices (r_calls r)))) /\
  Forall (fun c => Forall (wf_entry pkts gso maxSegs) (c_offered c)) (r_calls r) /\
  (oracle_ok orc -> r_out r <> BadOracle) /\
  r_out r <> OutOfFuel /\
  (r_gso r = true -> gso = true).
Proof.
  unfold write_batch_cap.
  destruct (outer (length pkts + 2) cap gso maxSegs pkts orc 0 0 0) as [[cs o] g] eqn:Eo.
  cbn [r_calls r_out r_gso].
  destruct (outer_spec _ _ _ _ _ _ _ _ _ _ _ _ (Nat.le_0_l _) Eo) as (O1 & O2 & O3 & O4 & O5 & O6).
  split; [exact O1|]. split.
  { intros n Hn. rewrite (O2 n Hn). lia. }
  split; [exact O3|]. split; [exact O4|]. split; [|exact O6].
  apply O5. destruct gso; lia.
Qed.

(* at most once *)
Lemma wb_once cap gso maxSegs pkts orc : NoDup (sent_indices (r_calls (write_batch_cap cap gso maxSegs pkts orc))).
Proof.
  destruct (write_batch_cap_spec cap gso maxSegs pkts orc) as (H & _).
  eapply sorted_nodup, inc_between_sorted, H.
Qed.

(* only packets of the batch *)
Lemma wb_in_batch cap gso maxSegs pkts orc :
  Forall (fun i => (i < length pkts)%nat) (sent_indices (r_calls (write_batch_cap cap gso maxSegs pkts orc))).
Proof.
  destruct (write_batch_cap_spec cap gso maxSegs pkts orc) as (H & _).
  eapply Forall_impl; [|apply (inc_between_bounds _ _ _ H)]. cbv beta. intros a Ha. lia.
Qed.

(* the count *)
Lemma wb_count cap gso maxSegs pkts orc n :
  let r := write_batch_cap cap gso maxSegs pkts orc in
  r_out r = Done n \/ r_out r = NoProgress n -> n = N.of_nat (length (sent_indices (r_calls r))).
Proof. destruct (write_batch_cap_spec cap gso maxSegs pkts orc) as (_ & H & _). apply H. Qed.

(* order: whatever is handed over later has a larger batch index *)
Lemma wb_order cap gso maxSegs pkts orc l1 a l2 b l3 :
  sent_indices (r_calls (write_batch_cap cap gso maxSegs pkts orc)) = l1 ++ a :: l2 ++ b :: l3 -> (a < b)%nat.
Proof.
  destruct (write_batch_cap_spec cap gso maxSegs pkts orc) as (H & _).
  apply sorted_later. eapply inc_between_sorted, H.
Qed.

(* termination, and no BadOracle under oracle_ok: the call returns *)
Lemma wb_returns cap gso maxSegs pkts orc :
  oracle_ok orc ->
  exists n, r_out (write_batch_cap cap gso maxSegs pkts orc) = Done n \/
            r_out (write_batch_cap cap gso maxSegs pkts orc) = NoProgress n.
Proof.
  intros Hok. destruct (write_batch_cap_spec cap gso maxSegs pkts orc) as (_ & _ & _ & H4 & H5 & _).
  specialize (H4 Hok).
  destruct (r_out (write_batch_cap cap gso maxSegs pkts orc)) as [n|n| |]; try congruence; exists n; auto.
Qed.

Lemma wb_fuel cap gso maxSegs pkts orc : r_out (write_batch_cap cap gso maxSegs pkts orc) <> OutOfFuel.
Proof. destruct (write_batch_cap_spec cap gso maxSegs pkts orc) as (_ & _ & _ & _ & H & _). exact H. Qed.

(* ---- run geometry in readable form ---------------------------------------------------------------- *)

Lemma tail_ok_decomp seg dst : forall l, tail_ok seg dst l -> l <> [] ->
  exists body lst, l = body ++ [lst] /\
    Forall (fun q => p_dst q = dst /\ p_len q = seg) body /\ p_dst lst = dst /\ 0 < p_len lst <= seg.
Proof.
  induction l as [|q r IH]; intros H Hne; [congruence|].
  cbn [tail_ok] in H. destruct H as (H1 & H2 & H3 & H4).
  destruct r as [|q' r'].
  - exists [], q. repeat split; try constructor; try lia; assumption.
  - destruct (IH H4 ltac:(discriminate)) as (body & lst & E & F & D & L).
    exists (q :: body), lst. rewrite E. repeat split; try assumption; try lia.
    constructor; [|exact F]. split; [exact H1|apply H3; discriminate].
Qed.

(* every slot ever offered to the kernel: packets of the batch, routable first packet, its size and destination
   in the slot; and if it is offloaded (>= 2 packets): GSO was on, one destination, every segment but the last of
   exactly the announced size, the last non-empty and not longer, at most maxSegs segments, at most
   maxGSOBytes bytes *)
Lemma wb_runs cap gso maxSegs pkts orc c e :
  In c (r_calls (write_batch_cap cap gso maxSegs pkts orc)) -> In e (c_offered c) ->
  (1 <= e_pkts e)%nat /\ (e_start e + e_pkts e <= length pkts)%nat /\
  (exists p rest, run_of pkts e = p :: rest /\ e_seg e = p_len p /\ e_dst e = p_dst p /\ p_ok p = true) /\
  ((2 <= e_pkts e)%nat ->
     gso = true /\ (e_pkts e <= maxSegs)%nat /\ sum_len (run_of pkts e) <= wb_max_gso_bytes /\ 0 < e_seg e <= wb_max_gso_bytes /\
     exists body lst, run_of pkts e = body ++ [lst] /\
       Forall (fun q => p_dst q = e_dst e /\ p_len q = e_seg e) body /\
       p_dst lst = e_dst e /\ 0 < p_len lst <= e_seg e).
Proof.
  intros Hc He.
  destruct (write_batch_cap_spec cap gso maxSegs pkts orc) as (_ & _ & H & _).
  rewrite Forall_forall in H. specialize (H _ Hc). rewrite Forall_forall in H. specialize (H _ He).
  destruct H as (W1 & W2 & (p & rest & W3 & W4 & W5 & W6) & W7).
  repeat split; try assumption.
  - exists p, rest. auto.
  - apply W7. assumption.
  - destruct (W7 H) as [_ G]. rewrite W3 in G. cbn [run_geom] in G. destruct G as (_ & _ & _ & G).
    assert (L : length (run_of pkts e) = e_pkts e).
    { unfold run_of. rewrite firstn_length, skipn_length. lia. }
    rewrite W3 in L. lia.
  - destruct (W7 H) as [_ G]. rewrite W3 in G |- *. cbn [run_geom] in G. tauto.
  - destruct (W7 H) as [_ G]. rewrite W3 in G. cbn [run_geom] in G. rewrite W4. lia.
  - destruct (W7 H) as [_ G]. rewrite W3 in G. cbn [run_geom] in G. rewrite W4. lia.
  - destruct (W7 H) as [_ G]. rewrite W3 in G |- *. cbn [run_geom] in G. destruct G as (G1 & G2 & G3 & G4).
    assert (L : length (run_of pkts e) = e_pkts e).
    { unfold run_of. rewrite firstn_length, skipn_length. lia. }
    rewrite W3 in L. cbn [length] in L.
    destruct rest as [|q rest']; [cbn [length] in L; lia|].
    destruct (tail_ok_decomp _ _ _ G2 ltac:(discriminate)) as (body & lst & E & F & D & Ll).
    exists (p :: body), lst. rewrite E, W4, W5. repeat split; try assumption; try lia.
    constructor; [split; reflexivity|exact F].
Qed.

(* ---- the kernel-release gate --------------------------------------------------------------------------- *)

Lemma gso_limit_values : wb_segs_pre_6_9 = 63 /\ wb_segs_6_9 = 127.
Proof. split; reflexivity. Qed.

(* below 6.9 (as a pair) the limit is the conservative one, for every major and minor *)
Lemma gso_limit_old (major minor : Z) :
  (major < 6 \/ (major = 6 /\ minor < 9))%Z -> gso_max_segments major minor = 63.
Proof.
  intros H. unfold gso_max_segments.
  destruct (6 <? major)%Z eqn:E1; [apply Z.ltb_lt in E1; lia|].
  destruct (major =? 6)%Z eqn:E2; cbn [orb andb]; [|reflexivity].
  destruct (9 <=? minor)%Z eqn:E3; [|reflexivity].
  apply Z.eqb_eq in E2. apply Z.leb_le in E3. lia.
Qed.

Lemma gso_limit_new (major minor : Z) :
  (6 < major \/ (major = 6 /\ 9 <= minor))%Z -> gso_max_segments major minor = 127.
Proof.
  intros H. unfold gso_max_segments.
  destruct (6 <? major)%Z eqn:E1; [reflexivity|]. apply Z.ltb_ge in E1.
  destruct H as [H|[H1 H2]]; [lia|]. subst major. cbn [orb andb Z.eqb Pos.eqb].
  replace (9 <=? minor)%Z with true by (symmetry; apply Z.leb_le; exact H2). reflexivity.
Qed.

(* the limit never exceeds what the kernel of that release accepts: UDP_MAX_SEGMENTS (64, from 6.9 on 128) minus one *)
Definition kernel_segs (major minor : Z) : N :=
  if ((6 <? major) || ((major =? 6) && (9 <=? minor)))%Z%bool then 128 else 64.

Lemma gso_limit_safe (major minor : Z) : gso_max_segments major minor + 1 <= kernel_segs major minor.
Proof.
  unfold gso_max_segments, kernel_segs.
  destruct ((6 <? major) || ((major =? 6) && (9 <=? minor)))%Z%bool; vm_compute; discriminate.
Qed.

(* monotone in the version *)
Lemma gso_limit_mono (a b c d : Z) :
  (a < c \/ (a = c /\ b <= d))%Z -> gso_max_segments a b <= gso_max_segments c d.
Proof.
  intros H.
  destruct (Z_lt_le_dec a 6) as [Ha|Ha].
  - rewrite (gso_limit_old a b) by lia.
    destruct (Z_lt_le_dec c 6); [rewrite gso_limit_old by lia; lia|].
    destruct (Z.eq_dec c 6); [|rewrite gso_limit_new by lia; lia].
    destruct (Z_lt_le_dec d 9); [rewrite gso_limit_old by lia; lia|rewrite gso_limit_new by lia; lia].
  - destruct (Z.eq_dec a 6) as [Ea|Ea].
    + destruct (Z_lt_le_dec b 9).
      * rewrite (gso_limit_old a b) by lia.
        destruct (Z.eq_dec c 6); [|rewrite gso_limit_new by lia; lia].
        destruct (Z_lt_le_dec d 9); [rewrite gso_limit_old by lia; lia|rewrite gso_limit_new by lia; lia].
      * rewrite (gso_limit_new a b) by lia. rewrite (gso_limit_new c d) by lia. lia.
    + rewrite (gso_limit_new a b) by lia. rewrite (gso_limit_new c d) by lia. lia.
Qed.

(* Segment_geom: how the payload is cut (segCount, segStart/segEnd) - chunks, their lengths, their concatenation. *)
From Coq Require Import List NArith ZArith Bool Arith Lia ZifyN ZifyNat ZifyBool.
Import ListNotations.
From NV Require Import lib.Bytes lib.Ones model.Segment proofs.Segment_buf.
Open Scope N_scope.

Lemma seg_count_spec p g : (1 <= g)%nat ->
  (p = 0%nat /\ seg_count p g = 1%nat) \/
  ((0 < p)%nat /\ ((seg_count p g - 1) * g < p)%nat /\ (p <= seg_count p g * g)%nat /\ (1 <= seg_count p g)%nat).
Proof.
  intros Hg. unfold seg_count.
  destruct (Nat.eq_dec p 0) as [->|Hp].
  - left. split; [reflexivity|].
    replace (0 + g - 1)%nat with (g - 1)%nat by lia.
    rewrite Nat.div_small by lia. reflexivity.
  - right.
    pose proof (Nat.div_mod (p + g - 1) g ltac:(lia)) as D.
    pose proof (Nat.mod_upper_bound (p + g - 1) g ltac:(lia)) as M.
    set (q := ((p + g - 1) / g)%nat) in *.
    assert (Hq : (1 <= q)%nat).
    { destruct q; [|lia]. lia. }
    destruct (Nat.eqb_spec q 0); [lia|].
    repeat split; try lia; nia.
Qed.

Lemma seg_count_pos p g : (1 <= g)%nat -> (1 <= seg_count p g)%nat.
Proof. intros Hg. destruct (seg_count_spec p g Hg) as [[_ ->]|(_ & _ & _ & H)]; lia. Qed.

Lemma chunk_ref_length (pay : list N) g i : length (chunk_ref pay g i) = Nat.min g (length pay - i * g).
Proof. unfold chunk_ref. rewrite firstn_length, skipn_length. reflexivity. Qed.

Lemma firstn_min_len {A} n (l : list A) : firstn (Nat.min n (length l)) l = firstn n l.
Proof.
  destruct (Nat.le_ge_cases n (length l)).
  - f_equal. lia.
  - rewrite Nat.min_r by lia. rewrite firstn_all. symmetry. apply firstn_all2. lia.
Qed.

(* the chunk the code addresses in the buffer is chunk i of the payload *)
Lemma chunk_of_ref pkt hl g i : (hl <= length pkt)%nat -> chunk_of pkt hl g i = chunk_ref (skipn hl pkt) g i.
Proof.
  intros H. unfold chunk_of, chunk_ref, sub, seg_start, seg_end.
  rewrite skipn_skipn. replace (i * g + hl)%nat with (hl + i * g)%nat by lia.
  rewrite <- (firstn_min_len g).
  rewrite skipn_length. f_equal. lia.
Qed.

Lemma seg_pay_len pkt hl g i : (hl <= length pkt)%nat ->
  (seg_end g (length pkt - hl) i - seg_start g i)%nat = length (chunk_ref (skipn hl pkt) g i).
Proof. intros H. rewrite chunk_ref_length, skipn_length. unfold seg_end, seg_start. lia. Qed.

(* cutting into pieces of g and concatenating gives the list back *)
Lemma concat_chunks (pay : list N) g : (1 <= g)%nat -> forall n, (length pay <= n * g)%nat ->
  concat (map (chunk_ref pay g) (seq 0 n)) = pay.
Proof.
  intros Hg n. revert pay. induction n as [|n IH]; intros pay H.
  - destruct pay; [reflexivity|simpl in H; lia].
  - rewrite <- cons_seq, <- seq_shift. cbn [map concat]. rewrite map_map.
    unfold chunk_ref at 1. cbn [Nat.mul skipn].
    transitivity (firstn g pay ++ skipn g pay); [|apply firstn_skipn]. f_equal.
    etransitivity; [|apply (IH (skipn g pay)); rewrite skipn_length; lia].
    f_equal. apply map_ext. intros i. unfold chunk_ref. rewrite skipn_skipn. f_equal. f_equal. lia.
Qed.

Lemma concat_chunks_count (pay : list N) g : (1 <= g)%nat ->
  concat (map (chunk_ref pay g) (seq 0 (seg_count (length pay) g))) = pay.
Proof.
  intros Hg. apply concat_chunks; [exact Hg|].
  destruct (seg_count_spec (length pay) g Hg) as [[-> ->]|(_ & _ & H & _)]; lia.
Qed.

(* every chunk but the last is full; the last one is non-empty unless the payload is empty *)
Lemma chunk_full (pay : list N) g i : (1 <= g)%nat -> (i + 1 < seg_count (length pay) g)%nat ->
  length (chunk_ref pay g i) = g.
Proof.
  intros Hg Hi. rewrite chunk_ref_length.
  destruct (seg_count_spec (length pay) g Hg) as [[_ E]|(_ & H & _ & _)]; [lia|]. nia.
Qed.

Lemma chunk_last_nonempty (pay : list N) g i : (1 <= g)%nat -> (i < seg_count (length pay) g)%nat -> (0 < length pay)%nat ->
  (0 < length (chunk_ref pay g i))%nat.
Proof.
  intros Hg Hi Hp. rewrite chunk_ref_length.
  destruct (seg_count_spec (length pay) g Hg) as [[E _]|(_ & H & _ & _)]; [lia|]. nia.
Qed.

Lemma chunk_le (pay : list N) g i : (length (chunk_ref pay g i) <= g)%nat.
Proof. rewrite chunk_ref_length. lia. Qed.

Lemma chunk_start_le (pay : list N) g i : (1 <= g)%nat -> (i < seg_count (length pay) g)%nat -> (i * g <= length pay)%nat.
Proof.
  intros Hg Hi. destruct (seg_count_spec (length pay) g Hg) as [[E E2]|(_ & H & _ & _)]; [rewrite E2 in Hi; nia|]. nia.
Qed.

Lemma bytes_ok_chunk (pay : list N) g i : bytes_ok pay = true -> bytes_ok (chunk_ref pay g i) = true.
Proof. intros H. unfold chunk_ref. apply bytes_ok_firstn, bytes_ok_skipn, H. Qed.

(* C43, T1: the generated constants of gen/Consts_KeyCrypt.v are the documented ones. *)
From Coq Require Import List NArith String Ascii.
Import ListNotations.
From NV Require Import gen.Consts_KeyCrypt.
Open Scope N_scope.
Open Scope string_scope.

(* ---- facts about the generated constants (T1) ------------------------------------------------------- *)

Fixpoint str (s : string) : list N :=
  match s with EmptyString => [] | String a r => N_of_ascii a :: str r end.

Definition documented_banners : Prop :=
  banner_x25519_priv = str "NEBULA X25519 PRIVATE KEY" /\ banner_x25519_pub = str "NEBULA X25519 PUBLIC KEY" /\
  banner_p256_priv = str "NEBULA P256 PRIVATE KEY" /\ banner_p256_pub = str "NEBULA P256 PUBLIC KEY" /\
  banner_ecdsa_p256_enc = str "NEBULA ECDSA P256 ENCRYPTED PRIVATE KEY" /\
  banner_ecdsa_p256_priv = str "NEBULA ECDSA P256 PRIVATE KEY" /\ banner_ecdsa_p256_pub = str "NEBULA ECDSA P256 PUBLIC KEY" /\
  banner_ed25519_enc = str "NEBULA ED25519 ENCRYPTED PRIVATE KEY" /\
  banner_ed25519_priv = str "NEBULA ED25519 PRIVATE KEY" /\ banner_ed25519_pub = str "NEBULA ED25519 PUBLIC KEY".

Lemma banners_documented : documented_banners.
Proof. unfold documented_banners. repeat split; reflexivity. Qed.

Definition documented_constants : Prop :=
  alg_name = str "AES-256-GCM" /\ argon2_version = 19 /\ gcm_nonce_len = 12 /\ gcm_tag_len = 16 /\ generated_salt_len = 32.

Lemma constants_documented : documented_constants.
Proof. unfold documented_constants. repeat split; reflexivity. Qed.


(* The replay window refines the abstract specification of C11: simulation relation R between
   the word-level state and (highest accepted counter, accepted set), preserved by every Check and
   Update of a history whose counters stay below 2^64 - L. *)
From Coq Require Import List NArith ZArith Lia Bool.
Import ListNotations.
From NV Require Import lib.Bytes lib.Bits_lib model.Bits proofs.Bits_word.
Open Scope N_scope.

(* R: same cursor; the cursor counts as seen; nothing above the cursor has been seen; and for every
   counter j of the current window (j <= cur < j + L) the bit at its circular position is "seen j". *)
Definition R (L : N) (b : bits) (s : spec_state) : Prop :=
  wf L b /\ b_cur b = s_cur s /\ s_cur s < two64 - L /\ seen s (s_cur s) = true /\
  (forall j, seen s j = true -> j <= s_cur s) /\
  (forall j, j <= s_cur s -> s_cur s < j + L -> bit_at (b_words b) (j mod L) = seen s j).

Lemma seen_cons s c i j : seen (mkSpec c (i :: s_acc s)) j = (j =? i) || seen s j.
Proof.
  unfold seen. cbn [s_acc existsb].
  destruct (j =? 0); destruct (j =? i); reflexivity.
Qed.

Lemma repeat_S_nth0 n : (0 < n)%nat -> nth_word (set_word (repeat 0 n) 0 1) 0 = 1.
Proof. destruct n; [lia|]. reflexivity. Qed.

Lemma new_bits_pow2 L : pow2 L ->
  new_bits L = Some (mkBits L (L - 1) 0 (set_word (repeat 0 (N.to_nat (nwords L))) 0 1)).
Proof.
  intros HL. pose proof (pow2_pos L HL) as HLp. pose proof (pow2_lt_two64' L HL) as H64.
  unfold new_bits. rewrite (sub64_exact L 1) by lia.
  rewrite (pow2_mask L L HL), N.mod_same by lia.
  destruct (N.eqb_spec L 0); [lia|]. cbn [orb negb N.eqb]. reflexivity.
Qed.

Lemma R_init L b : pow2 L -> new_bits L = Some b -> R L b spec_init.
Proof.
  intros HL E. rewrite (new_bits_pow2 L HL) in E. injection E as <-.
  pose proof (pow2_pos L HL) as HLp. pose proof (pow2_lt_two64' L HL) as H64.
  pose proof (nwords_pos L) as Hnw.
  unfold R, wf. cbn [b_len b_mask b_cur b_words s_cur spec_init].
  repeat split.
  - rewrite set_word_length, repeat_length. lia.
  - lia.
  - intros j Hj. unfold seen in Hj. cbn [s_acc existsb] in Hj. rewrite orb_false_r in Hj.
    apply N.eqb_eq in Hj. lia.
  - intros j Hj _. assert (j = 0) by lia. subst j. rewrite N.mod_0_l by lia.
    unfold bit_at. change (0 / 64) with 0. change (0 mod 64) with 0.
    rewrite repeat_S_nth0 by lia. reflexivity.
Qed.

Lemma strictly_within_spec L b i :
  wf L b -> b_cur b < two64 -> i <= b_cur b ->
  strictly_within b i = (b_cur b <? i + L).
Proof.
  intros (E1 & _ & _) Hc Hi. unfold strictly_within. rewrite E1. cbn zeta.
  destruct (N.ltb_spec (b_cur b) L) as [Hw|Hw].
  - assert (i < L) by lia. destruct (N.ltb_spec i L); [|lia]. cbn [andb].
    symmetry. apply N.ltb_lt. lia.
  - rewrite andb_false_r. rewrite sub64_exact by assumption.
    destruct (N.ltb_spec (b_cur b - L) i); symmetry; [apply N.ltb_lt|apply N.ltb_ge]; lia.
Qed.

Lemma check_sim L b s i :
  pow2 L -> R L b s -> check b i = spec_accept L s i.
Proof.
  intros HL (Hwf & Ec & Hr & Hsc & Hle & Hbits).
  pose proof (pow2_pos L HL) as HLp.
  unfold check, spec_accept, in_window. rewrite Ec.
  destruct (N.ltb_spec (s_cur s) i) as [Hgt|Hlei].
  - destruct (seen s i) eqn:Es; [apply Hle in Es; lia|reflexivity].
  - rewrite (strictly_within_spec L b i Hwf) by (rewrite Ec; unfold two64 in *; lia).
    rewrite Ec. destruct (N.leb_spec i (s_cur s)); [|lia]. cbn [orb andb].
    destruct (N.ltb_spec (s_cur s) (i + L)) as [Hin|Hout].
    + rewrite (get_bit_at L b i HL Hwf), Hbits by assumption. now rewrite andb_true_r.
    + now rewrite andb_false_r.
Qed.

(* bits of the window after "set position of i" on top of a word list whose bits are known *)
Lemma update_sim L b s i :
  pow2 L -> R L b s -> i < two64 - L ->
  fst (update b i) = fst (spec_update L s i) /\ R L (snd (update b i)) (snd (spec_update L s i)).
Proof.
  intros HL HR Hi. pose proof HR as (Hwf & Ec & Hr & Hsc & Hle & Hbits).
  pose proof (pow2_pos L HL) as HLp. pose proof (pow2_lt_two64' L HL) as H64.
  pose proof Hwf as (W1 & W2 & W3).
  set (cur := s_cur s) in *.
  assert (Hnotseen : cur < i -> seen s i = false).
  { intros H. destruct (seen s i) eqn:Es; [apply Hle in Es; lia|reflexivity]. }
  unfold update. rewrite Ec. rewrite (add64_exact cur 1) by (unfold two64 in *; lia).
  destruct (N.eqb_spec i (cur + 1)) as [Efast|Nfast].
  - (* fast path *)
    cbn [fst snd].
    unfold spec_update, spec_accept. fold cur. rewrite (Hnotseen ltac:(lia)).
    destruct (N.ltb_spec cur i); [|lia]. cbn [negb andb orb fst snd].
    split; [reflexivity|].
    destruct (set_word_or_spec L b i HL Hwf) as (Slen & Sbits). cbn zeta in Slen, Sbits.
    unfold R, wf. cbn [b_len b_mask b_cur b_words s_cur].
    rewrite N.max_r by lia.
    repeat split; try assumption.
    + rewrite Slen. exact W3.
    + rewrite seen_cons, N.eqb_refl. reflexivity.
    + intros j Hj. rewrite seen_cons in Hj. apply orb_true_iff in Hj as [Hj|Hj].
      * apply N.eqb_eq in Hj. lia.
      * apply Hle in Hj. lia.
    + intros j Hj1 Hj2. rewrite Sbits, seen_cons.
      destruct (N.eqb_spec j i) as [->|Nj].
      * rewrite N.eqb_refl. apply orb_true_r.
      * assert (Hm : i mod L <> j mod L) by (apply mod_neq_close; lia).
        destruct (N.eqb_spec (j mod L) (i mod L)); [congruence|].
        rewrite orb_false_r. cbn [orb]. apply Hbits; lia.
  - unfold update_slow. rewrite Ec. fold cur.
    destruct (N.ltb_spec cur i) as [Hjump|Hback].
    + (* jump *)
      cbn [fst snd]. rewrite W1.
      rewrite (add64_exact cur L) by (unfold two64 in *; lia).
      rewrite (add64_exact cur 1) by (unfold two64 in *; lia).
      assert (Esp : N.land (cur + 1) (b_mask b) = (cur + 1) mod L) by (rewrite W2; apply pow2_mask; exact HL).
      rewrite Esp.
      set (end_ := if cur + L <? i then cur + L else i).
      assert (Hend : cur < end_ /\ end_ <= cur + L /\ end_ <= i /\ (end_ = i \/ (end_ = cur + L /\ cur + L < i))).
      { subst end_. destruct (N.ltb_spec (cur + L) i); lia. }
      rewrite (sub64_exact end_ cur) by (unfold two64 in *; lia).
      set (count := end_ - cur).
      set (sp := (cur + 1) mod L).
      assert (Hsp : sp < L) by (apply N.mod_lt; lia).
      destruct (clear_range_spec L b sp count HL Hwf Hsp ltac:(unfold two64 in *; lia)) as (Clen & Cbits).
      set (b1 := with_words b (clear_range b sp count)).
      assert (Hwf1 : wf L b1).
      { unfold wf, b1. cbn [with_words b_len b_mask b_words]. rewrite Clen. auto. }
      destruct (set_word_or_spec L b1 i HL Hwf1) as (Slen & Sbits). cbn zeta in Slen, Sbits.
      unfold spec_update, spec_accept. fold cur. rewrite (Hnotseen Hjump).
      destruct (N.ltb_spec cur i); [|lia]. cbn [negb andb orb fst snd].
      split; [reflexivity|].
      unfold R, wf, set, with_cur. cbn [with_words b_len b_mask b_cur b_words s_cur].
      rewrite N.max_r by lia.
      repeat split; try assumption.
      * rewrite Slen. unfold b1. cbn [with_words b_words]. rewrite Clen. exact W3.
      * rewrite seen_cons, N.eqb_refl. reflexivity.
      * intros j Hj. rewrite seen_cons in Hj. apply orb_true_iff in Hj as [Hj|Hj].
        -- apply N.eqb_eq in Hj. lia.
        -- apply Hle in Hj. lia.
      * intros j Hj1 Hj2.
        rewrite Sbits, seen_cons. unfold b1 at 1. cbn [with_words b_words].
        destruct (N.eqb_spec j i) as [->|Nj].
        { rewrite N.eqb_refl. apply orb_true_r. }
        assert (Hm : i mod L <> j mod L) by (apply mod_neq_close; lia).
        destruct (N.eqb_spec (j mod L) (i mod L)); [congruence|].
        rewrite orb_false_r. cbn [orb].
        rewrite Cbits by (apply N.mod_lt; lia).
        unfold in_circ, sp. rewrite mod_circ_dist by lia.
        destruct (N.le_gt_cases j cur) as [Hold|Hnew].
        -- (* j was already in the window: not cleared *)
           assert (end_ = i) by lia.
           rewrite (N.mod_small (j + L - (cur + 1)) L) by lia.
           unfold count.
           destruct (N.ltb_spec (j + L - (cur + 1)) (end_ - cur)); [lia|].
           cbn [negb]. rewrite andb_true_r. apply Hbits; lia.
        -- (* j entered the window: cleared, and never seen *)
           destruct (seen s j) eqn:Es; [apply Hle in Es; lia|].
           apply andb_false_iff. right. apply negb_false_iff, N.ltb_lt.
           unfold count.
           destruct Hend as (G1 & G2 & G3 & [He|[He He2]]).
           ++ rewrite (mod_lt_2 (j + L - (cur + 1)) L) by lia.
              destruct (N.ltb_spec (j + L - (cur + 1)) L); lia.
           ++ assert (Hml : (j + L - (cur + 1)) mod L < L) by (apply N.mod_lt; lia).
              rewrite He. lia.
    + (* at or below the cursor *)
      rewrite (strictly_within_spec L b i Hwf) by (rewrite Ec; fold cur; unfold two64 in *; lia).
      rewrite Ec. fold cur.
      unfold spec_update, spec_accept, in_window. fold cur.
      destruct (N.ltb_spec cur i); [lia|]. destruct (N.leb_spec i cur); [|lia]. cbn [orb andb].
      destruct (N.ltb_spec cur (i + L)) as [Hin|Hout].
      * change (negb (N.land (nth_word (b_words b) (N.shiftr (N.land i (b_mask b)) 6))
                        (shl64 1 (N.land (N.land i (b_mask b)) 63)) =? 0)) with (get b i).
        rewrite (get_bit_at L b i HL Hwf), Hbits by lia.
        assert (Edup : (cur =? i) || seen s i = seen s i).
        { destruct (N.eqb_spec cur i) as [<-|]; [fold cur in Hsc; rewrite Hsc|]; reflexivity. }
        rewrite Edup, andb_true_r.
        destruct (seen s i) eqn:Es; cbn [negb fst snd].
        { split; [reflexivity|exact HR]. }
        split; [reflexivity|].
        destruct (set_word_or_spec L b i HL Hwf) as (Slen & Sbits). cbn zeta in Slen, Sbits.
        unfold R, wf. cbn [with_words b_len b_mask b_cur b_words s_cur].
        rewrite N.max_l by lia.
        repeat split; try assumption.
        -- rewrite Slen. exact W3.
        -- rewrite seen_cons. fold cur in Hsc. rewrite Hsc. apply orb_true_r.
        -- intros j Hj. rewrite seen_cons in Hj. apply orb_true_iff in Hj as [Hj|Hj].
           ++ apply N.eqb_eq in Hj. lia.
           ++ apply Hle in Hj. exact Hj.
        -- intros j Hj1 Hj2. rewrite Sbits, seen_cons.
           destruct (N.eqb_spec j i) as [->|Nj].
           ++ rewrite N.eqb_refl. apply orb_true_r.
           ++ assert (Hm : i mod L <> j mod L).
              { destruct (N.lt_ge_cases j i); [apply mod_neq_close; lia|].
                intros E. symmetry in E. revert E. apply mod_neq_close; lia. }
              destruct (N.eqb_spec (j mod L) (i mod L)); [congruence|].
              rewrite orb_false_r. cbn [orb]. apply Hbits; assumption.
      * rewrite andb_false_r. cbn [fst snd]. split; [reflexivity|exact HR].
Qed.

(* Lemmas about model/HsRetry.v (C32): the invariant (the timer wheel of the state is the run of the ghost trace
   of wheel operations from NewTimerWheel, no expired item is left between operations, timer entries carry
   distinct serial numbers, queue and counter bounds), the behaviour of cachePacket / handleOutbound / completion
   / restart, and the timing of a timer entry (through the C33 lemmas of proofs/Wheel_c33.v). *)
From Coq Require Import List ZArith NArith Bool Lia Permutation.
Import ListNotations.
From NV Require Import gen.Consts_HsMgr model.Wheel lib.Wheel_lib proofs.Wheel_proofs proofs.Wheel_time proofs.Wheel_c33
  model.HsRetry.
Open Scope Z_scope.

(* ---------- finite maps ------------------------------------------------------------------------------ *)

Lemma mget_mset {V} k j (v : V) m : mget j (mset k v m) = if N.eqb j k then Some v else mget j m.
Proof.
  induction m as [|[k' v'] r IH]; simpl.
  - destruct (N.eqb j k); reflexivity.
  - destruct (N.ltb_spec k k') as [L|L]; simpl.
    + destruct (N.eqb_spec j k); reflexivity.
    + destruct (N.eqb_spec k k') as [->|NE]; simpl.
      * destruct (N.eqb_spec j k'); reflexivity.
      * rewrite IH. destruct (N.eqb_spec j k') as [->|]; [|reflexivity].
        destruct (N.eqb_spec k' k); [congruence|reflexivity].
Qed.

Lemma mget_mset_eq {V} k (v : V) m : mget k (mset k v m) = Some v.
Proof. now rewrite mget_mset, N.eqb_refl. Qed.

Lemma mget_mdel {V} k j (m : amap V) : mget j (mdel k m) = if N.eqb j k then None else mget j m.
Proof.
  induction m as [|[k' v'] r IH]; simpl.
  - now destruct (N.eqb j k).
  - destruct (N.eqb_spec k' k) as [->|NE]; simpl.
    + rewrite IH. destruct (N.eqb_spec j k); reflexivity.
    + rewrite IH. destruct (N.eqb_spec j k') as [->|]; [|reflexivity].
      destruct (N.eqb_spec k' k); [congruence|reflexivity].
Qed.

Lemma NoDup_snoc {A} (l : list A) x : NoDup l -> ~ In x l -> NoDup (l ++ [x]).
Proof.
  induction l as [|y r IH]; intros ND NI; simpl.
  - repeat constructor. intros [].
  - inversion ND; subst. constructor.
    + intros IN. apply in_app_or in IN as [IN|[E|[]]]; [contradiction|]. subst. apply NI. now left.
    + apply IH; [assumption|]. intros IN. apply NI. now right.
Qed.

(* ---------- configuration ---------------------------------------------------------------------------- *)

(* tryInterval of at least 2 ns, retries not negative *)
Definition cfg_ok (cfg : rcfg) : Prop := 2 <= r_interval cfg /\ 0 <= r_retries cfg.

Definition W0 (cfg : rcfg) : wheel titem := init (r_interval cfg) (hs_timeout (r_retries cfg) (r_interval cfg)).

Lemma hs_timeout_nonneg r i : 0 <= r -> 0 < i -> 0 <= hs_timeout r i.
Proof.
  intros Hr Hi. unfold hs_timeout. apply Z.mul_nonneg_nonneg; [apply Z.quot_pos; lia|nia].
Qed.

Lemma params cfg : cfg_ok cfg -> params_ok (r_interval cfg) (hs_timeout (r_retries cfg) (r_interval cfg)).
Proof. intros [Hi Hr]. split; [lia|apply hs_timeout_nonneg; lia]. Qed.

(* the span of the wheel covers every delay handleOutbound asks for: retries * interval *)
Lemma hs_timeout_covers r i : 2 <= r -> 0 < i -> r * i <= hs_timeout r i.
Proof.
  intros Hr Hi. unfold hs_timeout.
  assert (Q : 1 <= Z.quot r 2 /\ r <= 2 * Z.quot r 2 + 1) by (Z.to_euclidean_division_equations; lia).
  nia.
Qed.

(* Timer.Add(a, interval * c) waits c ticks (+ the one the wheel always adds), for every attempt number c the
   code can produce; StartHandshake's Timer.Add(a, interval) waits 1 tick *)
Lemma nticks_attempt cfg c : cfg_ok cfg -> 1 <= c -> (c <= r_retries cfg \/ c = 1) ->
  nticks (W0 cfg) (r_interval cfg * c) = c.
Proof.
  intros [Hi Hr] Hc Hle. unfold nticks, clamp, W0, init. cbn [w_tick w_max].
  set (I := r_interval cfg) in *. set (M := hs_timeout (r_retries cfg) I).
  destruct (Z.ltb_spec (I * c) I) as [L|L]; [nia|].
  assert (Q : forall x, 0 <= x -> Z.quot (I * x + (I - 1)) I = x).
  { intros x Hx. Z.to_euclidean_division_equations. nia. }
  destruct (Z.ltb_spec M (I * c)) as [L2|L2].
  - (* clamped: only possible when retries < 2, and then c = 1 and the span is 0 *)
    assert (r_retries cfg < 2).
    { destruct (Z_lt_le_dec (r_retries cfg) 2) as [|G]; [assumption|].
      pose proof (hs_timeout_covers (r_retries cfg) I G ltac:(lia)). fold M in H. destruct Hle; nia. }
    assert (M = 0).
    { unfold M, hs_timeout. assert (Z.quot (r_retries cfg) 2 = 0) by (Z.to_euclidean_division_equations; lia). nia. }
    assert (c = 1) by (destruct Hle; lia). subst c. rewrite H0.
    assert (Z.quot (0 - 1) I = 0) by (Z.to_euclidean_division_equations; nia). lia.
  - replace (I * c - 1) with (I * (c - 1) + (I - 1)) by lia. rewrite Q by lia. lia.
Qed.

(* ---------- the invariant ---------------------------------------------------------------------------- *)

Section Inv.
Variable cfg : rcfg.
Hypothesis OK : cfg_ok cfg.

Definition shape (T : Z) : Prop := exists c, T = r_interval cfg * c /\ 1 <= c /\ (c <= r_retries cfg \/ c = 1).

(* holds at every point, also inside the Purge loop *)
Record RInv0 (s : rstate) : Prop := mkRInv0 {
  ri_wh : wh s = exec (tr s) (W0 cfg);
  ri_ser : forall a k, In (a, k) (adds (tr s)) -> (k < rser s)%N;
  ri_nodup : NoDup (adds (tr s));
  ri_q : forall a e, mget a (pend s) = Some e ->
           (N.of_nat (length (p_store e)) <= maxCachedPackets)%N /\ 0 <= p_counter e <= r_retries cfg;
  (* every Timer.Add asked for interval * c, c an attempt number (or 1: StartHandshake) *)
  ri_shape : forall x T, In (OAdd x T) (tr s) -> shape T
}.

(* between operations the expired list of the wheel is empty *)
Definition RInv (s : rstate) : Prop := RInv0 s /\ w_exp (wh s) = [].

Lemma rinv_wf s : RInv0 s -> wf (wh s).
Proof. intros H. rewrite (ri_wh _ H). apply wf_exec, wf_init, params, OK. Qed.

Lemma rinv_init : RInv (rinit cfg).
Proof.
  split; [constructor|reflexivity]; cbn [rinit tr wh pend adds exec rser].
  - reflexivity.
  - intros a k [].
  - constructor.
  - intros a e E. discriminate.
  - intros x T [].
Qed.

Lemma exec_snoc (h : list (Wheel.op titem)) o w : exec (h ++ [o]) w = step o (exec h w).
Proof. rewrite exec_app. reflexivity. Qed.

Lemma adds_snoc (h : list (Wheel.op titem)) o : adds (h ++ [o]) = adds h ++ adds [o].
Proof. apply adds_app. Qed.

(* Timer.Add *)
Lemma arm_inv a T s : RInv0 s -> shape T -> RInv0 (arm a T s) /\ w_exp (wh (arm a T s)) = w_exp (wh s) /\
  pend (arm a T s) = pend s /\ ridx (arm a T s) = ridx s /\ rnxt (arm a T s) = rnxt s.
Proof.
  intros [W S ND Q SH] ST. unfold arm. split; [constructor|]; cbn [wh tr rser pend ridx rnxt].
  - rewrite exec_snoc, <- W. reflexivity.
  - intros b k. rewrite adds_snoc. cbn [adds app]. intros IN. apply in_app_or in IN as [IN|[E|[]]].
    + specialize (S _ _ IN). lia.
    + inversion E. lia.
  - rewrite adds_snoc. cbn [adds]. apply NoDup_snoc; [assumption|].
    intros IN. specialize (S _ _ IN). lia.
  - exact Q.
  - intros x T' IN. apply in_app_or in IN as [IN|[E|[]]]; [exact (SH _ _ IN)|]. inversion E; subst. exact ST.
  - auto.
Qed.

Lemma set_pend_inv s p' i' n' :
  RInv0 s ->
  (forall a e, mget a p' = Some e ->
     (N.of_nat (length (p_store e)) <= maxCachedPackets)%N /\ 0 <= p_counter e <= r_retries cfg) ->
  RInv0 (mkRS (wh s) p' i' n' (rser s) (tr s)).
Proof. intros [W S ND Q SH] Q'. constructor; cbn [wh tr rser pend]; assumption. Qed.

(* handleOutbound *)
Lemma handle_inv a lh s : RInv0 s ->
  RInv0 (fst (handle cfg a lh s)) /\ w_exp (wh (fst (handle cfg a lh s))) = w_exp (wh s).
Proof.
  intros H. unfold handle. destruct (mget a (pend s)) as [e|] eqn:E; [|auto].
  destruct (ri_q _ H _ _ E) as [Q1 Q2].
  destruct (Z.leb_spec (r_retries cfg) (p_counter e)) as [L|L]; cbn [fst].
  - split; [|reflexivity]. unfold drop. apply set_pend_inv; [assumption|].
    intros b eb. rewrite mget_mdel. destruct (N.eqb b a); [discriminate|]. apply (ri_q _ H).
  - set (c := p_counter e + 1).
    assert (P : forall e', p_store e' = p_store e -> p_counter e' = c ->
              forall b eb, mget b (mset a e' (pend s)) = Some eb ->
              (N.of_nat (length (p_store eb)) <= maxCachedPackets)%N /\ 0 <= p_counter eb <= r_retries cfg).
    { intros e' S1 S2 b eb. rewrite mget_mset. destruct (N.eqb b a).
      - intros X. inversion X; subst eb. rewrite S1, S2. unfold c. split; [assumption|lia].
      - apply (ri_q _ H). }
    destruct (lh && negb (negb (nl_eqb (p_remotes e) (p_last e)))); cbn [fst].
    + split; [|reflexivity]. apply set_pend_inv; [assumption|]. now apply P.
    + set (s1 := mkRS (wh s) _ _ (rnxt s) (rser s) (tr s)).
      assert (H1 : RInv0 s1) by (apply set_pend_inv; [assumption|now apply P]).
      destruct lh; [split; [assumption|reflexivity]|].
      destruct (arm_inv a (r_interval cfg * c) s1 H1) as (A & B & _); [|split; [assumption|exact B]].
      exists c. unfold c. split; [reflexivity|]. lia.
Qed.

(* the Purge loop *)
Lemma drain_inv fuel : forall s, RInv0 s -> (length (w_exp (wh s)) <= fuel)%nat ->
  RInv0 (fst (drain cfg fuel s)) /\ w_exp (wh (fst (drain cfg fuel s))) = [].
Proof.
  induction fuel as [|f IH]; intros s H L; cbn [drain].
  - split; [assumption|]. cbn [fst]. destruct (w_exp (wh s)); [reflexivity|cbn in L; lia].
  - unfold purge. destruct (w_exp (wh s)) as [|[a k] r] eqn:E; cbn [fst].
    + auto.
    + set (s1 := set_wh s (set_exp (wh s) r) OPurge).
      assert (H1 : RInv0 s1).
      { destruct H as [W S ND Q SH]. unfold s1, set_wh. constructor; cbn [wh tr rser pend].
        - rewrite exec_snoc, <- W. cbn [step]. unfold purge. now rewrite E.
        - intros b j. rewrite adds_snoc. cbn [adds]. rewrite app_nil_r. apply S.
        - rewrite adds_snoc. cbn [adds]. now rewrite app_nil_r.
        - exact Q.
        - intros x T IN. apply in_app_or in IN as [IN|[D|[]]]; [exact (SH _ _ IN)|discriminate]. }
      destruct (handle_inv a false s1 H1) as [H2 X2].
      destruct (handle cfg a false s1) as [s2 o] eqn:HE. cbn [fst] in H2, X2.
      assert (L2 : (length (w_exp (wh s2)) <= f)%nat).
      { rewrite X2. unfold s1, set_wh. cbn [wh w_exp set_exp]. cbn in L. lia. }
      destruct (IH s2 H2 L2) as [H3 X3]. destruct (drain cfg f s2) as [s3 o']. exact (conj H3 X3).
Qed.

Lemma tick_inv now s : RInv s -> RInv (fst (tick cfg now s)).
Proof.
  intros [H X]. unfold tick.
  set (s1 := set_wh s (advance now (wh s)) (OAdvance now)).
  assert (H1 : RInv0 s1).
  { destruct H as [W S ND Q SH]. unfold s1, set_wh. constructor; cbn [wh tr rser pend].
    - rewrite exec_snoc, <- W. reflexivity.
    - intros b j. rewrite adds_snoc. cbn [adds]. rewrite app_nil_r. apply S.
    - rewrite adds_snoc. cbn [adds]. now rewrite app_nil_r.
    - exact Q.
    - intros x T IN. apply in_app_or in IN as [IN|[D|[]]]; [exact (SH _ _ IN)|discriminate]. }
  exact (drain_inv _ s1 H1 (le_n _)).
Qed.

Lemma cache_bound e p : (N.of_nat (length (p_store e)) <= maxCachedPackets)%N ->
  (N.of_nat (length (p_store (cache e p))) <= maxCachedPackets)%N /\ p_counter (cache e p) = p_counter e.
Proof.
  intros B. unfold cache. destruct (N.ltb_spec (N.of_nat (length (p_store e))) maxCachedPackets) as [L|L].
  - cbn [p_store p_counter]. rewrite app_length. cbn [length]. split; [lia|reflexivity].
  - auto.
Qed.

Lemma fresh_inv a remotes store s :
  RInv0 s -> (N.of_nat (length store) <= maxCachedPackets)%N ->
  RInv0 (fresh cfg a remotes store s) /\ w_exp (wh (fresh cfg a remotes store s)) = w_exp (wh s).
Proof.
  intros H B. unfold fresh.
  set (s1 := mkRS (wh s) _ (ridx s) (N.succ (rnxt s)) (rser s) (tr s)).
  assert (H1 : RInv0 s1).
  { apply set_pend_inv; [assumption|]. intros b eb. rewrite mget_mset. destruct (N.eqb b a).
    - intros X. inversion X; subst eb. cbn [p_store p_counter]. destruct OK. split; [assumption|lia].
    - apply (ri_q _ H). }
  destruct (arm_inv a (r_interval cfg) s1 H1) as (A & B' & _); [|split; [assumption|exact B']].
  exists 1. split; [lia|]. split; [lia|now right].
Qed.

Lemma drop_inv a e s : RInv0 s -> RInv0 (drop a e s).
Proof.
  intros H. unfold drop. apply set_pend_inv; [assumption|].
  intros b eb. rewrite mget_mdel. destruct (N.eqb b a); [discriminate|]. apply (ri_q _ H).
Qed.

Lemma cache_op_inv a p s : RInv s -> RInv (cache_op cfg a p s).
Proof.
  intros [H X]. unfold cache_op. destruct (mget a (pend s)) as [e|] eqn:E.
  - split; [|exact X]. apply set_pend_inv; [assumption|]. intros b eb. rewrite mget_mset. destruct (N.eqb b a).
    + intros Y. inversion Y; subst eb. destruct (ri_q _ H _ _ E) as [Q1 Q2].
      destruct (cache_bound e p Q1) as [C1 C2]. rewrite C2. auto.
    + apply (ri_q _ H).
  - destruct (fresh_inv a [] [] s H) as [A B]; [cbn; lia|].
    set (s1 := fresh cfg a [] [] s) in *. destruct (mget a (pend s1)) as [e|] eqn:E1.
    + split; [|cbn [wh]; congruence]. apply set_pend_inv; [assumption|]. intros b eb. rewrite mget_mset. destruct (N.eqb b a).
      * intros Y. inversion Y; subst eb. destruct (ri_q _ A _ _ E1) as [Q1 Q2].
        destruct (cache_bound e p Q1) as [C1 C2]. rewrite C2. auto.
      * apply (ri_q _ A).
    + split; [assumption|congruence].
Qed.

Lemma complete_op_inv a s : RInv s -> RInv (fst (complete_op cfg a s)).
Proof.
  intros [H X]. unfold complete_op. destruct (mget a (pend s)) as [e|]; [|now split]. destruct (p_ready e); [|now split].
  cbn [fst]. split; [now apply drop_inv|exact X].
Qed.

Lemma wrong_op_inv a v s : RInv s -> RInv (fst (wrong_op cfg a v s)).
Proof.
  intros [H X]. unfold wrong_op. destruct (mget a (pend s)) as [e|] eqn:E; [|now split]. destruct (p_ready e); [|now split].
  cbn [fst]. destruct (fresh_inv a (filter (fun u => negb (N.eqb u v)) (p_remotes e)) (p_store e) (drop a e s)) as [A B].
  - now apply drop_inv.
  - apply (ri_q _ H _ _ E).
  - split; [assumption|]. rewrite B. exact X.
Qed.

Theorem rinv_step o s : RInv s -> RInv (fst (rstep cfg o s)).
Proof.
  intros HX. pose proof HX as [H X]. destruct o; cbn [rstep].
  - (* RStart *) destruct (mget a (pend s)); [now split|]. cbn [fst].
    destruct (fresh_inv a remotes [] s H) as [A B]; [cbn; lia|]. split; [assumption|congruence].
  - (* RCache *) cbn [fst]. now apply cache_op_inv.
  - (* RSetRemotes *) destruct (mget a (pend s)) as [e|] eqn:E; [|now split]. cbn [fst]. split; [|exact X].
    apply set_pend_inv; [assumption|]. intros b eb. rewrite mget_mset. destruct (N.eqb b a).
    + intros Y. inversion Y; subst eb. cbn [p_store p_counter]. apply (ri_q _ H _ _ E).
    + apply (ri_q _ H).
  - (* RTrigger *) destruct (handle_inv a true s H) as [A B]. split; [assumption|congruence].
  - (* RTick *) apply tick_inv. now split.
  - (* RComplete *) now apply complete_op_inv.
  - (* RWrong *) now apply wrong_op_inv.
  - (* RCompleteQ *) destruct (answerable a s); [|exact HX]. apply complete_op_inv. now apply cache_op_inv.
  - (* RWrongQ *) destruct (answerable a s); [|exact HX]. apply wrong_op_inv. now apply cache_op_inv.
  - (* RRespQ *) cbn [fst]. now apply cache_op_inv.
Qed.

Lemma rinv_run ops : forall s, RInv s -> RInv (rrun cfg s ops).
Proof. induction ops as [|o r IH]; intros s H; cbn [rrun]; [assumption|]. apply IH, rinv_step, H. Qed.

Theorem rinv_reachable ops : RInv (rrun cfg (rinit cfg) ops).
Proof. apply rinv_run, rinv_init. Qed.

End Inv.

(* C16, layers below the protocol table: local-CIDR node, rule node, CA node, port map. One "monotone-or" lemma
   per layer (DESIGN.md Appendix A.2): adding rule r to a node adds exactly r's own condition to what matches. *)
From Coq Require Import List NArith ZArith Bool Lia Btauto.
Import ListNotations.
From NV Require Import lib.Corr lib.Ip gen.Consts_Firewall model.Firewall.
Open Scope N_scope.

Lemma str_eqb_eq a b : str_eqb a b = true <-> a = b.
Proof. apply list_eqb_eq. intros; apply N.eqb_eq. Qed.

Lemma Zeqb_eq a b : Z.eqb a b = true <-> a = b.
Proof. apply Z.eqb_eq. Qed.

(* generic map layer: a Go map whose values are matched after an exact-key lookup *)
Section MapLayer.
  Context {K V : Type} (eqb : K -> K -> bool) (eqb_eq : forall a b, eqb a b = true <-> a = b) (mt : V -> bool).
  Definition omt (o : option V) : bool := match o with Some v => mt v | None => false end.
  Lemma map_layer k k' v' m x :
    mt v' = omt (aget eqb k m) || x ->
    omt (aget eqb k' (aset eqb k v' m)) = omt (aget eqb k' m) || (eqb k k' && x).
  Proof.
    intros H. rewrite (aget_aset eqb eqb_eq). destruct (eqb k k') eqn:E; simpl.
    - apply eqb_eq in E; subst k'. exact H.
    - now rewrite orb_false_r.
  Qed.
End MapLayer.

Section Fixed.
  Variables (cf : fwconf) (incoming : bool) (pkt : packet) (pr : peer) (pl : pool).

  (* ---- local CIDR node ---- *)
  Definition lsel_ok (sel : csel) : bool :=
    match sel with
    | CAny => true
    | CNone => if negb (nonempty (my_unsafe cf)) || dlca cf then true else any_contains (my_nets cf) (pk_local pkt)
    | CPfx p => contains p (pk_local pkt)
    | CBad => false
    end.

  Lemma fold_insert_contains l : forall s a,
    any_contains (fold_left (fun s n => lite_insert n s) l s) a = any_contains s a || any_contains l a.
  Proof.
    induction l as [|n l IH]; intros s a; simpl; [now rewrite orb_false_r|].
    rewrite IH, any_contains_insert. change (any_contains (n :: l) a) with (contains n a || any_contains l a).
    destruct (contains n a), (any_contains s a), (any_contains l a); reflexivity.
  Qed.

  Lemma lc_add_match sel lc lc' :
    lc_add cf sel lc = Some lc' -> lc_match lc' pkt = lc_match lc pkt || lsel_ok sel.
  Proof.
    unfold lc_add, lc_match, lsel_ok. destruct sel as [| |p|]; intros H.
    - destruct (negb (nonempty (my_unsafe cf)) || dlca cf); inversion H; subst; cbn [lc_any lc_set].
      + now rewrite orb_true_r.
      + rewrite fold_insert_contains. now rewrite orb_assoc.
    - inversion H; subst; cbn [lc_any lc_set]. now rewrite orb_true_r.
    - inversion H; subst; cbn [lc_any lc_set]. rewrite any_contains_insert.
      destruct (lc_any lc), (contains p (pk_local pkt)), (any_contains (lc_set lc) (pk_local pkt)); reflexivity.
    - discriminate.
  Qed.

  Lemma lc_empty_match : lc_match lc_empty pkt = false.
  Proof. reflexivity. Qed.

  Lemma lc_add_odef sel o lc' :
    lc_add cf sel (odef lc_empty o) = Some lc' -> lc_match lc' pkt = olc_match o pkt || lsel_ok sel.
  Proof. intros H. rewrite (lc_add_match _ _ _ H). now destruct o. Qed.

  (* ---- rule node ---- *)
  Lemma supernets_existsb (t : @tbl lcidr) :
    existsb (fun lc => lc_match lc pkt) (tbl_supernets (pk_remote pkt) t) =
    existsb (fun kv => contains (fst kv) (pk_remote pkt) && lc_match (snd kv) pkt) t.
  Proof.
    unfold tbl_supernets. induction t as [|[k v] t IH]; simpl; [reflexivity|].
    destruct (contains k (pk_remote pkt)); simpl; now rewrite IH.
  Qed.

  Definition rsel (r : rule) : bool := local_ok cf r pkt && sel_ok r pkt pr.

  Lemma local_ok_lsel r : local_ok cf r pkt = lsel_ok (r_local r).
  Proof. reflexivity. Qed.

  Lemma rn_add_match r rn rn' :
    rn_add cf r rn = Some rn' -> rn_match rn' pkt pr = rn_match rn pkt pr || rsel r.
  Proof.
    unfold rn_add, rsel, sel_ok. rewrite local_ok_lsel.
    destruct (is_any (r_groups r) (r_host r) (r_cidr r)) eqn:EA.
    - destruct (lc_add cf (r_local r) (odef lc_empty (rn_any rn))) as [lc|] eqn:EL; [|discriminate].
      intros H; inversion H; subst; clear H. unfold rn_match; cbn [rn_any rn_groups rn_hosts rn_cidr olc_match].
      rewrite (lc_add_odef _ _ _ EL). btauto.
    - (* groups *)
      set (G := existsb (fun g => groups_all (fst g) pr && lc_match (snd g) pkt) (rn_groups rn)).
      set (H0 := olc_match (aget str_eqb (p_name pr) (rn_hosts rn)) pkt).
      set (L := lsel_ok (r_local r)).
      destruct (if nonempty (r_groups r) then
                  match lc_add cf (r_local r) lc_empty with
                  | Some lc => Some (rn_groups rn ++ [(r_groups r, lc)]) | None => None end
                else Some (rn_groups rn)) as [gs|] eqn:EG; [|discriminate].
      assert (HG : existsb (fun g => groups_all (fst g) pr && lc_match (snd g) pkt) gs
                   = G || (groups_all (r_groups r) pr && L)).
      { destruct (nonempty (r_groups r)) eqn:EN.
        - destruct (lc_add cf (r_local r) lc_empty) as [lc|] eqn:EL; [|discriminate].
          inversion EG; subst gs. rewrite existsb_app. simpl. rewrite orb_false_r.
          rewrite (lc_add_match _ _ _ EL). reflexivity.
        - inversion EG; subst gs. unfold groups_all. rewrite EN. simpl. now rewrite orb_false_r. }
      destruct (if nonempty (r_host r) then
                  match lc_add cf (r_local r) (odef lc_empty (aget str_eqb (r_host r) (rn_hosts rn))) with
                  | Some lc => Some (aset str_eqb (r_host r) lc (rn_hosts rn)) | None => None end
                else Some (rn_hosts rn)) as [hs|] eqn:EH; [|discriminate].
      assert (HH : olc_match (aget str_eqb (p_name pr) hs) pkt
                   = H0 || (nonempty (r_host r) && str_eqb (r_host r) (p_name pr) && L)).
      { destruct (nonempty (r_host r)) eqn:EN.
        - destruct (lc_add cf (r_local r) (odef lc_empty (aget str_eqb (r_host r) (rn_hosts rn)))) as [lc|] eqn:EL;
            [|discriminate].
          inversion EH; subst hs. simpl.
          apply (map_layer str_eqb str_eqb_eq (fun lc => lc_match lc pkt)).
          apply (lc_add_odef _ _ _ EL).
        - inversion EH; subst hs. simpl. now rewrite orb_false_r. }
      set (C := existsb (fun lc => lc_match lc pkt) (tbl_supernets (pk_remote pkt) (rn_cidr rn))).
      destruct (match r_cidr r with
                | CPfx p => match lc_add cf (r_local r) (odef lc_empty (tbl_get p (rn_cidr rn))) with
                            | Some lc => Some (tbl_insert p lc (rn_cidr rn)) | None => None end
                | CBad => None
                | _ => Some (rn_cidr rn) end) as [cs|] eqn:EC; [|discriminate].
      assert (HC : existsb (fun lc => lc_match lc pkt) (tbl_supernets (pk_remote pkt) cs)
                   = C || (match r_cidr r with CPfx p => contains p (pk_remote pkt) | _ => false end && L)).
      { destruct (r_cidr r) as [| |p|] eqn:ER.
        - inversion EC; subst cs. simpl. now rewrite orb_false_r.
        - inversion EC; subst cs. simpl. now rewrite orb_false_r.
        - destruct (lc_add cf (r_local r) (odef lc_empty (tbl_get p (rn_cidr rn)))) as [lc|] eqn:EL; [|discriminate].
          inversion EC; subst cs. unfold C. rewrite !supernets_existsb. unfold tbl_insert.
          rewrite <- (contains_masked p).
          apply (existsb_aset pfx_eqb pfx_eqb_eq (fun k v => contains k (pk_remote pkt) && lc_match v pkt)).
          rewrite (lc_add_odef _ _ _ EL). unfold tbl_get.
          destruct (aget pfx_eqb (masked p) (rn_cidr rn)); simpl.
          + now rewrite andb_orb_distrib_r.
          + reflexivity.
        - discriminate. }
      intros H; inversion H; subst; clear H. unfold rn_match; cbn [rn_any rn_groups rn_hosts rn_cidr].
      rewrite HG, HH, HC. fold G H0 C.
      generalize (match r_cidr r with CPfx p => contains p (pk_remote pkt) | _ => false end). intros b. btauto.
  Qed.

  Lemma rn_empty_match : rn_match rn_empty pkt pr = false.
  Proof. reflexivity. Qed.

  Lemma rn_add_odef r o rn' :
    rn_add cf r (odef rn_empty o) = Some rn' -> rn_match rn' pkt pr = orn_match o pkt pr || rsel r.
  Proof. intros H. rewrite (rn_add_match _ _ _ H). now destruct o. Qed.

  (* ---- CA node ---- *)
  Definition casel (r : rule) : bool := ca_ok r pr pl && rsel r.

  Lemma ca_add_match r ca ca' :
    ca_add cf r ca = Some ca' -> ca_match ca' pkt pr pl = ca_match ca pkt pr pl || casel r.
  Proof.
    unfold ca_add, casel, ca_ok.
    destruct (negb (nonempty (r_ca_sha r)) && negb (nonempty (r_ca_name r))) eqn:E0.
    - destruct (rn_add cf r (odef rn_empty (ca_any ca))) as [rn|] eqn:ER; [|discriminate].
      intros H; inversion H; subst; clear H. unfold ca_match; cbn [ca_any ca_names ca_shas orn_match].
      rewrite (rn_add_odef _ _ _ ER).
      generalize (match pool_ca_name pl (p_issuer pr) with
                  | Some n => orn_match (aget str_eqb n (ca_names ca)) pkt pr | None => false end).
      generalize (match pool_ca_name pl (p_issuer pr) with
                  | Some n => str_eqb (r_ca_name r) n | None => false end).
      intros b1 b2. btauto.
    - set (S0 := orn_match (aget str_eqb (p_issuer pr) (ca_shas ca)) pkt pr).
      destruct (if nonempty (r_ca_sha r) then
                  match rn_add cf r (odef rn_empty (aget str_eqb (r_ca_sha r) (ca_shas ca))) with
                  | Some rn => Some (aset str_eqb (r_ca_sha r) rn (ca_shas ca)) | None => None end
                else Some (ca_shas ca)) as [shas|] eqn:ES; [|discriminate].
      assert (HS : orn_match (aget str_eqb (p_issuer pr) shas) pkt pr
                   = S0 || (nonempty (r_ca_sha r) && str_eqb (r_ca_sha r) (p_issuer pr) && rsel r)).
      { destruct (nonempty (r_ca_sha r)) eqn:EN.
        - destruct (rn_add cf r (odef rn_empty (aget str_eqb (r_ca_sha r) (ca_shas ca)))) as [rn|] eqn:ER;
            [|discriminate].
          inversion ES; subst shas. simpl.
          apply (map_layer str_eqb str_eqb_eq (fun rn => rn_match rn pkt pr)).
          apply (rn_add_odef _ _ _ ER).
        - inversion ES; subst shas. simpl. now rewrite orb_false_r. }
      destruct (if nonempty (r_ca_name r) then
                  match rn_add cf r (odef rn_empty (aget str_eqb (r_ca_name r) (ca_names ca))) with
                  | Some rn => Some (aset str_eqb (r_ca_name r) rn (ca_names ca)) | None => None end
                else Some (ca_names ca)) as [names|] eqn:EN'; [|discriminate].
      assert (HN : forall n, orn_match (aget str_eqb n names) pkt pr
                   = orn_match (aget str_eqb n (ca_names ca)) pkt pr
                     || (nonempty (r_ca_name r) && str_eqb (r_ca_name r) n && rsel r)).
      { intros n. destruct (nonempty (r_ca_name r)) eqn:EN.
        - destruct (rn_add cf r (odef rn_empty (aget str_eqb (r_ca_name r) (ca_names ca)))) as [rn|] eqn:ER;
            [|discriminate].
          inversion EN'; subst names. simpl.
          apply (map_layer str_eqb str_eqb_eq (fun rn => rn_match rn pkt pr)).
          apply (rn_add_odef _ _ _ ER).
        - inversion EN'; subst names. simpl. now rewrite orb_false_r. }
      intros H; inversion H; subst; clear H. unfold ca_match; cbn [ca_any ca_names ca_shas].
      rewrite HS. fold S0.
      assert (E0' : negb (nonempty (r_ca_sha r)) && negb (nonempty (r_ca_name r)) = false) by exact E0.
      destruct (pool_ca_name pl (p_issuer pr)) as [n|].
      + rewrite HN. revert E0'.
        generalize (orn_match (aget str_eqb n (ca_names ca)) pkt pr). intros b.
        destruct (nonempty (r_ca_sha r)), (nonempty (r_ca_name r)); cbn [negb andb]; intros E0'; try discriminate; btauto.
      + revert E0'.
        destruct (nonempty (r_ca_sha r)), (nonempty (r_ca_name r)); cbn [negb andb]; intros E0'; try discriminate; btauto.
  Qed.

  Lemma ca_empty_match : ca_match ca_empty pkt pr pl = false.
  Proof. unfold ca_match; simpl. now destruct (pool_ca_name pl (p_issuer pr)). Qed.

  Lemma ca_add_odef r o ca' :
    ca_add cf r (odef ca_empty o) = Some ca' -> ca_match ca' pkt pr pl = oca_match o pkt pr pl || casel r.
  Proof.
    intros H. rewrite (ca_add_match _ _ _ H). destruct o; simpl; [reflexivity|]. now rewrite ca_empty_match.
  Qed.

  (* ---- port map ---- *)
  Lemma port_loop_match r n : forall i pm pm' q,
    port_add_loop cf r n i pm = Some pm' ->
    oca_match (aget Z.eqb q pm') pkt pr pl =
    oca_match (aget Z.eqb q pm) pkt pr pl || (((i <=? q) && (q <? i + Z.of_nat n))%Z && casel r).
  Proof.
    induction n as [|n IH]; intros i pm pm' q H; simpl in H.
    - inversion H; subst.
      replace ((i <=? q) && (q <? i + Z.of_nat 0))%Z with false; [now rewrite orb_false_r|].
      symmetry. apply andb_false_iff. destruct (Z.leb_spec i q); [right; apply Z.ltb_ge; lia|now left].
    - destruct (ca_add cf r (odef ca_empty (aget Z.eqb i pm))) as [ca|] eqn:EC; [|discriminate].
      rewrite (IH _ _ _ q H).
      assert (HM : oca_match (aget Z.eqb q (aset Z.eqb i ca pm)) pkt pr pl
                   = oca_match (aget Z.eqb q pm) pkt pr pl || ((i =? q)%Z && casel r))
        by exact (map_layer Z.eqb Zeqb_eq (fun ca => ca_match ca pkt pr pl) i q ca pm (casel r) (ca_add_odef _ _ _ EC)).
      rewrite HM.
      assert (E : ((i <=? q) && (q <? i + Z.of_nat (S n)))%Z
                  = ((i =? q)%Z || ((i + 1 <=? q) && (q <? i + 1 + Z.of_nat n))%Z)).
      { destruct (Z.eqb_spec i q), (Z.leb_spec i q), (Z.leb_spec (i + 1) q),
          (Z.ltb_spec q (i + Z.of_nat (S n))), (Z.ltb_spec q (i + 1 + Z.of_nat n)); simpl; try reflexivity; lia. }
      rewrite E. btauto.
  Qed.

  Definition port_cond (s e : Z) : bool :=
    in_range s e port_any || (negb (is_icmp (pk_proto pkt)) && in_range s e (pkt_port incoming pkt)).

  Lemma port_add_match r s e pm pm' :
    port_add cf r s e pm = Some pm' ->
    port_match pm' incoming pkt pr pl = port_match pm incoming pkt pr pl || (port_cond s e && casel r).
  Proof.
    unfold port_add. destruct (Z.ltb_spec e s) as [|Hle]; [discriminate|]. intros H.
    assert (R : forall q, (((s <=? q) && (q <? s + Z.of_nat (Z.to_nat (e - s + 1))))%Z) = in_range s e q).
    { intros q. unfold in_range. rewrite Z2Nat.id by lia.
      destruct (Z.leb_spec s q), (Z.ltb_spec q (s + (e - s + 1))), (Z.leb_spec q e); simpl; try reflexivity; lia. }
    unfold port_match, port_cond.
    rewrite !(port_loop_match _ _ _ _ _ _ H), !R.
    destruct (is_icmp (pk_proto pkt)); simpl.
    - now rewrite orb_false_r.
    - destruct (oca_match (aget Z.eqb (pkt_port incoming pkt) pm) pkt pr pl),
        (oca_match (aget Z.eqb port_any pm) pkt pr pl), (in_range s e (pkt_port incoming pkt)),
        (in_range s e port_any), (casel r); reflexivity.
  Qed.

End Fixed.

(* Lemmas about model/Reject.v, part 1: checksums, the shapes of the blocks the code builds, and the
   bounds-check-free ("pure") form of CreateRejectPacket that the model is proved equal to. *)
From Coq Require Import List NArith ZArith Lia Bool ZifyN ZifyNat ZifyBool.
Import ListNotations.
From NV Require Import lib.Bytes lib.Ones lib.Corr gen.Consts_IpParse gen.Consts_Reject
  model.IpParse model.Reject proofs.IpParse_proofs.
Open Scope N_scope.
Local Ltac Zify.zify_post_hook ::= Z.div_mod_to_equations.

(* ---------------------------------------------------------------------------------------------- *)
(** * Checksums *)

Lemma tcpip_checksum_csum16 data init :
  init + sum16 data < 4294967296 -> tcpip_checksum data init = csum16 data init.
Proof.
  intros H. unfold tcpip_checksum, csum16, osum, w32. rewrite N.mod_small by exact H.
  rewrite fold_loop_32 by (try exact H; lia).
  unfold w16. rewrite N.mod_small by apply fold16_lt. reflexivity.
Qed.

Lemma with_csum_valid pre post init :
  Nat.even (length pre) = true -> init + sum16 (pre ++ [0; 0] ++ post) < 4294967296 ->
  fold16 (init + sum16 (with_csum pre post init)) = 65535.
Proof.
  intros He Hb. unfold with_csum, be16. rewrite tcpip_checksum_csum16 by exact Hb.
  apply (csum_insert_valid pre post init He).
Qed.

Lemma with_csum_length pre post init : length (with_csum pre post init) = (length pre + 2 + length post)%nat.
Proof. unfold with_csum, be16, be16_bytes. rewrite !app_length. simpl. lia. Qed.

Lemma be16_ok v : bytes_ok (be16 v) = true.
Proof. apply be16_bytes_ok. Qed.

Lemma with_csum_bytes_ok pre post init :
  bytes_ok pre = true -> bytes_ok post = true -> bytes_ok (with_csum pre post init) = true.
Proof. intros H1 H2. unfold with_csum. rewrite !bytes_ok_app, H1, H2, be16_ok. reflexivity. Qed.

(* a crude bound that is enough everywhere: blocks are at most 1100 bytes *)
Lemma sum16_small l : bytes_ok l = true -> (length l <= 1100)%nat -> sum16 l <= 36109785.
Proof.
  intros Hb Hl. pose proof (sum16_bound_len l Hb) as H.
  assert ((N.of_nat (length l) + 1) / 2 <= 551) by lia. nia.
Qed.

Lemma be16_value v : v < 65536 -> be16_at (be16 v) 0 = v.
Proof. intros H. unfold be16_at, be16, be16_bytes. cbn [nth]. lia. Qed.

(* ---------------------------------------------------------------------------------------------- *)
(** * List plumbing *)

Lemma firstn_app_len {A} (a b : list A) n : n = length a -> firstn n (a ++ b) = a.
Proof. intros ->. rewrite firstn_app, Nat.sub_diag, firstn_all. simpl. apply app_nil_r. Qed.

Lemma skipn_app_len {A} (a b : list A) n : n = length a -> skipn n (a ++ b) = b.
Proof. intros ->. rewrite skipn_app, Nat.sub_diag, skipn_all. reflexivity. Qed.

Lemma nth_app_l (a b : list N) i : (i < length a)%nat -> nth i (a ++ b) 0 = nth i a 0.
Proof. intros H. now apply app_nth1. Qed.

Lemma slice_app_l (a b : list N) off n : (off + n <= length a)%nat -> slice (a ++ b) off n = slice a off n.
Proof.
  intros H. unfold slice. rewrite skipn_app. rewrite firstn_app.
  replace (n - length (skipn off a))%nat with 0%nat by (rewrite skipn_length; lia).
  simpl. apply app_nil_r.
Qed.

Lemma slice_length (l : list N) off n : (off + n <= length l)%nat -> length (slice l off n) = n.
Proof. intros H. unfold slice. rewrite firstn_length, skipn_length. lia. Qed.

Lemma slice_bytes_ok (l : list N) off n : bytes_ok l = true -> bytes_ok (slice l off n) = true.
Proof. intros H. unfold slice. apply bytes_ok_firstn, bytes_ok_skipn, H. Qed.

Lemma slice_full (l : list N) : slice l 0 (length l) = l.
Proof. unfold slice. simpl. apply firstn_all. Qed.

Lemma list2 (l : list N) : length l = 2%nat -> exists a b, l = [a; b].
Proof. destruct l as [|a [|b [|c r]]]; simpl; intros H; try discriminate. eauto. Qed.

Lemma list4 (l : list N) : length l = 4%nat -> exists a b c d, l = [a; b; c; d].
Proof. destruct l as [|a [|b [|c [|d [|e r]]]]]; simpl; intros H; try discriminate. eauto 6. Qed.

Lemma slice4_nth (l : list N) i : (i + 4 <= length l)%nat ->
  slice l i 4 = [nth i l 0; nth (S i) l 0; nth (S (S i)) l 0; nth (S (S (S i))) l 0].
Proof.
  intros H. unfold slice. rewrite (skipn_nth_cons l i) by lia. rewrite (skipn_nth_cons l (S i)) by lia.
  rewrite (skipn_nth_cons l (S (S i))) by lia. rewrite (skipn_nth_cons l (S (S (S i)))) by lia. reflexivity.
Qed.

Lemma nlist_eqb_refl l : nlist_eqb l l = true.
Proof. now apply nlist_eqb_eq. Qed.

Lemma blen_app (a b : list N) : blen (a ++ b) = blen a + blen b.
Proof. unfold blen. rewrite app_length. lia. Qed.

(* ---------------------------------------------------------------------------------------------- *)
(** * Byte-level identities (decided on all 256 values) *)

Lemma flag_ack fl : fl < 256 -> negb (N.land fl 16 =? 0) = ((fl / 16) mod 2 =? 1).
Proof.
  intros H. apply (byte_forall (fun fl => Bool.eqb (negb (N.land fl 16 =? 0)) ((fl / 16) mod 2 =? 1)) eq_refl) in H.
  now apply eqb_prop in H.
Qed.
Lemma flag_syn fl : fl < 256 -> N.shiftr (N.land fl 2) 1 = (fl / 2) mod 2.
Proof.
  intros H. apply (byte_forall (fun fl => N.shiftr (N.land fl 2) 1 =? (fl / 2) mod 2) eq_refl) in H. now apply N.eqb_eq in H.
Qed.
Lemma flag_fin fl : fl < 256 -> N.land fl 1 = fl mod 2.
Proof.
  intros H. apply (byte_forall (fun fl => N.land fl 1 =? fl mod 2) eq_refl) in H. now apply N.eqb_eq in H.
Qed.
Lemma doff_words b : b < 256 -> N.shiftl (N.shiftr b 4) 2 = 4 * (b / 16).
Proof.
  intros H. apply (byte_forall (fun b => N.shiftl (N.shiftr b 4) 2 =? 4 * (b / 16)) eq_refl) in H. now apply N.eqb_eq in H.
Qed.
Lemma version_shift b : b < 256 -> N.shiftr b 4 = b / 16.
Proof.
  intros H. apply (byte_forall (fun b => N.shiftr b 4 =? b / 16) eq_refl) in H. now apply N.eqb_eq in H.
Qed.
Lemma land31 b : b < 256 -> N.land b 31 = b mod 32.
Proof. intros _. change 31 with (N.ones 5). now rewrite N.land_ones. Qed.

(* ---------------------------------------------------------------------------------------------- *)
(** * The blocks the code builds *)

Lemma byte_ok_lt b : b < 256 -> byte_ok b = true.
Proof. intros H. unfold byte_ok. now apply N.ltb_lt. Qed.

(* ICMP / ICMPv6 unreachable message *)
Lemma icmp_unreach_ok ty code body init :
  ty < 256 -> code < 256 -> bytes_ok body = true -> (length body <= 1000)%nat -> init < 4194304 ->
  let msg := icmp_unreach ty code body init in
  length msg = (8 + length body)%nat /\ bytes_ok msg = true /\
  icmp_ok ty code body msg = true /\ fold16 (init + sum16 msg) = 65535.
Proof.
  intros Hty Hcode Hb Hl Hi msg. unfold msg, icmp_unreach.
  assert (Hpre : bytes_ok [ty; code] = true).
  { cbn [bytes_ok forallb]. rewrite !byte_ok_lt by assumption. reflexivity. }
  assert (Hpost : bytes_ok ([0; 0; 0; 0] ++ body) = true) by (rewrite bytes_ok_app, Hb; reflexivity).
  split; [|split; [|split]].
  - rewrite with_csum_length, app_length. simpl. lia.
  - now apply with_csum_bytes_ok.
  - unfold with_csum, be16, be16_bytes, icmp_ok, slice. cbn [app nth skipn firstn].
    rewrite !N.eqb_refl, !nlist_eqb_refl. reflexivity.
  - apply with_csum_valid; [reflexivity|].
    assert (Hs : sum16 ([ty; code] ++ [0; 0] ++ [0; 0; 0; 0] ++ body) <= 36109785).
    { apply sum16_small.
      - rewrite !bytes_ok_app, Hpre, Hb. reflexivity.
      - rewrite !app_length. simpl. lia. }
    lia.
Qed.

(* IPv4 header *)
Lemma ip4_header_ok total proto s0 s1 s2 s3 d0 d1 d2 d3 :
  total < 65536 -> proto < 256 -> bytes_ok [s0; s1; s2; s3] = true -> bytes_ok [d0; d1; d2; d3] = true ->
  let h := ip4_header total proto [s0; s1; s2; s3] [d0; d1; d2; d3] in
  exists c1 c2,
    h = [69; 0; (total / 256) mod 256; total mod 256; 0; 0; 0; 0; 64; proto; c1; c2; s0; s1; s2; s3; d0; d1; d2; d3] /\
    bytes_ok h = true /\ valid_csum h.
Proof.
  intros Ht Hp Hs Hd h. unfold h, ip4_header.
  set (pre := [69; 0] ++ be16 (w16 total) ++ [0; 0; 0; 0; 64; proto]).
  set (post := [s0; s1; s2; s3] ++ [d0; d1; d2; d3]).
  assert (Hpre : bytes_ok pre = true).
  { unfold pre. rewrite !bytes_ok_app, be16_ok. cbn [bytes_ok forallb andb]. rewrite (byte_ok_lt proto) by assumption.
    reflexivity. }
  assert (Hpost : bytes_ok post = true) by (unfold post; rewrite bytes_ok_app, Hs, Hd; reflexivity).
  exists ((tcpip_checksum (pre ++ [0; 0] ++ post) 0 / 256) mod 256), (tcpip_checksum (pre ++ [0; 0] ++ post) 0 mod 256).
  split; [|split].
  - unfold with_csum, pre, post, be16, be16_bytes, w16. rewrite (N.mod_small total) by lia. reflexivity.
  - now apply with_csum_bytes_ok.
  - unfold valid_csum. rewrite <- (N.add_0_l (sum16 _)). apply with_csum_valid; [reflexivity|].
    assert (sum16 (pre ++ [0; 0] ++ post) <= 36109785); [|lia].
    apply sum16_small; [rewrite !bytes_ok_app, Hpre, Hpost; reflexivity|].
    unfold pre, post, be16, be16_bytes. simpl. lia.
Qed.

(* TCP reset *)
Definition tcp_rst_pure (tcp_in : list N) (init : N) : list N :=
  let fl := nth 13 tcp_in 0 in
  let doff := nth 12 tcp_in 0 in
  let in_ack := negb (N.land fl 16 =? 0) in
  let seq := if in_ack then be_dec (slice tcp_in 8 4) else 0 in
  let ack := if in_ack then 0
             else w32 (be_dec (slice tcp_in 4 4) + N.shiftr (N.land fl 2) 1 + N.land fl 1 + w32 (blen tcp_in) +
                       (4294967296 - N.shiftl (N.shiftr doff 4) 2)) in
  let flags := if in_ack then 4 else 20 in
  with_csum (slice tcp_in 2 2 ++ slice tcp_in 0 2 ++ be_enc 4 seq ++ be_enc 4 ack ++ [80; flags; 0; 0]) [0; 0] init.

Lemma tcp_rst_char tcp_in init : 20 <= blen tcp_in -> tcp_rst tcp_in init = Ok (tcp_rst_pure tcp_in init).
Proof.
  intros H. unfold tcp_rst, tcp_rst_pure. rewrite !rd_ok by lia. rewrite !rds_ok by lia. reflexivity.
Qed.

Lemma be_dec4_lt l : bytes_ok l = true -> length l = 4%nat -> be_dec l < 4294967296.
Proof. intros Hb Hl. pose proof (be_dec_bound l Hb) as H. rewrite Hl in H. exact H. Qed.

Lemma tcp_rst_pure_ok tcp_in init :
  bytes_ok tcp_in = true -> 20 <= blen tcp_in -> init < 4194304 ->
  let seg := tcp_rst_pure tcp_in init in
  length seg = 20%nat /\ bytes_ok seg = true /\ rst_ok tcp_in seg = true /\ fold16 (init + sum16 seg) = 65535.
Proof.
  intros Hb Hl Hi seg. unfold blen in Hl.
  assert (Hfl : nth 13 tcp_in 0 < 256) by now apply bytes_ok_nth.
  assert (Hdo : nth 12 tcp_in 0 < 256) by now apply bytes_ok_nth.
  unfold seg, tcp_rst_pure.
  assert (HS84 : bytes_ok (slice tcp_in 8 4) = true /\ length (slice tcp_in 8 4) = 4%nat)
    by (split; [now apply slice_bytes_ok|apply slice_length; lia]).
  assert (HS44 : bytes_ok (slice tcp_in 4 4) = true /\ length (slice tcp_in 4 4) = 4%nat)
    by (split; [now apply slice_bytes_ok|apply slice_length; lia]).
  remember (slice tcp_in 8 4) as S84 eqn:E84. remember (slice tcp_in 4 4) as S44 eqn:E44.
  set (fl := nth 13 tcp_in 0) in *. set (doff := nth 12 tcp_in 0) in *.
  set (seqv := if negb (N.land fl 16 =? 0) then be_dec S84 else 0).
  set (ackv := if negb (N.land fl 16 =? 0) then 0
               else w32 (be_dec S44 + N.shiftr (N.land fl 2) 1 + N.land fl 1 + w32 (blen tcp_in) +
                         (4294967296 - N.shiftl (N.shiftr doff 4) 2))).
  set (flags := if negb (N.land fl 16 =? 0) then 4 else 20).
  assert (Hflags : flags = 4 \/ flags = 20) by (unfold flags; destruct (negb (N.land fl 16 =? 0)); auto).
  set (pre := slice tcp_in 2 2 ++ slice tcp_in 0 2 ++ be_enc 4 seqv ++ be_enc 4 ackv ++ [80; flags; 0; 0]).
  assert (Hlen : length pre = 16%nat).
  { unfold pre. rewrite !app_length, !be_enc_length, !slice_length by lia. reflexivity. }
  assert (Hpre : bytes_ok pre = true).
  { unfold pre. rewrite !bytes_ok_app, !be_enc_bytes_ok, !slice_bytes_ok by assumption.
    destruct Hflags as [-> | ->]; reflexivity. }
  split; [|split; [|split]].
  - rewrite with_csum_length, Hlen. reflexivity.
  - apply with_csum_bytes_ok; [assumption|reflexivity].
  - (* the decoded reply *)
    assert (Hseq : be_dec (be_enc 4 seqv) = seqv).
    { rewrite be_dec_enc; [reflexivity|]. unfold seqv. destruct (negb (N.land fl 16 =? 0)); [|reflexivity].
      apply be_dec4_lt; tauto. }
    assert (Hack : be_dec (be_enc 4 ackv) = ackv).
    { rewrite be_dec_enc; [reflexivity|]. unfold ackv, w32. destruct (negb (N.land fl 16 =? 0)); [reflexivity|].
      apply N.mod_lt. discriminate. }
    destruct (list4 (be_enc 4 seqv) (be_enc_length 4 seqv)) as (e0 & e1 & e2 & e3 & HE).
    destruct (list4 (be_enc 4 ackv) (be_enc_length 4 ackv)) as (f0 & f1 & f2 & f3 & HF).
    rewrite HE in Hseq. rewrite HF in Hack.
    unfold rst_ok, be32_at. rewrite <- E84, <- E44.
    unfold with_csum, pre, be16, be16_bytes. rewrite HE, HF.
    rewrite !slice2 by lia.
    unfold blen, be16_at, slice. cbn [app nth skipn firstn length].
    rewrite Hseq, Hack. fold fl. fold doff.
    rewrite !N.eqb_refl. cbn [andb].
    rewrite <- flag_ack by assumption.
    unfold seqv, ackv, flags.
    destruct (negb (N.land fl 16 =? 0)).
    + rewrite !N.eqb_refl. reflexivity.
    + rewrite !N.eqb_refl. cbn [andb].
      rewrite flag_syn, flag_fin, doff_words by assumption.
      apply N.eqb_eq. unfold w32, blen.
      assert (nth 12 tcp_in 0 / 16 < 16) by (fold doff; lia).
      fold doff. lia.
  - apply with_csum_valid; [rewrite Hlen; reflexivity|].
    assert (sum16 (pre ++ [0; 0] ++ [0; 0]) <= 36109785); [|lia].
    apply sum16_small; [rewrite !bytes_ok_app, Hpre; reflexivity|]. rewrite !app_length, Hlen. simpl. lia.
Qed.

(* The invariant of model/HostMap.v and its preservation by the primitives of the main hostmap
   (delete, inner add with eviction, add, promote).  The ghost state [gst] classifies every hostinfo as
   Pend / Adding / Main / Dead; the ghost-free property statements are derived in HostMap_props.v. *)
From Coq Require Import List NArith Bool Lia.
Import ListNotations.
From NV Require Import gen.Consts_HostMap model.HostMap proofs.HostMap_maps proofs.HostMap_lists.
Open Scope N_scope.

Definition info (s : state) (h : N) : option hinfo := mget h (infos s).
Definition st_of (s : state) (h : N) : option hst := mget h (gst s).
Notation L := get_list.

Record Inv (s : state) : Prop := mkInv {
  i_sync : Sync s;
  i_nodup : forall a, NoDup (L s a);
  i_mem : forall a x, In x (L s a) ->
            exists hi, info s x = Some hi /\ In a (hi_addrs hi) /\ (st_of s x = Some Main \/ st_of s x = Some Adding);
  i_main_lists : forall h hi a, info s h = Some hi -> st_of s h = Some Main -> In a (hi_addrs hi) -> In h (L s a);
  i_main_idx : forall h hi, info s h = Some hi -> st_of s h = Some Main -> mget (hi_local hi) (idx s) = Some h;
  i_idx : forall i h, mget i (idx s) = Some h ->
            exists hi, info s h = Some hi /\ hi_local hi = i /\ st_of s h = Some Main;
  i_ridx : forall r h, mget r (ridx s) = Some h ->
            exists hi, info s h = Some hi /\ hi_remote hi = r /\ st_of s h = Some Main;
  i_rel : forall r h, mget r (rel s) = Some h ->
            exists hi, info s h = Some hi /\ In r (hi_relays hi) /\ st_of s h = Some Main;
  i_main_rel : forall h hi r, info s h = Some hi -> st_of s h = Some Main -> In r (hi_relays hi) ->
            mget r (rel s) = Some h;
  i_adding : forall h hi, info s h = Some hi -> st_of s h = Some Adding ->
            mget (hi_local hi) (idx s) = None /\ mget (hi_local hi) (pidx s) = None /\ hi_local hi <> 0 /\
            hi_relays hi = [];
  i_adding_uniq : forall x y, st_of s x = Some Adding -> st_of s y = Some Adding -> x = y;
  i_zero : mget 0 (idx s) = None /\ mget 0 (pidx s) = None /\ mget 0 (rel s) = None;
  i_disj : forall i h, mget i (idx s) = Some h -> mget i (pidx s) = None;
  i_pvpn : forall a h, mget a (pvpn s) = Some h ->
            exists hi, info s h = Some hi /\ hi_addrs hi = [a] /\ st_of s h = Some Pend;
  i_pidx : forall i h, mget i (pidx s) = Some h ->
            exists hi, info s h = Some hi /\ hi_local hi = i /\ st_of s h = Some Pend;
  i_pend_norel : forall h hi, info s h = Some hi -> st_of s h = Some Pend -> hi_relays hi = [];
  i_ghost : forall y, st_of s y <> None -> info s y <> None
}.

Definition Len (s : state) : Prop := forall a, N.of_nat (length (L s a)) <= MaxHostInfosPerVpnIp.
Definition NoAdding (s : state) : Prop := forall y, st_of s y <> Some Adding.
Definition Good (s : state) : Prop := Inv s /\ Len s /\ NoAdding s.

Ltac inv_destruct H :=
  destruct H as [SY ND MEM ML MI IX RX RL MR AD AU [Z1 [Z2 Z3]] DJ PV PX PN GH].

(* ---------- ghost moves ---------------------------------------------------------------------- *)

Lemma hst_eqb_eq a b : hst_eqb a b = true <-> a = b.
Proof. destruct a, b; simpl; split; intros; congruence. Qed.

Lemma st_gset s h g x : st_of (gset h g s) x = if x =? h then Some g else st_of s x.
Proof. unfold st_of, gset. simpl. apply mget_mset. Qed.

Lemma st_gmove s h g1 g2 x :
  st_of (gmove h g1 g2 s) x =
  if (x =? h) && (match st_of s h with Some g => hst_eqb g g1 | None => false end) then Some g2 else st_of s x.
Proof.
  unfold gmove. fold (st_of s h). destruct (st_of s h) as [g|] eqn:E.
  - destruct (hst_eqb g g1).
    + rewrite st_gset. now rewrite andb_true_r.
    + now rewrite andb_false_r.
  - now rewrite andb_false_r.
Qed.

Lemma mget_mdel_none {V} k j (m : amap V) : mget j m = None -> mget j (mdel k m) = None.
Proof. intros H. rewrite mget_mdel. now destruct (j =? k). Qed.

(* ---------- unlockedDeleteHostInfo preserves the invariant -------------------------------------- *)

Section Delete.
  Variables (s s' : state) (h : N) (hi : hinfo) (f : bool).
  Hypothesis IV : Inv s.
  Hypothesis HI : info s h = Some hi.
  Hypothesis NA : st_of s h <> Some Adding.
  Hypothesis DEL : delete_hi h s = (s', f).

  Lemma SPEC :
    (forall b, get_list s' b = if mem b (hi_addrs hi) then remove_first h (get_list s b) else get_list s b) /\
    f = forallb (fun a => is_nil (remove_first h (get_list s a))) (hi_addrs hi) /\
    (Sync s -> Sync s') /\
    infos s' = infos s /\ pvpn s' = pvpn s /\ pidx s' = pidx s /\
    idx s' = (if is_some_id (mget (hi_local hi) (idx s)) h then mdel (hi_local hi) (idx s) else idx s) /\
    ridx s' = (if is_some_id (mget (hi_remote hi) (ridx s)) h then mdel (hi_remote hi) (ridx s) else ridx s) /\
    rel s' = del_rels h (hi_relays hi) (rel s) /\
    gst s' = gst (gmove h Main Dead s).
  Proof. exact (delete_hi_spec h s hi s' f HI (i_nodup s IV) DEL). Qed.

  Lemma del_infos : infos s' = infos s. Proof. apply SPEC. Qed.
  Lemma del_pvpn : pvpn s' = pvpn s. Proof. apply SPEC. Qed.
  Lemma del_pidx : pidx s' = pidx s. Proof. apply SPEC. Qed.

  Lemma del_info x : info s' x = info s x.
  Proof. unfold info. now rewrite del_infos. Qed.

  Lemma del_st x :
    st_of s' x = if (x =? h) && (match st_of s h with Some g => hst_eqb g Main | None => false end)
                 then Some Dead else st_of s x.
  Proof.
    destruct SPEC as (_ & _ & _ & _ & _ & _ & _ & _ & _ & EG). unfold st_of at 1. rewrite EG. apply st_gmove.
  Qed.

  Lemma del_st_other x : x <> h -> st_of s' x = st_of s x.
  Proof. intros N. rewrite del_st. destruct (N.eqb_spec x h); [contradiction|reflexivity]. Qed.

  Lemma del_st_h_main : st_of s h = Some Main -> st_of s' h = Some Dead.
  Proof. intros E. rewrite del_st, E, N.eqb_refl. reflexivity. Qed.

  Lemma del_st_h_other : st_of s h <> Some Main -> st_of s' h = st_of s h.
  Proof.
    intros E. rewrite del_st, N.eqb_refl. simpl. destruct (st_of s h) as [g|]; [|reflexivity].
    destruct (hst_eqb g Main) eqn:X; [|reflexivity]. apply hst_eqb_eq in X. congruence.
  Qed.

  (* delete only ever creates Dead *)
  Lemma del_st_back x g : st_of s' x = Some g -> g <> Dead -> st_of s x = Some g.
  Proof.
    rewrite del_st. destruct ((x =? h) && _); [intros E; inversion E; congruence|auto].
  Qed.

  Lemma del_st_fwd x g : st_of s x = Some g -> g <> Main -> st_of s' x = Some g.
  Proof.
    intros E N. destruct (N.eqb_spec x h) as [->|NE].
    - rewrite del_st_h_other; congruence.
    - now rewrite del_st_other.
  Qed.

  Lemma del_dead_stays x : st_of s x = Some Dead -> st_of s' x = Some Dead.
  Proof. intros E. apply del_st_fwd; [assumption|discriminate]. Qed.

  Lemma h_in_list_addr a : In h (L s a) -> In a (hi_addrs hi).
  Proof.
    intros H. destruct (i_mem s IV _ _ H) as (hi' & E & A & _). rewrite HI in E. inversion E; subst. assumption.
  Qed.

  Lemma del_list b : L s' b = remove_first h (L s b).
  Proof.
    destruct SPEC as (LL & _). rewrite LL. destruct (mem b (hi_addrs hi)) eqn:E; [reflexivity|].
    symmetry. apply rf_notin. intros H. apply h_in_list_addr in H. apply mem_false in E. contradiction.
  Qed.

  Lemma del_idx_get i :
    mget i (idx s') = if (i =? hi_local hi) && is_some_id (mget (hi_local hi) (idx s)) h then None else mget i (idx s).
  Proof.
    destruct SPEC as (_ & _ & _ & _ & _ & _ & EX & _). rewrite EX.
    destruct (is_some_id (mget (hi_local hi) (idx s)) h).
    - rewrite mget_mdel. now rewrite andb_true_r.
    - now rewrite andb_false_r.
  Qed.

  Lemma del_ridx_get r :
    mget r (ridx s') = if (r =? hi_remote hi) && is_some_id (mget (hi_remote hi) (ridx s)) h then None else mget r (ridx s).
  Proof.
    destruct SPEC as (_ & _ & _ & _ & _ & _ & _ & ER & _). rewrite ER.
    destruct (is_some_id (mget (hi_remote hi) (ridx s)) h).
    - rewrite mget_mdel. now rewrite andb_true_r.
    - now rewrite andb_false_r.
  Qed.

  Lemma del_rel_get r :
    mget r (rel s') = if mem r (hi_relays hi) && is_some_id (mget r (rel s)) h then None else mget r (rel s).
  Proof.
    destruct SPEC as (_ & _ & _ & _ & _ & _ & _ & _ & EL & _). rewrite EL. apply mget_del_rels.
  Qed.

  (* an entry that survives does not point to h; an entry that pointed elsewhere survives *)
  Lemma del_idx_some i x : mget i (idx s') = Some x -> mget i (idx s) = Some x /\ x <> h.
  Proof.
    rewrite del_idx_get. destruct ((i =? hi_local hi) && _) eqn:G; [discriminate|].
    intros E. split; [assumption|]. intros ->.
    destruct (i_idx s IV _ _ E) as (hi' & E1 & E2 & _). unfold info in *. rewrite HI in E1. inversion E1; subst hi'.
    subst i. rewrite N.eqb_refl, E in G. simpl in G. now rewrite N.eqb_refl in G.
  Qed.

  Lemma del_idx_keep i x : mget i (idx s) = Some x -> x <> h -> mget i (idx s') = Some x.
  Proof.
    intros E N. rewrite del_idx_get. destruct (N.eqb_spec i (hi_local hi)) as [->|]; [|simpl; assumption].
    rewrite E. simpl. destruct (N.eqb_spec x h); [contradiction|reflexivity].
  Qed.

  Lemma del_ridx_some r x : mget r (ridx s') = Some x -> mget r (ridx s) = Some x /\ x <> h.
  Proof.
    rewrite del_ridx_get. destruct ((r =? hi_remote hi) && _) eqn:G; [discriminate|].
    intros E. split; [assumption|]. intros ->.
    destruct (i_ridx s IV _ _ E) as (hi' & E1 & E2 & _). unfold info in *. rewrite HI in E1. inversion E1; subst hi'.
    subst r. rewrite N.eqb_refl, E in G. simpl in G. now rewrite N.eqb_refl in G.
  Qed.

  Lemma del_ridx_keep r x : mget r (ridx s) = Some x -> x <> h -> mget r (ridx s') = Some x.
  Proof.
    intros E N. rewrite del_ridx_get. destruct (N.eqb_spec r (hi_remote hi)) as [->|]; [|simpl; assumption].
    rewrite E. simpl. destruct (N.eqb_spec x h); [contradiction|reflexivity].
  Qed.

  Lemma del_rel_some r x : mget r (rel s') = Some x -> mget r (rel s) = Some x /\ x <> h.
  Proof.
    rewrite del_rel_get. destruct (mem r (hi_relays hi) && _) eqn:G; [discriminate|].
    intros E. split; [assumption|]. intros ->.
    destruct (i_rel s IV _ _ E) as (hi' & E1 & E2 & _). unfold info in *. rewrite HI in E1. inversion E1; subst hi'.
    apply mem_In in E2. rewrite E2, E in G. simpl in G. now rewrite N.eqb_refl in G.
  Qed.

  Lemma del_rel_keep r x : mget r (rel s) = Some x -> x <> h -> mget r (rel s') = Some x.
  Proof.
    intros E N. rewrite del_rel_get, E. simpl. destruct (N.eqb_spec x h); [contradiction|].
    now rewrite andb_false_r.
  Qed.

  Lemma del_idx_none i : mget i (idx s) = None -> mget i (idx s') = None.
  Proof. intros E. rewrite del_idx_get. now destruct (_ && _). Qed.

  Lemma del_rel_none r : mget r (rel s) = None -> mget r (rel s') = None.
  Proof. intros E. rewrite del_rel_get. now destruct (_ && _). Qed.

  Lemma not_h_of_live x g : st_of s' x = Some g -> (g = Main \/ g = Adding) -> x <> h /\ st_of s x = Some g.
  Proof.
    intros E G. assert (B : st_of s x = Some g) by (apply del_st_back; [assumption|destruct G; subst; discriminate]).
    split; [|assumption]. intros ->. destruct G as [-> | ->].
    - rewrite (del_st_h_main B) in E. discriminate.
    - contradiction.
  Qed.

  Lemma delete_inv : Inv s'.
  Proof.
    pose proof IV as IV0. inv_destruct IV0. constructor.
    - (* sync *) destruct SPEC as (_ & _ & SS & _). auto.
    - (* nodup *) intros a. rewrite del_list. now apply rf_NoDup.
    - (* mem *) intros a x. rewrite del_list. intros H.
      assert (XH : x <> h) by (intros ->; revert H; now apply rf_NoDup_notin).
      apply rf_In in H. destruct (MEM _ _ H) as (hx & E1 & E2 & E3).
      exists hx. rewrite del_info, del_st_other by assumption. auto.
    - (* main_lists *) intros x hx a. rewrite del_info. intros E1 E2 E3.
      destruct (not_h_of_live _ _ E2 (or_introl eq_refl)) as [XH B].
      rewrite del_list. apply rf_In_neq; [assumption|]. eapply ML; eauto.
    - (* main_idx *) intros x hx. rewrite del_info. intros E1 E2.
      destruct (not_h_of_live _ _ E2 (or_introl eq_refl)) as [XH B].
      apply del_idx_keep; [|assumption]. eapply MI; eauto.
    - (* idx *) intros i x E. apply del_idx_some in E as [E XH].
      destruct (IX _ _ E) as (hx & E1 & E2 & E3). exists hx. rewrite del_info, del_st_other by assumption. auto.
    - (* ridx *) intros r x E. apply del_ridx_some in E as [E XH].
      destruct (RX _ _ E) as (hx & E1 & E2 & E3). exists hx. rewrite del_info, del_st_other by assumption. auto.
    - (* rel *) intros r x E. apply del_rel_some in E as [E XH].
      destruct (RL _ _ E) as (hx & E1 & E2 & E3). exists hx. rewrite del_info, del_st_other by assumption. auto.
    - (* main_rel *) intros x hx r. rewrite del_info. intros E1 E2 E3.
      destruct (not_h_of_live _ _ E2 (or_introl eq_refl)) as [XH B].
      apply del_rel_keep; [|assumption]. eapply MR; eauto.
    - (* adding *) intros x hx. rewrite del_info. intros E1 E2.
      destruct (not_h_of_live _ _ E2 (or_intror eq_refl)) as [XH B].
      destruct (AD _ _ E1 B) as (A1 & A2 & A3 & A4). rewrite del_pidx. auto using del_idx_none.
    - (* uniq *) intros x y E1 E2.
      destruct (not_h_of_live _ _ E1 (or_intror eq_refl)) as [_ B1].
      destruct (not_h_of_live _ _ E2 (or_intror eq_refl)) as [_ B2]. eauto.
    - (* zero *) rewrite del_pidx. auto using del_idx_none, del_rel_none.
    - (* disj *) intros i x E. apply del_idx_some in E as [E _]. rewrite del_pidx. eauto.
    - (* pvpn *) intros a x. rewrite del_pvpn. intros E. destruct (PV _ _ E) as (hx & E1 & E2 & E3).
      exists hx. rewrite del_info. split; [assumption|]. split; [assumption|]. apply del_st_fwd; [assumption|discriminate].
    - (* pidx *) intros i x. rewrite del_pidx. intros E. destruct (PX _ _ E) as (hx & E1 & E2 & E3).
      exists hx. rewrite del_info. split; [assumption|]. split; [assumption|]. apply del_st_fwd; [assumption|discriminate].
    - (* pend_norel *) intros x hx. rewrite del_info. intros E1 E2.
      apply (PN x hx E1). apply del_st_back; [assumption|discriminate].
    - (* ghost *) intros y. rewrite del_info. intros E. apply GH. intros X. apply E. rewrite del_st, X.
      destruct (N.eqb_spec y h) as [EQ|NE]; [|reflexivity]. rewrite <- EQ, X. reflexivity.
  Qed.

  Lemma delete_len : Len s -> Len s'.
  Proof.
    intros LN a. rewrite del_list. specialize (LN a). pose proof (rf_length_le h (L s a)). lia.
  Qed.

  Lemma delete_noadding : NoAdding s -> NoAdding s'.
  Proof.
    intros NO y E. apply (NO y). apply del_st_back; [assumption|discriminate].
  Qed.
End Delete.

(* ---------- transitions of the main hostmap that can only remove tunnels ------------------------- *)

Record Trans (s s' : state) : Prop := mkTrans {
  t_infos : infos s' = infos s;
  t_pvpn : pvpn s' = pvpn s;
  t_pidx : pidx s' = pidx s;
  t_st_back : forall y g, st_of s' y = Some g -> g <> Dead -> st_of s y = Some g;
  t_st_fwd : forall y g, st_of s y = Some g -> g <> Main -> st_of s' y = Some g;
  t_main : forall y, st_of s y = Some Main -> st_of s' y = Some Main \/ st_of s' y = Some Dead;
  t_idx : forall i h, mget i (idx s) = Some h -> mget i (idx s') = Some h \/ st_of s' h = Some Dead;
  t_idx_back : forall i h, mget i (idx s') = Some h -> mget i (idx s) = Some h;
  t_ridx : forall i h, mget i (ridx s) = Some h -> mget i (ridx s') = Some h \/ st_of s' h = Some Dead;
  t_ridx_back : forall i h, mget i (ridx s') = Some h -> mget i (ridx s) = Some h;
  t_rel : forall i h, mget i (rel s) = Some h -> mget i (rel s') = Some h \/ st_of s' h = Some Dead;
  t_rel_back : forall i h, mget i (rel s') = Some h -> mget i (rel s) = Some h
}.

Lemma trans_same_rest s s' : same_rest s s' -> Trans s s'.
Proof.
  intros (EI & EX & ER & EL & EP & EQ & EG). constructor; unfold st_of; rewrite ?EI, ?EX, ?ER, ?EL, ?EP, ?EQ, ?EG; auto.
Qed.

Lemma trans_refl s : Trans s s.
Proof. apply trans_same_rest, same_rest_refl. Qed.

Lemma trans_dead s s' y : Trans s s' -> st_of s y = Some Dead -> st_of s' y = Some Dead.
Proof. intros T E. apply (t_st_fwd _ _ T); [assumption|discriminate]. Qed.

Lemma trans_trans s1 s2 s3 : Trans s1 s2 -> Trans s2 s3 -> Trans s1 s3.
Proof.
  intros A B. constructor.
  - rewrite (t_infos _ _ B). apply A.
  - rewrite (t_pvpn _ _ B). apply A.
  - rewrite (t_pidx _ _ B). apply A.
  - intros y g E N. apply (t_st_back _ _ A); [|assumption]. now apply (t_st_back _ _ B).
  - intros y g E N. apply (t_st_fwd _ _ B); [|assumption]. now apply (t_st_fwd _ _ A).
  - intros y E. destruct (t_main _ _ A _ E) as [M|D].
    + now apply (t_main _ _ B).
    + right. now apply (trans_dead _ _ _ B).
  - intros i h E. destruct (t_idx _ _ A _ _ E) as [M|D].
    + now apply (t_idx _ _ B).
    + right. now apply (trans_dead _ _ _ B).
  - intros i h E. apply (t_idx_back _ _ A). now apply (t_idx_back _ _ B).
  - intros i h E. destruct (t_ridx _ _ A _ _ E) as [M|D].
    + now apply (t_ridx _ _ B).
    + right. now apply (trans_dead _ _ _ B).
  - intros i h E. apply (t_ridx_back _ _ A). now apply (t_ridx_back _ _ B).
  - intros i h E. destruct (t_rel _ _ A _ _ E) as [M|D].
    + now apply (t_rel _ _ B).
    + right. now apply (trans_dead _ _ _ B).
  - intros i h E. apply (t_rel_back _ _ A). now apply (t_rel_back _ _ B).
Qed.

Lemma delete_trans s s' h hi f :
  Inv s -> info s h = Some hi -> st_of s h <> Some Adding -> delete_hi h s = (s', f) -> Trans s s'.
Proof.
  intros IV HI NA DEL. constructor.
  - eapply del_infos; eauto.
  - eapply del_pvpn; eauto.
  - eapply del_pidx; eauto.
  - intros y g. eapply del_st_back; eauto.
  - intros y g. eapply del_st_fwd; eauto.
  - intros y E. destruct (N.eqb_spec y h) as [->|NE].
    + right. eapply del_st_h_main; eauto.
    + left. erewrite del_st_other; eauto.
  - intros i x E. destruct (N.eqb_spec x h) as [->|NE].
    + right. destruct (i_idx _ IV _ _ E) as (? & _ & _ & M). eapply del_st_h_main; eauto.
    + left. eapply del_idx_keep; eauto.
  - intros i x E. eapply del_idx_some in E; eauto. tauto.
  - intros i x E. destruct (N.eqb_spec x h) as [->|NE].
    + right. destruct (i_ridx _ IV _ _ E) as (? & _ & _ & M). eapply del_st_h_main; eauto.
    + left. eapply del_ridx_keep; eauto.
  - intros i x E. eapply del_ridx_some in E; eauto. tauto.
  - intros i x E. destruct (N.eqb_spec x h) as [->|NE].
    + right. destruct (i_rel _ IV _ _ E) as (? & _ & _ & M). eapply del_st_h_main; eauto.
    + left. eapply del_rel_keep; eauto.
  - intros i x E. eapply del_rel_some in E; eauto. tauto.
Qed.

(* ---------- a change of one address list (everything else untouched) ---------------------------- *)

Ltac use_same_rest SR :=
  let EI := fresh "EI" in let EX := fresh "EX" in let ER := fresh "ER" in let EL := fresh "EL" in
  let EP := fresh "EP" in let EQ := fresh "EQ" in let EG := fresh "EG" in
  destruct SR as (EI & EX & ER & EL & EP & EQ & EG);
  unfold info, st_of in *; rewrite ?EI, ?EX, ?ER, ?EL, ?EP, ?EQ, ?EG.

(* s1 is s with hostinfo x moved/inserted at the front of the list of address a *)
Lemma put_inv s s1 x hx a :
  Inv s -> info s x = Some hx -> In a (hi_addrs hx) ->
  (st_of s x = Some Adding \/ st_of s x = Some Main) ->
  (forall b, L s1 b = if b =? a then x :: remove_first x (L s a) else L s b) ->
  same_rest s s1 -> Sync s1 ->
  Inv s1.
Proof.
  intros IV HX AX STX LL SR SY1. pose proof IV as IV0. inv_destruct IV0.
  constructor; try (use_same_rest SR; solve [assumption | auto]).
  - intros b. rewrite LL. neq b a; [|apply ND]. constructor; [now apply rf_NoDup_notin|now apply rf_NoDup].
  - intros b y. rewrite LL. use_same_rest SR. neq b a.
    + intros [<-|H].
      * exists hx. tauto.
      * apply rf_In in H. now apply MEM.
    + apply MEM.
  - intros h hi b. rewrite LL. use_same_rest SR. intros E1 E2 E3. neq b a; [|eapply ML; eauto].
    destruct (N.eqb_spec h x) as [->|NE]; [now left|]. right. apply rf_In_neq; [assumption|]. eapply ML; eauto.
Qed.

(* ---------- unlockedInnerAddHostInfo ------------------------------------------------------------- *)

Lemma inner_add_inv s x hx a :
  Inv s -> Len s -> info s x = Some hx -> st_of s x = Some Adding -> In a (hi_addrs hx) ->
  let s' := inner_add x a s in
  Inv s' /\ Len s' /\ Trans s s' /\ In x (L s' a) /\ (forall b, In x (L s b) -> In x (L s' b)).
Proof.
  intros IV LN HX SX AX. destruct (inner_add_spec x a s (i_sync _ IV)) as (s1 & LL & SR & SY1 & EQ).
  simpl. rewrite EQ. clear EQ.
  set (l := x :: remove_first x (L s a)) in *.
  assert (IV1 : Inv s1) by (eapply put_inv; eauto).
  assert (T1 : Trans s s1) by now apply trans_same_rest.
  assert (XA : In x (L s1 a)) by (rewrite LL, N.eqb_refl; now left).
  assert (XB : forall b, In x (L s b) -> In x (L s1 b)).
  { intros b H. rewrite LL. neq b a; [now left|assumption]. }
  assert (LL1 : (length l <= S (length (L s a)))%nat).
  { unfold l. simpl. pose proof (rf_length_le x (L s a)). lia. }
  destruct (N.ltb_spec MaxHostInfosPerVpnIp (N.of_nat (length l))) as [GT|LE].
  - (* over the cap: the oldest hostinfo of this address is retired *)
    destruct (remove_first x (L s a)) as [|y t] eqn:ERF.
    { exfalso. unfold l in GT. simpl in GT. pose proof max_ge1. lia. }
    destruct (last_opt_some y t) as [o EO].
    assert (EL : last_opt l = Some o) by (unfold l; now rewrite last_opt_cons).
    rewrite EL.
    assert (OT : In o (y :: t)) by now apply last_opt_In.
    assert (NDl : NoDup l).
    { unfold l. rewrite <- ERF. constructor; [apply rf_NoDup_notin|apply rf_NoDup]; apply (i_nodup _ IV). }
    assert (OX : o <> x).
    { intros ->. inversion NDl; subst. contradiction. }
    assert (OL : In o (L s a)) by (apply (rf_In o x); now rewrite ERF).
    destruct (i_mem _ IV _ _ OL) as (ho & HO & AO & SO).
    assert (SOM : st_of s o = Some Main).
    { destruct SO as [M|A]; [assumption|]. exfalso. apply OX. eapply (i_adding_uniq _ IV); eauto. }
    destruct (delete_hi o s1) as [s2 f] eqn:DEL. simpl.
    assert (HO1 : info s1 o = Some ho) by (destruct SR as (EI & _); unfold info; now rewrite EI).
    assert (NA1 : st_of s1 o <> Some Adding).
    { destruct SR as (_ & _ & _ & _ & _ & _ & EG). unfold st_of. rewrite EG. fold (st_of s o). congruence. }
    assert (IV2 : Inv s2) by (eapply delete_inv; eauto).
    assert (T2 : Trans s1 s2) by (eapply delete_trans; eauto).
    assert (DL : forall b, L s2 b = remove_first o (L s1 b)) by (intros b; eapply del_list; eauto).
    split; [assumption|]. split; [|split; [eapply trans_trans; eauto|split]].
    + intros b. rewrite DL, LL. neq b a.
      * fold l. assert (In o l) by (unfold l; now right).
        pose proof (rf_length_in o l H). specialize (LN a). lia.
      * specialize (LN b). pose proof (rf_length_le o (L s b)). lia.
    + rewrite DL. apply rf_In_neq; [congruence|assumption].
    + intros b H. rewrite DL. apply rf_In_neq; [congruence|]. now apply XB.
  - split; [assumption|]. split; [|split; [assumption|split; assumption]].
    intros b. rewrite LL. neq b a; [exact LE|apply LN].
Qed.

Lemma inner_adds_inv x hx addrs : forall s,
  Inv s -> Len s -> info s x = Some hx -> st_of s x = Some Adding -> incl addrs (hi_addrs hx) ->
  let s' := inner_adds x addrs s in
  Inv s' /\ Len s' /\ Trans s s' /\ (forall a, In a addrs -> In x (L s' a)) /\
  (forall b, In x (L s b) -> In x (L s' b)).
Proof.
  induction addrs as [|a r IH]; intros s IV LN HX SX IC; simpl.
  - split; [assumption|]. split; [assumption|]. split; [apply trans_refl|]. split; [intros a []|auto].
  - destruct (inner_add_inv s x hx a IV LN HX SX) as (IV1 & LN1 & T1 & XA & XB).
    { apply IC. now left. }
    destruct (IH (inner_add x a s) IV1 LN1) as (IV2 & LN2 & T2 & XA2 & XB2).
    + unfold info. rewrite (t_infos _ _ T1). exact HX.
    + apply (t_st_fwd _ _ T1); [assumption|discriminate].
    + intros b H. apply IC. now right.
    + split; [assumption|]. split; [assumption|]. split; [eapply trans_trans; eauto|]. split.
      * intros b [<-|H]; auto.
      * auto.
Qed.

(* ---------- the tail of unlockedAddHostInfo: Indexes, RemoteIndexes, and the hostinfo is now held ---- *)

Definition add_tail (x : N) (hx : hinfo) (s1 : state) : state :=
  let s2 := set_idx s1 (mset (hi_local hx) x (idx s1)) in
  let s3 := set_ridx s2 (mset (hi_remote hx) x (ridx s2)) in
  gset x Main s3.

Lemma add_hi_unfold x hx s :
  info s x = Some hx -> add_hi x s = add_tail x hx (inner_adds x (hi_addrs hx) (gset x Adding s)).
Proof. intros H. unfold add_hi, add_tail. unfold info in H. now rewrite H. Qed.

Lemma add_tail_list x hx s b : L (add_tail x hx s) b = L s b.
Proof. reflexivity. Qed.

Lemma add_tail_st x hx s y : st_of (add_tail x hx s) y = if y =? x then Some Main else st_of s y.
Proof. unfold add_tail. now rewrite st_gset. Qed.

Lemma add_tail_inv s x hx :
  Inv s -> info s x = Some hx -> st_of s x = Some Adding ->
  (forall a, In a (hi_addrs hx) -> In x (L s a)) ->
  Inv (add_tail x hx s) /\ NoAdding (add_tail x hx s).
Proof.
  intros IV HX SX XL. pose proof IV as IV0. inv_destruct IV0.
  destruct (AD _ _ HX SX) as (A1 & A2 & A3 & A4).
  assert (OTH : forall y g, st_of s y = Some g -> g <> Adding -> y <> x) by (intros y g E N ->; congruence).
  assert (STO : forall y, y <> x -> st_of (add_tail x hx s) y = st_of s y).
  { intros y N. rewrite add_tail_st. destruct (N.eqb_spec y x); [contradiction|reflexivity]. }
  assert (STX : st_of (add_tail x hx s) x = Some Main) by (rewrite add_tail_st, N.eqb_refl; reflexivity).
  assert (NOA : forall y, st_of (add_tail x hx s) y = Some Adding -> False).
  { intros y. rewrite add_tail_st. destruct (N.eqb_spec y x) as [->|NE]; [discriminate|].
    intros E. apply NE. eapply AU; eauto. }
  split; [|intros y E; eapply NOA; eauto].
  constructor.
  - exact SY.
  - exact ND.
  - intros a y H. destruct (MEM _ _ H) as (hy & E1 & E2 & E3). exists hy. split; [exact E1|]. split; [exact E2|].
    destruct (N.eqb_spec y x) as [->|NE]; [left; exact STX|]. now rewrite STO.
  - intros h hi a E1 E2 E3. change (In h (L s a)). destruct (N.eqb_spec h x) as [->|NE].
    + change (info s x = Some hi) in E1. rewrite HX in E1. inversion E1; subst. now apply XL.
    + rewrite STO in E2 by assumption. eapply ML; eauto.
  - intros h hi E1 E2. change (info s h = Some hi) in E1. unfold add_tail. simpl. rewrite mget_mset.
    destruct (N.eqb_spec h x) as [->|NE].
    + rewrite HX in E1. inversion E1; subst. now rewrite N.eqb_refl.
    + rewrite STO in E2 by assumption. pose proof (MI _ _ E1 E2) as M.
      destruct (N.eqb_spec (hi_local hi) (hi_local hx)) as [EE|]; [|assumption]. rewrite EE in M. congruence.
  - intros i h. unfold add_tail at 1. simpl. rewrite mget_mset. destruct (N.eqb_spec i (hi_local hx)) as [->|NE].
    + intros E. inversion E; subst. exists hx. auto.
    + intros E. destruct (IX _ _ E) as (hi & E1 & E2 & E3). exists hi. split; [exact E1|]. split; [exact E2|].
      rewrite STO; [assumption|]. eapply OTH; eauto. discriminate.
  - intros r h. unfold add_tail at 1. simpl. rewrite mget_mset. destruct (N.eqb_spec r (hi_remote hx)) as [->|NE].
    + intros E. inversion E; subst. exists hx. auto.
    + intros E. destruct (RX _ _ E) as (hi & E1 & E2 & E3). exists hi. split; [exact E1|]. split; [exact E2|].
      rewrite STO; [assumption|]. eapply OTH; eauto. discriminate.
  - intros r h E. change (mget r (rel s) = Some h) in E. destruct (RL _ _ E) as (hi & E1 & E2 & E3).
    exists hi. split; [exact E1|]. split; [exact E2|]. rewrite STO; [assumption|]. eapply OTH; eauto. discriminate.
  - intros h hi r E1 E2 E3. change (mget r (rel s) = Some h). change (info s h = Some hi) in E1.
    destruct (N.eqb_spec h x) as [->|NE].
    + rewrite HX in E1. inversion E1; subst. rewrite A4 in E3. destruct E3.
    + rewrite STO in E2 by assumption. eapply MR; eauto.
  - intros h hi _ E. exfalso. eapply NOA; eauto.
  - intros y z E. exfalso. eapply NOA; eauto.
  - unfold add_tail. simpl. rewrite mget_mset. destruct (N.eqb_spec 0 (hi_local hx)); [congruence|]. auto.
  - intros i h. unfold add_tail. simpl. rewrite mget_mset. destruct (N.eqb_spec i (hi_local hx)) as [->|NE].
    + intros _. exact A2.
    + apply DJ.
  - intros a h E. change (mget a (pvpn s) = Some h) in E. destruct (PV _ _ E) as (hi & E1 & E2 & E3).
    exists hi. split; [exact E1|]. split; [exact E2|]. rewrite STO; [assumption|]. eapply OTH; eauto. discriminate.
  - intros i h E. change (mget i (pidx s) = Some h) in E. destruct (PX _ _ E) as (hi & E1 & E2 & E3).
    exists hi. split; [exact E1|]. split; [exact E2|]. rewrite STO; [assumption|]. eapply OTH; eauto. discriminate.
  - intros h hi E1 E2. change (info s h = Some hi) in E1. destruct (N.eqb_spec h x) as [->|NE].
    + rewrite STX in E2. discriminate.
    + rewrite STO in E2 by assumption. eapply PN; eauto.
  - intros y E. change (info s y <> None). destruct (N.eqb_spec y x) as [->|NE].
    + rewrite HX. discriminate.
    + rewrite STO in E by assumption. now apply GH.
Qed.

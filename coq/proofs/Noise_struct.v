(* Structure of the symbolic IX exchange and of Machine.ProcessPacket: lemmas shared by C05 and C06. *)
From Coq Require Import List NArith Lia Bool.
Import ListNotations.
From NV Require Import lib.Sym model.Noise model.Machine.
Open Scope N_scope.

(* ---- the four Noise operations of an honest IX exchange, in closed form ------------------------------ *)

#[local] Arguments dh : simpl never.
#[local] Arguments term_eqb : simpl never.
#[local] Arguments adec : simpl never.
#[local] Arguments N.add : simpl nomatch.
#[local] Arguments N.sub : simpl nomatch.
#[local] Arguments N.ltb : simpl nomatch.
#[local] Arguments N.leb : simpl nomatch.
#[local] Arguments N.eqb : simpl nomatch.

Ltac arith1 :=
  match goal with
  | |- context[?a <? ?b] => first [replace (a <? b) with false by (symmetry; apply N.ltb_ge; lia) | replace (a <? b) with true by (symmetry; apply N.ltb_lt; lia)]
  | |- context[?a <=? ?b] => first [replace (a <=? b) with false by (symmetry; apply N.leb_gt; lia) | replace (a <=? b) with true by (symmetry; apply N.leb_le; lia)]
  | |- context[N.eqb ?a ?b] => first [replace (N.eqb a b) with false by (symmetry; apply N.eqb_neq; lia) | replace (N.eqb a b) with true by (symmetry; apply N.eqb_eq; lia)]
  end.
Ltac crunch := repeat (cbn; unfold hs_dl, dhlen, max_msg_len; cbn; change (Pos.to_nat 1) with 1%nat; cbn; try match goal with E : (_ =? 0) = _ |- _ => rewrite !E end; cbn; try arith1).

Section IX.
  Variables (c ci sI sR eI eR : N) (p1 p2 : payload).
  Hypothesis Hl1 : p_len p1 <= 65535.
  Hypothesis Hl2 : p_len p2 <= 65535.
  Definition stI0 := init_hs c ci sI (Pub sI) true ix_pattern.
  Definition stR0 := init_hs c ci sR (Pub sR) false ix_pattern.
  Definition msg1 := Cat (Pub eI) (Cat (Pub sI) (Pay p1)).
  Definition h1 := H (H (H (H (Name c ci) Empty) (Pub eI)) (Pub sI)) (Pay p1).
  Definition stI1 := mkHs c ci (Name c ci) h1 Empty 0 false sI (Pub sI) (Some eI) None None false true 1 ix_pattern.
  Definition stR1 := mkHs c ci (Name c ci) h1 Empty 0 false sR (Pub sR) None (Some (Pub sI)) (Some (Pub eI)) true false 1 ix_pattern.
  Definition dEE := dh eR (Pub eI).
  Definition dSE := dh eR (Pub sI).
  Definition dES := dh sR (Pub eI).
  Definition ck1 := Hkdf (Name c ci) dEE 1.
  Definition ck2 := Hkdf ck1 dSE 1.
  Definition k2 := Hkdf ck1 dSE 2.
  Definition ck3 := Hkdf ck2 dES 1.
  Definition k3 := Hkdf ck2 dES 2.
  Definition h2 := H h1 (Pub eR).
  Definition cS := Aead k2 0 h2 (Pub sR).
  Definition h3 := H h2 cS.
  Definition cP := Aead k3 0 h3 (Pay p2).
  Definition h4 := H h3 cP.
  Definition msg2 := Cat (Pub eR) (Cat cS cP).
  Definition keys := (Hkdf ck3 Empty 1, Hkdf ck3 Empty 2).
  Definition stR2 := mkHs c ci ck3 h4 k3 1 true sR (Pub sR) (Some eR) (Some (Pub sI)) (Some (Pub eI)) false false 2 ix_pattern.
  Definition stI2 := mkHs c ci ck3 h4 k3 1 true sI (Pub sI) (Some eI) (Some (Pub sR)) (Some (Pub eR)) true true 2 ix_pattern.

  Ltac curve := cbn; unfold hs_dl, dhlen, max_msg_len; cbn; destruct (c =? 0) eqn:Ec; crunch.

  Lemma ix_w1 : write_message (init_hs c ci sI (Pub sI) true ix_pattern) eI (Pay p1) = (stI1, WOk msg1 None).
  Proof. clear Hl2. unfold stI1, write_message, init_hs. curve; reflexivity. Qed.

  Lemma ix_r1 : read_message (init_hs c ci sR (Pub sR) false ix_pattern) msg1 = (stR1, ROk (Pay p1) None).
  Proof. clear Hl2. unfold stR1, msg1, read_message, init_hs. curve; reflexivity. Qed.

  Lemma ix_w2 : write_message stR1 eR (Pay p2) = (stR2, WOk msg2 (Some keys)).
  Proof. unfold stR1, write_message. curve; reflexivity. Qed.

  Lemma ix_r2 : read_message stI1 msg2 = (stI2, ROk (Pay p2) (Some keys)).
  Proof.
    unfold stI1, msg2, read_message. curve. 
    all: rewrite (dh_comm eI eR), (dh_comm sI eR). 
    all: fold dEE dSE ck1 k2 h1 h2 cS.
    all: unfold cS at 1; rewrite adec_aead; crunch.
    all: rewrite (dh_comm eI sR); unfold decrypt_and_hash; crunch.
    all: fold dEE dSE dES ck1 ck2 k2 ck3 k3 h1 h2 cS h3 cP.
    all: unfold cP at 1; rewrite adec_aead; crunch. all: reflexivity.
  Qed.
End IX.

Lemma stR1_idx c ci sI sR eI p1 : hs_msgIdx (stR1 c ci sI sR eI p1) = 1. Proof. reflexivity. Qed.
Lemma stR1_rs c ci sI sR eI p1 : hs_rs (stR1 c ci sI sR eI p1) = Some (Pub sI). Proof. reflexivity. Qed.
Lemma stR1_sw c ci sI sR eI p1 : hs_shouldWrite (stR1 c ci sI sR eI p1) = true. Proof. reflexivity. Qed.
Lemma stI2_idx c ci sI sR eI eR p1 p2 : hs_msgIdx (stI2 c ci sI sR eI eR p1 p2) = 2. Proof. reflexivity. Qed.
Lemma stI2_rs c ci sI sR eI eR p1 p2 : hs_rs (stI2 c ci sI sR eI eR p1 p2) = Some (Pub sR). Proof. reflexivity. Qed.
Lemma stR2_idx c ci sI sR eI eR p1 p2 : hs_msgIdx (stR2 c ci sI sR eI eR p1 p2) = 2. Proof. reflexivity. Qed.

Lemma peer_flags_1 m : hs_msgIdx (m_hs m) = 1 -> peer_flags m = (true, true).
Proof. unfold peer_flags. intros ->. reflexivity. Qed.
Lemma peer_flags_2 m : hs_msgIdx (m_hs m) = 2 -> peer_flags m = (true, true).
Proof. unfold peer_flags. intros ->. reflexivity. Qed.
Lemma my_flags_0 m : hs_msgIdx (m_hs m) = 0 -> my_flags m = (true, true).
Proof. unfold my_flags. intros ->. reflexivity. Qed.
Lemma my_flags_1 m : hs_msgIdx (m_hs m) = 1 -> my_flags m = (true, true).
Proof. unfold my_flags. intros ->. reflexivity. Qed.

(* ---- what a successful step of the Machine did ----------------------------------------------------- *)

Ltac m_cbn := unfold m_initiator in *; cbn [m_cfg m_hs m_res m_myver m_index_allocated m_remote_cert_set m_payload_set m_failed set_hs set_res fail set_myver set_flags fst snd
   r_ekey r_dkey r_mycert r_remote_cert r_remote_idx r_local_idx r_time r_msgidx r_initiator] in *.

(* validateCert succeeded: the certificate bytes were recombined with the peer static and the verifier accepted that pair *)
Lemma validate_cert_ok m p m' :
  validate_cert m p = (m', true) ->
  exists rs v',
    hs_rs (m_hs m) = Some rs /\ accepted (m_cfg m) (p_cert_body p) rs = true /\
    m' = mkM (m_cfg m) (m_hs m)
             (mkRes (r_ekey (m_res m)) (r_dkey (m_res m)) (r_mycert (m_res m)) (Some (p_cert_body p, rs))
                    (r_remote_idx (m_res m)) (r_local_idx (m_res m)) (r_time (m_res m)) (r_msgidx (m_res m)) (r_initiator (m_res m)))
             v' (m_index_allocated m) true (m_payload_set m) (m_failed m).
Proof.
  unfold validate_cert, recombine.
  destruct (get_cred (m_cfg m) (m_myver m)) as [cr|]; [|discriminate].
  destruct (hs_rs (m_hs m)) as [rs|] eqn:Hrs; [|discriminate].
  destruct (_ || _ || _ || _); [discriminate|].
  destruct (negb (term_eqb rs rs)); [discriminate|].
  match goal with |- context[negb (?a =? ?b)] => destruct (negb (a =? b)) end.
  - destruct (get_cred (m_cfg m) _) as [cr2|]; m_cbn.
    + destruct (accepted _ _ _) eqn:Ha; [|discriminate]. intros [= <-]. exists rs. eexists. split; [reflexivity | split; [exact Ha | destruct m; reflexivity]].
    + destruct (accepted _ _ _) eqn:Ha; [|discriminate]. intros [= <-]. exists rs. eexists. split; [reflexivity | split; [exact Ha | destruct m; reflexivity]].
  - destruct (accepted _ _ _) eqn:Ha; [|discriminate]. intros [= <-]. exists rs. eexists. split; [reflexivity | split; [exact Ha | destruct m; reflexivity]].
Qed.

(* processPayload succeeded on a message that must carry payload and certificate *)
Lemma process_payload_ok m msg m' :
  process_payload m msg true true = (m', true) ->
  exists p rs v',
    msg = Pay p /\ hs_rs (m_hs m) = Some rs /\
    (if r_initiator (m_res m) then p_resp_idx p else p_init_idx p) <> 0 /\
    accepted (m_cfg m) (p_cert_body p) rs = true /\
    m' = mkM (m_cfg m) (m_hs m)
             (mkRes (r_ekey (m_res m)) (r_dkey (m_res m)) (r_mycert (m_res m)) (Some (p_cert_body p, rs))
                    (if r_initiator (m_res m) then p_resp_idx p else p_init_idx p)
                    (r_local_idx (m_res m)) (p_time p) (r_msgidx (m_res m)) (r_initiator (m_res m)))
             v' (m_index_allocated m) true true (m_failed m).
Proof.
  unfold process_payload.
  destruct (tlen _ msg =? 0); [cbn; discriminate|].
  destruct msg; cbn [parse_payload]; try discriminate.
  destruct (negb (Bool.eqb _ true)); [discriminate|].
  destruct (negb (Bool.eqb (p_has_cert p) true)); [discriminate|].
  m_cbn.
  destruct ((if r_initiator (m_res m) then p_resp_idx p else p_init_idx p) =? 0) eqn:Hz; [discriminate|].
  intros Hv. apply validate_cert_ok in Hv. destruct Hv as (rs & v' & Hrs & Ha & ->). m_cbn.
  exists p, rs, v'. split; [reflexivity|]. split; [exact Hrs|]. split; [now apply N.eqb_neq|]. split; [exact Ha|]. reflexivity.
Qed.

(* marshalOutgoing for a message that carries payload and certificate *)
Lemma marshal_outgoing_ok m m' t :
  marshal_outgoing m true true = Some (m', t) ->
  exists cr idx,
    get_cred (m_cfg m) (m_myver m) = Some cr /\
    (if m_index_allocated m then idx = r_local_idx (m_res m) else c_alloc (m_cfg m) = Some idx) /\
    t = Pay (mkPayload true (cr_body cr) (cr_ver cr) (cr_curve cr) false
               (if r_initiator (m_res m) then idx else r_remote_idx (m_res m))
               (if r_initiator (m_res m) then 0 else idx)
               (c_now (m_cfg m)) (cr_ver cr) (c_paylen (m_cfg m))) /\
    m' = mkM (m_cfg m) (m_hs m)
             (mkRes (r_ekey (m_res m)) (r_dkey (m_res m)) (Some (cr_body cr)) (r_remote_cert (m_res m))
                    (r_remote_idx (m_res m)) idx (r_time (m_res m)) (r_msgidx (m_res m)) (r_initiator (m_res m)))
             (m_myver m) true (m_remote_cert_set m) (m_payload_set m) (m_failed m).
Proof.
  unfold marshal_outgoing. cbn [negb andb].
  destruct (m_index_allocated m) eqn:Hia.
  - destruct (get_cred (m_cfg m) (m_myver m)) as [cr|] eqn:Hc; [|discriminate]. m_cbn.
    intros [= <- <-]. exists cr, (r_local_idx (m_res m)). repeat split; destruct m; cbn in *; subst; reflexivity.
  - destruct (c_alloc (m_cfg m)) as [idx|] eqn:Hal; [|discriminate]. m_cbn.
    destruct (get_cred (m_cfg m) (m_myver m)) as [cr|] eqn:Hc; [|discriminate].
    intros [= <- <-]. exists cr, idx. repeat split; try assumption; destruct m; reflexivity.
Qed.

Lemma require_complete_ok m m' : require_complete m = (m', true) -> m' = m /\ m_payload_set m = true /\ m_remote_cert_set m = true.
Proof.
  unfold require_complete. destruct (m_payload_set m), (m_remote_cert_set m); cbn; try discriminate. intros [= <-]. auto.
Qed.

Lemma build_response_ok m m' pkt keys :
  build_response m = Some (m', pkt, keys) ->
  exists m1 t hs' out,
    marshal_outgoing m (fst (my_flags m)) (snd (my_flags m)) = Some (m1, t) /\
    write_message (m_hs m1) (c_eph (m_cfg m1)) t = (hs', WOk out keys) /\
    pkt = mkPkt false (c_subtype (m_cfg m1)) (r_remote_idx (m_res m1)) (hs_msgIdx (m_hs m1) + 1) out /\
    m' = set_hs m1 hs'.
Proof.
  unfold build_response. destruct (my_flags m) as [a b]. cbn [fst snd].
  destruct (marshal_outgoing m a b) as [[m1 t]|]; [|discriminate].
  destruct (write_message _ _ _) as [hs' [|out k]] eqn:Hw; [discriminate|].
  intros [= <- <- <-]. exists m1, t, hs', out. auto.
Qed.

(* every way ProcessPacket returns a Result *)
Lemma process_done m p m' out r :
  process m p = (m', Done out (Some r)) ->
  exists hs1 msg keys0 m2,
    m_failed m = false /\ (r_initiator (m_res m) && (hs_msgIdx (m_hs m) =? 0)) = false /\
    read_message (m_hs m) (pk_body p) = (hs1, ROk msg keys0) /\
    process_payload (set_hs m hs1) msg (fst (peer_flags (set_hs m hs1))) (snd (peer_flags (set_hs m hs1))) = (m2, true) /\
    ((exists cs1 cs2, keys0 = Some (cs1, cs2) /\ out = None /\ m_payload_set m2 = true /\ m_remote_cert_set m2 = true /\
        (m', r) = completed m2 cs1 cs2)
     \/
     (exists m3 pkt cs1 cs2, keys0 = None /\ build_response m2 = Some (m3, pkt, Some (cs1, cs2)) /\ out = Some pkt /\
        m_payload_set m3 = true /\ m_remote_cert_set m3 = true /\ (m', r) = completed m3 cs2 cs1)).
Proof.
  unfold process.
  destruct (m_failed m); [discriminate|]. destruct (pk_short p); [discriminate|]. destruct (negb _); [discriminate|].
  unfold m_initiator. destruct (r_initiator (m_res m) && _) eqn:Hini; [discriminate|].
  destruct (read_message (m_hs m) (pk_body p)) as [hs1 [|msg keys0]]; [destruct (term_eqb _ _); discriminate|].
  destruct (peer_flags (set_hs m hs1)) as [a b] eqn:Hpf. cbn [fst snd].
  destruct (process_payload (set_hs m hs1) msg a b) as [m2 [|]] eqn:Hpp; [|discriminate].
  intros Hrun. exists hs1, msg, keys0, m2. split; [reflexivity|]. split; [reflexivity|]. split; [reflexivity|]. split; [rewrite Hpf; exact Hpp|].
  destruct keys0 as [[cs1 cs2]|].
  - left. destruct (require_complete m2) as [m3 [|]] eqn:Hrc; [|discriminate].
    apply require_complete_ok in Hrc as (-> & Hps & Hrcs).
    destruct (completed m2 cs1 cs2) as [m4 r4] eqn:Hc. injection Hrun as <- <- <-.
    exists cs1, cs2. auto.
  - right. destruct (build_response m2) as [[[m3 pkt] [[cs1 cs2]|]]|] eqn:Hb; try discriminate.
    destruct (require_complete m3) as [m4 [|]] eqn:Hrc; [|discriminate].
    apply require_complete_ok in Hrc as (-> & Hps & Hrcs).
    destruct (completed m3 cs2 cs1) as [m5 r5] eqn:Hc. injection Hrun as <- <- <-.
    exists m3, pkt, cs1, cs2. auto 10.
Qed.

(* C16: the nested rule table built by AddRule matches a packet iff some rule matches under the documented
   semantics. Protocol-table layer and the refinement theorem. *)
From Coq Require Import List NArith ZArith Bool Lia Btauto.
Import ListNotations.
From NV Require Import lib.Corr lib.Ip gen.Consts_Firewall model.Firewall proofs.Firewall_layers.
Open Scope N_scope.

Section Fixed.
  Variables (cf : fwconf) (incoming : bool) (pkt : packet) (pr : peer) (pl : pool).

  Notation Y r := (casel cf pkt pr pl r).
  Notation pcond := (port_cond incoming pkt).

  Lemma rule_matches_alt r :
    rule_matches cf incoming pkt pr pl r = proto_ok r pkt && (pcond (fst (eff_ports r)) (snd (eff_ports r)) && Y r).
  Proof.
    unfold rule_matches, casel, rsel, port_ok, port_cond. destruct (eff_ports r); cbn [fst snd]. btauto.
  Qed.

  Ltac consts := cbv [proto_any proto_tcp proto_udp proto_icmp proto_icmpv6] in *; cbn [N.eqb Pos.eqb] in *.

  Lemma icmp_not_others p : is_icmp p = true ->
    (p =? proto_tcp) = false /\ (p =? proto_udp) = false /\ (p =? proto_any) = false.
  Proof.
    unfold is_icmp. intros H. apply orb_true_iff in H as [H|H]; apply N.eqb_eq in H; subst p; consts; auto.
  Qed.

  Lemma add_rule_match r t t' :
    add_rule cf r t = Some t' ->
    table_match t' incoming pkt pr pl = table_match t incoming pkt pr pl || rule_matches cf incoming pkt pr pl r.
  Proof.
    rewrite rule_matches_alt. unfold add_rule, eff_ports, proto_ok, table_match.
    set (P := pk_proto pkt).
    destruct (r_proto r =? proto_tcp) eqn:E1; [|destruct (r_proto r =? proto_udp) eqn:E2;
      [|destruct (is_icmp (r_proto r)) eqn:E3; [|destruct (r_proto r =? proto_any) eqn:E4; [|discriminate]]]].
    - apply N.eqb_eq in E1.
      destruct (port_add cf r (r_start r) (r_end r) (t_tcp t)) as [pm|] eqn:EP; [|discriminate].
      intros H; inversion H; subst t'; clear H. cbn [t_tcp t_udp t_icmp t_anyp].
      rewrite (port_add_match _ _ _ _ _ _ _ _ _ _ EP). rewrite E1.
      replace (is_icmp proto_tcp) with false by reflexivity.
      replace (proto_tcp =? proto_any) with false by reflexivity.
      replace (proto_tcp =? proto_udp) with false by reflexivity.
      cbn [fst snd orb andb].
      destruct (P =? proto_tcp); [btauto|].
      generalize (if P =? proto_udp then port_match (t_udp t) incoming pkt pr pl
                  else if is_icmp P then port_match (t_icmp t) incoming pkt pr pl else false). intros b. btauto.
    - apply N.eqb_eq in E2.
      destruct (port_add cf r (r_start r) (r_end r) (t_udp t)) as [pm|] eqn:EP; [|discriminate].
      intros H; inversion H; subst t'; clear H. cbn [t_tcp t_udp t_icmp t_anyp].
      rewrite (port_add_match _ _ _ _ _ _ _ _ _ _ EP). rewrite E2.
      replace (is_icmp proto_udp) with false by reflexivity.
      replace (proto_udp =? proto_any) with false by reflexivity.
      cbn [fst snd orb andb].
      destruct (P =? proto_tcp) eqn:EP6.
      + apply N.eqb_eq in EP6. rewrite EP6. replace (proto_tcp =? proto_udp) with false by reflexivity. btauto.
      + destruct (P =? proto_udp); [btauto|].
        generalize (if is_icmp P then port_match (t_icmp t) incoming pkt pr pl else false). intros b. btauto.
    - destruct (icmp_not_others _ E3) as (_ & _ & E4).
      destruct (port_add cf r port_any port_any (t_icmp t)) as [pm|] eqn:EP; [|discriminate].
      intros H; inversion H; subst t'; clear H. cbn [t_tcp t_udp t_icmp t_anyp].
      rewrite (port_add_match _ _ _ _ _ _ _ _ _ _ EP). rewrite E4.
      cbn [fst snd orb andb].
      destruct (is_icmp P) eqn:EI.
      + destruct (icmp_not_others _ EI) as (-> & -> & _). btauto.
      + destruct (P =? proto_tcp); [btauto|]. destruct (P =? proto_udp); btauto.
    - destruct (port_add cf r (r_start r) (r_end r) (t_anyp t)) as [pm|] eqn:EP; [|discriminate].
      intros H; inversion H; subst t'; clear H. cbn [t_tcp t_udp t_icmp t_anyp].
      rewrite (port_add_match _ _ _ _ _ _ _ _ _ _ EP).
      cbn [fst snd orb andb].
      generalize (if P =? proto_tcp then port_match (t_tcp t) incoming pkt pr pl
                  else if P =? proto_udp then port_match (t_udp t) incoming pkt pr pl
                  else if is_icmp P then port_match (t_icmp t) incoming pkt pr pl else false). intros b. btauto.
  Qed.

  Lemma empty_table_match : table_match empty_table incoming pkt pr pl = false.
  Proof.
    unfold table_match, empty_table, port_match; cbn [t_tcp t_udp t_icmp t_anyp aget oca_match].
    destruct (is_icmp (pk_proto pkt)), (pk_proto pkt =? proto_tcp), (pk_proto pkt =? proto_udp); reflexivity.
  Qed.

  Lemma add_rules_match rs : forall t t',
    add_rules cf rs t = Some t' ->
    table_match t' incoming pkt pr pl = table_match t incoming pkt pr pl || existsb (rule_matches cf incoming pkt pr pl) rs.
  Proof.
    induction rs as [|r rs IH]; intros t t' H; cbn [add_rules existsb] in *.
    - inversion H; subst. now rewrite orb_false_r.
    - destruct (add_rule cf r t) as [t1|] eqn:E; [|discriminate].
      rewrite (IH _ _ H), (add_rule_match _ _ _ E). now rewrite orb_assoc.
  Qed.
End Fixed.

(* The refinement theorem: for every rule list the builder accepts, every packet, peer certificate and CA pool *)
Theorem refine cf rs t incoming pkt pr pl :
  add_rules cf rs empty_table = Some t ->
  table_match t incoming pkt pr pl = existsb (rule_matches cf incoming pkt pr pl) rs.
Proof. intros H. rewrite (add_rules_match _ _ _ _ _ _ _ _ H). now rewrite empty_table_match. Qed.

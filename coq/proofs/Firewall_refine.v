(* C16: the nested rule table built by AddRule matches a packet iff some rule matches under the documented
   semantics. One "monotone-or" lemma per layer (DESIGN.md Appendix A.2). *)
From Coq Require Import List NArith ZArith Bool Lia.
Import ListNotations.
From NV Require Import lib.Corr lib.Ip gen.Consts_Firewall model.Firewall.
Open Scope N_scope.

Lemma str_eqb_eq a b : str_eqb a b = true <-> a = b.
Proof. apply list_eqb_eq. intros; apply N.eqb_eq. Qed.

Lemma Zeqb_eq a b : Z.eqb a b = true <-> a = b.
Proof. apply Z.eqb_eq. Qed.

(* generic map layer: a Go map whose values are matched after an exact-key lookup *)
Section MapLayer.
  Context {K V : Type} (eqb : K -> K -> bool) (eqb_eq : forall a b, eqb a b = true <-> a = b) (mt : V -> bool).
  Definition omt (o : option V) : bool := match o with Some v => mt v | None => false end.
  Lemma map_layer k k' v' m x :
    mt v' = omt (aget eqb k m) || x ->
    omt (aget eqb k' (aset eqb k v' m)) = omt (aget eqb k' m) || (eqb k k' && x).
  Proof.
    intros H. rewrite (aget_aset eqb eqb_eq). destruct (eqb k k') eqn:E; simpl.
    - apply eqb_eq in E; subst k'. exact H.
    - now rewrite orb_false_r.
  Qed.
End MapLayer.

Section Fixed.
  Variables (cf : fwconf) (incoming : bool) (pkt : packet) (pr : peer) (pl : pool).

  (* ---- local CIDR node ---- *)
  Definition lsel_ok (sel : csel) : bool :=
    match sel with
    | CAny => true
    | CNone => if negb (nonempty (my_unsafe cf)) || dlca cf then true else any_contains (my_nets cf) (pk_local pkt)
    | CPfx p => contains p (pk_local pkt)
    | CBad => false
    end.

  Lemma fold_insert_contains l : forall s a,
    any_contains (fold_left (fun s n => lite_insert n s) l s) a = any_contains s a || any_contains l a.
  Proof.
    induction l as [|n l IH]; intros s a; simpl; [now rewrite orb_false_r|].
    rewrite IH, any_contains_insert. unfold any_contains at 3. simpl.
    fold (any_contains l a). destruct (contains n a), (any_contains s a), (any_contains l a); reflexivity.
  Qed.

  Lemma lc_add_match sel lc lc' :
    lc_add cf sel lc = Some lc' -> lc_match lc' pkt = lc_match lc pkt || lsel_ok sel.
  Proof.
    unfold lc_add, lc_match, lsel_ok. destruct sel as [| |p|]; intros H.
    - destruct (negb (nonempty (my_unsafe cf)) || dlca cf); inversion H; subst; simpl.
      + now rewrite orb_true_r.
      + rewrite fold_insert_contains. now rewrite orb_assoc.
    - inversion H; subst; simpl. now rewrite orb_true_r.
    - inversion H; subst; simpl. rewrite any_contains_insert.
      destruct (lc_any lc), (contains p (pk_local pkt)), (any_contains (lc_set lc) (pk_local pkt)); reflexivity.
    - discriminate.
  Qed.

  Lemma lc_empty_match : lc_match lc_empty pkt = false.
  Proof. reflexivity. Qed.

  Lemma lc_add_odef sel o lc' :
    lc_add cf sel (odef lc_empty o) = Some lc' -> lc_match lc' pkt = olc_match o pkt || lsel_ok sel.
  Proof. intros H. rewrite (lc_add_match _ _ _ H). now destruct o. Qed.

  (* ---- rule node ---- *)
  Lemma supernets_existsb (t : @tbl lcidr) :
    existsb (fun lc => lc_match lc pkt) (tbl_supernets (pk_remote pkt) t) =
    existsb (fun kv => contains (fst kv) (pk_remote pkt) && lc_match (snd kv) pkt) t.
  Proof.
    unfold tbl_supernets. induction t as [|[k v] t IH]; simpl; [reflexivity|].
    destruct (contains k (pk_remote pkt)); simpl; now rewrite IH.
  Qed.

  Definition rsel (r : rule) : bool := local_ok cf r pkt && sel_ok r pkt pr.

  Lemma local_ok_lsel r : local_ok cf r pkt = lsel_ok (r_local r).
  Proof. reflexivity. Qed.

  Lemma rn_add_match r rn rn' :
    rn_add cf r rn = Some rn' -> rn_match rn' pkt pr = rn_match rn pkt pr || rsel r.
  Proof.
    unfold rn_add, rsel, sel_ok. rewrite local_ok_lsel.
    destruct (is_any (r_groups r) (r_host r) (r_cidr r)) eqn:EA.
    - destruct (lc_add cf (r_local r) (odef lc_empty (rn_any rn))) as [lc|] eqn:EL; [|discriminate].
      intros H; inversion H; subst; clear H. unfold rn_match; simpl.
      rewrite (lc_add_odef _ _ _ EL). rewrite andb_true_r.
      set (L := lsel_ok (r_local r)).
      destruct (olc_match (rn_any rn) pkt), L; simpl; try reflexivity.
      all: now rewrite !orb_true_r.
    - (* groups *)
      set (G := existsb (fun g => groups_all (fst g) pr && lc_match (snd g) pkt) (rn_groups rn)).
      set (H0 := olc_match (aget str_eqb (p_name pr) (rn_hosts rn)) pkt).
      set (L := lsel_ok (r_local r)).
      destruct (if nonempty (r_groups r) then
                  match lc_add cf (r_local r) lc_empty with
                  | Some lc => Some (rn_groups rn ++ [(r_groups r, lc)]) | None => None end
                else Some (rn_groups rn)) as [gs|] eqn:EG; [|discriminate].
      assert (HG : existsb (fun g => groups_all (fst g) pr && lc_match (snd g) pkt) gs
                   = G || (groups_all (r_groups r) pr && L)).
      { destruct (nonempty (r_groups r)) eqn:EN.
        - destruct (lc_add cf (r_local r) lc_empty) as [lc|] eqn:EL; [|discriminate].
          inversion EG; subst gs. rewrite existsb_app. simpl. rewrite orb_false_r.
          rewrite (lc_add_match _ _ _ EL). reflexivity.
        - inversion EG; subst gs. unfold groups_all. rewrite EN. simpl. now rewrite orb_false_r. }
      destruct (if nonempty (r_host r) then
                  match lc_add cf (r_local r) (odef lc_empty (aget str_eqb (r_host r) (rn_hosts rn))) with
                  | Some lc => Some (aset str_eqb (r_host r) lc (rn_hosts rn)) | None => None end
                else Some (rn_hosts rn)) as [hs|] eqn:EH; [|discriminate].
      assert (HH : olc_match (aget str_eqb (p_name pr) hs) pkt
                   = H0 || (nonempty (r_host r) && str_eqb (r_host r) (p_name pr) && L)).
      { destruct (nonempty (r_host r)) eqn:EN.
        - destruct (lc_add cf (r_local r) (odef lc_empty (aget str_eqb (r_host r) (rn_hosts rn)))) as [lc|] eqn:EL;
            [|discriminate].
          inversion EH; subst hs. simpl.
          apply (map_layer str_eqb str_eqb_eq (fun lc => lc_match lc pkt)).
          apply (lc_add_odef _ _ _ EL).
        - inversion EH; subst hs. simpl. now rewrite orb_false_r. }
      set (C := existsb (fun lc => lc_match lc pkt) (tbl_supernets (pk_remote pkt) (rn_cidr rn))).
      destruct (match r_cidr r with
                | CPfx p => match lc_add cf (r_local r) (odef lc_empty (tbl_get p (rn_cidr rn))) with
                            | Some lc => Some (tbl_insert p lc (rn_cidr rn)) | None => None end
                | CBad => None
                | _ => Some (rn_cidr rn) end) as [cs|] eqn:EC; [|discriminate].
      assert (HC : existsb (fun lc => lc_match lc pkt) (tbl_supernets (pk_remote pkt) cs)
                   = C || (match r_cidr r with CPfx p => contains p (pk_remote pkt) | _ => false end && L)).
      { destruct (r_cidr r) as [| |p|] eqn:ER.
        - inversion EC; subst cs. simpl. now rewrite orb_false_r.
        - inversion EC; subst cs. simpl. now rewrite orb_false_r.
        - destruct (lc_add cf (r_local r) (odef lc_empty (tbl_get p (rn_cidr rn)))) as [lc|] eqn:EL; [|discriminate].
          inversion EC; subst cs. unfold C. rewrite !supernets_existsb. unfold tbl_insert.
          rewrite <- (contains_masked p).
          apply (existsb_aset pfx_eqb pfx_eqb_eq (fun k v => contains k (pk_remote pkt) && lc_match v pkt)).
          rewrite (lc_add_odef _ _ _ EL). unfold tbl_get.
          destruct (aget pfx_eqb (masked p) (rn_cidr rn)); simpl.
          + now rewrite andb_orb_distrib_r.
          + reflexivity.
        - discriminate. }
      intros H; inversion H; subst; clear H. unfold rn_match; simpl.
      rewrite HG, HH, HC. fold G H0 C. simpl.
      destruct (olc_match (rn_any rn) pkt), G, H0, C, L, (groups_all (r_groups r) pr),
        (nonempty (r_host r) && str_eqb (r_host r) (p_name pr)),
        (match r_cidr r with CPfx p => contains p (pk_remote pkt) | _ => false end); reflexivity.
  Qed.

  Lemma rn_empty_match : rn_match rn_empty pkt pr = false.
  Proof. reflexivity. Qed.

  Lemma rn_add_odef r o rn' :
    rn_add cf r (odef rn_empty o) = Some rn' -> rn_match rn' pkt pr = orn_match o pkt pr || rsel r.
  Proof. intros H. rewrite (rn_add_match _ _ _ H). now destruct o. Qed.

  (* ---- CA node ---- *)
  Definition csel (r : rule) : bool := ca_ok r pr pl && rsel r.

  Lemma ca_add_match r ca ca' :
    ca_add cf r ca = Some ca' -> ca_match ca' pkt pr pl = ca_match ca pkt pr pl || csel r.
  Proof.
    unfold ca_add, csel, ca_ok.
    destruct (negb (nonempty (r_ca_sha r)) && negb (nonempty (r_ca_name r))) eqn:E0.
    - destruct (rn_add cf r (odef rn_empty (ca_any ca))) as [rn|] eqn:ER; [|discriminate].
      intros H; inversion H; subst; clear H. unfold ca_match; simpl.
      rewrite (rn_add_odef _ _ _ ER).
      destruct (orn_match (ca_any ca) pkt pr), (rsel r); simpl; try reflexivity.
      all: now rewrite ?orb_true_r.
    - set (S0 := orn_match (aget str_eqb (p_issuer pr) (ca_shas ca)) pkt pr).
      destruct (if nonempty (r_ca_sha r) then
                  match rn_add cf r (odef rn_empty (aget str_eqb (r_ca_sha r) (ca_shas ca))) with
                  | Some rn => Some (aset str_eqb (r_ca_sha r) rn (ca_shas ca)) | None => None end
                else Some (ca_shas ca)) as [shas|] eqn:ES; [|discriminate].
      assert (HS : orn_match (aget str_eqb (p_issuer pr) shas) pkt pr
                   = S0 || (nonempty (r_ca_sha r) && str_eqb (r_ca_sha r) (p_issuer pr) && rsel r)).
      { destruct (nonempty (r_ca_sha r)) eqn:EN.
        - destruct (rn_add cf r (odef rn_empty (aget str_eqb (r_ca_sha r) (ca_shas ca)))) as [rn|] eqn:ER;
            [|discriminate].
          inversion ES; subst shas. simpl.
          apply (map_layer str_eqb str_eqb_eq (fun rn => rn_match rn pkt pr)).
          apply (rn_add_odef _ _ _ ER).
        - inversion ES; subst shas. simpl. now rewrite orb_false_r. }
      destruct (if nonempty (r_ca_name r) then
                  match rn_add cf r (odef rn_empty (aget str_eqb (r_ca_name r) (ca_names ca))) with
                  | Some rn => Some (aset str_eqb (r_ca_name r) rn (ca_names ca)) | None => None end
                else Some (ca_names ca)) as [names|] eqn:EN'; [|discriminate].
      assert (HN : forall n, orn_match (aget str_eqb n names) pkt pr
                   = orn_match (aget str_eqb n (ca_names ca)) pkt pr
                     || (nonempty (r_ca_name r) && str_eqb (r_ca_name r) n && rsel r)).
      { intros n. destruct (nonempty (r_ca_name r)) eqn:EN.
        - destruct (rn_add cf r (odef rn_empty (aget str_eqb (r_ca_name r) (ca_names ca)))) as [rn|] eqn:ER;
            [|discriminate].
          inversion EN'; subst names. simpl.
          apply (map_layer str_eqb str_eqb_eq (fun rn => rn_match rn pkt pr)).
          apply (rn_add_odef _ _ _ ER).
        - inversion EN'; subst names. simpl. now rewrite orb_false_r. }
      intros H; inversion H; subst; clear H. unfold ca_match; simpl.
      rewrite HS. fold S0.
      destruct (pool_ca_name pl (p_issuer pr)) as [n|].
      + rewrite HN.
        destruct (orn_match (ca_any ca) pkt pr), S0, (orn_match (aget str_eqb n (ca_names ca)) pkt pr),
          (nonempty (r_ca_sha r)), (nonempty (r_ca_name r)), (str_eqb (r_ca_sha r) (p_issuer pr)),
          (str_eqb (r_ca_name r) n), (rsel r); simpl in *; try reflexivity; discriminate.
      + destruct (orn_match (ca_any ca) pkt pr), S0,
          (nonempty (r_ca_sha r)), (nonempty (r_ca_name r)), (str_eqb (r_ca_sha r) (p_issuer pr)),
          (rsel r); simpl in *; try reflexivity; discriminate.
  Qed.

  Lemma ca_empty_match : ca_match ca_empty pkt pr pl = false.
  Proof. unfold ca_match; simpl. now destruct (pool_ca_name pl (p_issuer pr)). Qed.

  Lemma ca_add_odef r o ca' :
    ca_add cf r (odef ca_empty o) = Some ca' -> ca_match ca' pkt pr pl = oca_match o pkt pr pl || csel r.
  Proof.
    intros H. rewrite (ca_add_match _ _ _ H). destruct o; simpl; [reflexivity|]. now rewrite ca_empty_match.
  Qed.

  (* ---- port map ---- *)
  Lemma port_loop_match r n : forall i pm pm' q,
    port_add_loop cf r n i pm = Some pm' ->
    oca_match (aget Z.eqb q pm') pkt pr pl =
    oca_match (aget Z.eqb q pm) pkt pr pl || (((i <=? q) && (q <? i + Z.of_nat n))%Z && csel r).
  Proof.
    induction n as [|n IH]; intros i pm pm' q H; simpl in H.
    - inversion H; subst.
      replace ((i <=? q) && (q <? i + Z.of_nat 0))%Z with false; [now rewrite orb_false_r|].
      symmetry. apply andb_false_iff. destruct (Z.leb_spec i q); [right; apply Z.ltb_ge; lia|now left].
    - destruct (ca_add cf r (odef ca_empty (aget Z.eqb i pm))) as [ca|] eqn:EC; [|discriminate].
      rewrite (IH _ _ _ q H).
      rewrite (map_layer Z.eqb Zeqb_eq (fun ca => ca_match ca pkt pr pl) i q ca pm (csel r) (ca_add_odef _ _ _ EC)).
      assert (E : ((i <=? q) && (q <? i + Z.of_nat (S n)))%Z
                  = ((i =? q)%Z || ((i + 1 <=? q) && (q <? i + 1 + Z.of_nat n))%Z)).
      { destruct (Z.eqb_spec i q), (Z.leb_spec i q), (Z.leb_spec (i + 1) q),
          (Z.ltb_spec q (i + Z.of_nat (S n))), (Z.ltb_spec q (i + 1 + Z.of_nat n)); simpl; try reflexivity; lia. }
      rewrite E.
      destruct (oca_match (aget Z.eqb q pm) pkt pr pl), (i =? q)%Z,
        ((i + 1 <=? q) && (q <? i + 1 + Z.of_nat n))%Z, (csel r); reflexivity.
  Qed.

  Definition port_cond (s e : Z) : bool :=
    in_range s e port_any || (negb (is_icmp (pk_proto pkt)) && in_range s e (pkt_port incoming pkt)).

  Lemma port_add_match r s e pm pm' :
    port_add cf r s e pm = Some pm' ->
    port_match pm' incoming pkt pr pl = port_match pm incoming pkt pr pl || (port_cond s e && csel r).
  Proof.
    unfold port_add. destruct (Z.ltb_spec e s) as [|Hle]; [discriminate|]. intros H.
    assert (R : forall q, (((s <=? q) && (q <? s + Z.of_nat (Z.to_nat (e - s + 1))))%Z) = in_range s e q).
    { intros q. unfold in_range. rewrite Z2Nat.id by lia.
      destruct (Z.leb_spec s q), (Z.ltb_spec q (s + (e - s + 1))), (Z.leb_spec q e); simpl; try reflexivity; lia. }
    unfold port_match, port_cond.
    rewrite !(port_loop_match _ _ _ _ _ _ H), !R.
    destruct (is_icmp (pk_proto pkt)); simpl.
    - now rewrite orb_false_r.
    - destruct (oca_match (aget Z.eqb (pkt_port incoming pkt) pm) pkt pr pl),
        (oca_match (aget Z.eqb port_any pm) pkt pr pl), (in_range s e (pkt_port incoming pkt)),
        (in_range s e port_any), (csel r); reflexivity.
  Qed.

  (* ---- protocol table ---- *)
  Lemma port_ok_cond r : port_ok incoming r pkt = port_cond (fst (eff_ports r)) (snd (eff_ports r)).
  Proof. unfold port_ok, port_cond. now destruct (eff_ports r). Qed.

  Ltac consts := cbv [proto_any proto_tcp proto_udp proto_icmp proto_icmpv6] in *; cbn [N.eqb Pos.eqb] in *.

  Lemma add_rule_match r t t' :
    add_rule cf r t = Some t' ->
    table_match t' incoming pkt pr pl = table_match t incoming pkt pr pl || rule_matches cf incoming pkt pr pl r.
  Proof.
    unfold add_rule, rule_matches. rewrite port_ok_cond. unfold eff_ports, proto_ok.
    rewrite <- !andb_assoc. fold (rsel r). fold (csel r).
    set (P := pk_proto pkt).
    destruct (r_proto r =? proto_tcp) eqn:E1; [|destruct (r_proto r =? proto_udp) eqn:E2;
      [|destruct (is_icmp (r_proto r)) eqn:E3; [|destruct (r_proto r =? proto_any) eqn:E4; [|discriminate]]]].
    - apply N.eqb_eq in E1.
      destruct (port_add cf r (r_start r) (r_end r) (t_tcp t)) as [pm|] eqn:EP; [|discriminate].
      intros H; inversion H; subst; clear H. unfold table_match; simpl. fold P.
      rewrite (port_add_match _ _ _ _ _ EP). unfold is_icmp at 1 2. rewrite E1. simpl.
      set (pc := port_cond (r_start r) (r_end r)). clearbody pc.
      consts. destruct (P =? 6); simpl.
      + destruct (port_match (t_anyp t) incoming pkt pr pl), (port_match (t_tcp t) incoming pkt pr pl), pc, (csel r);
          reflexivity.
      + now rewrite orb_false_r.
    - apply N.eqb_eq in E2.
      destruct (port_add cf r (r_start r) (r_end r) (t_udp t)) as [pm|] eqn:EP; [|discriminate].
      intros H; inversion H; subst; clear H. unfold table_match; simpl. fold P.
      rewrite (port_add_match _ _ _ _ _ EP). unfold is_icmp at 1 2. rewrite E2. simpl.
      set (pc := port_cond (r_start r) (r_end r)). clearbody pc.
      consts. destruct (P =? 6) eqn:EP6; simpl.
      + apply N.eqb_eq in EP6. rewrite EP6. simpl. now rewrite orb_false_r.
      + destruct (P =? 17); simpl.
        * destruct (port_match (t_anyp t) incoming pkt pr pl), (port_match (t_udp t) incoming pkt pr pl), pc, (csel r);
            reflexivity.
        * now rewrite orb_false_r.
    - destruct (port_add cf r port_any port_any (t_icmp t)) as [pm|] eqn:EP; [|discriminate].
      intros H; inversion H; subst; clear H. unfold table_match; simpl. fold P.
      rewrite (port_add_match _ _ _ _ _ EP). rewrite E3. simpl.
      set (pc := port_cond port_any port_any). clearbody pc.
      rewrite E1, E2. simpl.
      assert (E4 : (r_proto r =? proto_any) = false).
      { unfold is_icmp in E3. apply orb_true_iff in E3 as [E3|E3]; apply N.eqb_eq in E3; rewrite E3; reflexivity. }
      rewrite E4. simpl.
      destruct (P =? proto_tcp) eqn:EP6; [|destruct (P =? proto_udp) eqn:EP17].
      + apply N.eqb_eq in EP6. unfold is_icmp. rewrite EP6. consts. simpl. now rewrite orb_false_r.
      + apply N.eqb_eq in EP17. unfold is_icmp. rewrite EP17. consts. simpl. now rewrite orb_false_r.
      + destruct (is_icmp P); simpl.
        * destruct (port_match (t_anyp t) incoming pkt pr pl), (port_match (t_icmp t) incoming pkt pr pl), pc, (csel r);
            reflexivity.
        * now rewrite orb_false_r.
    - destruct (port_add cf r (r_start r) (r_end r) (t_anyp t)) as [pm|] eqn:EP; [|discriminate].
      intros H; inversion H; subst; clear H. unfold table_match; simpl. fold P.
      rewrite (port_add_match _ _ _ _ _ EP). rewrite E4. simpl.
      set (pc := port_cond (r_start r) (r_end r)). clearbody pc.
      destruct (port_match (t_anyp t) incoming pkt pr pl), pc, (csel r); simpl; try reflexivity.
      all: now rewrite ?orb_true_r.
  Qed.

  Lemma empty_table_match : table_match empty_table incoming pkt pr pl = false.
  Proof.
    unfold table_match, empty_table, port_match; simpl.
    destruct (is_icmp (pk_proto pkt)), (pk_proto pkt =? proto_tcp), (pk_proto pkt =? proto_udp); reflexivity.
  Qed.

  Lemma add_rules_match rs : forall t t',
    add_rules cf rs t = Some t' ->
    table_match t' incoming pkt pr pl = table_match t incoming pkt pr pl || existsb (rule_matches cf incoming pkt pr pl) rs.
  Proof.
    induction rs as [|r rs IH]; intros t t' H; simpl in *.
    - inversion H; subst. now rewrite orb_false_r.
    - destruct (add_rule cf r t) as [t1|] eqn:E; [|discriminate].
      rewrite (IH _ _ H), (add_rule_match _ _ _ E). now rewrite orb_assoc.
  Qed.
End Fixed.

(* The refinement theorem: for every rule list the builder accepts, every packet, peer certificate and CA pool *)
Theorem refine cf rs t incoming pkt pr pl :
  add_rules cf rs empty_table = Some t ->
  table_match t incoming pkt pr pl = existsb (rule_matches cf incoming pkt pr pl) rs.
Proof. intros H. rewrite (add_rules_match _ _ _ _ _ _ _ _ H). now rewrite empty_table_match. Qed.

(* Lemmas about model/SendBatch.v: histories of Commit / Flush over the WriteBatch model. *)
From Coq Require Import List NArith ZArith Lia Bool Arith Sorted.
Import ListNotations.
From NV Require Import lib.Bytes gen.Consts_WriteBatch model.WriteBatch proofs.WriteBatch_proofs model.SendBatch.
Open Scope N_scope.

Lemma inc_between_map_seq b n : forall l lo hi,
  inc_between lo hi l -> (hi <= n)%nat ->
  inc_between (b + lo) (b + hi) (map (fun i => nth i (seq b n) 0%nat) l).
Proof.
  induction l as [|x r IH]; intros lo hi H Hn; cbn [map inc_between] in *; [lia|].
  destruct H as [H1 H2]. pose proof (inc_between_le _ _ _ H2) as Hx.
  rewrite seq_nth by lia. split; [lia|].
  eapply inc_between_weaken; [| |apply (IH _ _ H2 Hn)]; lia.
Qed.

(* the result of one flush, whatever the queue *)
Definition flush_res cap maxSegs orc st : result :=
  match sb_queue st with
  | [] => mkResult [] (Done 0) (sb_gso st)
  | _ => write_batch_cap cap (sb_gso st) maxSegs (map snd (sb_queue st)) (shift orc (sb_k st))
  end.

Lemma flush_res_spec cap maxSegs orc st :
  let r := flush_res cap maxSegs orc st in
  inc_between 0 (length (sb_queue st)) (sent_indices (r_calls r)) /\
  (forall n, r_out r = Done n \/ r_out r = NoProgress n -> n = N.of_nat (length (sent_indices (r_calls r)))) /\
  r_out r <> OutOfFuel.
Proof.
  unfold flush_res. destruct (sb_queue st) as [|q0 q] eqn:Eq.
  - cbn [r_calls r_out length]. split; [cbn; lia|]. split; [|discriminate].
    intros n [X|X]; inversion X. reflexivity.
  - destruct (write_batch_cap_spec cap (sb_gso st) maxSegs (map snd (q0 :: q)) (shift orc (sb_k st)))
      as (H1 & H2 & _ & _ & H5 & _).
    rewrite map_length in H1. auto.
Qed.

Lemma run_ops_spec : forall ops cap maxSegs orc st b,
  map fst (sb_queue st) = seq b (length (sb_queue st)) ->
  sb_next st = (b + length (sb_queue st))%nat ->
  flat_map f_ids (run_ops cap maxSegs orc st ops) = seq b (handed (length (sb_queue st)) ops) /\
  inc_between b (b + handed (length (sb_queue st)) ops) (flat_map accepted_ids (run_ops cap maxSegs orc st ops)) /\
  Forall (fun f =>
            Forall (fun x => In x (f_ids f)) (accepted_ids f) /\
            (forall n, r_out (f_res f) = Done n \/ r_out (f_res f) = NoProgress n ->
                       n = N.of_nat (length (accepted_ids f))) /\
            r_out (f_res f) <> OutOfFuel)
         (run_ops cap maxSegs orc st ops).
Proof.
  induction ops as [|o ops IH]; intros cap maxSegs orc st b Hq Hn.
  - cbn [run_ops flat_map handed seq inc_between]. repeat split; [lia|constructor].
  - destruct o as [p|].
    + cbn [run_ops handed].
      specialize (IH cap maxSegs orc
                     (mkSB (sb_queue st ++ [(sb_next st, p)]) (S (sb_next st)) (sb_gso st) (sb_k st)) b).
      cbn [sb_queue sb_next] in IH. rewrite app_length in IH. cbn [length] in IH.
      replace (length (sb_queue st) + 1)%nat with (S (length (sb_queue st))) in IH by lia.
      apply IH.
      * rewrite map_app, Hq, seq_S. cbn [map fst]. rewrite Hn. reflexivity.
      * lia.
    + cbn [run_ops handed].
      fold (flush_res cap maxSegs orc st).
      set (res := flush_res cap maxSegs orc st).
      set (n := length (sb_queue st)) in *.
      destruct (flush_res_spec cap maxSegs orc st) as (F1 & F2 & F3). fold res in F1, F2, F3. fold n in F1.
      specialize (IH cap maxSegs orc (mkSB [] (sb_next st) (r_gso res) (sb_k st + length (r_calls res))) (b + n)%nat).
      cbn [sb_queue sb_next length] in IH.
      assert (Hnx : sb_next st = (b + n + 0)%nat) by (rewrite Hn, Nat.add_0_r; reflexivity).
      destruct (IH eq_refl Hnx) as (I1 & I2 & I3).
      assert (Hacc : inc_between (b + 0) (b + n) (accepted_ids (mkFlush (map fst (sb_queue st)) res))).
      { unfold accepted_ids. cbn [f_ids f_res]. rewrite Hq. apply inc_between_map_seq; [exact F1|lia]. }
      cbn [flat_map f_ids].
      split; [|split].
      * rewrite I1, Hq. symmetry. apply seq_app.
      * apply inc_between_app with (mid := (b + n)%nat).
        -- eapply inc_between_weaken; [| |exact Hacc]; lia.
        -- eapply inc_between_weaken; [| |exact I2]; lia.
      * constructor; [|exact I3]. cbn [f_ids f_res]. split; [|split].
        -- pose proof (inc_between_bounds _ _ _ Hacc) as Hb. cbn [f_ids f_res] in *.
           eapply Forall_impl; [|exact Hb]. cbv beta. intros x Hx. rewrite Hq. apply in_seq. lia.
        -- intros m Hm. rewrite (F2 m Hm). unfold accepted_ids. rewrite map_length. reflexivity.
        -- exact F3.
Qed.

Lemma send_batch_spec cap gso maxSegs orc ops :
  flat_map f_ids (send_batch cap gso maxSegs orc ops) = seq 0 (handed 0 ops) /\
  inc_between 0 (handed 0 ops) (flat_map accepted_ids (send_batch cap gso maxSegs orc ops)) /\
  Forall (fun f =>
            Forall (fun x => In x (f_ids f)) (accepted_ids f) /\
            (forall n, r_out (f_res f) = Done n \/ r_out (f_res f) = NoProgress n ->
                       n = N.of_nat (length (accepted_ids f))) /\
            r_out (f_res f) <> OutOfFuel)
         (send_batch cap gso maxSegs orc ops).
Proof.
  unfold send_batch.
  destruct (run_ops_spec ops cap maxSegs orc (mkSB [] 0 gso 0) 0%nat eq_refl eq_refl) as (H1 & H2 & H3).
  cbn [sb_queue length Nat.add] in *. auto.
Qed.

(* every datagram committed before the last Flush is handed to WriteBatch exactly once, in commit order, and
   by the first Flush after its Commit: nothing is retained across a Flush *)
Lemma sb_drains cap gso maxSegs orc ops :
  flat_map f_ids (send_batch cap gso maxSegs orc ops) = seq 0 (handed 0 ops).
Proof. apply send_batch_spec. Qed.

(* over the whole history no datagram is accepted by the kernel twice *)
Lemma sb_once cap gso maxSegs orc ops : NoDup (flat_map accepted_ids (send_batch cap gso maxSegs orc ops)).
Proof.
  destruct (send_batch_spec cap gso maxSegs orc ops) as (_ & H & _).
  eapply sorted_nodup, inc_between_sorted, H.
Qed.

Lemma sb_order cap gso maxSegs orc ops : StronglySorted lt (flat_map accepted_ids (send_batch cap gso maxSegs orc ops)).
Proof.
  destruct (send_batch_spec cap gso maxSegs orc ops) as (_ & H & _). eapply inc_between_sorted, H.
Qed.

Lemma sb_flush cap gso maxSegs orc ops f : In f (send_batch cap gso maxSegs orc ops) ->
  Forall (fun x => In x (f_ids f)) (accepted_ids f) /\
  (forall n, r_out (f_res f) = Done n \/ r_out (f_res f) = NoProgress n -> n = N.of_nat (length (accepted_ids f))) /\
  r_out (f_res f) <> OutOfFuel.
Proof.
  destruct (send_batch_spec cap gso maxSegs orc ops) as (_ & _ & H).
  rewrite Forall_forall in H. apply H.
Qed.

(* Lemmas for C45: filepath.Clean's lazybuf algorithm agrees with component-wise resolution, and
   sshSanitizeFilePath accepts exactly the paths that resolve strictly inside a non-root sandbox. *)
From Coq Require Import List Arith NArith Bool Lia.
Import ListNotations.
From NV Require Import lib.Corr model.SshPath.
Open Scope N_scope.

Definition sepfree (e : list N) : Prop := Forall (fun c => is_sep c = false) e.
Definition name_ok (e : list N) : Prop := e <> [] /\ sepfree e /\ is_dot e = false /\ is_dotdot e = false.

(* the bytes up to the next separator, and the rest starting at that separator *)
Fixpoint tw (p : list N) : list N := match p with [] => [] | c :: r => if is_sep c then [] else c :: tw r end.
Fixpoint dw (p : list N) : list N := match p with [] => [] | c :: r => if is_sep c then p else dw r end.

Lemma is_sep_slash : is_sep slash = true. Proof. reflexivity. Qed.
Lemma is_sep_dot : is_sep dot = false. Proof. reflexivity. Qed.
Lemma is_sep_true c : is_sep c = true -> c = slash.
Proof. unfold is_sep. apply N.eqb_eq. Qed.

Lemma is_dot_iff e : is_dot e = true <-> e = [dot].
Proof. unfold is_dot. apply nlist_eqb_eq. Qed.
Lemma is_dotdot_iff e : is_dotdot e = true <-> e = [dot; dot].
Proof. unfold is_dotdot. apply nlist_eqb_eq. Qed.

Lemma sepfree_tw p : sepfree (tw p).
Proof.
  induction p as [|c r IH]; cbn [tw]; [constructor|].
  destruct (is_sep c) eqn:E; [constructor|]. constructor; assumption.
Qed.

Lemma dw_length p : (length (dw p) <= length p)%nat.
Proof. induction p as [|c r IH]; cbn [dw]; [lia|]. destruct (is_sep c); cbn [length]; lia. Qed.

Lemma dw_eos p : end_or_sep (dw p) = true.
Proof. induction p as [|c r IH]; cbn [dw]; [reflexivity|]. destruct (is_sep c) eqn:E; [cbn; exact E|exact IH]. Qed.

Lemma tw_eos r : end_or_sep r = true -> tw r = [].
Proof. destruct r as [|c r]; cbn; [reflexivity|]. intros ->. reflexivity. Qed.

Lemma tw_nil_eos r : tw r = [] -> end_or_sep r = true.
Proof. destruct r as [|c r]; cbn; [reflexivity|]. destruct (is_sep c); [reflexivity|discriminate]. Qed.

(* ---- components ---- *)
Lemma comps_ne p : components p <> [].
Proof.
  destruct p as [|c r]; cbn [components]; [discriminate|].
  destruct (is_sep c); [discriminate|]. destruct (components r); discriminate.
Qed.

Lemma comps_cons c r : is_sep c = false ->
  components (c :: r) = (c :: hd [] (components r)) :: tl (components r).
Proof.
  intros E. cbn [components]. rewrite E. pose proof (comps_ne r) as H.
  destruct (components r); [contradiction|reflexivity].
Qed.

Lemma comps_sep c r : is_sep c = true -> components (c :: r) = [] :: components r.
Proof. intros E. cbn [components]. now rewrite E. Qed.

Lemma comps_eos r : end_or_sep r = true -> components r = [] :: tl (components r).
Proof. destruct r as [|c r]; cbn [end_or_sep]; [reflexivity|]. intros E. now rewrite comps_sep. Qed.

Lemma comps_tw_dw p : components p = tw p :: tl (components (dw p)).
Proof.
  induction p as [|c r IH]; [reflexivity|]. cbn [tw dw]. destruct (is_sep c) eqn:E.
  - now rewrite comps_sep.
  - rewrite comps_cons by assumption. rewrite IH. reflexivity.
Qed.

Lemma comps_sepfree p : Forall sepfree (components p).
Proof.
  induction p as [|c r IH]; [repeat constructor|].
  destruct (is_sep c) eqn:E.
  - rewrite comps_sep by assumption. constructor; [constructor|assumption].
  - rewrite comps_cons by assumption. pose proof (comps_ne r) as H.
    destruct (components r) as [|h t]; [contradiction|]. inversion IH; subst. cbn [hd tl].
    constructor; [constructor; assumption|assumption].
Qed.

Lemma comps_app a b : components (a ++ slash :: b) = components a ++ components b.
Proof.
  induction a as [|c a IH]; [reflexivity|]. rewrite <- app_comm_cons.
  destruct (is_sep c) eqn:E.
  - rewrite !comps_sep by assumption. now rewrite IH.
  - rewrite !comps_cons by assumption. rewrite IH. pose proof (comps_ne a) as H.
    destruct (components a); [contradiction|reflexivity].
Qed.

Lemma comps_single e : sepfree e -> components e = [e].
Proof.
  induction 1 as [|c e Hc He IH]; [reflexivity|]. rewrite comps_cons by assumption. now rewrite IH.
Qed.

(* ---- join ---- *)
Lemma join_cons2 e f t : join (e :: f :: t) = e ++ slash :: join (f :: t).
Proof. reflexivity. Qed.

Lemma join_app l1 l2 : l1 <> [] -> l2 <> [] -> join (l1 ++ l2) = join l1 ++ slash :: join l2.
Proof.
  intros H1 H2. induction l1 as [|e t IH]; [contradiction|].
  destruct t as [|f t].
  - destruct l2 as [|g l2]; [contradiction|]. reflexivity.
  - change ((e :: f :: t) ++ l2) with (e :: f :: (t ++ l2)). rewrite !join_cons2.
    change (f :: t ++ l2) with ((f :: t) ++ l2). rewrite IH by discriminate. now rewrite <- app_assoc.
Qed.

Lemma join_snoc l e : l <> [] -> join (l ++ [e]) = join l ++ slash :: e.
Proof. intros H. now rewrite join_app by (assumption || discriminate). Qed.

Lemma join_le a b : (length (join a) <= length (join (a ++ b)))%nat.
Proof.
  destruct a as [|e a]; [cbn; lia|]. destruct b as [|f b]; [rewrite app_nil_r; lia|].
  rewrite join_app by discriminate. rewrite app_length. lia.
Qed.

Lemma join_nil_inv l : Forall (fun e => e <> []) l -> join l = [] -> l = [].
Proof.
  intros H E. destruct l as [|e t]; [reflexivity|]. inversion H; subst.
  destruct t; cbn [join] in E.
  - contradiction.
  - destruct e; [contradiction|discriminate].
Qed.

Lemma comps_join ns : Forall sepfree ns -> ns <> [] -> components (join ns) = ns.
Proof.
  induction 1 as [|e t He Ht IH]; [contradiction|]. intros _.
  destruct t as [|f t]; [now apply comps_single|].
  rewrite join_cons2, comps_app, comps_single by assumption. rewrite IH by discriminate. reflexivity.
Qed.

(* ---- step / walk ---- *)
Lemma step_nil r st : step r st [] = st. Proof. reflexivity. Qed.
Lemma step_dot r st : step r st [dot] = st. Proof. reflexivity. Qed.
Lemma step_dotdot r st : step r st [dot; dot] =
  match snd st with _ :: t => (fst st, t) | [] => if r then st else (S (fst st), []) end.
Proof. reflexivity. Qed.
Lemma step_name r st e : name_ok e -> step r st e = (fst st, e :: snd st).
Proof.
  intros (Hne & _ & Hd & Hdd). unfold step. destruct e; [contradiction|]. now rewrite Hd, Hdd.
Qed.

Lemma walk_cons r st e cs : walk r st (e :: cs) = walk r (step r st e) cs.
Proof. reflexivity. Qed.
Lemma walk_app r st a b : walk r st (a ++ b) = walk r (walk r st a) b.
Proof. apply fold_left_app. Qed.

Lemma walk_names r ns : Forall name_ok ns -> forall u stk, walk r (u, stk) ns = (u, rev ns ++ stk).
Proof.
  induction 1 as [|e t He Ht IH]; intros u stk; [reflexivity|].
  rewrite walk_cons, step_name by assumption. cbn [fst snd]. rewrite IH. cbn [rev]. now rewrite <- app_assoc.
Qed.

Definition Inv (rooted : bool) (st : nat * list (list N)) : Prop :=
  Forall name_ok (snd st) /\ (rooted = true -> fst st = O).

Lemma step_inv r st e : sepfree e -> Inv r st -> Inv r (step r st e).
Proof.
  intros He [Hn Hr]. destruct st as [u stk]. unfold step. cbn [fst snd] in *.
  destruct e as [|c e]; [split; assumption|].
  destruct (is_dot (c :: e)) eqn:Ed; [split; assumption|].
  destruct (is_dotdot (c :: e)) eqn:Edd.
  - destruct stk as [|x t].
    + destruct r; [split; assumption|]. split; [constructor|discriminate].
    + split; cbn [fst snd]; [now inversion Hn|exact Hr].
  - split; cbn [fst snd]; [|exact Hr]. constructor; [|assumption]. repeat split; try assumption. discriminate.
Qed.

Lemma walk_inv r cs : Forall sepfree cs -> forall st, Inv r st -> Inv r (walk r st cs).
Proof.
  induction 1 as [|e t He Ht IH]; intros st Hi; [assumption|]. rewrite walk_cons. apply IH. now apply step_inv.
Qed.

(* ---- the lazybuf ---- *)
Lemma backtrack_stop e : sepfree e -> forall c R dd, is_sep c = false -> length R = dd ->
  backtrack c (e ++ R) dd = R.
Proof.
  induction 1 as [|c' e Hc' He IH]; intros c R dd Hc HR.
  - cbn [app]. destruct R; cbn [backtrack]; subst dd; rewrite Nat.ltb_irrefl; reflexivity.
  - cbn [app backtrack]. replace (dd <? length (c' :: e ++ R))%nat with true.
    + rewrite Hc. cbn [negb andb]. now apply IH.
    + symmetry. apply Nat.ltb_lt. cbn [length]. rewrite app_length. lia.
Qed.

Lemma backtrack_sep e : sepfree e -> forall c R dd, is_sep c = false -> (dd <= length R)%nat ->
  backtrack c (e ++ slash :: R) dd = R.
Proof.
  induction 1 as [|c' e Hc' He IH]; intros c R dd Hc HR.
  - cbn [app backtrack]. replace (dd <? length (slash :: R))%nat with true
      by (symmetry; apply Nat.ltb_lt; cbn [length]; lia).
    rewrite Hc. cbn [negb andb]. destruct R; cbn [backtrack]; rewrite is_sep_slash, andb_false_r; reflexivity.
  - cbn [app backtrack]. replace (dd <? length (c' :: e ++ slash :: R))%nat with true.
    + rewrite Hc. cbn [negb andb]. now apply IH.
    + symmetry. apply Nat.ltb_lt. cbn [length]. rewrite app_length. cbn [length]. lia.
Qed.

Lemma rev_name x : x <> [] -> sepfree x -> exists c e, rev x = c :: e /\ is_sep c = false /\ sepfree e.
Proof.
  intros Hne Hs. assert (Hr : sepfree (rev x)) by (apply Forall_rev; assumption).
  destruct (rev x) as [|c e] eqn:E.
  - apply (f_equal (@rev N)) in E. rewrite rev_involutive in E. contradiction.
  - inversion Hr; subst. eauto.
Qed.

Definition pre (rooted : bool) : list N := if rooted then [slash] else [].
Definition outbuf (rooted : bool) (st : nat * list (list N)) : list N := rev (pre rooted ++ join (items st)).
Definition ddidx (rooted : bool) (st : nat * list (list N)) : nat :=
  if rooted then 1%nat else length (join (repeat [dot; dot] (fst st))).

Lemma repeat_snoc {A} (x : A) n : repeat x (S n) = repeat x n ++ [x].
Proof. induction n as [|n IH]; [reflexivity|]. cbn [repeat app] in *. now rewrite <- IH. Qed.

Lemma items_ne st : Forall name_ok (snd st) -> Forall (fun e => e <> []) (items st).
Proof.
  intros H. unfold items. apply Forall_app. split.
  - apply Forall_forall. intros e He. apply repeat_spec in He. subst. discriminate.
  - apply Forall_rev. eapply Forall_impl; [|exact H]. intros e (Hne & _). exact Hne.
Qed.

(* the ".." element of Clean is one [step] on ".." *)
Lemma dotdot_elem_spec rooted st : Inv rooted st ->
  dotdot_elem rooted (outbuf rooted st) (ddidx rooted st) =
  (outbuf rooted (step rooted st [dot; dot]), ddidx rooted (step rooted st [dot; dot])).
Proof.
  intros [Hn Hr]. destruct st as [u stk]. cbn [fst snd] in *. rewrite step_dotdot. cbn [fst snd].
  destruct stk as [|x t].
  - (* nothing to pop *)
    unfold dotdot_elem.
    assert (Hlen : length (outbuf rooted (u, [])) = ddidx rooted (u, [])).
    { unfold outbuf, ddidx, items, pre. cbn [fst snd rev]. rewrite app_nil_r, rev_length.
      destruct rooted; [rewrite (Hr eq_refl); reflexivity|reflexivity]. }
    rewrite Hlen, Nat.ltb_irrefl. destruct rooted; [reflexivity|]. cbn [negb].
    unfold outbuf, ddidx, items, pre. cbn [fst snd rev app]. rewrite !app_nil_r.
    destruct u as [|u].
    + reflexivity.
    + rewrite (repeat_snoc _ (S u)). rewrite join_snoc by discriminate.
      rewrite rev_app_distr. cbn [rev app].
      assert (0 < length (join (repeat [dot; dot] (S u))))%nat as Hpos.
      { cbn [repeat]. destruct (repeat [dot; dot] u); cbn [join]; [cbn; lia|rewrite app_length; cbn; lia]. }
      apply Nat.ltb_lt in Hpos. rewrite Hpos. f_equal.
      cbn [length]. rewrite rev_length, app_length. cbn [length]. lia.
  - (* pop x *)
    inversion Hn as [|? ? Hx Ht]; subst. destruct Hx as (Hxne & Hxs & _).
    destruct (rev_name x Hxne Hxs) as (c & e & Erev & Hc & He).
    set (I := items (u, t)).
    assert (HI : items (u, x :: t) = I ++ [x]).
    { unfold I, items. cbn [fst snd rev]. now rewrite app_assoc. }
    assert (Hdd : ddidx rooted (u, t) = ddidx rooted (u, x :: t)) by reflexivity.
    rewrite Hdd. unfold dotdot_elem.
    destruct I as [|i0 I0] eqn:EI.
    + (* x is the only item *)
      assert (Hout : outbuf rooted (u, x :: t) = c :: e ++ rev (pre rooted)).
      { unfold outbuf. rewrite HI. cbn [app join]. rewrite rev_app_distr, Erev. reflexivity. }
      assert (Hu : rooted = false -> u = O).
      { intros _. unfold I, items in EI. cbn [fst snd] in EI. destruct u; [reflexivity|discriminate]. }
      assert (HR : length (rev (pre rooted)) = ddidx rooted (u, x :: t)).
      { unfold ddidx, pre. cbn [fst]. destruct rooted; [reflexivity|]. rewrite (Hu eq_refl). reflexivity. }
      rewrite Hout. replace (ddidx rooted (u, x :: t) <? length (c :: e ++ rev (pre rooted)))%nat with true
        by (symmetry; apply Nat.ltb_lt; cbn [length]; rewrite app_length; lia).
      rewrite backtrack_stop by assumption. f_equal.
      unfold outbuf. fold I. rewrite EI. cbn [join]. now rewrite app_nil_r.
    + (* there is an item before x *)
      assert (Hout : outbuf rooted (u, x :: t) = c :: e ++ slash :: outbuf rooted (u, t)).
      { unfold outbuf. rewrite HI. fold I. rewrite EI. rewrite join_snoc by discriminate.
        rewrite app_assoc, rev_app_distr. cbn [rev]. rewrite <- app_assoc. cbn [app]. rewrite Erev. reflexivity. }
      assert (HR : (ddidx rooted (u, x :: t) <= length (outbuf rooted (u, t)))%nat).
      { unfold outbuf, ddidx, pre. cbn [fst]. rewrite rev_length, app_length. destruct rooted; [cbn; lia|].
        cbn [length]. unfold items. cbn [fst snd]. apply join_le. }
      rewrite Hout. replace (ddidx rooted (u, x :: t) <? length (c :: e ++ slash :: outbuf rooted (u, t)))%nat with true
        by (symmetry; apply Nat.ltb_lt; cbn [length]; rewrite app_length; cbn [length]; lia).
      now rewrite backtrack_sep by assumption.
Qed.

(* the default case of the switch followed by the copy loop pushes the name *)
Lemma elem_spec rooted st c t : Inv rooted st -> name_ok (c :: t) ->
  rev t ++ elem_start rooted (outbuf rooted st) c = outbuf rooted (fst st, (c :: t) :: snd st) /\
  ddidx rooted st = ddidx rooted (fst st, (c :: t) :: snd st).
Proof.
  intros [Hn Hr] Hok. split; [|reflexivity]. destruct st as [u stk]. cbn [fst snd] in *.
  set (I := items (u, stk)).
  assert (HI : items (u, (c :: t) :: stk) = I ++ [c :: t]).
  { unfold I, items. cbn [fst snd rev]. now rewrite app_assoc. }
  assert (Hne : Forall (fun e => e <> []) I) by (apply items_ne; assumption).
  unfold outbuf at 2. rewrite HI. unfold elem_start, outbuf. fold I.
  destruct I as [|i0 I0] eqn:EI.
  - cbn [join app]. rewrite app_nil_r.
    replace (if rooted then negb (length (rev (pre rooted)) =? 1)%nat else negb (length (rev (pre rooted)) =? 0)%nat)
      with false by (destruct rooted; reflexivity).
    rewrite rev_app_distr. cbn [rev]. now rewrite <- app_assoc.
  - rewrite join_snoc by discriminate.
    assert (Hpos : (0 < length (join (i0 :: I0)))%nat).
    { destruct (join (i0 :: I0)) eqn:EJ; [|cbn; lia]. apply join_nil_inv in EJ; [discriminate|assumption]. }
    replace (if rooted then negb (length (rev (pre rooted ++ join (i0 :: I0))) =? 1)%nat
             else negb (length (rev (pre rooted ++ join (i0 :: I0))) =? 0)%nat) with true.
    + transitivity (rev ((pre rooted ++ join (i0 :: I0)) ++ slash :: c :: t)); [|now rewrite <- app_assoc].
      rewrite (rev_app_distr (pre rooted ++ join (i0 :: I0))). cbn [rev]. now rewrite <- !app_assoc.
    + symmetry. rewrite rev_length, app_length.
      destruct rooted; cbn [pre length]; apply negb_true_iff, Nat.eqb_neq; lia.
Qed.

(* the copy loop *)
Lemma inelem_run rooted p : forall out dd,
  clean_loop rooted true p out dd = clean_loop rooted false (dw p) (rev (tw p) ++ out) dd.
Proof.
  induction p as [|c r IH]; intros out dd; [reflexivity|].
  cbn [clean_loop tw dw]. destruct (is_sep c) eqn:E.
  - cbn [clean_loop rev app]. now rewrite E.
  - rewrite IH. cbn [rev]. now rewrite <- app_assoc.
Qed.

(* a component that the switch sends to the default case is a proper name *)
Lemma real_name c r : is_sep c = false -> (c =? dot) && end_or_sep r = false ->
  match r with c1 :: r1 => (c =? dot) && (c1 =? dot) && end_or_sep r1 = false | [] => True end ->
  name_ok (c :: tw r).
Proof.
  intros Hc Hd Hdd. repeat split.
  - discriminate.
  - constructor; [assumption|apply sepfree_tw].
  - destruct (is_dot (c :: tw r)) eqn:E; [|reflexivity]. apply is_dot_iff in E. injection E as -> Et.
    apply tw_nil_eos in Et. rewrite Et in Hd. discriminate.
  - destruct (is_dotdot (c :: tw r)) eqn:E; [|reflexivity]. apply is_dotdot_iff in E. injection E as -> Et.
    destruct r as [|c1 r1]; [discriminate|]. cbn [tw] in Et. destruct (is_sep c1); [discriminate|].
    injection Et as -> Et. apply tw_nil_eos in Et. rewrite Et in Hdd. discriminate.
Qed.

(* Clean's loop from a buffer holding the rendering of [st] ends with the rendering of the state
   reached by walking the remaining components *)
Lemma clean_loop_spec rooted : forall n p, (length p <= n)%nat -> forall st, Inv rooted st ->
  clean_loop rooted false p (outbuf rooted st) (ddidx rooted st) = outbuf rooted (walk rooted st (components p)).
Proof.
  induction n as [|n IH]; intros p Hlen st Hinv.
  { destruct p; [reflexivity|cbn in Hlen; lia]. }
  destruct p as [|c r]; [reflexivity|]. cbn [length] in Hlen.
  assert (Hreal : is_sep c = false -> name_ok (c :: tw r) ->
     clean_loop rooted true r (elem_start rooted (outbuf rooted st) c) (ddidx rooted st) =
     outbuf rooted (walk rooted st (components (c :: r)))).
  { intros Hc Hok. rewrite inelem_run.
    destruct (elem_spec rooted st c (tw r) Hinv Hok) as [Eo Ed]. rewrite Eo, Ed.
    rewrite IH.
    - rewrite comps_cons by assumption. rewrite (comps_tw_dw r). cbn [hd tl]. rewrite walk_cons.
      rewrite step_name by assumption. rewrite (comps_eos (dw r)) by apply dw_eos. rewrite (walk_cons _ _ []).
      reflexivity.
    - pose proof (dw_length r). lia.
    - destruct Hinv as [Hn Hr]. split; cbn [fst snd]; [constructor; assumption|exact Hr]. }
  cbn [clean_loop]. destruct (is_sep c) eqn:Hc.
  - rewrite comps_sep by assumption. rewrite walk_cons, step_nil. apply IH; [lia|assumption].
  - destruct ((c =? dot) && end_or_sep r) eqn:Hd.
    + apply andb_prop in Hd as [Hcd Hr]. apply N.eqb_eq in Hcd. subst c.
      rewrite comps_cons by assumption. rewrite (comps_eos r) by assumption. cbn [hd tl].
      rewrite walk_cons, step_dot. rewrite IH by (lia || assumption).
      rewrite (comps_eos r) by assumption. rewrite walk_cons, step_nil. reflexivity.
    + destruct r as [|c1 r1].
      * apply Hreal; [reflexivity|]. apply real_name; trivial.
      * destruct ((c =? dot) && (c1 =? dot) && end_or_sep r1) eqn:Hdd.
        -- apply andb_prop in Hdd as [Hdd Hr]. apply andb_prop in Hdd as [H1 H2].
           apply N.eqb_eq in H1, H2. subst c c1.
           rewrite dotdot_elem_spec by assumption.
           rewrite IH; [|cbn [length] in Hlen; lia|apply step_inv; [repeat constructor|assumption]].
           rewrite comps_cons by reflexivity. rewrite (comps_cons dot r1) by reflexivity.
           rewrite (comps_eos r1) by assumption. cbn [hd tl]. rewrite !walk_cons, step_nil.
           reflexivity.
        -- apply Hreal; [reflexivity|]. apply real_name; trivial.
Qed.

Lemma render_outbuf rooted st :
  match outbuf rooted st with [] => [dot] | _ :: _ => rev (outbuf rooted st) end = render rooted (items st).
Proof.
  unfold outbuf, render, pre. destruct ((if rooted then [slash] else []) ++ join (items st)) as [|a l] eqn:E.
  - reflexivity.
  - destruct (rev (a :: l)) eqn:E2.
    + apply (f_equal (@rev N)) in E2. rewrite rev_involutive in E2. discriminate.
    + rewrite <- E2. apply rev_involutive.
Qed.

Lemma clean_loop_rel p : clean_loop false false p [] 0 = outbuf false (walk false (O, []) (components p)).
Proof. apply (clean_loop_spec false (length p) p (le_n _) (O, [])). split; [constructor|discriminate]. Qed.

Lemma clean_loop_abs p : clean_loop true false p [slash] 1 = outbuf true (walk true (O, []) (components p)).
Proof. apply (clean_loop_spec true (length p) p (le_n _) (O, [])). split; [constructor|reflexivity]. Qed.

(* filepath.Clean computes the normal form of the path's components (both rooted and relative paths) *)
Lemma clean_normalise p : clean p = render (is_abs p) (normalise (is_abs p) (components p)).
Proof.
  destruct p as [|c r]; [reflexivity|]. unfold clean, normalise. cbn [is_abs].
  destruct (is_sep c) eqn:Hc.
  - rewrite comps_sep by assumption. rewrite walk_cons, step_nil. rewrite clean_loop_abs. apply render_outbuf.
  - rewrite clean_loop_rel. apply render_outbuf.
Qed.

Lemma walk_rooted_fst cs : Forall sepfree cs -> forall stk, Forall name_ok stk ->
  fst (walk true (O, stk) cs) = O.
Proof.
  intros H stk Hs. assert (Hi : Inv true (O, stk)) by (split; [assumption|reflexivity]).
  destruct (walk_inv true cs H _ Hi) as [_ Hr]. now apply Hr.
Qed.

(* ---- absolute paths: Clean writes down the location; sanitize decides by locations ---- *)
Lemma resolve_from_ok base p : Forall name_ok base -> Forall name_ok (resolve_from base p).
Proof.
  intros Hb. unfold resolve_from. apply Forall_rev.
  apply (walk_inv true (components p) (comps_sepfree p) (O, rev base)).
  split; [apply Forall_rev; assumption|reflexivity].
Qed.

Lemma loc_of_ok p : Forall name_ok (loc_of p).
Proof. apply resolve_from_ok. constructor. Qed.

Lemma resolve_ok sb p : Forall name_ok (resolve sb p).
Proof. unfold resolve. destruct (is_abs p); [apply loc_of_ok|apply resolve_from_ok, loc_of_ok]. Qed.

Lemma clean_abs p : is_abs p = true -> clean p = abs_render (loc_of p).
Proof.
  intros H. rewrite clean_normalise, H. unfold normalise, items, loc_of, resolve_from. cbn [rev].
  rewrite (walk_rooted_fst (components p) (comps_sepfree p) []) by constructor. reflexivity.
Qed.

Lemma loc_of_render ns : Forall name_ok ns -> loc_of (abs_render ns) = ns.
Proof.
  intros H. unfold loc_of, resolve_from, abs_render. cbn [rev]. rewrite comps_sep by reflexivity.
  rewrite walk_cons, step_nil. destruct ns as [|e t]; [reflexivity|].
  rewrite comps_join; [|eapply Forall_impl; [|exact H]; intros a (_ & Ha & _); exact Ha|discriminate].
  rewrite walk_names by assumption. cbn [snd]. now rewrite app_nil_r, rev_involutive.
Qed.

Lemma clean_render ns : Forall name_ok ns -> clean (abs_render ns) = abs_render ns.
Proof. intros H. rewrite clean_abs by reflexivity. now rewrite loc_of_render. Qed.

Lemma loc_of_join sb p : loc_of (sb ++ slash :: p) = resolve_from (loc_of sb) p.
Proof.
  unfold loc_of, resolve_from. cbn [rev]. rewrite comps_app, walk_app.
  pose proof (walk_rooted_fst (components sb) (comps_sepfree sb) [] (Forall_nil _)) as Hf.
  destruct (walk true (O, []) (components sb)) as [u stk]. cbn [fst snd] in *. subst u.
  now rewrite rev_involutive.
Qed.

Lemma sanitize_fp sb p : is_abs sb = true ->
  clean (if is_abs p then p else join2 sb p) = abs_render (resolve sb p).
Proof.
  intros Hsb. unfold resolve. destruct (is_abs p) eqn:Hp; [now apply clean_abs|].
  destruct sb as [|c sb]; [discriminate|].
  assert (Hj : join2 (c :: sb) p = clean ((c :: sb) ++ slash :: p)) by (destruct p; reflexivity).
  rewrite Hj. rewrite (clean_abs ((c :: sb) ++ slash :: p)) by exact Hsb.
  rewrite loc_of_join. apply clean_render. apply resolve_from_ok, loc_of_ok.
Qed.

Lemma has_prefix_iff s p : has_prefix s p = true <-> exists rest, s = p ++ rest.
Proof.
  revert s. induction p as [|x p IH]; intros s.
  - split; [intros _; now exists s|intros _; destruct s; reflexivity].
  - destruct s as [|y s]; cbn [has_prefix].
    + split; [discriminate|intros [r Hr]; discriminate].
    + rewrite andb_true_iff, N.eqb_eq, IH. split.
      * intros [-> [r ->]]. now exists r.
      * intros [r Hr]. injection Hr as -> ->. split; [reflexivity|now exists r].
Qed.

Lemma proper_prefix_iff a b : proper_prefix a b = true <-> exists e t, b = a ++ e :: t.
Proof.
  revert b. induction a as [|x a IH]; intros b.
  - destruct b as [|y b]; cbn [proper_prefix].
    + split; [discriminate|intros (e & t & H); discriminate].
    + split; [intros _; now exists y, b|reflexivity].
  - destruct b as [|y b]; cbn [proper_prefix].
    + split; [discriminate|intros (e & t & H); discriminate].
    + rewrite andb_true_iff, nlist_eqb_eq, IH. split.
      * intros [-> (e & t & ->)]. now exists e, t.
      * intros (e & t & H). injection H as -> ->. split; [reflexivity|now exists e, t].
Qed.

Lemma proper_prefix_irrefl a : proper_prefix a a = false.
Proof.
  destruct (proper_prefix a a) eqn:E; [|reflexivity]. apply proper_prefix_iff in E as (e & t & H).
  apply (f_equal (@length _)) in H. rewrite app_length in H. cbn [length] in H. lia.
Qed.

Lemma names_sepfree ns : Forall name_ok ns -> Forall sepfree ns.
Proof. intros H. eapply Forall_impl; [|exact H]. intros a (_ & Ha & _). exact Ha. Qed.

(* strings.HasPrefix(cleaned, cleanedSandbox + "/") on rendered locations *)
Lemma prefix_char S R : Forall name_ok S -> Forall name_ok R ->
  has_prefix (abs_render R) (abs_render S ++ [slash]) = true <-> S <> [] /\ proper_prefix S R = true.
Proof.
  intros HS HR. rewrite has_prefix_iff, proper_prefix_iff. unfold abs_render. split.
  - intros [rest H]. cbn [app] in H. injection H as H. rewrite <- app_assoc in H. cbn [app] in H.
    destruct S as [|s0 S'].
    + exfalso. cbn [join app] in H. destruct R as [|e t]; [discriminate|].
      inversion HR as [|? ? (Hne & Hsf & _) _]; subst. destruct e as [|c e]; [contradiction|].
      inversion Hsf as [|? ? Hc _]; subst.
      assert (c = slash) as -> by (destruct t; cbn [join] in H; injection H as -> _; reflexivity).
      discriminate.
    + split; [discriminate|].
      destruct R as [|e t]; [cbn [join] in H; now apply app_cons_not_nil in H|].
      apply (f_equal components) in H. rewrite comps_app in H.
      rewrite !comps_join in H by (discriminate || now apply names_sepfree).
      pose proof (comps_ne rest) as Hne. destruct (components rest) as [|h tl]; [contradiction|].
      now exists h, tl.
  - intros [Hne (e & t & ->)]. exists (join (e :: t)). cbn [app]. f_equal.
    rewrite join_app by (assumption || discriminate). now rewrite <- app_assoc.
Qed.

Definition nonroot (l : loc) : bool := match l with [] => false | _ => true end.

(* sshSanitizeFilePath, completely: with an absolute sandbox directory it accepts exactly the paths whose
   lexical resolution lies strictly inside a sandbox that is not the root directory, and returns the
   canonical spelling of that resolution. (A sandbox resolving to "/" refuses everything, because
   no cleaned path begins with "//".) *)
Lemma sanitize_char sb p : is_abs sb = true ->
  sanitize sb p = if nonroot (loc_of sb) && proper_prefix (loc_of sb) (resolve sb p)
                  then Ok (abs_render (resolve sb p)) else Refused.
Proof.
  intros Hsb. unfold sanitize. destruct sb as [|c sb]; [discriminate|].
  rewrite (sanitize_fp (c :: sb) p Hsb). rewrite (clean_abs (c :: sb) Hsb).
  set (S := loc_of (c :: sb)). set (R := resolve (c :: sb) p).
  assert (HS : Forall name_ok S) by apply loc_of_ok.
  assert (HR : Forall name_ok R) by apply resolve_ok.
  pose proof (prefix_char S R HS HR) as Hpc. clearbody S R.
  destruct (nlist_eqb (abs_render R) (abs_render S)) eqn:E1.
  - apply nlist_eqb_eq in E1. apply (f_equal loc_of) in E1. rewrite !loc_of_render in E1 by assumption.
    rewrite E1, proper_prefix_irrefl, andb_false_r. reflexivity.
  - destruct (has_prefix (abs_render R) (abs_render S ++ [slash])) eqn:E2; cbn [negb].
    + destruct Hpc as [Hpc _]. destruct (Hpc eq_refl) as [Hne Hpp]. rewrite Hpp.
      destruct S; [contradiction|reflexivity].
    + destruct (nonroot S && proper_prefix S R) eqn:E3; [|reflexivity].
      apply andb_prop in E3 as [E3 E4]. destruct Hpc as [_ Hpc].
      exfalso. assert (false = true) as Hft; [|discriminate Hft].
      apply Hpc. split; [intros HS0; rewrite HS0 in E3; discriminate|assumption].
Qed.

Lemma loc_of_clean sb : is_abs sb = true -> loc_of (clean sb) = loc_of sb.
Proof. intros H. rewrite clean_abs by assumption. apply loc_of_render, loc_of_ok. Qed.

Lemma sanitize_inside sb p q : is_abs sb = true -> sanitize sb p = Ok q ->
  strictly_inside (loc_of (clean sb)) (loc_of q) = true /\
  loc_of q = resolve sb p /\ clean q = q /\ is_abs q = true.
Proof.
  intros Hsb H. rewrite sanitize_char in H by assumption. rewrite loc_of_clean by assumption.
  destruct (nonroot (loc_of sb) && proper_prefix (loc_of sb) (resolve sb p)) eqn:E; [|discriminate].
  injection H as <-. apply andb_prop in E as [_ E]. pose proof (resolve_ok sb p) as HR.
  rewrite loc_of_render by assumption. repeat split; try assumption. now apply clean_render.
Qed.

Lemma sanitize_outside sb p : is_abs sb = true ->
  strictly_inside (loc_of (clean sb)) (resolve sb p) = false -> sanitize sb p = Refused.
Proof.
  intros Hsb H. rewrite loc_of_clean in H by assumption. rewrite sanitize_char by assumption.
  unfold strictly_inside in H. now rewrite H, andb_false_r.
Qed.

Lemma sanitize_exact sb p q : is_abs sb = true -> loc_of sb <> [] ->
  sanitize sb p = Ok q <-> strictly_inside (loc_of sb) (resolve sb p) = true /\ q = abs_render (resolve sb p).
Proof.
  intros Hsb Hnr. rewrite sanitize_char by assumption. unfold strictly_inside.
  destruct (loc_of sb) as [|s0 S] eqn:ES; [contradiction|]. cbn [nonroot andb].
  destruct (proper_prefix (s0 :: S) (resolve sb p)); split.
  - intros H. injection H as <-. now split.
  - intros [_ ->]. reflexivity.
  - discriminate.
  - intros [H _]. discriminate.
Qed.

Lemma sanitize_root_sandbox sb p : is_abs sb = true -> loc_of sb = [] -> sanitize sb p = Refused.
Proof. intros Hsb H. rewrite sanitize_char by assumption. now rewrite H. Qed.

(* only the sandbox's location matters, not its spelling *)
Lemma sanitize_spelling sb1 sb2 p : is_abs sb1 = true -> is_abs sb2 = true -> loc_of sb1 = loc_of sb2 ->
  sanitize sb1 p = sanitize sb2 p.
Proof. intros H1 H2 E. rewrite !sanitize_char by assumption. unfold resolve. now rewrite E. Qed.

Lemma loc_of_trailing sb : loc_of (sb ++ [slash]) = loc_of sb.
Proof.
  unfold loc_of, resolve_from. rewrite (comps_app sb []). rewrite walk_app. reflexivity.
Qed.

Lemma loc_of_double_sep a b : loc_of (a ++ slash :: slash :: b) = loc_of (a ++ slash :: b).
Proof.
  unfold loc_of, resolve_from. rewrite !comps_app, !walk_app. rewrite (comps_sep slash b) by reflexivity.
  now rewrite walk_cons, step_nil.
Qed.

Lemma is_abs_app sb x : is_abs sb = true -> is_abs (sb ++ x) = true.
Proof. destruct sb; [discriminate|exact (fun H => H)]. Qed.

(* a sibling whose name merely extends the sandbox's last name is outside *)
Lemma sibling_outside pre n x t : x <> [] -> proper_prefix (pre ++ [n]) (pre ++ (n ++ x) :: t) = false.
Proof.
  intros Hx. destruct (proper_prefix (pre ++ [n]) (pre ++ (n ++ x) :: t)) eqn:E; [|reflexivity].
  apply proper_prefix_iff in E as (e & t' & H). rewrite <- app_assoc in H. apply app_inv_head in H.
  cbn [app] in H. injection H as H _. rewrite <- (app_nil_r n) in H at 2. apply app_inv_head in H. contradiction.
Qed.

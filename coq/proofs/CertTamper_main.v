(* C02 assembled: under unforgeability, whatever decodes and verifies carries the identity of an issued certificate
   and its signature or the twin; blocklisting either fingerprint stops both. *)
From Coq Require Import List NArith ZArith Lia Bool.
Import ListNotations.
From NV Require Import lib.Bytes lib.Corr lib.Proto lib.Der model.CertCodec model.CertTamper
  proofs.CertCodec_sort proofs.CertCodec_v2 proofs.CertCodec_v1 proofs.CertCodec_main
  proofs.CertTamper_v2 proofs.CertTamper_v1 proofs.CertTamper_twin.
Open Scope N_scope.

(* certificates that came out of SignWith *)
Definition came_from_sign (a : anycert) : Prop :=
  match a with
  | V1 c => exists tbs sig, sign_v1 tbs sig = Some c
  | V2 c => exists tbs sig, sign_v2 tbs sig = Some c
  end.

(* certificates that came out of a decoder (v2: of a byte string) *)
Definition decoded (a : anycert) : Prop :=
  match a with
  | V1 c => exists pk b, decode_v1 pk b = Some c
  | V2 c => exists pk dcurve b, bytes_ok b = true /\ decode_v2 pk dcurve b = Some c
  end.

(* v1 re-marshals before checking the signature: the re-marshalled bytes are a Go slice *)
Definition remarshal_ok (a : anycert) : Prop := match a with V1 c => go_len (tbs_v1 c) | V2 _ => True end.

Lemma identity_of_ident a b : version_of a = version_of b -> ident_c (inner a) = ident_c (inner b) -> identity a = identity b.
Proof. unfold identity, ident_c. intros -> E. inversion E. congruence. Qed.

Section Tamper.
  Variable sig_ok : N -> list N -> list N -> list N -> bool.
  Variable ca_key : list N.
  Variable ca_curve : N.
  Variable issued : list anycert.

  (* what the holder of the CA key has signed went through SignWith, on the CA's curve *)
  Hypothesis issued_signed : forall a, In a issued -> came_from_sign a /\ curve_of a = ca_curve.

  (* Unforgeability: the only (message, signature) pairs valid under the CA key are the issued messages with the
     signature issued for them or, on P-256, its low/high-S twin *)
  Hypothesis Unforgeable : forall m s, sig_ok ca_curve ca_key m s = true ->
    exists a, In a issued /\ tbs_of a = m /\ (s = sig_of a \/ (ca_curve = 1 /\ twin (sig_of a) = Some s)).

  Theorem tamper a' : decoded a' -> remarshal_ok a' -> curve_of a' = ca_curve ->
    check_signature sig_ok ca_key a' = true ->
    exists a, In a issued /\ identity a' = identity a /\
              (sig_of a' = sig_of a \/ (ca_curve = 1 /\ twin (sig_of a) = Some (sig_of a'))).
  Proof.
    intros Hd Hg Hc Hs. unfold check_signature in Hs. destruct (_ || _); [|discriminate]. rewrite Hc in Hs.
    destruct (Unforgeable _ _ Hs) as (a & Hin & Et & Hsig). exists a. split; [exact Hin|]. split; [|exact Hsig].
    destruct (issued_signed a Hin) as [Hfrom _].
    destruct a' as [c'|c'], a as [c|c]; cbn [decoded came_from_sign remarshal_ok tbs_of] in *.
    - destruct Hd as (pk & b & Hd). destruct Hfrom as (tbs & sg & Hfrom).
      apply identity_of_ident; [reflexivity|]. cbn [inner].
      apply tbs_v1_injective; [eapply decoded_fields_v1; eassumption| |exact Hg|now symmetry].
      now apply (issued_fields_v1 _ _ _ Hfrom).
    - exfalso. destruct Hd as (pk & b & Hd). destruct Hfrom as (tbs & sg & Hfrom).
      apply (tbs_versions_disjoint c' c); [|eapply issued_wf_v2; eassumption|now symmetry].
      pose proof (decode_v1_sound _ _ _ Hd) as Hv. now destruct (valid_v1_parts _ Hv).
    - exfalso. destruct Hd as (pk & dc & b & Hok & Hd). destruct Hfrom as (tbs & sg & Hfrom).
      apply (tbs_versions_disjoint c c'); [|eapply decoded_wf_v2; eassumption|exact Et].
      now apply (issued_fields_v1 _ _ _ Hfrom).
    - destruct Hd as (pk & dc & b & Hok & Hd). destruct Hfrom as (tbs & sg & Hfrom).
      apply identity_of_ident; [reflexivity|]. cbn [inner].
      apply tbs_v2_injective; [eapply decoded_wf_v2; eassumption|eapply issued_wf_v2; eassumption|now symmetry].
  Qed.
End Tamper.

(* ---- the two fingerprints ---- *)

Lemma with_sig_back a s' : with_sig_any (with_sig_any a s') (sig_of a) = a.
Proof. destruct a as [c|[c raw]]; destruct c; reflexivity. Qed.

Lemma with_sig_sig a s' : sig_of (with_sig_any a s') = s' /\ curve_of (with_sig_any a s') = curve_of a.
Proof. destruct a as [c|[c raw]]; destruct c; split; reflexivity. Qed.

Theorem twin_block (H : list N -> list N) bl a s' :
  curve_of a = 1 -> twin (sig_of a) = Some s' -> twin s' = Some (sig_of a) ->
  listed bl (fp H a) = true \/ listed bl (fp H (with_sig_any a s')) = true ->
  blocklist_pass H bl a = false /\ blocklist_pass H bl (with_sig_any a s') = false.
Proof.
  intros Hc T1 T2 Hl. destruct (with_sig_sig a s') as [Es Ec].
  unfold blocklist_pass, fp2. rewrite Ec, Hc, Es, T1, T2. change (1 =? 1) with true. cbn [option_map].
  rewrite with_sig_back.
  destruct (listed bl (fp H a)), (listed bl (fp H (with_sig_any a s'))); cbn; destruct Hl; try discriminate; auto.
Qed.

(* the alternate fingerprint of a certificate is the fingerprint of the same certificate carrying the twin signature,
   and the other way round *)
Theorem fp2_is_fp_of_twin (H : list N -> list N) a s' :
  curve_of a = 1 -> twin (sig_of a) = Some s' -> twin s' = Some (sig_of a) ->
  fp2 H a = Some (Some (fp H (with_sig_any a s'))) /\ fp2 H (with_sig_any a s') = Some (Some (fp H a)).
Proof.
  intros Hc T1 T2. destruct (with_sig_sig a s') as [Es Ec]. unfold fp2. rewrite Ec, Hc, Es, T1, T2.
  change (1 =? 1) with true. cbn [option_map]. now rewrite with_sig_back.
Qed.

(* ---- the hypotheses of [tamper] are satisfiable: one issued certificate, a signature scheme that accepts exactly it ---- *)

Definition sample_issued : cert2 :=
  match sign_v2 (sample_tbs 0) [7; 7] with Some c => c | None => mkCert2 (sample_tbs 0) [] end.

Lemma sample_issued_signed : sign_v2 (sample_tbs 0) [7; 7] = Some sample_issued.
Proof. vm_compute. reflexivity. Qed.

Example tamper_hypotheses_satisfiable :
  let sig_ok := fun (cv : N) (k m s : list N) => nlist_eqb m (tbs_v2 sample_issued) && nlist_eqb s [7; 7] in
  let issued := [V2 sample_issued] in
  (forall a, In a issued -> came_from_sign a /\ curve_of a = 0) /\
  (forall m s, sig_ok 0 [1] m s = true ->
     exists a, In a issued /\ tbs_of a = m /\ (s = sig_of a \/ (0 = 1 /\ twin (sig_of a) = Some s))) /\
  check_signature sig_ok [1] (V2 sample_issued) = true.
Proof.
  cbv zeta. split; [|split].
  - intros a [<-|[]]. split; [|reflexivity]. exists (sample_tbs 0), [7; 7]. exact sample_issued_signed.
  - intros m s Hs. apply andb_prop in Hs as [Hm Hs']. apply nlist_eqb_eq in Hm, Hs'. subst.
    exists (V2 sample_issued). split; [now left|]. split; [reflexivity|]. left. vm_compute. reflexivity.
  - vm_compute. reflexivity.
Qed.

(* the premises of the two injectivity theorems hold of everything issued and everything decoded *)
Theorem wf_facts :
  (forall tbs sig c, sign_v2 tbs sig = Some c -> wf_v2 c) /\
  (forall pk dcurve b c, bytes_ok b = true -> decode_v2 pk dcurve b = Some c -> wf_v2 c) /\
  (forall tbs sig c, sign_v1 tbs sig = Some c -> fields_v1_ok c /\ c_pub c <> []) /\
  (forall pk b c, decode_v1 pk b = Some c -> fields_v1_ok c).
Proof.
  split; [exact issued_wf_v2|]. split; [exact decoded_wf_v2|]. split; [exact issued_fields_v1|exact decoded_fields_v1].
Qed.

(* the verdict on a certificate is the same after any history of verifications on the pool *)
Lemma verify_history_snoc (verdict : anycert -> bool) : forall h seen a,
  verify_history verdict seen (h ++ [a]) = verify_history verdict seen h ++ [verdict a].
Proof.
  induction h as [|x h IH]; intros seen a; [reflexivity|]. cbn [app verify_history]. now rewrite IH.
Qed.

Theorem history_independent (verdict : anycert -> bool) : forall h seen a,
  last (verify_history verdict seen (h ++ [a])) false = verdict a /\
  verify_history verdict seen (h ++ [a]) = verify_history verdict seen h ++ [verdict a].
Proof.
  intros h seen a. rewrite verify_history_snoc. split; [apply last_last|reflexivity].
Qed.

(* parse (the model of newPacket) characterised by the reference parser, and the C20 statements derived from it. *)
From Coq Require Import List NArith ZArith Lia Bool ZifyN ZifyNat ZifyBool.
Import ListNotations.
From NV Require Import lib.Bytes gen.Consts_IpParse model.IpParse proofs.IpParse_proofs.
Open Scope N_scope.
Local Ltac Zify.zify_post_hook ::= Z.div_mod_to_equations.

Lemma orient_eq inc src dst sp dp proto frag anyf hl :
  orient inc src dst sp dp proto frag anyf hl =
  mkFp (if inc then dst else src) (if inc then src else dst) (if inc then dp else sp) (if inc then sp else dp) proto frag anyf hl.
Proof. destruct inc; reflexivity. Qed.

Lemma orient_proto inc src dst sp dp proto frag anyf hl : fp_proto (orient inc src dst sp dp proto frag anyf hl) = proto.
Proof. destruct inc; reflexivity. Qed.
Lemma orient_frag inc src dst sp dp proto frag anyf hl : fp_frag (orient inc src dst sp dp proto frag anyf hl) = frag.
Proof. destruct inc; reflexivity. Qed.

Lemma opt_err {A} (o : option A) (f : A -> res fpkt) e :
  (forall x, f x = Err e) -> match o with Some x => f x | None => Err e end = Err e.
Proof. intros H. destruct o; auto. Qed.

(* ---------------------------------------------------------------------------------------------- *)
(** * IPv6 *)

Lemma parse_v6_char d inc : bytes_ok d = true ->
  parse_v6 d inc = match spec_v6 d inc with
                   | Some fp => if (chain_len d <=? limit)%nat then Ok fp else Err 5
                   | None => Err 5
                   end.
Proof.
  intros Hb. unfold parse_v6, spec_v6, chain_len.
  destruct (N.ltb_spec (blen d) 40) as [|Hl]; [reflexivity|].
  rewrite !rds_ok by lia. rewrite find_upper_spec by assumption.
  change (N.to_nat 8) with 8%nat. change (N.to_nat 16) with 16%nat. change (N.to_nat 24) with 24%nat.
  set (src := slice d 8 16). set (dst := slice d 24 16).
  destruct (spec_walk d) as [nh off p a n|nh off n|] eqn:W; cbn [walk_of_chain]; [| |reflexivity].
  2:{ destruct (n <=? limit)%nat; [|reflexivity]. rewrite orient_eq. destruct inc; reflexivity. }
  unfold spec_walk in W. change 40%nat with (N.to_nat 40) in W.
  apply spec_chain_done in W as (-> & Hoff & Hne); [|lia].
  destruct (n <=? limit)%nat.
  2:{ symmetry. apply opt_err. reflexivity. }
  cbv iota beta.
  destruct (N.eqb_spec nh 58) as [->|N58].
  - (* ICMPv6 *)
    cbn [N.eqb Pos.eqb orb].
    destruct (N.ltb_spec (blen d) (off + 4)) as [Hs|Hs].
    { pose proof (short_rest d off 4 Hoff Hs) as Hx.
      destruct (skipn (N.to_nat off) d) as [|x0 [|x1 [|x2 [|x3 r]]]]; try reflexivity. simpl in Hx. lia. }
    rewrite rd_ok by lia.
    rewrite (rest2 d off) by lia. rewrite (rest2 d (off + 2)) by lia.
    replace (off + 2 + 2) with (off + 4) by lia.
    destruct ((nth (N.to_nat off) d 0 =? 128) || (nth (N.to_nat off) d 0 =? 129)).
    + destruct (N.ltb_spec (blen d) (off + 6)) as [Hs6|Hs6].
      { assert (Hx : (length (skipn (N.to_nat (off + 4)) d) < 2)%nat) by (pose proof (length_skipn_N d (off + 4)); lia).
        destruct (skipn (N.to_nat (off + 4)) d) as [|y0 [|y1 r]]; try reflexivity. simpl in Hx. lia. }
      rewrite rd16_ok by lia. rewrite (rest2 d (off + 4)) by lia. reflexivity.
    + rewrite orient_eq. destruct inc; reflexivity.
  - destruct ((nh =? 6) || (nh =? 17)).
    + destruct (N.ltb_spec (blen d) (off + 4)) as [Hs|Hs].
      { pose proof (short_rest d off 4 Hoff Hs) as Hx.
        destruct (skipn (N.to_nat off) d) as [|x0 [|x1 [|x2 [|x3 r]]]]; try reflexivity. simpl in Hx. lia. }
      rewrite !rd16_ok by lia.
      rewrite (rest2 d off) by lia. rewrite (rest2 d (off + 2)) by lia.
      rewrite orient_eq. destruct inc; reflexivity.
    + rewrite orient_eq. destruct inc; reflexivity.
Qed.

(* ---------------------------------------------------------------------------------------------- *)
(** * IPv4 *)

Lemma land_8191 x : N.land x 8191 = x mod 8192.
Proof. change 8191 with (N.ones 13). now rewrite N.land_ones. Qed.
Lemma land_16383 x : N.land x 16383 = x mod 16384.
Proof. change 16383 with (N.ones 14). now rewrite N.land_ones. Qed.

Lemma flags_any ff :
  negb (ff mod 16384 =? 0) = negb (ff mod 8192 =? 0) || ((ff / 8192) mod 2 =? 1).
Proof.
  destruct (N.eqb_spec (ff mod 16384) 0), (N.eqb_spec (ff mod 8192) 0), (N.eqb_spec ((ff / 8192) mod 2) 1);
    simpl; try reflexivity; lia.
Qed.

Lemma min_fw_4 : ipp_min_fw_packet_len = 4.
Proof. reflexivity. Qed.

Lemma parse_v4_char d inc : bytes_ok d = true ->
  parse_v4 d inc = match spec_v4 d inc with
                   | Some fp => Ok fp
                   | None => if blen d <? 20 then Err 4 else Err 3
                   end.
Proof.
  intros Hb. unfold parse_v4, spec_v4. rewrite min_fw_4.
  destruct (N.ltb_spec (blen d) 20) as [|Hl]; [reflexivity|].
  rewrite rd_ok by lia. change (N.to_nat 0) with 0%nat.
  rewrite land15 by (apply bytes_ok_nth; assumption).
  replace (nth 0 d 0 mod 16 * 4) with (4 * (nth 0 d 0 mod 16)) by lia.
  set (hl := 4 * (nth 0 d 0 mod 16)).
  destruct (N.ltb_spec hl 20) as [|Hhl]; [reflexivity|]. cbn [orb].
  rewrite rd16_ok by lia. change (N.to_nat 6) with 6%nat. change (N.to_nat (6 + 1)) with 7%nat.
  set (ff := nth 6 d 0 * 256 + nth 7 d 0).
  rewrite land_8191, land_16383, flags_any.
  rewrite rd_ok by lia. change (N.to_nat 9) with 9%nat.
  set (proto := nth 9 d 0).
  change (N.to_nat 12) with 12%nat. change (N.to_nat 16) with 16%nat. change (N.to_nat 4) with 4%nat.
  set (anyf := negb (ff mod 8192 =? 0) || ((ff / 8192) mod 2 =? 1)).
  destruct (negb (ff mod 8192 =? 0)) eqn:NF.
  - (* non-first fragment *)
    replace (hl + 0) with hl by lia.
    destruct (N.ltb_spec (blen d) hl); [reflexivity|].
    rewrite !rds_ok by lia. change (N.to_nat 12) with 12%nat. change (N.to_nat 16) with 16%nat. change (N.to_nat 4) with 4%nat.
    rewrite orient_eq. destruct inc; reflexivity.
  - destruct (N.eqb_spec proto 1) as [P1|P1].
    + (* ICMP *)
      destruct (N.ltb_spec (blen d) (hl + (4 + 2))) as [Hs|Hs].
      { destruct (N.ltb_spec (blen d) hl) as [|Hge]; [reflexivity|].
        assert (Hx : (length (skipn (N.to_nat hl) d) < 6)%nat) by (pose proof (length_skipn_N d hl); lia).
        destruct (skipn (N.to_nat hl) d) as [|x0 [|x1 [|x2 [|x3 [|x4 [|x5 r]]]]]]; try reflexivity. simpl in Hx. lia. }
      destruct (N.ltb_spec (blen d) hl); [lia|].
      rewrite !rds_ok by lia. change (N.to_nat 12) with 12%nat. change (N.to_nat 16) with 16%nat. change (N.to_nat 4) with 4%nat.
      rewrite rd16_ok by lia.
      rewrite (rest2 d hl) by lia. rewrite (rest2 d (hl + 2)) by lia. rewrite (rest2 d (hl + 2 + 2)) by lia.
      replace (hl + 2 + 2) with (hl + 4) by lia. reflexivity.
    + destruct (N.ltb_spec (blen d) (hl + 4)) as [Hs|Hs].
      { destruct (N.ltb_spec (blen d) hl) as [|Hge]; [reflexivity|].
        pose proof (short_rest d hl 4 Hge Hs) as Hx.
        destruct (skipn (N.to_nat hl) d) as [|x0 [|x1 [|x2 [|x3 r]]]]; try reflexivity. simpl in Hx. lia. }
      destruct (N.ltb_spec (blen d) hl); [lia|].
      rewrite !rds_ok by lia. change (N.to_nat 12) with 12%nat. change (N.to_nat 16) with 16%nat. change (N.to_nat 4) with 4%nat.
      rewrite !rd16_ok by lia.
      rewrite (rest2 d hl) by lia. rewrite (rest2 d (hl + 2)) by lia.
      rewrite orient_eq. destruct inc; reflexivity.
Qed.

(* ---------------------------------------------------------------------------------------------- *)
(** * newPacket *)

Lemma parse_char d inc : bytes_ok d = true ->
  parse d inc = match d with
                | [] => Err 1
                | b0 :: _ => if b0 / 16 =? 4 then parse_v4 d inc else if b0 / 16 =? 6 then parse_v6 d inc else Err 2
                end.
Proof.
  intros Hb. unfold parse. destruct d as [|b0 r]; [reflexivity|].
  destruct (N.ltb_spec (blen (b0 :: r)) 1) as [H|H]; [unfold blen in H; simpl in H; lia|].
  rewrite rd_ok by lia. change (nth (N.to_nat 0) (b0 :: r) 0) with b0.
  rewrite version_nibble; [reflexivity|]. apply (bytes_ok_nth (b0 :: r) 0 Hb).
Qed.

(* ---------------------------------------------------------------------------------------------- *)
(** * The C20 statements *)

(* what the model returns, entirely in terms of the reference parser *)
Definition parse_by_spec (d : list N) (inc : bool) : res fpkt :=
  match spec_parse d inc with
  | Some fp => if is_v6 d && negb (chain_len d <=? limit)%nat then Err 5 else Ok fp
  | None => match d with
            | [] => Err 1
            | b0 :: _ => if b0 / 16 =? 4 then (if blen d <? 20 then Err 4 else Err 3)
                         else if b0 / 16 =? 6 then Err 5 else Err 2
            end
  end.

Lemma parse_is_spec d inc : bytes_ok d = true -> parse d inc = parse_by_spec d inc.
Proof.
  intros Hb. rewrite parse_char by assumption. unfold parse_by_spec, spec_parse, is_v6.
  destruct d as [|b0 r]; [reflexivity|].
  destruct (N.eqb_spec (b0 / 16) 4) as [E4|E4].
  - rewrite parse_v4_char by assumption. rewrite E4. cbn [N.eqb Pos.eqb andb].
    destruct (spec_v4 (b0 :: r) inc); reflexivity.
  - destruct (b0 / 16 =? 6).
    + rewrite parse_v6_char by assumption. cbn [andb].
      destruct (spec_v6 (b0 :: r) inc); [|reflexivity].
      destruct (chain_len (b0 :: r) <=? limit)%nat; reflexivity.
    + reflexivity.
Qed.

(* newPacket's model never fails a bounds check: it returns a classification or an error *)
Lemma parse_total d inc : bytes_ok d = true ->
  (exists fp, parse d inc = Ok fp) \/ (exists e, parse d inc = Err e).
Proof.
  intros Hb. rewrite parse_is_spec by assumption. unfold parse_by_spec.
  destruct (spec_parse d inc).
  - destruct (is_v6 d && negb (chain_len d <=? limit)%nat); eauto.
  - destruct d as [|b0 r]; eauto.
    destruct (b0 / 16 =? 4); [destruct (blen (b0 :: r) <? 20); eauto|].
    destruct (b0 / 16 =? 6); eauto.
Qed.

Lemma parse_sound d inc fp : bytes_ok d = true -> parse d inc = Ok fp -> spec_parse d inc = Some fp.
Proof.
  intros Hb. rewrite parse_is_spec by assumption. unfold parse_by_spec.
  destruct (spec_parse d inc) as [fp'|].
  - destruct (is_v6 d && negb (chain_len d <=? limit)%nat); [discriminate|]. intros H; inversion H; reflexivity.
  - destruct d as [|b0 r]; [discriminate|].
    destruct (b0 / 16 =? 4); [destruct (blen (b0 :: r) <? 20); discriminate|].
    destruct (b0 / 16 =? 6); discriminate.
Qed.

(* conversely everything the reference parser classifies is accepted unchanged, unless it is an IPv6 packet with
   more extension headers than the walker's limit *)
Lemma parse_complete d inc fp : bytes_ok d = true ->
  spec_parse d inc = Some fp -> (is_v6 d = true -> (chain_len d <= limit)%nat) -> parse d inc = Ok fp.
Proof.
  intros Hb Hs Hc. rewrite parse_is_spec by assumption. unfold parse_by_spec. rewrite Hs.
  destruct (is_v6 d); [|reflexivity]. specialize (Hc eq_refl).
  destruct (Nat.leb_spec (chain_len d) limit); [reflexivity|lia].
Qed.

Lemma parse_unresolved_rejected d inc : bytes_ok d = true ->
  spec_parse d inc = None -> exists e, parse d inc = Err e.
Proof.
  intros Hb Hs. rewrite parse_is_spec by assumption. unfold parse_by_spec. rewrite Hs.
  destruct d as [|b0 r]; eauto.
  destruct (b0 / 16 =? 4); [destruct (blen (b0 :: r) <? 20); eauto|].
  destruct (b0 / 16 =? 6); eauto.
Qed.

Lemma parse_long_chain_rejected d inc : bytes_ok d = true ->
  is_v6 d = true -> (limit < chain_len d)%nat -> exists e, parse d inc = Err e.
Proof.
  intros Hb H6 Hc. rewrite parse_is_spec by assumption. unfold parse_by_spec. rewrite H6.
  destruct (spec_parse d inc).
  - destruct (Nat.leb_spec (chain_len d) limit); [lia|]. cbn [negb andb]. eauto.
  - destruct d as [|b0 r]; eauto.
    destruct (b0 / 16 =? 4); [destruct (blen (b0 :: r) <? 20); eauto|].
    destruct (b0 / 16 =? 6); eauto.
Qed.

(* the protocol reported by the reference parser for an IPv6 packet is an extension header number only in the
   non-first-fragment region *)
Lemma spec_v6_proto d inc fp : spec_v6 d inc = Some fp ->
  match spec_walk d with
  | CNonFirst nh _ _ => fp_proto fp = nh /\ fp_frag fp = true
  | CDone nh _ _ _ _ => fp_proto fp = nh /\ fp_frag fp = false /\ is_ext nh = false
  | CBad => False
  end.
Proof.
  unfold spec_v6. destruct (N.ltb_spec (blen d) 40) as [|Hl]; [discriminate|].
  destruct (spec_walk d) as [nh off p a n|nh off n|] eqn:W; [| |discriminate].
  - unfold spec_walk in W. change 40%nat with (N.to_nat 40) in W.
    apply spec_chain_done in W as (_ & _ & Hne); [|lia].
    destruct ((nh =? 6) || (nh =? 17)).
    { destruct p as [|x0 [|x1 [|x2 [|x3 r]]]]; try discriminate.
      intros H; inversion H; subst; rewrite orient_proto, orient_frag; auto. }
    destruct (nh =? 58).
    { destruct p as [|x0 [|x1 [|x2 [|x3 r]]]]; try discriminate.
      destruct ((x0 =? 128) || (x0 =? 129)).
      - destruct r as [|y0 [|y1 r]]; try discriminate. intros H; inversion H; subst; cbn [fp_proto fp_frag]; auto.
      - intros H; inversion H; subst; rewrite orient_proto, orient_frag; auto. }
    intros H; inversion H; subst; rewrite orient_proto, orient_frag; auto.
  - intros H; inversion H; subst; rewrite orient_proto, orient_frag; auto.
Qed.

Lemma parse_not_ext d inc fp : bytes_ok d = true ->
  parse d inc = Ok fp -> is_v6 d = true -> nonfirst_names_ext d = false -> is_ext (fp_proto fp) = false.
Proof.
  intros Hb Hp H6 Hr. apply parse_sound in Hp; [|assumption].
  unfold spec_parse in Hp. unfold is_v6 in H6. unfold nonfirst_names_ext, is_v6 in Hr.
  destruct d as [|b0 r]; [discriminate|]. rewrite H6 in Hr. cbn [andb] in Hr.
  apply N.eqb_eq in H6. rewrite H6 in Hp. cbn [N.eqb Pos.eqb] in Hp.
  apply spec_v6_proto in Hp. destruct (spec_walk (b0 :: r)).
  - destruct Hp as (-> & _ & E). exact E.
  - destruct Hp as (-> & _). exact Hr.
  - contradiction.
Qed.

(* a non-first IPv6 fragment: which fields carry information *)
Lemma parse_nonfirst_v6 d inc fp : bytes_ok d = true ->
  parse d inc = Ok fp -> is_v6 d = true -> fp_frag fp = true ->
  fp_fragany fp = true /\ fp_lport fp = 0 /\ fp_rport fp = 0 /\
  fp_hdrlen fp + 8 <= blen d /\ fp_proto fp = nth (N.to_nat (fp_hdrlen fp)) d 0.
Proof.
  intros Hb Hp H6 Hf. apply parse_sound in Hp; [|assumption].
  unfold spec_parse in Hp. unfold is_v6 in H6.
  destruct d as [|b0 r]; [discriminate|].
  apply N.eqb_eq in H6. rewrite H6 in Hp. cbn [N.eqb Pos.eqb] in Hp.
  pose proof (spec_v6_proto _ _ _ Hp) as Hq.
  unfold spec_v6 in Hp. destruct (N.ltb_spec (blen (b0 :: r)) 40) as [|Hl]; [discriminate|].
  destruct (spec_walk (b0 :: r)) as [nh off p a n|nh off n|] eqn:W.
  - destruct Hq as (_ & Hq & _). congruence.
  - unfold spec_walk in W. change 40%nat with (N.to_nat 40) in W.
    apply spec_chain_nonfirst in W as (Hoff & Hnh & _); [|lia].
    rewrite orient_eq in Hp. inversion Hp; subst fp; cbn. destruct inc; auto.
  - contradiction.
Qed.

(* TCP / UDP ports, stated directly on the bytes: big-endian words at the reported header length, oriented *)
Lemma parse_ports d inc fp : bytes_ok d = true ->
  parse d inc = Ok fp -> fp_frag fp = false -> (fp_proto fp = 6 \/ fp_proto fp = 17) ->
  let h := N.to_nat (fp_hdrlen fp) in
  let sp := nth h d 0 * 256 + nth (S h) d 0 in
  let dp := nth (S (S h)) d 0 * 256 + nth (S (S (S h))) d 0 in
  fp_hdrlen fp + 4 <= blen d /\
  (if inc then fp_rport fp = sp /\ fp_lport fp = dp else fp_lport fp = sp /\ fp_rport fp = dp).
Proof.
  intros Hb Hp Hf Hproto. apply parse_sound in Hp; [|assumption].
  unfold spec_parse in Hp. destruct d as [|b0 r]; [discriminate|].
  assert (Hpr : (fp_proto fp =? 1) = false /\ (fp_proto fp =? 58) = false /\ ((fp_proto fp =? 6) || (fp_proto fp =? 17)) = true).
  { destruct Hproto as [-> | ->]; auto. }
  destruct Hpr as (P1 & P58 & P617).
  set (d := b0 :: r) in *.
  assert (Hnth : forall off a b c e tl, off <= blen d -> skipn (N.to_nat off) d = a :: b :: c :: e :: tl ->
            off + 4 <= blen d /\ a = nth (N.to_nat off) d 0 /\ b = nth (S (N.to_nat off)) d 0 /\
            c = nth (S (S (N.to_nat off))) d 0 /\ e = nth (S (S (S (N.to_nat off)))) d 0).
  { intros off a b c e tl Ho E. pose proof (length_skipn_N d off) as Hl. rewrite E in Hl. cbn [length] in Hl.
    assert (H4 : off + 4 <= blen d) by lia. split; [exact H4|].
    pose proof (nth_skipn d (N.to_nat off)) as Hn. rewrite E in Hn.
    pose proof (Hn 0%nat) as H0. pose proof (Hn 1%nat) as H1. pose proof (Hn 2%nat) as H2. pose proof (Hn 3%nat) as H3.
    cbn [nth] in H0, H1, H2, H3.
    replace (N.to_nat off + 0)%nat with (N.to_nat off) in H0 by lia.
    replace (N.to_nat off + 1)%nat with (S (N.to_nat off)) in H1 by lia.
    replace (N.to_nat off + 2)%nat with (S (S (N.to_nat off))) in H2 by lia.
    replace (N.to_nat off + 3)%nat with (S (S (S (N.to_nat off)))) in H3 by lia. auto. }
  destruct (b0 / 16 =? 4).
  - (* IPv4 *)
    unfold spec_v4 in Hp. destruct (blen d <? 20); [discriminate|].
    set (hl := 4 * (nth 0 d 0 mod 16)) in *.
    destruct (hl <? 20); [discriminate|]. cbn [orb] in Hp.
    destruct (N.ltb_spec (blen d) hl) as [|Hge]; [discriminate|].
    destruct (negb ((nth 6 d 0 * 256 + nth 7 d 0) mod 8192 =? 0)).
    { rewrite orient_eq in Hp. inversion Hp; subst fp. discriminate. }
    destruct (nth 9 d 0 =? 1) eqn:E1.
    { destruct (skipn (N.to_nat hl) d) as [|x0 [|x1 [|x2 [|x3 [|x4 [|x5 tl]]]]]]; try discriminate.
      inversion Hp; subst fp. cbn in P1. congruence. }
    destruct (skipn (N.to_nat hl) d) as [|a [|b [|c [|e tl]]]] eqn:E; try discriminate.
    apply Hnth in E as (H4 & -> & -> & -> & ->); [|assumption].
    rewrite orient_eq in Hp. inversion Hp; subst fp; cbn. split; [exact H4|]. destruct inc; auto.
  - destruct (b0 / 16 =? 6); [|discriminate].
    pose proof (spec_v6_proto _ _ _ Hp) as Hq.
    unfold spec_v6 in Hp. destruct (N.ltb_spec (blen d) 40) as [|Hl]; [discriminate|].
    destruct (spec_walk d) as [nh off p a n|nh off n|] eqn:W.
    + destruct Hq as (Hnh & _ & _). rewrite Hnh in P617. rewrite P617 in Hp.
      unfold spec_walk in W. change 40%nat with (N.to_nat 40) in W.
      apply spec_chain_done in W as (-> & Hoff & _); [|lia].
      destruct (skipn (N.to_nat off) d) as [|x0 [|x1 [|x2 [|x3 tl]]]] eqn:E; try discriminate.
      apply Hnth in E as (H4 & -> & -> & -> & ->); [|assumption].
      rewrite orient_eq in Hp. inversion Hp; subst fp; cbn. split; [exact H4|]. destruct inc; auto.
    + destruct Hq as (_ & Hq). congruence.
    + contradiction.
Qed.

(* ---------------------------------------------------------------------------------------------- *)
(** * The region in which "never an extension header" fails (finding F18), and the measured header set *)

(* fd00::1 -> fd00::2, fragment header (next header 60 = destination options, offset 3, id deadbeef), 8 bytes of data *)
Definition f18_witness : list N :=
  [96; 0; 0; 0; 0; 16; 44; 64;
   253; 0; 0; 0; 0; 0; 0; 0; 0; 0; 0; 0; 0; 0; 0; 1;
   253; 0; 0; 0; 0; 0; 0; 0; 0; 0; 0; 0; 0; 0; 0; 2;
   60; 0; 0; 25; 222; 173; 190; 239;
   128; 0; 0; 0; 10; 11; 12; 13].

Lemma not_ext_refuted : exists d inc fp,
  bytes_ok d = true /\ parse d inc = Ok fp /\ is_v6 d = true /\
  nonfirst_names_ext d = true /\ fp_frag fp = true /\ is_ext (fp_proto fp) = true.
Proof.
  exists f18_witness, true.
  eexists. repeat split; try (vm_compute; reflexivity).
Qed.

Lemma ext_set nh : nh < 256 -> is_ext nh = existsb (N.eqb nh) ipp_walked_headers.
Proof.
  intros H. apply (byte_forall (fun nh => Bool.eqb (is_ext nh) (existsb (N.eqb nh) ipp_walked_headers)) eq_refl) in H.
  now apply eqb_prop in H.
Qed.

(* builders for the examples in props/C20.v *)
Definition ex_v6 (nh : N) (body : list N) : list N :=
  [96; 0; 0; 0; 0; N.of_nat (length body); nh; 64] ++
  [253; 0; 0; 0; 0; 0; 0; 0; 0; 0; 0; 0; 0; 0; 0; 1] ++ [253; 0; 0; 0; 0; 0; 0; 0; 0; 0; 0; 0; 0; 0; 0; 2] ++ body.
Fixpoint ex_dest_chain (k : nat) (last : N) (payload : list N) : list N :=
  match k with
  | O => payload
  | S O => [last; 0; 1; 4; 0; 0; 0; 0] ++ payload
  | S k' => [60; 0; 1; 4; 0; 0; 0; 0] ++ ex_dest_chain k' last payload
  end.
Definition ex_udp : list N := [0; 53; 200; 0; 0; 8; 0; 0].

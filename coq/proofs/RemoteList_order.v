(* The order used by RemoteList.unlockedSort is a strict total order, for every preferred-range list. *)
From Coq Require Import List NArith Bool Lia.
Import ListNotations.
From NV Require Import model.RemoteList.
Open Scope N_scope.

(* ---- decidable equalities ---- *)
Lemma fam_eqb_eq a b : fam_eqb a b = true <-> a = b.
Proof. destruct a, b; simpl; split; intros H; try reflexivity; discriminate. Qed.

Lemma addr_eqb_eq a b : addr_eqb a b = true <-> a = b.
Proof.
  destruct a as [fa va], b as [fb vb]. unfold addr_eqb. cbn [fst snd].
  rewrite andb_true_iff, fam_eqb_eq, N.eqb_eq. split; [intros [-> ->]; reflexivity | intros H; inversion H; auto].
Qed.

Lemma ap_eqb_eq a b : ap_eqb a b = true <-> a = b.
Proof.
  destruct a as [aa pa], b as [ab pb]. unfold ap_eqb. cbn [fst snd].
  rewrite andb_true_iff, addr_eqb_eq, N.eqb_eq. split; [intros [-> ->]; reflexivity | intros H; inversion H; auto].
Qed.

Lemma ap_eqb_refl a : ap_eqb a a = true.
Proof. now apply ap_eqb_eq. Qed.

Lemma ap_eqb_neq a b : ap_eqb a b = false <-> a <> b.
Proof.
  split.
  - intros H E. apply ap_eqb_eq in E. congruence.
  - intros H. destruct (ap_eqb a b) eqn:E; [apply ap_eqb_eq in E; contradiction | reflexivity].
Qed.

Lemma addr_eqb_refl a : addr_eqb a a = true.
Proof. now apply addr_eqb_eq. Qed.

(* ---- the order as a lexicographic order on (class, address, port) ----
   class: 0 preferred IPv6, 2 preferred public IPv4, 3 preferred private IPv4,
          4 other IPv6,     6 other public IPv4,     7 other private IPv4 *)
Definition cls (pref : list prefix) (a : ap) : N :=
  (if in_any pref (ap_addr a) then 0 else 4) +
  (if is4 a then (if is_private4 (ap_val a) then 3 else 2) else 0).

Definition lex3 (x y : N * N * N) : Prop :=
  let '(c1, v1, p1) := x in let '(c2, v2, p2) := y in
  c1 < c2 \/ (c1 = c2 /\ (v1 < v2 \/ (v1 = v2 /\ p1 < p2))).

Definition key (pref : list prefix) (a : ap) : N * N * N := (cls pref a, ap_val a, ap_port a).

Lemma less_lex pref a b : less pref a b = true <-> lex3 (key pref a) (key pref b).
Proof.
  destruct a as [[fa va] pa], b as [[fb vb] pb].
  unfold less, key, cls, lex3, is4, ap_addr, ap_fam, ap_val, ap_port, addr_compare. cbn [fst snd].
  destruct (in_any pref (fa, va)), (in_any pref (fb, vb)), fa, fb;
    cbn [andb negb];
    try destruct (is_private4 va); try destruct (is_private4 vb); cbn [andb negb];
    try (split; [intros _; lia | reflexivity]);
    try (split; [discriminate | intros H; exfalso; lia]);
    (destruct (N.compare_spec va vb) as [E|E|E];
     [ subst; rewrite N.ltb_lt; split; [intros H; right; split; [reflexivity|right; split; [reflexivity|exact H]] | intros H; lia]
     | split; [intros _; lia | reflexivity]
     | split; [discriminate | intros H; exfalso; lia] ]).
Qed.

Lemma less_lex_false pref a b : less pref a b = false <-> ~ lex3 (key pref a) (key pref b).
Proof.
  rewrite <- less_lex. destruct (less pref a b); split; intros H; try reflexivity; try discriminate; try congruence.
Qed.

Lemma key_inj pref a b : key pref a = key pref b -> a = b.
Proof.
  destruct a as [[fa va] pa], b as [[fb vb] pb].
  unfold key, ap_val, ap_port. cbn [fst snd]. intros H.
  apply pair_equal_spec in H as [H Hp]. apply pair_equal_spec in H as [Hc Hv]. subst.
  unfold cls, is4, ap_addr, ap_fam, ap_val in Hc. cbn [fst snd] in Hc.
  destruct fa, fb; try reflexivity; exfalso;
    destruct (in_any pref (F4, vb)), (in_any pref (F6, vb)), (is_private4 vb); lia.
Qed.

Theorem less_irrefl pref a : less pref a a = false.
Proof. apply less_lex_false. unfold lex3, key. lia. Qed.

Theorem less_trans pref a b c : less pref a b = true -> less pref b c = true -> less pref a c = true.
Proof. rewrite !less_lex. unfold lex3, key. lia. Qed.

Theorem less_asym pref a b : less pref a b = true -> less pref b a = false.
Proof. rewrite less_lex, less_lex_false. unfold lex3, key. lia. Qed.

(* trichotomy: two addresses neither of which sorts before the other are the same address and port *)
Theorem less_total pref a b : less pref a b = false -> less pref b a = false -> a = b.
Proof.
  rewrite !less_lex_false. intros H1 H2. apply (key_inj pref).
  unfold lex3, key in *. f_equal; [f_equal|]; lia.
Qed.

Theorem less_trichotomy pref a b : less pref a b = true \/ a = b \/ less pref b a = true.
Proof.
  destruct (less pref a b) eqn:E1; [now left|]. destruct (less pref b a) eqn:E2; [now right; right|].
  right; left. now apply (less_total pref).
Qed.

(* the documented reading of the order *)
Theorem less_spec pref a b :
  less pref a b = true <->
  cls pref a < cls pref b \/
  (cls pref a = cls pref b /\ (ap_val a < ap_val b \/ (ap_val a = ap_val b /\ ap_port a < ap_port b))).
Proof. rewrite less_lex. unfold lex3, key. reflexivity. Qed.

(* ---- Addr.Compare as used for the relays ---- *)
Definition akey (a : addr) : N * N := ((match fst a with F4 => 0 | F6 => 1 end), snd a).

Lemma addr_ltb_lex a b : addr_ltb a b = true <-> (fst (akey a) < fst (akey b) \/ (fst (akey a) = fst (akey b) /\ snd (akey a) < snd (akey b))).
Proof.
  destruct a as [fa va], b as [fb vb]. unfold addr_ltb, addr_compare, akey. cbn [fst snd].
  destruct fa, fb; try (split; [intros _; lia | reflexivity]); try (split; [discriminate | intros H; exfalso; lia]);
    (destruct (N.compare_spec va vb); split; intros H'; try reflexivity; try discriminate; try lia; exfalso; lia).
Qed.

Lemma addr_ltb_irrefl a : addr_ltb a a = false.
Proof. destruct (addr_ltb a a) eqn:E; [|reflexivity]. apply addr_ltb_lex in E. lia. Qed.

Lemma addr_ltb_trans a b c : addr_ltb a b = true -> addr_ltb b c = true -> addr_ltb a c = true.
Proof. rewrite !addr_ltb_lex. lia. Qed.

Lemma addr_ltb_total a b : addr_ltb a b = false -> addr_ltb b a = false -> a = b.
Proof.
  intros H1 H2.
  assert (N1 : ~ (fst (akey a) < fst (akey b) \/ (fst (akey a) = fst (akey b) /\ snd (akey a) < snd (akey b))))
    by (rewrite <- addr_ltb_lex; congruence).
  assert (N2 : ~ (fst (akey b) < fst (akey a) \/ (fst (akey b) = fst (akey a) /\ snd (akey b) < snd (akey a))))
    by (rewrite <- addr_ltb_lex; congruence).
  destruct a as [fa va], b as [fb vb]. unfold akey in *. cbn [fst snd] in *.
  destruct fa, fb; try (exfalso; lia); f_equal; lia.
Qed.

(* Segment_inplace: the literal replay of the Go loop - stamp the saved header at i*gso over already consumed
   payload, patch it in place at absolute offsets, slice - yields exactly the segments of [segment_tcp] /
   [segment_udp]: a stamp never touches payload that is still to be delivered, whatever gso and header length are. *)
From Coq Require Import List NArith ZArith Bool Arith Lia ZifyN ZifyNat ZifyBool.
Import ListNotations.
From NV Require Import lib.Bytes lib.Ones model.Segment proofs.Segment_buf proofs.Segment_geom proofs.Segment_ref.
Open Scope N_scope.

Ltac alen :=
  repeat first [ rewrite app_length | rewrite wr16_length by alen | rewrite wr8_length by alen
               | rewrite wr32_length by alen | rewrite firstn_length | rewrite sub_length by alen ];
  lia.

(* ---------------------------------------------------------------------------------------------- *)
(** * a write inside the middle part of  pre ++ mid ++ post *)

Lemma wr_mid pre mid post k bs : (k + length bs <= length mid)%nat ->
  wr (pre ++ mid ++ post) (length pre + k) bs = pre ++ wr mid k bs ++ post.
Proof. intros H. rewrite wr_app_r. rewrite wr_app_l by exact H. reflexivity. Qed.

Lemma wr16_mid pre mid post k v : (k + 2 <= length mid)%nat ->
  wr16 (pre ++ mid ++ post) (length pre + k) v = pre ++ wr16 mid k v ++ post.
Proof. intros H. unfold wr16. apply wr_mid. exact H. Qed.

Lemma wr8_mid pre mid post k v : (k + 1 <= length mid)%nat ->
  wr8 (pre ++ mid ++ post) (length pre + k) v = pre ++ wr8 mid k v ++ post.
Proof. intros H. unfold wr8. apply wr_mid. exact H. Qed.

Lemma wr32_mid pre mid post k v : (k + 4 <= length mid)%nat ->
  wr32 (pre ++ mid ++ post) (length pre + k) v = pre ++ wr32 mid k v ++ post.
Proof.
  intros H. unfold wr32. rewrite wr16_mid by lia.
  replace (length pre + k + 2)%nat with (length pre + (k + 2))%nat by lia.
  rewrite wr16_mid by (rewrite wr16_length; lia). reflexivity.
Qed.

Lemma sub_mid pre mid post k n : (k <= length mid)%nat ->
  sub (pre ++ mid ++ post) (length pre + k) (length pre + length mid + n) = skipn k mid ++ firstn n post.
Proof.
  intros H. unfold sub.
  rewrite skipn_app, skipn_all2 by lia. cbn [app].
  replace (length pre + k - length pre)%nat with k by lia.
  rewrite skipn_app. replace (k - length mid)%nat with 0%nat by lia. cbn [skipn].
  rewrite firstn_app, skipn_length.
  rewrite firstn_all2 by (rewrite skipn_length; lia).
  f_equal. f_equal. lia.
Qed.

Lemma sub_post pre mid post a b :
  sub (pre ++ mid ++ post) (length pre + length mid + a) (length pre + length mid + b) = sub post a b.
Proof.
  unfold sub. rewrite app_assoc. rewrite skipn_app, skipn_all2 by (rewrite app_length; lia). cbn [app].
  rewrite app_length. f_equal; [lia|f_equal; lia].
Qed.

(* the L3 patch, in place = on the header *)
Lemma ip_patch_at_mid isV4 pre iph l4h post hl plen i oid b :
  (12 <= length iph)%nat ->
  ip_patch_at isV4 (pre ++ (iph ++ l4h) ++ post) (length pre) hl plen i oid b =
  pre ++ (ip_patch isV4 iph hl plen i oid b ++ l4h) ++ post.
Proof.
  intros H. unfold ip_patch_at, ip_patch. destruct isV4.
  - rewrite wr16_mid by (rewrite app_length; lia).
    rewrite wr16_mid by (rewrite wr16_length; rewrite app_length; lia).
    rewrite wr16_mid by (rewrite !wr16_length; rewrite ?wr16_length; rewrite ?app_length; lia).
    rewrite (wr16_app_l iph) by lia.
    rewrite (wr16_app_l (wr16 iph 2 _)) by (rewrite wr16_length; lia).
    rewrite (wr16_app_l (wr16 (wr16 iph 2 _) 4 _)) by (rewrite !wr16_length; rewrite ?wr16_length; lia).
    reflexivity.
  - rewrite wr16_mid by (rewrite app_length; lia). rewrite (wr16_app_l iph) by lia. reflexivity.
Qed.

(* writes into the L4 part of the header *)
Lemma wr16_l4 (a l4 : list N) k v : wr16 (a ++ l4) (length a + k) v = a ++ wr16 l4 k v.
Proof. unfold wr16. apply wr_app_r. Qed.
Lemma wr8_l4 (a l4 : list N) k v : wr8 (a ++ l4) (length a + k) v = a ++ wr8 l4 k v.
Proof. unfold wr8. apply wr_app_r. Qed.
Lemma wr32_l4 (a l4 : list N) k v : wr32 (a ++ l4) (length a + k) v = a ++ wr32 l4 k v.
Proof.
  unfold wr32. rewrite wr16_l4. replace (length a + k + 2)%nat with (length a + (k + 2))%nat by lia.
  rewrite wr16_l4. reflexivity.
Qed.

Lemma ip_patch_length isV4 iph hl plen i oid b : (12 <= length iph)%nat ->
  length (ip_patch isV4 iph hl plen i oid b) = length iph.
Proof. intros H. unfold ip_patch. destruct isV4; wlen. Qed.

(* ---------------------------------------------------------------------------------------------- *)
(** * the buffer invariant *)

(* before iteration i: nothing at or after the payload of segment i has been touched; before the first
   iteration the header is still in place *)
Definition inv (pkt : list N) (hl g i : nat) (buf : list N) : Prop :=
  length buf = length pkt /\ skipn (i * g + hl) buf = skipn (i * g + hl) pkt /\
  (i = 0%nat -> firstn hl buf = firstn hl pkt).

(* the stamped buffer, split around the header of segment i *)
Lemma stamped_split pkt hl g i buf : inv pkt hl g i buf -> (i * g + hl <= length pkt)%nat ->
  (if (0 <? i)%nat then wr buf (i * g) (firstn hl pkt) else buf) =
  firstn (i * g) buf ++ firstn hl pkt ++ skipn (i * g + hl) pkt /\ length (firstn (i * g) buf) = (i * g)%nat.
Proof.
  intros (L & Sk & F0) Hfit.
  assert (Lf : length (firstn hl pkt) = hl) by (rewrite firstn_length; lia).
  split; [|rewrite firstn_length; lia].
  destruct (Nat.ltb_spec 0 i) as [Hi|Hi].
  - unfold wr. rewrite Lf, Sk. reflexivity.
  - assert (i = 0%nat) by lia. subst i. cbn [Nat.mul Nat.add firstn app] in *.
    rewrite <- (F0 eq_refl), <- Sk. symmetry. apply firstn_skipn.
Qed.

Lemma inv_next pkt hl g i pre mid : (1 <= g)%nat -> length pre = (i * g)%nat -> length mid = hl ->
  (i * g + hl <= length pkt)%nat ->
  inv pkt hl g (S i) (pre ++ mid ++ skipn (i * g + hl) pkt).
Proof.
  intros Hg Lp Lm Hfit. unfold inv. split; [|split; [|discriminate]].
  - rewrite !app_length, skipn_length. lia.
  - rewrite app_assoc.
    replace (S i * g + hl)%nat with (length (pre ++ mid) + g)%nat by (rewrite app_length; lia).
    rewrite skipn_app, skipn_all2 by lia. cbn [app].
    replace (length (pre ++ mid) + g - length (pre ++ mid))%nat with g by lia.
    rewrite skipn_skipn. f_equal. rewrite app_length. lia.
Qed.

Lemma run_iters_map (iter : list N -> nat -> list N * list N) (f : nat -> list N) (I : nat -> list N -> Prop) n :
  (forall i buf, (i < n)%nat -> I i buf -> snd (iter buf i) = f i /\ I (S i) (fst (iter buf i))) ->
  forall len k buf, (k + len <= n)%nat -> I k buf -> run_iters iter buf (seq k len) = map f (seq k len).
Proof.
  intros Hstep. induction len as [|len IH]; intros k buf Hk HI; [reflexivity|].
  cbn [seq run_iters map]. destruct (Hstep k buf ltac:(lia) HI) as [E1 E2].
  destruct (iter buf k) as [buf' seg]. cbn [fst snd] in *. subst seg. f_equal.
  apply IH; [lia|exact E2].
Qed.

(* ---------------------------------------------------------------------------------------------- *)
(** * TCP *)

Lemma tcp_iter_spec pkt hl cs g isV4 thl numSeg oseq ofl bp bt oid bip buf i :
  (12 <= cs)%nat -> (cs + 20 <= hl)%nat -> (hl <= length pkt)%nat -> (1 <= g)%nat -> (i * g <= length pkt - hl)%nat ->
  inv pkt hl g i buf ->
  let r := tcp_iter (firstn hl pkt) hl cs g isV4 thl (length pkt - hl) numSeg oseq ofl bp bt oid bip buf i in
  snd r = tcp_seg pkt hl cs g isV4 thl numSeg oseq ofl bp bt oid bip i /\ inv pkt hl g (S i) (fst r).
Proof.
  intros Hcs Hhl Hlen Hg Hig HI r.
  destruct (stamped_split pkt hl g i buf HI ltac:(lia)) as [Est Lpre].
  set (pre := firstn (i * g) buf) in *.
  set (post := skipn (i * g + hl) pkt) in *.
  set (iph := firstn cs pkt). set (l4h := sub pkt cs hl).
  assert (Liph : length iph = cs) by (unfold iph; rewrite firstn_length; lia).
  assert (Ll4 : length l4h = (hl - cs)%nat) by (unfold l4h; rewrite sub_length; lia).
  assert (Ehdr : firstn hl pkt = iph ++ l4h).
  { unfold iph, l4h, sub. rewrite <- (firstn_skipn cs (firstn hl pkt)).
    rewrite firstn_firstn_le by lia. f_equal. rewrite skipn_firstn_comm. reflexivity. }
  unfold r, tcp_iter. cbv zeta. rewrite Est, Ehdr.
  rewrite <- Lpre.
  rewrite ip_patch_at_mid by lia.
  set (plen := (seg_end g (length pkt - hl) i - seg_start g i)%nat).
  set (iph' := ip_patch isV4 iph hl plen i oid bip).
  assert (Lip : length iph' = cs) by (unfold iph'; rewrite ip_patch_length; lia).
  set (sq := w32 (oseq + w32 (N.of_nat (seg_start g i)))).
  set (fl := tcp_flags ofl i numSeg).
  rewrite wr32_mid by alen.
  replace (cs + 4)%nat with (length iph' + 4)%nat by lia. rewrite wr32_l4.
  rewrite wr8_mid by alen.
  replace (cs + 13)%nat with (length iph' + 13)%nat by lia. rewrite wr8_l4.
  set (m2 := iph' ++ wr8 (wr32 l4h 4 sq) 13 fl).
  assert (Lm2 : length m2 = hl) by (unfold m2; alen).
  (* the payload read back from the buffer *)
  assert (Epay : sub (pre ++ m2 ++ post) (hl + seg_start g i) (hl + seg_end g (length pkt - hl) i) = chunk_of pkt hl g i).
  { unfold seg_start, seg_end.
    replace (hl + i * g)%nat with (length pre + length m2 + 0)%nat by lia.
    replace (hl + Nat.min (i * g + g) (length pkt - hl))%nat
      with (length pre + length m2 + (Nat.min (i * g + g) (length pkt - hl) - i * g))%nat by lia.
    rewrite sub_post. unfold chunk_of, seg_start, seg_end, sub, post.
    rewrite Nat.sub_0_r. cbn [skipn]. f_equal; [lia|f_equal; lia]. }
  rewrite Epay.
  set (c := fold_complement _).
  rewrite wr16_mid by lia. unfold m2.
  replace (cs + 16)%nat with (length iph' + 16)%nat by lia. rewrite wr16_l4.
  set (m3 := iph' ++ wr16 (wr8 (wr32 l4h 4 sq) 13 fl) 16 c).
  assert (Lm3 : length m3 = hl) by (unfold m3; alen).
  cbn [fst snd]. split.
  - replace (length pre + (hl + plen))%nat with (length pre + length m3 + plen)%nat by lia.
    replace (length pre) with (length pre + 0)%nat at 1 by lia.
    rewrite sub_mid by lia. cbn [skipn].
    unfold tcp_seg. cbv zeta. fold iph l4h plen sq fl iph'. unfold m3, tcp_l4_patch. cbv zeta.
    rewrite <- app_assoc. f_equal. f_equal.
    unfold chunk_of, sub, post, plen, seg_start, seg_end. f_equal; [lia|f_equal; lia].
  - apply inv_next; try assumption; lia.
Qed.

Theorem segment_tcp_inplace_eq pkt hl cs g :
  wf_tcp pkt hl cs g -> segment_tcp_inplace pkt hl cs g = segment_tcp pkt hl cs g.
Proof.
  intros [W [H20 Hhl]].
  destruct (wf_common_facts _ _ _ _ W) as (Hok & Hg & Hlen & H120 & Hfit & Hmin & H4 & H6).
  assert (Hcs : (20 <= cs)%nat) by (destruct (is_v4 pkt); cbn [min_l3] in Hmin; lia).
  unfold segment_tcp_inplace, segment_tcp.
  destruct (g =? 0)%nat; [reflexivity|]. destruct (cs =? 0)%nat; [reflexivity|]. destruct (120 <? hl)%nat; [reflexivity|].
  destruct (if is_v4 pkt then option_map (fun b => (rd16 pkt 4, b)) (base_ipv4_hdr_sum pkt cs) else Some (0, 0))
    as [[oid b]|]; [|reflexivity].
  f_equal.
  set (n := seg_count (length pkt - hl) g).
  apply (run_iters_map _ _ (inv pkt hl g) n).
  - intros i buf Hi HI.
    assert (Hig : (i * g <= length pkt - hl)%nat).
    { pose proof (chunk_start_le (skipn hl pkt) g i Hg) as C. rewrite skipn_length in C. apply C. exact Hi. }
    pose proof (tcp_iter_spec pkt hl cs g (is_v4 pkt) (N.to_nat (bat pkt (cs + 12) / 16) * 4) n (rd32 pkt (cs + 4))
                  (bat pkt (cs + 13)) (base_pseudo_sum pkt (is_v4 pkt) IPPROTO_TCP) (base_tcp_hdr_sum pkt cs hl)
                  oid b buf i ltac:(lia) ltac:(unfold tcp_hdr_len in *; lia) Hlen Hg Hig HI) as R.
    cbv zeta in R. exact R.
  - lia.
  - unfold inv. split; [reflexivity|]. split; [reflexivity|]. reflexivity.
Qed.

(* ---------------------------------------------------------------------------------------------- *)
(** * UDP *)

Lemma wr_l4 (a l4 : list N) k bs : wr (a ++ l4) (length a + k) bs = a ++ wr l4 k bs.
Proof. apply wr_app_r. Qed.

Lemma skipn_app_len' {A} (a b : list A) n : n = length a -> skipn n (a ++ b) = b.
Proof. intros ->. rewrite skipn_app, skipn_all, Nat.sub_diag. reflexivity. Qed.

Lemma udp_iter_spec pkt hl cs g isV4 bp oid bip buf i :
  (12 <= cs)%nat -> hl = (cs + 8)%nat -> (hl <= length pkt)%nat -> (1 <= g)%nat -> (i * g <= length pkt - hl)%nat ->
  inv pkt hl g i buf ->
  let r := udp_iter (firstn hl pkt) hl cs g isV4 (length pkt - hl) bp oid bip buf i in
  snd r = udp_seg pkt hl cs g isV4 bp oid bip i /\ inv pkt hl g (S i) (fst r).
Proof.
  intros Hcs Hhl Hlen Hg Hig HI r.
  destruct (stamped_split pkt hl g i buf HI ltac:(lia)) as [Est Lpre].
  set (pre := firstn (i * g) buf) in *.
  set (post := skipn (i * g + hl) pkt) in *.
  set (iph := firstn cs pkt). set (l4h := sub pkt cs hl).
  assert (Liph : length iph = cs) by (unfold iph; rewrite firstn_length; lia).
  assert (Ll4 : length l4h = 8%nat) by (unfold l4h; rewrite sub_length; lia).
  assert (Ehdr : firstn hl pkt = iph ++ l4h).
  { unfold iph, l4h, sub. rewrite <- (firstn_skipn cs (firstn hl pkt)).
    rewrite firstn_firstn_le by lia. f_equal. rewrite skipn_firstn_comm. reflexivity. }
  unfold r, udp_iter. cbv zeta. rewrite Est, Ehdr.
  rewrite <- Lpre.
  rewrite ip_patch_at_mid by lia.
  set (plen := (seg_end g (length pkt - hl) i - seg_start g i)%nat).
  set (iph' := ip_patch isV4 iph hl plen i oid bip).
  assert (Lip : length iph' = cs) by (unfold iph'; rewrite ip_patch_length; lia).
  set (ulen := w16 (N.of_nat (8 + plen))).
  rewrite wr16_mid by alen.
  replace (cs + 4)%nat with (length iph' + 4)%nat by lia. rewrite wr16_l4.
  rewrite wr_mid by (cbn [length]; alen).
  replace (cs + 6)%nat with (length iph' + 6)%nat by lia. rewrite wr_l4.
  set (l4z := wr (wr16 l4h 4 ulen) 6 [0; 0]).
  assert (Lz : length l4z = 8%nat) by (unfold l4z; rewrite wr_length; cbn [length]; alen).
  set (m2 := iph' ++ l4z).
  assert (Lm2 : length m2 = hl) by (unfold m2; alen).
  assert (Echunk : firstn plen post = chunk_of pkt hl g i).
  { unfold chunk_of, sub, post, plen, seg_start, seg_end. f_equal; [lia|f_equal; lia]. }
  assert (Ereg : sub (pre ++ m2 ++ post) (length pre + cs) (length pre + (hl + plen)) = l4z ++ chunk_of pkt hl g i).
  { replace (length pre + (hl + plen))%nat with (length pre + length m2 + plen)%nat by lia.
    rewrite sub_mid by lia. unfold m2. rewrite skipn_app_len' by lia. rewrite Echunk. reflexivity. }
  rewrite Ereg.
  set (c := if cpl16 _ =? 0 then 65535 else cpl16 _).
  rewrite wr16_mid by lia. unfold m2. rewrite wr16_l4.
  set (m3 := iph' ++ wr16 l4z 6 c).
  assert (Lm3 : length m3 = hl) by (unfold m3; alen).
  cbn [fst snd]. split.
  - replace (length pre + (hl + plen))%nat with (length pre + length m3 + plen)%nat by lia.
    replace (length pre) with (length pre + 0)%nat at 1 by lia.
    rewrite sub_mid by lia. cbn [skipn].
    unfold udp_seg. cbv zeta. fold iph l4h plen iph' ulen l4z. fold c. unfold m3.
    rewrite <- app_assoc. rewrite Echunk. reflexivity.
  - apply inv_next; try assumption; lia.
Qed.

Theorem segment_udp_inplace_eq pkt hl cs g :
  wf_udp pkt hl cs g -> segment_udp_inplace pkt hl cs g = segment_udp pkt hl cs g.
Proof.
  intros [W Hhl].
  destruct (wf_common_facts _ _ _ _ W) as (Hok & Hg & Hlen & H120 & Hfit & Hmin & H4 & H6).
  assert (Hcs : (20 <= cs)%nat) by (destruct (is_v4 pkt); cbn [min_l3] in Hmin; lia).
  unfold segment_udp_inplace, segment_udp.
  destruct (g =? 0)%nat; [reflexivity|]. destruct (cs =? 0)%nat; [reflexivity|]. destruct (120 <? hl)%nat; [reflexivity|].
  destruct (negb (hl =? cs + 8)%nat); [reflexivity|].
  destruct (if is_v4 pkt then option_map (fun b => (rd16 pkt 4, b)) (base_ipv4_hdr_sum pkt cs) else Some (0, 0))
    as [[oid b]|]; [|reflexivity].
  f_equal.
  set (n := seg_count (length pkt - hl) g).
  apply (run_iters_map _ _ (inv pkt hl g) n).
  - intros i buf Hi HI.
    assert (Hig : (i * g <= length pkt - hl)%nat).
    { pose proof (chunk_start_le (skipn hl pkt) g i Hg) as C. rewrite skipn_length in C. apply C. exact Hi. }
    pose proof (udp_iter_spec pkt hl cs g (is_v4 pkt) (base_pseudo_sum pkt (is_v4 pkt) IPPROTO_UDP)
                  oid b buf i ltac:(lia) Hhl Hlen Hg Hig HI) as R.
    cbv zeta in R. exact R.
  - lia.
  - unfold inv. split; [reflexivity|]. split; [reflexivity|]. reflexivity.
Qed.

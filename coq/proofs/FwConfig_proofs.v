(* C22: the port grammar accepted by parsePort, what a loaded rule list implies about its text, and the composition
   with the rule-table refinement (C16). *)
From Coq Require Import List NArith ZArith Bool Lia String.
Import ListNotations.
From NV Require Import lib.Corr lib.Ip gen.Consts_Firewall model.Firewall model.FwConfig
  proofs.Firewall_layers proofs.Firewall_refine proofs.Firewall_drop.
Open Scope N_scope.

(* ---------------------------------------------------------------------------------------------- *)
(* strconv.ParseUint(s, 10, 16) accepts exactly the non-empty digit strings whose value is at most 65535 *)

Definition dstep (a c : N) : N := a * 10 + (c - 48).

Lemma fold_dstep_ge l : forall a, a <= fold_left dstep l a.
Proof.
  induction l as [|c l IH]; intros a; simpl; [lia|].
  specialize (IH (dstep a c)). unfold dstep in *. lia.
Qed.

Lemma pu_loop_spec l : forall a n, a <= 65535 ->
  (pu_loop l a = Some n <-> forallb is_digit l = true /\ fold_left dstep l a = n /\ n <= 65535).
Proof.
  induction l as [|c l IH]; intros a n Ha; simpl.
  - split; [intros H; inversion H; subst; auto|intros (_ & H & _); now subst].
  - destruct (is_digit c) eqn:ED; simpl.
    + assert (EC : (cutoff64 <=? a) = false) by (apply N.leb_gt; unfold cutoff64; simpl; lia).
      rewrite EC. fold (dstep a c).
      destruct (65535 <? dstep a c) eqn:EL.
      * apply N.ltb_lt in EL. split; [discriminate|intros (_ & H & Hn)].
        pose proof (fold_dstep_ge l (dstep a c)). lia.
      * apply N.ltb_ge in EL. apply IH. exact EL.
    + split; [discriminate|intros (H & _); discriminate].
Qed.

Lemma parse_port_value_decimal16 s : parse_port_value s = decimal16 s.
Proof.
  unfold parse_port_value, decimal16, dec_val. fold dstep.
  destruct s as [|c r]; [reflexivity|]. set (s := c :: r). cbn [nonempty andb].
  destruct (pu_loop s 0) as [n|] eqn:E.
  - apply pu_loop_spec in E as (H1 & H2 & H3); [|lia]. rewrite H1, H2.
    now rewrite (proj2 (N.leb_le n 65535) H3).
  - destruct (forallb is_digit s) eqn:EF; [|reflexivity].
    destruct (fold_left dstep s 0 <=? 65535) eqn:EV; [|reflexivity].
    apply N.leb_le in EV.
    assert (pu_loop s 0 = Some (fold_left dstep s 0)) by (apply pu_loop_spec; [lia|auto]). congruence.
Qed.

(* the model of parsePort computes the documented grammar *)
Theorem parse_port_spec s : parse_port s = spec_port s.
Proof.
  unfold parse_port, spec_port.
  replace port_any with 0%Z by reflexivity. replace port_fragment with (-1)%Z by reflexivity.
  destruct (str_eqb s (bs "any")); [reflexivity|].
  destruct (str_eqb s (bs "fragment")); [reflexivity|].
  destruct (split_dash s) as [[l r]|].
  - rewrite !parse_port_value_decimal16.
    destruct (nonempty (trim l)) eqn:EL; cbn [negb orb].
    + destruct (nonempty (trim r)) eqn:ER; cbn [negb orb].
      * destruct (decimal16 (trim l)) as [a|]; [|reflexivity].
        destruct (decimal16 (trim r)) as [b|]; [|reflexivity].
        replace (Z.of_N a =? 0)%Z with (a =? 0); [reflexivity|].
        destruct (N.eqb_spec a 0); [subst; reflexivity|]. symmetry. apply Z.eqb_neq. lia.
      * unfold decimal16 at 2. rewrite ER. cbn [andb]. now destruct (decimal16 (trim l)).
    + unfold decimal16 at 1. rewrite EL. reflexivity.
  - rewrite parse_port_value_decimal16. now destruct (decimal16 s).
Qed.

(* ---- the grammar in words ---- *)
Definition is_decimal16 (s : str) (n : N) : Prop :=
  s <> [] /\ forallb is_digit s = true /\ dec_val s = n /\ n <= 65535.

Lemma decimal16_iff s n : decimal16 s = Some n <-> is_decimal16 s n.
Proof.
  unfold decimal16, is_decimal16. destruct s as [|c r]; cbn [nonempty andb].
  - split; [discriminate|intros (H & _); congruence].
  - set (s := c :: r). destruct (forallb is_digit s); cbn [andb].
    + destruct (N.leb_spec (dec_val s) 65535).
      * split; [intros E; inversion E; subst; repeat split; auto; discriminate|intros (_ & _ & E & _); now subst].
      * split; [discriminate|intros (_ & _ & E & Hn); lia].
    + split; [discriminate|intros (_ & E & _); discriminate].
Qed.

Lemma split_dash_some s l r : split_dash s = Some (l, r) <-> s = l ++ dash :: r /\ ~ In dash l.
Proof.
  revert l r. induction s as [|c s IH]; intros l r; simpl.
  - split; [discriminate|intros [H _]; destruct l; discriminate].
  - destruct (N.eqb_spec c dash) as [->|Hc].
    + split.
      * intros H; inversion H; subst. split; [reflexivity|intros []].
      * intros [H Hn]. destruct l as [|x l]; simpl in H; inversion H; subst; [reflexivity|]. exfalso. apply Hn. now left.
    + destruct (split_dash s) as [[a b]|] eqn:E.
      * split.
        -- intros H; inversion H; subst. destruct (proj1 (IH a r) eq_refl) as [-> Hn].
           split; [reflexivity|]. intros [H1|H1]; [congruence|auto].
        -- intros [H Hn]. destruct l as [|x l]; simpl in H; inversion H; subst; [congruence|].
           assert (Some (a, b) = Some (l, r)) as E2; [|inversion E2; reflexivity].
           apply IH. split; [reflexivity|]. intros H1. apply Hn. now right.
      * split; [discriminate|].
        intros [H Hn]. destruct l as [|x l]; simpl in H; inversion H; subst; [congruence|].
        assert (None = Some (l, r)) as E2; [|discriminate].
        apply IH. split; [reflexivity|]. intros H1. apply Hn. now right.
Qed.

Lemma split_dash_none s : split_dash s = None <-> ~ In dash s.
Proof.
  induction s as [|c s IH]; simpl.
  - split; [intros _ []|reflexivity].
  - destruct (N.eqb_spec c dash) as [->|Hc].
    + split; [discriminate|intros H; exfalso; apply H; now left].
    + destruct (split_dash s) as [[a b]|].
      * split; [discriminate|]. intros H. assert (Some (a, b) = None) as E; [|discriminate].
        apply IH. intros H1. apply H. now right.
      * split; [|reflexivity]. intros _ [H|H]; [congruence|]. now apply (proj1 IH eq_refl).
Qed.

Lemma digits_no_dash s : forallb is_digit s = true -> ~ In dash s.
Proof.
  intros H Hin. rewrite forallb_forall in H. apply H in Hin. discriminate.
Qed.

(* C22_port: for ALL strings *)
Theorem port_grammar s a b :
  parse_port s = Some (a, b) <->
    (s = bs "any" /\ a = 0%Z /\ b = 0%Z)
    \/ (s = bs "fragment" /\ a = (-1)%Z /\ b = (-1)%Z)
    \/ (exists n, is_decimal16 s n /\ a = Z.of_N n /\ b = Z.of_N n)
    \/ (exists l r lo hi, s = l ++ dash :: r /\ ~ In dash l /\ is_decimal16 (trim l) lo /\ is_decimal16 (trim r) hi
                          /\ a = Z.of_N lo /\ b = if lo =? 0 then 0%Z else Z.of_N hi).
Proof.
  rewrite parse_port_spec. unfold spec_port.
  destruct (str_eqb s (bs "any")) eqn:E1.
  { apply list_eqb_eq in E1; [|intros; apply N.eqb_eq]. subst s. split.
    - intros H; inversion H; subst. auto.
    - intros [(_ & -> & ->)|[(H & _)|[(n & (_ & H & _) & _)|(l & r & lo & hi & H & Hn & _)]]]; try reflexivity; try discriminate.
      exfalso. assert (In dash (bs "any")) as Hin by (rewrite H; apply in_or_app; right; now left).
      vm_compute in Hin. intuition discriminate. }
  destruct (str_eqb s (bs "fragment")) eqn:E2.
  { apply list_eqb_eq in E2; [|intros; apply N.eqb_eq]. subst s. split.
    - intros H; inversion H; subst. auto.
    - intros [(H & _)|[(_ & -> & ->)|[(n & (_ & H & _) & _)|(l & r & lo & hi & H & Hn & _)]]]; try reflexivity; try discriminate.
      exfalso. assert (In dash (bs "fragment")) as Hin by (rewrite H; apply in_or_app; right; now left).
      vm_compute in Hin. intuition discriminate. }
  assert (N1 : s <> bs "any").
  { intros ->. vm_compute in E1. discriminate. }
  assert (N2 : s <> bs "fragment").
  { intros ->. vm_compute in E2. discriminate. }
  destruct (split_dash s) as [[l r]|] eqn:ES.
  - apply split_dash_some in ES as [-> Hn]. split.
    + destruct (decimal16 (trim l)) as [lo|] eqn:EL; [|discriminate].
      destruct (decimal16 (trim r)) as [hi|] eqn:ER; [|discriminate].
      intros H; inversion H; subst. right; right; right. exists l, r, lo, hi.
      apply decimal16_iff in EL. apply decimal16_iff in ER. auto 10.
    + intros [(H & _)|[(H & _)|[(n & (_ & H & _) & _)|(l' & r' & lo & hi & H & Hn' & HL & HR & -> & ->)]]]; try congruence.
      * exfalso. apply (digits_no_dash _ H). apply in_or_app; right; now left.
      * assert (Some (l, r) = Some (l', r')) as E.
        { rewrite <- (proj2 (split_dash_some (l ++ dash :: r) l r) (conj eq_refl Hn)).
          apply split_dash_some. auto. }
        inversion E; subst l' r'.
        apply decimal16_iff in HL. apply decimal16_iff in HR. now rewrite HL, HR.
  - pose proof (proj1 (split_dash_none s) ES) as Hn. split.
    + destruct (decimal16 s) as [n|] eqn:ED; [|discriminate]. cbn [option_map].
      intros H; inversion H; subst. right; right; left. exists n. apply decimal16_iff in ED. auto.
    + intros [(H & _)|[(H & _)|[(n & HD & -> & ->)|(l' & r' & lo & hi & H & _)]]]; try congruence.
      * apply decimal16_iff in HD. now rewrite HD.
      * exfalso. apply Hn. rewrite H. apply in_or_app; right; now left.
Qed.

(* ---------------------------------------------------------------------------------------------- *)
(* what a successful check of one rule implies about its text *)

Definition known_proto (p : str) (n : N) : Prop :=
  (p = bs "any" /\ n = proto_any) \/ (p = bs "tcp" /\ n = proto_tcp) \/ (p = bs "udp" /\ n = proto_udp)
  \/ (p = bs "icmp" /\ n = proto_icmp).

Definition cidr_denotes (pp : str -> option prefix) (s : str) (c : csel) : Prop :=
  (s = [] /\ c = CNone) \/ (s = bs "any" /\ c = CAny) \/ (exists p, s <> [] /\ pp s = Some p /\ c = CPfx p).

Lemma str_eqb_true a b : str_eqb a b = true -> a = b.
Proof. apply list_eqb_eq. intros; apply N.eqb_eq. Qed.

Lemma csel_of_denotes pp s c : csel_of pp s = Some c -> cidr_denotes pp s c.
Proof.
  unfold csel_of, cidr_denotes. destruct s as [|x s']; cbn [nonempty negb].
  - intros H; inversion H. auto.
  - set (s := x :: s'). destruct (str_eqb s (bs "any")) eqn:E.
    + intros H; inversion H. apply str_eqb_true in E. auto.
    + destruct (pp s) as [p|] eqn:EP; [|discriminate]. intros H; inversion H.
      right; right. exists p. repeat split; auto. discriminate.
Qed.

Theorem check_rule_sound pp c r :
  check_rule pp c = Some r ->
  (* a known protocol *)
  known_proto (c_proto c) (r_proto r)
  (* not both code and port *)
  /\ (c_code c = [] \/ c_port c = [])
  (* at least one selector *)
  /\ (c_host c <> [] \/ c_groups c <> [] \/ c_cidr c <> [] \/ c_local c <> [] \/ c_ca_name c <> [] \/ c_ca_sha c <> [])
  (* a valid port text (icmp: the text is ignored and the rule is any-port) *)
  /\ (if str_eqb (c_proto c) (bs "icmp") then r_start r = port_any /\ r_end r = port_any
      else parse_port (if nonempty (c_code c) then c_code c else c_port c) = Some (r_start r, r_end r))
  (* cidr and local_cidr: absent, any, or accepted by netip.ParsePrefix *)
  /\ cidr_denotes pp (c_cidr c) (r_cidr r) /\ cidr_denotes pp (c_local c) (r_local r)
  (* the rest is copied *)
  /\ r_groups r = c_groups c /\ r_host r = c_host c /\ r_ca_name r = c_ca_name c /\ r_ca_sha r = c_ca_sha c.
Proof.
  unfold check_rule.
  destruct (nonempty (c_code c) && nonempty (c_port c)) eqn:E0; [discriminate|].
  destruct (negb (nonempty (c_host c)) && negb (nonempty (c_groups c)) && negb (nonempty (c_cidr c))
            && negb (nonempty (c_local c)) && negb (nonempty (c_ca_name c)) && negb (nonempty (c_ca_sha c))) eqn:E1;
    [discriminate|].
  set (sport := if nonempty (c_code c) then c_code c else c_port c).
  assert (HP : forall q : N, (option_map (pair q) (parse_port sport) = None /\ parse_port sport = None)
                         \/ exists ab, parse_port sport = Some ab /\ option_map (pair q) (parse_port sport) = Some (q, ab)).
  { intros q. destruct (parse_port sport) as [ab|]; [right; exists ab; auto|left; auto]. }
  assert (SEL : c_host c <> [] \/ c_groups c <> [] \/ c_cidr c <> [] \/ c_local c <> [] \/ c_ca_name c <> [] \/ c_ca_sha c <> []).
  { destruct (c_host c); [|left; discriminate]. destruct (c_groups c); [|right; left; discriminate].
    destruct (c_cidr c); [|right; right; left; discriminate]. destruct (c_local c); [|right; right; right; left; discriminate].
    destruct (c_ca_name c); [|right; right; right; right; left; discriminate].
    destruct (c_ca_sha c); [|right; right; right; right; right; discriminate]. discriminate. }
  assert (CP : c_code c = [] \/ c_port c = []).
  { destruct (c_code c); [auto|]. destruct (c_port c); [auto|]. discriminate. }
  assert (FIN : forall proto s e,
    match csel_of pp (c_cidr c), csel_of pp (c_local c) with
    | Some cidr, Some lcl => Some (mkRule proto s e (c_groups c) (c_host c) cidr lcl (c_ca_name c) (c_ca_sha c))
    | _, _ => None end = Some r ->
    r_proto r = proto /\ r_start r = s /\ r_end r = e /\ cidr_denotes pp (c_cidr c) (r_cidr r) /\ cidr_denotes pp (c_local c) (r_local r)
    /\ r_groups r = c_groups c /\ r_host r = c_host c /\ r_ca_name r = c_ca_name c /\ r_ca_sha r = c_ca_sha c).
  { intros proto s e. destruct (csel_of pp (c_cidr c)) as [x|] eqn:EX; [|discriminate].
    destruct (csel_of pp (c_local c)) as [y|] eqn:EY; [|discriminate].
    intros H; inversion H; subst; cbn. apply csel_of_denotes in EX. apply csel_of_denotes in EY. auto 10. }
  destruct (str_eqb (c_proto c) (bs "any")) eqn:P1.
  { apply str_eqb_true in P1. destruct (HP proto_any) as [[-> _]|[[s e] [E ->]]]; [discriminate|].
    intros H. apply FIN in H as (H1 & H2 & H3 & H4 & H5 & H6). rewrite P1. replace (str_eqb (bs "any") (bs "icmp")) with false by reflexivity.
    rewrite <- P1. subst. unfold known_proto. rewrite E. auto 15. }
  destruct (str_eqb (c_proto c) (bs "tcp")) eqn:P2.
  { apply str_eqb_true in P2. destruct (HP proto_tcp) as [[-> _]|[[s e] [E ->]]]; [discriminate|].
    intros H. apply FIN in H as (H1 & H2 & H3 & H4 & H5 & H6). rewrite P2. replace (str_eqb (bs "tcp") (bs "icmp")) with false by reflexivity.
    rewrite <- P2. subst. unfold known_proto. rewrite E. auto 15. }
  destruct (str_eqb (c_proto c) (bs "udp")) eqn:P3.
  { apply str_eqb_true in P3. destruct (HP proto_udp) as [[-> _]|[[s e] [E ->]]]; [discriminate|].
    intros H. apply FIN in H as (H1 & H2 & H3 & H4 & H5 & H6). rewrite P3. replace (str_eqb (bs "udp") (bs "icmp")) with false by reflexivity.
    rewrite <- P3. subst. unfold known_proto. rewrite E. auto 15. }
  destruct (str_eqb (c_proto c) (bs "icmp")) eqn:P4; [|discriminate].
  apply str_eqb_true in P4. intros H. apply FIN in H as (H1 & H2 & H3 & H4 & H5 & H6).
  unfold known_proto. auto 15.
Qed.

(* ---------------------------------------------------------------------------------------------- *)
(* lists of rules; recorder vs real firewall; no panics *)

Lemma convert_rule_no_panic y : convert_rule y <> RPanic.
Proof.
  unfold convert_rule. destruct y as [| | | | | |m]; try discriminate.
  destruct (mget "group" m) as [[| | | | |[|x [|? ?]]|]|]; try discriminate;
    (destruct (mget "groups" m) as [[| | | | |l|]|]; try discriminate;
     try (destruct (all_strings l); try discriminate);
     match goal with |- context [if ?b then _ else _] => destruct b end; discriminate).
Qed.

Lemma rules_of_list_sound pp ys : forall rs,
  rules_of_list pp ys = ROk rs ->
  Forall2 (fun y r => exists c, convert_rule y = ROk c /\ check_rule pp c = Some r) ys rs.
Proof.
  induction ys as [|y ys IH]; intros rs; simpl.
  - intros H; inversion H. constructor.
  - destruct (convert_rule y) as [c| |] eqn:EC; try discriminate.
    destruct (check_rule pp c) as [r|] eqn:ER; [|discriminate].
    destruct (rules_of_list pp ys) as [rs'| |]; try discriminate.
    intros H; inversion H; subst. constructor; [exists c; auto|apply IH; reflexivity].
Qed.

Lemma rules_of_list_no_panic pp ys : rules_of_list pp ys <> RPanic.
Proof.
  induction ys as [|y ys IH]; simpl; [discriminate|].
  destruct (convert_rule y) as [c| |] eqn:EC; try discriminate; [|now apply convert_rule_no_panic in EC].
  destruct (check_rule pp c); [|discriminate].
  destruct (rules_of_list pp ys); try discriminate. congruence.
Qed.

(* loading into the real firewall = the recorder's rule list, then AddRule for each, in order *)
Lemma load_list_rules pp cf ys : forall t t',
  load_list pp cf ys t = ROk t' <-> exists rs, rules_of_list pp ys = ROk rs /\ add_rules cf rs t = Some t'.
Proof.
  induction ys as [|y ys IH]; intros t t'; simpl.
  - split; [intros H; inversion H; exists []; auto|intros (rs & H1 & H2); inversion H1; subst; simpl in H2; congruence].
  - destruct (convert_rule y) as [c| |]; try (split; [discriminate|intros (rs & H & _); discriminate]).
    destruct (check_rule pp c) as [r|]; [|split; [discriminate|intros (rs & H & _); discriminate]].
    destruct (add_rule cf r t) as [t1|] eqn:EA.
    + rewrite IH. split.
      * intros (rs & H1 & H2). exists (r :: rs). rewrite H1. simpl. rewrite EA. auto.
      * intros (rs & H1 & H2). destruct (rules_of_list pp ys) as [rs'| |]; try discriminate.
        inversion H1; subst. simpl in H2. rewrite EA in H2. exists rs'. auto.
    + split; [discriminate|]. intros (rs & H1 & H2). destruct (rules_of_list pp ys) as [rs'| |]; try discriminate.
      inversion H1; subst. simpl in H2. rewrite EA in H2. discriminate.
Qed.

Lemma load_list_no_panic pp cf ys : forall t, load_list pp cf ys t <> RPanic.
Proof.
  induction ys as [|y ys IH]; intros t; simpl; [discriminate|].
  destruct (convert_rule y) as [c| |] eqn:EC; try discriminate; [|now apply convert_rule_no_panic in EC].
  destruct (check_rule pp c); [|discriminate]. destruct (add_rule cf _ t); [apply IH|discriminate].
Qed.

Theorem load_config_rules pp cf tbl t :
  load_config pp cf tbl empty_table = ROk t <->
  exists rs, rules_from_config pp tbl = ROk rs /\ add_rules cf rs empty_table = Some t.
Proof.
  unfold load_config, rules_from_config.
  destruct tbl as [[| | | | |ys|]|]; try (split; [discriminate|intros (rs & H & _); discriminate]).
  - split; [intros H; inversion H; exists []; auto|intros (rs & H1 & H2); inversion H1; subst; simpl in H2; congruence].
  - apply load_list_rules.
  - split; [intros H; inversion H; exists []; auto|intros (rs & H1 & H2); inversion H1; subst; simpl in H2; congruence].
Qed.

(* C22_exact: the loaded table admits exactly the packets the textual rules describe *)
Theorem load_config_exact pp cf tbl t :
  load_config pp cf tbl empty_table = ROk t ->
  exists rs, rules_from_config pp tbl = ROk rs /\ forallb rule_valid rs = true /\
    forall incoming pkt pr pl, table_match t incoming pkt pr pl = existsb (rule_matches cf incoming pkt pr pl) rs.
Proof.
  intros H. apply load_config_rules in H as (rs & H1 & H2). exists rs. split; [exact H1|split].
  - apply (add_rules_some cf rs empty_table). eauto.
  - intros. now apply refine.
Qed.

Theorem load_config_complete pp cf tbl rs :
  rules_from_config pp tbl = ROk rs -> forallb rule_valid rs = true -> exists t, load_config pp cf tbl empty_table = ROk t.
Proof.
  intros H1 H2. apply (add_rules_some cf rs empty_table) in H2 as [t H2]. exists t. apply load_config_rules. eauto.
Qed.

Theorem no_panic pp cf tbl t : rules_from_config pp tbl <> RPanic /\ load_config pp cf tbl t <> RPanic.
Proof.
  unfold rules_from_config, load_config. destruct tbl as [[| | | | |ys|]|]; split; try discriminate.
  - apply rules_of_list_no_panic.
  - apply load_list_no_panic.
Qed.

Lemma Forall2_imp {A B} (P Q : A -> B -> Prop) l1 l2 :
  (forall a b, P a b -> Q a b) -> Forall2 P l1 l2 -> Forall2 Q l1 l2.
Proof. intros H F. induction F; constructor; auto. Qed.

Definition rule_text_denotes (pp : str -> option prefix) (y : yaml) (r : rule) : Prop :=
  exists c, convert_rule y = ROk c /\
    known_proto (c_proto c) (r_proto r)
    /\ (c_code c = [] \/ c_port c = [])
    /\ (c_host c <> [] \/ c_groups c <> [] \/ c_cidr c <> [] \/ c_local c <> [] \/ c_ca_name c <> [] \/ c_ca_sha c <> [])
    /\ (if str_eqb (c_proto c) (bs "icmp") then r_start r = port_any /\ r_end r = port_any
        else parse_port (if nonempty (c_code c) then c_code c else c_port c) = Some (r_start r, r_end r))
    /\ cidr_denotes pp (c_cidr c) (r_cidr r) /\ cidr_denotes pp (c_local c) (r_local r)
    /\ r_groups r = c_groups c /\ r_host r = c_host c /\ r_ca_name r = c_ca_name c /\ r_ca_sha r = c_ca_sha c.

Theorem rules_from_config_sound pp tbl rs :
  rules_from_config pp tbl = ROk rs ->
  ((tbl = None \/ tbl = Some YNull) /\ rs = []) \/
  exists ys, tbl = Some (YList ys) /\ Forall2 (rule_text_denotes pp) ys rs.
Proof.
  intros H. unfold rules_from_config in H.
  destruct tbl as [[| | | | |ys|]|]; try discriminate.
  - left. inversion H. auto.
  - right. exists ys. split; [reflexivity|]. apply rules_of_list_sound in H.
    eapply Forall2_imp; [|exact H]. intros y r (c & H1 & H2). exists c. split; [exact H1|]. now apply check_rule_sound.
  - left. inversion H. auto.
Qed.

(* Lighthouse_gate: the generated gating table (gen/Tab_Lighthouse.v, evaluated from the real HandleRequest on
   every run) equals the documented rule [doc_eff] on every row a message can have, and what the rule implies. *)
From Coq Require Import List NArith Bool Lia.
Import ListNotations.
From NV Require Import lib.Ip gen.Tab_Lighthouse model.Lighthouse.
Open Scope N_scope.

(* the message types the rule talks about, as documented (nebula.proto) *)
Lemma lh_types_doc :
  t_host_query = 1 /\ t_host_query_reply = 2 /\ t_host_update = 3 /\ t_host_punch = 5 /\ t_host_update_ack = 10 /\
  lh_t_max = 10.
Proof. repeat split; reflexivity. Qed.

Definition nrange (k : N) : list N := map N.of_nat (seq 0 (N.to_nat k)).

Lemma in_nrange n k : n < k -> In n (nrange k).
Proof.
  intros H. unfold nrange. apply in_map_iff. exists (N.to_nat n). split; [apply N2Nat.id|].
  apply in_seq. lia.
Qed.

Definition valid_rowb (r : row) : bool :=
  let '(_, _, tc, cl, mu) := r in
  (tc <=? lh_t_max + 1) && (cl <? 8) && (negb ((cl =? 3) || (cl =? 6)) || mu).

Definition all_rows : list row :=
  filter valid_rowb
    (flat_map (fun am => flat_map (fun slh => flat_map (fun tc => flat_map (fun cl =>
       map (fun mu => (am, slh, tc, cl, mu)) [false; true]) (nrange 8)) (nrange (lh_t_max + 2))) [false; true]) [false; true]).

Lemma in_bools (b : bool) : In b [false; true].
Proof. destruct b; simpl; auto. Qed.

Lemma all_rows_complete r : valid_rowb r = true -> In r all_rows.
Proof.
  intros V. unfold all_rows. apply filter_In. split; [|exact V].
  destruct r as [[[[am slh] tc] cl] mu]. unfold valid_rowb in V.
  apply andb_prop in V as [V V3]. apply andb_prop in V as [V1 V2].
  apply N.leb_le in V1. apply N.ltb_lt in V2.
  apply in_flat_map. exists am. split; [apply in_bools|].
  apply in_flat_map. exists slh. split; [apply in_bools|].
  apply in_flat_map. exists tc. split; [apply in_nrange; lia|].
  apply in_flat_map. exists cl. split; [apply in_nrange; lia|].
  apply in_map_iff. exists mu. split; [reflexivity|apply in_bools].
Qed.

Definition eff_eqb (a b : eff) : bool :=
  match a, b with
  | ENone, ENone | EAnswer, EAnswer | EUpdate, EUpdate | EReply, EReply | EPunch, EPunch | EOther, EOther => true
  | _, _ => false
  end.

Lemma eff_eqb_eq a b : eff_eqb a b = true -> a = b.
Proof. destruct a, b; simpl; intros H; try reflexivity; discriminate. Qed.

(* THE reflection step: the table produced from the code agrees with the documented rule on all valid rows *)
Lemma rows_checked : forallb (fun r => eff_eqb (tab_eff r) (doc_eff r)) all_rows = true.
Proof. vm_compute. reflexivity. Qed.

Lemma tab_doc_row r : valid_rowb r = true -> tab_eff r = doc_eff r.
Proof.
  intros V. apply eff_eqb_eq.
  exact (proj1 (forallb_forall _ _) rows_checked r (all_rows_complete r V)).
Qed.

(* every message has a valid row *)
Lemma mem_nonempty a l : mem a l = true -> l <> [].
Proof. destruct l; [discriminate|intros _ H; discriminate]. Qed.

Lemma tclass_le t : tclass t <= lh_t_max + 1.
Proof. unfold tclass. destruct (t <=? lh_t_max) eqn:E; [apply N.leb_le in E|]; lia. Qed.

Lemma features_valid c f m : valid_rowb (features c f m) = true.
Proof.
  unfold features, valid_rowb.
  apply andb_true_intro. split; [apply andb_true_intro; split|].
  - apply N.leb_le, tclass_le.
  - unfold claim_class. destruct (claimed m); [|destruct (m_det m); reflexivity].
    destruct (is_v1 m), (addr_eqb a (fst f)), (mem a (snd f)); reflexivity.
  - unfold claim_class, multi. destruct (claimed m) as [a|]; [|destruct (m_det m); reflexivity].
    destruct (addr_eqb a (fst f)); [destruct (is_v1 m); reflexivity|].
    destruct (mem a (snd f)) eqn:M.
    + apply mem_nonempty in M. destruct (snd f); [congruence|]. apply orb_true_r.
    + destruct (is_v1 m); reflexivity.
Qed.

Theorem tab_is_doc c f m : tab_eff (features c f m) = doc_eff (features c f m).
Proof. apply tab_doc_row, features_valid. Qed.

(* ---- what the documented rule implies ------------------------------------------------------------------ *)

Lemma tclass_eq t k : k <= lh_t_max -> tclass t = k -> t = k.
Proof.
  unfold tclass. intros Hk. destruct (t <=? lh_t_max) eqn:E; intros H; [exact H|]. lia.
Qed.

Ltac gate_cases :=
  unfold doc_eff;
  repeat match goal with
  | |- context [if ?b then _ else _] => let E := fresh "E" in destruct b eqn:E
  end; try discriminate.

Lemma doc_not_other r : doc_eff r <> EOther.
Proof. destruct r as [[[[am slh] tc] cl] mu]. gate_cases. Qed.

Lemma doc_answer am slh tc cl mu :
  doc_eff (am, slh, tc, cl, mu) = EAnswer -> am = true /\ tc = t_host_query /\ cl_has_addr cl = true.
Proof.
  gate_cases; intros _.
  all: try (apply andb_prop in E0 as [? ?]; apply N.eqb_eq in E; auto).
  all: apply N.eqb_eq in E, E0; rewrite E in E0; discriminate.
Qed.

Lemma doc_update am slh tc cl mu :
  doc_eff (am, slh, tc, cl, mu) = EUpdate -> am = true /\ tc = t_host_update /\ cl_foreign cl = false.
Proof.
  gate_cases; intros _.
  all: try (apply andb_prop in E2 as [? H2]; apply negb_true_iff in H2; apply N.eqb_eq in E1; auto).
  all: exfalso; repeat match goal with H : (_ =? _) = true |- _ => apply N.eqb_eq in H end; congruence.
Qed.

Lemma doc_reply am slh tc cl mu :
  doc_eff (am, slh, tc, cl, mu) = EReply -> slh = true /\ tc = t_host_query_reply /\ cl_has_addr cl = true.
Proof.
  gate_cases; intros _.
  all: try (apply andb_prop in E1 as [? ?]; apply N.eqb_eq in E0; auto).
  all: exfalso; repeat match goal with H : (_ =? _) = true |- _ => apply N.eqb_eq in H end; congruence.
Qed.

Lemma doc_punch am slh tc cl mu :
  doc_eff (am, slh, tc, cl, mu) = EPunch -> slh = true /\ tc = t_host_punch /\ cl_has_addr cl = true.
Proof.
  gate_cases; intros _.
  all: try (apply andb_prop in E3 as [? ?]; apply N.eqb_eq in E2; auto).
  all: exfalso; repeat match goal with H : (_ =? _) = true |- _ => apply N.eqb_eq in H end; congruence.
Qed.

(* the row of a message, unfolded *)
Lemma gate_answer c f m : tab_eff (features c f m) = EAnswer ->
  c_am c = true /\ m_type m = t_host_query /\ exists q, claimed m = Some q.
Proof.
  rewrite tab_is_doc. unfold features. intros H. apply doc_answer in H as (A & T & C).
  split; [exact A|]. split; [apply tclass_eq in T; [exact T|vm_compute; discriminate]|].
  unfold claim_class in C. destruct (claimed m) as [q|]; [eauto|]. destruct (m_det m); discriminate.
Qed.

Lemma claim_not_foreign f m a :
  claimed m = Some a -> cl_foreign (claim_class f m) = false -> In a (all_from f).
Proof.
  unfold claim_class. intros -> H. unfold all_from.
  destruct (addr_eqb a (fst f)) eqn:E1; [apply addr_eqb_eq in E1; left; auto|].
  destruct (mem a (snd f)) eqn:E2.
  - right. unfold mem in E2. apply existsb_exists in E2 as (x & Hx & Ex). apply addr_eqb_eq in Ex. now subst.
  - destruct (is_v1 m); discriminate.
Qed.

Lemma gate_update c f m : tab_eff (features c f m) = EUpdate ->
  c_am c = true /\ m_type m = t_host_update /\ forall a, claimed m = Some a -> In a (all_from f).
Proof.
  rewrite tab_is_doc. unfold features. intros H. apply doc_update in H as (A & T & C).
  split; [exact A|]. split; [apply tclass_eq in T; [exact T|vm_compute; discriminate]|].
  intros a Ha. eapply claim_not_foreign; eauto.
Qed.

Lemma gate_reply c f m : tab_eff (features c f m) = EReply ->
  sender_lh c f = true /\ m_type m = t_host_query_reply /\ exists a, claimed m = Some a.
Proof.
  rewrite tab_is_doc. unfold features. intros H. apply doc_reply in H as (A & T & C).
  split; [exact A|]. split; [apply tclass_eq in T; [exact T|vm_compute; discriminate]|].
  unfold claim_class in C. destruct (claimed m) as [q|]; [eauto|]. destruct (m_det m); discriminate.
Qed.

Lemma gate_punch c f m : tab_eff (features c f m) = EPunch ->
  sender_lh c f = true /\ m_type m = t_host_punch /\ exists a, claimed m = Some a.
Proof.
  rewrite tab_is_doc. unfold features. intros H. apply doc_punch in H as (A & T & C).
  split; [exact A|]. split; [apply tclass_eq in T; [exact T|vm_compute; discriminate]|].
  unfold claim_class in C. destruct (claimed m) as [q|]; [eauto|]. destruct (m_det m); discriminate.
Qed.

Lemma gate_not_other c f m : tab_eff (features c f m) <> EOther.
Proof. rewrite tab_is_doc. apply doc_not_other. Qed.

(* the converse direction, used for non-vacuity: the rule does admit the documented cases *)
Lemma sender_lh_In c f : sender_lh c f = true <-> exists a, In a (all_from f) /\ In a (c_lhs c).
Proof.
  unfold sender_lh. rewrite existsb_exists. split.
  - intros (a & Ha & M). exists a. split; [exact Ha|]. unfold mem in M.
    apply existsb_exists in M as (x & Hx & E). apply addr_eqb_eq in E. now subst.
  - intros (a & Ha & L). exists a. split; [exact Ha|]. unfold mem. apply existsb_exists. exists a. split; [exact L|].
    now apply addr_eqb_eq.
Qed.

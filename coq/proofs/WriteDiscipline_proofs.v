(* WriteDiscipline_proofs: the regenerated table of write sites satisfies the hand-written rules, and what the two
   rules buy in an abstract model of accesses. *)
From Coq Require Import List NArith Bool Lia.
Import ListNotations.
From NV Require Import gen.LockGraph gen.WriteSites model.WriteDiscipline.
Open Scope N_scope.

(* the translator tie: every write site of the current source obeys its rule (finite table, checked by reflection) *)
Lemma write_discipline_holds : forallb site_ok sites = true.
Proof. vm_compute. reflexivity. Qed.

Lemma write_discipline_each : forall s, In s sites -> site_ok s = true.
Proof. apply forallb_forall. exact write_discipline_holds. Qed.

(* what site_ok says, spelled out *)
Lemma site_ok_guard s c : ws_kind s = KGuard -> guard_of (ws_obj s) = Some c -> site_ok s = true ->
  ws_fresh s = true \/ memN c (ws_heldw s) = true.
Proof. unfold site_ok. intros -> ->. apply orb_true_iff. Qed.

Lemma site_ok_imm s : ws_kind s = KImm -> memN (ws_obj s) immutable_types = true -> site_ok s = true -> ws_fresh s = true.
Proof. unfold site_ok. intros -> ->. auto. Qed.

(* Rule "guarded": if, at some instant of some execution, write-mode locks are mutually exclusive and every write in
   progress holds the guard of its location, then two writes in progress on the same location belong to the same
   thread - writes to a guarded location by different threads never overlap.  (Every instant of every execution: the
   instant is arbitrary.) *)
Lemma guarded_writes_exclusive guard st : exclusive st -> (forall a, In a st -> write_guarded guard a) ->
  forall a b, In a st -> In b st -> a_write a = true -> a_write b = true -> a_loc a = a_loc b -> a_thread a = a_thread b.
Proof.
  intros Hex Hg a b Ha Hb Wa Wb Hl.
  apply (Hex a b (guard (a_loc a)) Ha Hb).
  - exact (Hg a Ha Wa).
  - rewrite Hl. exact (Hg b Hb Wb).
Qed.

(* ... and a read that also holds the guard exclusively cannot overlap a write of another thread either; reads under
   RLock or without the lock are NOT covered by this development *)
Lemma guarded_access_vs_write guard st : exclusive st ->
  forall a b, In a st -> In b st -> In (guard (a_loc a)) (a_held a) -> In (guard (a_loc b)) (a_held b) ->
  a_loc a = a_loc b -> a_thread a = a_thread b.
Proof. intros Hex a b Ha Hb Ga Gb Hl. apply (Hex a b (guard (a_loc a)) Ha Hb Ga). rewrite Hl. exact Gb. Qed.

(* Rule "immutable after publication": if every write to an object precedes its publication, every access after the
   publication is a read - so no two accesses after publication conflict. *)
Lemma immutable_published_no_write tr : fresh_writes tr ->
  forall pre o post t w, tr = pre ++ Publish o :: post -> In (Acc t o w) post -> w = false.
Proof.
  intros Hf pre o post t w Htr Hin.
  destruct w; [exfalso|reflexivity].
  destruct (in_split _ _ Hin) as [p1 [p2 Hp]].
  apply (Hf (pre ++ Publish o :: p1) t o p2).
  - rewrite Htr, Hp. rewrite <- app_assoc. reflexivity.
  - apply in_or_app. right. now left.
Qed.

Lemma immutable_no_conflict_after_publication tr : fresh_writes tr ->
  forall pre o post t1 w1 t2 w2, tr = pre ++ Publish o :: post ->
  In (Acc t1 o w1) post -> In (Acc t2 o w2) post -> w1 || w2 = false.
Proof.
  intros Hf pre o post t1 w1 t2 w2 Htr H1 H2.
  rewrite (immutable_published_no_write tr Hf pre o post t1 w1 Htr H1).
  rewrite (immutable_published_no_write tr Hf pre o post t2 w2 Htr H2). reflexivity.
Qed.

(* non-vacuity: the hypotheses are satisfiable by non-trivial states, and they do exclude the bad ones *)
Example exclusive_example :
  let g := fun _ : N => 7 in
  let st := [mkAccess 1 3 true [7]; mkAccess 2 4 false []; mkAccess 1 3 true [7; 9]] in
  exclusive st /\ (forall a, In a st -> write_guarded g a) /\
  ~ exclusive [mkAccess 1 3 true [7]; mkAccess 2 3 true [7]].
Proof.
  cbv zeta. split; [|split].
  - intros a b l Ha Hb Hla Hlb. simpl in Ha, Hb.
    destruct Ha as [<-|[<-|[<-|[]]]]; destruct Hb as [<-|[<-|[<-|[]]]]; simpl in *; try reflexivity; tauto.
  - intros a Ha W. simpl in Ha. destruct Ha as [<-|[<-|[<-|[]]]]; simpl in *; try discriminate; auto.
  - intro H. specialize (H (mkAccess 1 3 true [7]) (mkAccess 2 3 true [7]) 7).
    simpl in H. assert (1 = 2) by (apply H; auto). discriminate.
Qed.

Example fresh_writes_example :
  fresh_writes [Acc 1 5 true; Acc 1 5 true; Publish 5; Acc 2 5 false; Acc 1 5 false] /\
  ~ fresh_writes [Acc 1 5 true; Publish 5; Acc 2 5 false; Acc 1 5 true].
Proof.
  split.
  - intros pre t o post H Hin.
    destruct pre as [|e0 pre]; [simpl in Hin; tauto|].
    destruct pre as [|e1 pre]; [simpl in *; injection H as <- _; destruct Hin as [Hp|[]]; discriminate|].
    destruct pre as [|e2 pre]; [simpl in *; discriminate|].
    destruct pre as [|e3 pre]; [simpl in *; discriminate|].
    destruct pre as [|e4 pre]; [simpl in *; discriminate|].
    simpl in H. injection H as _ _ _ _ _ H. destruct pre; discriminate.
  - intro H. apply (H [Acc 1 5 true; Publish 5; Acc 2 5 false] 1 5 []); [reflexivity|]. simpl. auto.
Qed.

(* the rules are not vacuous on the table: they reject a shared Relay store and an unguarded map write, and every
   documented type / field does have judged, non-fresh... writes in the current source *)
Example site_ok_examples :
  site_ok (mkSite 0 KImm typ_Relay false [cls_RelayState_RWMutex] []) = false /\
  site_ok (mkSite 0 KImm typ_Relay true [] []) = true /\
  site_ok (mkSite 0 KGuard fld_HostMap_Hosts false [] [cls_HostMap_RWMutex]) = false /\
  site_ok (mkSite 0 KGuard fld_HostMap_Hosts false [cls_HandshakeManager_RWMutex] []) = false /\
  site_ok (mkSite 0 KGuard fld_HostMap_Hosts false [cls_HostMap_RWMutex] []) = true /\
  site_ok (mkSite 0 KGuard fld_HostMap_Hosts true [] []) = true.
Proof. vm_compute. repeat split; reflexivity. Qed.

(* every documented immutable type has stores, and every documented container has at least one write that is judged
   by the held lock (not fresh), in the current source *)
Definition covered : bool :=
  forallb (fun t => existsb (fun s => match ws_kind s with KImm => ws_obj s =? t | KGuard => false end) sites) immutable_types &&
  forallb (fun p => existsb (fun s => match ws_kind s with KGuard => (ws_obj s =? fst p) && negb (ws_fresh s) | KImm => false end) sites)
          guard_map.

Lemma write_sites_cover_rules : covered = true.
Proof. vm_compute. reflexivity. Qed.

(* Nonce_proofs: invariants of model/Nonce.v over every schedule. *)
From Coq Require Import List NArith Lia Bool Sorted.
Import ListNotations.
From NV Require Import lib.Bytes gen.Consts_Nonce model.Nonce.
Open Scope N_scope.

Definition two64 : N := 18446744073709551616.
Lemma two64_pow : 2 ^ 64 = two64. Proof. reflexivity. Qed.

Lemma w64_small x : x < two64 -> w64 x = x.
Proof. intros H. unfold w64. apply N.mod_small. exact H. Qed.

Lemma upd_same f t v : upd f t v t = v.
Proof. unfold upd. now rewrite N.eqb_refl. Qed.

Lemma upd_other f t v x : x <> t -> upd f t v x = f x.
Proof. unfold upd. intros H. destruct (N.eqb_spec x t); congruence. Qed.

Lemma encs_app a b : encs (a ++ b) = encs a ++ encs b.
Proof. unfold encs. apply flat_map_app. Qed.

Lemma NoDup_snoc (l : list N) x : NoDup l -> ~ In x l -> NoDup (l ++ [x]).
Proof.
  intros Hn Hx. apply NoDup_rev in Hn. rewrite <- (rev_involutive (l ++ [x])).
  apply NoDup_rev. rewrite rev_app_distr. cbn [rev app]. constructor; [|exact Hn].
  intros Hi. apply Hx. now apply in_rev.
Qed.

Lemma sorted_snoc (l : list N) x :
  StronglySorted N.lt l -> (forall m, In m l -> m < x) -> StronglySorted N.lt (l ++ [x]).
Proof.
  induction l as [|a l IH]; intros Hs Hx; cbn [app].
  - constructor; constructor.
  - inversion Hs as [|? ? Hs' Hf]; subst. constructor.
    + apply IH; [exact Hs'|]. intros m Hm. apply Hx. now right.
    + apply Forall_app. split; [exact Hf|]. constructor; [|constructor]. apply Hx. now left.
Qed.

(* executable specification <-> propositions *)
Lemma memb_In x l : memb x l = true <-> In x l.
Proof.
  induction l as [|y l IH]; cbn [memb In]; [split; [discriminate|tauto]|].
  rewrite orb_true_iff, IH, N.eqb_eq. split; intros [H|H]; auto.
Qed.

Lemma nodupb_NoDup l : nodupb l = true <-> NoDup l.
Proof.
  induction l as [|x l IH]; cbn [nodupb]; [split; [constructor|reflexivity]|].
  rewrite andb_true_iff, negb_true_iff, IH. split.
  - intros [Hm Hn]. constructor; [|exact Hn]. intros Hi. apply memb_In in Hi. congruence.
  - intros Hn. inversion Hn as [|? ? Hi Hn']; subst. split; [|exact Hn'].
    destruct (memb x l) eqn:E; [|reflexivity]. apply memb_In in E. contradiction.
Qed.

Lemma increasingb_sorted l : increasingb l = true <-> StronglySorted N.lt l.
Proof.
  induction l as [|x l IH]; [split; [constructor|reflexivity]|].
  destruct l as [|y l].
  - split; [intros _; constructor; constructor|reflexivity].
  - change (increasingb (x :: y :: l)) with ((x <? y) && increasingb (y :: l)).
    rewrite andb_true_iff, IH, N.ltb_lt. split.
    + intros [Hxy Hs]. constructor; [exact Hs|]. constructor; [exact Hxy|].
      inversion Hs as [|? ? _ Hf]; subst. eapply Forall_impl; [|exact Hf]. intros a Ha. cbv beta in Ha. lia.
    + intros Hs. inversion Hs as [|? ? Hs' Hf]; subst. split; [|exact Hs'].
      inversion Hf; subst. assumption.
Qed.

Section Generic.
Variable cf : cfg.

(* ---- the step function as a relation ---- *)
Inductive Step (t : N) (s : state) : state -> list event -> Prop :=
| St_stutter : Step t s s []
| St_enter p r :
    ph (threads s t) = Idle -> todo (threads s t) = p :: r -> lk cf && is_some (lock s) = false ->
    Step t s {| ctr := ctr s; lock := if lk cf then Some t else lock s;
                threads := upd (threads s) t {| todo := r; ph := Entered p |} |} []
| St_add p :
    ph (threads s t) = Entered p ->
    Step t s {| ctr := w64 (ctr s + 1); lock := lock s;
                threads := upd (threads s) t {| todo := todo (threads s t); ph := after_add cf p (w64 (ctr s + 1)) |} |}
         [EvAdd t (w64 (ctr s + 1))]
| St_enc c :
    ph (threads s t) = Reserved c ->
    Step t s {| ctr := ctr s; lock := lock s;
                threads := upd (threads s) t {| todo := todo (threads s t); ph := Leaving |} |}
         [EvEnc t c (c <? eceil cf)]
| St_store :
    ph (threads s t) = Exhausted ->
    Step t s {| ctr := sceil cf; lock := lock s;
                threads := upd (threads s) t {| todo := todo (threads s t); ph := Leaving |} |}
         [EvStore t]
| St_leave :
    ph (threads s t) = Leaving ->
    Step t s {| ctr := ctr s; lock := if lk cf then None else lock s;
                threads := upd (threads s) t {| todo := todo (threads s t); ph := Idle |} |} [].

Lemma step_Step t s : Step t s (fst (step cf t s)) (snd (step cf t s)).
Proof.
  unfold step. destruct (ph (threads s t)) as [|p|c| |] eqn:Ep.
  - destruct (todo (threads s t)) as [|p r] eqn:Et; [apply St_stutter|].
    destruct (lk cf && is_some (lock s)) eqn:El; cbn [fst snd]; [apply St_stutter|].
    now apply St_enter.
  - cbn [fst snd]. now apply St_add.
  - cbn [fst snd]. now apply St_enc.
  - cbn [fst snd]. now apply St_store.
  - cbn [fst snd]. now apply St_leave.
Qed.

(* an invariant indexed by the number of steps still to come is carried through any schedule *)
Lemma exec_inv (P : N -> state -> list event -> Prop) :
  (forall b t s tr s' e, P (N.succ b) s tr -> Step t s s' e -> P b s' (tr ++ e)) ->
  forall sched b s tr, P (b + N.of_nat (length sched)) s tr ->
    P b (fst (exec cf sched s tr)) (snd (exec cf sched s tr)).
Proof.
  intros Hstep. induction sched as [|t r IH]; intros b s tr H.
  - cbn [exec fst snd]. cbn [length N.of_nat] in H. now rewrite N.add_0_r in H.
  - cbn [exec]. pose proof (step_Step t s) as HS. destruct (step cf t s) as [s' e]. cbn [fst snd] in HS.
    apply IH. apply (Hstep _ t s tr s' e); [|exact HS].
    replace (N.succ (b + N.of_nat (length r))) with (b + N.of_nat (length (t :: r))); [exact H|].
    cbn [length]. lia.
Qed.

Lemma exec_app a : forall b s tr,
  exec cf (a ++ b) s tr = exec cf b (fst (exec cf a s tr)) (snd (exec cf a s tr)).
Proof.
  induction a as [|t a IH]; intros b s tr; [reflexivity|].
  cbn [app exec]. destruct (step cf t s) as [s' e]. apply IH.
Qed.

Lemma exec_trace sched : forall s tr,
  exec cf sched s tr = (fst (exec cf sched s []), tr ++ snd (exec cf sched s [])).
Proof.
  induction sched as [|t r IH]; intros s tr.
  - cbn [exec fst snd]. now rewrite app_nil_r.
  - cbn [exec]. destruct (step cf t s) as [s' e]. rewrite (IH s' (tr ++ e)), (IH s' ([] ++ e)).
    cbn [fst snd app]. now rewrite app_assoc.
Qed.

(* ---- ghost: the reservations below the encryption ceiling ---- *)
Definition valid_of (e : event) : list N :=
  match e with EvAdd _ c => if c <? eceil cf then [c] else [] | _ => [] end.
Definition valids (tr : list event) : list N := flat_map valid_of tr.

Lemma valids_app a b : valids (a ++ b) = valids a ++ valids b.
Proof. unfold valids. apply flat_map_app. Qed.

Lemma valids_lt tr c : In c (valids tr) -> c < eceil cf.
Proof.
  unfold valids. rewrite in_flat_map. intros [e [_ Hc]]. destruct e as [t c'| |]; cbn in Hc; try contradiction.
  destruct (N.ltb_spec c' (eceil cf)); cbn in Hc; [|contradiction]. destruct Hc as [<-|[]]. assumption.
Qed.

Hypothesis Hce : eceil cf <= sceil cf.

Lemma after_add_reserved p c c' : after_add cf p c = Reserved c' -> c' = c.
Proof.
  destruct p; cbn [after_add]; [congruence| |]; destruct (sceil cf <=? c); congruence.
Qed.

(* ---- uniqueness and range ---- *)
Record Inv (c0 b : N) (s : state) (tr : list event) : Prop := {
  I_room : N.max (ctr s) (sceil cf) + b < two64;
  I_low : N.min c0 (eceil cf) <= ctr s;
  I_vb : forall c, In c (valids tr) -> c0 < c /\ c <= ctr s;
  I_ev : forall c, In c (encs tr) -> In c (valids tr);
  I_nd : NoDup (encs tr);
  I_held : forall t c, ph (threads s t) = Reserved c -> c < eceil cf -> In c (valids tr) /\ ~ In c (encs tr);
  I_inj : forall t1 t2 c, ph (threads s t1) = Reserved c -> ph (threads s t2) = Reserved c -> c < eceil cf -> t1 = t2
}.

Ltac upd_cases t0 t :=
  cbn [threads ctr lock] in *;
  destruct (N.eq_dec t0 t) as [->|?];
  [rewrite upd_same in *; cbn [ph todo] in *|rewrite upd_other in * by assumption].

Lemma Inv_step c0 b t s tr s' e : Inv c0 (N.succ b) s tr -> Step t s s' e -> Inv c0 b s' (tr ++ e).
Proof.
  intros [Hroom Hlow Hvb Hev Hnd Hheld Hinj] HS.
  destruct HS as [|p r Hp Ht Hl|p Hp|c Hp|Hp|Hp].
  - (* stutter *) rewrite app_nil_r. constructor; auto. lia.
  - (* enter *) rewrite app_nil_r. constructor; cbn [ctr]; auto; [lia| |].
    + intros t0 c H. upd_cases t0 t; [discriminate|]. now apply Hheld with t0.
    + intros t1 t2 c H1 H2. upd_cases t1 t; [discriminate|]. upd_cases t2 t; [discriminate|]. now apply Hinj.
  - (* add *)
    assert (Hc : w64 (ctr s + 1) = ctr s + 1) by (apply w64_small; lia).
    rewrite Hc. set (c := ctr s + 1) in *.
    assert (Hvn : forall x, In x (valids (tr ++ [EvAdd t c])) <-> In x (valids tr) \/ (x = c /\ c < eceil cf)).
    { intros x. rewrite valids_app, in_app_iff. cbn [valids flat_map valid_of]. rewrite app_nil_r.
      destruct (N.ltb_spec c (eceil cf)); cbn [In]; intuition (try lia; subst; auto). }
    assert (He : encs (tr ++ [EvAdd t c]) = encs tr) by (rewrite encs_app; cbn; apply app_nil_r).
    constructor; cbn [ctr]; rewrite ?He; auto.
    + lia.
    + fold c. lia.
    + intros x Hx. apply Hvn in Hx. destruct Hx as [Hx|[-> Hlt]].
      * destruct (Hvb x Hx). fold c. lia.
      * fold c. lia.
    + intros x Hx. apply Hvn. left. now apply Hev.
    + intros t0 x H Hlt. upd_cases t0 t.
      * apply after_add_reserved in H. subst x. split; [apply Hvn; now right|].
        intros Hi. apply Hev, Hvb in Hi. unfold c in Hi. lia.
      * destruct (Hheld t0 x H Hlt). split; [apply Hvn; now left|assumption].
    + intros t1 t2 x H1 H2 Hlt. upd_cases t1 t; upd_cases t2 t; auto.
      * apply after_add_reserved in H1. subst x. destruct (Hheld t2 c H2 Hlt) as [Hi _]. apply Hvb in Hi. unfold c in Hi. lia.
      * apply after_add_reserved in H2. subst x. destruct (Hheld t1 c H1 Hlt) as [Hi _]. apply Hvb in Hi. unfold c in Hi. lia.
      * now apply Hinj with x.
  - (* enc *)
    assert (Hv : valids (tr ++ [EvEnc t c (c <? eceil cf)]) = valids tr) by (rewrite valids_app; cbn; apply app_nil_r).
    assert (He : encs (tr ++ [EvEnc t c (c <? eceil cf)]) = encs tr ++ (if c <? eceil cf then [c] else [])).
    { rewrite encs_app. cbn. destruct (c <? eceil cf); reflexivity. }
    constructor; cbn [ctr]; rewrite ?Hv, ?He; auto.
    + lia.
    + intros x Hx. apply in_app_iff in Hx. destruct Hx as [Hx|Hx]; [now apply Hev|].
      destruct (N.ltb_spec c (eceil cf)); [|contradiction]. destruct Hx as [<-|[]]. now apply (Hheld t c).
    + destruct (N.ltb_spec c (eceil cf)); [|now rewrite app_nil_r]. apply NoDup_snoc; [exact Hnd|]. now apply (Hheld t c).
    + intros t0 x H Hlt. upd_cases t0 t; [discriminate|]. destruct (Hheld t0 x H Hlt) as [Hi Hn]. split; [exact Hi|].
      intros Hx. apply in_app_iff in Hx. destruct Hx as [Hx|Hx]; [contradiction|].
      destruct (N.ltb_spec c (eceil cf)); [|contradiction]. destruct Hx as [->|[]].
      apply n. now apply (Hinj t0 t x).
    + intros t1 t2 x H1 H2. upd_cases t1 t; [discriminate|]. upd_cases t2 t; [discriminate|]. now apply Hinj.
  - (* store *)
    assert (Hv : valids (tr ++ [EvStore t]) = valids tr) by (rewrite valids_app; cbn; apply app_nil_r).
    assert (He : encs (tr ++ [EvStore t]) = encs tr) by (rewrite encs_app; cbn; apply app_nil_r).
    constructor; cbn [ctr]; rewrite ?Hv, ?He; auto.
    + lia.
    + lia.
    + intros x Hx. destruct (Hvb x Hx). apply valids_lt in Hx. lia.
    + intros t0 x H. upd_cases t0 t; [discriminate|]. now apply Hheld with t0.
    + intros t1 t2 x H1 H2. upd_cases t1 t; [discriminate|]. upd_cases t2 t; [discriminate|]. now apply Hinj.
  - (* leave *) rewrite app_nil_r. constructor; cbn [ctr]; auto; [lia| |].
    + intros t0 x H. upd_cases t0 t; [discriminate|]. now apply Hheld with t0.
    + intros t1 t2 x H1 H2. upd_cases t1 t; [discriminate|]. upd_cases t2 t; [discriminate|]. now apply Hinj.
Qed.

Lemma Inv_init b s : quiescent s -> N.max (ctr s) (sceil cf) + b < two64 -> Inv (ctr s) b s [].
Proof.
  intros [_ Hq] Hr. constructor; cbn; auto; try contradiction; try lia.
  - constructor.
  - intros t c H. rewrite Hq in H. discriminate.
  - intros t1 t2 c H. rewrite Hq in H. discriminate.
Qed.

Lemma Inv_exec sched s :
  quiescent s -> N.max (ctr s) (sceil cf) + N.of_nat (length sched) < two64 ->
  Inv (ctr s) 0 (fst (exec cf sched s [])) (snd (exec cf sched s [])).
Proof.
  intros Hq Hr. apply (exec_inv (Inv (ctr s))); [intros; eapply Inv_step; eauto|].
  apply Inv_init; [exact Hq|]. now rewrite N.add_0_l.
Qed.

Theorem unique_in_range sched s :
  quiescent s -> N.max (ctr s) (sceil cf) + N.of_nat (length sched) < two64 ->
  let tr := snd (exec cf sched s []) in
  NoDup (encs tr) /\ forall c, In c (encs tr) -> ctr s < c /\ c < eceil cf.
Proof.
  intros Hq Hr tr. destruct (Inv_exec sched s Hq Hr) as [_ _ Hvb Hev Hnd _ _]. fold tr in Hvb, Hev, Hnd.
  split; [exact Hnd|]. intros c Hc. apply Hev in Hc. split; [now apply Hvb|now apply valids_lt with tr].
Qed.

(* ---- sticky ceiling ---- *)
Record InvS (s1 : state) (b : N) (s : state) (tr : list event) : Prop := {
  S_room : N.max (ctr s) (sceil cf) + b < two64;
  S_ge : eceil cf <= ctr s;
  S_held : forall t c, ph (threads s t) = Reserved c -> c < eceil cf -> ph (threads s1 t) = Reserved c;
  S_add : forall t c, In (EvAdd t c) tr -> eceil cf <= c;
  S_enc : forall t c, In (EvEnc t c true) tr -> ph (threads s1 t) = Reserved c /\ c < eceil cf
}.

Lemma InvS_step s1 b t s tr s' e : InvS s1 (N.succ b) s tr -> Step t s s' e -> InvS s1 b s' (tr ++ e).
Proof.
  intros [Hroom Hge Hheld Hadd Henc] HS.
  destruct HS as [|p r Hp Ht Hl|p Hp|c Hp|Hp|Hp].
  - rewrite app_nil_r. constructor; auto. lia.
  - rewrite app_nil_r. constructor; cbn [ctr]; auto; [lia|].
    intros t0 c H. upd_cases t0 t; [discriminate|]. now apply Hheld.
  - assert (Hc : w64 (ctr s + 1) = ctr s + 1) by (apply w64_small; lia).
    rewrite Hc. constructor; cbn [ctr].
    + lia.
    + lia.
    + intros t0 c H Hlt. upd_cases t0 t; [|now apply Hheld]. apply after_add_reserved in H. lia.
    + intros t0 c H. apply in_app_iff in H. destruct H as [H|[H|[]]]; [now apply Hadd with t0|]. inversion H; subst. lia.
    + intros t0 c H. apply in_app_iff in H. destruct H as [H|[H|[]]]; [now apply Henc|discriminate].
  - constructor; cbn [ctr]; auto.
    + lia.
    + intros t0 x H. upd_cases t0 t; [discriminate|]. now apply Hheld.
    + intros t0 x H. apply in_app_iff in H. destruct H as [H|[H|[]]]; [now apply Hadd with t0|discriminate].
    + intros t0 x H. apply in_app_iff in H. destruct H as [H|[H|[]]]; [now apply Henc|].
      injection H as Ht Hx Hb. subst t0 x. apply N.ltb_lt in Hb. split; [now apply Hheld|exact Hb].
  - constructor; cbn [ctr]; auto.
    + lia.
    + intros t0 x H. upd_cases t0 t; [discriminate|]. now apply Hheld.
    + intros t0 x H. apply in_app_iff in H. destruct H as [H|[H|[]]]; [now apply Hadd with t0|discriminate].
    + intros t0 x H. apply in_app_iff in H. destruct H as [H|[H|[]]]; [now apply Henc|discriminate].
  - rewrite app_nil_r. constructor; cbn [ctr]; auto; [lia|].
    intros t0 x H. upd_cases t0 t; [discriminate|]. now apply Hheld.
Qed.

(* Once the counter has reached the ceiling (state s1, reached by sched1), whatever runs afterwards (sched2):
   every later reservation returns a value at or above the ceiling, and the only encryptions that still succeed are
   those of counters that were reserved below the ceiling before and were still waiting to be encrypted in s1. *)
Theorem sticky sched1 sched2 s :
  quiescent s -> N.max (ctr s) (sceil cf) + N.of_nat (length (sched1 ++ sched2)) < two64 ->
  let s1 := fst (exec cf sched1 s []) in
  let tr2 := snd (exec cf sched2 s1 []) in
  eceil cf <= ctr s1 ->
  eceil cf <= ctr (fst (exec cf sched2 s1 [])) /\
  (forall t c, In (EvAdd t c) tr2 -> eceil cf <= c) /\
  (forall t c, In (EvEnc t c true) tr2 -> ph (threads s1 t) = Reserved c /\ c < eceil cf) /\
  snd (exec cf (sched1 ++ sched2) s []) = snd (exec cf sched1 s []) ++ tr2.
Proof.
  intros Hq Hr s1 tr2 Hge.
  assert (H1 : Inv (ctr s) (N.of_nat (length sched2)) s1 (snd (exec cf sched1 s []))).
  { apply (exec_inv (Inv (ctr s))); [intros; eapply Inv_step; eauto|]. apply Inv_init; [exact Hq|].
    rewrite app_length in Hr. lia. }
  assert (H2 : InvS s1 0 (fst (exec cf sched2 s1 [])) tr2).
  { apply (exec_inv (InvS s1)); [intros; eapply InvS_step; eauto|]. constructor; auto.
    - rewrite N.add_0_l. apply (I_room _ _ _ _ H1).
    - intros t c []. - intros t c []. }
  destruct H2 as [_ Hge2 _ Hadd Henc]. repeat split; auto; try (now apply (Henc t c)).
  rewrite exec_app. rewrite (exec_trace sched2). reflexivity.
Qed.

(* ---- write-lock mode: encryptions reach the cipher in strictly increasing counter order ---- *)
Hypothesis Hlk : lk cf = true.

Record InvL (b : N) (s : state) (tr : list event) : Prop := {
  L_room : N.max (ctr s) (sceil cf) + b < two64;
  L_excl : forall t, ph (threads s t) <> Idle -> lock s = Some t;
  L_lt : forall m, In m (encs tr) -> m < eceil cf;
  L_le : forall m, In m (encs tr) -> m <= ctr s;
  L_res : forall t c, ph (threads s t) = Reserved c -> ctr s = c /\ forall m, In m (encs tr) -> m < c;
  L_sorted : StronglySorted N.lt (encs tr)
}.

Lemma InvL_step b t s tr s' e : InvL (N.succ b) s tr -> Step t s s' e -> InvL b s' (tr ++ e).
Proof.
  intros [Hroom Hex Hlt Hle Hres Hso] HS.
  assert (Hother : forall t0, t0 <> t -> ph (threads s t) <> Idle -> ph (threads s t0) = Idle).
  { intros t0 Hn Ht. destruct (ph (threads s t0)) eqn:E0; [reflexivity| | | |];
      (assert (H0 : lock s = Some t0) by (apply Hex; congruence));
      (assert (H1 : lock s = Some t) by (apply Hex; exact Ht)); congruence. }
  destruct HS as [|p r Hp Ht Hl|p Hp|c Hp|Hp|Hp].
  - rewrite app_nil_r. constructor; auto. lia.
  - rewrite app_nil_r. rewrite Hlk in *. cbn [andb] in Hl.
    assert (Hnone : lock s = None) by (destruct (lock s); [discriminate|reflexivity]).
    constructor; cbn [ctr lock]; auto; [lia| |].
    + intros t0 H. upd_cases t0 t; [reflexivity|]. specialize (Hex t0 H). congruence.
    + intros t0 c H. upd_cases t0 t; [discriminate|]. now apply (Hres t0).
  - assert (Hc : w64 (ctr s + 1) = ctr s + 1) by (apply w64_small; lia).
    rewrite Hc.
    assert (He : encs (tr ++ [EvAdd t (ctr s + 1)]) = encs tr) by (rewrite encs_app; cbn; apply app_nil_r).
    assert (Hni : ph (threads s t) <> Idle) by congruence.
    constructor; cbn [ctr lock]; rewrite ?He; auto.
    + lia.
    + intros t0 H. upd_cases t0 t; [now apply Hex|now apply Hex].
    + intros m Hm. apply Hle in Hm. lia.
    + intros t0 c H. upd_cases t0 t.
      * apply after_add_reserved in H. subst c. split; [reflexivity|]. intros m Hm. apply Hle in Hm. lia.
      * rewrite (Hother t0 n Hni) in H. discriminate.
  - assert (He : encs (tr ++ [EvEnc t c (c <? eceil cf)]) = encs tr ++ (if c <? eceil cf then [c] else [])).
    { rewrite encs_app. cbn. destruct (c <? eceil cf); reflexivity. }
    assert (Hni : ph (threads s t) <> Idle) by congruence.
    destruct (Hres t c Hp) as [Hcc Hall].
    constructor; cbn [ctr lock]; rewrite ?He; auto.
    + lia.
    + intros t0 H. upd_cases t0 t; now apply Hex.
    + intros m Hm. apply in_app_iff in Hm. destruct Hm as [Hm|Hm]; [now apply Hlt|].
      destruct (N.ltb_spec c (eceil cf)); [|contradiction]. destruct Hm as [<-|[]]. assumption.
    + intros m Hm. apply in_app_iff in Hm. destruct Hm as [Hm|Hm]; [now apply Hle|].
      destruct (c <? eceil cf); [|contradiction]. destruct Hm as [<-|[]]. lia.
    + intros t0 x H. upd_cases t0 t; [discriminate|]. rewrite (Hother t0 n Hni) in H. discriminate.
    + destruct (c <? eceil cf); [|now rewrite app_nil_r]. now apply sorted_snoc.
  - assert (He : encs (tr ++ [EvStore t]) = encs tr) by (rewrite encs_app; cbn; apply app_nil_r).
    assert (Hni : ph (threads s t) <> Idle) by congruence.
    constructor; cbn [ctr lock]; rewrite ?He; auto.
    + lia.
    + intros t0 H. upd_cases t0 t; now apply Hex.
    + intros m Hm. apply Hlt in Hm. lia.
    + intros t0 x H. upd_cases t0 t; [discriminate|]. rewrite (Hother t0 n Hni) in H. discriminate.
  - rewrite app_nil_r. rewrite Hlk.
    assert (Hni : ph (threads s t) <> Idle) by congruence.
    constructor; cbn [ctr lock]; auto.
    + lia.
    + intros t0 H. upd_cases t0 t; [congruence|]. rewrite (Hother t0 n Hni) in H. congruence.
    + intros t0 x H. upd_cases t0 t; [discriminate|]. now apply (Hres t0).
Qed.

Theorem increasing_under_lock sched s :
  quiescent s -> N.max (ctr s) (sceil cf) + N.of_nat (length sched) < two64 ->
  StronglySorted N.lt (encs (snd (exec cf sched s []))).
Proof.
  intros [Hl Hq] Hr.
  assert (H : InvL 0 (fst (exec cf sched s [])) (snd (exec cf sched s []))).
  { apply (exec_inv InvL); [intros; eapply InvL_step; eauto|]. rewrite N.add_0_l.
    constructor; cbn; auto; try contradiction.
    - intros t H. now rewrite Hq in H.
    - intros t c H. rewrite Hq in H. discriminate.
    - constructor. }
  apply (L_sorted _ _ _ H).
Qed.

End Generic.

(* ---- instantiation with the constants generated from /repo (gen/Consts_Nonce.v) ---- *)

(* The assumption under which nebula's design works: the counter cannot travel from the ceiling to the uint64 wrap.
   steps = number of atomic steps (of all threads together) in the schedule. *)
Definition headroom_ok (c0 : N) (steps : nat) : Prop :=
  N.max c0 RejectAfterMessages + N.of_nat steps < 2 ^ 64.

Lemma constants_doc :
  RejectHeadroom = 2 ^ 40 /\
  NoiseRejectAfterMessages = 2 ^ 64 - 1 - 2 ^ 40 /\
  RejectAfterMessages = NoiseRejectAfterMessages /\
  NoiseRejectAfterMessages + RejectHeadroom = 2 ^ 64 - 1 /\
  RehandshakeAfterMessages = 2 ^ 34 /\
  RehandshakeAfterMessages < RejectAfterMessages /\
  ReplayWindow = 8192.
Proof. repeat split. Qed.

Lemma real_ceilings m : eceil (real_cfg m) <= sceil (real_cfg m).
Proof. cbn [eceil sceil real_cfg]. apply N.leb_le. vm_compute. reflexivity. Qed.

Lemma headroom_doc c0 steps :
  c0 <= RejectAfterMessages -> N.of_nat steps < RejectHeadroom -> headroom_ok c0 steps.
Proof.
  intros H1 H2. unfold headroom_ok. rewrite N.max_r by exact H1.
  destruct constants_doc as [_ [_ [He [Hs _]]]]. rewrite He.
  apply N.lt_le_trans with (NoiseRejectAfterMessages + RejectHeadroom); [now apply N.add_lt_mono_l|].
  rewrite Hs. apply N.le_sub_l.
Qed.

Lemma headroom_two64 m s steps :
  headroom_ok (ctr s) steps -> N.max (ctr s) (sceil (real_cfg m)) + N.of_nat steps < two64.
Proof. unfold headroom_ok. rewrite two64_pow. cbn [sceil real_cfg]. exact (fun H => H). Qed.

Lemma real_unique m s0 sched :
  quiescent s0 -> headroom_ok (ctr s0) (length sched) ->
  NoDup (encs (snd (exec (real_cfg m) sched s0 []))).
Proof.
  intros Hq Hr. apply (unique_in_range (real_cfg m) (real_ceilings m) sched s0 Hq (headroom_two64 m _ _ Hr)).
Qed.

Lemma real_range m s0 sched :
  quiescent s0 -> headroom_ok (ctr s0) (length sched) ->
  forall c, In c (encs (snd (exec (real_cfg m) sched s0 []))) -> ctr s0 < c /\ c < NoiseRejectAfterMessages.
Proof.
  intros Hq Hr. apply (unique_in_range (real_cfg m) (real_ceilings m) sched s0 Hq (headroom_two64 m _ _ Hr)).
Qed.

Lemma init_quiescent c0 progs : quiescent (init c0 progs).
Proof. split; reflexivity. Qed.

Lemma real_above_handshake m idx progs sched :
  idx < ReplayWindow -> N.of_nat (length sched) < RejectHeadroom ->
  forall c, In c (encs (snd (exec (real_cfg m) sched (init (seed idx) progs) []))) ->
    idx < c /\ c < RejectAfterMessages.
Proof.
  intros Hi Hs c Hc.
  assert (Hseed : seed idx = idx).
  { unfold seed. rewrite N.add_0_l. apply w64_small. eapply N.lt_trans; [exact Hi|]. reflexivity. }
  assert (Hle : seed idx <= RejectAfterMessages).
  { rewrite Hseed. apply N.lt_le_incl. eapply N.lt_trans; [exact Hi|]. reflexivity. }
  destruct (real_range m (init (seed idx) progs) sched (init_quiescent _ _) (headroom_doc _ _ Hle Hs) c Hc) as [H1 H2].
  cbn [ctr init] in H1. rewrite Hseed in H1. split; [exact H1|].
  destruct constants_doc as [_ [_ [He _]]]. now rewrite He.
Qed.

Lemma real_sticky m s0 sched1 sched2 :
  quiescent s0 -> headroom_ok (ctr s0) (length (sched1 ++ sched2)) ->
  let s1 := fst (exec (real_cfg m) sched1 s0 []) in
  let tr2 := snd (exec (real_cfg m) sched2 s1 []) in
  NoiseRejectAfterMessages <= ctr s1 ->
  NoiseRejectAfterMessages <= ctr (fst (exec (real_cfg m) sched2 s1 [])) /\
  (forall t c, In (EvAdd t c) tr2 -> NoiseRejectAfterMessages <= c) /\
  (forall t c, In (EvEnc t c true) tr2 -> ph (threads s1 t) = Reserved c /\ c < NoiseRejectAfterMessages) /\
  snd (exec (real_cfg m) (sched1 ++ sched2) s0 []) = snd (exec (real_cfg m) sched1 s0 []) ++ tr2.
Proof.
  intros Hq Hr. apply (sticky (real_cfg m) (real_ceilings m) sched1 sched2 s0 Hq (headroom_two64 m _ _ Hr)).
Qed.

(* in particular: if no reserved counter is waiting to be encrypted when the ceiling is reached, nothing is ever
   encrypted on this tunnel again *)
Lemma real_sticky_nothing m s0 sched1 sched2 :
  quiescent s0 -> headroom_ok (ctr s0) (length (sched1 ++ sched2)) ->
  let s1 := fst (exec (real_cfg m) sched1 s0 []) in
  NoiseRejectAfterMessages <= ctr s1 ->
  (forall t c, ph (threads s1 t) = Reserved c -> NoiseRejectAfterMessages <= c) ->
  encs (snd (exec (real_cfg m) sched2 s1 [])) = [].
Proof.
  intros Hq Hr s1 Hge Hno.
  destruct (real_sticky m s0 sched1 sched2 Hq Hr Hge) as [_ [_ [Henc _]]]. fold s1 in Henc.
  destruct (encs (snd (exec (real_cfg m) sched2 s1 []))) as [|c l] eqn:E; [reflexivity|exfalso].
  assert (Hin : In c (encs (snd (exec (real_cfg m) sched2 s1 [])))) by (rewrite E; now left).
  unfold encs in Hin. apply in_flat_map in Hin. destruct Hin as [e [He Hc]].
  destruct e as [| |t c' ok]; cbn in Hc; try contradiction. destruct ok; [|contradiction]. destruct Hc as [->|[]].
  destruct (Henc t c He) as [Hp Hlt]. apply Hno in Hp. apply N.lt_nge in Hlt. contradiction.
Qed.

Lemma real_increasing s0 sched :
  quiescent s0 -> headroom_ok (ctr s0) (length sched) ->
  StronglySorted N.lt (encs (snd (exec (real_cfg true) sched s0 []))).
Proof.
  intros Hq Hr. apply (increasing_under_lock (real_cfg true) (real_ceilings true) eq_refl sched s0 Hq (headroom_two64 true _ _ Hr)).
Qed.

(* the executable specification used on the implementation's recorded nonces is what the theorems establish *)
Lemma real_spec m s0 sched :
  quiescent s0 -> headroom_ok (ctr s0) (length sched) ->
  spec_accepted m NoiseRejectAfterMessages (ctr s0) (encs (snd (exec (real_cfg m) sched s0 []))) = true.
Proof.
  intros Hq Hr. unfold spec_accepted. rewrite !andb_true_iff. repeat split.
  - apply nodupb_NoDup. now apply real_unique.
  - apply forallb_forall. intros c Hc. destruct (real_range m s0 sched Hq Hr c Hc) as [H1 H2].
    apply andb_true_iff. split; now apply N.ltb_lt.
  - destruct m; [|reflexivity]. cbn [negb orb]. apply increasingb_sorted. now apply real_increasing.
Qed.

(* ---- witnesses: the hypotheses are satisfiable, and each of them is needed ---- *)

(* three threads, the first reserves ceiling-3+1 ... ; without the lock the encryptions reach the cipher out of order *)
Definition ex_progs := [[Hot; Next]; [Next]; [Hot]].
Definition ex_sched : list N := [0; 1; 2; 0; 1; 2; 2; 1; 0; 0; 1; 2; 0; 0; 0; 0; 0].
Definition ex_start := RejectAfterMessages - 3.

Lemma example_run :
  quiescent (init ex_start ex_progs) /\ headroom_ok ex_start (length ex_sched) /\
  snd (exec (real_cfg false) ex_sched (init ex_start ex_progs) []) =
    [EvAdd 0 (RejectAfterMessages - 2); EvAdd 1 (RejectAfterMessages - 1); EvAdd 2 RejectAfterMessages;
     EvEnc 2 RejectAfterMessages false; EvEnc 1 (RejectAfterMessages - 1) true; EvEnc 0 (RejectAfterMessages - 2) true;
     EvAdd 0 (RejectAfterMessages + 1); EvStore 0] /\
  ctr (fst (exec (real_cfg false) ex_sched (init ex_start ex_progs) [])) = RejectAfterMessages.
Proof. split; [apply init_quiescent|]. split; [vm_compute; reflexivity|]. split; vm_compute; reflexivity. Qed.

Lemma order_needs_lock :
  exists sched, headroom_ok ex_start (length sched) /\
    ~ StronglySorted N.lt (encs (snd (exec (real_cfg false) sched (init ex_start ex_progs) []))).
Proof.
  exists ex_sched. split; [vm_compute; reflexivity|]. intros H. apply increasingb_sorted in H.
  vm_compute in H. discriminate.
Qed.

Lemma example_locked :
  encs (snd (exec (real_cfg true) (ex_sched ++ [1; 2; 1; 1; 1; 1; 2; 2; 2; 2; 0; 0; 0; 0; 0]) (init ex_start ex_progs) []))
  = [RejectAfterMessages - 2; RejectAfterMessages - 1].
Proof. vm_compute. reflexivity. Qed.

(* outside the headroom assumption the uint64 counter wraps and nonce 0 is used (again) *)
Lemma headroom_needed :
  exists c0 sched, ~ headroom_ok c0 (length sched) /\
    encs (snd (exec (real_cfg false) sched (init c0 [[Hot]]) [])) = [0] /\ ~ c0 < 0.
Proof.
  exists (2 ^ 64 - 1), [0; 0; 0; 0]. split; [|split].
  - unfold headroom_ok. vm_compute. intros H. discriminate.
  - vm_compute. reflexivity.
  - apply N.nlt_0_r.
Qed.

(* the sticky theorem's premises are met by a concrete run, and its "still waiting" clause is not idle: thread 0 holds
   ceiling-1 while thread 1 drives the counter to the ceiling; its encryption afterwards still (rightly) succeeds,
   and what is reserved after that is refused *)
Definition st_progs := [[Hot; Hot]; [Next]].
Definition st_start := RejectAfterMessages - 2.
Definition st_sched1 : list N := [0; 0; 1; 1; 1].
Definition st_sched2 : list N := [0; 0; 0; 0; 0; 0].

Lemma example_sticky :
  let s1 := fst (exec (real_cfg false) st_sched1 (init st_start st_progs) []) in
  headroom_ok st_start (length (st_sched1 ++ st_sched2)) /\
  ctr s1 = NoiseRejectAfterMessages /\ ph (threads s1 0) = Reserved (RejectAfterMessages - 1) /\
  snd (exec (real_cfg false) st_sched2 s1 []) =
    [EvEnc 0 (RejectAfterMessages - 1) true; EvAdd 0 (RejectAfterMessages + 1); EvEnc 0 (RejectAfterMessages + 1) false].
Proof. cbv zeta. split; [vm_compute; reflexivity|]. split; [|split]; vm_compute; reflexivity. Qed.

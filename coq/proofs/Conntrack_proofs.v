(* Lemmas about model/Conntrack.v: the table as a finite map, what one Drop does to the entry of its own flow
   ([tail_o]) and to the entries of the other flows ([shrinks]). Nothing here depends on the timer wheel: the
   wheel only decides when [evict] is called and on which flow, and [evict] deletes an entry only when the clock
   is strictly past its Expires. *)
From Coq Require Import List ZArith NArith Bool Lia.
Import ListNotations.
From NV Require Import model.Wheel gen.Consts_Conntrack model.Conntrack.
Open Scope Z_scope.

(* ---- tuples ------------------------------------------------------------------------------------------- *)

Lemma tuple_eqb_eq a b : tuple_eqb a b = true <-> a = b.
Proof.
  destruct a as [[[[[a1 a2] a3] a4] a5] a6], b as [[[[[b1 b2] b3] b4] b5] b6]. unfold tuple_eqb.
  rewrite !andb_true_iff, !N.eqb_eq, Bool.eqb_true_iff. split.
  - intros [[[[[-> ->] ->] ->] ->] ->]. reflexivity.
  - intros E. inversion E. tauto.
Qed.

Lemma tuple_eqb_refl a : tuple_eqb a a = true.
Proof. now apply tuple_eqb_eq. Qed.

Lemma tuple_eqb_sym a b : tuple_eqb a b = tuple_eqb b a.
Proof.
  destruct (tuple_eqb a b) eqn:E, (tuple_eqb b a) eqn:E'; try reflexivity.
  - apply tuple_eqb_eq in E. subst. now rewrite tuple_eqb_refl in E'.
  - apply tuple_eqb_eq in E'. subst. now rewrite tuple_eqb_refl in E.
Qed.

Lemma tuple_eqb_neq a b : tuple_eqb a b = false <-> a <> b.
Proof.
  split.
  - intros E ->. now rewrite tuple_eqb_refl in E.
  - intros NE. destruct (tuple_eqb a b) eqn:E; [|reflexivity]. now apply tuple_eqb_eq in E.
Qed.

(* ---- the table ---------------------------------------------------------------------------------------- *)

Lemma cfind_cdel_same k m : cfind k (cdel k m) = None.
Proof.
  induction m as [|[k' v] m IH]; [reflexivity|]. unfold cdel in *. cbn [filter fst].
  destruct (tuple_eqb k k') eqn:E; cbn [negb]; [exact IH|]. cbn [cfind]. now rewrite E.
Qed.

Lemma cfind_cdel_other k k' m : tuple_eqb k' k = false -> cfind k' (cdel k m) = cfind k' m.
Proof.
  intros NE. induction m as [|[k2 v] m IH]; [reflexivity|]. unfold cdel in *. cbn [filter fst cfind].
  destruct (tuple_eqb k k2) eqn:E; cbn [negb].
  - apply tuple_eqb_eq in E. subst k2. rewrite NE. exact IH.
  - cbn [cfind]. now rewrite IH.
Qed.

Lemma cfind_cset_same k v m : cfind k (cset k v m) = Some v.
Proof. unfold cset. cbn [cfind]. now rewrite tuple_eqb_refl. Qed.

Lemma cfind_cset_other k k' v m : tuple_eqb k' k = false -> cfind k' (cset k v m) = cfind k' m.
Proof. intros NE. unfold cset. cbn [cfind]. rewrite NE. now apply cfind_cdel_other. Qed.

(* [cfind] after deleting or setting another or the same key *)
Lemma cfind_cdel k k' m : cfind k' (cdel k m) = if tuple_eqb k' k then None else cfind k' m.
Proof.
  destruct (tuple_eqb k' k) eqn:E.
  - apply tuple_eqb_eq in E. subst. apply cfind_cdel_same.
  - now apply cfind_cdel_other.
Qed.

Lemma cfind_cset k k' v m : cfind k' (cset k v m) = if tuple_eqb k' k then Some v else cfind k' m.
Proof.
  destruct (tuple_eqb k' k) eqn:E.
  - apply tuple_eqb_eq in E. subst. apply cfind_cset_same.
  - now apply cfind_cset_other.
Qed.

(* ---- the Purge/evict prologue only ever removes entries whose time has come ----------------------------- *)

(* [shrinks now m m']: m' is m without some entries, each of which had Expires < now *)
Definition shrinks (now : Z) (m m' : cmap) : Prop :=
  forall t, (forall c, cfind t m' = Some c -> cfind t m = Some c) /\
            (forall c, cfind t m = Some c -> now <= c_exp c -> cfind t m' = Some c).

Lemma shrinks_refl now m : shrinks now m m.
Proof. intros t. split; auto. Qed.

Lemma evict_shrinks now p ct : shrinks now (ct_conns ct) (ct_conns (evict now p ct)).
Proof.
  unfold evict. destruct (cfind p (ct_conns ct)) as [c|] eqn:F; [|apply shrinks_refl].
  destruct (0 <=? c_exp c - now) eqn:L; cbn [ct_conns]; [apply shrinks_refl|].
  apply Z.leb_gt in L. intros t. rewrite cfind_cdel. destruct (tuple_eqb t p) eqn:E.
  - apply tuple_eqb_eq in E. subst t. split; [discriminate|]. intros c' F' Lt. rewrite F in F'. inversion F'; subst. lia.
  - split; auto.
Qed.

Lemma pre_purge_shrinks now ct : shrinks now (ct_conns ct) (ct_conns (pre_purge now ct)).
Proof.
  unfold pre_purge. destruct (purge (ct_wheel ct)) as [[p|] w1].
  - apply (evict_shrinks now p (mkCt (ct_conns ct) w1)).
  - apply shrinks_refl.
Qed.

(* ---- one Drop, seen from the entry of its own flow ------------------------------------------------------ *)

Section Drop.
Variable allowed : N -> N -> bool -> tuple -> bool.
Variable addr_ok : N -> N -> tuple -> bool.

Definition drop_tail (fw : fwcfg) (peer : N) (now : Z) (incoming : bool) (t : tuple) (ct1 : ctrack) : bool * ctrack :=
  let (hit, ct2) := look allowed fw peer now t ct1 in
  if hit then (true, ct2)
  else if allowed (f_rules fw) peer incoming t then (true, add_conn fw now t incoming ct2)
  else (false, ct2).

Lemma drop_unfold fw peer now d t ct :
  drop allowed addr_ok fw peer now d t ct =
  if negb (addr_ok (f_rules fw) peer t) then (false, ct) else drop_tail fw peer now d t (pre_purge now ct).
Proof. reflexivity. Qed.

(* the verdict and the new entry of flow t as a function of its entry o after the prologue *)
Definition tail_o (fw : fwcfg) (peer : N) (now : Z) (d : bool) (t : tuple) (o : option conn) : bool * option conn :=
  let a := allowed (f_rules fw) peer d t in
  let fresh := Some (mkConn (now + timeout_of fw t) d (f_ver fw)) in
  match o with
  | None => if a then (true, fresh) else (false, None)
  | Some c =>
      if c_exp c <? now then (if a then (true, fresh) else (false, Some c))
      else if negb (N.eqb (c_ver c) (f_ver fw)) && negb (allowed (f_rules fw) peer (c_in c) t)
      then (if a then (true, fresh) else (false, None))
      else (true, Some (mkConn (now + timeout_of fw t) (c_in c) (f_ver fw)))
  end.

Lemma drop_tail_same fw peer now d t ct1 :
  let r := drop_tail fw peer now d t ct1 in
  (fst r, cfind t (ct_conns (snd r))) = tail_o fw peer now d t (cfind t (ct_conns ct1)).
Proof.
  unfold drop_tail, look, tail_o, add_conn.
  destruct (cfind t (ct_conns ct1)) as [c|] eqn:F.
  - destruct (c_exp c <? now).
    + destruct (allowed (f_rules fw) peer d t); cbn [fst snd ct_conns]; [now rewrite cfind_cset_same|now rewrite F].
    + destruct (negb (N.eqb (c_ver c) (f_ver fw)) && negb (allowed (f_rules fw) peer (c_in c) t)).
      * destruct (allowed (f_rules fw) peer d t); cbn [fst snd ct_conns];
          [now rewrite cfind_cset_same|now rewrite cfind_cdel_same].
      * cbn [fst snd ct_conns]. now rewrite cfind_cset_same.
  - destruct (allowed (f_rules fw) peer d t); cbn [fst snd ct_conns]; [now rewrite cfind_cset_same|now rewrite F].
Qed.

Lemma drop_tail_other fw peer now d t ct1 f :
  tuple_eqb f t = false -> cfind f (ct_conns (snd (drop_tail fw peer now d t ct1))) = cfind f (ct_conns ct1).
Proof.
  intros NE. unfold drop_tail, look, add_conn.
  destruct (cfind t (ct_conns ct1)) as [c|] eqn:F.
  - destruct (c_exp c <? now).
    + destruct (allowed (f_rules fw) peer d t); cbn [fst snd ct_conns]; [now rewrite cfind_cset_other|reflexivity].
    + destruct (negb (N.eqb (c_ver c) (f_ver fw)) && negb (allowed (f_rules fw) peer (c_in c) t)).
      * destruct (allowed (f_rules fw) peer d t); cbn [fst snd ct_conns];
          [rewrite cfind_cset_other by exact NE|]; now rewrite cfind_cdel_other.
      * cbn [fst snd ct_conns]. now rewrite cfind_cset_other.
  - destruct (allowed (f_rules fw) peer d t); cbn [fst snd ct_conns]; [now rewrite cfind_cset_other|reflexivity].
Qed.

(* every entry after a Drop is an entry from before, or the one this Drop wrote for its own flow *)
Lemma drop_tail_entries fw peer now d t ct1 f c :
  cfind f (ct_conns (snd (drop_tail fw peer now d t ct1))) = Some c ->
  cfind f (ct_conns ct1) = Some c \/ (f = t /\ snd (tail_o fw peer now d t (cfind t (ct_conns ct1))) = Some c).
Proof.
  intros F. destruct (tuple_eqb f t) eqn:E.
  - apply tuple_eqb_eq in E. subst f. right. split; [reflexivity|].
    pose proof (drop_tail_same fw peer now d t ct1) as S. cbv zeta in S. rewrite <- S. cbn [snd]. exact F.
  - left. now rewrite drop_tail_other in F.
Qed.

End Drop.

(* ---- orientation: a packet and its reply map to the same tuple -------------------------------------------- *)

Lemma orient_reverse w : orient true (reverse w) = orient false w /\ orient false (reverse w) = orient true w.
Proof.
  destruct w as [[[[[src dst] sp] dp] proto] frag]. unfold orient, reverse.
  destruct (N.eqb proto ProtoICMP) eqn:E; cbn [fst snd]; rewrite ?E; destruct frag; split; reflexivity.
Qed.

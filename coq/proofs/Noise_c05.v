(* Lemmas for C05: a handshake completes only with an authenticated peer. *)
From Coq Require Import List NArith Lia Bool.
Import ListNotations.
From NV Require Import lib.Sym model.Noise model.Machine proofs.Noise_c07 proofs.Noise_struct.
Open Scope N_scope.

(* the DH results mixed into a chaining key, latest first *)
Fixpoint ck_inputs (t : term) : list term :=
  match t with
  | Hkdf ck ikm 1 => ikm :: ck_inputs ck
  | _ => []
  end.

Lemma dh_op_some c a B d : dh_op c a B = Some d -> exists x y, a = Some x /\ B = Some y /\ d = dh x y.
Proof.
  unfold dh_op. destruct a as [x|]; [|discriminate]. destruct B as [y|]; [|discriminate].
  destruct (dh_accepts c y); [|discriminate]. intros [= <-]. eauto.
Qed.

(* a successful ReadMessage of IX message 2 *)
Lemma read2_shape st msg st' p keys :
  hs_pat st = ix_pattern -> hs_msgIdx st = 1 -> read_message st msg = (st', ROk p keys) ->
  exists re rs e,
    hs_re st' = Some re /\ hs_rs st' = Some rs /\ hs_e st' = Some e /\ hs_e st = Some e /\ hs_spriv st' = hs_spriv st /\
    hs_initiator st = true /\
    In (dh e rs) (ck_inputs (hs_ck st')) /\ In (dh (hs_spriv st) re) (ck_inputs (hs_ck st')) /\
    keys = Some (Hkdf (hs_ck st') Empty 1, Hkdf (hs_ck st') Empty 2) /\ hs_msgIdx st' = 2.
Proof.
  intros Hpat Hi Hr. unfold read_message in Hr.
  destruct (hs_shouldWrite st); [discriminate|]. rewrite Hpat, ix_nth, Hi in Hr. cbn [N.eqb Pos.eqb] in Hr. hs_cbn.
  unfold rd_token, decrypt_and_hash, tok_dh in Hr. hs_cbn.
  repeat (brk Hr; try discriminate Hr).
  all: try match goal with Hc : (N.of_nat _ <=? _) = false |- _ => rewrite Hpat, Hi in Hc; vm_compute in Hc; discriminate Hc end.
  all: injection Hr as <- <- <-; hs_cbn.
  all: repeat match goal with H : dh_op _ _ _ = Some _ |- _ => apply dh_op_some in H; destruct H as (? & ? & ? & ? & ?) end.
  all: subst; repeat match goal with H : Some _ = Some _ |- _ => injection H as ? end; subst.
  all: repeat match goal with H1 : ?l = Some ?a, H2 : ?l = Some ?b |- _ => rewrite H1 in H2; injection H2 as ?; subst end.
  all: try match goal with H : false = true |- _ => discriminate H | H : true = false |- _ => discriminate H | H : None = Some _ |- _ => discriminate H
                        | H1 : ?l = None, H2 : ?l = Some _ |- _ => rewrite H1 in H2; discriminate H2 end.
  all: rewrite ?Hi.
  all: do 3 eexists; repeat split; try reflexivity; try eassumption; cbn [ck_inputs In]; auto 6.
Qed.

Ltac contra := try match goal with H : false = true |- _ => discriminate H | H : true = false |- _ => discriminate H | H : None = Some _ |- _ => discriminate H
                        | H1 : ?l = None, H2 : ?l = Some _ |- _ => rewrite H1 in H2; discriminate H2 end.

(* a successful ReadMessage of IX message 1 *)
Lemma read1_shape st msg st' p keys :
  hs_pat st = ix_pattern -> hs_msgIdx st = 0 -> read_message st msg = (st', ROk p keys) ->
  exists re rs,
    hs_re st' = Some re /\ hs_rs st' = Some rs /\ hs_ck st' = hs_ck st /\ hs_spriv st' = hs_spriv st /\
    hs_curve st' = hs_curve st /\ hs_initiator st' = hs_initiator st /\ hs_pat st' = ix_pattern /\
    keys = None /\ hs_msgIdx st' = 1.
Proof.
  intros Hpat Hi Hr. unfold read_message in Hr.
  destruct (hs_shouldWrite st); [discriminate|]. rewrite Hpat, ix_nth, Hi in Hr. cbn [N.eqb Pos.eqb] in Hr. hs_cbn.
  unfold rd_token, decrypt_and_hash, tok_dh in Hr. hs_cbn.
  repeat (brk Hr; try discriminate Hr).
  all: try match goal with Hc : (N.of_nat _ <=? _) = true |- _ => rewrite Hpat, Hi in Hc; vm_compute in Hc; discriminate Hc end.
  all: injection Hr as <- <- <-; hs_cbn.
  all: contra. all: rewrite ?Hi.
  all: do 2 eexists; repeat split; try reflexivity; try eassumption.
Qed.

Lemma enc_frame s p s' c :
  encrypt_and_hash s p = (s', c) ->
  hs_ck s' = hs_ck s /\ hs_rs s' = hs_rs s /\ hs_re s' = hs_re s /\ hs_e s' = hs_e s /\ hs_spriv s' = hs_spriv s /\
  hs_msgIdx s' = hs_msgIdx s /\ hs_pat s' = hs_pat s /\ hs_initiator s' = hs_initiator s /\ hs_curve s' = hs_curve s.
Proof. unfold encrypt_and_hash. destruct (hs_hasK s); intros [= <- <-]; repeat split. Qed.

(* a successful WriteMessage of IX message 2 *)
Lemma write2_shape st eph pl st' out keys :
  hs_pat st = ix_pattern -> hs_msgIdx st = 1 -> write_message st eph pl = (st', WOk out keys) ->
  exists re rs,
    hs_re st = Some re /\ hs_rs st = Some rs /\ hs_re st' = Some re /\ hs_rs st' = Some rs /\ hs_e st' = Some eph /\
    hs_spriv st' = hs_spriv st /\
    In (dh eph rs) (ck_inputs (hs_ck st')) /\ In (dh (hs_spriv st) re) (ck_inputs (hs_ck st')) /\
    keys = Some (Hkdf (hs_ck st') Empty 1, Hkdf (hs_ck st') Empty 2) /\ hs_msgIdx st' = 2.
Proof.
  intros Hpat Hi Hr. unfold write_message in Hr.
  destruct (negb (hs_shouldWrite st)); [discriminate|]. rewrite Hpat, ix_nth, Hi in Hr. cbn [N.eqb Pos.eqb] in Hr.
  destruct (max_msg_len <? _); [discriminate|].
  cbn [wr_loop wr_token] in Hr.
  set (s1 := mix_hash (set_e st (Some eph)) (Pub eph)) in *.
  destruct (tok_dh s1 TEE) as [d1|] eqn:H1; [|discriminate].
  set (s2 := mix_key s1 d1) in *.
  destruct (tok_dh s2 TSE) as [d2|] eqn:H2; [|discriminate].
  set (s3 := mix_key s2 d2) in *.
  destruct (tlen _ (hs_spub s3) =? 0); [discriminate|].
  destruct (encrypt_and_hash s3 (hs_spub s3)) as [s4 c4] eqn:H4.
  destruct (tok_dh s4 TES) as [d3|] eqn:H3; [|discriminate].
  set (s5 := mix_key s4 d3) in *.
  destruct (encrypt_and_hash (set_turn s5 false (hs_msgIdx s5 + 1)) pl) as [s6 c6] eqn:H6.
  apply enc_frame in H4 as (K4 & RS4 & RE4 & E4 & SP4 & I4 & P4 & IN4 & C4).
  apply enc_frame in H6 as (K6 & RS6 & RE6 & E6 & SP6 & I6 & P6 & IN6 & C6).
  assert (Hlen : (N.of_nat (length (hs_pat s6)) <=? hs_msgIdx s6) = true).
  { rewrite P6, I6. subst s5 s3 s2 s1. hs_cbn. rewrite P4, I4. hs_cbn. rewrite Hpat, Hi. reflexivity. }
  rewrite Hlen in Hr. injection Hr as <- <- <-.
  unfold tok_dh in H1, H2, H3. rewrite IN4, C4, E4, RS4, RE4, SP4 in H3. subst s5 s3 s2 s1. hs_cbn.
  apply dh_op_some in H1 as (x1 & re & X1 & Hre & ->). injection X1 as <-.
  destruct (hs_initiator st).
  - apply dh_op_some in H2 as (x2 & re2 & X2 & Hre2 & ->). injection X2 as <-. rewrite Hre in Hre2. injection Hre2 as <-.
    apply dh_op_some in H3 as (x3 & rs & X3 & Hrs & ->). injection X3 as <-.
    exists re, rs. rewrite K6, RS6, RE6, E6, SP6, I6. hs_cbn. rewrite K4, RS4, RE4, E4, SP4, I4. hs_cbn.
    rewrite Hi. repeat split; try assumption; try reflexivity; cbn [ck_inputs In]; auto.
    unfold split. rewrite K6, K4. reflexivity.
  - apply dh_op_some in H2 as (x2 & rs & X2 & Hrs & ->). injection X2 as <-.
    apply dh_op_some in H3 as (x3 & re3 & X3 & Hre3 & ->). injection X3 as <-. rewrite Hre in Hre3. injection Hre3 as <-.
    exists re, rs. rewrite K6, RS6, RE6, E6, SP6, I6. hs_cbn. rewrite K4, RS4, RE4, E4, SP4, I4. hs_cbn.
    rewrite Hi. repeat split; try assumption; try reflexivity; cbn [ck_inputs In]; auto.
    unfold split. rewrite K6, K4. reflexivity.
Qed.

(* message 2 was read successfully: its last part is an AEAD box around the payload under a key derived from
   DH(e, rs) - only somebody who holds the private half of rs (or of our ephemeral e) can have made it *)
Lemma read2_evidence st msg st' p keys :
  hs_pat st = ix_pattern -> hs_msgIdx st = 1 -> read_message st msg = (st', ROk p keys) ->
  exists e rs ckp h3,
    hs_e st = Some e /\ hs_rs st' = Some rs /\ hs_ck st' = Hkdf ckp (dh e rs) 1 /\
    derives [msg] (Aead (Hkdf ckp (dh e rs) 2) 0 h3 p).
Proof.
  intros Hpat Hi Hr. unfold read_message in Hr.
  destruct (hs_shouldWrite st); [discriminate|]. rewrite Hpat, ix_nth, Hi in Hr. cbn [N.eqb Pos.eqb] in Hr. hs_cbn.
  unfold rd_token, decrypt_and_hash, tok_dh in Hr. hs_cbn.
  repeat (brk Hr; try discriminate Hr).
  all: try match goal with Hc : (N.of_nat _ <=? _) = false |- _ => rewrite Hpat, Hi in Hc; vm_compute in Hc; discriminate Hc end.
  all: injection Hr as <- <- <-; hs_cbn.
  all: repeat match goal with H : dh_op _ _ _ = Some _ |- _ => apply dh_op_some in H; destruct H as (? & ? & ? & ? & ?) end.
  all: subst; repeat match goal with H : Some _ = Some _ |- _ => injection H as ? end; subst.
  all: repeat match goal with H1 : ?l = Some ?a, H2 : ?l = Some ?b |- _ => rewrite H1 in H2; injection H2 as ?; subst end.
  all: contra.
  all: match goal with
       | Ha : adec ?k 0 ?h ?c = Some ?pl, Hp1 : take ?dl ?n1 ?t0 = (_, ?c), Hp0 : take ?dl ?n0 ?m = (_, ?t0) |- _ =>
           apply adec_some in Ha; do 4 eexists; split; [eassumption|]; split; [reflexivity|]; split; [reflexivity|];
           rewrite <- Ha; replace c with (snd (take dl n1 t0)) by (rewrite Hp1; reflexivity);
           apply d_take2; replace t0 with (snd (take dl n0 m)) by (rewrite Hp0; reflexivity);
           apply d_take2; apply d_known; left; reflexivity
       end.
Qed.

(* ---- every completion is bound to an accepted certificate and to the peer static ------------------------ *)

Lemma read_done_idx st msg :
  hs_pat st = ix_pattern -> (hs_msgIdx st =? 0) = false -> (hs_msgIdx st =? 1) = false -> snd (read_message st msg) = RErr.
Proof.
  intros Hp E0 E1. unfold read_message. destruct (hs_shouldWrite st); [reflexivity|]. rewrite Hp, ix_nth, E0, E1. reflexivity.
Qed.

(* what every completion guarantees, whichever side completes: the reported certificate was accepted by the verifier
   for exactly the static key the peer presented in the Noise exchange, it is the result the machine keeps, and the
   session keys are the two halves of a chaining key into which DH(own ephemeral, that static key) and
   DH(own static, peer ephemeral) were mixed *)
Definition bound (m m' : machine) (r : result) : Prop :=
  exists body key e re,
    r_remote_cert r = Some (body, key) /\ accepted (m_cfg m) body key = true /\
    hs_rs (m_hs m') = Some key /\ hs_e (m_hs m') = Some e /\ hs_re (m_hs m') = Some re /\
    In (dh e key) (ck_inputs (hs_ck (m_hs m'))) /\ In (dh (hs_spriv (m_hs m)) re) (ck_inputs (hs_ck (m_hs m'))) /\
    ((r_ekey r = Some (Hkdf (hs_ck (m_hs m')) Empty 1) /\ r_dkey r = Some (Hkdf (hs_ck (m_hs m')) Empty 2)) \/
     (r_dkey r = Some (Hkdf (hs_ck (m_hs m')) Empty 1) /\ r_ekey r = Some (Hkdf (hs_ck (m_hs m')) Empty 2))) /\
    m_res m' = r /\ m_cfg m' = m_cfg m /\ m_failed m' = false /\ hs_msgIdx (m_hs m') = 2.

(* the completion came from reading message 2 (Noise initiator): the message carried an AEAD box around the payload
   whose key is derived from DH(own ephemeral, the peer's static key) *)
Definition proved_possession (m m' : machine) (p : packet) : Prop :=
  hs_initiator (m_hs m) = true /\ hs_msgIdx (m_hs m) = 1 /\
  exists e key ckp h3 pl,
    hs_e (m_hs m) = Some e /\ hs_rs (m_hs m') = Some key /\ hs_ck (m_hs m') = Hkdf ckp (dh e key) 1 /\
    derives [pk_body p] (Aead (Hkdf ckp (dh e key) 2) 0 h3 pl).

Theorem complete_bound m p m' out r :
  ix_wf (m_hs m) -> process m p = (m', Done out (Some r)) ->
  bound m m' r /\
  ((out = None /\ proved_possession m m' p) \/
   (out <> None /\ r_initiator r = false /\ hs_msgIdx (m_hs m) = 0)).
Proof.
  intros [Hpat Hk] Hp. apply process_done in Hp.
  destruct Hp as (hs1 & msg & keys0 & m2 & Hnf & Hini & Hrd & Hpp & Hfin).
  destruct (idx_cases (hs_msgIdx (m_hs m))) as [Hi | [Hi | [E0 E1]]].
  - (* message index 0: reading message 1, answering with message 2 *)
    rewrite Hi in Hini. cbn [N.eqb] in Hini. rewrite andb_true_r in Hini.
    destruct (read1_shape _ _ _ _ _ Hpat Hi Hrd) as (re & rs & Hre & Hrs & Hck & Hsp & Hcv & Hin & Hpat1 & -> & Hi1).
    rewrite peer_flags_1 in Hpp by exact Hi1. cbn [fst snd] in Hpp.
    apply process_payload_ok in Hpp. destruct Hpp as (pl & rs' & v' & -> & Hrs' & Hnz & Hacc & ->). m_cbn.
    rewrite Hrs in Hrs'. injection Hrs' as <-.
    destruct Hfin as [(cs1 & cs2 & Hk0 & _)|(m3 & pkt & cs1 & cs2 & _ & Hb & -> & _ & _ & Hcomp)]; [discriminate Hk0|].
    apply build_response_ok in Hb. destruct Hb as (m1 & t & hs' & out' & Hm & Hw & -> & ->).
    rewrite my_flags_1 in Hm by exact Hi1. cbn [fst snd] in Hm.
    apply marshal_outgoing_ok in Hm. destruct Hm as (cr & idx & Hcr & Hidx & -> & ->). m_cbn.
    destruct (write2_shape _ _ _ _ _ _ Hpat1 Hi1 Hw) as (re2 & rs2 & Hre2 & Hrs2 & Hre' & Hrs'' & He' & Hsp' & In1 & In2 & Hkeys & Hi2).
    rewrite Hre in Hre2. injection Hre2 as <-. rewrite Hrs in Hrs2. injection Hrs2 as <-.
    injection Hkeys as -> ->.
    unfold completed in Hcomp. m_cbn. injection Hcomp as -> ->. m_cbn.
    split.
    + exists (p_cert_body pl), rs, (c_eph (m_cfg m)), re. m_cbn. rewrite Hsp in In2.
      repeat split; try assumption; try reflexivity. right. split; reflexivity.
    + right. split; [discriminate|]. split; [exact Hini | exact Hi].
  - (* message index 1: reading message 2 *)
    destruct (read2_shape _ _ _ _ _ Hpat Hi Hrd) as (re & rs & e & Hre & Hrs & He' & He & Hsp & Hrole & In1 & In2 & -> & Hi2).
    destruct (read2_evidence _ _ _ _ _ Hpat Hi Hrd) as (e2 & rs2 & ckp & h3 & He2 & Hrs2 & Hckp & Hder).
    rewrite He in He2. injection He2 as <-. rewrite Hrs in Hrs2. injection Hrs2 as <-.
    rewrite peer_flags_2 in Hpp by exact Hi2. cbn [fst snd] in Hpp.
    apply process_payload_ok in Hpp. destruct Hpp as (pl & rs' & v' & -> & Hrs' & Hnz & Hacc & ->). m_cbn.
    rewrite Hrs in Hrs'. injection Hrs' as <-.
    destruct Hfin as [(cs1 & cs2 & Hk0 & -> & _ & _ & Hcomp)|(m3 & pkt & cs1 & cs2 & Hk0 & _)]; [|discriminate Hk0].
    injection Hk0 as <- <-.
    unfold completed in Hcomp. m_cbn. injection Hcomp as -> ->. m_cbn.
    split.
    + exists (p_cert_body pl), rs, e, re. m_cbn.
      repeat split; try assumption; try reflexivity. left. split; reflexivity.
    + left. split; [reflexivity|]. split; [exact Hrole|]. split; [exact Hi|].
      exists e, rs, ckp, h3, (Pay pl). repeat split; assumption.
  - exfalso. pose proof (read_done_idx _ (pk_body p) Hpat E0 E1) as X. rewrite Hrd in X. discriminate X.
Qed.

(* ---- networks of machines under an arbitrary (adversarial) schedule ------------------------------------- *)

Lemma upd_forall {A} (P : A -> Prop) (l : list A) i x : Forall P l -> P x -> Forall P (upd l i x).
Proof.
  intros Hl Hx. revert i. induction Hl as [|a l Ha Hl IH]; intros [|i]; cbn; constructor; auto.
Qed.

Lemma step_reach net ev : Forall reach net -> Forall reach (step net ev).
Proof.
  intros Hn. destruct ev as [i|i p]; cbn.
  - destruct (nth_error net i) as [m|] eqn:Hm; [|exact Hn].
    apply upd_forall; [exact Hn|]. apply reach_initiate. eapply Forall_forall; [exact Hn|]. eapply nth_error_In; eassumption.
  - destruct (nth_error net i) as [m|] eqn:Hm; [|exact Hn].
    apply upd_forall; [exact Hn|]. apply reach_process. eapply Forall_forall; [exact Hn|]. eapply nth_error_In; eassumption.
Qed.

Theorem run_reach net evs : Forall reach net -> Forall reach (run net evs).
Proof.
  unfold run. revert net. induction evs as [|ev evs IH]; intros net Hn; cbn; [exact Hn|]. apply IH. now apply step_reach.
Qed.

Theorem failed_sticky m : m_failed m = true -> (forall p, m_failed (fst (process m p)) = true) /\ m_failed (fst (initiate m)) = true.
Proof.
  intros F. destruct (failed_refuses m F) as [Hp Hi]. split; [intros p; rewrite Hp | rewrite Hi]; exact F.
Qed.

(* ---- the responder completes on an unauthenticated message 1 (finding F27) ------------------------------- *)

Module C05Ex.
  Import C07Ex.
  (* the genuine message 1 of initiator A (certificate bytes 101, key 1), captured by the adversary, with the Time in
     its cleartext payload changed: built from the captured message and public constants only *)
  Definition forged_payload : payload := mkPayload true 101 2 0 false 1000 0 4711 2 300.
  Definition forged1 : packet :=
    with_body msg1 (cat (fst (take 32 64 (pk_body msg1))) (Pay forged_payload)).
  (* a message 1 assembled without ever seeing A take part: the adversary's own ephemeral, A's public key and
     A's certificate bytes (both public: every message 1 of A shows them in the clear) *)
  Definition forged_pub : packet :=
    mkPkt false 0 0 1 (cat (Pub 99) (cat (Pub 1) (Pay (mkPayload true 101 2 0 false 31337 0 4711 2 300)))).
  Definition resp_result (p : packet) : option rcert :=
    match snd (process mR0 p) with Done (Some _) (Some r) => r_remote_cert r | _ => None end.
  Definition resp_answer (p : packet) : packet :=
    match snd (process mR0 p) with Done (Some a) _ => a | _ => nopkt end.
End C05Ex.

Lemma forged1_derivable : derives [pk_body C07Ex.msg1] (pk_body C05Ex.forged1).
Proof.
  change (pk_body C05Ex.forged1) with (cat (fst (take 32 64 (pk_body C07Ex.msg1))) (Pay C05Ex.forged_payload)).
  apply d_cat; [apply d_take1; apply d_known; left; reflexivity | apply d_pay].
Qed.

Lemma forged_pub_derivable : derives [Priv 99; Pub 1] (pk_body C05Ex.forged_pub).
Proof.
  change (pk_body C05Ex.forged_pub) with (cat (Pub 99) (cat (Pub 1) (Pay (mkPayload true 101 2 0 false 31337 0 4711 2 300)))).
  apply d_cat; [apply d_pub; apply d_known; left; reflexivity|].
  apply d_cat; [apply d_known; right; left; reflexivity | apply d_pay].
Qed.

Theorem responder_unproven :
  (* the fresh responder completes on both forged messages and reports A's certificate ... *)
  C05Ex.resp_result C05Ex.forged1 = Some (101, Pub 1) /\ C05Ex.resp_result C05Ex.forged_pub = Some (101, Pub 1) /\
  (* ... although neither was sent by any honest machine, and the adversary needs no private key of A *)
  pk_body C05Ex.forged1 <> pk_body C07Ex.msg1 /\
  derives [pk_body C07Ex.msg1] (pk_body C05Ex.forged1) /\ derives [Priv 99; Pub 1] (pk_body C05Ex.forged_pub) /\
  (* A itself does not accept the responder's answer: it never completes this handshake *)
  C07Ex.rejects (snd (process C07Ex.mI1 (C05Ex.resp_answer C05Ex.forged1))) = true /\
  (* and no message-2-style proof of possession is involved *)
  forall m', ~ proved_possession C07Ex.mR0 m' C05Ex.forged1.
Proof.
  split; [vm_compute; reflexivity|]. split; [vm_compute; reflexivity|].
  split; [vm_compute; discriminate|].
  split; [exact forged1_derivable|]. split; [exact forged_pub_derivable|].
  split; [vm_compute; reflexivity|].
  intros m' (_ & Hidx & _). vm_compute in Hidx. discriminate Hidx.
Qed.

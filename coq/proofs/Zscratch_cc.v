(* Version 2 (ASN.1 DER): decoding what was encoded; the decoder only returns certificates that obey the signing rules. *)
From Coq Require Import List NArith ZArith Lia Bool.
From Coq Require Import ZifyN ZifyNat ZifyBool.
Import ListNotations.
From NV Require Import lib.Bytes lib.Proto lib.Der model.CertCodec proofs.CertCodec_sort.
Open Scope N_scope.

(* "not longer than MaxCertificateSize" *)
Definition fits {A} (l : list A) : Prop := N.of_nat (length l) <= 65536.
Ltac flia := unfold fits, lenN, max_content, max_certificate_size, max_network_length, max_name_length in *; lia.

Lemma lenN_le_cap {A} (l : list A) : fits l -> lenN l <= max_content.
Proof. flia. Qed.

Lemma is_nil_false {A} (l : list A) : l <> [] -> is_nil l = false.
Proof. destruct l; [contradiction|reflexivity]. Qed.
Lemma is_nil_false_iff {A} (l : list A) : is_nil l = false <-> l <> [].
Proof. destruct l; split; intros; try reflexivity; try discriminate; congruence. Qed.
Lemma is_nil_true {A} (l : list A) : is_nil l = true -> l = [].
Proof. destruct l; [reflexivity|discriminate]. Qed.

Lemma is_nil_emit_app t c r : is_nil (emit_tlv t c ++ r) = false.
Proof. destruct (emit_tlv_head t c) as [x ->]. reflexivity. Qed.

(* ---- one element ---- *)

Lemma read_asn1_ok tag c rest : tag mod 32 <> 31 -> fits (c) ->
  read_asn1 tag (emit_tlv tag c ++ rest) = Some (c, rest).
Proof. intros. apply read_asn1_emit; [assumption|]. now apply lenN_le_cap. Qed.

Lemma read_asn1_ok0 tag c : tag mod 32 <> 31 -> fits (c) ->
  read_asn1 tag (emit_tlv tag c) = Some (c, []).
Proof. intros. rewrite <- (app_nil_r (emit_tlv tag c)). now apply read_asn1_ok. Qed.

Lemma peek_opt t t' b c Y :
  peek_tag t ((if b : bool then [] else emit_tlv t' c) ++ Y) = if b then peek_tag t Y else (t' =? t).
Proof. destruct b; [reflexivity|apply peek_tag_emit]. Qed.

Lemma peek_opt' t t' b c Y :
  peek_tag t ((if b : bool then emit_tlv t' c else []) ++ Y) = if b then (t' =? t) else peek_tag t Y.
Proof. destruct b; [apply peek_tag_emit|reflexivity]. Qed.

Lemma peek_opt_end t t' b c :
  peek_tag t (if b : bool then [] else emit_tlv t' c) = if b then false else (t' =? t).
Proof. destruct b; [reflexivity|]. rewrite <- (app_nil_r (emit_tlv t' c)). apply peek_tag_emit. Qed.

Ltac solve_peek :=
  repeat (rewrite peek_opt || rewrite peek_opt' || rewrite peek_tag_emit || rewrite peek_opt_end);
  repeat match goal with |- context [if ?b then _ else _] => destruct b end; reflexivity.

(* ---- networks and groups ---- *)

Lemma firstn_len_app {A} (l r : list A) : firstn (length l) (l ++ r) = l.
Proof. induction l as [|a l IH]; cbn; [destruct r; reflexivity|now rewrite IH]. Qed.

Lemma nth_len_app {A} (l : list A) x r d : nth (length l) (l ++ x :: r) d = x.
Proof. induction l as [|a l IH]; cbn; [reflexivity|exact IH]. Qed.

Lemma firstn_app_exact {A} n (l r : list A) : length l = n -> firstn n (l ++ r) = l.
Proof. intros <-. apply firstn_len_app. Qed.
Lemma nth_app_exact {A} n (l : list A) x r d : length l = n -> nth n (l ++ x :: r) d = x.
Proof. intros <-. apply nth_len_app. Qed.

Lemma pfx_bin_length p : length (pfx_bin p) = if p_is4 p then 5%nat else 17%nat.
Proof. unfold pfx_bin. rewrite app_length. destruct (p_is4 p); rewrite be_enc_length; reflexivity. Qed.

Lemma pfx_unbin_bin p : pfx_valid p = true -> pfx_unbin (pfx_bin p) = Some p.
Proof.
  intros Hv. unfold pfx_unbin. rewrite pfx_bin_length. unfold pfx_bin.
  destruct p as [[is4 a] bits]. unfold pfx_valid, p_is4, p_addr, p_bits in *. cbn [fst snd] in *.
  destruct is4.
  - change (5 =? 5)%nat with true. cbv iota.
    rewrite firstn_app_exact, nth_app_exact by apply be_enc_length.
    apply andb_prop in Hv as [Ha Hb]. rewrite be_dec_enc by (unfold two32 in Ha; cbn; lia).
    unfold pfx_valid, p_is4, p_addr, p_bits. cbn [fst snd]. rewrite Ha, Hb. reflexivity.
  - change (17 =? 5)%nat with false. change (17 =? 17)%nat with true. cbv iota.
    rewrite firstn_app_exact, nth_app_exact by apply be_enc_length.
    apply andb_prop in Hv as [Ha Hb]. rewrite be_dec_enc by (unfold two128 in Ha; cbn; lia).
    unfold pfx_valid, p_is4, p_addr, p_bits. cbn [fst snd]. rewrite Ha, Hb. reflexivity.
Qed.

Lemma octet_good : tag_octet_string mod 32 <> 31. Proof. discriminate. Qed.
Lemma utf8_good : tag_utf8string mod 32 <> 31. Proof. discriminate. Qed.
Lemma seq_good : tag_sequence mod 32 <> 31. Proof. discriminate. Qed.

Lemma read_net_enc p rest : pfx_valid p = true -> read_net (enc_net p ++ rest) = Some (p, rest).
Proof.
  intros Hv. unfold read_net, enc_net.
  assert (HL : (length (pfx_bin p) = 5 \/ length (pfx_bin p) = 17)%nat)
    by (rewrite pfx_bin_length; destruct (p_is4 p); auto).
  rewrite read_asn1_ok by (try exact octet_good; flia).
  replace (is_nil (pfx_bin p)) with false by (destruct (pfx_bin p); [cbn in HL; lia|reflexivity]).
  replace (max_network_length <? lenN (pfx_bin p)) with false
    by (symmetry; apply N.ltb_ge; unfold max_network_length, lenN; lia).
  cbn [orb]. now rewrite pfx_unbin_bin.
Qed.

Lemma read_group_enc g rest : g <> [] -> fits (g) -> read_group (enc_group g ++ rest) = Some (g, rest).
Proof.
  intros Hg HL. unfold read_group, enc_group. rewrite read_asn1_ok by (try exact utf8_good; assumption).
  now rewrite is_nil_false.
Qed.

Lemma read_net_progress s x rest : read_net s = Some (x, rest) -> (length rest < length s)%nat.
Proof.
  unfold read_net. destruct (read_asn1 tag_octet_string s) as [[v r]|] eqn:E; [|discriminate].
  destruct (is_nil v || _); [discriminate|]. destruct (pfx_unbin v); [|discriminate].
  intros H; inversion H; subst. apply read_asn1_shorter in E. lia.
Qed.

Lemma read_group_progress s x rest : read_group s = Some (x, rest) -> (length rest < length s)%nat.
Proof.
  unfold read_group. destruct (read_asn1 tag_utf8string s) as [[v r]|] eqn:E; [|discriminate].
  destruct (is_nil v); [discriminate|].
  intros H; inversion H; subst. apply read_asn1_shorter in E. lia.
Qed.

Lemma read_all_flat_map {A} (item : list N -> option (A * list N)) (enc : A -> list N) (xs : list A) :
  (forall s x rest, item s = Some (x, rest) -> (length rest < length s)%nat) ->
  (forall x rest, In x xs -> item (enc x ++ rest) = Some (x, rest)) ->
  (forall x, In x xs -> enc x <> []) ->
  read_all item (flat_map enc xs) = Some xs.
Proof.
  intros Hp. induction xs as [|x xs IH]; intros Hi Hn; [reflexivity|].
  cbn [flat_map]. rewrite (read_all_step item Hp).
  - rewrite Hi by (left; reflexivity). rewrite IH; [reflexivity| |].
    + intros y rest Hy. apply Hi. now right.
    + intros y Hy. apply Hn. now right.
  - specialize (Hn x (or_introl eq_refl)). destruct (enc x); [contradiction|discriminate].
Qed.

Lemma flat_map_elem_len {A} (enc : A -> list N) xs x : In x xs -> (length (enc x) <= length (flat_map enc xs))%nat.
Proof.
  induction xs as [|y xs IH]; [contradiction|]. cbn [flat_map]. rewrite app_length.
  intros [->|H]; [lia|]. specialize (IH H). lia.
Qed.

(* an optional list: the element is present exactly when the list is not empty *)
Lemma read_opt_list_enc {A} tag (item : list N -> option (A * list N)) (enc : A -> list N) xs Y :
  tag mod 32 <> 31 -> fits ((flat_map enc xs)) ->
  (forall s x rest, item s = Some (x, rest) -> (length rest < length s)%nat) ->
  (forall x rest, In x xs -> item (enc x ++ rest) = Some (x, rest)) ->
  (forall x, In x xs -> enc x <> []) ->
  (is_nil xs = true -> peek_tag tag Y = false) ->
  read_opt_list tag item ((if is_nil xs then [] else emit_tlv tag (flat_map enc xs)) ++ Y) = Some (xs, Y).
Proof.
  intros Ht HL Hp Hi Hn Hpk. unfold read_opt_list. destruct xs as [|x xs].
  - cbn [is_nil app]. rewrite read_optional_absent by (apply Hpk; reflexivity). reflexivity.
  - cbn [is_nil]. rewrite read_optional_present by (try assumption; now apply lenN_le_cap).
    now rewrite read_all_flat_map.
Qed.

Lemma opt_list_len {A} tag (enc : A -> list N) xs :
  (length (flat_map enc xs) <= length (if is_nil xs then [] else emit_tlv tag (flat_map enc xs)))%nat.
Proof.
  destruct xs; [cbn; lia|]. cbn [is_nil]. pose proof (emit_tlv_length tag (flat_map enc (a :: xs))). lia.
Qed.

Lemma opt_bytes_len tag (v : list N) : (length v <= length (if is_nil v then [] else emit_tlv tag v))%nat.
Proof. destruct v; [cbn; lia|]. cbn [is_nil]. pose proof (emit_tlv_length tag (n :: v)). lia. Qed.

(* ---- scalars ---- *)

Lemma read_opt_bool_enc tag (b : bool) Y : tag mod 32 <> 31 -> peek_tag tag Y = false ->
  read_opt_bool tag ((if b then emit_tlv tag [255] else []) ++ Y) = Some (b, Y).
Proof.
  intros Ht Hpk. unfold read_opt_bool. destruct b.
  - rewrite read_optional_present by (try assumption; cbn; unfold max_content; lia). reflexivity.
  - cbn [app]. now rewrite read_optional_absent.
Qed.

Lemma read_int64_enc tag v Y : tag mod 32 <> 31 -> int64_ok v = true ->
  read_int64 tag (emit_tlv tag (int64_enc v) ++ Y) = Some (v, Y).
Proof.
  intros Ht Hv. unfold read_int64. pose proof (int64_enc_length v).
  rewrite read_asn1_ok by (try assumption; flia). now rewrite int64_dec_enc.
Qed.

(* ---- details ---- *)

Definition details_only (c : cert) : cert :=
  mkCert (c_name c) (c_nets c) (c_unsafe c) (c_groups c) (c_isca c) (c_nb c) (c_na c) (c_issuer c) 0 [] [].

Definition details_wf (c : cert) : Prop :=
  c_name c <> [] /\ lenN (c_name c) <= max_name_length /\
  forallb pfx_valid (c_nets c) = true /\ forallb pfx_valid (c_unsafe c) = true /\
  (forall g, In g (c_groups c) -> g <> []) /\ int64_ok (c_nb c) = true /\ int64_ok (c_na c) = true.

Lemma details_body_bounds c :
  let L := length (details_body c) in
  (length (c_name c) <= L /\ length (flat_map enc_net (c_nets c)) <= L /\ length (flat_map enc_net (c_unsafe c)) <= L /\
   length (flat_map enc_group (c_groups c)) <= L /\ length (c_issuer c) <= L)%nat.
Proof.
  unfold details_body. cbv zeta. rewrite !app_length.
  pose proof (emit_tlv_length t_name (c_name c)).
  pose proof (opt_list_len t_networks enc_net (c_nets c)).
  pose proof (opt_list_len t_unsafe enc_net (c_unsafe c)).
  pose proof (opt_list_len t_groups enc_group (c_groups c)).
  pose proof (opt_bytes_len t_issuer (c_issuer c)).
  lia.
Qed.

Lemma t_good :
  t_details mod 32 <> 31 /\ t_curve mod 32 <> 31 /\ t_pubkey mod 32 <> 31 /\ t_signature mod 32 <> 31 /\
  t_name mod 32 <> 31 /\ t_networks mod 32 <> 31 /\ t_unsafe mod 32 <> 31 /\ t_groups mod 32 <> 31 /\
  t_isca mod 32 <> 31 /\ t_notbefore mod 32 <> 31 /\ t_notafter mod 32 <> 31 /\ t_issuer mod 32 <> 31.
Proof. repeat split; discriminate. Qed.

Lemma fits_details_body c : fits (encode_details c) -> fits (details_body c).
Proof. unfold encode_details. pose proof (emit_tlv_length t_details (details_body c)). unfold fits in *. lia. Qed.

Theorem unmarshal_details_encode c : details_wf c -> fits ((encode_details c)) ->
  unmarshal_details (encode_details c) = Some (details_only c).
Proof.
  intros (Hn & Hnl & Hnets & Huns & Hgrp & Hnb & Hna) HL.
  destruct t_good as (Gd & Gc & Gp & Gs & Gn & Gnet & Gu & Gg & Gca & Gnb & Gna & Gi).
  assert (HB : fits (details_body c)) by (apply fits_details_body; exact HL).
  destruct (details_body_bounds c) as (B1 & B2 & B3 & B4 & B5).
  unfold encode_details in *. unfold unmarshal_details. rewrite read_asn1_ok0 by assumption.
  unfold details_body. rewrite is_nil_emit_app.
  rewrite read_asn1_ok by (try assumption; flia).
  rewrite (is_nil_false _ Hn). replace (max_name_length <? lenN (c_name c)) with false by (symmetry; apply N.ltb_ge; flia).
  cbn [orb].
  (* networks *)
  rewrite (read_opt_list_enc t_networks read_net enc_net).
  2: assumption.
  2: { Time (unfold fits in *; lia). }
  2: exact read_net_progress.
  2: { Time (intros p rest Hp; apply read_net_enc; rewrite forallb_forall in Hnets; now apply Hnets). }
  2: intros p _; apply emit_tlv_nonempty.
  2: { intros _. Time repeat (rewrite peek_opt || rewrite peek_opt' || rewrite peek_tag_emit || rewrite peek_opt_end).
       Time repeat match goal with |- context [if ?b then _ else _] => destruct b end. Time reflexivity. }

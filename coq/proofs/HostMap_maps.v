(* Lemmas about the association-list maps and list helpers of model/HostMap.v. *)
From Coq Require Import List NArith Bool Lia.
Import ListNotations.
From NV Require Import gen.Consts_HostMap model.HostMap.
Open Scope N_scope.

Ltac neq a b := destruct (N.eqb_spec a b); subst.

(* ---------- mget / mset / mdel ---------------------------------------------------------------- *)

Lemma mget_mset {V} k j (v : V) m : mget j (mset k v m) = if j =? k then Some v else mget j m.
Proof.
  induction m as [|[k' v'] m IH]; simpl.
  - reflexivity.
  - destruct (N.ltb_spec k k'); simpl.
    + neq j k; reflexivity.
    + neq k k'; simpl.
      * neq j k'; reflexivity.
      * neq j k'; simpl.
        -- destruct (N.eqb_spec k' k); [congruence|reflexivity].
        -- exact IH.
Qed.

Lemma mget_mset_eq {V} k (v : V) m : mget k (mset k v m) = Some v.
Proof. rewrite mget_mset, N.eqb_refl. reflexivity. Qed.

Lemma mget_mset_neq {V} k j (v : V) m : j <> k -> mget j (mset k v m) = mget j m.
Proof. intros H. rewrite mget_mset. destruct (N.eqb_spec j k); [contradiction|reflexivity]. Qed.

Lemma mget_mdel {V} k j (m : amap V) : mget j (mdel k m) = if j =? k then None else mget j m.
Proof.
  unfold mdel. induction m as [|[k' v'] m IH]; simpl.
  - destruct (j =? k); reflexivity.
  - neq k' k; simpl.
    + rewrite IH. neq j k; reflexivity.
    + rewrite IH. neq j k'; [|reflexivity]. destruct (N.eqb_spec k' k); [contradiction|reflexivity].
Qed.

Lemma mget_mdel_eq {V} k (m : amap V) : mget k (mdel k m) = None.
Proof. rewrite mget_mdel, N.eqb_refl. reflexivity. Qed.

Lemma mget_mdel_neq {V} k j (m : amap V) : j <> k -> mget j (mdel k m) = mget j m.
Proof. intros H. rewrite mget_mdel. destruct (N.eqb_spec j k); [contradiction|reflexivity]. Qed.

Lemma mget_mdel_some {V} k j (m : amap V) v : mget j (mdel k m) = Some v -> j <> k /\ mget j m = Some v.
Proof. rewrite mget_mdel. destruct (N.eqb_spec j k); [discriminate|auto]. Qed.

Lemma mget_in_keys {V} k (m : amap V) v : mget k m = Some v -> In k (keys m).
Proof.
  unfold keys. induction m as [|[k' v'] m IH]; simpl; [discriminate|].
  neq k k'; auto.
Qed.

Lemma keys_mget {V} k (m : amap V) : In k (keys m) -> exists v, mget k m = Some v.
Proof.
  unfold keys. induction m as [|[k' v'] m IH]; simpl; [tauto|].
  intros [E|H].
  - subst. rewrite N.eqb_refl. eauto.
  - neq k k'; eauto.
Qed.

Lemma mget_none_keys {V} k (m : amap V) : mget k m = None <-> ~ In k (keys m).
Proof.
  split.
  - intros E H. apply keys_mget in H as [v H]. congruence.
  - intros H. destruct (mget k m) eqn:E; [|reflexivity]. apply mget_in_keys in E. contradiction.
Qed.

Lemma forallb_ext' {A} (f g : A -> bool) l : (forall x, f x = g x) -> forallb f l = forallb g l.
Proof. intros H. induction l as [|x l IH]; simpl; [reflexivity|]. now rewrite H, IH. Qed.

(* ---------- mem ------------------------------------------------------------------------------- *)

Lemma mem_In x l : mem x l = true <-> In x l.
Proof.
  unfold mem. rewrite existsb_exists. split.
  - intros [y [H E]]. apply N.eqb_eq in E. now subst.
  - intros H. exists x. split; [assumption|apply N.eqb_refl].
Qed.

Lemma mem_false x l : mem x l = false <-> ~ In x l.
Proof. rewrite <- mem_In. destruct (mem x l); split; intros; try congruence; try tauto. Qed.

Lemma is_some_id_true o h : is_some_id o h = true <-> o = Some h.
Proof.
  destruct o as [x|]; simpl.
  - rewrite N.eqb_eq. split; intros; congruence.
  - split; discriminate.
Qed.

Lemma is_some_id_false o h : is_some_id o h = false <-> o <> Some h.
Proof. rewrite <- is_some_id_true. destruct (is_some_id o h); split; intros; congruence. Qed.

Lemma mget_del_rels h rs r m :
  mget r (del_rels h rs m) = if mem r rs && is_some_id (mget r m) h then None else mget r m.
Proof.
  revert m. induction rs as [|x rs IH]; intros m; simpl; [reflexivity|].
  rewrite IH. unfold mem in *. simpl. destruct (is_some_id (mget x m) h) eqn:EX.
  - rewrite !mget_mdel. neq r x; simpl.
    + rewrite EX. now rewrite andb_false_r.
    + reflexivity.
  - neq r x; simpl; [|reflexivity]. rewrite EX. now rewrite !andb_false_r.
Qed.

(* ---------- remove_first ---------------------------------------------------------------------- *)

Lemma rf_In x h l : In x (remove_first h l) -> In x l.
Proof.
  induction l as [|y l IH]; simpl; [tauto|].
  neq h y; simpl; intuition.
Qed.

Lemma rf_In_neq x h l : x <> h -> In x l -> In x (remove_first h l).
Proof.
  intros N. induction l as [|y l IH]; simpl; [tauto|].
  intros [E|H].
  - subst. destruct (N.eqb_spec h x); [congruence|]. now left.
  - neq h y; [assumption|]. right. auto.
Qed.

Lemma rf_notin h l : ~ In h l -> remove_first h l = l.
Proof.
  induction l as [|y l IH]; simpl; [reflexivity|].
  intros H. neq h y; [tauto|]. f_equal. apply IH. tauto.
Qed.

Lemma rf_NoDup h l : NoDup l -> NoDup (remove_first h l).
Proof.
  induction 1 as [|y l H1 H2 IH]; simpl; [constructor|].
  neq h y; [assumption|]. constructor; [|assumption]. intros H. apply H1. eapply rf_In; eauto.
Qed.

Lemma rf_NoDup_notin h l : NoDup l -> ~ In h (remove_first h l).
Proof.
  induction 1 as [|y l H1 H2 IH]; simpl; [tauto|].
  neq h y; [assumption|]. simpl. intros [E|H]; [congruence|tauto].
Qed.

Lemma rf_idem h l : NoDup l -> remove_first h (remove_first h l) = remove_first h l.
Proof. intros H. apply rf_notin. now apply rf_NoDup_notin. Qed.

Lemma rf_length_le h l : (length (remove_first h l) <= length l)%nat.
Proof.
  induction l as [|y l IH]; simpl; [lia|]. neq h y; simpl; lia.
Qed.

Lemma rf_length_in h l : In h l -> S (length (remove_first h l)) = length l.
Proof.
  induction l as [|y l IH]; simpl; [tauto|].
  intros H. neq h y; [reflexivity|]. simpl. f_equal. apply IH. destruct H; [congruence|assumption].
Qed.

Lemma rf_head h l : NoDup l -> In h l -> NoDup (h :: remove_first h l).
Proof. intros H _. constructor; [now apply rf_NoDup_notin|now apply rf_NoDup]. Qed.

Lemma rf_nil_iff h l : NoDup l -> (remove_first h l = [] <-> forall x, In x l -> x = h).
Proof.
  intros ND. destruct l as [|y l]; simpl.
  - split; [intros _ x []|reflexivity].
  - neq h y.
    + split.
      * intros -> x [E|[]]. now subst.
      * intros H. destruct l as [|z l]; [reflexivity|]. inversion ND as [|? ? N1 N2]; subst.
        exfalso. apply N1. left. apply H. right. now left.
    + split; [discriminate|]. intros H. exfalso. apply n. symmetry. apply H. now left.
Qed.

(* ---------- last_opt -------------------------------------------------------------------------- *)

Lemma last_opt_In l o : last_opt l = Some o -> In o l.
Proof.
  induction l as [|x l IH]; simpl; [discriminate|].
  destruct l as [|y l]; [intros E; inversion E; now left|]. intros H. right. now apply IH.
Qed.

Lemma last_opt_cons x y l : last_opt (x :: y :: l) = last_opt (y :: l).
Proof. reflexivity. Qed.

Lemma last_opt_some x l : exists o, last_opt (x :: l) = Some o.
Proof.
  revert x. induction l as [|y l IH]; intros x; [now exists x|]. rewrite last_opt_cons. apply IH.
Qed.

Lemma last_opt_tail x y l o : last_opt (x :: y :: l) = Some o -> In o (y :: l).
Proof. rewrite last_opt_cons. apply last_opt_In. Qed.

(* ---------- ins_sorted ------------------------------------------------------------------------ *)

Lemma ins_sorted_In x y l : In y (ins_sorted x l) <-> y = x \/ In y l.
Proof.
  induction l as [|z l IH]; simpl; [intuition|].
  destruct (N.ltb_spec x z); simpl; [intuition|].
  neq x z; simpl.
  - intuition.
  - rewrite IH. intuition.
Qed.

(* ---------- nodupb ---------------------------------------------------------------------------- *)

Lemma nodupb_NoDup l : nodupb l = true <-> NoDup l.
Proof.
  induction l as [|x l IH]; simpl.
  - split; [constructor|reflexivity].
  - rewrite andb_true_iff, negb_true_iff, mem_false, IH. split.
    + intros [A B]. now constructor.
    + intros H. inversion H; subst. tauto.
Qed.

(* ---------- gen_index ------------------------------------------------------------------------- *)

Lemma gen_index_nonzero cs i r : gen_index cs = Some (i, r) -> i <> 0.
Proof.
  induction cs as [|c cs IH]; simpl; [discriminate|].
  neq c 0; [assumption|]. intros E. inversion E; subst. assumption.
Qed.

(* Converge_inv: the invariant of the two-node system and its preservation by every step. *)
From Coq Require Import List NArith Bool Lia Permutation.
Import ListNotations.
From NV Require Import model.Converge proofs.Converge_base proofs.Converge_swap proofs.Converge_shape.
Open Scope N_scope.

Definition pend (s : st) (x : node) := n_pend (get s x).
Definition gone (s : st) (x : node) := n_gone (get s x).
Definition done (s : st) (x : node) := n_done (get s x).

Definition msg_bound (b : N) (m : msg) : Prop :=
  match m with
  | MStage1 _ _ h _ => h < b
  | MStage2 _ _ _ h sd _ => h < b /\ sd < b
  | MData _ _ sd _ _ _ => sd < b
  | MRecvErr _ _ => True
  end.

(* who made the ids a tunnel carries: the initiator made the handshake id, the responder the session id *)
Definition role_owner (x : node) (t : tun) : Prop :=
  id_owner (t_sid t) = (if t_ini t then other x else x) /\
  id_owner (t_hid t) = (if t_ini t then x else other x).

Definition reg_entry (t : tun) : N * (N * N * N) :=
  (t_sid t, (t_hid t, (if t_ini t then t_r t else t_l t), (if t_ini t then t_l t else t_r t))).

Record Inv (s : st) : Prop := {
  i_nodup_l : forall x, NoDup (map t_l (tuns s x));
  i_nodup_sid : forall x, NoDup (map t_sid (tuns s x));
  i_gone_disj : forall x t, In t (tuns s x) -> ~ In (t_sid t) (gone s x);
  i_bound_t : forall x t, In t (tuns s x) -> t_sid t < 2 * s_clk s /\ t_hid t < 2 * s_clk s;
  i_bound_p : forall x p, pend s x = Some p -> p_ready p = true -> p_hid p < 2 * s_clk s;
  i_bound_net : forall m, In m (s_net s) -> msg_bound (2 * s_clk s) m;
  i_bound_reg : forall e, In e (s_reg s) -> fst e < 2 * s_clk s;
  i_bound_gone : forall x sd, In sd (gone s x) -> sd < 2 * s_clk s;
  i_bound_done : forall x h, In h (done s x) -> h < 2 * s_clk s;
  i_reg_fun : NoDup (map fst (s_reg s));
  i_owner : forall x t, In t (tuns s x) -> role_owner x t;
  i_reg_t : forall x t, In t (tuns s x) -> In (reg_entry t) (s_reg s);
  i_net2 : forall src i r h sd rt, In (MStage2 src i r h sd rt) (s_net s) ->
      id_owner sd = src /\ In (sd, (h, r, i)) (s_reg s) /\ (holds_sid (get s src) sd \/ In sd (gone s src));
  i_net1 : forall src i h ht, In (MStage1 src i h ht) (s_net s) ->
      id_owner h = src /\
      ((exists p, pend s src = Some p /\ p_ready p = true /\ p_hid p = h /\ p_idx p = i) \/ In h (done s src));
  i_pend : forall x p, pend s x = Some p -> p_ready p = true ->
      id_owner (p_hid p) = x /\ ~ In (p_hid p) (done s x) /\ (forall t, In t (tuns s x) -> t_l t <> p_idx p);
  i_done_ini : forall x t, In t (tuns s x) -> t_ini t = true -> In (t_hid t) (done s x);
  i_gone_ini : forall x sd, In sd (gone s x) -> id_owner sd = other x ->
      exists h r i, In (sd, (h, r, i)) (s_reg s) /\ In h (done s x);
  i_resp_hs : forall y u, In u (tuns s y) -> t_ini u = false ->
      pending_for (get s (other y)) u \/ In (t_hid u) (done s (other y));
  i_twin_held : forall x t, In t (tuns s x) -> t_ini t = true ->
      holds_sid (get s (other x)) (t_sid t) \/ In (t_sid t) (gone s (other x));
  i_data : forall src hidx sd fi c k, In (MData src hidx sd fi c k) (s_net s) ->
      (holds_sid (get s src) sd \/ In sd (gone s src)) /\
      (forall t, In t (tuns s src) -> t_sid t = sd -> c <= t_ctr t);
  i_seen : forall y u c, In u (tuns s y) -> In c (t_seen u) ->
      exists hidx fi k, In (MData (other y) hidx (t_sid u) fi c k) (s_net s)
}.

(* ---- small helpers ------------------------------------------------------------------------------------------ *)
Lemma node_case x z : x = z \/ x = other z.
Proof. destruct x, z; auto. Qed.

Definition set_node (s : st) (z : node) (ns : nst) : st :=
  match z with
  | NA => mkS ns (s_b s) (s_net s) (s_clk s) (s_reg s)
  | NB => mkS (s_a s) ns (s_net s) (s_clk s) (s_reg s)
  end.

Lemma get_set_same s z ns : get (set_node s z ns) z = ns.
Proof. now destruct z. Qed.
Lemma get_set_other s z ns : get (set_node s z ns) (other z) = get s (other z).
Proof. now destruct z. Qed.
Lemma set_put s z ns1 ns' ms reg : set_node (put s z ns1 ms reg) z ns' = put s z ns' ms reg.
Proof. now destruct z. Qed.
Lemma net_set s z ns : s_net (set_node s z ns) = s_net s.
Proof. now destruct z. Qed.
Lemma clk_set s z ns : s_clk (set_node s z ns) = s_clk s.
Proof. now destruct z. Qed.
Lemma reg_set s z ns : s_reg (set_node s z ns) = s_reg s.
Proof. now destruct z. Qed.
Lemma net_put s z ns ms reg : s_net (put s z ns ms reg) = s_net s ++ ms.
Proof. now destruct z. Qed.
Lemma clk_put s z ns ms reg : s_clk (put s z ns ms reg) = s_clk s + 1.
Proof. now destruct z. Qed.
Lemma reg_put s z ns ms reg :
  s_reg (put s z ns ms reg) = match reg with Some e => e :: s_reg s | None => s_reg s end.
Proof. now destruct z. Qed.

Lemma nodup_map_inj {A B} (f : A -> B) l a b : NoDup (map f l) -> In a l -> In b l -> f a = f b -> a = b.
Proof.
  induction l as [|x l IH]; simpl; intros ND Ha Hb E; [tauto|].
  inversion ND as [|y m Hn ND']; subst.
  destruct Ha as [->|Ha], Hb as [->|Hb]; auto.
  - exfalso. apply Hn. rewrite E. now apply in_map.
  - exfalso. apply Hn. rewrite <- E. now apply in_map.
Qed.

Lemma nodup_app_l {A} (l l' : list A) : NoDup (l ++ l') -> NoDup l.
Proof.
  induction l as [|a l IH]; simpl; intro H; [constructor|].
  inversion H as [|x m Hn ND]; subst. constructor; [|now apply IH].
  intro Hin. apply Hn. apply in_or_app. now left.
Qed.

Lemma nodup_app_disj {A} (l l' : list A) x : NoDup (l ++ l') -> In x l -> In x l' -> False.
Proof.
  induction l as [|a l IH]; simpl; intros H H1 H2; [tauto|].
  inversion H as [|y m Hn ND]; subst. destruct H1 as [->|H1].
  - apply Hn. apply in_or_app. now right.
  - now apply IH.
Qed.

Lemma holds_mono ns ns' sd :
  (forall t, In t (n_tuns ns) -> exists t', In t' (n_tuns ns') /\ tid t' = tid t) ->
  holds_sid ns sd -> holds_sid ns' sd.
Proof.
  intros H [u [Hu E]]. destruct (H u Hu) as [u' [Hu' Et]]. exists u'. split; [exact Hu'|].
  destruct (tid_fields _ _ Et) as (_ & _ & _ & Es & _). congruence.
Qed.

Lemma used_false idx ns : used idx ns = false ->
  (forall t, In t (n_tuns ns) -> t_l t <> idx) /\
  (forall p, n_pend ns = Some p -> p_ready p = true -> p_idx p <> idx).
Proof.
  unfold used. intro H. apply orb_false_iff in H as [H H3]. apply orb_false_iff in H as [H1 H2]. split.
  - intros t Ht E. assert (existsb (has_l idx) (n_tuns ns) = true); [|congruence].
    apply existsb_exists. exists t. split; [exact Ht|]. unfold has_l. now apply N.eqb_eq.
  - intros p P R E. rewrite P, R in H3. simpl in H3. apply N.eqb_neq in H3. auto.
Qed.

Lemma bound_mono b b' m : b <= b' -> msg_bound b m -> msg_bound b' m.
Proof. destruct m; simpl; intros; try lia; auto. Qed.

(* ---- removal of tunnels ------------------------------------------------------------------------------------- *)
Lemma inv_drop s z ns' removed :
  Inv s ->
  Permutation (tuns s z) (n_tuns ns' ++ removed) ->
  n_gone ns' = map t_sid removed ++ gone s z ->
  n_pend ns' = pend s z -> n_done ns' = done s z ->
  Inv (set_node s z ns').
Proof.
  intros I HP HG HPe HD. set (s' := set_node s z ns').
  assert (Tz : tuns s' z = n_tuns ns') by (unfold tuns, s'; now rewrite get_set_same).
  assert (Gz : gone s' z = map t_sid removed ++ gone s z) by (unfold gone, s'; now rewrite get_set_same).
  assert (Pz : pend s' z = pend s z) by (unfold pend, s'; now rewrite get_set_same).
  assert (Dz : done s' z = done s z) by (unfold done, s'; now rewrite get_set_same).
  assert (Oo : get s' (other z) = get s (other z)) by (unfold s'; apply get_set_other).
  assert (Net : s_net s' = s_net s) by apply net_set.
  assert (Clk : s_clk s' = s_clk s) by apply clk_set.
  assert (Reg : s_reg s' = s_reg s) by apply reg_set.
  assert (Sub : forall t, In t (n_tuns ns') -> In t (tuns s z)).
  { intros t Ht. apply (Permutation_in _ (Permutation_sym HP)). apply in_or_app. now left. }
  assert (SubR : forall t, In t removed -> In t (tuns s z)).
  { intros t Ht. apply (Permutation_in _ (Permutation_sym HP)). apply in_or_app. now right. }
  assert (Split : forall t, In t (tuns s z) -> In t (n_tuns ns') \/ In t removed).
  { intros t Ht. apply (Permutation_in _ HP) in Ht. now apply in_app_or in Ht. }
  assert (GoneMono : forall sd, In sd (gone s z) -> In sd (gone s' z)).
  { intros sd H. rewrite Gz. apply in_or_app. now right. }
  assert (Hold : forall x sd, holds_sid (get s x) sd \/ In sd (gone s x) -> holds_sid (get s' x) sd \/ In sd (gone s' x)).
  { intros x sd H. destruct (node_case x z) as [->| ->].
    - destruct H as [[u [Hu E]]|H]; [|right; now apply GoneMono].
      destruct (Split u Hu) as [K|R].
      + left. exists u. fold (tuns s' z). rewrite Tz. auto.
      + right. rewrite Gz. apply in_or_app. left. rewrite <- E. now apply in_map.
    - unfold gone. now rewrite Oo. }
  assert (TunsSub : forall x t, In t (tuns s' x) -> In t (tuns s x)).
  { intros x t H. destruct (node_case x z) as [->| ->]; [rewrite Tz in H; now apply Sub|].
    unfold tuns in *. now rewrite Oo in H. }
  assert (DoneEq : forall x, done s' x = done s x).
  { intro x. destruct (node_case x z) as [->| ->]; [exact Dz|]. unfold done. now rewrite Oo. }
  assert (PendEq : forall x, pend s' x = pend s x).
  { intro x. destruct (node_case x z) as [->| ->]; [exact Pz|]. unfold pend. now rewrite Oo. }
  assert (NDapp : forall (f : tun -> N), NoDup (map f (tuns s z)) -> NoDup (map f (n_tuns ns') ++ map f removed)).
  { intros f ND. rewrite <- map_app. eapply Permutation_NoDup; [apply Permutation_map; exact HP|exact ND]. }
  constructor.
  - intro x. destruct (node_case x z) as [->| ->].
    + rewrite Tz. exact (nodup_app_l _ _ (NDapp t_l (i_nodup_l s I z))).
    + unfold tuns. rewrite Oo. apply (i_nodup_l s I).
  - intro x. destruct (node_case x z) as [->| ->].
    + rewrite Tz. exact (nodup_app_l _ _ (NDapp t_sid (i_nodup_sid s I z))).
    + unfold tuns. rewrite Oo. apply (i_nodup_sid s I).
  - intros x t Ht. destruct (node_case x z) as [->| ->].
    + rewrite Tz in Ht. rewrite Gz. intro H. apply in_app_or in H as [H|H].
      * apply (nodup_app_disj _ _ (t_sid t) (NDapp t_sid (i_nodup_sid s I z))); [now apply in_map|exact H].
      * apply (i_gone_disj s I z t (Sub t Ht) H).
    + unfold tuns, gone in *. rewrite Oo in *. now apply (i_gone_disj s I (other z)).
  - intros x t Ht. rewrite Clk. apply (i_bound_t s I x). now apply TunsSub.
  - intros x p. rewrite PendEq, Clk. apply (i_bound_p s I).
  - intros m. rewrite Net, Clk. apply (i_bound_net s I).
  - intros e. rewrite Reg, Clk. apply (i_bound_reg s I).
  - intros x sd H. rewrite Clk. destruct (node_case x z) as [->| ->].
    + rewrite Gz in H. apply in_app_or in H as [H|H]; [|now apply (i_bound_gone s I z)].
      apply in_map_iff in H as [u [<- Hu]]. apply (i_bound_t s I z u (SubR u Hu)).
    + unfold gone in H. rewrite Oo in H. now apply (i_bound_gone s I (other z)).
  - intros x h. rewrite DoneEq, Clk. apply (i_bound_done s I).
  - rewrite Reg. apply (i_reg_fun s I).
  - intros x t Ht. apply (i_owner s I x). now apply TunsSub.
  - intros x t Ht. rewrite Reg. apply (i_reg_t s I x). now apply TunsSub.
  - intros src i r h sd rt. rewrite Net, Reg. intro H. destruct (i_net2 s I _ _ _ _ _ _ H) as (A & B & C).
    repeat split; auto.
  - intros src i h ht. rewrite Net. intro H. destruct (i_net1 s I _ _ _ _ H) as (A & B).
    split; [exact A|]. rewrite PendEq, DoneEq. exact B.
  - intros x p. rewrite PendEq, DoneEq. intros P R. destruct (i_pend s I x p P R) as (A & B & C).
    split; [exact A|]. split; [exact B|]. intros t Ht. apply C. now apply TunsSub.
  - intros x t Ht. rewrite DoneEq. apply (i_done_ini s I x). now apply TunsSub.
  - intros x sd H O. rewrite Reg, DoneEq. destruct (node_case x z) as [->| ->].
    + rewrite Gz in H. apply in_app_or in H as [H|H]; [|now apply (i_gone_ini s I z)].
      apply in_map_iff in H as [u [E Hu]]. pose proof (SubR u Hu) as Hu'.
      destruct (i_owner s I z u Hu') as [O1 O2]. rewrite E, O in O1.
      destruct (t_ini u) eqn:Iu; [|exfalso; now apply (other_neq z)].
      exists (t_hid u), (t_r u), (t_l u). split.
      * pose proof (i_reg_t s I z u Hu') as R. unfold reg_entry in R. rewrite Iu, E in R. exact R.
      * now apply (i_done_ini s I z u Hu').
    + unfold gone in H. rewrite Oo in H. now apply (i_gone_ini s I (other z)).
  - intros y u Hu Iu. rewrite DoneEq. apply TunsSub in Hu.
    destruct (i_resp_hs s I y u Hu Iu) as [[p (P1 & P2)]|D]; [left|now right].
    exists p. split; [|exact P2]. fold (pend s' (other y)). rewrite PendEq. exact P1.
  - intros x t Ht It. apply Hold. apply (i_twin_held s I x t (TunsSub x t Ht) It).
  - intros src hidx sd fi c k. rewrite Net. intro H. destruct (i_data s I _ _ _ _ _ _ H) as [A B].
    split; [now apply Hold|]. intros t Ht. apply B. now apply TunsSub.
  - intros y u c Hu Hc. rewrite Net. apply (i_seen s I y u c); auto.
Qed.

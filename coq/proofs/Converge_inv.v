(* Converge_inv: the invariant of the two-node system and its preservation by every step. *)
From Coq Require Import List NArith Bool Lia Permutation.
Import ListNotations.
From NV Require Import model.Converge proofs.Converge_base proofs.Converge_swap proofs.Converge_shape.
Open Scope N_scope.

Definition pend (s : st) (x : node) := n_pend (get s x).
Definition gone (s : st) (x : node) := n_gone (get s x).
Definition done (s : st) (x : node) := n_done (get s x).

Definition msg_bound (b : N) (m : msg) : Prop :=
  match m with
  | MStage1 _ _ h _ => h < b
  | MStage2 _ _ _ h sd _ => h < b /\ sd < b
  | MData _ _ sd _ _ _ => sd < b
  | MRecvErr _ _ => True
  end.

(* who made the ids a tunnel carries: the initiator made the handshake id, the responder the session id *)
Definition role_owner (x : node) (t : tun) : Prop :=
  id_owner (t_sid t) = (if t_ini t then other x else x) /\
  id_owner (t_hid t) = (if t_ini t then x else other x).

Definition reg_entry (t : tun) : N * (N * N * N) :=
  (t_sid t, (t_hid t, (if t_ini t then t_r t else t_l t), (if t_ini t then t_l t else t_r t))).

Record Inv (s : st) : Prop := {
  i_nodup_l : forall x, NoDup (map t_l (tuns s x));
  i_nodup_sid : forall x, NoDup (map t_sid (tuns s x));
  i_gone_disj : forall x t, In t (tuns s x) -> ~ In (t_sid t) (gone s x);
  i_bound_t : forall x t, In t (tuns s x) -> t_sid t < 2 * s_clk s /\ t_hid t < 2 * s_clk s;
  i_bound_p : forall x p, pend s x = Some p -> p_ready p = true -> p_hid p < 2 * s_clk s;
  i_bound_net : forall m, In m (s_net s) -> msg_bound (2 * s_clk s) m;
  i_bound_reg : forall e, In e (s_reg s) -> fst e < 2 * s_clk s;
  i_bound_gone : forall x sd, In sd (gone s x) -> sd < 2 * s_clk s;
  i_bound_done : forall x h, In h (done s x) -> h < 2 * s_clk s;
  i_reg_fun : NoDup (map fst (s_reg s));
  i_owner : forall x t, In t (tuns s x) -> role_owner x t;
  i_reg_t : forall x t, In t (tuns s x) -> In (reg_entry t) (s_reg s);
  i_net2 : forall src i r h sd rt, In (MStage2 src i r h sd rt) (s_net s) ->
      id_owner sd = src /\ In (sd, (h, r, i)) (s_reg s) /\ (holds_sid (get s src) sd \/ In sd (gone s src));
  i_net1 : forall src i h ht, In (MStage1 src i h ht) (s_net s) ->
      id_owner h = src /\
      ((exists p, pend s src = Some p /\ p_ready p = true /\ p_hid p = h /\ p_idx p = i) \/ In h (done s src));
  i_pend : forall x p, pend s x = Some p -> p_ready p = true ->
      id_owner (p_hid p) = x /\ ~ In (p_hid p) (done s x) /\ (forall t, In t (tuns s x) -> t_l t <> p_idx p);
  i_done_ini : forall x t, In t (tuns s x) -> t_ini t = true -> In (t_hid t) (done s x);
  i_gone_ini : forall x sd, In sd (gone s x) -> id_owner sd = other x ->
      exists h r i, In (sd, (h, r, i)) (s_reg s) /\ In h (done s x);
  i_resp_hs : forall y u, In u (tuns s y) -> t_ini u = false ->
      pending_for (get s (other y)) u \/ In (t_hid u) (done s (other y));
  i_twin_held : forall x t, In t (tuns s x) -> t_ini t = true ->
      holds_sid (get s (other x)) (t_sid t) \/ In (t_sid t) (gone s (other x));
  i_data : forall src hidx sd fi c k, In (MData src hidx sd fi c k) (s_net s) ->
      (holds_sid (get s src) sd \/ In sd (gone s src)) /\
      (forall t, In t (tuns s src) -> t_sid t = sd -> c <= t_ctr t);
  i_seen : forall y u c, In u (tuns s y) -> In c (t_seen u) ->
      exists hidx fi k, In (MData (other y) hidx (t_sid u) fi c k) (s_net s)
}.

(* ---- small helpers ------------------------------------------------------------------------------------------ *)
Lemma node_case x z : x = z \/ x = other z.
Proof. destruct x, z; auto. Qed.

Definition set_node (s : st) (z : node) (ns : nst) : st :=
  match z with
  | NA => mkS ns (s_b s) (s_net s) (s_clk s) (s_reg s)
  | NB => mkS (s_a s) ns (s_net s) (s_clk s) (s_reg s)
  end.

Lemma get_set_same s z ns : get (set_node s z ns) z = ns.
Proof. now destruct z. Qed.
Lemma get_set_other s z ns : get (set_node s z ns) (other z) = get s (other z).
Proof. now destruct z. Qed.
Lemma set_put s z ns1 ns' ms reg : set_node (put s z ns1 ms reg) z ns' = put s z ns' ms reg.
Proof. now destruct z. Qed.
Lemma net_set s z ns : s_net (set_node s z ns) = s_net s.
Proof. now destruct z. Qed.
Lemma clk_set s z ns : s_clk (set_node s z ns) = s_clk s.
Proof. now destruct z. Qed.
Lemma reg_set s z ns : s_reg (set_node s z ns) = s_reg s.
Proof. now destruct z. Qed.
Lemma net_put s z ns ms reg : s_net (put s z ns ms reg) = s_net s ++ ms.
Proof. now destruct z. Qed.
Lemma clk_put s z ns ms reg : s_clk (put s z ns ms reg) = s_clk s + 1.
Proof. now destruct z. Qed.
Lemma reg_put s z ns ms reg :
  s_reg (put s z ns ms reg) = match reg with Some e => e :: s_reg s | None => s_reg s end.
Proof. now destruct z. Qed.

Lemma nodup_map_inj {A B} (f : A -> B) l a b : NoDup (map f l) -> In a l -> In b l -> f a = f b -> a = b.
Proof.
  induction l as [|x l IH]; simpl; intros ND Ha Hb E; [tauto|].
  inversion ND as [|y m Hn ND']; subst.
  destruct Ha as [->|Ha], Hb as [->|Hb]; auto.
  - exfalso. apply Hn. rewrite E. now apply in_map.
  - exfalso. apply Hn. rewrite <- E. now apply in_map.
Qed.

Lemma nodup_app_l {A} (l l' : list A) : NoDup (l ++ l') -> NoDup l.
Proof.
  induction l as [|a l IH]; simpl; intro H; [constructor|].
  inversion H as [|x m Hn ND]; subst. constructor; [|now apply IH].
  intro Hin. apply Hn. apply in_or_app. now left.
Qed.

Lemma nodup_app_disj {A} (l l' : list A) x : NoDup (l ++ l') -> In x l -> In x l' -> False.
Proof.
  induction l as [|a l IH]; simpl; intros H H1 H2; [tauto|].
  inversion H as [|y m Hn ND]; subst. destruct H1 as [->|H1].
  - apply Hn. apply in_or_app. now right.
  - now apply IH.
Qed.

Lemma holds_mono ns ns' sd :
  (forall t, In t (n_tuns ns) -> exists t', In t' (n_tuns ns') /\ tid t' = tid t) ->
  holds_sid ns sd -> holds_sid ns' sd.
Proof.
  intros H [u [Hu E]]. destruct (H u Hu) as [u' [Hu' Et]]. exists u'. split; [exact Hu'|].
  destruct (tid_fields _ _ Et) as (_ & _ & _ & Es & _). congruence.
Qed.

Lemma used_false idx ns : used idx ns = false ->
  (forall t, In t (n_tuns ns) -> t_l t <> idx) /\
  (forall p, n_pend ns = Some p -> p_ready p = true -> p_idx p <> idx).
Proof.
  unfold used. intro H. apply orb_false_iff in H as [H H3]. apply orb_false_iff in H as [H1 H2]. split.
  - intros t Ht E. assert (existsb (has_l idx) (n_tuns ns) = true); [|congruence].
    apply existsb_exists. exists t. split; [exact Ht|]. unfold has_l. now apply N.eqb_eq.
  - intros p P R E. rewrite P, R in H3. simpl in H3. apply N.eqb_neq in H3. auto.
Qed.

Lemma bound_mono b b' m : b <= b' -> msg_bound b m -> msg_bound b' m.
Proof. destruct m; simpl; intros; try lia; auto. Qed.

(* ---- removal of tunnels ------------------------------------------------------------------------------------- *)
Lemma inv_drop s z ns' removed :
  Inv s ->
  Permutation (tuns s z) (n_tuns ns' ++ removed) ->
  n_gone ns' = map t_sid removed ++ gone s z ->
  n_pend ns' = pend s z -> n_done ns' = done s z ->
  Inv (set_node s z ns').
Proof.
  intros I HP HG HPe HD. set (s' := set_node s z ns').
  assert (Tz : tuns s' z = n_tuns ns') by (unfold tuns, s'; now rewrite get_set_same).
  assert (Gz : gone s' z = map t_sid removed ++ gone s z) by (unfold gone, s'; now rewrite get_set_same).
  assert (Pz : pend s' z = pend s z) by (unfold pend, s'; now rewrite get_set_same).
  assert (Dz : done s' z = done s z) by (unfold done, s'; now rewrite get_set_same).
  assert (Oo : get s' (other z) = get s (other z)) by (unfold s'; apply get_set_other).
  assert (Net : s_net s' = s_net s) by apply net_set.
  assert (Clk : s_clk s' = s_clk s) by apply clk_set.
  assert (Reg : s_reg s' = s_reg s) by apply reg_set.
  assert (Sub : forall t, In t (n_tuns ns') -> In t (tuns s z)).
  { intros t Ht. apply (Permutation_in _ (Permutation_sym HP)). apply in_or_app. now left. }
  assert (SubR : forall t, In t removed -> In t (tuns s z)).
  { intros t Ht. apply (Permutation_in _ (Permutation_sym HP)). apply in_or_app. now right. }
  assert (Split : forall t, In t (tuns s z) -> In t (n_tuns ns') \/ In t removed).
  { intros t Ht. apply (Permutation_in _ HP) in Ht. now apply in_app_or in Ht. }
  assert (GoneMono : forall sd, In sd (gone s z) -> In sd (gone s' z)).
  { intros sd H. rewrite Gz. apply in_or_app. now right. }
  assert (Hold : forall x sd, holds_sid (get s x) sd \/ In sd (gone s x) -> holds_sid (get s' x) sd \/ In sd (gone s' x)).
  { intros x sd H. destruct (node_case x z) as [->| ->].
    - destruct H as [[u [Hu E]]|H]; [|right; now apply GoneMono].
      destruct (Split u Hu) as [K|R].
      + left. exists u. fold (tuns s' z). rewrite Tz. auto.
      + right. rewrite Gz. apply in_or_app. left. rewrite <- E. now apply in_map.
    - unfold gone. now rewrite Oo. }
  assert (TunsSub : forall x t, In t (tuns s' x) -> In t (tuns s x)).
  { intros x t H. destruct (node_case x z) as [->| ->]; [rewrite Tz in H; now apply Sub|].
    unfold tuns in *. now rewrite Oo in H. }
  assert (DoneEq : forall x, done s' x = done s x).
  { intro x. destruct (node_case x z) as [->| ->]; [exact Dz|]. unfold done. now rewrite Oo. }
  assert (PendEq : forall x, pend s' x = pend s x).
  { intro x. destruct (node_case x z) as [->| ->]; [exact Pz|]. unfold pend. now rewrite Oo. }
  assert (NDapp : forall (f : tun -> N), NoDup (map f (tuns s z)) -> NoDup (map f (n_tuns ns') ++ map f removed)).
  { intros f ND. rewrite <- map_app. eapply Permutation_NoDup; [apply Permutation_map; exact HP|exact ND]. }
  constructor.
  - intro x. destruct (node_case x z) as [->| ->].
    + rewrite Tz. exact (nodup_app_l _ _ (NDapp t_l (i_nodup_l s I z))).
    + unfold tuns. rewrite Oo. apply (i_nodup_l s I).
  - intro x. destruct (node_case x z) as [->| ->].
    + rewrite Tz. exact (nodup_app_l _ _ (NDapp t_sid (i_nodup_sid s I z))).
    + unfold tuns. rewrite Oo. apply (i_nodup_sid s I).
  - intros x t Ht. destruct (node_case x z) as [->| ->].
    + rewrite Tz in Ht. rewrite Gz. intro H. apply in_app_or in H as [H|H].
      * apply (nodup_app_disj _ _ (t_sid t) (NDapp t_sid (i_nodup_sid s I z))); [now apply in_map|exact H].
      * apply (i_gone_disj s I z t (Sub t Ht) H).
    + unfold tuns, gone in *. rewrite Oo in *. now apply (i_gone_disj s I (other z)).
  - intros x t Ht. rewrite Clk. apply (i_bound_t s I x). now apply TunsSub.
  - intros x p. rewrite PendEq, Clk. apply (i_bound_p s I).
  - intros m. rewrite Net, Clk. apply (i_bound_net s I).
  - intros e. rewrite Reg, Clk. apply (i_bound_reg s I).
  - intros x sd H. rewrite Clk. destruct (node_case x z) as [->| ->].
    + rewrite Gz in H. apply in_app_or in H as [H|H]; [|now apply (i_bound_gone s I z)].
      apply in_map_iff in H as [u [<- Hu]]. apply (i_bound_t s I z u (SubR u Hu)).
    + unfold gone in H. rewrite Oo in H. now apply (i_bound_gone s I (other z)).
  - intros x h. rewrite DoneEq, Clk. apply (i_bound_done s I).
  - rewrite Reg. apply (i_reg_fun s I).
  - intros x t Ht. apply (i_owner s I x). now apply TunsSub.
  - intros x t Ht. rewrite Reg. apply (i_reg_t s I x). now apply TunsSub.
  - intros src i r h sd rt. rewrite Net, Reg. intro H. destruct (i_net2 s I _ _ _ _ _ _ H) as (A & B & C).
    repeat split; auto.
  - intros src i h ht. rewrite Net. intro H. destruct (i_net1 s I _ _ _ _ H) as (A & B).
    split; [exact A|]. rewrite PendEq, DoneEq. exact B.
  - intros x p. rewrite PendEq, DoneEq. intros P R. destruct (i_pend s I x p P R) as (A & B & C).
    split; [exact A|]. split; [exact B|]. intros t Ht. apply C. now apply TunsSub.
  - intros x t Ht. rewrite DoneEq. apply (i_done_ini s I x). now apply TunsSub.
  - intros x sd H O. rewrite Reg, DoneEq. destruct (node_case x z) as [->| ->].
    + rewrite Gz in H. apply in_app_or in H as [H|H]; [|now apply (i_gone_ini s I z)].
      apply in_map_iff in H as [u [E Hu]]. pose proof (SubR u Hu) as Hu'.
      destruct (i_owner s I z u Hu') as [O1 O2]. rewrite E, O in O1.
      destruct (t_ini u) eqn:Iu; [|exfalso; now apply (other_neq z)].
      exists (t_hid u), (t_r u), (t_l u). split.
      * pose proof (i_reg_t s I z u Hu') as R. unfold reg_entry in R. rewrite Iu, E in R. exact R.
      * now apply (i_done_ini s I z u Hu').
    + unfold gone in H. rewrite Oo in H. now apply (i_gone_ini s I (other z)).
  - intros y u Hu Iu. rewrite DoneEq. apply TunsSub in Hu.
    destruct (i_resp_hs s I y u Hu Iu) as [[p (P1 & P2)]|D]; [left|now right].
    exists p. split; [|exact P2]. fold (pend s' (other y)). rewrite PendEq. exact P1.
  - intros x t Ht It. apply Hold. apply (i_twin_held s I x t (TunsSub x t Ht) It).
  - intros src hidx sd fi c k. rewrite Net. intro H. destruct (i_data s I _ _ _ _ _ _ H) as [A B].
    split; [now apply Hold|]. intros t Ht. apply B. now apply TunsSub.
  - intros y u c Hu Hc. rewrite Net. apply (i_seen s I y u c); auto.
Qed.

(* ---- steps that keep the set of tunnels ----------------------------------------------------------------------- *)
Ltac put_facts s z ns' ms reg s' :=
  set (s' := put s z ns' ms reg);
  assert (Tz : tuns s' z = n_tuns ns') by (unfold tuns, s'; now rewrite get_put_same);
  assert (Gz : gone s' z = n_gone ns') by (unfold gone, s'; now rewrite get_put_same);
  assert (Pz : pend s' z = n_pend ns') by (unfold pend, s'; now rewrite get_put_same);
  assert (Dz : done s' z = n_done ns') by (unfold done, s'; now rewrite get_put_same);
  assert (Oo : get s' (other z) = get s (other z)) by (unfold s'; apply get_put_other);
  assert (Net : s_net s' = s_net s ++ ms) by apply net_put;
  assert (Clk : s_clk s' = s_clk s + 1) by apply clk_put;
  pose proof (reg_put s z ns' ms reg) as Reg; fold s' in Reg.

Lemma pending_for_same po po' ns ns' u u' :
  n_pend ns = po -> n_pend ns' = po' -> ready_same po po' -> tid u = tid u' ->
  pending_for ns u -> pending_for ns' u'.
Proof.
  intros E E' [_ RS] Et [p (P1 & P2 & P3 & P4)]. rewrite E in P1.
  destruct (RS p P1 P2) as [p' (Q1 & Q2 & Q3 & Q4 & _)].
  destruct (tid_fields _ _ Et) as (_ & Er & Eh & _ & _).
  exists p'. rewrite E'. repeat split; auto; congruence.
Qed.

Lemma inv_same s z ns' ms :
  Inv s ->
  Permutation (map tid (n_tuns ns')) (map tid (tuns s z)) ->
  (forall t', In t' (n_tuns ns') -> exists t, In t (tuns s z) /\ tun_evolves s z t t') ->
  n_gone ns' = n_gone (get s z) -> n_done ns' = n_done (get s z) ->
  ready_same (n_pend (get s z)) (n_pend ns') ->
  (forall m, In m ms -> msg_ok z ns' m) ->
  Inv (put s z ns' ms None).
Proof.
  intros I HP HE HG HD HR HM. put_facts s z ns' ms (@None (N * (N * N * N))) s'.
  cbn match in Reg.
  assert (Back : forall t', In t' (tuns s' z) -> exists t, In t (tuns s z) /\ tun_evolves s z t t').
  { intros t' H. rewrite Tz in H. now apply HE. }
  assert (Fwd : forall t, In t (tuns s z) -> exists t', In t' (tuns s' z) /\ tid t' = tid t).
  { intros t Ht. assert (In (tid t) (map tid (n_tuns ns'))) as H.
    { apply (Permutation_in _ (Permutation_sym HP)). now apply in_map. }
    apply in_map_iff in H as [t' [E Ht']]. exists t'. rewrite Tz. auto. }
  assert (BackAny : forall x t', In t' (tuns s' x) -> exists t, In t (tuns s x) /\ tid t = tid t' /\ t_ctr t <= t_ctr t').
  { intros x t' H. destruct (node_case x z) as [->| ->].
    - destruct (Back t' H) as [t [Ht (E & C & _)]]. exists t. auto.
    - unfold tuns in *. rewrite Oo in H. exists t'. repeat split; auto. lia. }
  assert (FwdAny : forall x t, In t (tuns s x) -> exists t', In t' (tuns s' x) /\ tid t' = tid t).
  { intros x t H. destruct (node_case x z) as [->| ->]; [now apply Fwd|].
    exists t. unfold tuns in *. rewrite Oo. auto. }
  assert (GoneEq : forall x, gone s' x = gone s x).
  { intro x. destruct (node_case x z) as [->| ->]; [now rewrite Gz|]. unfold gone. now rewrite Oo. }
  assert (DoneEq : forall x, done s' x = done s x).
  { intro x. destruct (node_case x z) as [->| ->]; [now rewrite Dz|]. unfold done. now rewrite Oo. }
  assert (PendRS : forall x, ready_same (pend s x) (pend s' x)).
  { intro x. destruct (node_case x z) as [->| ->]; [rewrite Pz; exact HR|].
    unfold pend. rewrite Oo. apply ready_same_refl. }
  assert (Hold : forall x sd, holds_sid (get s x) sd \/ In sd (gone s x) -> holds_sid (get s' x) sd \/ In sd (gone s' x)).
  { intros x sd [H|H]; [left|right; now rewrite GoneEq].
    apply (holds_mono (get s x)); [|exact H]. intros t Ht. now apply FwdAny. }
  assert (NetIn : forall m, In m (s_net s) -> In m (s_net s')).
  { intros m H. rewrite Net. apply in_or_app. now left. }
  assert (PermND : forall (g : N * N * N * N * bool -> N), NoDup (map g (map tid (tuns s z))) -> NoDup (map g (map tid (n_tuns ns')))).
  { intros g ND. eapply Permutation_NoDup; [apply Permutation_map, Permutation_sym, HP|exact ND]. }
  assert (Bt : forall x t, In t (tuns s' x) -> t_sid t < 2 * s_clk s' /\ t_hid t < 2 * s_clk s').
  { intros x t' H. destruct (BackAny x t' H) as [t (Ht & E & _)].
    destruct (tid_fields _ _ E) as (_ & _ & Eh & Es & _). destruct (i_bound_t s I x t Ht). rewrite Clk. lia. }
  assert (Bp : forall x p, pend s' x = Some p -> p_ready p = true -> p_hid p < 2 * s_clk s').
  { intros x p' P R. destruct (PendRS x) as [RS _]. destruct (RS p' P R) as [p (Q1 & Q2 & Q3 & _)].
    pose proof (i_bound_p s I x p Q1 Q2). rewrite Clk. lia. }
  assert (NDsid : forall x, NoDup (map t_sid (tuns s' x))).
  { intro x. destruct (node_case x z) as [->| ->].
    - rewrite Tz, map_sid. apply PermND. rewrite <- map_sid. apply (i_nodup_sid s I).
    - unfold tuns. rewrite Oo. apply (i_nodup_sid s I). }
  constructor.
  - intro x. destruct (node_case x z) as [->| ->].
    + rewrite Tz, map_tl. apply PermND. rewrite <- map_tl. apply (i_nodup_l s I).
    + unfold tuns. rewrite Oo. apply (i_nodup_l s I).
  - exact NDsid.
  - intros x t' H. rewrite GoneEq. destruct (BackAny x t' H) as [t (Ht & E & _)].
    destruct (tid_fields _ _ E) as (_ & _ & _ & Es & _). rewrite <- Es. now apply (i_gone_disj s I x).
  - exact Bt.
  - exact Bp.
  - intros m H. rewrite Net in H. apply in_app_or in H as [H|H].
    + eapply bound_mono; [|apply (i_bound_net s I m H)]. rewrite Clk. lia.
    + specialize (HM m H). destruct m as [src i h ht|src i r h sd rt|src hidx sd fi c k|src idx]; cbn [msg_ok msg_bound] in *.
      * destruct HM as [_ [p (P1 & P2 & P3 & _)]]. rewrite <- P3. apply (Bp z p); [now rewrite Pz|exact P2].
      * destruct HM as [_ [u (U1 & _ & _ & _ & -> & ->)]]. rewrite <- Tz in U1. destruct (Bt z u U1). auto.
      * destruct HM as [_ [u (U1 & _ & -> & _)]]. rewrite <- Tz in U1. destruct (Bt z u U1). auto.
      * exact Logic.I.
  - intros e. rewrite Reg, Clk. intro H. pose proof (i_bound_reg s I e H). lia.
  - intros x sd. rewrite GoneEq, Clk. intro H. pose proof (i_bound_gone s I x sd H). lia.
  - intros x h. rewrite DoneEq, Clk. intro H. pose proof (i_bound_done s I x h H). lia.
  - rewrite Reg. apply (i_reg_fun s I).
  - intros x t' H. destruct (BackAny x t' H) as [t (Ht & E & _)].
    destruct (tid_fields _ _ E) as (_ & _ & Eh & Es & Ei). pose proof (i_owner s I x t Ht) as O.
    unfold role_owner in *. now rewrite <- Eh, <- Es, <- Ei.
  - intros x t' H. rewrite Reg. destruct (BackAny x t' H) as [t (Ht & E & _)].
    destruct (tid_fields _ _ E) as (El & Er & Eh & Es & Ei). pose proof (i_reg_t s I x t Ht) as R.
    unfold reg_entry in *. now rewrite <- El, <- Er, <- Eh, <- Es, <- Ei.
  - intros src i r h sd rt H. rewrite Reg. rewrite Net in H. apply in_app_or in H as [H|H].
    + destruct (i_net2 s I _ _ _ _ _ _ H) as (A & B & C). repeat split; auto.
    + specialize (HM _ H). cbn [msg_ok] in HM. destruct HM as [-> [u (U1 & U2 & -> & -> & -> & ->)]].
      rewrite <- Tz in U1. destruct (BackAny z u U1) as [t (Ht & E & _)].
      destruct (tid_fields _ _ E) as (El & Er & Eh & Es & Ei).
      destruct (i_owner s I z t Ht) as [O1 _]. rewrite Ei, U2 in O1. rewrite <- Es. split; [exact O1|]. split.
      * pose proof (i_reg_t s I z t Ht) as R. unfold reg_entry in R. rewrite Ei, U2 in R.
        now rewrite <- El, <- Er, <- Eh.
      * left. exists u. rewrite Es. auto.
  - intros src i h ht H. rewrite Net in H. apply in_app_or in H as [H|H].
    + destruct (i_net1 s I _ _ _ _ H) as (A & B). split; [exact A|]. rewrite DoneEq.
      destruct B as [[p (P1 & P2 & P3 & P4)]|B]; [left|now right].
      destruct (PendRS src) as [_ RS]. destruct (RS p P1 P2) as [p' (Q1 & Q2 & Q3 & Q4 & _)].
      exists p'. repeat split; auto; congruence.
    + specialize (HM _ H). cbn [msg_ok] in HM. destruct HM as [-> [p' (P1 & P2 & P3 & P4)]].
      rewrite <- Pz in P1. destruct (PendRS z) as [RS _]. destruct (RS p' P1 P2) as [p (Q1 & Q2 & Q3 & _)].
      destruct (i_pend s I z p Q1 Q2) as (A & _). split; [congruence|]. left. exists p'. auto.
  - intros x p' P R. rewrite DoneEq. destruct (PendRS x) as [RS _]. destruct (RS p' P R) as [p (Q1 & Q2 & Q3 & Q4 & _)].
    destruct (i_pend s I x p Q1 Q2) as (A & B & C). rewrite <- Q3, <- Q4. split; [exact A|]. split; [exact B|].
    intros t' H. destruct (BackAny x t' H) as [t (Ht & E & _)].
    destruct (tid_fields _ _ E) as (El & _). rewrite <- El. now apply C.
  - intros x t' H It. rewrite DoneEq. destruct (BackAny x t' H) as [t (Ht & E & _)].
    destruct (tid_fields _ _ E) as (_ & _ & Eh & _ & Ei). rewrite <- Eh. apply (i_done_ini s I x t Ht). congruence.
  - intros x sd. rewrite GoneEq, Reg, DoneEq. apply (i_gone_ini s I).
  - intros y u' H Iu. rewrite DoneEq. destruct (BackAny y u' H) as [u (Hu & E & _)].
    destruct (tid_fields _ _ E) as (_ & _ & Eh & _ & Ei).
    destruct (i_resp_hs s I y u Hu) as [P|D]; [congruence| |right; congruence].
    left. apply (pending_for_same (pend s (other y)) (pend s' (other y)) (get s (other y)) (get s' (other y)) u u');
      [reflexivity|reflexivity|apply PendRS|exact E|exact P].
  - intros x t' H It. destruct (BackAny x t' H) as [t (Ht & E & _)].
    destruct (tid_fields _ _ E) as (_ & _ & _ & Es & Ei). rewrite <- Es. apply Hold.
    apply (i_twin_held s I x t Ht). congruence.
  - intros src hidx sd fi c k H. rewrite Net in H. apply in_app_or in H as [H|H].
    + destruct (i_data s I _ _ _ _ _ _ H) as [A B]. split; [now apply Hold|].
      intros t' Ht' Es. destruct (BackAny src t' Ht') as [t (Ht & E & C)].
      destruct (tid_fields _ _ E) as (_ & _ & _ & Es' & _). assert (c <= t_ctr t) by (apply B; auto; congruence). lia.
    + specialize (HM _ H). cbn [msg_ok] in HM. destruct HM as [-> [u (U1 & _ & -> & _ & C)]]. rewrite <- Tz in U1.
      split; [left; exists u; auto|]. intros t' Ht' Es.
      assert (t' = u) as -> by (eapply (nodup_map_inj t_sid); eauto). exact C.
  - intros y u' c H Hc. destruct (node_case y z) as [->| ->].
    + destruct (Back u' H) as [u (Hu & E & _ & S)]. destruct (tid_fields _ _ E) as (_ & _ & _ & Es & _).
      rewrite <- Es. destruct (S c Hc) as [Hc'|(hidx & fi & k & Hn)].
      * destruct (i_seen s I z u c Hu Hc') as (hidx & fi & k & Hn). exists hidx, fi, k. now apply NetIn.
      * exists hidx, fi, k. now apply NetIn.
    + unfold tuns in H. rewrite Oo in H. destruct (i_seen s I (other z) u' c H Hc) as (hidx & fi & k & Hn).
      exists hidx, fi, k. now apply NetIn.
Qed.

(* ---- steps that add a tunnel, a pending handshake, finished handshakes, packets -------------------------------- *)
Definition new_msg_ok (s' : st) (z : node) (m : msg) : Prop :=
  match m with
  | MStage2 src i r h sd _ => src = z /\ id_owner sd = z /\ In (sd, (h, r, i)) (s_reg s') /\ holds_sid (get s' z) sd
  | MStage1 src i h _ => src = z /\ id_owner h = z /\
                         exists p, pend s' z = Some p /\ p_ready p = true /\ p_hid p = h /\ p_idx p = i
  | MData src _ sd _ c _ => src = z /\ exists t', In t' (tuns s' z) /\ t_sid t' = sd /\ c <= t_ctr t'
  | MRecvErr _ _ => True
  end.

Lemma inv_grow s z ns' ms reg added dadd :
  Inv s ->
  let s' := put s z ns' ms reg in
  let b := 2 * (s_clk s + 1) in
  n_tuns ns' = added ++ tuns s z ->
  n_gone ns' = gone s z ->
  n_done ns' = dadd ++ done s z ->
  NoDup (map t_l (added ++ tuns s z)) ->
  NoDup (map t_sid (added ++ tuns s z)) ->
  (forall t, In t added ->
     ~ In (t_sid t) (gone s z) /\ t_sid t < b /\ t_hid t < b /\ role_owner z t /\ In (reg_entry t) (s_reg s') /\
     (t_ini t = true -> In (t_hid t) (n_done ns')) /\
     (t_ini t = false -> pending_for (get s (other z)) t \/ In (t_hid t) (done s (other z))) /\
     (t_ini t = true -> holds_sid (get s (other z)) (t_sid t) \/ In (t_sid t) (gone s (other z))) /\
     t_seen t = [] /\
     (forall hidx fi c k, ~ In (MData z hidx (t_sid t) fi c k) (s_net s))) ->
  (forall p, n_pend ns' = Some p -> p_ready p = true ->
     p_hid p < b /\ id_owner (p_hid p) = z /\ ~ In (p_hid p) (n_done ns') /\
     (forall t, In t (n_tuns ns') -> t_l t <> p_idx p)) ->
  (forall i h ht, In (MStage1 z i h ht) (s_net s) ->
     (exists p, n_pend ns' = Some p /\ p_ready p = true /\ p_hid p = h /\ p_idx p = i) \/ In h (n_done ns')) ->
  (forall u, In u (tuns s (other z)) -> t_ini u = false -> pending_for (get s z) u ->
     pending_for ns' u \/ In (t_hid u) (n_done ns')) ->
  (forall h, In h dadd -> h < b) ->
  match reg with Some e => fst e < b /\ ~ In (fst e) (map fst (s_reg s)) | None => True end ->
  (forall m, In m ms -> msg_bound b m /\ new_msg_ok s' z m) ->
  Inv s'.
Proof.
  intros I s' b HT HG HD ND1 ND2 HA HPn HS1 HPF HDb HReg HM. subst s'. put_facts s z ns' ms reg s'.
  assert (Bb : b = 2 * s_clk s') by (unfold b; now rewrite Clk).
  assert (Old : forall x t, In t (tuns s x) -> In t (tuns s' x)).
  { intros x t H. destruct (node_case x z) as [->| ->]; [rewrite Tz, HT; apply in_or_app; now right|].
    unfold tuns in *. now rewrite Oo. }
  assert (New : forall x t, In t (tuns s' x) -> In t (tuns s x) \/ (x = z /\ In t added)).
  { intros x t H. destruct (node_case x z) as [->| ->].
    - rewrite Tz, HT in H. apply in_app_or in H as [H|H]; auto.
    - unfold tuns in *. rewrite Oo in H. now left. }
  assert (GoneEq : forall x, gone s' x = gone s x).
  { intro x. destruct (node_case x z) as [->| ->]; [now rewrite Gz|]. unfold gone. now rewrite Oo. }
  assert (DoneIn : forall x h, In h (done s x) -> In h (done s' x)).
  { intros x h H. destruct (node_case x z) as [->| ->]; [rewrite Dz, HD; apply in_or_app; now right|].
    unfold done in *. now rewrite Oo. }
  assert (DoneO : done s' (other z) = done s (other z)) by (unfold done; now rewrite Oo).
  assert (PendO : pend s' (other z) = pend s (other z)) by (unfold pend; now rewrite Oo).
  assert (RegIn : forall e, In e (s_reg s) -> In e (s_reg s')).
  { intros e H. rewrite Reg. destruct reg; [now right|exact H]. }
  assert (NetIn : forall m, In m (s_net s) -> In m (s_net s')).
  { intros m H. rewrite Net. apply in_or_app. now left. }
  assert (Hold : forall x sd, holds_sid (get s x) sd \/ In sd (gone s x) -> holds_sid (get s' x) sd \/ In sd (gone s' x)).
  { intros x sd [[u [Hu E]]|H]; [left; exists u; split; [now apply (Old x)|exact E]|right; now rewrite GoneEq]. }
  assert (Lt : 2 * s_clk s < b) by (unfold b; lia).
  constructor.
  - intro x. destruct (node_case x z) as [->| ->]; [now rewrite Tz, HT|]. unfold tuns. rewrite Oo. apply (i_nodup_l s I).
  - intro x. destruct (node_case x z) as [->| ->]; [now rewrite Tz, HT|]. unfold tuns. rewrite Oo. apply (i_nodup_sid s I).
  - intros x t H. rewrite GoneEq. destruct (New x t H) as [H'|[-> H']]; [now apply (i_gone_disj s I x)|].
    now destruct (HA t H').
  - intros x t H. rewrite <- Bb. destruct (New x t H) as [H'|[-> H']].
    + destruct (i_bound_t s I x t H'). lia.
    + destruct (HA t H') as (_ & A & B & _). auto.
  - intros x p P R. rewrite <- Bb. destruct (node_case x z) as [->| ->].
    + rewrite Pz in P. now destruct (HPn p P R).
    + rewrite PendO in P. pose proof (i_bound_p s I _ p P R). lia.
  - intros m H. rewrite <- Bb. rewrite Net in H. apply in_app_or in H as [H|H].
    + eapply bound_mono; [|apply (i_bound_net s I m H)]. lia.
    + now destruct (HM m H).
  - intros e H. rewrite <- Bb. rewrite Reg in H. destruct reg as [e0|].
    + destruct H as [<-|H]; [now destruct HReg|]. pose proof (i_bound_reg s I e H). lia.
    + pose proof (i_bound_reg s I e H). lia.
  - intros x sd. rewrite GoneEq, <- Bb. intro H. pose proof (i_bound_gone s I x sd H). lia.
  - intros x h H. rewrite <- Bb. destruct (node_case x z) as [->| ->].
    + rewrite Dz, HD in H. apply in_app_or in H as [H|H]; [now apply HDb|]. pose proof (i_bound_done s I z h H). lia.
    + rewrite DoneO in H. pose proof (i_bound_done s I _ h H). lia.
  - rewrite Reg. destruct reg as [e0|]; [|apply (i_reg_fun s I)]. simpl. constructor; [now destruct HReg|apply (i_reg_fun s I)].
  - intros x t H. destruct (New x t H) as [H'|[-> H']]; [now apply (i_owner s I x)|]. destruct (HA t H') as (_ & _ & _ & A & _). exact A.
  - intros x t H. destruct (New x t H) as [H'|[-> H']]; [apply RegIn; now apply (i_reg_t s I x)|].
    destruct (HA t H') as (_ & _ & _ & _ & A & _). exact A.
  - intros src i r h sd rt H. rewrite Net in H. apply in_app_or in H as [H|H].
    + destruct (i_net2 s I _ _ _ _ _ _ H) as (A & B & C). split; [exact A|]. split; [now apply RegIn|now apply Hold].
    + destruct (HM _ H) as [_ (-> & A & B & C)]. auto.
  - intros src i h ht H. rewrite Net in H. apply in_app_or in H as [H|H].
    + destruct (i_net1 s I _ _ _ _ H) as (A & B). split; [exact A|]. destruct (node_case src z) as [->|E].
      * rewrite Pz, Dz. now apply (HS1 i h ht).
      * rewrite E in *. rewrite PendO, DoneO. exact B.
    + destruct (HM _ H) as [_ (-> & A & B)]. split; [exact A|]. now left.
  - intros x p P R. destruct (node_case x z) as [->| ->].
    + rewrite Pz in P. destruct (HPn p P R) as (_ & A & B & C). rewrite Dz, Tz. auto.
    + rewrite PendO in P. rewrite DoneO. destruct (i_pend s I _ p P R) as (A & B & C). split; [exact A|]. split; [exact B|].
      intros t H. apply C. unfold tuns in *. now rewrite Oo in H.
  - intros x t H It. destruct (New x t H) as [H'|[-> H']]; [apply DoneIn; now apply (i_done_ini s I x)|].
    rewrite Dz. destruct (HA t H') as (_ & _ & _ & _ & _ & A & _). now apply A.
  - intros x sd. rewrite GoneEq. intros H O. destruct (i_gone_ini s I x sd H O) as (h & r & i & A & B).
    exists h, r, i. split; [now apply RegIn|now apply DoneIn].
  - intros y u H Iu. destruct (New y u H) as [H'|[-> H']].
    + destruct (i_resp_hs s I y u H' Iu) as [P|D]; [|right; now apply DoneIn].
      destruct (node_case y z) as [->|E].
      * left. now rewrite Oo.
      * rewrite E in *. rewrite other_other in *.
        assert (Gs : get s' z = ns') by (unfold s'; apply get_put_same). rewrite Gs, Dz. now apply HPF.
    + rewrite Oo, DoneO. destruct (HA u H') as (_ & _ & _ & _ & _ & _ & A & _). now apply A.
  - intros x t H It. destruct (New x t H) as [H'|[-> H']]; [apply Hold; now apply (i_twin_held s I x)|].
    rewrite Oo. unfold gone. rewrite Oo. destruct (HA t H') as (_ & _ & _ & _ & _ & _ & _ & A & _). now apply A.
  - intros src hidx sd fi c k H. rewrite Net in H. apply in_app_or in H as [H|H].
    + destruct (i_data s I _ _ _ _ _ _ H) as [A B]. split; [now apply Hold|]. intros t Ht Es.
      destruct (New src t Ht) as [H'|[-> H']]; [now apply B|].
      destruct (HA t H') as (_ & _ & _ & _ & _ & _ & _ & _ & _ & A'). exfalso. rewrite <- Es in H. exact (A' _ _ _ _ H).
    + destruct (HM _ H) as [_ (-> & t' & T1 & T2 & T3)]. split; [left; exists t'; auto|].
      intros t Ht Es. assert (t = t') as ->; [|exact T3].
      apply (nodup_map_inj t_sid (tuns s' z)); auto; [rewrite Tz, HT; exact ND2|congruence].
  - intros y u c H Hc. destruct (New y u H) as [H'|[-> H']].
    + destruct (i_seen s I y u c H' Hc) as (hidx & fi & k & Hn). exists hidx, fi, k. now apply NetIn.
    + destruct (HA u H') as (_ & _ & _ & _ & _ & _ & _ & _ & A & _). rewrite A in Hc. destruct Hc.
Qed.

Lemma reg_functional (l : list (N * (N * N * N))) k v v' : NoDup (map fst l) -> In (k, v) l -> In (k, v') l -> v = v'.
Proof.
  intros ND H H'. assert ((k, v) = (k, v')) as E; [|now inversion E].
  apply (nodup_map_inj fst l); auto.
Qed.

Lemma inv_new_pending s z ns' ms p' :
  Inv s ->
  n_tuns ns' = tuns s z -> n_gone ns' = n_gone (get s z) -> n_done ns' = n_done (get s z) ->
  (forall p, n_pend (get s z) = Some p -> p_ready p = false) ->
  n_pend ns' = Some p' -> p_ready p' = true -> p_hid p' = mk_id z (s_clk s) ->
  used (p_idx p') (get s z) = false ->
  ms = [MStage1 z (p_idx p') (p_hid p') (p_ht p')] ->
  Inv (put s z ns' ms None).
Proof.
  intros I HT HG HD HN HP HR HH HU ->.
  destruct (used_false _ _ HU) as [U1 U2].
  apply (inv_grow s z ns' _ None [] []); auto.
  - simpl. apply (i_nodup_l s I).
  - simpl. apply (i_nodup_sid s I).
  - intros t [].
  - intros p P R. rewrite HP in P. inversion P; subst p. rewrite HH. split; [apply mk_id_lt|]. split; [apply id_owner_mk|]. split.
    + rewrite HD. intro H. pose proof (i_bound_done s I z _ H). pose proof (mk_id_ge z (s_clk s)). lia.
    + intros t Ht. rewrite HT in Ht. now apply U1.
  - intros i h ht H. destruct (i_net1 s I _ _ _ _ H) as [_ [[p (P1 & P2 & _)]|D]].
    + apply HN in P1. congruence.
    + right. now rewrite HD.
  - intros u _ _ [p (P1 & P2 & _)]. apply HN in P1. congruence.
  - intros h [].
  - intros m [<-|[]]. cbn [msg_bound new_msg_ok]. rewrite HH. split; [apply mk_id_lt|]. split; [reflexivity|]. split; [apply id_owner_mk|].
    exists p'. unfold pend. rewrite get_put_same. auto.
Qed.

Lemma inv_drop_pending s z ns' ms p :
  Inv s ->
  n_pend (get s z) = Some p -> p_ready p = true -> n_pend ns' = None ->
  n_tuns ns' = tuns s z -> n_gone ns' = n_gone (get s z) -> n_done ns' = p_hid p :: n_done (get s z) ->
  ms = [] ->
  Inv (put s z ns' ms None).
Proof.
  intros I HP HR HN HT HG HD ->.
  apply (inv_grow s z ns' _ None [] [p_hid p]); auto.
  - simpl. apply (i_nodup_l s I).
  - simpl. apply (i_nodup_sid s I).
  - intros t [].
  - intros q Q. rewrite HN in Q. discriminate.
  - intros i h ht H. right. rewrite HD. destruct (i_net1 s I _ _ _ _ H) as [_ [[q (Q1 & Q2 & Q3 & _)]|D]].
    + unfold pend in Q1. rewrite HP in Q1. inversion Q1; subst q. now left.
    + now right.
  - intros u _ _ [q (Q1 & Q2 & Q3 & _)]. right. rewrite HD. rewrite HP in Q1. inversion Q1; subst q. now left.
  - intros h [<-|[]]. pose proof (i_bound_p s I z p HP HR). lia.
  - intros m [].
Qed.

Lemma inv_add_resp s z ns1 ms idx iidx hid ht t :
  Inv s ->
  In (MStage1 (other z) iidx hid ht) (s_net s) ->
  used idx (get s z) = false ->
  tid t = (idx, iidx, hid, mk_id z (s_clk s), false) -> t_seen t = [] ->
  n_tuns ns1 = t :: tuns s z -> n_gone ns1 = n_gone (get s z) -> n_done ns1 = n_done (get s z) ->
  n_pend ns1 = n_pend (get s z) ->
  ms = [MStage2 z iidx idx hid (mk_id z (s_clk s)) (s_clk s)] ->
  Inv (put s z ns1 ms (Some (mk_id z (s_clk s), (hid, idx, iidx)))).
Proof.
  intros I HN HU HI HS HT HG HD HP ->.
  destruct (used_false _ _ HU) as [U1 U2].
  unfold tid in HI. injection HI as El Er Eh Es Ei.
  destruct (i_net1 s I _ _ _ _ HN) as [ON PN].
  pose proof (i_bound_net s I _ HN) as BN. cbn [msg_bound] in BN.
  pose proof (mk_id_ge z (s_clk s)) as GE. pose proof (mk_id_lt z (s_clk s)) as LT.
  assert (RegS : s_reg (put s z ns1 [MStage2 z iidx idx hid (mk_id z (s_clk s)) (s_clk s)] (Some (mk_id z (s_clk s), (hid, idx, iidx))))
                 = (mk_id z (s_clk s), (hid, idx, iidx)) :: s_reg s) by apply reg_put.
  apply (inv_grow s z ns1 _ _ [t] []); auto.
  - simpl. constructor; [|apply (i_nodup_l s I)]. intro H. apply in_map_iff in H as [u [E Hu]]. apply (U1 u Hu). congruence.
  - simpl. constructor; [|apply (i_nodup_sid s I)]. intro H. apply in_map_iff in H as [u [E Hu]].
    destruct (i_bound_t s I z u Hu). lia.
  - intros t' [<-|[]]. split; [intro H; pose proof (i_bound_gone s I z _ H); lia|]. split; [lia|]. split; [lia|]. split.
    { unfold role_owner. rewrite Ei, Es, Eh. split; [apply id_owner_mk|exact ON]. }
    split. { rewrite RegS. left. unfold reg_entry. now rewrite Ei, Es, Eh, El, Er. }
    split; [congruence|]. split.
    { intros _. destruct PN as [[p (P1 & P2 & P3 & P4)]|D]; [left|right; congruence].
      exists p. repeat split; auto; congruence. }
    split; [congruence|]. split; [exact HS|].
    intros hidx fi c k H. pose proof (i_bound_net s I _ H) as B. cbn [msg_bound] in B. lia.
  - intros p P R. rewrite HP in P. pose proof (i_bound_p s I z p P R). destruct (i_pend s I z p P R) as (A & B & C).
    split; [lia|]. split; [exact A|]. split; [now rewrite HD|]. intros u Hu. rewrite HT in Hu. destruct Hu as [<-|Hu].
    + rewrite El. intro E. apply (U2 p P R). now symmetry.
    + now apply C.
  - intros i h ht' H. rewrite HP, HD. now destruct (i_net1 s I _ _ _ _ H).
  - intros u _ _ [p (P1 & P2)]. left. exists p. now rewrite HP.
  - intros h [].
  - cbn [fst]. split; [lia|]. intro H. apply in_map_iff in H as [e [E He]]. pose proof (i_bound_reg s I e He). lia.
  - intros m [<-|[]]. cbn [msg_bound new_msg_ok]. split; [lia|]. split; [reflexivity|]. split; [apply id_owner_mk|]. split.
    + rewrite RegS. now left.
    + exists t. rewrite get_put_same, HT. split; [now left|exact Es].
Qed.

Lemma inv_add_ini s z ns1 ms iidx ridx hid sid rt p t :
  Inv s ->
  In (MStage2 (other z) iidx ridx hid sid rt) (s_net s) ->
  n_pend (get s z) = Some p -> p_ready p = true -> p_idx p = iidx -> p_hid p = hid ->
  tid t = (iidx, ridx, hid, sid, true) -> t_seen t = [] ->
  n_tuns ns1 = t :: tuns s z -> n_gone ns1 = n_gone (get s z) -> n_done ns1 = hid :: n_done (get s z) ->
  n_pend ns1 = None ->
  (forall m, In m ms -> exists c pl, m = MData z ridx sid true c (KData pl) /\ c <= t_ctr t) ->
  Inv (put s z ns1 ms None).
Proof.
  intros I HN HP HR HIdx HHid HI HS HT HG HD HPn HM.
  unfold tid in HI. injection HI as El Er Eh Es Ei.
  destruct (i_net2 s I _ _ _ _ _ _ HN) as (ON & RN & HoN).
  pose proof (i_bound_net s I _ HN) as [BN1 BN2]. fold (pend s z) in HP.
  destruct (i_pend s I z p HP HR) as (OP & NDone & NoL). rewrite HHid in *. rewrite HIdx in *.
  assert (F1 : forall u, In u (tuns s z) -> t_sid u <> sid).
  { intros u Hu E. destruct (i_owner s I z u Hu) as [O1 _]. rewrite E, ON in O1. destruct (t_ini u) eqn:Iu.
    - pose proof (i_reg_t s I z u Hu) as R. unfold reg_entry in R. rewrite Iu, E in R.
      pose proof (reg_functional _ _ _ _ (i_reg_fun s I) R RN) as EE. injection EE as Ehh _ _.
      apply NDone. rewrite <- Ehh. now apply (i_done_ini s I z u Hu).
    - now apply (other_neq z). }
  assert (F2 : ~ In sid (gone s z)).
  { intro H. destruct (i_gone_ini s I z sid H ON) as (h' & r' & i' & R & D).
    pose proof (reg_functional _ _ _ _ (i_reg_fun s I) R RN) as EE. injection EE as Ehh _ _. apply NDone. now rewrite <- Ehh. }
  assert (RegS : s_reg (put s z ns1 ms None) = s_reg s) by apply reg_put.
  apply (inv_grow s z ns1 ms None [t] [hid]); auto.
  - simpl. constructor; [|apply (i_nodup_l s I)]. intro H. apply in_map_iff in H as [u [E Hu]]. apply (NoL u Hu). congruence.
  - simpl. constructor; [|apply (i_nodup_sid s I)]. intro H. apply in_map_iff in H as [u [E Hu]]. apply (F1 u Hu). congruence.
  - intros t' [<-|[]]. rewrite Es, Eh. split; [exact F2|]. split; [lia|]. split; [lia|]. split.
    { unfold role_owner. rewrite Ei, Es, Eh. auto. }
    split. { rewrite RegS. unfold reg_entry. now rewrite Ei, Es, Eh, El, Er. }
    split. { intros _. rewrite HD. now left. }
    split; [congruence|]. split; [intros _; exact HoN|]. split; [exact HS|].
    intros hidx fi c k H. destruct (i_data s I _ _ _ _ _ _ H) as [[[u [Hu E]]|G] _]; [now apply (F1 u Hu)|now apply F2].
  - intros q Q. rewrite HPn in Q. discriminate.
  - intros i h ht H. right. rewrite HD. destruct (i_net1 s I _ _ _ _ H) as [_ [[q (Q1 & Q2 & Q3 & _)]|D]].
    + rewrite HP in Q1. inversion Q1; subst q. left. congruence.
    + now right.
  - intros u _ _ [q (Q1 & Q2 & Q3 & _)]. right. rewrite HD. unfold pend in HP. rewrite HP in Q1. inversion Q1; subst q. left. congruence.
  - intros h [<-|[]]. pose proof (i_bound_p s I z p HP HR). lia.
  - intros m Hm. destruct (HM m Hm) as (c & pl & -> & Hc). cbn [msg_bound new_msg_ok]. split; [lia|]. split; [reflexivity|].
    exists t. unfold tuns. rewrite get_put_same, HT. split; [now left|]. split; [exact Es|exact Hc].
Qed.

Lemma del_l_perm l t : NoDup (map t_l l) -> In t l -> Permutation l (del_l (t_l t) l ++ [t]).
Proof.
  induction l as [|a l IH]; simpl; intros ND Hin; [destruct Hin|].
  inversion ND as [|x y Hn ND']; subst. unfold has_l at 1. destruct Hin as [->|Hin].
  - rewrite N.eqb_refl. simpl.
    assert (del_l (t_l t) l = l) as ->.
    { unfold del_l. apply filter_all. intros u Hu. unfold has_l. rewrite negb_true_iff, N.eqb_neq. intro E.
      apply Hn. rewrite <- E. now apply in_map. }
    apply Permutation_cons_append.
  - destruct (t_l a =? t_l t) eqn:E.
    + apply N.eqb_eq in E. exfalso. apply Hn. rewrite E. now apply in_map.
    + simpl. constructor. now apply IH.
Qed.

(* every shape preserves the invariant *)
Lemma inv_shape s z ns' ms reg : Inv s -> shape s z ns' ms reg -> Inv (put s z ns' ms reg).
Proof.
  intros I Sh. destruct Sh.
  - now apply inv_same.
  - eapply inv_new_pending; eauto.
  - eapply inv_drop_pending; eauto.
  - (* remove: an empty step, then the removal *)
    subst ms. set (s1 := put s z (get s z) [] None).
    assert (I1 : Inv s1).
    { apply inv_same; auto using ready_same_refl.
      - intros t' Ht'. exists t'. split; [exact Ht'|apply tun_evolves_refl].
      - intros m []. }
    rewrite <- (set_put s z (get s z) ns' [] None). fold s1.
    assert (T1 : tuns s1 z = tuns s z) by (unfold tuns, s1; now rewrite get_put_same).
    apply (inv_drop s1 z ns' [t]); auto.
    + rewrite T1, H0. apply del_l_perm; auto. apply (i_nodup_l s I).
    + unfold gone, s1. rewrite get_put_same. simpl. exact H1.
    + unfold pend, s1. now rewrite get_put_same.
    + unfold done, s1. now rewrite get_put_same.
  - (* responder tunnel added, then the oldest retired *)
    set (ns1 := mkN (n_pend ns') (t :: tuns s z) (n_swaps ns') (n_gone (get s z)) (n_done ns')).
    set (e := (mk_id z (s_clk s), (hid, idx, iidx))).
    assert (I1 : Inv (put s z ns1 ms (Some e))) by (eapply inv_add_resp; eauto).
    rewrite <- (set_put s z ns1 ns' ms (Some e)).
    apply (inv_drop _ z ns' drop); auto.
    + unfold tuns. rewrite get_put_same. cbn [n_tuns ns1]. rewrite H5. fold (tuns s z). now rewrite H3.
    + unfold gone. rewrite get_put_same. exact H6.
    + unfold pend. now rewrite get_put_same.
    + unfold done. now rewrite get_put_same.
  - (* initiator tunnel added, then the oldest retired *)
    set (ns1 := mkN None (t :: tuns s z) (n_swaps ns') (n_gone (get s z)) (n_done ns')).
    assert (I1 : Inv (put s z ns1 ms None)) by (eapply inv_add_ini; eauto).
    rewrite <- (set_put s z ns1 ns' ms None).
    apply (inv_drop _ z ns' drop); auto.
    + unfold tuns. rewrite get_put_same. cbn [n_tuns ns1]. rewrite H8. fold (tuns s z). now rewrite H6.
    + unfold gone. rewrite get_put_same. exact H9.
    + unfold pend. now rewrite get_put_same.
    + unfold done. now rewrite get_put_same.
Qed.

Lemma inv_init : Inv init.
Proof.
  assert (T : forall x, tuns init x = []) by (now intros []).
  assert (G : forall x, gone init x = []) by (now intros []).
  assert (D : forall x, done init x = []) by (now intros []).
  assert (P : forall x, pend init x = None) by (now intros []).
  constructor; intros; rewrite ?T, ?G, ?D, ?P in *; simpl in *; try tauto; try discriminate; try constructor.
Qed.

Lemma inv_step c s e : Inv s -> Inv (fst (step c s e)).
Proof.
  intro I. destruct (step_shape c s e (i_nodup_l s I)) as (z & ns' & ms & reg & E & Sh).
  rewrite E. now apply inv_shape.
Qed.

Lemma inv_run c evs s : Inv s -> Inv (run c s evs).
Proof. revert s. induction evs as [|e r IH]; intros s I; [exact I|]. simpl. apply IH. now apply inv_step. Qed.

Lemma inv_reachable c s : reachable c s -> Inv s.
Proof. intros [evs ->]. apply inv_run. exact inv_init. Qed.

(* Version 2 (ASN.1 DER): decoding what was encoded; the decoder only returns certificates that obey the signing rules. *)
From Coq Require Import List NArith ZArith Lia Bool.
From Coq Require Import ZifyN ZifyNat ZifyBool.
Import ListNotations.
From NV Require Import lib.Bytes lib.Proto lib.Der model.CertCodec proofs.CertCodec_sort.
Open Scope N_scope.

(* "not longer than MaxCertificateSize" *)
Definition fits {A} (l : list A) : Prop := N.of_nat (length l) <= 65536.
Ltac flia := unfold fits, lenN, max_content, max_certificate_size, max_network_length, max_name_length in *; lia.

Lemma lenN_le_cap {A} (l : list A) : fits l -> lenN l <= max_content.
Proof. flia. Qed.

Lemma is_nil_false {A} (l : list A) : l <> [] -> is_nil l = false.
Proof. destruct l; [contradiction|reflexivity]. Qed.
Lemma is_nil_false_iff {A} (l : list A) : is_nil l = false <-> l <> [].
Proof. destruct l; split; intros; try reflexivity; try discriminate; congruence. Qed.
Lemma is_nil_true {A} (l : list A) : is_nil l = true -> l = [].
Proof. destruct l; [reflexivity|discriminate]. Qed.

Lemma is_nil_emit_app t c r : is_nil (emit_tlv t c ++ r) = false.
Proof. destruct (emit_tlv_head t c) as [x ->]. reflexivity. Qed.

(* ---- one element ---- *)

Lemma read_asn1_ok tag c rest : tag mod 32 <> 31 -> fits (c) ->
  read_asn1 tag (emit_tlv tag c ++ rest) = Some (c, rest).
Proof. intros. apply read_asn1_emit; [assumption|]. now apply lenN_le_cap. Qed.

Lemma read_asn1_ok0 tag c : tag mod 32 <> 31 -> fits (c) ->
  read_asn1 tag (emit_tlv tag c) = Some (c, []).
Proof. intros. rewrite <- (app_nil_r (emit_tlv tag c)). now apply read_asn1_ok. Qed.

Lemma peek_opt t t' b c Y :
  peek_tag t ((if b : bool then [] else emit_tlv t' c) ++ Y) = if b then peek_tag t Y else (t' =? t).
Proof. destruct b; [reflexivity|apply peek_tag_emit]. Qed.

Lemma peek_opt' t t' b c Y :
  peek_tag t ((if b : bool then emit_tlv t' c else []) ++ Y) = if b then (t' =? t) else peek_tag t Y.
Proof. destruct b; [apply peek_tag_emit|reflexivity]. Qed.

Lemma peek_opt_end t t' b c :
  peek_tag t (if b : bool then [] else emit_tlv t' c) = if b then false else (t' =? t).
Proof. destruct b; [reflexivity|]. rewrite <- (app_nil_r (emit_tlv t' c)). apply peek_tag_emit. Qed.

Ltac solve_peek :=
  repeat (rewrite peek_opt || rewrite peek_opt' || rewrite peek_tag_emit || rewrite peek_opt_end);
  repeat match goal with |- context [if ?b then _ else _] => destruct b end; reflexivity.

(* ---- networks and groups ---- *)

Lemma firstn_len_app {A} (l r : list A) : firstn (length l) (l ++ r) = l.
Proof. induction l as [|a l IH]; cbn; [destruct r; reflexivity|now rewrite IH]. Qed.

Lemma nth_len_app {A} (l : list A) x r d : nth (length l) (l ++ x :: r) d = x.
Proof. induction l as [|a l IH]; cbn; [reflexivity|exact IH]. Qed.

Lemma firstn_app_exact {A} n (l r : list A) : length l = n -> firstn n (l ++ r) = l.
Proof. intros <-. apply firstn_len_app. Qed.
Lemma nth_app_exact {A} n (l : list A) x r d : length l = n -> nth n (l ++ x :: r) d = x.
Proof. intros <-. apply nth_len_app. Qed.

Lemma pfx_bin_length p : length (pfx_bin p) = if p_is4 p then 5%nat else 17%nat.
Proof. unfold pfx_bin. rewrite app_length. destruct (p_is4 p); rewrite be_enc_length; reflexivity. Qed.

Lemma pfx_unbin_bin p : pfx_valid p = true -> pfx_unbin (pfx_bin p) = Some p.
Proof.
  intros Hv. unfold pfx_unbin. rewrite pfx_bin_length. unfold pfx_bin.
  destruct p as [[is4 a] bits]. unfold pfx_valid, p_is4, p_addr, p_bits in *. cbn [fst snd] in *.
  destruct is4.
  - change (5 =? 5)%nat with true. cbv iota.
    rewrite firstn_app_exact, nth_app_exact by apply be_enc_length.
    apply andb_prop in Hv as [Ha Hb]. rewrite be_dec_enc by (unfold two32 in Ha; cbn; lia).
    unfold pfx_valid, p_is4, p_addr, p_bits. cbn [fst snd]. rewrite Ha, Hb. reflexivity.
  - change (17 =? 5)%nat with false. change (17 =? 17)%nat with true. cbv iota.
    rewrite firstn_app_exact, nth_app_exact by apply be_enc_length.
    apply andb_prop in Hv as [Ha Hb]. rewrite be_dec_enc by (unfold two128 in Ha; cbn; lia).
    unfold pfx_valid, p_is4, p_addr, p_bits. cbn [fst snd]. rewrite Ha, Hb. reflexivity.
Qed.

Lemma octet_good : tag_octet_string mod 32 <> 31. Proof. discriminate. Qed.
Lemma utf8_good : tag_utf8string mod 32 <> 31. Proof. discriminate. Qed.
Lemma seq_good : tag_sequence mod 32 <> 31. Proof. discriminate. Qed.

Lemma read_net_enc p rest : pfx_valid p = true -> read_net (enc_net p ++ rest) = Some (p, rest).
Proof.
  intros Hv. unfold read_net, enc_net.
  assert (HL : (length (pfx_bin p) = 5 \/ length (pfx_bin p) = 17)%nat)
    by (rewrite pfx_bin_length; destruct (p_is4 p); auto).
  rewrite read_asn1_ok by (try exact octet_good; flia).
  replace (is_nil (pfx_bin p)) with false by (destruct (pfx_bin p); [cbn in HL; lia|reflexivity]).
  replace (max_network_length <? lenN (pfx_bin p)) with false
    by (symmetry; apply N.ltb_ge; unfold max_network_length, lenN; lia).
  cbn [orb]. now rewrite pfx_unbin_bin.
Qed.

Lemma read_group_enc g rest : g <> [] -> fits (g) -> read_group (enc_group g ++ rest) = Some (g, rest).
Proof.
  intros Hg HL. unfold read_group, enc_group. rewrite read_asn1_ok by (try exact utf8_good; assumption).
  now rewrite is_nil_false.
Qed.

Lemma read_net_progress s x rest : read_net s = Some (x, rest) -> (length rest < length s)%nat.
Proof.
  unfold read_net. destruct (read_asn1 tag_octet_string s) as [[v r]|] eqn:E; [|discriminate].
  destruct (is_nil v || _); [discriminate|]. destruct (pfx_unbin v); [|discriminate].
  intros H; inversion H; subst. apply read_asn1_shorter in E. lia.
Qed.

Lemma read_group_progress s x rest : read_group s = Some (x, rest) -> (length rest < length s)%nat.
Proof.
  unfold read_group. destruct (read_asn1 tag_utf8string s) as [[v r]|] eqn:E; [|discriminate].
  destruct (is_nil v); [discriminate|].
  intros H; inversion H; subst. apply read_asn1_shorter in E. lia.
Qed.

Lemma read_all_flat_map {A} (item : list N -> option (A * list N)) (enc : A -> list N) (xs : list A) :
  (forall s x rest, item s = Some (x, rest) -> (length rest < length s)%nat) ->
  (forall x rest, In x xs -> item (enc x ++ rest) = Some (x, rest)) ->
  (forall x, In x xs -> enc x <> []) ->
  read_all item (flat_map enc xs) = Some xs.
Proof.
  intros Hp. induction xs as [|x xs IH]; intros Hi Hn; [reflexivity|].
  cbn [flat_map]. rewrite (read_all_step item Hp).
  - rewrite Hi by (left; reflexivity). rewrite IH; [reflexivity| |].
    + intros y rest Hy. apply Hi. now right.
    + intros y Hy. apply Hn. now right.
  - specialize (Hn x (or_introl eq_refl)). destruct (enc x); [contradiction|discriminate].
Qed.

Lemma flat_map_elem_len {A} (enc : A -> list N) xs x : In x xs -> (length (enc x) <= length (flat_map enc xs))%nat.
Proof.
  induction xs as [|y xs IH]; [contradiction|]. cbn [flat_map]. rewrite app_length.
  intros [->|H]; [lia|]. specialize (IH H). lia.
Qed.

(* an optional list: the element is present exactly when the list is not empty *)
Lemma read_opt_list_enc {A} tag (item : list N -> option (A * list N)) (enc : A -> list N) xs Y :
  tag mod 32 <> 31 -> fits ((flat_map enc xs)) ->
  (forall s x rest, item s = Some (x, rest) -> (length rest < length s)%nat) ->
  (forall x rest, In x xs -> item (enc x ++ rest) = Some (x, rest)) ->
  (forall x, In x xs -> enc x <> []) ->
  (is_nil xs = true -> peek_tag tag Y = false) ->
  read_opt_list tag item ((if is_nil xs then [] else emit_tlv tag (flat_map enc xs)) ++ Y) = Some (xs, Y).
Proof.
  intros Ht HL Hp Hi Hn Hpk. unfold read_opt_list. destruct xs as [|x xs].
  - cbn [is_nil app]. rewrite read_optional_absent by (apply Hpk; reflexivity). reflexivity.
  - cbn [is_nil]. rewrite read_optional_present by (try assumption; now apply lenN_le_cap).
    now rewrite read_all_flat_map.
Qed.

Lemma opt_list_len {A} tag (enc : A -> list N) xs :
  (length (flat_map enc xs) <= length (if is_nil xs then [] else emit_tlv tag (flat_map enc xs)))%nat.
Proof.
  destruct xs; [cbn; lia|]. cbn [is_nil]. pose proof (emit_tlv_length tag (flat_map enc (a :: xs))). lia.
Qed.

Lemma opt_bytes_len tag (v : list N) : (length v <= length (if is_nil v then [] else emit_tlv tag v))%nat.
Proof. destruct v; [cbn; lia|]. cbn [is_nil]. pose proof (emit_tlv_length tag (n :: v)). lia. Qed.

(* ---- scalars ---- *)

Lemma read_opt_bool_enc tag (b : bool) Y : tag mod 32 <> 31 -> peek_tag tag Y = false ->
  read_opt_bool tag ((if b then emit_tlv tag [255] else []) ++ Y) = Some (b, Y).
Proof.
  intros Ht Hpk. unfold read_opt_bool. destruct b.
  - rewrite read_optional_present by (try assumption; cbn; unfold max_content; lia). reflexivity.
  - cbn [app]. now rewrite read_optional_absent.
Qed.

Lemma read_int64_enc tag v Y : tag mod 32 <> 31 -> int64_ok v = true ->
  read_int64 tag (emit_tlv tag (int64_enc v) ++ Y) = Some (v, Y).
Proof.
  intros Ht Hv. unfold read_int64. pose proof (int64_enc_length v).
  rewrite read_asn1_ok by (try assumption; flia). now rewrite int64_dec_enc.
Qed.

(* ---- details ---- *)

Definition details_only (c : cert) : cert :=
  mkCert (c_name c) (c_nets c) (c_unsafe c) (c_groups c) (c_isca c) (c_nb c) (c_na c) (c_issuer c) 0 [] [].

Definition details_wf (c : cert) : Prop :=
  c_name c <> [] /\ lenN (c_name c) <= max_name_length /\
  forallb pfx_valid (c_nets c) = true /\ forallb pfx_valid (c_unsafe c) = true /\
  (forall g, In g (c_groups c) -> g <> []) /\ int64_ok (c_nb c) = true /\ int64_ok (c_na c) = true.

Lemma details_body_bounds c :
  let L := length (details_body c) in
  (length (c_name c) <= L /\ length (flat_map enc_net (c_nets c)) <= L /\ length (flat_map enc_net (c_unsafe c)) <= L /\
   length (flat_map enc_group (c_groups c)) <= L /\ length (c_issuer c) <= L)%nat.
Proof.
  unfold details_body. cbv zeta. rewrite !app_length.
  pose proof (emit_tlv_length t_name (c_name c)).
  pose proof (opt_list_len t_networks enc_net (c_nets c)).
  pose proof (opt_list_len t_unsafe enc_net (c_unsafe c)).
  pose proof (opt_list_len t_groups enc_group (c_groups c)).
  pose proof (opt_bytes_len t_issuer (c_issuer c)).
  lia.
Qed.

Lemma t_good :
  t_details mod 32 <> 31 /\ t_curve mod 32 <> 31 /\ t_pubkey mod 32 <> 31 /\ t_signature mod 32 <> 31 /\
  t_name mod 32 <> 31 /\ t_networks mod 32 <> 31 /\ t_unsafe mod 32 <> 31 /\ t_groups mod 32 <> 31 /\
  t_isca mod 32 <> 31 /\ t_notbefore mod 32 <> 31 /\ t_notafter mod 32 <> 31 /\ t_issuer mod 32 <> 31.
Proof. repeat split; discriminate. Qed.

Lemma fits_details_body c : fits (encode_details c) -> fits (details_body c).
Proof. unfold encode_details. pose proof (emit_tlv_length t_details (details_body c)). unfold fits in *. lia. Qed.

Theorem unmarshal_details_encode c : details_wf c -> fits ((encode_details c)) ->
  unmarshal_details (encode_details c) = Some (details_only c).
Proof.
  intros (Hn & Hnl & Hnets & Huns & Hgrp & Hnb & Hna) HL.
  destruct t_good as (Gd & Gc & Gp & Gs & Gn & Gnet & Gu & Gg & Gca & Gnb & Gna & Gi).
  assert (HB : fits (details_body c)) by (apply fits_details_body; exact HL).
  destruct (details_body_bounds c) as (B1 & B2 & B3 & B4 & B5).
  assert (F1 : fits (c_name c)) by (clear - B1 HB; unfold fits in *; lia).
  assert (F2 : fits (flat_map enc_net (c_nets c))) by (clear - B2 HB; unfold fits in *; lia).
  assert (F3 : fits (flat_map enc_net (c_unsafe c))) by (clear - B3 HB; unfold fits in *; lia).
  assert (F4 : fits (flat_map enc_group (c_groups c))) by (clear - B4 HB; unfold fits in *; lia).
  assert (F5 : fits (c_issuer c)) by (clear - B5 HB; unfold fits in *; lia).
  clear B1 B2 B3 B4 B5.
  unfold encode_details in *. unfold unmarshal_details. rewrite read_asn1_ok0 by assumption.
  unfold details_body. rewrite is_nil_emit_app.
  rewrite read_asn1_ok by assumption.
  rewrite (is_nil_false _ Hn). replace (max_name_length <? lenN (c_name c)) with false by (symmetry; apply N.ltb_ge; exact Hnl).
  cbn [orb].
  (* networks *)
  rewrite (read_opt_list_enc t_networks read_net enc_net);
    [|assumption|assumption|exact read_net_progress
     |intros p rest Hp; apply read_net_enc; rewrite forallb_forall in Hnets; now apply Hnets
     |intros p _; apply emit_tlv_nonempty
     |intros _; solve_peek].
  (* unsafe networks *)
  rewrite (read_opt_list_enc t_unsafe read_net enc_net);
    [|assumption|assumption|exact read_net_progress
     |intros p rest Hp; apply read_net_enc; rewrite forallb_forall in Huns; now apply Huns
     |intros p _; apply emit_tlv_nonempty
     |intros _; solve_peek].
  (* groups *)
  rewrite (read_opt_list_enc t_groups read_group enc_group);
    [|assumption|assumption|exact read_group_progress
     |intros g rest Hg; apply read_group_enc; [now apply Hgrp|];
      pose proof (flat_map_elem_len enc_group _ _ Hg) as X; unfold enc_group in X at 1;
      pose proof (emit_tlv_length tag_utf8string g) as X2; clear - X X2 F4; unfold fits in *; lia
     |intros g _; apply emit_tlv_nonempty
     |intros _; solve_peek].
  rewrite read_opt_bool_enc by (try assumption; solve_peek).
  rewrite read_int64_enc by assumption.
  rewrite read_int64_enc by assumption.
  unfold details_only. destruct (c_issuer c) as [|i0 iss] eqn:Ei.
  - cbn [is_nil]. reflexivity.
  - cbn [is_nil]. rewrite <- (app_nil_r (emit_tlv t_issuer (i0 :: iss))).
    rewrite read_optional_present by (try assumption; apply lenN_le_cap; flia). reflexivity.
Qed.

(* ---- the certificate ---- *)

Lemma check_v2_details_wf c : check_v2 c = true -> int64_ok (c_nb c) = true -> int64_ok (c_na c) = true -> details_wf c.
Proof.
  unfold check_v2. intros H Hnb Hna. repeat (apply andb_prop in H as [H ?]).
  repeat match goal with X : negb _ = true |- _ => apply negb_true_iff in X end.
  unfold details_wf. repeat split; try assumption.
  - now apply is_nil_false_iff.
  - now apply N.leb_le.
  - match goal with X : forallb net_ok_v2 _ = true |- _ => rename X into F end.
    rewrite forallb_forall in *. intros p Hp. specialize (F p Hp). unfold net_ok_v2 in F.
    apply andb_prop in F as [F _]. now apply andb_prop in F as [F _].
  - match goal with X : forallb (unsafe_ok_v2 _ _ _) _ = true |- _ => rename X into F end.
    rewrite forallb_forall in *. intros p Hp. specialize (F p Hp). unfold unsafe_ok_v2 in F.
    now apply andb_prop in F as [F _].
  - match goal with X : forallb (fun g => negb (is_nil g)) _ = true |- _ => rename X into F end.
    rewrite forallb_forall in F. intros g Hg. specialize (F g Hg). apply negb_true_iff in F. now apply is_nil_false_iff.
Qed.

Lemma read_element_details c Y : fits (details_body c) ->
  read_element t_details (encode_details c ++ Y) = Some (encode_details c, Y).
Proof. intros H. unfold encode_details. apply read_element_emit; [discriminate|now apply lenN_le_cap]. Qed.

Lemma is_nil_details c Y : is_nil (encode_details c ++ Y) = false.
Proof. apply is_nil_emit_app. Qed.

Definition issued_v2 (c : cert) : Prop :=
  valid_v2 c = true /\ c_sig c <> [] /\ c_curve c < 256 /\ int64_ok (c_nb c) = true /\ int64_ok (c_na c) = true.

Lemma rebuild_eq c cv pub sg : cv = c_curve c -> pub = c_pub c -> sg = c_sig c ->
  mkCert (c_name (details_only c)) (c_nets (details_only c)) (c_unsafe (details_only c)) (c_groups (details_only c))
         (c_isca (details_only c)) (c_nb (details_only c)) (c_na (details_only c)) (c_issuer (details_only c)) cv pub sg = c.
Proof. intros -> -> ->. destruct c; reflexivity. Qed.

(* the standard encoding: Marshal -> unmarshalCertificateV2(b, nil, dcurve) *)
Theorem decode_encode_v2 c dcurve : issued_v2 c -> fits ((encode_v2 (seal_v2 c))) ->
  (c_curve c = 0 -> dcurve mod 256 = 0) ->
  decode_v2 [] dcurve (encode_v2 (seal_v2 c)) = Some (seal_v2 c).
Proof.
  intros (Hv & Hsig & Hcv & Hnb & Hna) HL Hd.
  destruct t_good as (Gd & Gc & Gp & Gs & _).
  pose proof (valid_v2_check _ Hv) as Hchk.
  pose proof (check_v2_details_wf _ Hchk Hnb Hna) as Hwf.
  assert (Hpub : c_pub c <> []).
  { unfold check_v2 in Hchk. repeat (apply andb_prop in Hchk as [Hchk ?]).
    match goal with X : negb (is_nil (c_pub c)) = true |- _ => apply negb_true_iff in X; now apply is_nil_false_iff end. }
  unfold encode_v2, seal_v2 in *. cbn [c2 c2_raw] in *.
  set (raw := encode_details c) in *.
  set (inner := raw ++ _) in *.
  pose proof (emit_tlv_length tag_sequence inner) as Li.
  assert (Hinner : fits (inner)) by flia.
  assert (Hparts : fits raw /\ fits (c_pub c) /\ fits (c_sig c)).
  { unfold inner, fits in *. rewrite !app_length in Hinner.
    pose proof (opt_bytes_len t_pubkey (c_pub c)). pose proof (emit_tlv_length t_signature (c_sig c)). flia. }
  destruct Hparts as (Lraw & Lpub & Lsig).
  unfold decode_v2.
  replace (is_nil (emit_tlv tag_sequence inner)) with false
    by (symmetry; rewrite <- (app_nil_r (emit_tlv _ _)); apply is_nil_emit_app).
  replace (max_certificate_size <? lenN (emit_tlv tag_sequence inner)) with false
    by (symmetry; apply N.ltb_ge; flia).
  cbn [orb]. rewrite read_asn1_ok0 by (try exact seq_good; assumption).
  unfold inner at 1 2. unfold raw at 1 2. rewrite is_nil_details.
  pose proof (fits_details_body c Lraw) as Lbody.
  rewrite read_element_details by assumption. fold raw.
  (* curve *)
  unfold read_opt_byte.
  destruct (c_curve c =? 0) eqn:Ec.
  - apply N.eqb_eq in Ec. cbn [app]. rewrite read_optional_absent by solve_peek.
    rewrite (is_nil_false _ Hpub).
    cbn [is_nil]. rewrite read_optional_present by (try assumption; now apply lenN_le_cap).
    rewrite (is_nil_false _ Hpub). rewrite read_asn1_ok0 by assumption. rewrite (is_nil_false _ Hsig).
    unfold raw. rewrite unmarshal_details_encode by assumption.
    rewrite rebuild_eq by (try reflexivity; rewrite Hd by assumption; now symmetry).
    now rewrite valid_v2_validate.
  - apply N.eqb_neq in Ec. rewrite read_optional_present by (try assumption; cbn; unfold max_content; flia).
    rewrite (is_nil_false _ Hpub).
    cbn [is_nil]. rewrite read_optional_present by (try assumption; now apply lenN_le_cap).
    rewrite (is_nil_false _ Hpub). rewrite read_asn1_ok0 by assumption. rewrite (is_nil_false _ Hsig).
    unfold raw. rewrite unmarshal_details_encode by assumption.
    rewrite rebuild_eq by (try reflexivity; apply N.mod_small; assumption).
    now rewrite valid_v2_validate.
Qed.

(* the handshake encoding: MarshalForHandshakes -> unmarshalCertificateV2(b, publicKey, curve) *)
Theorem decode_encode_hs_v2 c : issued_v2 c -> fits ((encode_hs_v2 (seal_v2 c))) ->
  decode_v2 (c_pub c) (c_curve c) (encode_hs_v2 (seal_v2 c)) = Some (seal_v2 c).
Proof.
  intros (Hv & Hsig & Hcv & Hnb & Hna) HL.
  destruct t_good as (Gd & Gc & Gp & Gs & _).
  pose proof (valid_v2_check _ Hv) as Hchk.
  pose proof (check_v2_details_wf _ Hchk Hnb Hna) as Hwf.
  assert (Hpub : c_pub c <> []).
  { unfold check_v2 in Hchk. repeat (apply andb_prop in Hchk as [Hchk ?]).
    match goal with X : negb (is_nil (c_pub c)) = true |- _ => apply negb_true_iff in X; now apply is_nil_false_iff end. }
  unfold encode_hs_v2, seal_v2 in *. cbn [c2 c2_raw] in *.
  set (raw := encode_details c) in *.
  set (inner := raw ++ _) in *.
  pose proof (emit_tlv_length tag_sequence inner) as Li.
  assert (Hinner : fits (inner)) by flia.
  assert (Hparts : fits raw /\ fits (c_sig c)).
  { unfold inner, fits in *. rewrite !app_length in Hinner.
    pose proof (emit_tlv_length t_signature (c_sig c)). flia. }
  destruct Hparts as (Lraw & Lsig).
  unfold decode_v2.
  replace (is_nil (emit_tlv tag_sequence inner)) with false
    by (symmetry; rewrite <- (app_nil_r (emit_tlv _ _)); apply is_nil_emit_app).
  replace (max_certificate_size <? lenN (emit_tlv tag_sequence inner)) with false
    by (symmetry; apply N.ltb_ge; flia).
  cbn [orb]. rewrite read_asn1_ok0 by (try exact seq_good; assumption).
  unfold inner at 1 2. unfold raw at 1 2. rewrite is_nil_details.
  pose proof (fits_details_body c Lraw) as Lbody.
  rewrite read_element_details by assumption. fold raw.
  unfold read_opt_byte. rewrite <- (app_nil_r (emit_tlv t_signature (c_sig c))).
  rewrite read_optional_absent by solve_peek.
  rewrite (is_nil_false _ Hpub). rewrite peek_tag_emit. change (t_signature =? t_pubkey) with false. cbv iota.
  rewrite (is_nil_false _ Hpub). rewrite read_asn1_ok by assumption. rewrite (is_nil_false _ Hsig).
  unfold raw. rewrite unmarshal_details_encode by assumption.
  rewrite rebuild_eq by (try reflexivity; apply N.mod_small; assumption).
  now rewrite valid_v2_validate.
Qed.

(* every certificate the v2 decoder returns obeys the rules validate() enforces on signing, its signature and key
   are not empty, and its fields are: what unmarshalDetails reads from the kept details bytes, the curve, the key and
   the signature, run through validate() *)
Theorem decode_v2_sound pk dcurve b c : decode_v2 pk dcurve b = Some c ->
  valid_v2 (c2 c) = true /\ c_sig (c2 c) <> [] /\ c_pub (c2 c) <> [] /\
  exists d, unmarshal_details (c2_raw c) = Some d /\
    validate_v2 (mkCert (c_name d) (c_nets d) (c_unsafe d) (c_groups d) (c_isca d) (c_nb d) (c_na d) (c_issuer d)
                        (c_curve (c2 c)) (c_pub (c2 c)) (c_sig (c2 c))) = Some (c2 c).
Proof.
  unfold decode_v2. destruct (is_nil b || _); [discriminate|].
  destruct (read_asn1 tag_sequence b) as [[inp r0]|]; [|discriminate].
  destruct (is_nil inp); [discriminate|].
  destruct (read_element t_details inp) as [[raw inp1]|]; [|discriminate].
  destruct (read_opt_byte t_curve (dcurve mod 256) inp1) as [[curve inp2]|]; [|discriminate].
  match goal with |- context [match ?e with Some _ => _ | None => None end = Some c -> _] => destruct e as [[pub inp3]|] end; [|discriminate].
  destruct (is_nil pub) eqn:Ep; [discriminate|].
  destruct (read_asn1 t_signature inp3) as [[sig r1]|]; [|discriminate].
  destruct (is_nil sig) eqn:Es; [discriminate|].
  destruct (unmarshal_details raw) as [d|] eqn:Ed; [|discriminate].
  destruct (validate_v2 _) as [c'|] eqn:Ev; [|discriminate].
  intros H; inversion H; subst; clear H. cbn [c2 c2_raw].
  pose proof (validate_v2_valid _ _ Ev) as Hvalid.
  assert (Hf : c_sig c' = sig /\ c_pub c' = pub /\ c_curve c' = curve).
  { unfold validate_v2 in Ev. destruct (check_v2 _); [|discriminate]. inversion Ev; subst. now cbn. }
  destruct Hf as (-> & -> & ->).
  split; [exact Hvalid|]. split; [now apply is_nil_false_iff|]. split; [now apply is_nil_false_iff|].
  exists d. split; [exact Ed|exact Ev].
Qed.

(* the handshake form is never longer than the standard form *)
Lemma len_enc_mono a b : a <= b -> (length (len_enc a) <= length (len_enc b))%nat.
Proof.
  intros H. unfold len_enc.
  repeat match goal with |- context [?x <? ?y] => destruct (N.ltb_spec x y) end; cbn [length be_enc]; lia.
Qed.

Lemma emit_tlv_mono t a b : (length a <= length b)%nat -> (length (emit_tlv t a) <= length (emit_tlv t b))%nat.
Proof.
  intros H. unfold emit_tlv, hdr_enc. rewrite !app_length. cbn [length].
  pose proof (len_enc_mono (N.of_nat (length a)) (N.of_nat (length b))). lia.
Qed.

Lemma encode_hs_v2_shorter c : (length (encode_hs_v2 c) <= length (encode_v2 c))%nat.
Proof. unfold encode_hs_v2, encode_v2. apply emit_tlv_mono. rewrite !app_length. lia. Qed.

(* The Hosts/moreHosts pair of model/HostMap.v seen as one list per address ([get_list]): every primitive
   of the main hostmap is characterised by its effect on [get_list], on the Hosts/moreHosts contract
   ([Sync]) and on the other fields.  Imported by the invariant proofs (and usable by other components). *)
From Coq Require Import List NArith Bool Lia.
Import ListNotations.
From NV Require Import gen.Consts_HostMap model.HostMap proofs.HostMap_maps.
Open Scope N_scope.

(* moreHosts only has an entry for two or more hostinfos, and its head is the primary in Hosts *)
Definition Sync (s : state) : Prop :=
  forall a l, mget a (more s) = Some l -> exists p q r, l = p :: q :: r /\ mget a (hosts s) = Some p.

(* s' differs from s in Hosts/moreHosts only *)
Definition same_rest (s s' : state) : Prop :=
  infos s' = infos s /\ idx s' = idx s /\ ridx s' = ridx s /\ rel s' = rel s /\
  pvpn s' = pvpn s /\ pidx s' = pidx s /\ gst s' = gst s.

Lemma same_rest_refl s : same_rest s s.
Proof. repeat split. Qed.

Lemma same_rest_trans s1 s2 s3 : same_rest s1 s2 -> same_rest s2 s3 -> same_rest s1 s3.
Proof. unfold same_rest. intuition congruence. Qed.

Ltac split3 := refine (conj _ (conj _ _)).
Ltac split4 := refine (conj _ (conj _ (conj _ _))).

Definition is_nil (l : list N) : bool := match l with [] => true | _ :: _ => false end.

Lemma max_ge1 : 1 <= MaxHostInfosPerVpnIp.
Proof. vm_compute. discriminate. Qed.

(* ---------- Sync consequences ----------------------------------------------------------------- *)

Lemma sync_hosts_head s a p : Sync s -> mget a (hosts s) = Some p -> exists r, get_list s a = p :: r.
Proof.
  intros SY H. unfold get_list. destruct (mget a (more s)) as [l|] eqn:E.
  - destruct (SY _ _ E) as (p' & q & r & -> & H'). rewrite H in H'. inversion H'; subst. eauto.
  - rewrite H. eauto.
Qed.

Lemma sync_hosts_none s a : Sync s -> mget a (hosts s) = None -> get_list s a = [].
Proof.
  intros SY H. unfold get_list. destruct (mget a (more s)) as [l|] eqn:E.
  - destruct (SY _ _ E) as (p' & q & r & _ & H'). congruence.
  - now rewrite H.
Qed.

Lemma sync_list_head s a p r : Sync s -> get_list s a = p :: r -> mget a (hosts s) = Some p.
Proof.
  intros SY. unfold get_list. destruct (mget a (more s)) as [l|] eqn:E.
  - destruct (SY _ _ E) as (p' & q & r' & -> & H'). intros X. inversion X; subst. assumption.
  - destruct (mget a (hosts s)); [|discriminate]. intros X. inversion X; subst. reflexivity.
Qed.

Lemma more_in_list s a l : mget a (more s) = Some l -> get_list s a = l.
Proof. intros H. unfold get_list. now rewrite H. Qed.

(* ---------- unlockedSetHostsForAddr ----------------------------------------------------------- *)

Lemma get_list_shfa a l s b : get_list (set_hosts_for_addr a l s) b = if b =? a then l else get_list s b.
Proof.
  unfold get_list, set_hosts_for_addr. destruct l as [|p [|q r]]; simpl;
    rewrite ?mget_mdel, ?mget_mset; neq b a; reflexivity.
Qed.

Lemma same_rest_shfa a l s : same_rest s (set_hosts_for_addr a l s).
Proof. unfold set_hosts_for_addr. destruct l as [|p [|q r]]; repeat split. Qed.

Lemma sync_shfa a l s : Sync s -> Sync (set_hosts_for_addr a l s).
Proof.
  intros SY b m. unfold set_hosts_for_addr. destruct l as [|p [|q r]]; simpl;
    rewrite ?mget_mdel, ?mget_mset; neq b a; try discriminate; try apply SY.
  intros E. inversion E; subst. eauto.
Qed.

(* ---------- one address of unlockedDeleteHostInfo ---------------------------------------------- *)

Lemma del_addr_spec h a s f s' f' :
  del_addr h a (s, f) = (s', f') ->
  (forall b, get_list s' b = if b =? a then remove_first h (get_list s a) else get_list s b) /\
  f' = (f && is_nil (remove_first h (get_list s a))) /\ same_rest s s' /\ (Sync s -> Sync s').
Proof.
  unfold del_addr. destruct (mget a (more s)) as [l|] eqn:EM.
  - intros X. inversion X; subst; clear X. rewrite (more_in_list _ _ _ EM). split4.
    + intros b. apply get_list_shfa.
    + destruct (remove_first h l); simpl; [now rewrite andb_true_r|now rewrite andb_false_r].
    + apply same_rest_shfa.
    + apply sync_shfa.
  - destruct (mget a (hosts s)) as [e|] eqn:EH.
    + assert (GL : get_list s a = [e]) by (unfold get_list; now rewrite EM, EH).
      rewrite GL. simpl. destruct (N.eqb_spec e h) as [->|NE].
      * rewrite N.eqb_refl. intros X. inversion X; subst; clear X. split4.
        -- intros b. unfold get_list at 1. simpl. rewrite mget_mdel. neq b a.
           ++ now rewrite EM.
           ++ reflexivity.
        -- simpl. now rewrite andb_true_r.
        -- repeat split.
        -- intros SY b m. simpl. rewrite mget_mdel. intros E. neq b a; [congruence|]. now apply SY.
      * destruct (N.eqb_spec h e); [congruence|]. intros X. inversion X; subst; clear X. split4.
        -- intros b. neq b a; [assumption|reflexivity].
        -- simpl. now rewrite andb_false_r.
        -- apply same_rest_refl.
        -- auto.
    + assert (GL : get_list s a = []) by (unfold get_list; now rewrite EM, EH).
      rewrite GL. simpl. intros X. inversion X; subst; clear X. split4.
      * intros b. neq b a; [assumption|reflexivity].
      * now rewrite andb_true_r.
      * apply same_rest_refl.
      * auto.
Qed.

(* the whole address loop, for duplicate-free lists *)
Lemma del_addrs_spec h addrs : forall s f s' f',
  (forall b, NoDup (get_list s b)) ->
  del_addrs h addrs (s, f) = (s', f') ->
  (forall b, get_list s' b = if mem b addrs then remove_first h (get_list s b) else get_list s b) /\
  f' = (f && forallb (fun a => is_nil (remove_first h (get_list s a))) addrs) /\
  same_rest s s' /\ (Sync s -> Sync s').
Proof.
  induction addrs as [|a r IH]; intros s f s' f' ND; cbn [del_addrs forallb].
  - intros X. inversion X; subst. split4; auto using same_rest_refl. now rewrite andb_true_r.
  - destruct (del_addr h a (s, f)) as [s1 f1] eqn:E1. apply del_addr_spec in E1 as (L1 & F1 & R1 & S1).
    intros E2. apply IH in E2 as (L2 & F2 & R2 & S2).
    + split4.
      * intros b. rewrite L2, (L1 b). unfold mem in *. simpl.
        destruct (N.eqb_spec b a) as [->|NE]; simpl.
        -- rewrite rf_idem by apply ND. destruct (existsb (N.eqb a) r); reflexivity.
        -- reflexivity.
      * rewrite F2, F1. rewrite <- andb_assoc. f_equal. f_equal.
        apply forallb_ext'. intros a'. rewrite (L1 a'). neq a' a; [|reflexivity].
        now rewrite rf_idem by apply ND.
      * eapply same_rest_trans; eauto.
      * auto.
    + intros b. rewrite (L1 b). neq b a; [apply rf_NoDup|]; apply ND.
Qed.

(* ---------- unlockedDeleteHostInfo -------------------------------------------------------------- *)

Lemma delete_hi_spec h s hi s' f :
  mget h (infos s) = Some hi ->
  (forall b, NoDup (get_list s b)) ->
  delete_hi h s = (s', f) ->
  (forall b, get_list s' b = if mem b (hi_addrs hi) then remove_first h (get_list s b) else get_list s b) /\
  f = forallb (fun a => is_nil (remove_first h (get_list s a))) (hi_addrs hi) /\
  (Sync s -> Sync s') /\
  infos s' = infos s /\ pvpn s' = pvpn s /\ pidx s' = pidx s /\
  idx s' = (if is_some_id (mget (hi_local hi) (idx s)) h then mdel (hi_local hi) (idx s) else idx s) /\
  ridx s' = (if is_some_id (mget (hi_remote hi) (ridx s)) h then mdel (hi_remote hi) (ridx s) else ridx s) /\
  rel s' = del_rels h (hi_relays hi) (rel s) /\
  gst s' = gst (gmove h Main Dead s).
Proof.
  intros HI ND. unfold delete_hi. rewrite HI.
  destruct (del_addrs h (hi_addrs hi) (s, true)) as [s1 f1] eqn:E1.
  apply del_addrs_spec in E1 as (L1 & F1 & (RI & RX & RR & RL & RP & RQ & RG) & S1); [|assumption].
  intros X. inversion X; subst; clear X.
  assert (FG : forall t, infos (gmove h Main Dead t) = infos t /\ pvpn (gmove h Main Dead t) = pvpn t /\
                         pidx (gmove h Main Dead t) = pidx t /\ idx (gmove h Main Dead t) = idx t /\
                         ridx (gmove h Main Dead t) = ridx t /\ rel (gmove h Main Dead t) = rel t /\
                         hosts (gmove h Main Dead t) = hosts t /\ more (gmove h Main Dead t) = more t).
  { intros t. unfold gmove. destruct (mget h (gst t)) as [g|]; [destruct (hst_eqb g Main)|]; repeat split. }
  assert (DR : forall u, hosts (del_ridx h hi u) = hosts u /\
                         more (del_ridx h hi u) = more u /\ infos (del_ridx h hi u) = infos u /\
                         pvpn (del_ridx h hi u) = pvpn u /\ pidx (del_ridx h hi u) = pidx u /\
                         idx (del_ridx h hi u) = idx u /\ rel (del_ridx h hi u) = rel u /\
                         gst (del_ridx h hi u) = gst u).
  { intros u. unfold del_ridx. destruct (is_some_id _ _); repeat split. }
  assert (DI : forall u, hosts (del_idx h hi u) = hosts u /\
                         more (del_idx h hi u) = more u /\ infos (del_idx h hi u) = infos u /\
                         pvpn (del_idx h hi u) = pvpn u /\ pidx (del_idx h hi u) = pidx u /\
                         ridx (del_idx h hi u) = ridx u /\ rel (del_idx h hi u) = rel u /\
                         gst (del_idx h hi u) = gst u).
  { intros u. unfold del_idx. destruct (is_some_id _ _); repeat split. }
  set (s2 := del_ridx h hi s1). set (s3 := del_idx h hi s2).
  set (t := set_rel s3 _).
  destruct (FG t) as (G1 & G2 & G3 & G4 & G5 & G6 & G7 & G8).
  destruct (DR s1) as (D2 & D3 & D4 & D5 & D6 & D7 & D8 & D9).
  destruct (DI s2) as (I2 & I3 & I4 & I5 & I6 & I7 & I8 & I9).
  fold s2 in D2, D3, D4, D5, D6, D7, D8, D9. fold s3 in I2, I3, I4, I5, I6, I7, I8, I9.
  assert (HT : hosts t = hosts s1) by (unfold t; simpl; congruence).
  assert (MT : more t = more s1) by (unfold t; simpl; congruence).
  refine (conj _ (conj _ (conj _ (conj _ (conj _ (conj _ (conj _ (conj _ (conj _ _))))))))).
  - intros b. rewrite <- L1. unfold get_list. now rewrite G8, G7, HT, MT.
  - reflexivity.
  - intros SY a l. rewrite G8, G7, HT, MT. now apply S1.
  - rewrite G1. unfold t. simpl. congruence.
  - rewrite G2. unfold t. simpl. congruence.
  - rewrite G3. unfold t. simpl. congruence.
  - rewrite G4. unfold t. simpl. unfold s3, del_idx. rewrite D7, RX. destruct (is_some_id _ _); simpl; congruence.
  - rewrite G5. unfold t. simpl. rewrite I7. unfold s2, del_ridx. rewrite RR. destruct (is_some_id _ _); simpl; congruence.
  - rewrite G6. unfold t. simpl. congruence.
  - assert (GT : gst t = gst s) by (unfold t; simpl; congruence).
    unfold gmove. rewrite GT.
    destruct (mget h (gst s)) as [g|]; [destruct (hst_eqb g Main)|]; try assumption.
    unfold gset, set_gst; cbn [gst]. now rewrite GT.
Qed.

(* ---------- unlockedInnerAddHostInfo ------------------------------------------------------------ *)

Lemma inner_add_spec h a s :
  Sync s ->
  let l := h :: remove_first h (get_list s a) in
  exists s1,
    (forall b, get_list s1 b = if b =? a then l else get_list s b) /\ same_rest s s1 /\ Sync s1 /\
    inner_add h a s =
      (if MaxHostInfosPerVpnIp <? N.of_nat (length l)
       then match last_opt l with Some o => fst (delete_hi o s1) | None => s1 end
       else s1).
Proof.
  intros SY l. unfold inner_add. destruct (mget a (hosts s)) as [e|] eqn:EH.
  - exists (set_hosts_for_addr a l s).
    assert (E : match mget a (more s) with Some l0 => l0 | None => [e] end = get_list s a).
    { unfold get_list. rewrite EH. reflexivity. }
    rewrite E. fold l. split4; try apply same_rest_shfa; try reflexivity.
    + intros b. apply get_list_shfa.
    + now apply sync_shfa.
  - exists (set_hosts s (mset a h (hosts s))).
    assert (GL : get_list s a = []) by now apply sync_hosts_none.
    assert (EM : mget a (more s) = None).
    { destruct (mget a (more s)) as [m|] eqn:E; [|reflexivity].
      destruct (SY _ _ E) as (? & ? & ? & _ & X). congruence. }
    unfold l. rewrite GL. simpl. split4; [| repeat split | |].
    + intros b. unfold get_list at 1. simpl. rewrite mget_mset. neq b a.
      * now rewrite EM.
      * reflexivity.
    + intros b m. simpl. rewrite mget_mset. intros E. neq b a; [congruence|]. now apply SY.
    + pose proof max_ge1. destruct (N.ltb_spec MaxHostInfosPerVpnIp 1); [lia|reflexivity].
Qed.

(* ---------- unlockedMakePrimary ----------------------------------------------------------------- *)

Lemma promote_addr_spec h a s :
  Sync s ->
  (forall b, get_list (promote_addr h a s) b = if b =? a then h :: remove_first h (get_list s a) else get_list s b) /\
  same_rest s (promote_addr h a s) /\ Sync (promote_addr h a s).
Proof.
  intros SY. unfold promote_addr. destruct (is_some_id (mget a (hosts s)) h) eqn:E.
  - apply is_some_id_true in E. destruct (sync_hosts_head _ _ _ SY E) as [r GL]. split3; auto using same_rest_refl.
    intros b. neq b a; [|reflexivity]. rewrite GL. simpl. now rewrite N.eqb_refl.
  - split3.
    + intros b. apply get_list_shfa.
    + apply same_rest_shfa.
    + now apply sync_shfa.
Qed.

Lemma promote_addrs_spec h addrs : forall s,
  Sync s -> (forall b, NoDup (get_list s b)) ->
  (forall b, get_list (promote_addrs h addrs s) b =
             if mem b addrs then h :: remove_first h (get_list s b) else get_list s b) /\
  same_rest s (promote_addrs h addrs s) /\ Sync (promote_addrs h addrs s).
Proof.
  induction addrs as [|a r IH]; intros s SY ND; simpl.
  - split3; auto using same_rest_refl.
  - destruct (promote_addr_spec h a s SY) as (L1 & R1 & S1).
    destruct (IH (promote_addr h a s) S1) as (L2 & R2 & S2).
    + intros b. rewrite L1. neq b a; [|apply ND]. constructor; [apply rf_NoDup_notin|apply rf_NoDup]; apply ND.
    + split3; auto.
      * intros b. rewrite L2, (L1 b). unfold mem. simpl. destruct (N.eqb_spec b a) as [->|NE]; simpl.
        -- simpl. rewrite N.eqb_refl. destruct (existsb (N.eqb a) r); reflexivity.
        -- reflexivity.
      * eapply same_rest_trans; eauto.
Qed.

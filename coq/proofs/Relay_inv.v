(* C39: the invariant of the relay node model and its preservation by the elementary state updates:
   record-only updates ("frames"), host-list updates, AddRelay, tunnel deletion and insertion. *)
From Coq Require Import List NArith Bool Lia.
Import ListNotations.
From NV Require Import lib.Relay_lib gen.Tab_Relay model.Relay proofs.Relay_maps.
Open Scope N_scope.

(* ---- the invariant ------------------------------------------------------------------------------------ *)

(* [ns] switches on the clause that holds only for histories in which nobody asks for a relay to itself *)
Record Inv (ns : bool) (s : state) : Prop := mkInv {
  (* forwarding records exist only because this node was a relay, and never name one of its own addresses *)
  inv_fwd : forall h t r, tun s h = Some t -> In r (t_recs t) -> r_ty r = TFwd ->
            r_am r = true /\ is_me s (r_peer r) = false;
  (* address lists hold live tunnels certified for the address, once each *)
  inv_hosts : forall a x, In x (hostlist s a) -> exists t, tun s x = Some t /\ In a (t_addrs t) /\ t_alive t = true;
  inv_nodup : forall a, NoDup (hostlist s a);
  (* Indexes and Relays point to live tunnels; a Relays entry is backed by a record of that tunnel *)
  inv_index : forall i h, mget i (s_index s) = Some h -> exists t, tun s h = Some t /\ t_alive t = true /\ t_local t = i;
  inv_relays : forall i h, mget i (s_relays s) = Some h ->
               exists t, tun s h = Some t /\ t_alive t = true /\ exists r, In r (t_recs t) /\ r_idx r = i;
  inv_noself : ns = true -> forall h t r, tun s h = Some t -> In r (t_recs t) -> r_ty r = TFwd -> ~ In (r_peer r) (t_addrs t);
  (* one record per peer address (relayForByAddr is a map) *)
  inv_uniq : forall h t, tun s h = Some t -> NoDup (map r_peer (t_recs t))
}.

Lemma Inv_init ns me am : Inv ns (init me am).
Proof.
  constructor; unfold init, tun, hostlist; simpl; intros; try discriminate; try contradiction.
  constructor.
Qed.

(* ---- frames: updates that only rewrite record states / remote indexes / RelayState.relays ----------------- *)

Definition rec_static (r r' : relay) : Prop :=
  r_peer r' = r_peer r /\ r_idx r' = r_idx r /\ r_ty r' = r_ty r /\ r_am r' = r_am r /\ r_org r' = r_org r.

Definition tun_rel (P : rstate -> rstate -> Prop) (t t' : tunnel) : Prop :=
  t_addrs t' = t_addrs t /\ t_local t' = t_local t /\ t_alive t' = t_alive t /\ t_valid t' = t_valid t /\ t_v1 t' = t_v1 t /\
  Forall2 (fun r r' => rec_static r r' /\ P (r_st r) (r_st r')) (t_recs t) (t_recs t').

Definition frame (P : rstate -> rstate -> Prop) (s s' : state) : Prop :=
  s_me s' = s_me s /\ s_am s' = s_am s /\ s_hosts s' = s_hosts s /\ s_index s' = s_index s /\ s_relays s' = s_relays s /\
  forall x, match tun s x with
            | Some t => exists t', tun s' x = Some t' /\ tun_rel P t t'
            | None => tun s' x = None
            end.

Lemma rec_static_refl r : rec_static r r.
Proof. repeat split. Qed.

Lemma Forall2_refl {A} (R : A -> A -> Prop) l : (forall x, R x x) -> Forall2 R l l.
Proof. intros H. induction l; constructor; auto. Qed.

Lemma Forall2_map_r {A} (R : A -> A -> Prop) (f : A -> A) l : (forall x, R x (f x)) -> Forall2 R l (map f l).
Proof. intros H. induction l; simpl; constructor; auto. Qed.

Lemma Forall2_trans {A} (R1 R2 R3 : A -> A -> Prop) l1 l2 l3 :
  (forall x y z, R1 x y -> R2 y z -> R3 x z) -> Forall2 R1 l1 l2 -> Forall2 R2 l2 l3 -> Forall2 R3 l1 l3.
Proof.
  intros H F1. revert l3. induction F1; intros l3 F2; inversion F2; subst; constructor; eauto.
Qed.

Lemma Forall2_in_l {A} (R : A -> A -> Prop) l l' x : Forall2 R l l' -> In x l -> exists y, In y l' /\ R x y.
Proof.
  intros F. induction F; simpl; [tauto |]. intros [E|H'].
  - subst. eexists; split; [left; reflexivity | assumption].
  - destruct (IHF H') as [y' [I1 I2]]. exists y'. auto.
Qed.

Lemma Forall2_in_r {A} (R : A -> A -> Prop) l l' y : Forall2 R l l' -> In y l' -> exists x, In x l /\ R x y.
Proof.
  intros F. induction F; simpl; [tauto |]. intros [E|H'].
  - subst. eexists; split; [left; reflexivity | assumption].
  - destruct (IHF H') as [x' [I1 I2]]. exists x'. auto.
Qed.

Lemma Forall2_mono {A} (R1 R2 : A -> A -> Prop) l l' : (forall x y, R1 x y -> R2 x y) -> Forall2 R1 l l' -> Forall2 R2 l l'.
Proof. intros H F. induction F; constructor; auto. Qed.

Lemma tun_rel_refl (P : rstate -> rstate -> Prop) t : (forall a, P a a) -> tun_rel P t t.
Proof. intros R. repeat split. apply Forall2_refl. intros x. split; [apply rec_static_refl | apply R]. Qed.

Lemma frame_refl (P : rstate -> rstate -> Prop) s : (forall a, P a a) -> frame P s s.
Proof.
  intros R. repeat split. intros x. destruct (tun s x) as [t|] eqn:E; [| reflexivity].
  exists t. split; [reflexivity | now apply tun_rel_refl].
Qed.

Lemma tun_rel_trans (P : rstate -> rstate -> Prop) t1 t2 t3 :
  (forall a b c, P a b -> P b c -> P a c) -> tun_rel P t1 t2 -> tun_rel P t2 t3 -> tun_rel P t1 t3.
Proof.
  intros T (A1 & A2 & A3 & A4 & A5 & A6) (B1 & B2 & B3 & B4 & B5 & B6).
  repeat split; try congruence.
  eapply Forall2_trans; [| exact A6 | exact B6].
  intros x y z [(S1 & S2 & S3 & S4 & S5) Q1] [(U1 & U2 & U3 & U4 & U5) Q2].
  split; [repeat split; congruence | eauto].
Qed.

Lemma frame_trans (P : rstate -> rstate -> Prop) s1 s2 s3 :
  (forall a b c, P a b -> P b c -> P a c) -> frame P s1 s2 -> frame P s2 s3 -> frame P s1 s3.
Proof.
  intros T (A1 & A2 & A3 & A4 & A5 & A6) (B1 & B2 & B3 & B4 & B5 & B6).
  repeat split; try congruence. intros x. specialize (A6 x).
  destruct (tun s1 x) as [t1|].
  - destruct A6 as [t2 [E2 R12]]. specialize (B6 x). rewrite E2 in B6. destruct B6 as [t3 [E3 R23]].
    exists t3. split; [exact E3 | eapply tun_rel_trans; eauto].
  - specialize (B6 x). now rewrite A6 in B6.
Qed.

Lemma frame_weaken (P Q : rstate -> rstate -> Prop) s s' : (forall a b, P a b -> Q a b) -> frame P s s' -> frame Q s s'.
Proof.
  intros W (A1 & A2 & A3 & A4 & A5 & A6). repeat split; auto. intros x. specialize (A6 x).
  destruct (tun s x); [| exact A6]. destruct A6 as [t' [E (B1 & B2 & B3 & B4 & B5 & B6)]].
  exists t'. split; [exact E |]. repeat split; auto.
  eapply Forall2_mono; [| exact B6]. intros a b [S Q']. split; auto.
Qed.

Lemma frame_fold {A} (P : rstate -> rstate -> Prop) (g : state -> A -> state) l s :
  (forall a, P a a) -> (forall a b c, P a b -> P b c -> P a c) ->
  (forall s x, frame P s (g s x)) -> frame P s (fold_left g l s).
Proof.
  intros R T H. revert s. induction l as [|x l IH]; intros s; simpl.
  - now apply frame_refl.
  - eapply frame_trans; [exact T | apply H | apply IH].
Qed.

Lemma frame_with_tun (P : rstate -> rstate -> Prop) s h t t' : (forall a, P a a) -> tun s h = Some t -> tun_rel P t t' -> frame P s (with_tun s h t').
Proof.
  intros R E Rel. repeat split. intros x. rewrite tun_with_tun. destruct (x =? h) eqn:X.
  - apply N.eqb_eq in X. subst. rewrite E. exists t'. auto.
  - destruct (tun s x) as [tx|] eqn:Ex; [| reflexivity]. exists tx. split; [reflexivity | now apply tun_rel_refl].
Qed.

Lemma frame_map_recs (P : rstate -> rstate -> Prop) s h f :
  (forall a, P a a) -> (forall r, rec_static r (f r) /\ P (r_st r) (r_st (f r))) -> frame P s (map_recs h f s).
Proof.
  intros R H. unfold map_recs. destruct (tun s h) as [t|] eqn:E; [| now apply frame_refl].
  eapply frame_with_tun; [exact R | exact E |]. repeat split. simpl. now apply Forall2_map_r.
Qed.

Lemma frame_via (P : rstate -> rstate -> Prop) s h t l : (forall a, P a a) -> tun s h = Some t -> frame P s (with_tun s h (t_with_via t l)).
Proof.
  intros R E. eapply frame_with_tun; [exact R | exact E |]. repeat split. simpl.
  apply Forall2_refl. intros x. split; [apply rec_static_refl | apply R].
Qed.

(* the record updates of the model *)
Lemma frame_set_state_by_addr (P : rstate -> rstate -> Prop) s h a st : (forall x, P x x) -> (forall x, P x st) -> frame P s (set_state_by_addr h a st s).
Proof.
  intros R H. apply frame_map_recs; [exact R |]. intros r. destruct (r_peer r =? a); simpl.
  - split; [repeat split | apply H].
  - split; [apply rec_static_refl | apply R].
Qed.
Lemma frame_set_state_by_idx (P : rstate -> rstate -> Prop) s h i st : (forall x, P x x) -> (forall x, P x st) -> frame P s (set_state_by_idx h i st s).
Proof.
  intros R H. apply frame_map_recs; [exact R |]. intros r. destruct (r_idx r =? i); simpl.
  - split; [repeat split | apply H].
  - split; [apply rec_static_refl | apply R].
Qed.
Lemma frame_complete_by_addr (P : rstate -> rstate -> Prop) s h a rem : (forall x, P x x) -> (forall x, P x SEst) -> frame P s (complete_by_addr h a rem s).
Proof.
  intros R H. apply frame_map_recs; [exact R |]. intros r. destruct (r_peer r =? a); simpl.
  - split; [repeat split | apply H].
  - split; [apply rec_static_refl | apply R].
Qed.
Lemma frame_complete_by_idx (P : rstate -> rstate -> Prop) s h i rem : (forall x, P x x) -> (forall x, P x SEst) -> frame P s (complete_by_idx h i rem s).
Proof.
  intros R H. apply frame_map_recs; [exact R |]. intros r. destruct (r_idx r =? i); simpl.
  - split; [repeat split | apply H].
  - split; [apply rec_static_refl | apply R].
Qed.

Lemma frame_hostlist (P : rstate -> rstate -> Prop) s s' a : frame P s s' -> hostlist s' a = hostlist s a.
Proof. intros (_ & _ & H & _). unfold hostlist. now rewrite H. Qed.

Lemma frame_tun (P : rstate -> rstate -> Prop) s s' x t' : frame P s s' -> tun s' x = Some t' -> exists t, tun s x = Some t /\ tun_rel P t t'.
Proof.
  intros (_ & _ & _ & _ & _ & H) E. specialize (H x). destruct (tun s x) as [t|].
  - destruct H as [t2 [E2 R]]. rewrite E in E2. inversion E2; subst. eauto.
  - congruence.
Qed.

Lemma frame_tun_fwd (P : rstate -> rstate -> Prop) s s' x t : frame P s s' -> tun s x = Some t -> exists t', tun s' x = Some t' /\ tun_rel P t t'.
Proof. intros (_ & _ & _ & _ & _ & H) E. specialize (H x). now rewrite E in H. Qed.

Lemma Forall2_static_peers (P : rstate -> rstate -> Prop) l l' :
  Forall2 (fun r r' => rec_static r r' /\ P (r_st r) (r_st r')) l l' -> map r_peer l' = map r_peer l.
Proof. intros F. induction F as [|r r' l l' [(S1 & _) _] F IH]; simpl; [reflexivity | now rewrite S1, IH]. Qed.

Lemma Inv_frame ns (P : rstate -> rstate -> Prop) s s' : Inv ns s -> frame P s s' -> Inv ns s'.
Proof.
  intros I F. pose proof F as (Fme & Fam & Fh & Fi & Fr & Ft).
  constructor.
  - intros h t' r' E' In' Ty.
    destruct (frame_tun _ _ _ _ _ F E') as [t [E (_ & _ & _ & _ & _ & FA)]].
    destruct (Forall2_in_r _ _ _ _ FA In') as [r [Inr [(S1 & S2 & S3 & S4 & S5) _]]].
    destruct (inv_fwd _ _ I h t r E Inr) as [H1 H2]; [congruence |].
    unfold is_me in *. rewrite Fme, S1, S4. auto.
  - intros a x Hx. rewrite (frame_hostlist _ _ _ _ F) in Hx.
    destruct (inv_hosts _ _ I a x Hx) as [t [E [Ha Al]]].
    destruct (frame_tun_fwd _ _ _ _ _ F E) as [t' [E' (A1 & A2 & A3 & _)]].
    exists t'. rewrite A1, A3. auto.
  - intros a. rewrite (frame_hostlist _ _ _ _ F). apply (inv_nodup _ _ I).
  - intros i h Hi. rewrite Fi in Hi. destruct (inv_index _ _ I i h Hi) as [t [E [Al L]]].
    destruct (frame_tun_fwd _ _ _ _ _ F E) as [t' [E' (A1 & A2 & A3 & _)]].
    exists t'. rewrite A2, A3. auto.
  - intros i h Hi. rewrite Fr in Hi. destruct (inv_relays _ _ I i h Hi) as [t [E [Al [r [Inr Ix]]]]].
    destruct (frame_tun_fwd _ _ _ _ _ F E) as [t' [E' (A1 & A2 & A3 & _ & _ & FA)]].
    destruct (Forall2_in_l _ _ _ _ FA Inr) as [r' [Inr' [(S1 & S2 & _) _]]].
    exists t'. rewrite A3. repeat split; auto. exists r'. split; [exact Inr' | congruence].
  - intros Hns h t' r' E' In' Ty.
    destruct (frame_tun _ _ _ _ _ F E') as [t [E (A1 & _ & _ & _ & _ & FA)]].
    destruct (Forall2_in_r _ _ _ _ FA In') as [r [Inr [(S1 & S2 & S3 & S4 & S5) _]]].
    rewrite A1, S1. apply (inv_noself _ _ I Hns h t r E Inr). congruence.
  - intros h t' E'. destruct (frame_tun _ _ _ _ _ F E') as [t [E (_ & _ & _ & _ & _ & FA)]].
    rewrite (Forall2_static_peers _ _ _ FA). apply (inv_uniq _ _ I h t E).
Qed.

(* ---- relay.am_relay reload ------------------------------------------------------------------------------- *)
Lemma Inv_with_am ns s b : Inv ns s -> Inv ns (with_am s b).
Proof. intros I. destruct I. constructor; auto. Qed.

(* ---- host-list updates -------------------------------------------------------------------------------------- *)
Lemma Inv_set_list ns s a l :
  Inv ns s -> NoDup l -> (forall x, In x l -> exists t, tun s x = Some t /\ In a (t_addrs t) /\ t_alive t = true) ->
  Inv ns (set_list a l s).
Proof.
  intros I ND H. destruct (set_list_fields s a l) as (Fme & Fam & Ft & Fi & Fr).
  assert (TT : forall x, tun (set_list a l s) x = tun s x) by (intros; apply tun_set_list).
  constructor.
  - intros h t r E. rewrite TT in E. unfold is_me. rewrite Fme. apply (inv_fwd _ _ I h t r E).
  - intros a' x Hx. rewrite hostlist_set_list in Hx. rewrite TT. destruct (a' =? a) eqn:Ea.
    + apply N.eqb_eq in Ea. subst. auto.
    + apply (inv_hosts _ _ I a' x Hx).
  - intros a'. rewrite hostlist_set_list. destruct (a' =? a); [exact ND | apply (inv_nodup _ _ I)].
  - intros i h Hi. rewrite Fi in Hi. rewrite TT. apply (inv_index _ _ I i h Hi).
  - intros i h Hi. rewrite Fr in Hi. rewrite TT. apply (inv_relays _ _ I i h Hi).
  - intros Hns h t r E. rewrite TT in E. apply (inv_noself _ _ I Hns h t r E).
  - intros h t E. rewrite TT in E. apply (inv_uniq _ _ I h t E).
Qed.

Lemma Inv_promote_addr ns s h t a :
  Inv ns s -> tun s h = Some t -> t_alive t = true -> In a (t_addrs t) -> Inv ns (promote_addr h s a).
Proof.
  intros I E Al Ha. unfold promote_addr. destruct (optN_is (primary s a) h); [exact I |].
  destruct (remove_first_nodup h (hostlist s a) (inv_nodup _ _ I a)) as [ND Nin].
  apply Inv_set_list; [exact I | constructor; assumption |].
  intros x [Hx|Hx].
  - subst. eauto.
  - apply (inv_hosts _ _ I a x). eapply remove_first_subset; eauto.
Qed.

Lemma tun_promote_addr h s a x : tun (promote_addr h s a) x = tun s x.
Proof. unfold promote_addr. destruct (optN_is (primary s a) h); [reflexivity | apply tun_set_list]. Qed.

Lemma promote_addr_fields h s a :
  let s' := promote_addr h s a in
  s_me s' = s_me s /\ s_am s' = s_am s /\ s_tun s' = s_tun s /\ s_index s' = s_index s /\ s_relays s' = s_relays s.
Proof. unfold promote_addr. destruct (optN_is (primary s a) h); [auto | apply set_list_fields]. Qed.

Lemma Inv_promote_addrs ns h t l s :
  Inv ns s -> tun s h = Some t -> t_alive t = true -> (forall a, In a l -> In a (t_addrs t)) ->
  Inv ns (fold_left (promote_addr h) l s) /\
  s_me (fold_left (promote_addr h) l s) = s_me s /\ s_am (fold_left (promote_addr h) l s) = s_am s /\
  s_tun (fold_left (promote_addr h) l s) = s_tun s /\
  s_index (fold_left (promote_addr h) l s) = s_index s /\ s_relays (fold_left (promote_addr h) l s) = s_relays s.
Proof.
  revert s. induction l as [|a l IH]; intros s I E Al H; simpl; [auto 10 |].
  destruct (promote_addr_fields h s a) as (F1 & F2 & F3 & F4 & F5).
  destruct (IH (promote_addr h s a)) as (J & G1 & G2 & G3 & G4 & G5).
  - eapply Inv_promote_addr; eauto. apply H. now left.
  - now rewrite tun_promote_addr.
  - exact Al.
  - intros a' Ha'. apply H. now right.
  - split; [exact J | repeat split; congruence].
Qed.

Lemma live_alive ns s h : Inv ns s -> live s h = true -> exists t, tun s h = Some t /\ t_alive t = true.
Proof.
  intros I L. unfold live in L. destruct (tun s h) as [t|] eqn:E; [| discriminate].
  apply optN_is_true in L. destruct (inv_index _ _ I _ _ L) as [t' [E' [Al _]]].
  rewrite E in E'. inversion E'; subst. eauto.
Qed.

(* unlockedMakePrimary: only the address lists change *)
Lemma make_primary_spec ns s h s' ok :
  Inv ns s -> make_primary h s = (s', ok) ->
  Inv ns s' /\ s_me s' = s_me s /\ s_am s' = s_am s /\ s_tun s' = s_tun s /\ s_index s' = s_index s /\ s_relays s' = s_relays s /\
  (ok = true -> exists t, tun s h = Some t /\ t_alive t = true).
Proof.
  intros I M. unfold make_primary in M. destruct (tun s h) as [t|] eqn:E.
  - destruct (live s h) eqn:L; inversion M; subst; clear M.
    + destruct (live_alive _ _ _ I L) as [t' [E' Al]]. rewrite E in E'. inversion E'; subst t'.
      destruct (Inv_promote_addrs ns h t (t_addrs t) s I E Al (fun a H => H)) as (J & G1 & G2 & G3 & G4 & G5).
      refine (conj J (conj G1 (conj G2 (conj G3 (conj G4 (conj G5 _)))))). intros _. eauto.
    + refine (conj I (conj eq_refl (conj eq_refl (conj eq_refl (conj eq_refl (conj eq_refl _)))))). discriminate.
  - inversion M; subst. refine (conj I (conj eq_refl (conj eq_refl (conj eq_refl (conj eq_refl (conj eq_refl _)))))). discriminate.
Qed.

(* ---- AddRelay ------------------------------------------------------------------------------------------------ *)

Lemma rec_by_addr_none l a : rec_by_addr l a = None -> ~ In a (map r_peer l).
Proof.
  unfold rec_by_addr. intros H Hin. apply in_map_iff in Hin as [r [E Hr]].
  pose proof (find_none _ _ H r Hr) as F. simpl in F. subst a. now rewrite N.eqb_refl in F.
Qed.

Lemma NoDup_peers_ins x l : NoDup (map r_peer l) -> ~ In (r_peer x) (map r_peer l) -> NoDup (map r_peer (ins_rec x l)).
Proof.
  induction l as [|y l IH]; simpl; intros ND Nin.
  - constructor; [simpl; tauto | constructor].
  - destruct (r_idx x <? r_idx y); simpl.
    + constructor; [exact Nin | exact ND].
    + inversion ND as [|? ? Hy ND']; subst. constructor.
      * intros Hin. apply in_map_iff in Hin as [z [Ez Hz]]. apply in_ins_rec in Hz as [->|Hz].
        -- apply Nin. left. now symmetry.
        -- apply Hy. apply in_map_iff. eauto.
      * apply IH; [exact ND' | intros H; apply Nin; now right].
Qed.

(* what a successful AddRelay leaves behind, in terms of the state before *)
Definition added (s s' : state) (h : N) (r0 : relay) : Prop :=
  s_me s' = s_me s /\ s_am s' = s_am s /\ s_index s' = s_index s /\
  (forall i, mget i (s_relays s') = if i =? r_idx r0 then Some h else mget i (s_relays s)) /\
  (exists t, tun s h = Some t /\ t_alive t = true /\
             tun s' h = Some (t_with_recs t (ins_rec r0 (t_recs t)))) /\
  (forall x, x <> h -> tun s' x = tun s x).

Lemma add_relay_spec ns s h key rem ty st am org cs s' res cs' :
  Inv ns s ->
  (ty = TFwd -> am = true /\ is_me s key = false) ->
  (ns = true -> ty = TFwd -> forall t, tun s h = Some t -> ~ In key (t_addrs t)) ->
  (forall t, tun s h = Some t -> rec_by_addr (t_recs t) key = None) ->
  add_relay h key rem ty st am org cs s = (s', res, cs') ->
  Inv ns s' /\
  match res with
  | None => s' = s
  | Some i => mget i (s_relays s) = None /\ added s s' h (mkR key i rem ty st am org)
  end.
Proof.
  intros I Hf Hn Hab A. unfold add_relay in A.
  destruct (alloc_loop (N.to_nat add_relay_tries) cs (s_relays s)) as [[i|] cs0] eqn:AL.
  2:{ inversion A; subst. auto. }
  assert (Fresh : mget i (s_relays s) = None).
  { clear A. revert cs AL. generalize (N.to_nat add_relay_tries) as n. induction n as [|n IH]; intros cs AL; simpl in AL; [discriminate |].
    destruct (gen_index cs) as [[c cs1]|]; [| discriminate].
    destruct (mget c (s_relays s)) eqn:G; simpl in AL; [eapply IH; eauto | inversion AL; subst; exact G]. }
  destruct (make_primary h s) as [s1 ok] eqn:M.
  destruct (make_primary_spec ns s h s1 ok I M) as (J & G1 & G2 & G3 & G4 & G5 & G6).
  destruct ok.
  2:{ inversion A; subst. auto. }
  destruct (G6 eq_refl) as [t [E Al]].
  assert (E1 : tun s1 h = Some t) by (unfold tun; rewrite G3; exact E).
  rewrite E1 in A. inversion A; subst s' res cs'. clear A.
  set (r0 := mkR key i rem ty st am org).
  set (t' := t_with_recs t (ins_rec r0 (t_recs t))).
  assert (TT : forall x, tun (with_relays (with_tun s1 h t') (mset i h (s_relays s1))) x = if x =? h then Some t' else tun s1 x).
  { intros x. unfold with_relays, tun. simpl. apply mget_mset. }
  assert (HL : forall a, hostlist (with_relays (with_tun s1 h t') (mset i h (s_relays s1))) a = hostlist s1 a) by reflexivity.
  split.
  - constructor.
    + intros x tx r Ex Inr Ty. rewrite TT in Ex. unfold is_me; simpl. destruct (x =? h) eqn:X.
      * inversion Ex; subst tx. simpl in Inr. apply in_ins_rec in Inr as [Er|Inr].
        -- subst r. simpl in *. destruct (Hf Ty) as [H1 H2]. unfold is_me in H2. rewrite G1. auto.
        -- apply (inv_fwd _ _ J h t r E1 Inr Ty).
      * apply (inv_fwd _ _ J x tx r Ex Inr Ty).
    + intros a x Hx. rewrite HL in Hx. rewrite TT. destruct (inv_hosts _ _ J a x Hx) as [tx [Ex [Ha Alx]]].
      destruct (x =? h) eqn:X.
      * apply N.eqb_eq in X. subst x. rewrite E1 in Ex. inversion Ex; subst tx. exists t'. auto.
      * eauto.
    + intros a. rewrite HL. apply (inv_nodup _ _ J).
    + intros j x Hj. simpl in Hj. rewrite TT. destruct (inv_index _ _ J j x Hj) as [tx [Ex [Alx L]]].
      destruct (x =? h) eqn:X.
      * apply N.eqb_eq in X. subst x. rewrite E1 in Ex. inversion Ex; subst tx. exists t'. auto.
      * eauto.
    + intros j x Hj. simpl in Hj. rewrite mget_mset in Hj. rewrite TT. destruct (j =? i) eqn:Ji.
      * inversion Hj; subst x. rewrite N.eqb_refl. apply N.eqb_eq in Ji. subst j.
        exists t'. repeat split; auto. exists r0. split; [simpl; apply in_ins_rec; now left | reflexivity].
      * destruct (inv_relays _ _ J j x Hj) as [tx [Ex [Alx [r [Inr Ix]]]]].
        destruct (x =? h) eqn:X.
        -- apply N.eqb_eq in X. subst x. rewrite E1 in Ex. inversion Ex; subst tx.
           exists t'. repeat split; auto. exists r. split; [simpl; apply in_ins_rec; now right | exact Ix].
        -- exists tx. repeat split; auto. exists r. auto.
    + intros Hns x tx r Ex Inr Ty. rewrite TT in Ex. destruct (x =? h) eqn:X.
      * inversion Ex; subst tx. simpl in Inr. apply in_ins_rec in Inr as [Er|Inr].
        -- subst r. simpl in *. apply (Hn Hns Ty t E).
        -- apply (inv_noself _ _ J Hns h t r E1 Inr Ty).
      * apply (inv_noself _ _ J Hns x tx r Ex Inr Ty).
    + intros x tx Ex. rewrite TT in Ex. destruct (x =? h) eqn:X.
      * inversion Ex; subst tx. simpl. apply NoDup_peers_ins; [apply (inv_uniq _ _ J h t E1) |].
        simpl. apply rec_by_addr_none. apply (Hab t E).
      * apply (inv_uniq _ _ J x tx Ex).
  - split; [exact Fresh |]. unfold added. simpl. repeat split; auto.
    + intros j. rewrite mget_mset, G5. reflexivity.
    + exists t. repeat split; auto. rewrite TT, N.eqb_refl. reflexivity.
    + intros x Hx. rewrite TT. destruct (x =? h) eqn:X; [apply N.eqb_eq in X; contradiction |].
      unfold tun. now rewrite G3.
Qed.

(* ---- records persist: the relation used for the transition theorem ------------------------------------------------ *)

(* every tunnel and every record of s is still there in s', same address / index / type / ghost, its state related by P *)
Definition evolve (P : rstate -> rstate -> Prop) (s s' : state) : Prop :=
  s_me s' = s_me s /\
  forall x t, tun s x = Some t ->
    exists t', tun s' x = Some t' /\ t_addrs t' = t_addrs t /\ t_local t' = t_local t /\ t_valid t' = t_valid t /\
               (t_alive t = false -> t_alive t' = false) /\       (* a tunnel that left the hostmap never comes back *)
               forall r, In r (t_recs t) -> exists r', In r' (t_recs t') /\ rec_static r r' /\ P (r_st r) (r_st r').

Lemma evolve_refl (P : rstate -> rstate -> Prop) s : (forall a, P a a) -> evolve P s s.
Proof.
  intros R. split; [reflexivity |]. intros x t E. exists t. repeat split; auto.
  intros r Hr. exists r. split; [exact Hr | split; [apply rec_static_refl | apply R]].
Qed.

Lemma evolve_trans (P : rstate -> rstate -> Prop) s1 s2 s3 :
  (forall a b c, P a b -> P b c -> P a c) -> evolve P s1 s2 -> evolve P s2 s3 -> evolve P s1 s3.
Proof.
  intros T [M1 H1] [M2 H2]. split; [congruence |]. intros x t E.
  destruct (H1 x t E) as [t2 [E2 [A1 [A2 [A3 [A4 R1]]]]]].
  destruct (H2 x t2 E2) as [t3 [E3 [B1 [B2 [B3 [B4 R2]]]]]].
  exists t3. repeat split; try congruence; auto. intros r Hr.
  destruct (R1 r Hr) as [r2 [I2 [(S1 & S2 & S3 & S4 & S5) Q1]]].
  destruct (R2 r2 I2) as [r3 [I3 [(U1 & U2 & U3 & U4 & U5) Q2]]].
  exists r3. split; [exact I3 |]. split; [repeat split; congruence | eauto].
Qed.

Lemma evolve_weaken (P Q : rstate -> rstate -> Prop) s s' : (forall a b, P a b -> Q a b) -> evolve P s s' -> evolve Q s s'.
Proof.
  intros W [M H]. split; [exact M |]. intros x t E. destruct (H x t E) as [t' [E' [A1 [A2 [A3 [A4 R]]]]]].
  exists t'. repeat split; auto. intros r Hr. destruct (R r Hr) as [r' [I' [S Q']]]. exists r'. auto.
Qed.

Lemma frame_evolve (P : rstate -> rstate -> Prop) s s' : frame P s s' -> evolve P s s'.
Proof.
  intros F. pose proof F as (Fme & _). split; [exact Fme |]. intros x t E.
  destruct (frame_tun_fwd _ _ _ _ _ F E) as [t' [E' (A1 & A2 & A3 & A4 & A5 & FA)]].
  exists t'. repeat split; auto; [congruence |]. intros r Hr.
  destruct (Forall2_in_l _ _ _ _ FA Hr) as [r' [I' [S Q]]]. exists r'. auto.
Qed.

(* same tunnels (records included), possibly other maps *)
Lemma evolve_same_tun (P : rstate -> rstate -> Prop) s s' :
  (forall a, P a a) -> s_me s' = s_me s -> s_tun s' = s_tun s -> evolve P s s'.
Proof.
  intros R M T. split; [exact M |]. intros x t E. exists t. unfold tun in *. rewrite T. repeat split; auto.
  intros r Hr. exists r. split; [exact Hr | split; [apply rec_static_refl | apply R]].
Qed.

(* ---- shrinking Indexes / Relays ---------------------------------------------------------------------------------------- *)
Lemma Inv_shrink ns s s' :
  Inv ns s -> s_me s' = s_me s -> s_tun s' = s_tun s -> s_hosts s' = s_hosts s ->
  (forall i h, mget i (s_index s') = Some h -> mget i (s_index s) = Some h) ->
  (forall i h, mget i (s_relays s') = Some h -> mget i (s_relays s) = Some h) ->
  Inv ns s'.
Proof.
  intros I M T H Hi Hr.
  assert (TT : forall x, tun s' x = tun s x) by (intros; unfold tun; now rewrite T).
  assert (HL : forall a, hostlist s' a = hostlist s a) by (intros; unfold hostlist; now rewrite H).
  constructor.
  - intros h t r E. rewrite TT in E. unfold is_me. rewrite M. apply (inv_fwd _ _ I h t r E).
  - intros a x Hx. rewrite HL in Hx. rewrite TT. apply (inv_hosts _ _ I a x Hx).
  - intros a. rewrite HL. apply (inv_nodup _ _ I).
  - intros i h Hh. rewrite TT. apply (inv_index _ _ I i h (Hi _ _ Hh)).
  - intros i h Hh. rewrite TT. apply (inv_relays _ _ I i h (Hr _ _ Hh)).
  - intros Hns h t r E. rewrite TT in E. apply (inv_noself _ _ I Hns h t r E).
  - intros h t E. rewrite TT in E. apply (inv_uniq _ _ I h t E).
Qed.

(* ---- tunnel deletion ------------------------------------------------------------------------------------------------------ *)

Definition to_dis (a b : rstate) : Prop := a = b \/ b = SDis.
Lemma to_dis_refl a : to_dis a a. Proof. now left. Qed.
Lemma to_dis_trans a b c : to_dis a b -> to_dis b c -> to_dis a c.
Proof. unfold to_dis. intros [H1|H1] [H2|H2]; subst; auto. Qed.

Lemma del_addrs_spec ns h l : forall s f s1 f1,
  Inv ns s -> fold_left (del_addr h) l (s, f) = (s1, f1) ->
  Inv ns s1 /\ s_me s1 = s_me s /\ s_am s1 = s_am s /\ s_tun s1 = s_tun s /\ s_index s1 = s_index s /\ s_relays s1 = s_relays s /\
  (forall a x, In x (hostlist s1 a) -> In x (hostlist s a)) /\
  (forall a, In a l -> ~ In h (hostlist s1 a)) /\
  (forall a, ~ In h (hostlist s a) -> ~ In h (hostlist s1 a)).
Proof.
  induction l as [|a l IH]; intros s f s1 f1 I F; cbn [fold_left] in F.
  - inversion F; subst. split; [exact I | repeat split; auto].
  - destruct (del_addr h (s, f) a) as [sm fm] eqn:D.
    assert (Hm : Inv ns sm /\ s_me sm = s_me s /\ s_am sm = s_am s /\ s_tun sm = s_tun s /\ s_index sm = s_index s /\
                 s_relays sm = s_relays s /\ (forall a' x, In x (hostlist sm a') -> In x (hostlist s a')) /\ ~ In h (hostlist sm a)).
    { unfold del_addr in D. destruct (memN h (hostlist s a)) eqn:Mh.
      - inversion D; subst sm fm. clear D.
        destruct (remove_first_nodup h (hostlist s a) (inv_nodup _ _ I a)) as [ND Nin].
        destruct (set_list_fields s a (remove_first h (hostlist s a))) as (F1 & F2 & F3 & F4 & F5).
        split; [| repeat split; auto].
        + apply Inv_set_list; [exact I | exact ND |]. intros x Hx. apply (inv_hosts _ _ I a x).
          eapply remove_first_subset; eauto.
        + intros a' x Hx. rewrite hostlist_set_list in Hx. destruct (a' =? a) eqn:Ea; [| exact Hx].
          apply N.eqb_eq in Ea. subst. eapply remove_first_subset; eauto.
        + rewrite hostlist_set_list, N.eqb_refl. exact Nin.
      - apply memN_false in Mh. assert (Es : sm = s) by (destruct (hostlist s a); inversion D; reflexivity).
        subst sm. split; [exact I | repeat split; auto]. }
    destruct Hm as (Im & M1 & M2 & M3 & M4 & M5 & M6 & M7).
    destruct (IH sm fm s1 f1 Im F) as (J & G1 & G2 & G3 & G4 & G5 & G6 & G7 & G8).
    split; [exact J |]. repeat split; try congruence.
    + intros a' x Hx. apply M6, G6, Hx.
    + intros a' [Ea|Ha'].
      * subst a'. apply G8. exact M7.
      * apply G7, Ha'.
    + intros a' Hn. apply G8. intros Hc. apply Hn. apply M6. exact Hc.
Qed.

Lemma frame_dis_addr key s a : frame to_dis s (dis_addr key s a).
Proof.
  unfold dis_addr. apply frame_fold; [apply to_dis_refl | apply to_dis_trans |].
  intros s0 x. apply frame_set_state_by_addr; [apply to_dis_refl | intros; now right].
Qed.

Lemma frame_disestablish t s : frame to_dis s (disestablish t s).
Proof.
  unfold disestablish.
  apply frame_trans with (s2 := fold_left (dis_addr (addr0 t)) (t_via t) s); [apply to_dis_trans | |].
  - apply frame_fold; [apply to_dis_refl | apply to_dis_trans |]. intros s0 x. apply frame_dis_addr.
  - apply frame_fold; [apply to_dis_refl | apply to_dis_trans |]. intros s0 r.
    destruct (r_ty r); [apply frame_dis_addr | apply frame_refl, to_dis_refl].
Qed.

Lemma del_rels_spec h is : forall m i x, mget i (del_rels h is m) = Some x -> mget i m = Some x /\ (x = h -> ~ In i is).
Proof.
  induction is as [|j is IH]; intros m i x H; simpl in H.
  - split; [exact H | tauto].
  - apply IH in H as [H1 H2]. destruct (optN_is (mget j m) h) eqn:O.
    + rewrite mget_mdel in H1. destruct (i =? j) eqn:E; [discriminate |]. split; [exact H1 |].
      intros Hx [Hj|Hi]; [subst; now rewrite N.eqb_refl in E | now apply H2].
    + split; [exact H1 |]. intros Hx [Hj|Hi]; [| now apply H2].
      subst. rewrite H1 in O. simpl in O. now rewrite N.eqb_refl in O.
Qed.

Lemma Inv_kill ns s h :
  Inv ns s -> (forall a, ~ In h (hostlist s a)) -> (forall i, mget i (s_index s) <> Some h) ->
  (forall i, mget i (s_relays s) <> Some h) -> Inv ns (kill h s).
Proof.
  intros I Hh Hi Hr. unfold kill. destruct (tun s h) as [t|] eqn:E; [| exact I].
  assert (TT : forall x, tun (with_tun s h (t_dead t)) x = if x =? h then Some (t_dead t) else tun s x) by (intros; apply tun_with_tun).
  constructor.
  - intros x tx r Ex. rewrite TT in Ex. destruct (x =? h) eqn:X.
    + inversion Ex; subst tx. simpl. apply (inv_fwd _ _ I h t r E).
    + apply (inv_fwd _ _ I x tx r Ex).
  - intros a x Hx. change (hostlist (with_tun s h (t_dead t)) a) with (hostlist s a) in Hx. rewrite TT.
    destruct (x =? h) eqn:X; [apply N.eqb_eq in X; subst; exfalso; eapply Hh; eauto |].
    apply (inv_hosts _ _ I a x Hx).
  - intros a. apply (inv_nodup _ _ I a).
  - intros i x Hx. simpl in Hx. rewrite TT. destruct (x =? h) eqn:X; [apply N.eqb_eq in X; subst; exfalso; eapply Hi; eauto |].
    apply (inv_index _ _ I i x Hx).
  - intros i x Hx. simpl in Hx. rewrite TT. destruct (x =? h) eqn:X; [apply N.eqb_eq in X; subst; exfalso; eapply Hr; eauto |].
    apply (inv_relays _ _ I i x Hx).
  - intros Hns x tx r Ex. rewrite TT in Ex. destruct (x =? h) eqn:X.
    + inversion Ex; subst tx. simpl. apply (inv_noself _ _ I Hns h t r E).
    + apply (inv_noself _ _ I Hns x tx r Ex).
  - intros x tx Ex. rewrite TT in Ex. destruct (x =? h) eqn:X.
    + inversion Ex; subst tx. simpl. apply (inv_uniq _ _ I h t E).
    + apply (inv_uniq _ _ I x tx Ex).
Qed.

(* unlockedDeleteHostInfo *)
Lemma delete_tunnel_spec ns s h :
  Inv ns s ->
  let s' := delete_tunnel h s in
  Inv ns s' /\ evolve to_dis s s' /\ s_am s' = s_am s /\
  (forall t, tun s h = Some t -> exists t', tun s' h = Some t' /\ t_alive t' = false) /\
  (forall x t, x <> h -> tun s x = Some t -> exists t', tun s' x = Some t' /\ t_alive t' = t_alive t) /\
  (forall a x, In x (hostlist s' a) -> In x (hostlist s a) /\ x <> h) /\
  (forall x, tun s x = None -> tun s' x = None).
Proof.
  intros I. unfold delete_tunnel. destruct (tun s h) as [t|] eqn:E.
  2:{ simpl. split; [exact I |]. split; [apply evolve_refl, to_dis_refl |]. repeat split; auto; try discriminate.
      - intros x t _ Ex. eauto.
      - intros Ex. subst. match goal with Hx : In _ (hostlist s _) |- _ => destruct (inv_hosts _ _ I _ _ Hx) as [tx [Etx _]] end. congruence. }
  destruct (fold_left (del_addr h) (t_addrs t) (s, true)) as [s1 final] eqn:D.
  destruct (del_addrs_spec ns h (t_addrs t) s true s1 final I D) as (I1 & M1 & A1 & T1 & X1 & R1 & Sub & Nin & _).
  assert (Hno : forall a, ~ In h (hostlist s1 a)).
  { intros a Ha. pose proof (Sub a h Ha) as Hs. destruct (inv_hosts _ _ I a h Hs) as [t0 [E0 [Ha0 _]]].
    rewrite E in E0. inversion E0; subst t0. exact (Nin a Ha0 Ha). }
  set (s2 := if optN_is (mget (t_local t) (s_index s1)) h then with_index s1 (mdel (t_local t) (s_index s1)) else s1).
  assert (P2 : s_me s2 = s_me s1 /\ s_am s2 = s_am s1 /\ s_tun s2 = s_tun s1 /\ s_hosts s2 = s_hosts s1 /\ s_relays s2 = s_relays s1 /\
               (forall i x, mget i (s_index s2) = Some x -> mget i (s_index s1) = Some x /\ x <> h)).
  { unfold s2. destruct (optN_is (mget (t_local t) (s_index s1)) h) eqn:O; simpl; repeat split; auto.
    - rewrite mget_mdel in H. destruct (i =? t_local t); [discriminate | exact H].
    - intros Hx. subst x. rewrite mget_mdel in H. destruct (i =? t_local t) eqn:Ei; [discriminate |].
      rewrite X1 in H. destruct (inv_index _ _ I i h H) as [t0 [E0 [_ L0]]]. rewrite E in E0. inversion E0; subst t0.
      subst i. now rewrite N.eqb_refl in Ei.
    - intros Hx. subst x. rewrite X1 in H. destruct (inv_index _ _ I i h H) as [t0 [E0 [_ L0]]]. rewrite E in E0.
      inversion E0; subst t0. subst i. rewrite X1 in O. rewrite H in O. simpl in O. now rewrite N.eqb_refl in O. }
  destruct P2 as (M2 & A2 & T2 & H2 & R2 & X2).
  assert (I2 : Inv ns s2).
  { apply (Inv_shrink ns s1 s2 I1 M2 T2 H2); [intros i x Hx; apply (X2 i x Hx) | intros i x Hx; now rewrite R2 in Hx]. }
  set (s3 := if final then disestablish t s2 else s2).
  assert (F3 : frame to_dis s2 s3).
  { unfold s3. destruct final; [apply frame_disestablish | apply frame_refl, to_dis_refl]. }
  pose proof (Inv_frame ns to_dis s2 s3 I2 F3) as I3.
  pose proof F3 as (M3 & A3 & H3 & X3 & R3 & _).
  set (s4 := with_relays s3 (del_rels h (map r_idx (t_recs t)) (s_relays s3))).
  assert (I4 : Inv ns s4).
  { apply (Inv_shrink ns s3 s4 I3); try reflexivity; auto. intros i x Hx. simpl in Hx. apply del_rels_spec in Hx. tauto. }
  assert (E2 : tun s2 h = Some t) by (unfold tun; rewrite T2, T1; exact E).
  destruct (frame_tun_fwd _ _ _ _ _ F3 E2) as [t3 [E3 (B1 & B2 & B3 & B4 & B5 & FA)]].
  assert (HL4 : forall a, hostlist s4 a = hostlist s1 a).
  { intros a. unfold hostlist. simpl. now rewrite H3, H2. }
  assert (K : Inv ns (kill h s4)).
  { apply Inv_kill; [exact I4 | | |].
    - intros a. rewrite HL4. apply Hno.
    - intros i Hi. simpl in Hi. rewrite X3 in Hi. apply X2 in Hi. now destruct Hi.
    - intros i Hi. simpl in Hi. apply del_rels_spec in Hi as [Hi1 Hi2].
      rewrite R3, R2, R1 in Hi1. destruct (inv_relays _ _ I i h Hi1) as [t0 [E0 [_ [r [Inr Ix]]]]].
      rewrite E in E0. inversion E0; subst t0. apply (Hi2 eq_refl). subst i. apply in_map. exact Inr. }
  assert (TK : forall x, tun (kill h s4) x = if x =? h then Some (t_dead t3) else tun s3 x).
  { intros x. unfold kill. change (tun s4 h) with (tun s3 h). rewrite E3. rewrite tun_with_tun. reflexivity. }
  split; [exact K |]. split; [| split; [| split; [| split; [| split]]]].
  - (* evolve *)
    split; [unfold kill; change (tun s4 h) with (tun s3 h); rewrite E3; simpl; congruence |].
    intros x tx Ex. assert (Ex2 : tun s2 x = Some tx) by (unfold tun; rewrite T2, T1; exact Ex).
    destruct (frame_tun_fwd _ _ _ _ _ F3 Ex2) as [tx3 [Ex3 (C1 & C2 & C3 & C4 & C5 & FAx)]].
    rewrite TK. destruct (x =? h) eqn:X.
    + apply N.eqb_eq in X. subst x. rewrite E3 in Ex3. inversion Ex3; subst tx3.
      exists (t_dead t3). simpl. repeat split; auto. intros r Hr.
      destruct (Forall2_in_l _ _ _ _ FAx Hr) as [r' [I' [S Q]]]. exists r'. auto.
    + exists tx3. repeat split; auto; [congruence |]. intros r Hr.
      destruct (Forall2_in_l _ _ _ _ FAx Hr) as [r' [I' [S Q]]]. exists r'. auto.
  - unfold kill. change (tun s4 h) with (tun s3 h). rewrite E3. simpl. congruence.
  - intros t0 _. rewrite TK, N.eqb_refl. eexists. split; [reflexivity | reflexivity].
  - intros x tx Hx Ex. rewrite TK. destruct (x =? h) eqn:X; [apply N.eqb_eq in X; contradiction |].
    assert (Ex2 : tun s2 x = Some tx) by (unfold tun; rewrite T2, T1; exact Ex).
    destruct (frame_tun_fwd _ _ _ _ _ F3 Ex2) as [tx3 [Ex3 (C1 & C2 & C3 & _)]]. exists tx3. auto.
  - intros a x Hx. assert (Hx1 : In x (hostlist s1 a)).
    { unfold kill in Hx. change (tun s4 h) with (tun s3 h) in Hx. rewrite E3 in Hx.
      change (hostlist (with_tun s4 h (t_dead t3)) a) with (hostlist s4 a) in Hx. now rewrite HL4 in Hx. }
    split; [apply Sub, Hx1 |]. intros Hc. subst x. exact (Hno a Hx1).
  - intros x Ex. rewrite TK. destruct (x =? h) eqn:X; [apply N.eqb_eq in X; subst; congruence |].
    assert (Ex2 : tun s2 x = None) by (unfold tun; rewrite T2, T1; exact Ex).
    pose proof F3 as (_ & _ & _ & _ & _ & Ft). specialize (Ft x). now rewrite Ex2 in Ft.
Qed.

(* ---- tunnel insertion --------------------------------------------------------------------------------------------------- *)

Lemma max_hostinfos_pos : 1 <= max_hostinfos_per_vpnip.
Proof. vm_compute. discriminate. Qed.

Lemma last_in_tail (x : N) rest d : rest <> [] -> In (last (x :: rest) d) rest.
Proof.
  revert x. induction rest as [|y rest IH]; intros x H; [congruence |].
  destruct rest as [|z rest'].
  - simpl. now left.
  - right. change (last (x :: y :: z :: rest') d) with (last (y :: z :: rest') d). apply IH. discriminate.
Qed.

Lemma inner_add_spec ns id s a t :
  Inv ns s -> tun s id = Some t -> t_alive t = true -> In a (t_addrs t) ->
  let s' := inner_add id s a in
  Inv ns s' /\ evolve to_dis s s' /\ s_am s' = s_am s /\
  (exists t', tun s' id = Some t' /\ t_alive t' = true /\ t_addrs t' = t_addrs t /\ t_local t' = t_local t) /\
  (forall x, tun s x = None -> tun s' x = None).
Proof.
  intros I E Al Ha. unfold inner_add. destruct (hostlist s a) as [|e r] eqn:HL.
  - destruct (set_list_fields s a [id]) as (F1 & F2 & F3 & F4 & F5).
    split; [| split; [| split; [| split]]].
    + apply Inv_set_list; [exact I | constructor; [simpl; tauto | constructor] |].
      intros x [Hx|[]]. subst. eauto.
    + apply evolve_same_tun; [apply to_dis_refl | exact F1 | exact F3].
    + exact F2.
    + exists t. rewrite tun_set_list. auto.
    + intros x Hx. now rewrite tun_set_list.
  - set (rest := remove_first id (e :: r)). set (l := id :: rest).
    assert (NDold : NoDup (e :: r)) by (rewrite <- HL; apply (inv_nodup _ _ I)).
    destruct (remove_first_nodup id (e :: r) NDold) as [ND Nin]. fold rest in ND, Nin.
    destruct (set_list_fields s a l) as (F1 & F2 & F3 & F4 & F5).
    assert (I1 : Inv ns (set_list a l s)).
    { apply Inv_set_list; [exact I | constructor; assumption |]. intros x [Hx|Hx].
      - subst. eauto.
      - apply (inv_hosts _ _ I a x). rewrite HL. eapply remove_first_subset; eauto. }
    assert (Ev1 : evolve to_dis s (set_list a l s)) by (apply evolve_same_tun; [apply to_dis_refl | exact F1 | exact F3]).
    destruct (max_hostinfos_per_vpnip <? N.of_nat (length l)) eqn:Cap.
    + set (o := last l id).
      assert (No : o <> id).
      { assert (Hr : rest <> []).
        { intros Hr. unfold l in Cap. rewrite Hr in Cap. simpl in Cap. apply N.ltb_lt in Cap.
          pose proof max_hostinfos_pos. lia. }
        pose proof (last_in_tail id rest id Hr) as Hl. fold l in Hl. fold o in Hl.
        intros Eo. rewrite Eo in Hl. contradiction. }
      destruct (delete_tunnel_spec ns (set_list a l s) o I1) as (J & Ev & Am & _ & Keep & _ & Non).
      split; [exact J |]. split; [| split; [| split]].
      * eapply evolve_trans; [apply to_dis_trans | exact Ev1 | exact Ev].
      * rewrite Am. exact F2.
      * assert (E1 : tun (set_list a l s) id = Some t) by (rewrite tun_set_list; exact E).
        destruct Ev as [_ Ev]. destruct (Ev id t E1) as [t' [E' [B1 [B2 [B3 _]]]]].
        destruct (Keep id t (fun H => No (eq_sym H)) E1) as [t'' [E'' Al'']]. rewrite E' in E''. inversion E''; subst t''.
        exists t'. repeat split; auto. congruence.
      * intros x Hx. apply Non. now rewrite tun_set_list.
    + split; [exact I1 |]. split; [exact Ev1 |]. split; [exact F2 |]. split.
      * exists t. rewrite tun_set_list. auto.
      * intros x Hx. now rewrite tun_set_list.
Qed.

Lemma inner_adds_spec ns id l : forall s t,
  Inv ns s -> tun s id = Some t -> t_alive t = true -> (forall a, In a l -> In a (t_addrs t)) ->
  let s' := fold_left (inner_add id) l s in
  Inv ns s' /\ evolve to_dis s s' /\ s_am s' = s_am s /\
  (exists t', tun s' id = Some t' /\ t_alive t' = true /\ t_addrs t' = t_addrs t /\ t_local t' = t_local t) /\
  (forall x, tun s x = None -> tun s' x = None).
Proof.
  induction l as [|a l IH]; intros s t I E Al H; cbn [fold_left].
  - split; [exact I |]. split; [apply evolve_refl, to_dis_refl |]. split; [reflexivity |]. split; [exists t; auto | auto].
  - destruct (inner_add_spec ns id s a t I E Al (H a (or_introl eq_refl))) as (I1 & Ev1 & Am1 & [t1 [E1 [Al1 [Ad1 Lo1]]]] & N1).
    destruct (IH (inner_add id s a) t1 I1 E1 Al1) as (I2 & Ev2 & Am2 & [t2 [E2 [Al2 [Ad2 Lo2]]]] & N2).
    { intros a' Ha'. rewrite Ad1. apply H. now right. }
    split; [exact I2 |]. split; [eapply evolve_trans; [apply to_dis_trans | exact Ev1 | exact Ev2] |].
    split; [congruence |]. split; [exists t2; repeat split; auto; congruence | auto].
Qed.

Lemma Inv_new_tunnel ns s id t :
  Inv ns s -> tun s id = None -> t_recs t = [] -> Inv ns (with_tun s id t).
Proof.
  intros I E R.
  assert (TT : forall x, tun (with_tun s id t) x = if x =? id then Some t else tun s x) by (intros; apply tun_with_tun).
  assert (Old : forall x tx, tun s x = Some tx -> (x =? id) = false).
  { intros x tx Ex. destruct (x =? id) eqn:X; [| reflexivity]. apply N.eqb_eq in X. subst. congruence. }
  constructor.
  - intros x tx r Ex. rewrite TT in Ex. destruct (x =? id) eqn:X.
    + inversion Ex; subst. rewrite R. simpl. tauto.
    + apply (inv_fwd _ _ I x tx r Ex).
  - intros a x Hx. change (hostlist (with_tun s id t) a) with (hostlist s a) in Hx.
    destruct (inv_hosts _ _ I a x Hx) as [tx [Ex H]]. rewrite TT, (Old x tx Ex). eauto.
  - intros a. apply (inv_nodup _ _ I a).
  - intros i x Hx. simpl in Hx. destruct (inv_index _ _ I i x Hx) as [tx [Ex H]]. rewrite TT, (Old x tx Ex). eauto.
  - intros i x Hx. simpl in Hx. destruct (inv_relays _ _ I i x Hx) as [tx [Ex H]]. rewrite TT, (Old x tx Ex). eauto.
  - intros Hns x tx r Ex. rewrite TT in Ex. destruct (x =? id) eqn:X.
    + inversion Ex; subst. rewrite R. simpl. tauto.
    + apply (inv_noself _ _ I Hns x tx r Ex).
  - intros x tx Ex. rewrite TT in Ex. destruct (x =? id) eqn:X.
    + inversion Ex; subst. rewrite R. constructor.
    + apply (inv_uniq _ _ I x tx Ex).
Qed.

Lemma Inv_set_index ns s id t :
  Inv ns s -> tun s id = Some t -> t_alive t = true -> Inv ns (with_index s (mset (t_local t) id (s_index s))).
Proof.
  intros I E Al. constructor.
  - intros h tx r Ex. apply (inv_fwd _ _ I h tx r Ex).
  - intros a x Hx. apply (inv_hosts _ _ I a x Hx).
  - intros a. apply (inv_nodup _ _ I a).
  - intros i x Hx. simpl in Hx. rewrite mget_mset in Hx. destruct (i =? t_local t) eqn:Ei.
    + inversion Hx; subst x. apply N.eqb_eq in Ei. subst i. exists t. auto.
    + apply (inv_index _ _ I i x Hx).
  - intros i x Hx. apply (inv_relays _ _ I i x Hx).
  - intros Hns h tx r Ex. apply (inv_noself _ _ I Hns h tx r Ex).
  - intros h tx Ex. apply (inv_uniq _ _ I h tx Ex).
Qed.

(* unlockedAddHostInfo *)
Lemma add_tunnel_spec ns s id addrs local valid v1 :
  Inv ns s ->
  let s' := add_tunnel id addrs local valid v1 s in
  Inv ns s' /\ evolve to_dis s s' /\ s_am s' = s_am s.
Proof.
  intros I. unfold add_tunnel. destruct addrs as [|a0 addrs'] eqn:EA.
  { split; [exact I |]. split; [apply evolve_refl, to_dis_refl | reflexivity]. }
  rewrite <- EA. destruct (tun s id) as [t0|] eqn:E; simpl.
  { split; [exact I |]. split; [apply evolve_refl, to_dis_refl | reflexivity]. }
  set (t := mkT addrs local valid v1 [] [] true).
  assert (I0 : Inv ns (with_tun s id t)) by (apply Inv_new_tunnel; auto).
  assert (E0 : tun (with_tun s id t) id = Some t) by (rewrite tun_with_tun, N.eqb_refl; reflexivity).
  assert (Ev0 : evolve to_dis s (with_tun s id t)).
  { split; [reflexivity |]. intros x tx Ex. exists tx. rewrite tun_with_tun.
    destruct (x =? id) eqn:X; [apply N.eqb_eq in X; subst; congruence |]. repeat split; auto.
    intros r Hr. exists r. split; [exact Hr | split; [apply rec_static_refl | apply to_dis_refl]]. }
  destruct (inner_adds_spec ns id addrs (with_tun s id t) t I0 E0 eq_refl (fun a H => H))
    as (I1 & Ev1 & Am1 & [t1 [E1 [Al1 [Ad1 Lo1]]]] & _).
  split; [| split].
  - replace local with (t_local t1) by (rewrite Lo1; reflexivity). apply Inv_set_index; auto.
  - eapply evolve_trans; [apply to_dis_trans | exact Ev0 |].
    eapply evolve_trans; [apply to_dis_trans | exact Ev1 |].
    apply evolve_same_tun; [apply to_dis_refl | reflexivity | reflexivity].
  - simpl. rewrite Am1. reflexivity.
Qed.

(* RelayState.InsertRelayTo *)
Lemma insert_via_frame s h ip : frame eq s (insert_via h ip s).
Proof.
  unfold insert_via. destruct (tun s h) as [t|] eqn:E; [| apply frame_refl; auto].
  destruct (memN ip (t_via t)); [apply frame_refl; auto | apply frame_via; auto].
Qed.
